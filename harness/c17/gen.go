package main

import (
	"math/rand/v2"
)

// profile shapes one sequence.
type profile struct {
	Name     string `json:"name"`
	Ops      int    `json:"ops"`       // ops after the bulk load
	Fill     int    `json:"fill"`      // bulk-load this many entries first with batches of 3000..12000 (tiny payloads)
	SizeFill int    `json:"size_fill"` // bulk-load this many MiB with entries of 2..7 MiB (rotation on the data-area limit)
	Install  bool   `json:"install"`   // start with a snapshot ahead of the empty log
	BigBatch bool   `json:"big_batch"` // allow 1000..12000-entry batches after the bulk load
	Deep     bool   `json:"deep"`      // the forced conflict goes into the oldest file (two or more files are discarded)
}

type gen struct {
	r       *runner
	rng     *rand.Rand
	p       profile
	curTerm uint64
	commit  uint64
	salt    uint32
	filled  int
	filledB int
	step    int
	forceX  int // step at which a conflict into a rotated file is forced (rot profiles)
	reopenQ int // >0: reopen due within this many steps
	started bool
}

func newGen(r *runner, rng *rand.Rand, p profile) *gen {
	g := &gen{r: r, rng: rng, p: p, curTerm: 1 + rng.Uint64N(5)}
	g.forceX = 1 + rng.IntN(max(1, min(8, p.Ops-3)))
	return g
}

func (g *gen) nextSalt() uint32 { g.salt++; return g.salt*2654435761 + uint32(g.rng.Uint32()&0xffff) }

func (g *gen) hs(newLast uint64) *HS {
	switch x := g.rng.IntN(10); {
	case x < 2:
		return nil
	case x < 3:
		return &HS{}
	}
	if newLast > g.commit {
		g.commit += g.rng.Uint64N(newLast - g.commit + 1)
	}
	if g.commit > newLast {
		g.commit = newLast
	}
	return &HS{Term: g.curTerm, Vote: 1 + g.rng.Uint64N(3), Commit: g.commit}
}

// lowBound: raft never rewrites an entry at or below its snapshot.
func (g *gen) lowBound() uint64 {
	m := g.r.m
	lb := m.first()
	if s := m.snap.Metadata.Index + 1; s > lb {
		lb = s
	}
	return lb
}

func (g *gen) appendAtEnd(n int) Op {
	m := g.r.m
	first := m.lastEnt() + 1
	if m.empty() {
		first = m.snap.Metadata.Index + 1
	}
	if g.rng.IntN(7) == 0 {
		g.curTerm++
	}
	op := Op{K: "save", First: first, N: n, Term: g.curTerm, Salt: g.nextSalt(), SnapArg: g.rng.IntN(2)}
	if n > 2 && g.rng.IntN(10) == 0 {
		op.Term2At = 1 + g.rng.IntN(n-1)
		g.curTerm++
	}
	op.HS = g.hs(first + uint64(n) - 1)
	return op
}

func (g *gen) smallPayload(op *Op) {
	switch x := g.rng.IntN(20); {
	case x < 2:
		op.Size, op.Vary = 0, 0 // empty payloads (raft's own empty entries)
	case x < 5:
		op.Size, op.Vary = 0, 24 // mixture incl. empty
	case x < 16:
		op.Size, op.Vary = 1+g.rng.IntN(60), 1+g.rng.IntN(40)
	default:
		op.Size, op.Vary = 200+g.rng.IntN(3000), 500
	}
	if op.N <= 400 && g.rng.IntN(12) == 0 {
		op.Big = []Big{{At: g.rng.IntN(op.N), Size: 20<<10 + g.rng.IntN(400<<10)}}
	}
}

// conflictTarget picks an index in [lowBound,last] for a conflicting append; deep says
// whether it may reach behind the current file.
func (g *gen) conflictTarget(forceRotated bool) (uint64, bool) {
	m := g.r.m
	lb, last := g.lowBound(), m.lastEnt()
	if m.empty() || lb > last {
		return 0, false
	}
	files := g.r.files
	var cands []uint64
	addc := func(v uint64) {
		if v >= lb && v <= last {
			cands = append(cands, v)
		}
	}
	if forceRotated {
		if len(files) < 2 {
			return 0, false
		}
		// a file that is not the current one
		k := len(files) - 2
		if k > 0 && g.rng.IntN(3) == 0 {
			k = g.rng.IntN(k + 1)
		}
		if g.p.Deep {
			k = 0
		}
		b, nb := files[k], files[k+1]
		if lb >= nb {
			return 0, false
		}
		switch g.rng.IntN(6) {
		case 0:
			addc(b) // first slot of the rotated file
		case 1:
			addc(b + 1)
		case 2:
			addc(nb - 1) // its last slot
		case 3:
			addc(nb - 1 - g.rng.Uint64N(min(nb-b, 50)))
		default:
			addc(b + g.rng.Uint64N(nb-b))
		}
		if len(cands) == 0 {
			addc(max(lb, b) + g.rng.Uint64N(nb-max(lb, b)))
		}
		if len(cands) == 0 {
			return 0, false
		}
		return cands[0], true
	}
	switch x := g.rng.IntN(20); {
	case x < 5:
		addc(last)
	case x < 11:
		addc(last - min(g.rng.Uint64N(60), last-lb))
	case x < 14:
		// boundary of the current file
		if len(files) > 0 {
			b := files[len(files)-1]
			addc(b + uint64(g.rng.IntN(3)) - 1)
		}
	case x < 16:
		if len(files) > 1 {
			k := g.rng.IntN(len(files) - 1)
			addc(files[k] + g.rng.Uint64N(files[k+1]-files[k]))
		}
	case x < 17:
		addc(lb)
	default:
		addc(lb + g.rng.Uint64N(last-lb+1))
	}
	if len(cands) == 0 {
		addc(last)
	}
	if len(cands) == 0 {
		return 0, false
	}
	return cands[0], true
}

func (g *gen) conflictSave(target uint64) Op {
	m := g.r.m
	last := m.lastEnt()
	n := 1 + g.rng.IntN(30)
	switch g.rng.IntN(10) {
	case 0:
		n = 1
	case 1:
		n = 31 + g.rng.IntN(370)
	case 2:
		if g.p.BigBatch {
			n = 1000 + g.rng.IntN(11000)
		}
	}
	g.curTerm++
	op := Op{K: "save", First: target, N: n, Term: g.curTerm, Salt: g.nextSalt(), SnapArg: g.rng.IntN(2), Expect: "conflict"}
	if g.rng.IntN(3) == 0 {
		// overlap: leading entries identical to what is stored
		op.Same = 1 + g.rng.IntN(int(min(uint64(n), last-target+1)))
		if e, ok := m.get(target + uint64(op.Same) - 1); ok && e.Term > op.Term {
			op.Term = e.Term
		}
	}
	g.smallPayload(&op)
	if g.commit >= target {
		g.commit = target - 1
	}
	op.HS = g.hs(target + uint64(n) - 1)
	return op
}

// next produces the next op from the current state of the reference log.
func (g *gen) next() (Op, bool) {
	m := g.r.m
	rng := g.rng
	if !g.started {
		g.started = true
		if g.p.Install {
			s := 1 + rng.Uint64N(100000)
			return Op{K: "install", Index: s, Term: g.curTerm, HS: &HS{Term: g.curTerm, Vote: 1, Commit: s}}, true
		}
	}
	// bulk load
	if g.filled < g.p.Fill {
		n := 3000 + rng.IntN(9001)
		if g.filled == 0 && rng.IntN(2) == 0 {
			n = 1 // raft's first empty entry
		}
		if rem := g.p.Fill - g.filled; n > rem {
			n = rem
		}
		op := g.appendAtEnd(n)
		op.Size, op.Vary = rng.IntN(6), 1+rng.IntN(8)
		if n == 1 {
			op.Size, op.Vary = 0, 0
		}
		g.filled += n
		return op, true
	}
	if g.filledB < g.p.SizeFill<<20 {
		n := 1 + rng.IntN(3)
		op := g.appendAtEnd(n)
		op.Size = 16
		for i := 0; i < n; i++ {
			sz := 2<<20 + rng.IntN(5<<20)
			if rng.IntN(5) == 0 {
				continue
			}
			op.Big = append(op.Big, Big{At: i, Size: sz})
			g.filledB += sz
		}
		if len(op.Big) == 0 {
			op.Big = []Big{{At: 0, Size: 3 << 20}}
			g.filledB += 3 << 20
		}
		return op, true
	}
	if g.step >= g.p.Ops {
		return Op{}, false
	}
	g.step++

	if g.reopenQ > 0 {
		g.reopenQ--
		if g.reopenQ == 0 || rng.IntN(2) == 0 {
			g.reopenQ = 0
			return Op{K: "reopen"}, true
		}
	}
	if g.step == g.forceX && len(g.r.files) > 1 {
		if t, ok := g.conflictTarget(true); ok {
			g.reopenQ = 1 + rng.IntN(3)
			op := g.conflictSave(t)
			op.Expect = "conflict-into-rotated-file"
			return op, true
		}
		g.forceX++ // try again next step (e.g. snapshot blocks the rotated file)
	}

	x := rng.IntN(100)
	switch {
	case x < 34: // plain append
		n := 1 + rng.IntN(30)
		switch rng.IntN(12) {
		case 0:
			n = 31 + rng.IntN(370)
		case 1:
			if g.p.BigBatch {
				n = 1000 + rng.IntN(11000)
			}
		}
		op := g.appendAtEnd(n)
		g.smallPayload(&op)
		return op, true
	case x < 56: // conflicting / overlapping append
		if t, ok := g.conflictTarget(false); ok {
			op := g.conflictSave(t)
			if pos, _ := g.r.fileOf(t); pos >= 0 && pos < len(g.r.files)-1 {
				g.reopenQ = 1 + rng.IntN(4)
			}
			return op, true
		}
		op := g.appendAtEnd(1 + rng.IntN(10))
		g.smallPayload(&op)
		return op, true
	case x < 60: // hard state only
		return Op{K: "save", HS: g.hs(m.lastEnt()), SnapArg: rng.IntN(2)}, true
	case x < 62:
		if m.snap.Metadata.Index == 0 && m.snap.Metadata.ConfState.Voters == nil {
			return Op{K: "save", SnapArg: 2, Salt: g.nextSalt()}, true
		}
		return Op{K: "sync"}, true
	case x < 72: // CreateSnapshot
		f, l, si := m.first(), m.lastEnt(), m.snap.Metadata.Index
		switch y := rng.IntN(10); {
		case y == 0 && f > 1:
			return Op{K: "snap", Index: f - 1, Expect: "ErrSnapOutOfDate"}, true
		case y == 1:
			return Op{K: "snap", Index: l + 1 + uint64(rng.IntN(3))*maxNumEntries, Expect: "error"}, true
		}
		lo := max(f, si+1)
		if m.empty() || lo > l {
			return Op{K: "sync"}, true
		}
		idx := lo + rng.Uint64N(l-lo+1)
		if rng.IntN(3) == 0 {
			// near a file boundary or the end
			if len(g.r.files) > 0 && rng.IntN(2) == 0 {
				b := g.r.files[rng.IntN(len(g.r.files))]
				for _, c := range []uint64{b, b + 1, b - 1} {
					if c >= lo && c <= l {
						idx = c
					}
				}
			} else {
				idx = l - min(rng.Uint64N(3), l-lo)
			}
		}
		if idx > g.commit {
			g.commit = idx
		}
		return Op{K: "snap", Index: idx}, true
	case x < 82: // DeleteBefore
		f, l, si := m.first(), m.lastEnt(), m.snap.Metadata.Index
		switch y := rng.IntN(12); {
		case y == 0:
			return Op{K: "del", Index: f - min(f, 1+rng.Uint64N(3)), Expect: "below first"}, true
		case y == 1:
			return Op{K: "del", Index: l + 1 + rng.Uint64N(5), Expect: "beyond last"}, true
		}
		if m.empty() {
			return Op{K: "del", Index: 1 + rng.Uint64N(10)}, true
		}
		hi := min(si, l)
		if hi < f || rng.IntN(8) == 0 {
			hi = l // the store does not tie deletion to the snapshot
		}
		idx := f + rng.Uint64N(hi-f+1)
		if len(g.r.files) > 1 && rng.IntN(2) == 0 {
			b := g.r.files[1+rng.IntN(len(g.r.files)-1)]
			c := b + uint64(rng.IntN(3)) - 1
			if c >= f && c <= hi {
				idx = c
			}
		}
		return Op{K: "del", Index: idx}, true
	case x < 93:
		return Op{K: "reopen"}, true
	case x < 96:
		return Op{K: "sync"}, true
	default:
		return Op{K: "setuint", Which: rng.IntN(3), Val: rng.Uint64()}, true
	}
}
