package main

import (
	"errors"

	"go.etcd.io/etcd/raft/v3"
	"go.etcd.io/etcd/raft/v3/raftpb"
)

// refLog is the reference written from the etcd raft Storage contract: a contiguous
// slice of entries, the last stored snapshot and the last stored hard state. Two
// deliberate loosenings (DESIGN.md C17): the first retained index after a prefix deletion
// is an observation (compactTo is called with what the store reported, after it was
// range-checked), and an empty log reports first index 1.
type refLog struct {
	ents  []raftpb.Entry
	snap  raftpb.Snapshot
	hs    raftpb.HardState
	uints [3]uint64
	// term of the entry just before ents[0], when the model ever held it
	prevIdx, prevTerm uint64
	prevKnown         bool
	bytes             int64 // payload bytes held (cost control of the query bundle only)
}

func (m *refLog) empty() bool { return len(m.ents) == 0 }

func (m *refLog) first() uint64 {
	if m.empty() {
		return 1
	}
	return m.ents[0].Index
}

// lastEnt is the index of the last entry held (0 if none).
func (m *refLog) lastEnt() uint64 {
	if m.empty() {
		return 0
	}
	return m.ents[len(m.ents)-1].Index
}

// last is what LastIndex must answer: the last entry, or the snapshot index when the log
// holds nothing beyond it.
func (m *refLog) last() uint64 {
	l := m.lastEnt()
	if l < m.snap.Metadata.Index {
		return m.snap.Metadata.Index
	}
	return l
}

func (m *refLog) get(i uint64) (raftpb.Entry, bool) {
	if m.empty() || i < m.first() || i > m.lastEnt() {
		return raftpb.Entry{}, false
	}
	return m.ents[i-m.first()], true
}

// appendBatch: writing an entry with index i discards every held entry with index >= i.
func (m *refLog) appendBatch(b []raftpb.Entry) {
	if len(b) == 0 {
		return
	}
	if !m.empty() {
		fi := b[0].Index
		if fi <= m.lastEnt() {
			for _, e := range m.ents[fi-m.first():] {
				m.bytes -= int64(len(e.Data))
			}
			m.ents = m.ents[:fi-m.first()]
		}
	}
	for _, e := range b {
		m.bytes += int64(len(e.Data))
	}
	m.ents = append(m.ents, b...)
}

func (m *refLog) compactTo(f uint64) {
	if m.empty() || f <= m.first() {
		return
	}
	if e, ok := m.get(f - 1); ok {
		m.prevIdx, m.prevTerm, m.prevKnown = e.Index, e.Term, true
	}
	for _, e := range m.ents[:f-m.first()] {
		m.bytes -= int64(len(e.Data))
	}
	m.ents = append([]raftpb.Entry(nil), m.ents[f-m.first():]...)
}

func (m *refLog) clone() *refLog {
	n := *m
	n.ents = append([]raftpb.Entry(nil), m.ents...)
	return &n
}

type termAns struct {
	term uint64
	err  error
}

// expectTerm lists the acceptable answers of Term(i) and a boundary class name.
func (m *refLog) expectTerm(i uint64) ([]termAns, string) {
	si, st := m.snap.Metadata.Index, m.snap.Metadata.Term
	if e, ok := m.get(i); ok {
		cls := "in-log"
		switch i {
		case m.first():
			cls = "first"
		case m.lastEnt():
			cls = "last"
		}
		return []termAns{{e.Term, nil}}, cls
	}
	if i == 0 {
		return []termAns{{0, nil}, {0, raft.ErrCompacted}}, "zero"
	}
	if si > 0 && i == si {
		return []termAns{{st, nil}}, "snapshot-index-outside-log"
	}
	if m.empty() {
		if i < si {
			return []termAns{{0, raft.ErrCompacted}}, "empty-log-below-snapshot"
		}
		// an empty log has no position: the store answers "compacted", MemoryStorage
		// "unavailable"; raft asks neither (it bounds i by LastIndex first)
		return []termAns{{0, raft.ErrUnavailable}, {0, raft.ErrCompacted}}, "empty-log-beyond-end"
	}
	if i < m.first() {
		acc := []termAns{{0, raft.ErrCompacted}}
		cls := "compacted"
		if i == m.first()-1 {
			cls = "first-1"
			if m.prevKnown && m.prevIdx == i {
				acc = append(acc, termAns{m.prevTerm, nil})
			}
		}
		return acc, cls
	}
	cls := "beyond-end"
	if i == m.lastEnt()+1 {
		cls = "last+1"
	}
	return []termAns{{0, raft.ErrUnavailable}}, cls
}

func termOK(acc []termAns, term uint64, err error) bool {
	for _, a := range acc {
		if a.err == nil {
			if err == nil && term == a.term {
				return true
			}
		} else if errors.Is(err, a.err) {
			return true
		}
	}
	return false
}

// limitSize: maxSize bounds the total size, but at least one entry is returned.
func limitSize(ents []raftpb.Entry, maxSize uint64) []raftpb.Entry {
	if len(ents) == 0 {
		return ents
	}
	size := uint64(ents[0].Size())
	n := 1
	for ; n < len(ents); n++ {
		size += uint64(ents[n].Size())
		if size > maxSize {
			break
		}
	}
	return ents[:n]
}

type entriesExp struct {
	ents       []raftpb.Entry // exact answer when errs == nil
	errs       []error        // acceptable errors (any of)
	emptyOrErr bool           // lo == hi: an empty answer or Compacted/Unavailable
	class      string
}

// expectEntries: Entries(lo,hi,maxSize) for lo <= hi.
func (m *refLog) expectEntries(lo, hi, maxSize uint64) entriesExp {
	if m.empty() {
		if lo == hi {
			return entriesExp{emptyOrErr: true, class: "empty-log,lo==hi"}
		}
		return entriesExp{errs: []error{raft.ErrCompacted, raft.ErrUnavailable}, class: "empty-log,lo<hi"}
	}
	f, l := m.first(), m.lastEnt()
	switch {
	case lo < f && hi > l+1:
		return entriesExp{errs: []error{raft.ErrCompacted, raft.ErrUnavailable}, class: "lo<first,hi>last+1"}
	case lo < f:
		return entriesExp{errs: []error{raft.ErrCompacted}, class: "lo<first"}
	case hi > l+1:
		return entriesExp{errs: []error{raft.ErrUnavailable}, class: "hi>last+1"}
	case lo == hi:
		return entriesExp{emptyOrErr: true, class: "lo==hi"}
	}
	all := m.ents[lo-f : hi-f]
	lim := limitSize(all, maxSize)
	cls := "valid-whole-range"
	if len(lim) < len(all) {
		cls = "valid-cut-by-maxsize"
		if len(lim) == 1 && uint64(lim[0].Size()) > maxSize {
			cls = "valid-one-entry-over-maxsize"
		}
	}
	return entriesExp{ents: lim, class: cls}
}
