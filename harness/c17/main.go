// Command c17: runtime check of property C17 — the replication log store
// (lib/raftlog) honours the raft Storage contract, across reopen and process death.
//
// The real store is driven in-process with generated sequences of Save / CreateSnapshot /
// DeleteBefore / reopen; after every operation a bundle of boundary queries is judged
// against a small reference log written from the etcd raft Storage contract, which is
// itself cross-checked against etcd's MemoryStorage. Crash part: a child process
// re-executes a recorded sequence and is SIGKILLed before its k-th file-system mutation
// (lib/fileops/verif_vfs.go) or from outside; the directory is reopened and must hold the
// acknowledged state, optionally extended by a prefix of the in-flight batch.
package main

import (
	"encoding/json"
	"fmt"
	"os"
	"path/filepath"
	"runtime/pprof"
	"strconv"
	"strings"
	"sync"
	"syscall"
	"time"

	"verifharness/vf"
)

type caseSpec struct {
	Idx     int     `json:"idx"`
	RW      int     `json:"rw"`
	Profile profile `json:"profile"`
}

// plan lists the sequences of the exploration part for (tier); their content derives from
// the seed through the per-case PCG stream.
func plan(c *vf.Ctx) []caseSpec {
	type pc struct {
		p profile
		n int
	}
	var mix []pc
	if c.Quick() {
		mix = []pc{
			{profile{Name: "small", Ops: 40}, 12},
			{profile{Name: "install", Ops: 30, Install: true}, 2},
			{profile{Name: "rot1", Ops: 26, Fill: 30020, BigBatch: true}, 8},
			{profile{Name: "rot2", Ops: 24, Fill: 60050, BigBatch: true}, 3},
			{profile{Name: "size", Ops: 14, SizeFill: 33}, 1},
			{profile{Name: "edge", Ops: 22, Fill: 29999}, 4},
		}
	} else {
		mix = []pc{
			{profile{Name: "small", Ops: 44}, 486},
			{profile{Name: "install", Ops: 36, Install: true}, 40},
			{profile{Name: "rot1", Ops: 34, Fill: 30020, BigBatch: true}, 150},
			{profile{Name: "rot2", Ops: 30, Fill: 60050, BigBatch: true}, 30},
			{profile{Name: "size", Ops: 20, SizeFill: 33}, 8},
			{profile{Name: "edge", Ops: 26, Fill: 29999}, 36},
		}
	}
	var out []caseSpec
	for _, rw := range []int{1, 2} {
		for _, m := range mix {
			for k := 0; k < m.n; k++ {
				out = append(out, caseSpec{RW: rw, Profile: m.p})
			}
		}
	}
	// interleave expensive and cheap cases so that "i mod workers" balances the load
	n := len(out)
	mixed := make([]caseSpec, 0, n)
	half := n / 2
	for i := 0; i < half; i++ {
		mixed = append(mixed, out[i], out[half+i])
	}
	if n%2 == 1 {
		mixed = append(mixed, out[n-1])
	}
	for i := range mixed {
		mixed[i].Idx = i
	}
	return mixed
}

func crashPlan(c *vf.Ctx) []caseSpec {
	type pc struct {
		p profile
		n int
	}
	mix := []pc{
		{profile{Name: "crash-small", Ops: 26}, c.Pick(2, 9)},
		{profile{Name: "crash-rot", Ops: 12, Fill: 30020}, c.Pick(2, 5)},
		{profile{Name: "crash-rot2", Ops: 8, Fill: 60050, Deep: true}, c.Pick(1, 3)},
	}
	var out []caseSpec
	for _, m := range mix {
		for k := 0; k < m.n; k++ {
			for _, rw := range []int{1, 2} {
				out = append(out, caseSpec{RW: rw, Profile: m.p})
			}
		}
	}
	for i := range out {
		out[i].Idx = i
	}
	return out
}

func killsPerSequence(c *vf.Ctx) int { return c.Pick(5, 10) }

const workers = 14

func main() {
	if spec := os.Getenv("C17_CHILD"); spec != "" {
		childMain(spec) // crash child: no Ctx, exits on its own (or is killed)
		return
	}
	c := vf.New("C17", "fault_enumeration")
	if vf.IsWorker() {
		worker(c, vf.WorkerArg())
		c.Finish()
	}
	c.SetRule("a sequence is one (file implementation, generated op list) run against the real store in a fresh directory; " +
		"non-trivial = it contains at least one conflicting/overlapping append and a later close/reopen after which every retained entry " +
		"was compared with the reference log (distinct by op-list hash); a crash case is non-trivial when the child was really killed " +
		"inside the sequence and the reopened directory was judged (distinct by sequence and kill position)")
	c.Assume("the reference log (c17/model.go, written from the etcd raft Storage contract) is right; it is cross-checked on every exact answer against go.etcd.io/etcd/raft/v3 MemoryStorage fed the same operations, a disagreement marks the run broken")
	c.Assume("accepted looseness: first index after a prefix deletion is any F with previous F <= F <= requested (whole files are dropped; Init re-applies DeleteBefore(snapshot index)); an empty log reports first index 1 and may answer 'compacted' for Term beyond its end")
	c.Assume("only appends raft issues are generated: first index of a batch in [max(first, snapshot+1), last+1]; CreateSnapshot indexes above the previous snapshot; snapshots ahead of the log only onto an empty log")
	c.Assume("SIGKILL keeps page-cache contents: everything a returned call wrote is visible after reopen (power loss / lost fsync is not modelled); torn writes are not injected")

	if c.ReplayIn != "" {
		replay(c)
		c.Finish()
	}

	var wg sync.WaitGroup
	wd := time.Duration(c.Pick(8, 45)) * time.Minute
	for w := 0; w < workers; w++ {
		wg.Add(1)
		go func(w int) {
			defer wg.Done()
			c.RunWorker(fmt.Sprintf("seq:%d:%d", w, workers), wd)
			// crash cases need the VFS recorder in the worker (mutation counts, trace)
			trace := filepath.Join(c.Scratch, fmt.Sprintf("trace-%d", w))
			c.RunWorker(fmt.Sprintf("crash:%d:%d", w, workers), wd,
				"VERIF_FS=1", "VERIF_FS_MATCH="+storeMarker, "VERIF_FS_TRACE="+trace)
		}(w)
	}
	wg.Wait()
	for _, must := range []string{"rotation/slot-table-full(30000 entries)", "rotation/data-area-full(32MiB)",
		"append-class/conflict:rotated-file(1-back):slot0", "append-class/conflict:rotated-file(1-back):slot>0", "append-class/conflict:current-file:slot0",
		"op/del", "op/snap", "op/reopen", "kill-inflight/save", "kill-mode/vfs-arm", "kill-mode/external", "kill-target/between-the-file-removals-of-one-op"} {
		p := strings.SplitN(must, "/", 2)
		if !c.HasDistinct(p[0], p[1]) {
			c.Inconclusive("category-not-reached:"+must, 1)
		}
	}
	c.Finish()
}

func parseArg(arg string) (kind string, w, n int) {
	p := strings.Split(arg, ":")
	kind = p[0]
	w, _ = strconv.Atoi(p[1])
	n, _ = strconv.Atoi(p[2])
	return
}

func worker(c *vf.Ctx, arg string) {
	kind, w, n := parseArg(arg)
	switch kind {
	case "seq":
		if pf := os.Getenv("C17_PPROF"); pf != "" {
			f, _ := os.Create(fmt.Sprintf("%s.%d", pf, w))
			_ = pprof.StartCPUProfile(f)
			defer pprof.StopCPUProfile()
		}
		only := os.Getenv("C17_ONLY")
		for _, cs := range plan(c) {
			if cs.Idx%n != w || only != "" && cs.Profile.Name != only {
				continue
			}
			runSequence(c, cs, nil)
		}
	case "crash":
		cw := newCrashWorker(c)
		for _, cs := range crashPlan(c) {
			if cs.Idx%n != w {
				continue
			}
			cw.runCrashSequence(cs)
		}
	}
}

type seqResult struct {
	r    *runner
	base string
}

// runSequence generates and executes one sequence with the oracle. hook, if set, is
// called with the runner before the first op (crash part: installs the mutation counter).
func cpuMS() int64 {
	var ru, rc syscall.Rusage
	_ = syscall.Getrusage(syscall.RUSAGE_SELF, &ru)
	_ = syscall.Getrusage(syscall.RUSAGE_CHILDREN, &rc)
	t := func(tv syscall.Timeval) int64 { return tv.Sec*1000 + tv.Usec/1000 }
	return t(ru.Utime) + t(ru.Stime) + t(rc.Utime) + t(rc.Stime)
}

func runSequence(c *vf.Ctx, cs caseSpec, hook func(*runner)) *runner {
	cpu0 := cpuMS()
	defer func() { c.Count("cpu-ms(reporting only):"+cs.Profile.Name, cpuMS()-cpu0) }()
	id := fmt.Sprintf("%s-%d-rw%d", cs.Profile.Name, cs.Idx, cs.RW)
	stream := uint64(cs.Idx) + 1
	if hook != nil {
		stream += 1 << 20
	}
	rng := c.Rand(stream)
	base := filepath.Join(c.Scratch, fmt.Sprintf("%s%s", storeMarker, id))
	_ = os.MkdirAll(base, 0o755)
	defer os.RemoveAll(base)
	r := newRunner(c, id, cs.RW, base, rng.Uint64(), true)
	if hook != nil {
		hook(r)
	}
	c.LogInput(map[string]any{"id": id, "rw": cs.RW, "profile": cs.Profile, "phase": "init"})
	if err := r.open(); err != nil {
		r.fail("init:error-on-fresh-directory", err.Error(), nil)
		c.Eval(1)
		return r
	}
	defer r.close()
	r.bundle(0, true)
	g := newGen(r, rng, cs.Profile)
	lastK := ""
	for n := 1; n < 400 && !r.failed; n++ {
		op, ok := g.next()
		if !ok {
			break
		}
		c.LogInput(map[string]any{"id": id, "rw": cs.RW, "salt": r.salt, "ops": r.ops, "next": op})
		if !r.exec(op) {
			break
		}
		lastK = op.K
		full := fullPolicy(r, op, n)
		if !r.bundle(n, full) {
			break
		}
	}
	if !r.failed && lastK != "reopen" {
		if r.exec(Op{K: "reopen"}) {
			r.bundle(len(r.ops), true)
		}
	} else if !r.failed {
		r.bundle(len(r.ops), true)
	}
	c.Eval(1)
	c.Count("ops-executed", int64(len(r.ops)))
	c.Distinct("file-implementation", fmt.Sprintf("EntryFileRWType=%d", cs.RW))
	c.Distinct("profile", cs.Profile.Name)
	if r.rotations > 0 {
		c.Count("sequences-with-rotation", 1)
		c.Count(fmt.Sprintf("sequences-with-rotation-rw%d", cs.RW), 1)
	}
	if r.conflictRotated > 0 {
		c.Count("sequences-with-conflict-into-rotated-file", 1)
	}
	if r.conflicts > 0 && r.fullAfterReopenWithConflict > 0 && !r.failed {
		c.Nontrivial(fmt.Sprintf("seq:%x", opsHash(r.ops)))
	}
	if cs.Idx < 4 && !r.failed {
		c.Sample(map[string]any{"id": id, "rw": cs.RW, "ops": len(r.ops), "first_ops": head(r.ops, 6), "rotations": r.rotations,
			"conflicts": r.conflicts, "reopens": r.reopens, "final_first": r.m.first(), "final_last": r.m.lastEnt()})
	}
	return r
}

// fullPolicy: compare every retained entry after this op? Always for small logs, after a
// reopen and after a conflict into a rotated file; otherwise every 6th op.
func fullPolicy(r *runner, op Op, n int) bool {
	return len(r.m.ents) <= 3000 && r.m.bytes <= 4<<20 || op.K == "reopen" || n%6 == 0 || strings.HasPrefix(op.Expect, "conflict-into-rotated-file")
}

func head(ops []Op, n int) []Op {
	if len(ops) > n {
		return ops[:n]
	}
	return ops
}

func opsHash(ops []Op) uint64 {
	b, _ := json.Marshal(ops)
	var h uint64 = 1469598103934665603
	for _, x := range b {
		h = (h ^ uint64(x)) * 1099511628211
	}
	return h
}

// replay re-executes the case stored in a witness file.
func replay(c *vf.Ctx) {
	b, err := os.ReadFile(c.ReplayIn)
	if err != nil {
		c.Broken("replay: %v", err)
		return
	}
	var f struct {
		Witness struct {
			Kind  string          `json:"kind"`
			ID    string          `json:"id"`
			RW    int             `json:"rw"`
			Salt  uint64          `json:"salt"`
			Ops   []Op            `json:"ops"`
			Crash json.RawMessage `json:"crash"`
		} `json:"witness"`
	}
	if err := json.Unmarshal(b, &f); err != nil {
		c.Broken("replay: %v", err)
		return
	}
	w := f.Witness
	if w.RW == 0 {
		// worker-fatal witness: the case is the last logged input of the dead worker
		var wf struct {
			Witness struct {
				Last struct {
					Phase    string   `json:"phase"`
					ID       string   `json:"id"`
					RW       int      `json:"rw"`
					Salt     uint64   `json:"salt"`
					Ops      []Op     `json:"ops"`
					Next     *Op      `json:"next"`
					Crash    crashCtx `json:"crash"`
					Kill     killSpec `json:"kill"`
					ChildOps []Op     `json:"child_ops"`
					Seq      string   `json:"seq"`
				} `json:"last_input"`
			} `json:"witness"`
		}
		_ = json.Unmarshal(b, &wf)
		l := wf.Witness.Last
		switch {
		case l.Phase == "crash-tail":
			replayCrash(c, l.RW, l.Salt, l.Crash)
			return
		case l.Phase == "crash-case":
			replayCrash(c, l.RW, l.Salt, crashCtx{Kill: l.Kill, ChildOps: l.ChildOps, Seq: l.Seq})
			return
		case l.RW != 0:
			w.ID, w.RW, w.Salt, w.Ops = l.ID, l.RW, l.Salt, l.Ops
			if l.Next != nil {
				w.Ops = append(w.Ops, *l.Next)
			}
		default:
			c.Broken("replay: witness holds no case")
			return
		}
	}
	if w.Kind == "crash" {
		var cc crashCtx
		if err := json.Unmarshal(w.Crash, &cc); err != nil {
			c.Broken("replay: crash context: %v", err)
			return
		}
		replayCrash(c, w.RW, w.Salt, cc)
		return
	}
	base := filepath.Join(c.Scratch, storeMarker+"replay")
	_ = os.MkdirAll(base, 0o755)
	r := newRunner(c, "replay:"+w.ID, w.RW, base, w.Salt, true)
	if err := r.open(); err != nil {
		r.fail("init:error-on-fresh-directory", err.Error(), nil)
		return
	}
	defer r.close()
	r.bundle(0, true)
	for n, op := range w.Ops {
		op.ObsF, op.MutLo, op.MutHi = 0, 0, 0
		if !r.exec(op) {
			break
		}
		// the recorded sequence decided "full" from the same state, re-derive it
		full := fullPolicy(r, op, n+1) || n == len(w.Ops)-1
		if !r.bundle(n+1, full) {
			break
		}
	}
	c.Eval(1)
	if r.failed && knownSeen > 0 {
		fmt.Println("REPLAY: the witness still shows the known finding")
	} else if r.failed {
		fmt.Println("REPLAY: the witness still violates")
	} else {
		fmt.Println("REPLAY: the witness no longer violates")
	}
}
