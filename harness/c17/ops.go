package main

import (
	"encoding/binary"

	"go.etcd.io/etcd/raft/v3/raftpb"
)

// Op is one concrete, self-contained operation of a sequence. Entries of a save are not
// written out: they are a pure function of the fields below (and, for the `Same` leading
// entries of an overlapping append, of the log contents the earlier ops produced), so a
// witness stays small even when a batch has 12 000 entries.
type Op struct {
	K string `json:"k"` // save | snap | del | reopen | sync | setuint | install

	// save
	First   uint64 `json:"first,omitempty"`
	N       int    `json:"n,omitempty"`
	Term    uint64 `json:"term,omitempty"`
	Term2At int    `json:"term2at,omitempty"` // entries at batch offset >= Term2At carry Term+1 (0: none)
	Size    int    `json:"size,omitempty"`    // base payload size
	Vary    int    `json:"vary,omitempty"`    // payload size = Size + mix(index,salt)%Vary
	Salt    uint32 `json:"salt,omitempty"`
	Big     []Big  `json:"big,omitempty"`     // a few entries with their own (large) size
	Same    int    `json:"same,omitempty"`    // the first Same entries repeat what the log already holds at those indexes
	HS      *HS    `json:"hs,omitempty"`      // nil: Save(nil,…)
	SnapArg int    `json:"snaparg,omitempty"` // 0: nil snapshot pointer, 1: pointer to an empty snapshot, 2: conf-state-only snapshot

	// snap (CreateSnapshot), del (DeleteBefore), install (Save(hs,nil,snapshot ahead of an empty log)), setuint
	Index uint64 `json:"index,omitempty"`
	Which int    `json:"which,omitempty"` // setuint: MetaInfo
	Val   uint64 `json:"val,omitempty"`

	// recorded while executing (not an input): first index reported after the op and the
	// number of file-system mutations seen before / after it (crash cases)
	ObsF   uint64 `json:"obs_f,omitempty"`
	MutLo  int64  `json:"mut_lo,omitempty"`
	MutHi  int64  `json:"mut_hi,omitempty"`
	Expect string `json:"expect,omitempty"` // annotation: what the generator aimed at
}

type Big struct {
	At   int `json:"at"`
	Size int `json:"size"`
}

type HS struct {
	Term   uint64 `json:"term"`
	Vote   uint64 `json:"vote"`
	Commit uint64 `json:"commit"`
}

func mix(a, b uint64) uint64 {
	x := a*0x9e3779b97f4a7c15 ^ b*0xc2b2ae3d27d4eb4f ^ 0x165667b19e3779f9
	x ^= x >> 30
	x *= 0xbf58476d1ce4e5b9
	x ^= x >> 27
	x *= 0x94d049bb133111eb
	x ^= x >> 31
	return x
}

// payload is the content of the entry (index, term) written by a save with this salt.
func payload(index, term uint64, salt uint32, size int) []byte {
	if size <= 0 {
		return nil
	}
	b := make([]byte, size+8)
	s := mix(index, uint64(salt)<<32|term&0xffffffff)
	for i := 0; i < size; i += 8 {
		s += 0x9e3779b97f4a7c15
		z := s
		z = (z ^ (z >> 30)) * 0xbf58476d1ce4e5b9
		z = (z ^ (z >> 27)) * 0x94d049bb133111eb
		binary.LittleEndian.PutUint64(b[i:], z^(z>>31))
	}
	b = b[:size]
	// make sure no payload starts with a zero byte run that could be confused with "unset"
	b[0] |= 1
	return b
}

func (o *Op) entrySize(i int, index uint64) int {
	for _, bg := range o.Big {
		if bg.At == i {
			return bg.Size
		}
	}
	sz := o.Size
	if o.Vary > 0 {
		sz += int(mix(index, uint64(o.Salt)) % uint64(o.Vary))
	}
	return sz
}

// entries builds the batch of a save. `have` returns the entry currently stored at an
// index (used for the Same leading entries).
func (o *Op) entries(have func(uint64) (raftpb.Entry, bool)) []raftpb.Entry {
	out := make([]raftpb.Entry, 0, o.N)
	for i := 0; i < o.N; i++ {
		idx := o.First + uint64(i)
		if i < o.Same {
			if e, ok := have(idx); ok {
				out = append(out, e)
				continue
			}
		}
		term := o.Term
		if o.Term2At > 0 && i >= o.Term2At {
			term++
		}
		typ := raftpb.EntryNormal
		if mix(idx, uint64(o.Salt)+77)%23 == 0 {
			typ = raftpb.EntryConfChange
		}
		out = append(out, raftpb.Entry{Term: term, Index: idx, Type: typ, Data: payload(idx, term, o.Salt, o.entrySize(i, idx))})
	}
	return out
}

func (o *Op) hardState() *raftpb.HardState {
	if o.HS == nil {
		return nil
	}
	return &raftpb.HardState{Term: o.HS.Term, Vote: o.HS.Vote, Commit: o.HS.Commit}
}

func confState(salt uint64) raftpb.ConfState {
	cs := raftpb.ConfState{Voters: []uint64{1, 2, 3}}
	if salt%3 == 1 {
		cs.Learners = []uint64{4}
	}
	if salt%5 == 2 {
		cs.Voters = []uint64{1, 2, 3, 5, 6}
	}
	return cs
}

func snapData(index uint64) []byte {
	n := 8 + int(index%40)
	return payload(index, 0xabc, 9, n)
}
