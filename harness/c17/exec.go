package main

import (
	"bytes"
	"encoding/binary"
	"errors"
	"fmt"
	"math"
	"math/rand/v2"
	"os"
	"path/filepath"
	"sort"
	"strings"

	"github.com/openGemini/openGemini/lib/config"
	"github.com/openGemini/openGemini/lib/raftlog"
	"go.etcd.io/etcd/raft/v3"
	"go.etcd.io/etcd/raft/v3/raftpb"

	"verifharness/vf"
)

var knownSeen int // violations that matched a known finding (replay wording only)

const (
	maxNumEntries = 30000 // lib/raftlog/log.go (only used to aim the generator and to name coverage classes)
	storeMarker   = "c17store-"
)

// runner drives one real store with one sequence and judges every answer against the
// reference log (and the reference log against etcd's MemoryStorage).
type runner struct {
	c     *vf.Ctx
	id    string
	rw    int
	base  string // directory handed to raftlog.Init
	salt  uint64
	check bool // false: crash child (executes, does not judge)

	st       *raftlog.RaftDiskStorage
	m        *refLog
	ms       *raft.MemoryStorage
	msSnapOK bool
	ops      []Op
	failed   bool
	files    []uint64 // first index held by each entry file on disk, ascending (coverage / aiming only)

	conflicts, conflictRotated, reopens, rotations, fullAfterReopenWithConflict int
	sinceConflictRotated                                                        bool
	crashCtx                                                                    any  // set in crash cases: added to witnesses
	trial                                                                       bool // candidate evaluation after a kill: record the first failure, report nothing
	trialSig, trialWhat                                                         string
	trialDetail                                                                 any
	curQuery                                                                    string
	mutCount                                                                    func() int64
}

func newRunner(c *vf.Ctx, id string, rw int, base string, salt uint64, check bool) *runner {
	return &runner{c: c, id: id, rw: rw, base: base, salt: salt, check: check, m: &refLog{}, ms: raft.NewMemoryStorage(), msSnapOK: true}
}

func (r *runner) open() error {
	config.SetEntryFileRWType(r.rw)
	var st *raftlog.RaftDiskStorage
	var err error
	if p := vf.Catch(func() { st, err = raftlog.Init(r.base, 0) }); p != nil {
		return fmt.Errorf("panic: %v", p)
	}
	if err != nil {
		return err
	}
	r.st = st
	return nil
}

func (r *runner) witness(detail any) map[string]any {
	w := map[string]any{"kind": "seq", "id": r.id, "rw": r.rw, "salt": r.salt, "ops": r.ops, "detail": detail}
	if r.crashCtx != nil {
		w["kind"] = "crash"
		w["crash"] = r.crashCtx
	}
	return w
}

func (r *runner) hist() string {
	switch {
	case r.crashCtx != nil:
		return "after-kill"
	case r.sinceConflictRotated && r.reopens > 0:
		return "after-conflict-into-rotated-file,reopened"
	case r.sinceConflictRotated:
		return "after-conflict-into-rotated-file"
	case r.reopens > 0:
		return "reopened"
	}
	return "plain"
}

func (r *runner) fail(obs, what string, detail any) {
	if r.failed {
		return
	}
	r.failed = true
	if r.trial {
		r.trialSig, r.trialWhat, r.trialDetail = obs, what, detail
		return
	}
	sig := fmt.Sprintf("%s|%s", obs, r.hist())
	if r.c != nil {
		if r.c.Violation(sig, fmt.Sprintf("rw=%d seq=%s op#%d: %s", r.rw, r.id, len(r.ops), what), r.witness(detail)) {
			knownSeen++
		}
	}
}

func errClass(err error) string {
	switch {
	case err == nil:
		return "nil"
	case errors.Is(err, raft.ErrCompacted):
		return "ErrCompacted"
	case errors.Is(err, raft.ErrUnavailable):
		return "ErrUnavailable"
	case errors.Is(err, raft.ErrSnapOutOfDate):
		return "ErrSnapOutOfDate"
	}
	s := err.Error()
	if i := strings.IndexAny(s, ":\n"); i > 0 {
		s = s[:i]
	}
	if len(s) > 60 {
		s = s[:60]
	}
	return "other(" + s + ")"
}

// readLayout lists the first index stored in every entry file (slot 0, bytes 8..16).
func (r *runner) readLayout() {
	dir := filepath.Join(r.base, "__raft_entries__")
	des, err := os.ReadDir(dir)
	if err != nil {
		return
	}
	var out []uint64
	for _, de := range des {
		if !strings.HasSuffix(de.Name(), ".entry") {
			continue
		}
		f, err := os.Open(filepath.Join(dir, de.Name()))
		if err != nil {
			continue
		}
		var b [16]byte
		if _, err := f.ReadAt(b[:], 0); err == nil {
			if idx := binary.BigEndian.Uint64(b[8:]); idx != 0 {
				out = append(out, idx)
			}
		}
		f.Close()
	}
	sort.Slice(out, func(i, j int) bool { return out[i] < out[j] })
	r.files = out
}

// fileOf returns the position (0 = oldest) of the file holding index i and whether i is
// the first slot of that file, by the on-disk layout.
func (r *runner) fileOf(i uint64) (pos int, slot0 bool) {
	pos = -1
	for k, b := range r.files {
		if b <= i {
			pos = k
			slot0 = b == i
		}
	}
	return
}

func (r *runner) count(k string, n int64) {
	if r.c != nil && r.check {
		r.c.Count(k, n)
	}
}
func (r *runner) distinct(cat, k string) {
	if r.c != nil && r.check {
		r.c.Distinct(cat, k)
	}
}

// adoptFirst: the reported first index after a prefix deletion (explicit or the one Init
// re-applies) is an observation, constrained by prevF <= F <= max(prevF, min(asked,last)).
func (r *runner) adoptFirst(opName string, asked uint64) bool {
	var f uint64
	var err error
	if p := vf.Catch(func() { f, err = r.st.FirstIndex() }); p != nil || err != nil {
		r.fail("first:panic-or-error", fmt.Sprintf("FirstIndex after %s: %v %v", opName, p, err), nil)
		return false
	}
	if len(r.ops) > 0 {
		r.ops[len(r.ops)-1].ObsF = f
	}
	prev := r.m.first()
	if r.m.empty() {
		if r.check && f != 1 {
			r.fail("first:empty-log-not-1", fmt.Sprintf("empty log reports first index %d after %s", f, opName), nil)
			return false
		}
		return true
	}
	bound := prev
	if hi := min(asked, r.m.lastEnt()); hi > bound {
		bound = hi
	}
	if f < prev || f > bound {
		if r.check {
			r.fail(fmt.Sprintf("first:out-of-range-after-%s", opName),
				fmt.Sprintf("%s(%d): first index %d, allowed [%d,%d] (last %d)", opName, asked, f, prev, bound, r.m.lastEnt()),
				map[string]any{"asked": asked, "first": f, "prev_first": prev})
			return false
		}
		if f < prev || f > r.m.lastEnt() {
			return false
		}
	}
	if f > prev {
		r.count("prefix-deletions-that-advanced-first", 1)
		r.m.compactTo(f)
		if p := vf.Catch(func() {
			if err := r.ms.Compact(f - 1); err != nil {
				panic(err)
			}
		}); p != nil && r.check {
			r.c.Broken("MemoryStorage.Compact(%d): %v", f-1, p)
		}
	}
	return true
}

// exec applies one op to the store, the model and MemoryStorage. Returns false when the
// sequence cannot continue.
func (r *runner) exec(op Op) bool {
	r.ops = append(r.ops, op)
	me := &r.ops[len(r.ops)-1]
	if r.mutCount != nil {
		me.MutLo = r.mutCount()
		defer func() { me.MutHi = r.mutCount() }()
	}
	r.distinct("op", op.K)
	switch op.K {
	case "save":
		return r.execSave(op)
	case "install":
		cs := confState(op.Index)
		snap := raftpb.Snapshot{Data: snapData(op.Index), Metadata: raftpb.SnapshotMetadata{Index: op.Index, Term: op.Term, ConfState: cs}}
		var err error
		if p := vf.Catch(func() { err = r.st.Save(op.hardState(), nil, &snap) }); p != nil || err != nil {
			r.fail("save:panic-or-error", fmt.Sprintf("Save(hs,nil,snapshot %d): %v %v", op.Index, p, err), nil)
			return false
		}
		r.m.snap = snap
		if hs := op.hardState(); hs != nil && !raft.IsEmptyHardState(*hs) {
			r.m.hs = *hs
			_ = r.ms.SetHardState(*hs)
		}
		if err := r.ms.ApplySnapshot(snap); err != nil && r.check {
			r.c.Broken("MemoryStorage.ApplySnapshot: %v", err)
		}
		r.msSnapOK = true
	case "snap":
		return r.execSnap(op)
	case "del":
		var err error
		if p := vf.Catch(func() { err = r.st.DeleteBefore(op.Index) }); p != nil {
			r.fail("deletebefore:panic", fmt.Sprintf("DeleteBefore(%d): %v", op.Index, p), nil)
			return false
		}
		cls := "in-range"
		switch {
		case r.m.empty():
			cls = "empty-log"
		case op.Index < r.m.first():
			cls = "below-first"
		case op.Index > r.m.lastEnt():
			cls = "beyond-last"
		}
		r.distinct("deletebefore-arg", cls+"→"+errClass(err))
		nf := len(r.files)
		if !r.adoptFirst("DeleteBefore", op.Index) {
			return false
		}
		r.readLayout()
		if len(r.files) < nf {
			r.count("files-dropped-by-deletebefore", int64(nf-len(r.files)))
		}
	case "reopen":
		var err error
		if p := vf.Catch(func() { err = r.st.Close() }); p != nil || err != nil {
			r.fail("close:panic-or-error", fmt.Sprintf("Close: %v %v", p, err), nil)
			return false
		}
		if err := r.open(); err != nil {
			r.fail("reopen:init-error:"+errClass(err), "Init after Close: "+err.Error(), nil)
			return false
		}
		r.reopens++
		if !r.adoptFirst("reopen", r.m.snap.Metadata.Index) {
			return false
		}
		r.readLayout()
	case "sync":
		var err error
		if p := vf.Catch(func() { err = r.st.TrySync() }); p != nil || err != nil {
			r.fail("trysync:panic-or-error", fmt.Sprintf("TrySync: %v %v", p, err), nil)
			return false
		}
	case "setuint":
		if p := vf.Catch(func() { r.st.SetUint(raftlog.MetaInfo(op.Which), op.Val) }); p != nil {
			r.fail("setuint:panic", fmt.Sprintf("SetUint: %v", p), nil)
			return false
		}
		r.m.uints[op.Which] = op.Val
	default:
		panic("unknown op " + op.K)
	}
	return true
}

func (r *runner) execSave(op Op) bool {
	batch := op.entries(r.m.get)
	hs := op.hardState()
	var snap *raftpb.Snapshot
	switch op.SnapArg {
	case 1:
		snap = &raftpb.Snapshot{}
	case 2:
		snap = &raftpb.Snapshot{Metadata: raftpb.SnapshotMetadata{ConfState: confState(uint64(op.Salt))}}
	}
	// classify (coverage; also tells the oracle's signature whether a rotated file was hit)
	conflictRot := false
	if len(batch) > 0 && r.check {
		fi := batch[0].Index
		switch {
		case r.m.empty():
			r.distinct("append-class", "first-append-of-empty-log")
		case fi == r.m.lastEnt()+1:
			r.distinct("append-class", "at-last+1")
		default:
			r.conflicts++
			pos, slot0 := r.fileOf(fi)
			where := "current-file"
			if pos >= 0 && pos < len(r.files)-1 {
				where = fmt.Sprintf("rotated-file(%d-back)", min(len(r.files)-1-pos, 3))
				conflictRot = true
			}
			s := "slot>0"
			if slot0 {
				s = "slot0"
			} else if pos >= 0 && pos+1 < len(r.files) && r.files[pos+1] == fi+1 {
				s = "last-slot"
			}
			r.distinct("append-class", "conflict:"+where+":"+s)
			if fi == r.m.first() {
				r.distinct("append-class", "conflict-at-first-retained-index")
			}
			if op.Same > 0 {
				r.distinct("append-class", "overlap-with-identical-leading-entries")
			}
			if fi+uint64(len(batch))-1 < r.m.lastEnt() {
				r.distinct("append-class", "conflict-batch-ends-before-old-last")
			}
		}
		if op.Term2At > 0 {
			r.distinct("append-class", "term-change-inside-batch")
		}
		switch {
		case len(batch) >= 3000:
			r.distinct("batch-size", ">=3000")
		case len(batch) >= 100:
			r.distinct("batch-size", "100..2999")
		case len(batch) > 1:
			r.distinct("batch-size", "2..99")
		default:
			r.distinct("batch-size", "1")
		}
		for _, e := range batch {
			if len(e.Data) == 0 {
				r.distinct("payload", "empty")
				break
			}
		}
		if len(op.Big) > 0 {
			r.distinct("payload", fmt.Sprintf("big>=%dKiB", 1<<uint(bitsLen(op.Big[0].Size>>10))>>1))
		}
	}
	if len(batch) == 0 {
		r.distinct("append-class", "no-entries(hard-state/snapshot only)")
	}
	var err error
	if p := vf.Catch(func() { err = r.st.Save(hs, batch, snap) }); p != nil || err != nil {
		r.fail("save:panic-or-error", fmt.Sprintf("Save(first=%d n=%d): %v %v", op.First, op.N, p, err), nil)
		return false
	}
	r.m.appendBatch(batch)
	if len(batch) > 0 {
		if p := vf.Catch(func() {
			if err := r.ms.Append(batch); err != nil {
				panic(err)
			}
		}); p != nil && r.check {
			r.c.Broken("MemoryStorage.Append: %v", p)
		}
	}
	if hs != nil && !raft.IsEmptyHardState(*hs) {
		r.m.hs = *hs
		_ = r.ms.SetHardState(*hs)
	}
	if snap != nil && raftlog.IsValidSnapshot(*snap) {
		r.m.snap = *snap
		r.msSnapOK = false
	}
	if conflictRot {
		r.conflictRotated++
		r.sinceConflictRotated = true
	}
	// layout / rotation bookkeeping
	old := r.files
	r.readLayout()
	if r.check && len(r.files) > 0 {
		newest := r.files[len(r.files)-1]
		if len(old) == 0 || newest > old[len(old)-1] {
			if len(r.files) > 1 && len(batch) > 0 && newest > batch[0].Index {
				// files created by this save
				for k := 1; k < len(r.files); k++ {
					if r.files[k] > batch[0].Index {
						r.rotations++
						if r.files[k]-r.files[k-1] == maxNumEntries {
							r.distinct("rotation", "slot-table-full(30000 entries)")
						} else {
							r.distinct("rotation", "data-area-full(32MiB)")
						}
					}
				}
			}
		}
		r.distinct("files-on-disk", fmt.Sprint(min(len(r.files), 5)))
	}
	return true
}

func bitsLen(x int) int {
	n := 0
	for x > 0 {
		n++
		x >>= 1
	}
	return n
}

func (r *runner) execSnap(op Op) bool {
	cs := confState(op.Index)
	data := snapData(op.Index)
	var err error
	if p := vf.Catch(func() { err = r.st.CreateSnapshot(op.Index, &cs, data) }); p != nil {
		r.fail("createsnapshot:panic", fmt.Sprintf("CreateSnapshot(%d): %v", op.Index, p), nil)
		return false
	}
	e, ok := r.m.get(op.Index)
	switch {
	case !ok && op.Index < r.m.first():
		r.distinct("createsnapshot-arg", "below-first→"+errClass(err))
		if r.check && !errors.Is(err, raft.ErrSnapOutOfDate) {
			r.fail("createsnapshot:below-first:"+errClass(err), fmt.Sprintf("CreateSnapshot(%d) with first=%d: %v, want ErrSnapOutOfDate", op.Index, r.m.first(), err), nil)
			return false
		}
	case !ok:
		r.distinct("createsnapshot-arg", "beyond-last→"+errClass(err))
		if r.check && err == nil {
			r.fail("createsnapshot:beyond-last:nil", fmt.Sprintf("CreateSnapshot(%d) with last=%d succeeded", op.Index, r.m.lastEnt()), nil)
			return false
		}
	default:
		r.distinct("createsnapshot-arg", "in-log→"+errClass(err))
		if err != nil {
			if r.check {
				r.fail("createsnapshot:in-log:"+errClass(err), fmt.Sprintf("CreateSnapshot(%d) in [%d,%d]: %v", op.Index, r.m.first(), r.m.lastEnt(), err), nil)
			}
			return false
		}
		r.m.snap = raftpb.Snapshot{Data: data, Metadata: raftpb.SnapshotMetadata{Index: op.Index, Term: e.Term, ConfState: cs}}
		if _, merr := r.ms.CreateSnapshot(op.Index, &cs, data); merr != nil {
			r.msSnapOK = false
		} else {
			r.msSnapOK = true
		}
	}
	return true
}

// ---- queries ------------------------------------------------------------------------

func snapEqual(a, b raftpb.Snapshot) bool {
	ab, _ := a.Marshal()
	bb, _ := b.Marshal()
	return bytes.Equal(ab, bb)
}

func diffEntries(want, got []raftpb.Entry) (int, string) {
	for i := range want {
		if i >= len(got) {
			return i, "answer-too-short"
		}
		w, g := want[i], got[i]
		switch {
		case w.Index != g.Index:
			return i, "index-differs"
		case w.Term != g.Term:
			return i, "term-differs"
		case w.Type != g.Type:
			return i, "type-differs"
		case !bytes.Equal(w.Data, g.Data):
			if len(g.Data) == 0 {
				return i, "payload-empty"
			}
			if len(g.Data) != len(w.Data) {
				return i, "payload-length-differs"
			}
			return i, "payload-differs"
		}
	}
	if len(got) > len(want) {
		return len(want), "answer-too-long"
	}
	return -1, ""
}

func (r *runner) qTerm(i uint64) bool {
	acc, cls := r.m.expectTerm(i)
	r.curQuery = fmt.Sprintf("Term(%d)", i)
	t, err := r.st.Term(i)
	r.count("q-term", 1)
	r.distinct("term-arg", cls+"→"+errClass(err))
	if !termOK(acc, t, err) {
		_, slot0 := r.fileOf(i)
		w := ""
		if slot0 {
			w = ":index-is-first-slot-of-a-file"
		}
		var want []string
		for _, a := range acc {
			want = append(want, fmt.Sprintf("(%d,%s)", a.term, errClass(a.err)))
		}
		r.fail(fmt.Sprintf("term:%s:got-%s%s", cls, errClass(err), w),
			fmt.Sprintf("Term(%d) = (%d,%v), acceptable %v; first=%d last=%d snapshot=%d", i, t, err, want, r.m.first(), r.m.lastEnt(), r.m.snap.Metadata.Index),
			map[string]any{"query": "Term", "i": i})
		return false
	}
	if len(acc) == 1 && acc[0].err == nil && cls != "snapshot-index-outside-log" {
		mt, merr := r.ms.Term(i)
		if merr != nil || mt != acc[0].term {
			r.c.Broken("reference log and MemoryStorage disagree on Term(%d): %d vs (%d,%v)", i, acc[0].term, mt, merr)
			r.failed = true
			return false
		}
		r.count("cross-checked-against-MemoryStorage", 1)
	}
	return true
}

func (r *runner) qEntries(lo, hi, maxSize uint64, tag string) bool {
	exp := r.m.expectEntries(lo, hi, maxSize)
	r.curQuery = fmt.Sprintf("Entries(%d,%d,%d)", lo, hi, maxSize)
	got, err := r.st.Entries(lo, hi, maxSize)
	r.count("q-entries", 1)
	r.distinct("entries-arg", exp.class+"→"+errClass(err))
	if tag != "" {
		r.distinct("entries-arg", tag)
	}
	det := map[string]any{"query": "Entries", "lo": lo, "hi": hi, "maxSize": maxSize}
	desc := fmt.Sprintf("Entries(%d,%d,%d) with first=%d last=%d", lo, hi, maxSize, r.m.first(), r.m.lastEnt())
	switch {
	case exp.emptyOrErr:
		if err == nil && len(got) != 0 {
			r.fail("entries:"+exp.class+":non-empty", desc+fmt.Sprintf(" returned %d entries", len(got)), det)
			return false
		}
		if err != nil && !errors.Is(err, raft.ErrCompacted) && !errors.Is(err, raft.ErrUnavailable) {
			r.fail("entries:"+exp.class+":"+errClass(err), desc+": "+err.Error(), det)
			return false
		}
		return true
	case exp.errs != nil:
		for _, e := range exp.errs {
			if errors.Is(err, e) {
				return true
			}
		}
		r.fail("entries:"+exp.class+":got-"+errClass(err), desc+fmt.Sprintf(": err=%v (%d entries), want %v", err, len(got), exp.errs), det)
		return false
	}
	if err != nil {
		r.fail("entries:"+exp.class+":got-"+errClass(err), desc+": "+err.Error(), det)
		return false
	}
	if pos, cls := diffEntries(exp.ents, got); pos >= 0 {
		idx := lo + uint64(pos)
		_, slot0 := r.fileOf(idx)
		w := ""
		if slot0 {
			w = ":index-is-first-slot-of-a-file"
		}
		det["index"] = idx
		var ws, gs string
		if pos < len(exp.ents) {
			e := exp.ents[pos]
			ws = fmt.Sprintf("{term %d index %d type %v len(data) %d}", e.Term, e.Index, e.Type, len(e.Data))
		}
		if pos < len(got) {
			e := got[pos]
			gs = fmt.Sprintf("{term %d index %d type %v len(data) %d}", e.Term, e.Index, e.Type, len(e.Data))
		}
		r.fail("entries:"+cls+w, desc+fmt.Sprintf(": at index %d want %s got %s (want %d entries, got %d)", idx, ws, gs, len(exp.ents), len(got)), det)
		return false
	}
	// cross-check the reference against MemoryStorage where the contracts coincide
	if len(exp.ents) <= 4000 {
		me, merr := r.ms.Entries(lo, hi, maxSize)
		if merr != nil {
			r.c.Broken("reference log and MemoryStorage disagree: MemoryStorage.Entries(%d,%d,%d): %v", lo, hi, maxSize, merr)
			r.failed = true
			return false
		}
		if pos, cls := diffEntries(exp.ents, me); pos >= 0 {
			r.c.Broken("reference log and MemoryStorage disagree on Entries(%d,%d,%d) at +%d: %s", lo, hi, maxSize, pos, cls)
			r.failed = true
			return false
		}
		r.count("cross-checked-against-MemoryStorage", 1)
	}
	return true
}

func (r *runner) qMeta() bool {
	r.curQuery = "FirstIndex"
	f, err := r.st.FirstIndex()
	if err != nil || f != r.m.first() {
		r.fail("first:wrong", fmt.Sprintf("FirstIndex = (%d,%v), want %d", f, err, r.m.first()), nil)
		return false
	}
	r.curQuery = "LastIndex"
	l, err := r.st.LastIndex()
	if err != nil || l != r.m.last() {
		cls := "last:wrong"
		if l > r.m.last() {
			cls = "last:too-high"
		} else if l < r.m.last() {
			cls = "last:too-low"
		}
		r.fail(cls, fmt.Sprintf("LastIndex = (%d,%v), want %d", l, err, r.m.last()), nil)
		return false
	}
	if !r.m.empty() {
		mf, _ := r.ms.FirstIndex()
		ml, _ := r.ms.LastIndex()
		if mf != f || ml != l {
			r.c.Broken("reference log and MemoryStorage disagree on first/last: %d/%d vs %d/%d", f, l, mf, ml)
			r.failed = true
			return false
		}
		r.count("cross-checked-against-MemoryStorage", 1)
	}
	r.curQuery = "GetFirstLast"
	gf, gl := r.st.GetFirstLast()
	if gf != r.m.first() || gl != r.m.lastEnt() {
		r.fail("getfirstlast:wrong", fmt.Sprintf("GetFirstLast = (%d,%d), want (%d,%d)", gf, gl, r.m.first(), r.m.lastEnt()), nil)
		return false
	}
	r.curQuery = "Snapshot"
	sn, err := r.st.Snapshot()
	if err != nil || !snapEqual(sn, r.m.snap) {
		r.fail("snapshot:differs", fmt.Sprintf("Snapshot() = index %d term %d len(data) %d err %v, want index %d term %d len(data) %d",
			sn.Metadata.Index, sn.Metadata.Term, len(sn.Data), err, r.m.snap.Metadata.Index, r.m.snap.Metadata.Term, len(r.m.snap.Data)), nil)
		return false
	}
	if r.msSnapOK {
		if msn, _ := r.ms.Snapshot(); !snapEqual(msn, r.m.snap) {
			r.c.Broken("reference log and MemoryStorage disagree on the snapshot (index %d vs %d)", r.m.snap.Metadata.Index, msn.Metadata.Index)
			r.failed = true
			return false
		}
	}
	r.curQuery = "HardState"
	hs, err := r.st.HardState()
	if err != nil || !hsEqual(hs, r.m.hs) {
		r.fail("hardstate:differs", fmt.Sprintf("HardState() = %+v err %v, want %+v", hs, err, r.m.hs), nil)
		return false
	}
	r.curQuery = "InitialState"
	ihs, ics, err := r.st.InitialState()
	wantCS, _ := r.m.snap.Metadata.ConfState.Marshal()
	gotCS, _ := ics.Marshal()
	if err != nil || !hsEqual(ihs, r.m.hs) || !bytes.Equal(wantCS, gotCS) {
		r.fail("initialstate:differs", fmt.Sprintf("InitialState() = %+v %+v err %v, want %+v %+v", ihs, ics, err, r.m.hs, r.m.snap.Metadata.ConfState), nil)
		return false
	}
	for k := 0; k < 3; k++ {
		if v := r.st.Uint(raftlog.MetaInfo(k)); v != r.m.uints[k] {
			r.fail("metauint:differs", fmt.Sprintf("Uint(%d) = %d, want %d", k, v, r.m.uints[k]), nil)
			return false
		}
	}
	r.count("q-meta", 1)
	return true
}

func hsEqual(a, b raftpb.HardState) bool {
	return a.Term == b.Term && a.Vote == b.Vote && a.Commit == b.Commit
}

// bundle runs the boundary queries after op number opIdx; full adds a comparison of every
// retained entry.
func (r *runner) bundle(opIdx int, full bool) bool {
	if r.failed {
		return false
	}
	ok := true
	if p := vf.Catch(func() { ok = r.bundle1(opIdx, full) }); p != nil {
		r.fail("query:panic:"+strings.SplitN(r.curQuery, "(", 2)[0], fmt.Sprintf("%s panicked: %v", r.curQuery, p), map[string]any{"query": r.curQuery})
		return false
	}
	return ok
}

func (r *runner) bundle1(opIdx int, full bool) bool {
	rng := rand.New(rand.NewPCG(r.salt, uint64(opIdx)+1))
	if !r.qMeta() {
		return false
	}
	F, L := r.m.first(), r.m.lastEnt()
	si := r.m.snap.Metadata.Index
	inf := uint64(math.MaxUint64)

	// indexes of interest
	pts := map[uint64]struct{}{}
	add := func(v uint64, d int64) {
		x := int64(v) + d
		if x >= 0 {
			pts[uint64(x)] = struct{}{}
		}
	}
	for d := int64(-2); d <= 2; d++ {
		add(F, d)
		add(L, d)
		add(si, d)
	}
	add(0, 0)
	add(L, maxNumEntries+5)
	bounds := []uint64{}
	for _, b := range r.files {
		bounds = append(bounds, b)
	}
	if len(r.ops) > 0 {
		if o := r.ops[len(r.ops)-1]; o.K == "save" && o.N > 0 {
			bounds = append(bounds, o.First, o.First+uint64(o.N))
			if o.Same > 0 {
				bounds = append(bounds, o.First+uint64(o.Same))
			}
			if o.Term2At > 0 {
				bounds = append(bounds, o.First+uint64(o.Term2At))
			}
			for _, bg := range o.Big {
				bounds = append(bounds, o.First+uint64(bg.At))
			}
		}
	}
	if len(bounds) > 12 {
		bounds = bounds[len(bounds)-12:]
	}
	for _, b := range bounds {
		add(b, -1)
		add(b, 0)
		add(b, 1)
	}
	if L >= F {
		for k := 0; k < 6; k++ {
			add(F+rng.Uint64N(L-F+1), 0)
		}
	}
	keys := make([]uint64, 0, len(pts))
	for k := range pts {
		keys = append(keys, k)
	}
	sort.Slice(keys, func(i, j int) bool { return keys[i] < keys[j] })
	for _, i := range keys {
		if !r.qTerm(i) {
			return false
		}
	}

	type eq struct {
		lo, hi, max uint64
		tag         string
	}
	var qs []eq
	sub := func(a, b uint64) uint64 {
		if a < b {
			return 0
		}
		return a - b
	}
	qs = append(qs,
		eq{F, F, inf, ""}, eq{F, F + 1, inf, ""}, eq{F, F + 1, 0, "maxSize=0"}, eq{L, L + 1, inf, ""}, eq{L + 1, L + 1, inf, ""},
		eq{sub(F, 1), F + 1, inf, ""}, eq{F, L + 2, inf, ""}, eq{L + 1, L + 2, inf, ""}, eq{sub(F, 1), L + 2, inf, ""}, eq{L, L + 2, 0, ""},
		eq{L + 2, L + 3, inf, ""}, eq{0, 1, inf, ""}, eq{sub(L, 3), L + 1, inf, ""})
	heavy := r.m.bytes > 6<<20
	if heavy && len(bounds) > 3 {
		bounds = bounds[len(bounds)-3:]
	}
	for _, b := range bounds {
		lo, hi := max(sub(b, 2), F), min(b+2, L+1)
		if heavy {
			lo, hi = max(sub(b, 1), F), min(b+1, L+1)
		}
		if lo <= hi {
			tag := ""
			if _, s0 := r.fileOf(b); s0 && b > F {
				tag = "range-straddles-a-file-boundary"
			}
			qs = append(qs, eq{lo, hi, inf, tag})
			if lo < hi {
				if e, ok := r.m.get(lo); ok {
					qs = append(qs, eq{lo, hi, uint64(e.Size()), ""})
				}
			}
		}
	}
	if L >= F {
		for k := 0; k < 6; k++ {
			lo := F + rng.Uint64N(L-F+1)
			n := 1 + rng.Uint64N(300)
			if k == 0 {
				n = 1 + rng.Uint64N(3000)
			}
			if heavy {
				if k >= 3 {
					break
				}
				n = 1 + rng.Uint64N(3)
			}
			hi := min(lo+n, L+1)
			var mx uint64 = inf
			switch rng.IntN(6) {
			case 0:
				mx = 0
			case 1:
				mx = 1
			case 2, 3:
				// exactly the size of the first j entries, or one byte less / more
				j := 1 + rng.Uint64N(hi-lo)
				var s uint64
				for x := lo; x < lo+j; x++ {
					e, _ := r.m.get(x)
					s += uint64(e.Size())
				}
				mx = s + uint64(rng.IntN(3)) - 1
				r.distinct("entries-arg", "maxSize=exact-sum±1")
			case 4:
				mx = rng.Uint64N(5000)
			}
			qs = append(qs, eq{lo, hi, mx, ""})
		}
	}
	for _, q := range qs {
		if q.lo > q.hi {
			continue
		}
		if !r.qEntries(q.lo, q.hi, q.max, q.tag) {
			return false
		}
	}
	if full && !r.m.empty() {
		if !r.qEntries(F, L+1, inf, "whole-log") {
			return false
		}
		r.curQuery = "NumEntries"
		if n := r.st.NumEntries(); n != len(r.m.ents) {
			r.fail("numentries:wrong", fmt.Sprintf("NumEntries() = %d, want %d", n, len(r.m.ents)), nil)
			return false
		}
		step := uint64(1)
		if L-F > 3000 {
			step = 97
		}
		for i := F; i <= L; i += step {
			if !r.qTerm(i) {
				return false
			}
		}
		r.count("whole-log-comparisons", 1)
		r.count("entries-compared-in-whole-log-comparisons", int64(len(r.m.ents)))
		if r.reopens > 0 && r.conflicts > 0 {
			r.fullAfterReopenWithConflict++
		}
	}
	return true
}

func (r *runner) close() {
	if r.st != nil {
		_ = vf.Catch(func() { _ = r.st.Close() })
		r.st = nil
	}
}
