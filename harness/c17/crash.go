package main

import (
	"bufio"
	"encoding/json"
	"errors"
	"fmt"
	"math/rand/v2"
	"os"
	"os/exec"
	"path/filepath"
	"sort"
	"strconv"
	"strings"
	"syscall"
	"time"

	"github.com/openGemini/openGemini/lib/fileops"
	"github.com/openGemini/openGemini/lib/raftlog"
	"go.etcd.io/etcd/raft/v3"
	"go.etcd.io/etcd/raft/v3/raftpb"

	"verifharness/vf"
)

// ---- child ---------------------------------------------------------------------------

type childSpec struct {
	RW      int    `json:"rw"`
	Base    string `json:"base"`
	Journal string `json:"journal"`
	Ops     []Op   `json:"ops"`
}

// childMain executes a recorded op list against a fresh store and journals the start and
// the return of every op (plain os writes: SIGKILL keeps them). It is killed either by the
// VFS recorder (VERIF_FS_ARM=k: before file-system mutation k) or from outside.
func childMain(specPath string) {
	b, err := os.ReadFile(specPath)
	if err != nil {
		fmt.Fprintln(os.Stderr, "child:", err)
		os.Exit(3)
	}
	var sp childSpec
	if err := json.Unmarshal(b, &sp); err != nil {
		fmt.Fprintln(os.Stderr, "child:", err)
		os.Exit(3)
	}
	j, err := os.OpenFile(sp.Journal, os.O_CREATE|os.O_WRONLY|os.O_APPEND, 0o644)
	if err != nil {
		fmt.Fprintln(os.Stderr, "child:", err)
		os.Exit(3)
	}
	r := newRunner(nil, "child", sp.RW, sp.Base, 0, false)
	fmt.Fprintf(j, "I %d\n", fileops.VerifCount())
	if err := r.open(); err != nil {
		fmt.Fprintf(j, "X init %v\n", err)
		os.Exit(3)
	}
	fmt.Fprintf(j, "O %d\n", fileops.VerifCount())
	for i, op := range sp.Ops {
		fmt.Fprintf(j, "S %d %d\n", i, fileops.VerifCount())
		if op.MutLo != 0 && fileops.VerifEnabled() && op.MutLo != fileops.VerifCount() {
			fmt.Fprintf(j, "X desync op %d recorded %d now %d\n", i, op.MutLo, fileops.VerifCount())
			os.Exit(4)
		}
		want := op.ObsF
		op.ObsF, op.MutLo, op.MutHi = 0, 0, 0
		if !r.exec(op) {
			fmt.Fprintf(j, "X exec %d\n", i)
			os.Exit(3)
		}
		if got := r.ops[len(r.ops)-1].ObsF; want != 0 && got != 0 && got != want {
			fmt.Fprintf(j, "X desync op %d first index recorded %d now %d\n", i, want, got)
			os.Exit(4)
		}
		fmt.Fprintf(j, "A %d %d\n", i, fileops.VerifCount())
	}
	fmt.Fprintf(j, "D\n")
	os.Exit(0)
}

// ---- worker side ---------------------------------------------------------------------

type killSpec struct {
	Mode    string `json:"mode"`               // vfs-arm | external
	K       int64  `json:"k,omitempty"`        // vfs-arm: die before mutation K (counted from process start)
	What    string `json:"what,omitempty"`     // vfs-arm: the mutation the recorded trace shows at K (kind file size)
	Prev    string `json:"prev,omitempty"`     // vfs-arm: the mutation before it (the last one that happened)
	Op      int    `json:"op,omitempty"`       // external: SIGKILL when this op has been journalled as started …
	DelayUS int    `json:"delay_us,omitempty"` // … plus this delay
}

type crashCtx struct {
	Kill     killSpec `json:"kill"`
	ChildOps []Op     `json:"child_ops"` // what the child was given (recorded run, with first-index observations)
	Acked    int      `json:"acked"`     // ops whose return was journalled
	Inflight *Op      `json:"inflight"`  // op started but not returned (nil: killed between ops / in Init)
	Seq      string   `json:"seq"`
	TailSeed uint64   `json:"tail_seed"`
}

type mutation struct {
	n    int64
	kind string
	path string
	size string
}

// pos names the kill position for finding signatures.
func (k killSpec) pos() string {
	if k.Mode != "vfs-arm" {
		return "kill-external"
	}
	w, p := strings.Fields(k.What), strings.Fields(k.Prev)
	if len(w) < 2 {
		return "kill-before:?"
	}
	f := w[1]
	if strings.HasSuffix(f, ".entry") {
		f = "*.entry"
	}
	if len(p) == 3 && w[0] == "write" && p[0] == "write" && p[1] == w[1] && p[2] == "4" {
		return "kill-between-length-prefix-and-body:" + f
	}
	return "kill-before:" + w[0] + ":" + f
}

type crashWorker struct {
	c        *vf.Ctx
	traceF   string
	traceOff int64
	exe      string
}

func newCrashWorker(c *vf.Ctx) *crashWorker {
	exe, _ := os.Executable()
	return &crashWorker{c: c, traceF: os.Getenv("VERIF_FS_TRACE"), exe: exe}
}

// readTrace returns the mutations appended to the trace file since the last call.
func (w *crashWorker) readTrace() []mutation {
	f, err := os.Open(w.traceF)
	if err != nil {
		return nil
	}
	defer f.Close()
	_, _ = f.Seek(w.traceOff, 0)
	var out []mutation
	rd := bufio.NewReaderSize(f, 1<<20)
	for {
		ln, err := rd.ReadString('\n')
		if err != nil {
			break
		}
		w.traceOff += int64(len(ln))
		p := strings.Fields(ln)
		if len(p) < 3 {
			continue
		}
		n, _ := strconv.ParseInt(p[0], 10, 64)
		sz := "0"
		if len(p) > 3 {
			sz = p[3]
		}
		out = append(out, mutation{n, p[1], filepath.Base(p[2]), sz})
	}
	return out
}

func (w *crashWorker) runCrashSequence(cs caseSpec) {
	c := w.c
	if !fileops.VerifEnabled() {
		c.Broken("crash worker started without the VFS recorder (VERIF_FS)")
		return
	}
	w.readTrace()
	base0 := fileops.VerifCount()
	// phase 1: the sequence with the oracle, recording mutation counts per op
	r := runSequence(c, cs, func(r *runner) { r.mutCount = func() int64 { return fileops.VerifCount() - base0 } })
	if r.failed {
		return // already reported by the exploration oracle
	}
	muts := w.readTrace()
	for i := range muts {
		muts[i].n -= base0
	}
	ops := r.ops
	total := ops[len(ops)-1].MutHi
	if len(muts) == 0 || muts[len(muts)-1].n < total {
		c.Broken("trace of %s incomplete: %d lines, %d mutations counted", r.id, len(muts), total)
		return
	}
	rng := c.Rand(uint64(cs.Idx) + 1 + 2<<20)
	// kill positions: structural mutations (create/open, truncate, remove, sync, anything on
	// raft.meta) and their successors, first/last mutations of conflicting saves, random
	var structural, conflict []int64
	for _, m := range muts {
		if m.n > total {
			break
		}
		if m.kind != "write" || m.path == "raft.meta" {
			structural = append(structural, m.n, m.n+1)
		}
	}
	for _, m := range muts {
		if m.n <= total && m.kind == "remove" {
			// between the removals of a conflicting append / prefix deletion spanning several files
			conflict = append(conflict, m.n, m.n+1)
		}
	}
	for _, op := range ops {
		if op.K == "save" && strings.HasPrefix(op.Expect, "conflict") {
			for d := int64(1); d <= 5; d++ {
				conflict = append(conflict, op.MutLo+d)
			}
			conflict = append(conflict, op.MutHi, op.MutHi-1, (op.MutLo+op.MutHi)/2)
		}
	}
	// mandatory positions: between the file removals of one op (a conflicting append that
	// discards two or more files, a prefix deletion that drops two or more files)
	var mandatory []int64
	between := map[int64]bool{}
	for _, op := range ops {
		var rm []int64
		for _, m := range muts {
			if m.kind == "remove" && m.n > op.MutLo && m.n <= op.MutHi {
				rm = append(rm, m.n)
			}
		}
		if len(rm) >= 2 && (op.K == "save" || len(mandatory) < 2) {
			mandatory = append(mandatory, rm[1])
			between[rm[1]] = true
		}
	}
	what := map[int64]string{}
	for _, m := range muts {
		what[m.n] = m.kind + " " + m.path + " " + m.size
	}
	nk := killsPerSequence(c)
	seen := map[int64]bool{}
	for i := 0; i < nk; i++ {
		if i == nk-1 || i == nk-2 && c.Thorough() {
			// external kill during a long op
			var long []int
			for k, op := range ops {
				if op.MutHi-op.MutLo > 300 {
					long = append(long, k)
				}
			}
			k := rng.IntN(len(ops))
			if len(long) > 0 {
				k = long[rng.IntN(len(long))]
			}
			w.crashCase(r.rw, r.salt, crashCtx{Kill: killSpec{Mode: "external", Op: k, DelayUS: rng.IntN(3000)}, ChildOps: ops[:k+1], Seq: r.id, TailSeed: rng.Uint64()}, false)
			continue
		}
		var k int64
		if i < len(mandatory) && i < nk-2 {
			k = mandatory[i]
		}
		for try := 0; try < 20 && k == 0; try++ {
			switch x := rng.IntN(10); {
			case x < 4 && len(conflict) > 0:
				k = conflict[rng.IntN(len(conflict))]
			case x < 8 && len(structural) > 0:
				k = structural[rng.IntN(len(structural))]
			default:
				k = 1 + rng.Int64N(total)
			}
			if k >= 1 && k <= total && !seen[k] {
				break
			}
			k = 0
		}
		if k < 1 || k > total {
			k = 1 + rng.Int64N(total)
		}
		seen[k] = true
		if between[k] {
			c.Distinct("kill-target", "between-the-file-removals-of-one-op")
		}
		// the child needs the ops up to the one containing mutation k
		last := len(ops) - 1
		for j, op := range ops {
			if k <= op.MutHi {
				last = j
				break
			}
		}
		w.crashCase(r.rw, r.salt, crashCtx{Kill: killSpec{Mode: "vfs-arm", K: k, What: what[k], Prev: what[k-1]}, ChildOps: ops[:last+1], Seq: r.id, TailSeed: rng.Uint64()}, false)
	}
}

var caseSeq int

// crashCase runs the child, kills it, reopens the directory and judges what it holds.
func (w *crashWorker) crashCase(rw int, salt uint64, cc crashCtx, isReplay bool) {
	c := w.c
	caseSeq++
	cpu0 := cpuMS()
	defer func() { c.Count("cpu-ms(reporting only):kill-cases", cpuMS()-cpu0) }()
	dir := filepath.Join(c.Scratch, fmt.Sprintf("%scrash-%d", storeMarker, caseSeq))
	_ = os.RemoveAll(dir)
	_ = os.MkdirAll(dir, 0o755)
	defer os.RemoveAll(dir)
	specF, journal := dir+".spec", dir+".journal"
	defer os.Remove(specF)
	defer os.Remove(journal)
	b, _ := json.Marshal(childSpec{RW: rw, Base: dir, Journal: journal, Ops: cc.ChildOps})
	_ = os.WriteFile(specF, b, 0o644)
	_ = os.Remove(journal)
	c.LogInput(map[string]any{"phase": "crash-case", "rw": rw, "seq": cc.Seq, "kill": cc.Kill, "child_ops": cc.ChildOps})

	cmd := exec.Command(w.exe)
	var env []string
	for _, e := range os.Environ() {
		if strings.HasPrefix(e, "VERIF_WORKER_") || strings.HasPrefix(e, "VERIF_FS") {
			continue
		}
		env = append(env, e)
	}
	env = append(env, "C17_CHILD="+specF, "VERIF_FS=1", "VERIF_FS_MATCH="+storeMarker)
	if cc.Kill.Mode == "vfs-arm" {
		env = append(env, fmt.Sprintf("VERIF_FS_ARM=%d", cc.Kill.K))
	}
	cmd.Env = env
	logf, _ := os.Create(dir + ".log")
	defer os.Remove(dir + ".log")
	cmd.Stdout, cmd.Stderr = logf, logf
	if err := cmd.Start(); err != nil {
		c.Broken("crash child start: %v", err)
		return
	}
	done := make(chan error, 1)
	go func() { done <- cmd.Wait() }()
	if cc.Kill.Mode == "external" {
		go func() {
			needle := fmt.Sprintf("S %d ", cc.Kill.Op)
			for t := 0; t < 600000; t++ {
				jb, _ := os.ReadFile(journal)
				if strings.Contains(string(jb), "\n"+needle) || strings.HasPrefix(string(jb), needle) || strings.Contains(string(jb), "\nD") || strings.Contains(string(jb), "\nX") {
					break
				}
				time.Sleep(200 * time.Microsecond)
			}
			time.Sleep(time.Duration(cc.Kill.DelayUS) * time.Microsecond)
			_ = cmd.Process.Signal(syscall.SIGKILL)
		}()
	}
	var werr error
	select {
	case werr = <-done:
	case <-time.After(4 * time.Minute):
		_ = cmd.Process.Kill()
		<-done
		logf.Close()
		c.Inconclusive("crash-child-watchdog", 1)
		return
	}
	logf.Close()
	killed := false
	var ee *exec.ExitError
	if errors.As(werr, &ee) {
		if ws, ok := ee.Sys().(syscall.WaitStatus); ok && ws.Signaled() && ws.Signal() == syscall.SIGKILL {
			killed = true
		}
	}
	jb, _ := os.ReadFile(journal)
	if !killed {
		lb, _ := os.ReadFile(dir + ".log")
		if len(lb) > 1500 {
			lb = lb[len(lb)-1500:]
		}
		if strings.Contains(string(jb), "X desync") {
			c.Inconclusive("crash-child-desync", 1)
			return
		}
		if werr == nil {
			c.Inconclusive("crash-child-finished-before-kill", 1)
			return
		}
		// the child died on its own: the store failed on the recorded sequence
		c.Violation("crash-child:died:"+firstLine(string(lb)), fmt.Sprintf("crash child of %s died on its own (%v)", cc.Seq, werr),
			map[string]any{"kind": "crash", "rw": rw, "salt": salt, "crash": cc, "journal_tail": tail(string(jb), 400), "output": string(lb)})
		return
	}
	// journal → acknowledged ops and the op in flight
	acked, started := 0, -1
	opened := false
	for _, ln := range strings.Split(string(jb), "\n") {
		p := strings.Fields(ln)
		if len(p) == 0 {
			continue
		}
		switch p[0] {
		case "O":
			opened = true
		case "S":
			started, _ = strconv.Atoi(p[1])
		case "A":
			a, _ := strconv.Atoi(p[1])
			acked = a + 1
		}
	}
	cc.Acked = acked
	cc.Inflight = nil
	if started >= acked && started < len(cc.ChildOps) {
		op := cc.ChildOps[started]
		cc.Inflight = &op
	}
	inflightKind := "between-ops"
	if !opened {
		inflightKind = "first-init"
	} else if cc.Inflight != nil {
		inflightKind = cc.Inflight.K
		if cc.Inflight.K == "save" && cc.Inflight.N == 0 {
			inflightKind = "save(no entries)"
		}
	}
	c.Distinct("kill-mode", cc.Kill.Mode)
	c.Distinct("kill-inflight", inflightKind)
	if cc.Kill.Mode == "vfs-arm" {
		c.Distinct("kill-position", cc.Kill.pos())
	}
	c.Count("kills", 1)

	w.judgeRecovery(rw, salt, dir, cc, inflightKind, isReplay)
}

func lastField(s string) string {
	f := strings.Fields(s)
	if len(f) == 0 {
		return "?"
	}
	x := f[len(f)-1]
	if strings.HasSuffix(x, ".entry") {
		return "*.entry"
	}
	return x
}

func firstLine(s string) string {
	for _, ln := range strings.Split(s, "\n") {
		t := strings.TrimSpace(ln)
		if strings.HasPrefix(t, "panic:") || strings.HasPrefix(t, "fatal error:") {
			if len(t) > 120 {
				t = t[:120]
			}
			return t
		}
	}
	return "unknown"
}

func tail(s string, n int) string {
	if len(s) > n {
		return s[len(s)-n:]
	}
	return s
}

// replayModel applies acknowledged ops to a reference log without any store (first-index
// observations come from the recorded run).
func replayModel(ops []Op) (*refLog, uint64) {
	m := &refLog{}
	var maxTerm uint64
	for _, op := range ops {
		switch op.K {
		case "save":
			batch := op.entries(m.get)
			m.appendBatch(batch)
			for _, e := range batch {
				if e.Term > maxTerm {
					maxTerm = e.Term
				}
			}
			if hs := op.hardState(); hs != nil && !raft.IsEmptyHardState(*hs) {
				m.hs = *hs
			}
			if op.SnapArg == 2 {
				m.snap = raftpb.Snapshot{Metadata: raftpb.SnapshotMetadata{ConfState: confState(uint64(op.Salt))}}
			}
		case "install":
			m.snap = raftpb.Snapshot{Data: snapData(op.Index), Metadata: raftpb.SnapshotMetadata{Index: op.Index, Term: op.Term, ConfState: confState(op.Index)}}
			if hs := op.hardState(); hs != nil && !raft.IsEmptyHardState(*hs) {
				m.hs = *hs
			}
			if op.Term > maxTerm {
				maxTerm = op.Term
			}
		case "snap":
			if e, ok := m.get(op.Index); ok {
				m.snap = raftpb.Snapshot{Data: snapData(op.Index), Metadata: raftpb.SnapshotMetadata{Index: op.Index, Term: e.Term, ConfState: confState(op.Index)}}
			}
		case "del", "reopen":
			if op.ObsF > m.first() && !m.empty() {
				m.compactTo(op.ObsF)
			}
		case "setuint":
			m.uints[op.Which] = op.Val
		}
	}
	if m.hs.Term > maxTerm {
		maxTerm = m.hs.Term
	}
	return m, maxTerm
}

func msFromModel(m *refLog) (*raft.MemoryStorage, bool) {
	ms := raft.NewMemoryStorage()
	snapOK := false
	if m.empty() {
		if m.snap.Metadata.Index > 0 {
			_ = ms.ApplySnapshot(m.snap)
			snapOK = true
		}
	} else {
		if m.first() > 1 {
			_ = ms.ApplySnapshot(raftpb.Snapshot{Metadata: raftpb.SnapshotMetadata{Index: m.first() - 1, Term: m.prevTerm}})
		}
		_ = ms.Append(m.ents)
	}
	_ = ms.SetHardState(m.hs)
	return ms, snapOK
}

type candidate struct {
	name string
	m    *refLog
}

// judgeRecovery reopens the killed child's directory. Allowed contents: the state of the
// acknowledged ops, with the in-flight op not applied, partly applied (a conflicting
// append may already have discarded a tail; a prefix of the batch may be present) or
// completely applied; hard state / snapshot old or new, new hard state only on top of the
// complete batch. Afterwards the store must keep working: a short generated tail is run
// under the normal oracle.
func (w *crashWorker) judgeRecovery(rw int, salt uint64, dir string, cc crashCtx, inflightKind string, isReplay bool) {
	c := w.c
	old, maxTerm := replayModel(cc.ChildOps[:cc.Acked])
	r := newRunner(c, fmt.Sprintf("%s/kill@%s", cc.Seq, vf.JSON(cc.Kill)), rw, dir, salt, true)
	r.crashCtx = cc
	r.ops = append([]Op(nil), cc.ChildOps[:cc.Acked]...)
	r.conflicts = 1
	defer r.close()
	c.Eval(1)
	if err := r.open(); err != nil {
		r.m = old
		r.fail("recover:init-error:"+errClass(err)+":"+cc.Kill.pos()+":inflight-"+inflightKind, "Init after SIGKILL: "+err.Error(), nil)
		return
	}
	r.reopens = 1
	r.readLayout()

	// what the store says it holds
	var obsFirst, obsLast uint64
	var hs raftpb.HardState
	var snap raftpb.Snapshot
	var hsErr, snErr error
	if p := vf.Catch(func() {
		obsFirst, obsLast = r.st.GetFirstLast()
		hs, hsErr = r.st.HardState()
		snap, snErr = r.st.Snapshot()
	}); p != nil {
		r.m = old
		r.fail("recover:panic:"+cc.Kill.pos()+":inflight-"+inflightKind, fmt.Sprintf("first queries after SIGKILL panicked: %v", p), nil)
		return
	}

	// candidate logs
	var cands []candidate
	op := cc.Inflight
	newHS, newSnap := old.hs, old.snap
	var uintsAlt *[3]uint64
	askDel := old.snap.Metadata.Index
	switch {
	case op == nil:
		cands = append(cands, candidate{"acknowledged", old})
	case op.K == "save":
		batch := op.entries(old.get)
		if h := op.hardState(); h != nil && !raft.IsEmptyHardState(*h) {
			newHS = *h
		}
		if op.SnapArg == 2 {
			newSnap = raftpb.Snapshot{Metadata: raftpb.SnapshotMetadata{ConfState: confState(uint64(op.Salt))}}
		}
		if len(batch) == 0 {
			cands = append(cands, candidate{"acknowledged", old})
			break
		}
		fi := batch[0].Index
		if obsLast == old.lastEnt() {
			cands = append(cands, candidate{"acknowledged", old})
		}
		if !old.empty() && fi == old.first() && obsFirst == 1 && obsLast == 0 {
			// conflict at the first retained index: everything was discarded, nothing of the
			// batch is there yet — an empty log (which reports first index 1)
			t := old.clone()
			t.ents, t.bytes = nil, 0
			cands = append(cands, candidate{"acknowledged-with-tail-discarded", t})
		}
		if !old.empty() && obsLast < old.lastEnt() && obsLast+1 >= fi {
			t := old.clone()
			if obsLast+1 <= t.first() {
				t.ents = nil
			} else {
				t.ents = t.ents[:obsLast+1-t.first()]
			}
			cands = append(cands, candidate{"acknowledged-with-tail-discarded", t})
		}
		if obsLast+1 >= fi && obsLast <= fi+uint64(len(batch))-1 {
			t := old.clone()
			t.appendBatch(batch[:obsLast+1-fi])
			if obsLast+1 == fi && !t.empty() && fi <= t.lastEnt() {
				t.ents = t.ents[:fi-t.first()]
			}
			name := "acknowledged+prefix-of-inflight-batch"
			if obsLast == fi+uint64(len(batch))-1 {
				name = "acknowledged+whole-inflight-batch"
			}
			cands = append(cands, candidate{name, t})
		}
		if len(cands) == 0 {
			cands = append(cands, candidate{"acknowledged", old})
		}
	case op.K == "install":
		newSnap = raftpb.Snapshot{Data: snapData(op.Index), Metadata: raftpb.SnapshotMetadata{Index: op.Index, Term: op.Term, ConfState: confState(op.Index)}}
		if h := op.hardState(); h != nil && !raft.IsEmptyHardState(*h) {
			newHS = *h
		}
		cands = append(cands, candidate{"acknowledged", old})
	case op.K == "snap":
		if e, ok := old.get(op.Index); ok {
			newSnap = raftpb.Snapshot{Data: snapData(op.Index), Metadata: raftpb.SnapshotMetadata{Index: op.Index, Term: e.Term, ConfState: confState(op.Index)}}
		}
		cands = append(cands, candidate{"acknowledged", old})
	case op.K == "del":
		if op.Index > askDel {
			askDel = op.Index
		}
		cands = append(cands, candidate{"acknowledged", old})
	case op.K == "setuint":
		u := old.uints
		u[op.Which] = op.Val
		uintsAlt = &u
		cands = append(cands, candidate{"acknowledged", old})
	default:
		cands = append(cands, candidate{"acknowledged", old})
	}

	// hard state and snapshot: old or new
	chooseHS := old.hs
	hsNew := false
	switch {
	case hsErr == nil && hsEqual(hs, old.hs):
	case hsErr == nil && hsEqual(hs, newHS):
		chooseHS, hsNew = newHS, true
	default:
		r.m = old
		r.fail("recover:hardstate-neither-old-nor-new:"+cc.Kill.pos()+":inflight-"+inflightKind,
			fmt.Sprintf("after SIGKILL HardState() = %+v err %v; acknowledged %+v, in flight %+v", hs, hsErr, old.hs, newHS), nil)
		return
	}
	chooseSnap := old.snap
	switch {
	case snErr == nil && snapEqual(snap, old.snap):
	case snErr == nil && snapEqual(snap, newSnap):
		chooseSnap = newSnap
	default:
		r.m = old
		r.fail("recover:snapshot-neither-old-nor-new:"+cc.Kill.pos()+":inflight-"+inflightKind,
			fmt.Sprintf("after SIGKILL Snapshot() = index %d term %d err %v; acknowledged index %d, in flight index %d", snap.Metadata.Index, snap.Metadata.Term, snErr, old.snap.Metadata.Index, newSnap.Metadata.Index), nil)
		return
	}
	if s := chooseSnap.Metadata.Index; s > askDel {
		askDel = s
	}
	if s := newSnap.Metadata.Index; s > askDel {
		askDel = s // the index word of the new snapshot may be on disk before its body
	}

	var firstFail [3]any
	accepted := ""
	for _, cd := range cands {
		m := cd.m.clone()
		m.hs, m.snap = chooseHS, chooseSnap
		if uintsAlt != nil {
			if v := r.st.Uint(raftlog.MetaInfo(op.Which)); v == uintsAlt[op.Which] {
				m.uints = *uintsAlt
			}
		}
		r.m = m
		r.ms, r.msSnapOK = msFromModel(m)
		r.failed, r.trial = false, true
		ok := r.adoptFirst("reopen", askDel) && r.bundle(len(r.ops), true)
		r.trial = false
		if ok && !r.failed {
			if hsNew && op != nil && op.K == "save" && op.N > 0 && cd.name != "acknowledged+whole-inflight-batch" {
				r.fail("recover:new-hardstate-without-the-whole-batch", fmt.Sprintf("after SIGKILL the hard state of the in-flight Save is stored but the log holds %q", cd.name), nil)
				return
			}
			accepted = cd.name
			break
		}
		if firstFail[0] == nil {
			firstFail = [3]any{r.trialSig, r.trialWhat, r.trialDetail}
		}
		r.failed = false
	}
	if accepted == "" {
		r.m = cands[0].m
		var names []string
		for _, cd := range cands {
			names = append(names, cd.name)
		}
		obs := fmt.Sprint(firstFail[0])
		if d := w.diagnose(r, old, op); d != "" {
			obs = d
		}
		r.fail(fmt.Sprintf("recover:%s:%s:inflight-%s", obs, cc.Kill.pos(), inflightKind),
			fmt.Sprintf("after SIGKILL (%s) the directory matches none of the allowed states %v (store last=%d, acknowledged last=%d): %v",
				vf.JSON(cc.Kill), names, obsLast, old.lastEnt(), firstFail[1]), firstFail[2])
		return
	}
	c.Distinct("recovered-state", accepted)
	if r.rotationsOnDisk() > 0 {
		c.Count("kills-with-rotated-files-on-disk", 1)
	}

	// the store must keep working: a generated tail under the normal oracle
	r.crashCtx = cc
	g := newGen(r, rand.New(rand.NewPCG(cc.TailSeed, 17)), profile{Name: "tail", Ops: 8})
	g.curTerm = maxTerm + 2
	if op != nil && op.Term+2 > g.curTerm {
		g.curTerm = op.Term + 3
	}
	g.commit = min(r.m.hs.Commit, r.m.lastEnt())
	g.started = true
	for n := 0; n < 40 && !r.failed; n++ {
		nop, ok := g.next()
		if !ok {
			break
		}
		nop.Expect = strings.TrimSpace(nop.Expect + " (after recovery)")
		c.LogInput(map[string]any{"phase": "crash-tail", "rw": rw, "crash": cc, "tail_ops": r.ops[cc.Acked:], "next": nop})
		if !r.exec(nop) || !r.bundle(len(r.ops), fullPolicy(r, nop, n+1)) {
			break
		}
	}
	if !r.failed && r.exec(Op{K: "reopen"}) {
		r.bundle(len(r.ops), true)
	}
	if !r.failed {
		key := fmt.Sprintf("kill:%s:%s", cc.Seq, vf.JSON(cc.Kill))
		c.Nontrivial(key)
		if cc.Kill.Mode == "vfs-arm" && caseSeq <= 3 {
			c.Sample(map[string]any{"crash_case": cc.Seq, "kill": cc.Kill, "acked_ops": cc.Acked, "inflight": cc.Inflight, "recovered_state": accepted})
		}
	}
}

// diagnose names well-understood wrong states canonically (whichever query met them first).
func (w *crashWorker) diagnose(r *runner, old *refLog, op *Op) string {
	if op == nil || op.K != "save" || op.N == 0 {
		return ""
	}
	e, ok := old.get(op.First)
	if !ok {
		return ""
	}
	out := ""
	_ = vf.Catch(func() {
		got, err := r.st.Entries(op.First, op.First+1, 1<<62)
		if err != nil || len(got) != 1 {
			return
		}
		g := got[0]
		newTerm := op.Term
		if g.Index == e.Index && g.Type == e.Type && string(g.Data) == string(e.Data) && g.Term != e.Term && g.Term != newTerm && g.Term>>32 != 0 {
			out = "stale-entry-at-conflict-index-with-garbage-term"
		}
	})
	return out
}

func (r *runner) rotationsOnDisk() int {
	if len(r.files) > 1 {
		return len(r.files) - 1
	}
	return 0
}

func replayCrash(c *vf.Ctx, rw int, salt uint64, cc crashCtx) {
	w := newCrashWorker(c)
	w.crashCase(rw, salt, cc, true)
	if c.Violations() > 0 {
		fmt.Println("REPLAY: the witness still violates")
	} else if knownSeen > 0 {
		fmt.Println("REPLAY: the witness still shows the known finding")
	} else {
		fmt.Println("REPLAY: the witness no longer violates (external kills land at a slightly different point each time)")
	}
}

var _ = sort.Ints
