package main

// Generator of structured points and their line-protocol text. Expected stored forms are
// known by construction (nothing here parses line protocol).

import (
	"fmt"
	"math"
	"math/big"
	"math/rand/v2"
	"strconv"
	"strings"
)

// positions of an identifier / string inside a line
const (
	pMeas   = "meas"
	pTagK   = "tagk"
	pTagV   = "tagv"
	pFieldK = "fieldk"
	pStrV   = "strv"
)

var positions = []string{pMeas, pTagK, pTagV, pFieldK, pStrV}

// escape forms that must be seen at every position
var escForms = []string{"comma", "space", "equals", "quote", "backslash"}

// Val is a typed field value; floats are carried as bit patterns.
type Val struct {
	T string `json:"t"` // i f b s
	I int64  `json:"i,omitempty"`
	F uint64 `json:"f,omitempty"`
	B bool   `json:"b,omitempty"`
	S string `json:"s,omitempty"`
}

func (v Val) String() string {
	switch v.T {
	case "i":
		return strconv.FormatInt(v.I, 10) + "i"
	case "f":
		f := math.Float64frombits(v.F)
		return fmt.Sprintf("%s(bits %#016x)", strconv.FormatFloat(f, 'g', -1, 64), v.F)
	case "b":
		return strconv.FormatBool(v.B)
	}
	return strconv.Quote(v.S)
}

// Alt is one admissible stored form of a line.
type Alt struct {
	Meas   string            `json:"meas"`
	Tags   map[string]string `json:"tags"`
	Fields map[string]Val    `json:"fields"`
}

// Line kinds
const (
	kValid      = "valid"      // valid under the line protocol reference and within openGemini's documented limits: must be stored equal
	kInvalid    = "invalid"    // invalid under the reference: must be answered with an error and store nothing
	kMaybe      = "maybe"      // lexically unusual: rejected, or stored equal to what the text denotes
	kRestricted = "restricted" // valid line protocol that openGemini documents as unsupported: rejected, or stored equal
)

type Line struct {
	ID   string `json:"id"`
	Text string `json:"text"`
	Kind string `json:"kind"`
	Why  string `json:"why,omitempty"` // mutation / maybe / restriction kind
	Alts []Alt  `json:"alts,omitempty"`
	TS   int64  `json:"ts"`              // expected time in ns
	NoTS bool   `json:"no_ts,omitempty"` // server assigns the time
	// NoTags: the line has no tag at all; it is identified by its own measurement (whose
	// name contains the ID) and must be stored as the only, tagless series of it
	NoTags bool     `json:"no_tags,omitempty"`
	Cats   []string `json:"cats,omitempty"`
}

type Batch struct {
	N         int    `json:"n"`
	Kind      string `json:"kind"` // pure | mixed | single-valid | single-invalid
	Precision string `json:"precision"`
	Meas      string `json:"meas"` // the batch's shared measurement
	Lines     []Line `json:"lines"`
	Body      string `json:"body"` // request body (lines plus comments / blank lines)
	// Before: a request that is sent immediately before this one, alone and on the same
	// connection (the server re-uses the parse buffers of the previous request)
	Before *Batch `json:"before,omitempty"`
	// filled at run time
	Status   int    `json:"status,omitempty"`
	RespBody string `json:"resp_body,omitempty"`
}

var precisions = []string{"", "ns", "u", "ms", "s", "m", "h"}

func precMult(p string) int64 {
	switch p {
	case "u":
		return 1e3
	case "ms":
		return 1e6
	case "s":
		return 1e9
	case "m":
		return 60e9
	case "h":
		return 3600e9
	}
	return 1
}

const maxNano = int64(math.MaxInt64 - 1) // largest supported timestamp (same bound as InfluxDB)

type gen struct {
	r     *rand.Rand
	seed  uint64
	batch int
	idx   int
	meas  string
	prec  string
	// round-robin schedules so that every required category is produced even in small runs
	rr map[string]int
	// thorough runs lower the share of own-measurement lines (measurement creation is a meta operation)
	measShare int
	// parserOnly: no invalid line that openGemini only detects after the line-by-line parse
	// (time out of range: partial write reported by the points writer; missing measurement:
	// checked for the whole block afterwards)
	parserOnly bool
	// noMissingMeas: no line without a measurement (it makes openGemini refuse the whole block)
	noMissingMeas bool
	// longStrings: every valid line carries a ~2 KB string so that the request spans
	// several 64 KiB read blocks of the server
	longStrings bool
}

func (g *gen) next(key string, n int) int {
	v := g.rr[key]
	g.rr[key] = v + 1
	return v % n
}

func (g *gen) newID() string {
	g.idx++
	return fmt.Sprintf("Z%dB%04dL%04dZ", g.seed%1000000, g.batch, g.idx)
}

const plainChars = "abcdefghijklmnopqrstuvwxyz0123456789_"

func (g *gen) plain(min, max int) string {
	n := min
	if max > min {
		n += g.r.IntN(max - min + 1)
	}
	b := make([]byte, n)
	for i := range b {
		b[i] = plainChars[g.r.IntN(len(plainChars))]
	}
	return string(b)
}

var unicodeAtoms = []string{"é", "ß", "Ω", "日本語", "😀", "é", "ñ", "中", "‱", "Ж", "ü"}
var punctAtoms = []string{"#", "!", "@", "$", "%", "^", "&", "*", "(", ")", "[", "]", "{", "}", "|", ":", "'", "<", ">", "?", ".", "~", "+", "-", "`", "[a]"}
var controlAtoms = []string{"\t", "\x01", "\x7f"}

type identOut struct {
	logical    string
	text       string
	alt        string // second admissible logical form ("" if none)
	cats       []string
	restricted string // non-empty: openGemini documents this as unsupported
}

// ident builds an identifier (or string field value) for position pos that contains the
// feature `must` (may be "") plus random other features.
func (g *gen) ident(pos, must string, extraProb float64) identOut {
	feats := []string{}
	if must != "" {
		feats = append(feats, must)
	}
	pool := []string{"comma", "space", "equals", "quote", "backslash", "unicode", "punct", "unicode", "punct"}
	for g.r.Float64() < extraProb && len(feats) < 5 {
		feats = append(feats, pool[g.r.IntN(len(pool))])
	}
	g.r.Shuffle(len(feats), func(i, j int) { feats[i], feats[j] = feats[j], feats[i] })
	var out identOut
	doubled := false // identifiers: render every literal backslash doubled (two admissible readings)
	if pos != pStrV {
		for _, f := range feats {
			if f == "backslash2" {
				doubled = true
			}
		}
	}
	var lg []rune
	lead := g.plain(0, 3)
	if pos == pMeas && lead == "" && len(feats) > 0 && (feats[0] == "punct") {
		lead = "m" // a measurement must not start with '#'
	}
	lg = append(lg, []rune(lead)...)
	for i, f := range feats {
		switch f {
		case "comma":
			lg = append(lg, ',')
		case "space":
			lg = append(lg, ' ')
		case "equals":
			lg = append(lg, '=')
		case "quote":
			lg = append(lg, '"')
		case "backslash", "backslash2":
			lg = append(lg, '\\')
		case "unicode":
			lg = append(lg, []rune(unicodeAtoms[g.r.IntN(len(unicodeAtoms))])...)
		case "punct":
			lg = append(lg, []rune(punctAtoms[g.r.IntN(len(punctAtoms))])...)
		case "control":
			lg = append(lg, []rune(controlAtoms[g.r.IntN(len(controlAtoms))])...)
		}
		cat := f
		if f == "backslash2" {
			cat = "backslash-doubled"
		}
		out.cats = append(out.cats, "esc:"+cat+"@"+pos)
		// what follows the feature
		min := 0
		if (f == "backslash" || f == "backslash2") && pos != pStrV {
			min = 1 // a literal backslash in an identifier is only unambiguous before a plain character
		}
		if i == len(feats)-1 && pos != pStrV && len(lg) > 0 && lg[len(lg)-1] == '\\' {
			min = 1
		}
		lg = append(lg, []rune(g.plain(min, 4))...)
	}
	if len(lg) == 0 {
		lg = []rune(g.plain(1, 4))
	}
	out.logical = string(lg)
	// render
	var b strings.Builder
	if pos == pStrV {
		for i, c := range lg {
			switch c {
			case '"':
				b.WriteString(`\"`)
			case '\\':
				single := false
				if i+1 < len(lg) && lg[i+1] != '"' && lg[i+1] != '\\' {
					single = g.r.IntN(2) == 0
				}
				if single {
					b.WriteString(`\`)
					out.cats = append(out.cats, "esc:backslash-single@strv")
				} else {
					b.WriteString(`\\`)
				}
			default:
				b.WriteRune(c)
			}
		}
	} else {
		for _, c := range lg {
			switch c {
			case ',':
				b.WriteString(`\,`)
			case ' ':
				b.WriteString(`\ `)
			case '=':
				if pos == pMeas {
					b.WriteString(`=`) // the reference escapes only comma and space in measurements
				} else {
					b.WriteString(`\=`)
				}
			case '\\':
				if doubled {
					b.WriteString(`\\`)
				} else {
					b.WriteString(`\`)
				}
			default:
				b.WriteRune(c)
			}
		}
		if doubled {
			// InfluxDB keeps `\\` as two characters in identifiers, its documentation says a
			// backslash may be escaped: both readings are admissible
			out.alt = strings.ReplaceAll(out.logical, `\`, `\\`)
		}
	}
	out.text = b.String()
	if pos == pMeas {
		for _, c := range out.logical {
			if strings.ContainsRune(`,;/\`, c) {
				out.restricted = "meas-char"
			}
			if c < 0x20 || c == 0x7f {
				out.restricted = "meas-nonprintable"
			}
		}
	}
	return out
}

// ---- numbers

var intClasses = []string{"small", "mid", "edge53", "big", "edge63", "zero", "negzero-text"}

func (g *gen) intVal(class string) (int64, string) {
	r := g.r
	sign := int64(1)
	if r.IntN(2) == 0 {
		sign = -1
	}
	switch class {
	case "small":
		return sign * r.Int64N(1<<31), ""
	case "mid":
		return sign * (1<<31 + r.Int64N(1<<53-1<<31)), ""
	case "edge53":
		return sign * (1<<53 + int64(r.IntN(9)) - 4), ""
	case "big":
		return sign * (1<<53 + 5 + r.Int64N(math.MaxInt64-(1<<53)-10)), ""
	case "edge63":
		k := int64(r.IntN(5))
		if sign > 0 {
			return math.MaxInt64 - k, ""
		}
		return math.MinInt64 + k, ""
	case "zero":
		return 0, "0i"
	case "negzero-text":
		return 0, "-0i"
	}
	return 0, ""
}

var floatClasses = []string{"zero", "negzero", "subnormal", "minsub", "maxfloat", "normal", "integral", "near53", "long-mantissa", "17digit", "exp-spelling", "many-digits"}

var expSpellings = []string{"1e5", "1E-5", "1.e2", ".5", "5.", "-.5", "1e+5", "0e0", "1E+05", "-1.5E-3", "2.5e-308", "1.7976931348623157E308", "-.5e1", "4.9e-324"}

// floatVal returns the bits of the value the lexeme denotes and the lexeme.
func (g *gen) floatVal(class string) (uint64, string) {
	r := g.r
	var f float64
	switch class {
	case "zero":
		return 0, []string{"0", "0.0", "0e0", "0.000"}[r.IntN(4)]
	case "negzero":
		return 1 << 63, []string{"-0", "-0.0", "-0e0", "-0.000"}[r.IntN(4)]
	case "subnormal":
		bits := r.Uint64N(1<<52-1) + 1
		if r.IntN(2) == 0 {
			bits |= 1 << 63
		}
		f = math.Float64frombits(bits)
	case "minsub":
		f = math.SmallestNonzeroFloat64
		if r.IntN(2) == 0 {
			f = -f
		}
	case "maxfloat":
		f = math.MaxFloat64
		if r.IntN(2) == 0 {
			f = -f
		}
	case "normal", "17digit":
		for {
			bits := r.Uint64()
			if (bits>>52)&0x7ff != 0x7ff && (bits>>52)&0x7ff != 0 {
				f = math.Float64frombits(bits)
				break
			}
		}
	case "integral":
		f = float64(r.Int64N(1<<40) - 1<<39)
	case "near53":
		// decimal integers around 2^53 written as floats: the lexeme is not representable,
		// the expected value is the correctly rounded double
		n := int64(1<<53) + int64(r.IntN(9)) - 4
		if r.IntN(2) == 0 {
			n = -n
		}
		s := strconv.FormatInt(n, 10)
		v, _ := strconv.ParseFloat(s, 64)
		return math.Float64bits(v), s
	case "long-mantissa":
		// exact decimal expansion of a double with a moderate exponent: 20..60 digits
		for {
			bits := r.Uint64()
			e := int((bits>>52)&0x7ff) - 1023
			if e > -60 && e < 60 {
				f = math.Float64frombits(bits)
				break
			}
		}
		s := new(big.Float).SetFloat64(f).Text('f', 120)
		s = strings.TrimRight(s, "0")
		if strings.HasSuffix(s, ".") {
			s += "0"
		}
		v, _ := strconv.ParseFloat(s, 64)
		return math.Float64bits(v), s
	case "many-digits":
		// more significant digits than any double needs (20..45 random digits, optional point
		// and exponent); the lexeme denotes the correctly rounded double
		n := 20 + r.IntN(26)
		d := make([]byte, n)
		for i := range d {
			d[i] = byte('0' + r.IntN(10))
		}
		if d[0] == '0' {
			d[0] = '1'
		}
		s := string(d)
		if k := r.IntN(n + 1); k < n {
			if k == 0 {
				s = "0." + s
			} else {
				s = s[:k] + "." + s[k:]
			}
		}
		if r.IntN(2) == 0 {
			s = "-" + s
		}
		if r.IntN(3) == 0 {
			s += "e" + strconv.Itoa(r.IntN(500)-280)
		}
		v, err := strconv.ParseFloat(s, 64)
		if err != nil || math.IsInf(v, 0) {
			s = "0.1000000000000000055511151231257827021181583404541015625"
			v, _ = strconv.ParseFloat(s, 64)
		}
		return math.Float64bits(v), s
	case "exp-spelling":
		s := expSpellings[g.next("expsp", len(expSpellings))]
		v, err := strconv.ParseFloat(s, 64)
		if err != nil {
			panic("generator: " + s)
		}
		return math.Float64bits(v), s
	}
	var s string
	switch class {
	case "17digit":
		if r.IntN(2) == 0 {
			s = strconv.FormatFloat(f, 'E', 16, 64)
		} else {
			s = fmt.Sprintf("%.17g", f)
		}
	default:
		switch r.IntN(4) {
		case 0:
			s = strconv.FormatFloat(f, 'g', -1, 64)
		case 1:
			s = strconv.FormatFloat(f, 'e', -1, 64)
		case 2:
			s = strconv.FormatFloat(f, 'E', -1, 64)
		default:
			if a := math.Abs(f); a == 0 || (a > 1e-8 && a < 1e18) {
				s = strconv.FormatFloat(f, 'f', -1, 64)
			} else {
				s = strconv.FormatFloat(f, 'g', -1, 64)
			}
		}
	}
	v, err := strconv.ParseFloat(s, 64)
	if err != nil || math.Float64bits(v) != math.Float64bits(f) {
		panic(fmt.Sprintf("generator: lexeme %q does not denote %v", s, f))
	}
	return math.Float64bits(f), s
}

var trueSpellings = []string{"t", "T", "true", "True", "TRUE"}
var falseSpellings = []string{"f", "F", "false", "False", "FALSE"}

// ---- timestamps

var tsClasses = []string{"recent", "zero", "small", "maxedge", "none"}

const recentBase = int64(1622851200) // s; inside one shard group together with +0..400000 s

func (g *gen) timestamp(class string) (text string, ns int64, noTS bool) {
	m := precMult(g.prec)
	var t int64
	switch class {
	case "none":
		return "", 0, true
	case "zero":
		t = 0
	case "small":
		t = 1 + g.r.Int64N(500000*1e9/m)
	case "recent":
		t = (recentBase*1e9 + g.r.Int64N(400000*1e9)) / m
	case "maxedge":
		t = maxNano/m - int64(g.r.IntN(3))
	}
	return strconv.FormatInt(t, 10), t * m, false
}

// ---- valid lines

type kv struct{ k, v string }

func (g *gen) fieldText(v Val, lex string) string {
	switch v.T {
	case "i":
		if lex != "" {
			return lex
		}
		return strconv.FormatInt(v.I, 10) + "i"
	case "f", "b":
		return lex
	}
	return `"` + lex + `"`
}

// validLine builds one valid line. escape==true: the line exercises the scheduled
// (position, escape form) pair.
//
// strict>=1: no measurement name that openGemini documents as unsupported; strict==2
// (requests that must be accepted as a whole): also no double quote inside a field key,
// which openGemini is known to refuse.
func (g *gen) validLine(escape bool, strict int) Line {
	r := g.r
	ln := Line{ID: g.newID(), Kind: kValid}
	meas := identOut{logical: g.meas, text: g.meas}
	type tagT struct{ k, v identOut }
	var tags []tagT
	type fldT struct {
		k   identOut
		v   Val
		txt string
	}
	var flds []fldT
	addCat := func(cs ...string) { ln.Cats = append(ln.Cats, cs...) }

	// plain tags
	for i, n := 0, r.IntN(3); i < n; i++ {
		k := fmt.Sprintf("tk%d", i)
		v := g.plain(1, 6)
		tags = append(tags, tagT{identOut{logical: k, text: k}, identOut{logical: v, text: v}})
	}
	// numeric / boolean / string fields with scheduled classes
	nf := 1 + r.IntN(3)
	used := map[string]bool{}
	for i := 0; i < nf; i++ {
		switch []string{"i", "f", "b", "s", "i", "f"}[r.IntN(6)] {
		case "i":
			if used["fi"] {
				continue
			}
			used["fi"] = true
			cl := intClasses[g.next("int", len(intClasses))]
			v, lex := g.intVal(cl)
			addCat("int:" + cl)
			val := Val{T: "i", I: v}
			flds = append(flds, fldT{identOut{logical: "fi", text: "fi"}, val, g.fieldText(val, lex)})
		case "f":
			if used["ff"] {
				continue
			}
			used["ff"] = true
			cl := floatClasses[g.next("float", len(floatClasses))]
			bits, lex := g.floatVal(cl)
			addCat("float:" + cl)
			val := Val{T: "f", F: bits}
			flds = append(flds, fldT{identOut{logical: "ff", text: "ff"}, val, lex})
		case "b":
			if used["fb"] {
				continue
			}
			used["fb"] = true
			k := g.next("bool", 10)
			var lex string
			val := Val{T: "b"}
			if k < 5 {
				lex, val.B = trueSpellings[k], true
			} else {
				lex = falseSpellings[k-5]
			}
			addCat("bool:" + lex)
			flds = append(flds, fldT{identOut{logical: "fb", text: "fb"}, val, lex})
		case "s":
			if used["fs"] {
				continue
			}
			used["fs"] = true
			sv := g.ident(pStrV, "", 0.3)
			if r.IntN(12) == 0 {
				sv = identOut{} // empty string value
				addCat("string:empty")
			}
			addCat(sv.cats...)
			val := Val{T: "s", S: sv.logical}
			flds = append(flds, fldT{identOut{logical: "fs", text: "fs"}, val, `"` + sv.text + `"`})
		}
	}
	if escape {
		pos := positions[g.next("escpos", len(positions))]
		if pos == pMeas && g.measShare > 1 && g.next("measshare", g.measShare) != 0 {
			pos = positions[1+g.next("escpos2", len(positions)-1)]
		}
		forms := append([]string{}, escForms...)
		forms = append(forms, "unicode", "punct", "control")
		if pos != pStrV {
			forms = append(forms, "backslash2")
		}
		form := forms[g.next("escform@"+pos, len(forms))]
		if pos == pMeas && form == "control" {
			// the server copies the name into an X-Influxdb-Error response header, raw control
			// characters make the response unreadable for Go's HTTP client
			form = "punct"
		}
		if strict > 0 {
			for pos == pMeas && (form == "comma" || form == "backslash" || form == "backslash2") ||
				strict == 2 && pos == pFieldK && form == "quote" {
				form = forms[g.next("escform@"+pos, len(forms))]
			}
		}
		extra := 0.3
		if strict > 0 && pos == pMeas || strict == 2 && pos == pFieldK {
			extra = 0 // random extra features could add a restricted character
		}
		switch pos {
		case pMeas:
			o := g.ident(pMeas, form, extra)
			o.logical += ln.ID // unique measurement
			o.text += ln.ID
			if o.alt != "" {
				o.alt += ln.ID
			}
			meas = o
			addCat(o.cats...)
		case pTagK:
			o := g.ident(pTagK, form, 0.3)
			o.logical, o.text = "tk"+o.logical, "tk"+o.text
			if o.alt != "" {
				o.alt = "tk" + o.alt
			}
			v := g.plain(1, 5)
			tags = append(tags, tagT{o, identOut{logical: v, text: v}})
			addCat(o.cats...)
		case pTagV:
			o := g.ident(pTagV, form, 0.3)
			tags = append(tags, tagT{identOut{logical: "tkv", text: "tkv"}, o})
			addCat(o.cats...)
		case pFieldK:
			o := g.ident(pFieldK, form, extra)
			if strings.Contains(o.logical, `"`) {
				ln.Why = "quote-in-field-key"
			}
			// the key prefix fixes the field type so that a key can never be written with two types
			typ := []string{"i", "f", "b", "s"}[r.IntN(4)]
			pre := "f" + typ + "k"
			o.logical, o.text = pre+o.logical, pre+o.text
			if o.alt != "" {
				o.alt = pre + o.alt
			}
			var val Val
			var txt string
			switch typ {
			case "i":
				val = Val{T: "i", I: r.Int64N(1000)}
				txt = g.fieldText(val, "")
			case "f":
				val = Val{T: "f", F: math.Float64bits(1.5)}
				txt = "1.5"
			case "b":
				val = Val{T: "b", B: true}
				txt = "true"
			default:
				val = Val{T: "s", S: "x y"}
				txt = `"x y"`
			}
			flds = append(flds, fldT{o, val, txt})
			addCat(o.cats...)
		case pStrV:
			o := g.ident(pStrV, form, 0.4)
			if r.IntN(20) == 0 {
				// long value (several of them make a request cross the server's 64 KiB read block)
				o.logical += strings.Repeat("long value ", 200)
				o.text += strings.Repeat("long value ", 200)
				addCat("string:long")
			}
			k := "fs2"
			val := Val{T: "s", S: o.logical}
			flds = append(flds, fldT{identOut{logical: k, text: k}, val, `"` + o.text + `"`})
			addCat(o.cats...)
		}
	}
	if g.longStrings {
		var sb strings.Builder
		for sb.Len() < 2200 {
			sb.WriteString(g.plain(1, 9))
			sb.WriteString([]string{" ", ", ", "=", " é ", "\\\\", "\\\"", "."}[r.IntN(7)])
		}
		txt := sb.String()
		logical := strings.NewReplacer(`\\`, `\`, `\"`, `"`).Replace(txt)
		flds = append(flds, fldT{identOut{logical: "fs3", text: "fs3"}, Val{T: "s", S: logical}, `"` + txt + `"`})
		addCat("string:long")
	}
	if len(flds) == 0 {
		val := Val{T: "i", I: int64(r.IntN(100))}
		flds = append(flds, fldT{identOut{logical: "fi", text: "fi"}, val, g.fieldText(val, "")})
		addCat("int:small")
	}
	// unique tag at a random position; tags in random order (the reference does not require sorting)
	tags = append(tags, tagT{identOut{logical: "u", text: "u"}, identOut{logical: ln.ID, text: ln.ID}})
	r.Shuffle(len(tags), func(i, j int) { tags[i], tags[j] = tags[j], tags[i] })
	r.Shuffle(len(flds), func(i, j int) { flds[i], flds[j] = flds[j], flds[i] })

	tsClass := tsClasses[g.next("ts", len(tsClasses))]
	tsText, ns, noTS := g.timestamp(tsClass)
	addCat("ts:"+tsClass, "precision:"+precName(g.prec))
	ln.TS, ln.NoTS = ns, noTS

	var b strings.Builder
	b.WriteString(meas.text)
	for _, t := range tags {
		b.WriteString("," + t.k.text + "=" + t.v.text)
	}
	b.WriteString(" ")
	for i, f := range flds {
		if i > 0 {
			b.WriteString(",")
		}
		b.WriteString(f.k.text + "=" + f.txt)
	}
	if !noTS {
		b.WriteString(" " + tsText)
	}
	ln.Text = b.String()

	// admissible stored forms: the plain reading, and (if some identifier was rendered with
	// doubled backslashes) the reading that keeps both backslashes
	mk := func(useAlt bool) Alt {
		pick := func(o identOut) string {
			if useAlt && o.alt != "" {
				return o.alt
			}
			return o.logical
		}
		a := Alt{Meas: pick(meas), Tags: map[string]string{}, Fields: map[string]Val{}}
		for _, t := range tags {
			a.Tags[pick(t.k)] = pick(t.v)
		}
		for _, f := range flds {
			a.Fields[pick(f.k)] = f.v
		}
		return a
	}
	ln.Alts = []Alt{mk(false)}
	hasAlt := meas.alt != ""
	for _, t := range tags {
		hasAlt = hasAlt || t.k.alt != "" || t.v.alt != ""
	}
	for _, f := range flds {
		hasAlt = hasAlt || f.k.alt != ""
	}
	if hasAlt {
		ln.Alts = append(ln.Alts, mk(true))
	}
	if meas.restricted != "" {
		ln.Kind, ln.Why = kRestricted, meas.restricted
		addCat("restricted:" + meas.restricted)
	}
	return ln
}

func precName(p string) string {
	if p == "" {
		return "default"
	}
	return p
}

// ---- invalid lines: grammar-level mutations, each invalid under the InfluxDB line protocol reference

var mutationKinds = []string{
	"no-field", "empty-field-key", "missing-field-value", "unterminated-quote", "multi-dot",
	"unsigned-suffix", "bad-timestamp", "stray-comma", "tag-no-value", "unquoted-string",
	"bad-int", "bad-float", "text-before-quote", "missing-measurement", "bad-bool",
	"ts-out-of-range", "unescaped-space", "nan-inf", "float-overflow", "int-overflow",
}

func (g *gen) invalidLine() Line {
	r := g.r
	kind := mutationKinds[g.next("mut", len(mutationKinds))]
	for g.parserOnly && kind == "ts-out-of-range" || (g.parserOnly || g.noMissingMeas) && kind == "missing-measurement" {
		kind = mutationKinds[g.next("mut", len(mutationKinds))]
	}
	if g.noMissingMeas && g.next("more-ts-oor", 4) == 0 {
		kind = "ts-out-of-range"
	}
	if !g.parserOnly && g.next("more-ts-oor-all", 6) == 5 {
		kind = "ts-out-of-range"
	}
	ln := Line{ID: g.newID(), Kind: kInvalid, Why: kind}
	ts := strconv.FormatInt((recentBase*1e9+r.Int64N(400000*1e9))/precMult(g.prec), 10)
	head := g.meas + ",u=" + ln.ID
	pick := func(xs ...string) string { return xs[g.next("mut:"+kind, len(xs))] }
	var t string
	switch kind {
	case "no-field":
		t = pick(head, head+" ", head+" "+ts, head+" fi")
	case "empty-field-key":
		t = head + pick(" =1i ", " fi=1i,=2i ", ` ="x" `) + ts
	case "missing-field-value":
		t = head + pick(" fi= ", " fi=1i,ff= ", " ff=,fi=1i ") + ts
	case "unterminated-quote":
		t = head + pick(` fs="abc `, ` fs="abc\" `, ` fi=1i,fs="a b `, ` fs=" `) + ts
	case "multi-dot":
		t = head + pick(" ff=1.2.3 ", " ff=1..2 ", " fi=1i,ff=0.1.2e3 ", " ff=1.2.3f ") + ts
	case "unsigned-suffix":
		t = head + pick(" fi=12u ", " fi=0u ", " ff=1.5u ") + ts
	case "bad-timestamp":
		t = head + " fi=1i " + pick("12a4", "1.5", "1e9", "2021-06-05T00:00:00Z", `"123"`, "123 456", "0x10", "--5", "1_000")
	case "stray-comma":
		t = pick(g.meas+",,u="+ln.ID+" fi=1i "+ts, head+", fi=1i "+ts, head+" fi=1i, "+ts, head+" fi=1i,,ff=1 "+ts, head+" ,fi=1i "+ts)
	case "tag-no-value":
		t = pick(head+",tk0 fi=1i "+ts, g.meas+",tk0,u="+ln.ID+" fi=1i "+ts)
	case "unquoted-string":
		// a key of its own: a type conflict with a string column must not mask an acceptance
		t = head + " fsu=" + pick("hello", "off", "half", "abc", "yes", "on", "null", "self", "x1", "a.b", "tt", "ff", "1a", "i", "u") + " " + ts
	case "bad-int":
		t = head + " fi=" + pick("1.5i", "1e3i", "12ii", "--1i", "1-i", "i", "-i", "1 i", "0x1fi", "1_0i") + " " + ts
	case "bad-float":
		t = head + " ff=" + pick("1e", "1e+", "-", ".", "1.2e3.4", "--1", "1-2", "e5", "abcf", ".e1", "1e5e5", "0x10", "1_0", "1,5") + " " + ts
	case "text-before-quote":
		t = head + " fs=" + pick(`x"abc"`, `1"abc"`, `t"a b"`) + " " + ts
	case "missing-measurement":
		t = pick(",u="+ln.ID+" fi=1i "+ts, " ,u="+ln.ID+" fi=1i "+ts)
	case "bad-bool":
		t = head + " fb=" + pick("tru", "TRUEE", "tRuE", "fALSE", "yes", "Tr", "falsee", "FalsE") + " " + ts
	case "ts-out-of-range":
		// beyond the largest supported time (also beyond what int64 nanoseconds can hold
		// once multiplied by the precision)
		m := precMult(g.prec)
		var v string
		which := g.next("tsoor", 6)
		if m > 1 && g.next("tsoor-wrap", 2) == 0 {
			which = 2
		}
		if m == 1 && g.next("tsoor-rawwrap", 2) == 0 {
			which = 4 + g.next("tsoor-rawwrap-kind", 2)
		}
		switch which {
		case 4:
			// the digits themselves wrap around 64 bits into the supported range when they
			// are converted unchecked: k * 2^64 + a recent time
			k := []int64{1, 2, 3, 5, 10, 1000}[g.next("tsoor-k", 6)]
			w := new(big.Int).Mul(new(big.Int).Lsh(big.NewInt(1), 64), big.NewInt(k))
			w.Add(w, big.NewInt(recentBase*1e9/m+r.Int64N(1000)))
			v = w.String()
		case 5:
			v = pick("20000000000000000000", "40000000000000000000", "60000000000000000000", "80000000000000000000",
				"18446744073709551616", "18446744073709551716", "27670116110564327420", "36893488147419103232000",
				"10000000000000000000", "99999999999999999999", "100000000000000000000", "1"+strings.Repeat("0", 30))
		case 0:
			v = strconv.FormatInt(maxNano/m+1, 10)
		case 1:
			v = new(big.Int).Add(big.NewInt(math.MaxInt64/m), big.NewInt(1+r.Int64N(1000))).String()
		case 2:
			// multiples that wrap around int64 into the supported range when multiplied unchecked
			w := new(big.Int).Div(new(big.Int).Lsh(big.NewInt(1), 64), big.NewInt(m))
			w.Add(w, big.NewInt(recentBase*1e9/m+r.Int64N(1000)))
			v = w.String()
		default:
			v = "9223372036854775808"
		}
		t = head + " fi=1i " + v
	case "unescaped-space":
		t = pick(g.meas+",tk0=a b,u="+ln.ID+" fi=1i "+ts, head+",tk0=a b fi=1i "+ts)
	case "nan-inf":
		t = head + " ff=" + pick("NaN", "nan", "Inf", "+Inf", "-Inf", "inf", "Infinity", "-infinity", "NAN") + " " + ts
	case "float-overflow":
		t = head + " ff=" + pick("1e400", "-1e400", "1e309", "1.8e308", "123456789e9999") + " " + ts
	case "int-overflow":
		t = head + " fi=" + pick("9223372036854775808i", "-9223372036854775809i", "18446744073709551616i", "99999999999999999999999i") + " " + ts
	}
	ln.Text = t
	ln.Cats = []string{"invalid:" + kind}
	return ln
}

// maybeLine: lexically unusual numbers. Admissible: rejected, or stored equal to the
// value the text denotes (strconv.ParseFloat / ParseInt of the digits).
var maybeKinds = []string{"plus-sign", "leading-zeros", "f-suffix", "underflow", "plus-int", "leading-zeros-int", "hex-float"}

func (g *gen) maybeLine() Line {
	kind := maybeKinds[g.next("maybe", len(maybeKinds))]
	ln := Line{ID: g.newID(), Kind: kMaybe, Why: kind}
	ts := strconv.FormatInt((recentBase*1e9+g.r.Int64N(400000*1e9))/precMult(g.prec), 10)
	pick := func(xs ...string) string { return xs[g.next("maybe:"+kind, len(xs))] }
	key, lex := "ff", ""
	var val Val
	fl := func(denotes string) {
		v, err := strconv.ParseFloat(denotes, 64)
		if err != nil {
			panic("generator: " + denotes)
		}
		val = Val{T: "f", F: math.Float64bits(v)}
	}
	switch kind {
	case "plus-sign":
		lex = pick("+1", "+1.5e3", "+.5", "+0")
		fl(lex)
	case "leading-zeros":
		lex = pick("007", "00.5", "-01.25", "0001e2")
		fl(lex)
	case "f-suffix":
		lex = pick("1.5f", "38f", "-2e3f", ".5f")
		fl(strings.TrimSuffix(lex, "f"))
	case "underflow":
		lex = pick("1e-400", "-1e-400", "4e-325")
		fl(lex)
	case "hex-float":
		lex = pick("0x1p4", "0x1.8p1")
		fl(lex)
	case "plus-int":
		key, lex = "fi", pick("+5i", "+0i")
		n, _ := strconv.ParseInt(strings.TrimSuffix(lex, "i"), 10, 64)
		val = Val{T: "i", I: n}
	case "leading-zeros-int":
		key, lex = "fi", pick("007i", "-0012i", "00i")
		n, _ := strconv.ParseInt(strings.TrimSuffix(lex, "i"), 10, 64)
		val = Val{T: "i", I: n}
	}
	ln.Text = g.meas + ",u=" + ln.ID + " " + key + "=" + lex + " " + ts
	t, _ := strconv.ParseInt(ts, 10, 64)
	ln.TS = t * precMult(g.prec)
	ln.Alts = []Alt{{Meas: g.meas, Tags: map[string]string{"u": ln.ID}, Fields: map[string]Val{key: val}}}
	ln.Cats = []string{"maybe:" + kind}
	return ln
}

// restrictedLine: valid line protocol outside what openGemini documents as supported
// (negative timestamps are refused by its parser; measurement names may not contain , ; / \
// or non-printable characters). Admissible: rejected, or stored equal.
func (g *gen) restrictedLine() Line {
	switch g.next("restricted", 3) {
	case 0:
		ln := g.validLine(false, 2)
		// replace the timestamp by a negative one
		if !ln.NoTS {
			i := strings.LastIndexByte(ln.Text, ' ')
			ln.Text = ln.Text[:i]
		}
		m := precMult(g.prec)
		t := -(1 + g.r.Int64N(1000))
		if g.r.IntN(4) == 0 {
			t = -100 / m // -100 ns is the parser's internal "no timestamp" marker
			if t == 0 {
				t = -1
			}
		}
		ln.Text += " " + strconv.FormatInt(t, 10)
		ln.TS, ln.NoTS = t*m, false
		ln.Kind, ln.Why = kRestricted, "negative-timestamp"
		ln.Cats = append(ln.Cats, "restricted:negative-timestamp")
		return ln
	default:
		form := []string{"comma", "backslash", "semicolon-slash"}[g.next("restrictedform", 3)]
		ln := g.validLine(false, 2)
		var o identOut
		if form == "semicolon-slash" {
			c := []string{";", "/"}[g.r.IntN(2)]
			p := g.plain(1, 3)
			o = identOut{logical: p + c, text: p + c, restricted: "meas-char", cats: []string{"esc:punct-restricted@meas"}}
		} else {
			o = g.ident(pMeas, form, 0)
		}
		o.logical += ln.ID
		o.text += ln.ID
		// re-render with the new measurement
		i := strings.IndexByte(ln.Text, ',')
		ln.Text = o.text + ln.Text[i:]
		for k := range ln.Alts {
			ln.Alts[k].Meas = o.logical
		}
		ln.Kind, ln.Why = kRestricted, o.restricted
		ln.Cats = append(ln.Cats, o.cats...)
		ln.Cats = append(ln.Cats, "restricted:"+o.restricted)
		return ln
	}
}

// ---- lines without tags, and the invalid lines placed in front of them

// untaggedLine: a valid line without any tag, alone in a measurement of its own.
// nFields 1..4 distinct fields.
func (g *gen) untaggedLine(nFields int, placement string) Line {
	r := g.r
	ln := Line{ID: g.newID(), Kind: kValid, Why: "untagged", NoTags: true}
	meas := "c06nt" + ln.ID
	fields := map[string]Val{}
	var parts []string
	order := []string{"fi", "ff", "fb", "fs"}
	r.Shuffle(len(order), func(i, j int) { order[i], order[j] = order[j], order[i] })
	for _, k := range order[:nFields] {
		switch k {
		case "fi":
			v := r.Int64N(1 << 40)
			fields[k] = Val{T: "i", I: v}
			parts = append(parts, k+"="+strconv.FormatInt(v, 10)+"i")
		case "ff":
			bits, lex := g.floatVal("integral")
			fields[k] = Val{T: "f", F: bits}
			parts = append(parts, k+"="+lex)
		case "fb":
			b := r.IntN(2) == 0
			fields[k] = Val{T: "b", B: b}
			parts = append(parts, k+"="+strconv.FormatBool(b))
		default:
			v := g.plain(1, 8)
			fields[k] = Val{T: "s", S: v}
			parts = append(parts, k+`="`+v+`"`)
		}
	}
	tsClass := []string{"recent", "small", "none", "recent"}[g.next("ts-untagged", 4)]
	tsText, ns, noTS := g.timestamp(tsClass)
	ln.TS, ln.NoTS = ns, noTS
	ln.Text = meas + " " + strings.Join(parts, ",")
	if !noTS {
		ln.Text += " " + tsText
	}
	ln.Alts = []Alt{{Meas: meas, Tags: map[string]string{}, Fields: fields}}
	ln.Cats = []string{"tags:none", "untagged:" + placement, "ts:" + tsClass, "precision:" + precName(g.prec), fmt.Sprintf("untagged-fields:%d", nFields)}
	return ln
}

// invalidTaggedLine: an invalid line whose measurement and tag section are well formed
// (several tags) and whose defect sits in a field value or in the timestamp, i.e. after
// the point where a parser has already taken the tags. withFields: the field section is
// well formed and has four fields, only the timestamp is bad.
func (g *gen) invalidTaggedLine(withFields bool) Line {
	kind := "tagged:bad-field-value"
	if withFields {
		kind = "tagged:bad-timestamp"
	}
	ln := Line{ID: g.newID(), Kind: kInvalid, Why: kind}
	head := g.meas + ",host=" + g.plain(2, 5) + ",u=" + ln.ID + ",dc=" + g.plain(2, 5)
	ts := strconv.FormatInt((recentBase*1e9+g.r.Int64N(400000*1e9))/precMult(g.prec), 10)
	if withFields {
		ln.Text = head + ` fi=7i,ff=2.5,fb=true,fs="stale" ` + []string{"12a4", "1.5", "2021-06-05T00:00:00Z", "--5"}[g.next("tagged-ts", 4)]
	} else {
		ln.Text = head + " " + []string{"ff=abc", "ff=1.2.3", "fi=12u", "fi=1.5i", "fb=tru", `fs="abc`, "ff="}[g.next("tagged-fv", 7)] + " " + ts
	}
	ln.Cats = []string{"invalid:" + kind}
	return ln
}
