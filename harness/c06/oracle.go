package main

// Oracle: decodes query results and compares them with the admissible stored forms of
// each line. Everything is decided on the HTTP responses only.

import (
	"encoding/json"
	"fmt"
	"math"
	"sort"
	"strconv"
	"strings"

	"verifharness/proc"
)

// obsRow is one returned row of one series.
type obsRow struct {
	Meas   string
	Tags   map[string]string
	Time   string         // JSON number text
	Fields map[string]any // non-null columns: json.Number, string, bool
}

// quoteIdent quotes an InfluxQL identifier.
func quoteIdent(s string) string {
	return `"` + strings.NewReplacer("\n", `\n`, `\`, `\\`, `"`, `\"`).Replace(s) + `"`
}

// fetch returns the rows of one measurement grouped by the unique tag "u"; rows of series
// without that tag are returned under "".
func fetch(s *proc.Server, db, meas string) (map[string][]obsRow, error) {
	res, err := s.Query(db, "SELECT * FROM "+quoteIdent(meas)+" GROUP BY *", nil)
	if err != nil {
		if res != nil && len(res.Results) > 0 && strings.Contains(res.Results[0].Err, "measurement not found") {
			return map[string][]obsRow{}, nil
		}
		return nil, err
	}
	out := map[string][]obsRow{}
	for _, r := range res.Results {
		for _, se := range r.Series {
			for _, row := range se.Values {
				o := obsRow{Meas: se.Name, Tags: se.Tags, Fields: map[string]any{}}
				for i, col := range se.Columns {
					if i >= len(row) || row[i] == nil {
						continue
					}
					if i == 0 && col == "time" {
						o.Time = fmt.Sprint(row[i])
						continue
					}
					o.Fields[col] = row[i]
				}
				out[se.Tags["u"]] = append(out[se.Tags["u"]], o)
			}
		}
	}
	return out, nil
}

// satConv is what an int64 becomes when it travels through a float64 (the known
// representation defect): rounded to 53 bits; 2^63 (the rounding of values near
// MaxInt64) converts back to MinInt64 on amd64.
func satConv(v int64) int64 {
	f := float64(v)
	if f >= 9223372036854775808.0 {
		return math.MinInt64
	}
	return int64(f)
}

type mismatch struct {
	aspect string // meas tags time row-count field-int field-float field-bool field-string field-missing field-extra
	detail string
	sig    string // complete signature if the mismatch has a dedicated one
}

// compareAlt compares one observed row with one admissible form.
func compareAlt(ln *Line, a *Alt, o *obsRow) *mismatch {
	if o.Meas != a.Meas {
		return &mismatch{aspect: "meas", detail: fmt.Sprintf("measurement %q, expected %q", o.Meas, a.Meas)}
	}
	if len(o.Tags) != len(a.Tags) {
		return &mismatch{aspect: "tags", detail: fmt.Sprintf("tags %v, expected %v", o.Tags, a.Tags)}
	}
	for k, v := range a.Tags {
		if ov, ok := o.Tags[k]; !ok || ov != v {
			return &mismatch{aspect: "tags", detail: fmt.Sprintf("tags %q, expected %q", fmtMap(o.Tags), fmtMap(a.Tags))}
		}
	}
	if !ln.NoTS {
		if o.Time != strconv.FormatInt(ln.TS, 10) {
			return &mismatch{aspect: "time", detail: fmt.Sprintf("time %s, expected %d", o.Time, ln.TS)}
		}
	}
	keys := make([]string, 0, len(a.Fields))
	for k := range a.Fields {
		keys = append(keys, k)
	}
	sort.Strings(keys)
	for _, k := range keys {
		want := a.Fields[k]
		got, ok := o.Fields[k]
		if !ok {
			return &mismatch{aspect: "field-missing", detail: fmt.Sprintf("field %q missing (columns with values: %v)", k, fieldNames(o.Fields))}
		}
		switch want.T {
		case "i":
			n, ok := got.(json.Number)
			if !ok {
				return &mismatch{aspect: "field-int", detail: fmt.Sprintf("field %q = %v (%T), expected integer %d", k, got, got, want.I)}
			}
			if string(n) != strconv.FormatInt(want.I, 10) {
				m := &mismatch{aspect: "field-int", detail: fmt.Sprintf("field %q = %s, expected %d", k, n, want.I)}
				if string(n) == strconv.FormatInt(satConv(want.I), 10) {
					m.sig = "int-precision:stored==int64(float64(v))"
				}
				return m
			}
		case "f":
			n, ok := got.(json.Number)
			if !ok {
				return &mismatch{aspect: "field-float", detail: fmt.Sprintf("field %q = %v (%T), expected float %s", k, got, got, want)}
			}
			f, err := strconv.ParseFloat(string(n), 64)
			if err != nil {
				return &mismatch{aspect: "field-float", detail: fmt.Sprintf("field %q = %s unparsable, expected %s", k, n, want)}
			}
			if math.Float64bits(f) != want.F {
				m := &mismatch{aspect: "field-float", detail: fmt.Sprintf("field %q = %s (bits %#016x), expected %s", k, n, math.Float64bits(f), want)}
				if want.F == 1<<63 && math.Float64bits(f) == 0 {
					m.sig = "float-negzero:-0 read back as 0"
				}
				return m
			}
		case "b":
			bv, ok := got.(bool)
			if !ok || bv != want.B {
				return &mismatch{aspect: "field-bool", detail: fmt.Sprintf("field %q = %v (%T), expected %v", k, got, got, want.B)}
			}
		case "s":
			sv, ok := got.(string)
			if !ok || sv != want.S {
				return &mismatch{aspect: "field-string", detail: fmt.Sprintf("field %q = %q (%T), expected %q", k, got, got, want.S)}
			}
		}
	}
	for k, v := range o.Fields {
		if _, ok := a.Fields[k]; !ok {
			return &mismatch{aspect: "field-extra", detail: fmt.Sprintf("unexpected field %q = %v", k, v)}
		}
	}
	return nil
}

func fmtMap(m map[string]string) string {
	ks := make([]string, 0, len(m))
	for k := range m {
		ks = append(ks, k)
	}
	sort.Strings(ks)
	var b strings.Builder
	for _, k := range ks {
		fmt.Fprintf(&b, "%q=%q ", k, m[k])
	}
	return b.String()
}

func fieldNames(m map[string]any) []string {
	ks := make([]string, 0, len(m))
	for k := range m {
		ks = append(ks, k)
	}
	sort.Strings(ks)
	return ks
}

// compare returns nil if rows (the rows found under the line's unique tag) equal one of
// the admissible forms.
func compare(ln *Line, rows []obsRow) *mismatch {
	if len(rows) != 1 {
		return &mismatch{aspect: "row-count", detail: fmt.Sprintf("%d rows carry the unique tag, expected 1", len(rows))}
	}
	var first *mismatch
	for i := range ln.Alts {
		m := compareAlt(ln, &ln.Alts[i], &rows[0])
		if m == nil {
			return nil
		}
		if first == nil {
			first = m
		}
	}
	if first == nil {
		first = &mismatch{aspect: "stored", detail: "a line with no admissible stored form is stored"}
	}
	return first
}

// mainCat picks the category that names the input class in a signature.
func mainCat(ln *Line, aspect string) string {
	pref := ""
	switch aspect {
	case "field-int":
		pref = "int:"
	case "field-float":
		pref = "float:"
	case "field-bool":
		pref = "bool:"
	case "time":
		pref = "ts:"
	case "field-string":
		pref = "esc:"
	}
	var escs []string
	for _, c := range ln.Cats {
		if pref != "" && pref != "esc:" && strings.HasPrefix(c, pref) {
			return c
		}
		if strings.HasPrefix(c, "esc:") {
			escs = append(escs, c)
		}
	}
	if aspect == "time" {
		for _, c := range ln.Cats {
			if strings.HasPrefix(c, "precision:") {
				return c
			}
		}
	}
	if len(escs) > 0 {
		sort.Strings(escs)
		return strings.Join(escs, "+")
	}
	if ln.Why != "" {
		return ln.Why
	}
	return "plain"
}
