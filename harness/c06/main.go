// Command c06 checks property C06 of openGemini: what is written through the line
// protocol is exactly what queries return, and invalid input is refused with an error
// and stores nothing.
//
// It is a black-box driver: it builds ts-server from the repository working tree, starts
// it on a private loopback address, posts generated line-protocol batches to /write and
// reads everything back through /query (epoch=ns, JSON numbers kept as text).
package main

import (
	"encoding/json"
	"fmt"
	"net/url"
	"os"
	"path/filepath"
	"sort"
	"strings"
	"sync"
	"time"

	"verifharness/proc"
	"verifharness/vf"
)

const db = "c06"
const sentinelMeas = "c06sentinel"

type witness struct {
	Batch *Batch `json:"batch"`
	Line  string `json:"line_id"`
	Pass  string `json:"pass"`
}

func main() {
	c := vf.New("C06", "exploration")
	c.SetRule("one case = one line-protocol line posted to the real /write endpoint inside a request, whose response was judged and which was looked up again through /query (before and after a flush to disk) and compared field by field; a case is non-trivial when it carries at least one generator category (escape form at a position, integer/float/boolean/timestamp class, precision, invalid-line mutation); distinct = distinct combination of categories")
	c.Assume("strconv.ParseFloat/FormatFloat and math/big of the Go toolchain are correct (used to know which double a decimal lexeme denotes)")
	c.Assume("validity of a line is decided by construction from the InfluxDB 1.x line protocol reference; forms on which the reference and its implementation disagree (doubled backslash in identifiers, '+' sign, leading zeros, 'f' suffix, hex floats) are judged 'rejected or stored equal to what the text denotes'")
	c.Assume("openGemini's documented restrictions are not violations when they lead to a rejection with an error: negative timestamps, measurement names containing , ; / \\ or non-printable characters")
	c.Assume("encoding/json decodes the /query response faithfully (numbers are kept as text via json.Number)")

	if c.ReplayIn != "" {
		replay(c)
		c.Finish()
	}
	batches := generate(c)
	srv, err := startServer(c, 0)
	if err != nil {
		c.Broken("%v", err)
		c.Finish()
	}
	run(c, srv, batches)
	srv.Kill()
	growth(c)
	checkRequired(c)
	c.Finish()
}

func startServer(c *vf.Ctx, worker int) (*proc.Server, error) {
	bin, err := proc.Build(c.RepoDir, c.Scratch, "ts-server", false)
	if err != nil {
		return nil, fmt.Errorf("build ts-server: %v", err)
	}
	s := proc.New(proc.Config{Bin: bin, Dir: filepath.Join(c.Scratch, fmt.Sprintf("s%d", worker)), IP: proc.IP(6, worker)})
	if err := s.Start(); err != nil {
		return nil, fmt.Errorf("start: %v", err)
	}
	if err := s.WaitReady(180 * time.Second); err != nil {
		s.Kill()
		return nil, err
	}
	s.HTTP.Timeout = 60 * time.Second
	if _, err := s.Query("", "CREATE DATABASE "+db, nil); err != nil {
		s.Kill()
		return nil, fmt.Errorf("create database: %v", err)
	}
	return s, nil
}

// ---- case generation: a fixed function of (seed, tier)

func generate(c *vf.Ctx) []*Batch {
	nPure := c.Pick(34, 270)
	pureLines := c.Pick(50, 200)
	nMixed := c.Pick(20, 200)
	mixedValid := c.Pick(35, 120)
	mixedInvalid := c.Pick(20, 50)
	mixedMaybe := c.Pick(3, 5)
	nSingle := c.Pick(10, 100)
	nPairs := c.Pick(8, 40)
	rr := map[string]int{}
	mixedSeq, pureSeq := 0, 0
	var out []*Batch
	noMissingMeas := false
	newGen := func(n int, parserOnly bool) *gen {
		g := &gen{r: c.Rand(uint64(n) + 1), seed: c.Seed, batch: n, rr: rr, measShare: c.Pick(1, 3), parserOnly: parserOnly, noMissingMeas: noMissingMeas}
		g.meas = fmt.Sprintf("c06b%04d", n)
		g.prec = precisions[n%len(precisions)]
		return g
	}
	// body: the lines in order, now and then a comment or an empty line in between
	// (never inside a group of lines that must stay adjacent)
	finish := func(g *gen, b *Batch, segs [][]Line, decorate bool) {
		var sb strings.Builder
		b.Lines = b.Lines[:0]
		for _, seg := range segs {
			if decorate && len(segs) > 1 {
				switch g.r.IntN(25) {
				case 0:
					sb.WriteString("# a comment line, u=" + seg[0].ID + " fi=1i\n")
				case 1:
					sb.WriteString("\n")
				}
			}
			for _, ln := range seg {
				b.Lines = append(b.Lines, ln)
				sb.WriteString(ln.Text)
				sb.WriteString("\n")
			}
		}
		b.Body = sb.String()
		if g.r.IntN(2) == 0 {
			b.Body = strings.TrimSuffix(b.Body, "\n")
		}
		out = append(out, b)
	}
	mk := func(kind string, nValid, nInvalid, nMaybe, nRestricted int, parserOnly bool) {
		strict := 0
		if kind == "pure" {
			strict = 2
		} else if parserOnly {
			strict = 1
		}
		n := len(out)
		g := newGen(n, parserOnly)
		// two requests (one that must be accepted, one mixed) are larger than one read block
		g.longStrings = kind == "pure" && pureSeq == 3 || kind == "mixed" && mixedSeq == 4
		b := &Batch{N: n, Kind: kind, Precision: g.prec, Meas: g.meas}
		var segs [][]Line
		for i := 0; i < nValid; i++ {
			segs = append(segs, []Line{g.validLine(g.r.IntN(100) < 40 || kind == "single-valid", strict)})
		}
		for i := 0; i < nInvalid; i++ {
			segs = append(segs, []Line{g.invalidLine()})
		}
		for i := 0; i < nMaybe; i++ {
			segs = append(segs, []Line{g.maybeLine()})
		}
		for i := 0; i < nRestricted; i++ {
			segs = append(segs, []Line{g.restrictedLine()})
		}
		switch kind {
		case "pure":
			// lines without tags among tagged ones
			for i, k := 0, 1+nValid/100; i < k; i++ {
				segs = append(segs, []Line{g.untaggedLine(1+g.r.IntN(4), "among-valid-lines")})
			}
		case "mixed":
			// a line without tags directly after 1..3 invalid lines whose tags are well formed;
			// after a bad timestamp the line has fewer fields than the refused one
			for i, k := 0, 2+nValid/40; i < k; i++ {
				var seg []Line
				nInv := 1 + g.next("invalid-run", 3)
				badTS := g.next("invalid-run-ts", 2) == 0
				for j := 0; j < nInv; j++ {
					seg = append(seg, g.invalidTaggedLine(badTS))
				}
				nf := 1 + g.r.IntN(4)
				if badTS {
					nf = 1 + g.r.IntN(2)
				}
				seg = append(seg, g.untaggedLine(nf, fmt.Sprintf("directly-after-%d-invalid-tagged-lines", nInv)))
				segs = append(segs, seg)
			}
		}
		g.r.Shuffle(len(segs), func(i, j int) { segs[i], segs[j] = segs[j], segs[i] })
		if kind == "mixed" {
			// alternate what the request ends with (the server's answer depends on it)
			wantValidLast := (mixedSeq/4)%2 == 0
			last := len(segs) - 1
			for i := range segs {
				if len(segs[i]) == 1 && (segs[i][0].Kind == kValid) == wantValidLast && (segs[i][0].Kind == kValid || segs[i][0].Kind == kInvalid) {
					segs[i], segs[last] = segs[last], segs[i]
					break
				}
			}
		}
		finish(g, b, segs, true)
	}
	// pairs of requests sent one after the other on an otherwise idle server: the first is
	// refused because of its last line k (tags well formed), the second has a line without
	// tags at the same position k
	for i := 0; i < nPairs; i++ {
		k := i % 6
		ga := newGen(len(out), true)
		a := &Batch{N: ga.batch, Kind: "pair-refused", Precision: ga.prec, Meas: ga.meas}
		var segs [][]Line
		for j := 0; j < k; j++ {
			segs = append(segs, []Line{ga.validLine(false, 2)})
		}
		segs = append(segs, []Line{ga.invalidTaggedLine(i%2 == 0)})
		finish(ga, a, segs, false)
		gb := newGen(len(out), true)
		gb.prec = ga.prec
		b := &Batch{N: gb.batch, Kind: "pure-pair", Precision: gb.prec, Meas: gb.meas, Before: a}
		segs = nil
		for j := 0; j < k; j++ {
			segs = append(segs, []Line{gb.validLine(false, 2)})
		}
		nf := 1 + gb.r.IntN(4)
		if i%2 == 0 {
			nf = 1 + gb.r.IntN(2)
		}
		segs = append(segs, []Line{gb.untaggedLine(nf, "same-position-as-refused-line-of-previous-request")})
		for j, m := 0, gb.r.IntN(3); j < m; j++ {
			segs = append(segs, []Line{gb.validLine(false, 2)})
		}
		finish(gb, b, segs, false)
	}
	for i := 0; i < nPure; i++ {
		pureSeq = i
		mk("pure", pureLines, 0, 0, 0, false)
	}
	for i := 0; i < nMixed; i++ {
		mixedSeq = i
		switch i % 4 {
		case 0: // only lines that the parser itself must refuse
			mk("mixed", mixedValid, mixedInvalid, 0, 0, true)
		case 1: // plus lexically unusual numbers
			mk("mixed", mixedValid, mixedInvalid, 2*mixedMaybe, 0, true)
		case 2: // plus lines that a later stage refuses (time out of range)
			noMissingMeas = true
			mk("mixed", mixedValid, mixedInvalid, 0, 0, false)
			noMissingMeas = false
		default: // plus lines that openGemini documents as unsupported
			mk("mixed", mixedValid, mixedInvalid, 2*mixedMaybe, 4*mixedMaybe, false)
		}
	}
	for i := 0; i < nSingle; i++ {
		mk("single-valid", 1, 0, 0, 0, false)
		mk("single-invalid", 0, 1, 0, 0, false)
	}
	return out
}

// ---- execution

type runner struct {
	c         *vf.Ctx
	s         *proc.Server
	lastWrite time.Time
	mu        sync.Mutex
	expected  map[string]bool // measurement names that may exist
	gone      map[string]bool // line ids already reported as not readable
	seen      map[string]bool // line ids found stored before the flush
}

func parallel(n, workers int, f func(i int)) {
	var wg sync.WaitGroup
	ch := make(chan int)
	for w := 0; w < workers; w++ {
		wg.Add(1)
		go func() {
			defer wg.Done()
			for i := range ch {
				f(i)
			}
		}()
	}
	for i := 0; i < n; i++ {
		ch <- i
	}
	close(ch)
	wg.Wait()
}

func (r *runner) write(b *Batch) bool {
	p := url.Values{}
	if b.Precision != "" {
		p.Set("precision", b.Precision)
	}
	w := r.s.Write(db, b.Body, p)
	if w.Err != nil {
		r.c.Inconclusive("write-transport-error", 1)
		if debug {
			fmt.Printf("TRANSPORT req=%d %v\n", b.N, w.Err)
		}
		b.Status = -1
		return false
	}
	b.Status, b.RespBody = w.Status, w.Body
	if debug {
		fmt.Printf("REQ %d %s prec=%q last=%s/%s -> %d %.200s\n", b.N, b.Kind, b.Precision, b.Lines[len(b.Lines)-1].Kind, b.Lines[len(b.Lines)-1].Why, w.Status, w.Body)
	}
	if len(b.RespBody) > 400 {
		b.RespBody = b.RespBody[:400]
	}
	return true
}

func (r *runner) waitSentinel(id string) {
	w := r.s.Write(db, sentinelMeas+",u="+id+" fi=1i 1622851200000000000", nil)
	r.mu.Lock()
	r.lastWrite = time.Now()
	r.mu.Unlock()
	if !w.Acked() {
		r.c.Inconclusive("sentinel-write-failed", 1)
		return
	}
	for i := 0; i < 120; i++ {
		rows, err := fetch(r.s, db, sentinelMeas)
		if err == nil && len(rows[id]) > 0 {
			return
		}
		time.Sleep(250 * time.Millisecond)
	}
	r.c.Inconclusive("sentinel-never-visible", 1)
}

func run(c *vf.Ctx, s *proc.Server, batches []*Batch) {
	t0 := time.Now()
	phases := map[string]float64{}
	lap := func(what string) {
		phases[what] = float64(int(time.Since(t0).Seconds()*10)) / 10
		c.Extra("phase_done_at_seconds", phases)
		if debug {
			fmt.Printf("PHASE %s done at %.1fs\n", what, time.Since(t0).Seconds())
		}
	}
	r := &runner{c: c, s: s, expected: map[string]bool{sentinelMeas: true}, gone: map[string]bool{}, seen: map[string]bool{}}
	for _, b := range batches {
		for _, x := range []*Batch{b, b.Before} {
			if x == nil {
				continue
			}
			r.expected[x.Meas] = true
			for i := range x.Lines {
				for _, a := range x.Lines[i].Alts {
					r.expected[a.Meas] = true
				}
			}
		}
	}
	// phase 1a: the request pairs, one request at a time while nothing else is going on
	// (the second request of a pair gets the parse buffers the first one left behind)
	for _, b := range batches {
		if b.Before != nil {
			if b.Before.Status == 0 {
				r.write(b.Before)
			}
			r.write(b)
		}
	}
	lap("request pairs")
	// phase 1b: all other writes
	parallel(len(batches), 8, func(i int) {
		if batches[i].Status == 0 {
			r.write(batches[i])
		}
	})
	if !s.Alive() {
		c.Violation("server-died:during-writes", "ts-server exited while line protocol was being written", map[string]any{"log": s.StdoutTail(4000)})
		return
	}
	lap("writes")
	r.waitSentinel("SENT1")
	lap("sentinel")

	// phase 2: read back from the in-memory tables
	deferred := make([][]*Line, len(batches))
	parallel(len(batches), 8, func(i int) {
		b := batches[i]
		if b.Status < 0 {
			return
		}
		var v *verdict
		for try := 0; try < 24; try++ {
			v = r.evaluate(b, nil, true)
			if v == nil || len(v.missing) == 0 {
				break
			}
			time.Sleep(500 * time.Millisecond)
		}
		if v == nil {
			return
		}
		r.commit(b, v, "memtable", true, true)
		deferred[i] = v.missing
	})
	lap("memtable pass")
	// accepted points that never showed up: judged only after the server has had no write for 10 s
	nDef := 0
	for _, d := range deferred {
		nDef += len(d)
	}
	if nDef > 0 {
		r.mu.Lock()
		idle := time.Since(r.lastWrite)
		r.mu.Unlock()
		if idle < 11*time.Second {
			time.Sleep(11*time.Second - idle)
		}
		// idle for more than 10 s now; two more looks cost little and keep a starved
		// machine from turning lag into a verdict
		final := make([]*verdict, len(batches))
		for round := 0; round < 3; round++ {
			parallel(len(batches), 8, func(i int) {
				if len(deferred[i]) == 0 || final[i] != nil && len(final[i].missing) == 0 {
					return
				}
				only := map[string]bool{}
				for _, ln := range deferred[i] {
					only[ln.ID] = true
				}
				final[i] = r.evaluate(batches[i], only, false)
			})
			still := 0
			for _, v := range final {
				if v != nil {
					still += len(v.missing)
				}
			}
			if still == 0 {
				break
			}
			if round < 2 {
				time.Sleep(3 * time.Second)
			}
		}
		for i, v := range final {
			if v == nil {
				continue
			}
			b := batches[i]
			for _, ln := range v.missing {
				r.notReadable(b, ln, "memtable")
			}
			v.missing = nil
			r.commit(b, v, "memtable", true, false)
		}
	}
	if !s.Alive() {
		c.Violation("server-died:during-reads", "ts-server exited while the written data were being queried", map[string]any{"log": s.StdoutTail(4000)})
		return
	}
	lap("deferred")
	r.checkMeasurements()

	// phase 3: flush to disk and read everything back again (column files instead of row tables)
	if err := s.Flush(); err != nil {
		c.Inconclusive("flush-failed", 1)
		return
	}
	lap("flush")
	parallel(len(batches), 8, func(i int) {
		b := batches[i]
		if b.Status < 0 {
			return
		}
		v := r.evaluate(b, nil, false)
		if v == nil {
			return
		}
		for _, ln := range v.missing {
			r.mu.Lock()
			gone, seen := r.gone[ln.ID], r.seen[ln.ID]
			r.mu.Unlock()
			switch {
			case gone:
			case seen:
				c.Violation("lost-after-flush:"+mainCat(ln, ""), fmt.Sprintf("line %q was readable before the flush and is not returned after it", ln.Text), &witness{b, ln.ID, "flushed"})
			default:
				// never judged before the flush (its measurement could not be queried then)
				r.notReadable(b, ln, "flushed")
			}
		}
		r.commit(b, v, "flushed", false, false)
	})
	lap("flushed pass")
	if !s.Alive() {
		c.Violation("server-died:after-flush", "ts-server exited after the flush", map[string]any{"log": s.StdoutTail(4000)})
	}
}

var debug = os.Getenv("C06_DEBUG") != ""

// notReadable reports a line of a request answered 204 that no query returns although the
// server has had no write for more than 10 s.
func (r *runner) notReadable(b *Batch, ln *Line, pass string) {
	r.mu.Lock()
	r.gone[ln.ID] = true
	r.mu.Unlock()
	cat := ln.Why
	if cat == "" {
		cat = mainCat(ln, "")
	}
	r.c.Eval(1)
	countCats(r.c, ln, "judged-with-finding")
	r.c.Violation("accepted-not-readable:"+cat, fmt.Sprintf("[%s] request answered 204, line %q is not returned by a query after the server has been idle for >10 s", pass, ln.Text),
		&witness{b, ln.ID, pass})
}

type finding struct {
	sig, what string
	ln        *Line
}

type verdict struct {
	findings []finding
	missing  []*Line // must be present, not (yet) visible
	okLines  []*Line // judged, nothing wrong
	// valid lines of a request answered with an error that are not stored: admissible,
	// but nothing was compared, so they do not count for coverage
	unverified []*Line
	counts     map[string]int64
	types      []finding
	present    []string // ids of lines found stored
}

// evaluate queries every measurement of the batch and judges each line (only those in
// `only` if non-nil). It reports nothing by itself.
func (r *runner) evaluate(b *Batch, only map[string]bool, reqLevel bool) *verdict {
	v := &verdict{counts: map[string]int64{}}
	measSet := map[string]bool{b.Meas: true}
	for i := range b.Lines {
		for _, a := range b.Lines[i].Alts {
			measSet[a.Meas] = true
		}
	}
	rows := map[string]map[string][]obsRow{}
	qerr := map[string]error{}
	for m := range measSet {
		got, err := fetch(r.s, db, m)
		if err != nil {
			qerr[m] = err
			continue
		}
		rows[m] = got
	}
	ids := map[string]*Line{}
	for i := range b.Lines {
		ids[b.Lines[i].ID] = &b.Lines[i]
	}
	accepted := b.Status == 204
	// which lines are present
	present := map[string][]obsRow{}
	// a measurement that belongs to a line without tags: every series in it is that line's
	ownMeas := map[string]string{}
	for i := range b.Lines {
		if b.Lines[i].NoTags {
			ownMeas[b.Lines[i].Alts[0].Meas] = b.Lines[i].ID
		}
	}
	for m, byID := range rows {
		for id, rs := range byID {
			if owner, ok := ownMeas[m]; ok {
				id = owner
			}
			present[id] = append(present[id], rs...)
		}
	}
	// a later line that the server took: needed to tell the known "error of an earlier
	// line is forgotten" defect from anything else
	laterTaken := make([]bool, len(b.Lines))
	seen := false
	for i := len(b.Lines) - 1; i >= 0; i-- {
		laterTaken[i] = seen
		if b.Lines[i].Kind == kValid || len(present[b.Lines[i].ID]) > 0 {
			seen = true
		}
	}
	// traces of an id anywhere else (tag values, field values) in the fetched measurements
	trace := func(id string) string {
		for m, byID := range rows {
			for u, rs := range byID {
				for _, o := range rs {
					if u != id {
						for k, tv := range o.Tags {
							if strings.Contains(k, id) || strings.Contains(tv, id) {
								return fmt.Sprintf("measurement %q series %s", m, fmtMap(o.Tags))
							}
						}
					}
					for k, fv := range o.Fields {
						if sv, ok := fv.(string); ok && strings.Contains(sv, id) || strings.Contains(k, id) {
							return fmt.Sprintf("measurement %q series %s field %q", m, fmtMap(o.Tags), k)
						}
					}
				}
			}
		}
		return ""
	}
	for i := range b.Lines {
		ln := &b.Lines[i]
		if only != nil && !only[ln.ID] {
			continue
		}
		broken := false
		for _, a := range ln.Alts {
			if qerr[a.Meas] != nil {
				broken = true
			}
		}
		if qerr[b.Meas] != nil || broken {
			v.counts["lines-in-unreadable-measurement"]++
			continue
		}
		got := present[ln.ID]
		if len(got) > 0 {
			v.present = append(v.present, ln.ID)
		}
		silent := func() {
			if laterTaken[i] {
				v.findings = append(v.findings, finding{"refused-silently-204:later-line-taken:nothing-stored",
					fmt.Sprintf("%s line (%s) %q stores nothing but the request is answered 204 (a later line of the request was taken)", ln.Kind, ln.Why, ln.Text), ln})
			} else {
				v.findings = append(v.findings, finding{"refused-silently-204:" + ln.Why + ":no-later-line-taken",
					fmt.Sprintf("%s line (%s) %q stores nothing but the request is answered 204", ln.Kind, ln.Why, ln.Text), ln})
			}
		}
		switch ln.Kind {
		case kValid:
			if len(got) == 0 {
				if accepted {
					v.missing = append(v.missing, ln)
				} else {
					v.counts["valid-line-not-stored-in-request-answered-with-error"]++
					v.unverified = append(v.unverified, ln)
				}
				continue
			}
			if m := compare(ln, got); m != nil {
				sig := m.sig
				if sig == "" {
					sig = "valid-mismatch:" + m.aspect + ":" + mainCat(ln, m.aspect)
					if ln.Why != "" {
						sig = "valid-mismatch:" + m.aspect + ":" + ln.Why
					}
				}
				v.findings = append(v.findings, finding{sig, fmt.Sprintf("line %q (request status %d) reads back different: %s", ln.Text, b.Status, m.detail), ln})
				continue
			}
			v.okLines = append(v.okLines, ln)
		case kInvalid:
			where := ""
			if len(got) > 0 {
				where = fmt.Sprintf("series %s fields %v", fmtMap(got[0].Tags), got[0].Fields)
			} else {
				where = trace(ln.ID)
			}
			if where != "" {
				v.findings = append(v.findings, finding{"invalid-stored:" + ln.Why,
					fmt.Sprintf("invalid line (%s) %q (request status %d) stored something: %s", ln.Why, ln.Text, b.Status, where), ln})
				continue
			}
			if accepted {
				silent()
				continue
			}
			v.okLines = append(v.okLines, ln)
		case kMaybe, kRestricted:
			if len(got) == 0 {
				if tr := trace(ln.ID); tr != "" {
					v.findings = append(v.findings, finding{ln.Kind + "-stored-elsewhere:" + ln.Why, fmt.Sprintf("line %q left a trace in %s", ln.Text, tr), ln})
					continue
				}
				if accepted {
					silent()
					continue
				}
				v.counts[ln.Kind+"-rejected:"+ln.Why]++
				v.okLines = append(v.okLines, ln)
				continue
			}
			if m := compare(ln, got); m != nil {
				sig := m.sig
				if sig == "" {
					sig = ln.Kind + "-mismatch:" + ln.Why + ":" + m.aspect
				}
				v.findings = append(v.findings, finding{sig, fmt.Sprintf("line %q (request status %d) is stored but not as what the text denotes: %s", ln.Text, b.Status, m.detail), ln})
				continue
			}
			v.counts[ln.Kind+"-stored-equal:"+ln.Why]++
			v.okLines = append(v.okLines, ln)
		}
	}
	if only == nil {
		// a measurement that cannot be queried at all: what was accepted into it is not returned
		for m, err := range qerr {
			cls := "other"
			switch {
			case strings.Contains(err.Error(), "unsupported value"):
				cls = "json-unsupported-value"
			case strings.Contains(err.Error(), "undecodable body"):
				cls = "undecodable-response"
			case strings.Contains(err.Error(), "Client.Timeout") || strings.Contains(err.Error(), "connection refused") || strings.Contains(err.Error(), "connection reset"):
				v.counts["inconclusive:query-transport-error"]++
				continue
			}
			v.findings = append(v.findings, finding{"query-failed:" + cls, fmt.Sprintf("SELECT * FROM %s GROUP BY * fails after request %d (status %d) was written: %.300s", quoteIdent(m), b.N, b.Status, err.Error()), &b.Lines[0]})
		}
	}
	if only == nil && reqLevel {
		// whole-request obligations
		if strings.HasPrefix(b.Kind, "pure") && !accepted {
			v.findings = append(v.findings, finding{fmt.Sprintf("valid-request-rejected:%d", b.Status),
				fmt.Sprintf("request %d with only valid lines answered %d %s", b.N, b.Status, b.RespBody), &b.Lines[0]})
		}
		if b.Kind == "single-valid" && !accepted && b.Lines[0].Kind == kValid {
			ln := &b.Lines[0]
			why := ln.Why
			if why == "" {
				why = mainCat(ln, "")
			}
			v.findings = append(v.findings, finding{"valid-line-rejected:" + why,
				fmt.Sprintf("valid line %q sent alone is answered %d %s", ln.Text, b.Status, b.RespBody), ln})
		}
		// every returned series must be explained by a line of this request
		for m, byID := range rows {
			if _, ok := ownMeas[m]; ok {
				continue // judged as a whole with the line that owns the measurement
			}
			for u, rs := range byID {
				if _, ok := ids[u]; !ok {
					v.findings = append(v.findings, finding{"unexplained-series", fmt.Sprintf("measurement %q returns series %s that no line of the request describes", m, fmtMap(rs[0].Tags)), &b.Lines[0]})
				}
			}
		}
		v.types = r.fieldTypes(b)
		// the index must list a line without tags as the bare measurement name
		for i := range b.Lines {
			ln := &b.Lines[i]
			if !ln.NoTags || len(present[ln.ID]) == 0 {
				continue
			}
			meas := ln.Alts[0].Meas
			res, err := r.s.Query(db, "SHOW SERIES FROM "+quoteIdent(meas), nil)
			if err != nil {
				continue
			}
			var keys []string
			for _, sr := range res.Results {
				for _, se := range sr.Series {
					for _, row := range se.Values {
						if len(row) > 0 {
							keys = append(keys, fmt.Sprint(row[0]))
						}
					}
				}
			}
			if len(keys) != 1 || keys[0] != meas {
				v.types = append(v.types, finding{"valid-mismatch:series-key:untagged", fmt.Sprintf("line %q (no tags): SHOW SERIES lists %q, expected exactly [%q]", ln.Text, keys, meas), ln})
			} else {
				v.counts["untagged-series-key-checked"]++
			}
		}
	}
	return v
}

// fieldTypes checks the declared type of every field of the batch measurement: the key
// prefix (fi ff fb fs) fixes the type each key was written with.
func (r *runner) fieldTypes(b *Batch) []finding {
	res, err := r.s.Query(db, "SHOW FIELD KEYS FROM "+quoteIdent(b.Meas), nil)
	if err != nil {
		return nil
	}
	want := map[byte]string{'i': "integer", 'f': "float", 'b': "boolean", 's': "string"}
	var out []finding
	for _, sr := range res.Results {
		for _, se := range sr.Series {
			for _, row := range se.Values {
				if len(row) < 2 {
					continue
				}
				k, t := fmt.Sprint(row[0]), fmt.Sprint(row[1])
				if len(k) < 2 || k[0] != 'f' || want[k[1]] == "" {
					out = append(out, finding{"unexplained-field-key", fmt.Sprintf("measurement %q has field key %q (%s) that no valid line wrote", b.Meas, k, t), &b.Lines[0]})
					continue
				}
				if want[k[1]] != t {
					out = append(out, finding{"field-type:" + want[k[1]] + "-stored-as-" + t, fmt.Sprintf("measurement %q: field %q written as %s is declared %s", b.Meas, k, want[k[1]], t), &b.Lines[0]})
				}
			}
		}
	}
	return out
}

func (r *runner) commit(b *Batch, v *verdict, pass string, first, reqLevel bool) {
	c := r.c
	for _, f := range v.findings {
		if first {
			c.Eval(1)
			countCats(c, f.ln, "judged-with-finding")
		}
		if debug {
			fmt.Printf("FINDING\t%s\t[%s] req=%d/%s/%d\t%s\n", f.sig, pass, b.N, b.Kind, b.Status, f.what)
		}
		c.Violation(f.sig, "["+pass+"] "+f.what, &witness{b, f.ln.ID, pass})
	}
	for _, f := range v.types {
		if debug {
			fmt.Printf("FINDING\t%s\t[%s] req=%d\t%s\n", f.sig, pass, b.N, f.what)
		}
		c.Violation(f.sig, "["+pass+"] "+f.what, &witness{b, f.ln.ID, pass})
	}
	c.Count("rows-compared:"+pass, int64(len(v.okLines)))
	if !first {
		return
	}
	r.mu.Lock()
	for _, id := range v.present {
		r.seen[id] = true
	}
	r.mu.Unlock()
	for k, n := range v.counts {
		if strings.HasPrefix(k, "inconclusive:") {
			c.Inconclusive(strings.TrimPrefix(k, "inconclusive:"), n)
		} else {
			c.Count(k, n)
		}
	}
	if reqLevel {
		c.Count(fmt.Sprintf("requests:%s:status-%d", b.Kind, b.Status), 1)
		c.Distinct("request-status", fmt.Sprint(b.Status))
		if len(b.Body) > 64*1024 {
			c.Count("requests-larger-than-one-64KiB-read-block", 1)
		}
		if len(b.Lines) > 0 {
			c.Distinct("request-ends-with", b.Lines[len(b.Lines)-1].Kind)
		}
	}
	for _, ln := range v.unverified {
		c.Eval(1)
		c.Count("lines:"+ln.Kind+":absent-after-error-response", 1)
	}
	for _, ln := range v.okLines {
		c.Eval(1)
		countCats(c, ln, "judged-ok")
		if len(ln.Cats) > 0 {
			c.Nontrivial(ln.Kind + "|" + strings.Join(sortedCopy(ln.Cats), ","))
		}
		if b.N%7 == 0 && len(ln.Cats) > 3 {
			c.Sample(map[string]any{"line": ln.Text, "kind": ln.Kind, "why": ln.Why, "precision": b.Precision, "request_status": b.Status, "categories": ln.Cats})
		}
	}
}

func sortedCopy(xs []string) []string {
	o := append([]string{}, xs...)
	sort.Strings(o)
	return o
}

var catMu sync.Mutex
var catSeen = map[string]int64{}

func countCats(c *vf.Ctx, ln *Line, how string) {
	c.Count("lines:"+ln.Kind+":"+how, 1)
	for _, cat := range ln.Cats {
		c.Count("cat:"+cat, 1)
		catMu.Lock()
		catSeen[cat]++
		catMu.Unlock()
		if i := strings.IndexByte(cat, ':'); i > 0 {
			c.Distinct(cat[:i], cat[i+1:])
		}
	}
}

// checkMeasurements: no measurement exists that no line describes (an invalid line must
// not create one).
func (r *runner) checkMeasurements() {
	res, err := r.s.Query(db, "SHOW MEASUREMENTS", nil)
	if err != nil {
		r.c.Inconclusive("show-measurements-failed", 1)
		return
	}
	n := 0
	for _, sr := range res.Results {
		for _, se := range sr.Series {
			for _, row := range se.Values {
				if len(row) == 0 {
					continue
				}
				n++
				name := fmt.Sprint(row[0])
				if !r.expected[name] {
					r.c.Violation("unexplained-measurement", fmt.Sprintf("measurement %q exists but no line describes it", name), map[string]any{"measurement": name})
				}
			}
		}
	}
	r.c.Count("measurements-listed", int64(n))
}

// ---- required coverage

func checkRequired(c *vf.Ctx) {
	var req []string
	for _, p := range positions {
		for _, f := range escForms {
			req = append(req, "esc:"+f+"@"+p)
		}
		req = append(req, "esc:unicode@"+p)
	}
	for _, x := range intClasses {
		req = append(req, "int:"+x)
	}
	for _, x := range floatClasses {
		req = append(req, "float:"+x)
	}
	for _, x := range trueSpellings {
		req = append(req, "bool:"+x)
	}
	for _, x := range falseSpellings {
		req = append(req, "bool:"+x)
	}
	for _, x := range precisions {
		req = append(req, "precision:"+precName(x))
	}
	for _, x := range tsClasses {
		req = append(req, "ts:"+x)
	}
	for _, x := range mutationKinds {
		req = append(req, "invalid:"+x)
	}
	for _, x := range maybeKinds {
		req = append(req, "maybe:"+x)
	}
	req = append(req, "tags:none", "untagged:among-valid-lines", "untagged:same-position-as-refused-line-of-previous-request",
		"untagged:directly-after-1-invalid-tagged-lines", "untagged:directly-after-2-invalid-tagged-lines", "untagged:directly-after-3-invalid-tagged-lines",
		"invalid:tagged:bad-field-value", "invalid:tagged:bad-timestamp")
	catMu.Lock()
	defer catMu.Unlock()
	for _, m := range req {
		if catSeen[m] == 0 {
			c.Inconclusive("category-not-reached:"+m, 1)
		}
	}
}

// ---- replay of one recorded request

func replay(c *vf.Ctx) {
	raw, err := os.ReadFile(c.ReplayIn)
	if err != nil {
		c.Broken("replay: %v", err)
		return
	}
	var doc struct {
		Witness witness `json:"witness"`
	}
	var head struct {
		Sig  string `json:"finding_signature"`
		Seed uint64 `json:"seed"`
	}
	_ = json.Unmarshal(raw, &head)
	if strings.HasPrefix(head.Sig, "growth:") || strings.HasPrefix(head.Sig, "server-died:growth") {
		// the growth phase is a fixed function of the seed recorded in the witness file
		fmt.Println("replaying the growth phase")
		growth(c)
		return
	}
	if err := json.Unmarshal(raw, &doc); err != nil || doc.Witness.Batch == nil {
		c.Broken("replay: witness has no batch (%v)", err)
		return
	}
	b := doc.Witness.Batch
	b.Status, b.RespBody = 0, ""
	if b.Before != nil {
		b.Before.Status, b.Before.RespBody = 0, ""
	}
	srv, err := startServer(c, 0)
	if err != nil {
		c.Broken("%v", err)
		return
	}
	defer srv.Kill()
	fmt.Printf("replaying request %d (%d lines, precision %q)\n", b.N, len(b.Lines), b.Precision)
	run(c, srv, []*Batch{b})
	fmt.Printf("request answered %d %s\n", b.Status, b.RespBody)
}
