package main

// Growth phase: every line of the main phases is a series of its own, written once. Here a
// few series are written again and again by separate requests, each time with another subset
// of a fixed pool of fields (new field names sorting before, between and after the ones the
// series already has; rows of one series with different field sets inside one request), with
// unrelated requests of other sizes in between (the server parses each request in pooled
// buffers that the next request overwrites), and with a flush in the middle (later rows add
// fields to series whose earlier rows are in files). Every (series, time) must read back
// with exactly the fields of its line: before the middle flush, at the end from the memtable,
// and after the final flush.

import (
	"fmt"
	"math"
	"sort"
	"strconv"
	"strings"
	"time"

	"verifharness/proc"
	"verifharness/vf"
)

const growMeas = "c06grow"

// the pool: the last letter gives the type; the names interleave in sort order
var growPool = []string{"aaa_i", "ab_f", "b_s", "cc_b", "k_i", "mmm_f", "mn_s", "n_i", "q_b", "zz_f", "zzz_i", "zzzz_s"}

type growRow struct {
	Series int            `json:"series"`
	TS     int64          `json:"ts"`
	Fields map[string]Val `json:"fields"`
	Req    int            `json:"request"`
	Text   string         `json:"text"`
}

type growWitness struct {
	Row      growRow  `json:"row"`
	Pass     string   `json:"pass"`
	Requests []string `json:"requests_so_far,omitempty"`
}

func growVal(name string, n int64) (Val, string) {
	switch name[len(name)-1] {
	case 'i':
		return Val{T: "i", I: n}, strconv.FormatInt(n, 10) + "i"
	case 'f':
		f := float64(n) + 0.5
		return Val{T: "f", F: math.Float64bits(f)}, strconv.FormatFloat(f, 'f', -1, 64)
	case 'b':
		return Val{T: "b", B: n%2 == 0}, strconv.FormatBool(n%2 == 0)
	}
	s := "v" + strconv.FormatInt(n, 10)
	return Val{T: "s", S: s}, `"` + s + `"`
}

func growth(c *vf.Ctx) {
	s, err := startServer(c, 1)
	if err != nil {
		c.Inconclusive("growth:server-start", 1)
		return
	}
	defer s.Kill()
	r := c.Rand(660001)
	nSeries := c.Pick(10, 40)
	rounds := c.Pick(10, 24)
	base := int64(1_700_000_000_000_000_000)
	var rows []growRow
	var reqs []string
	counter := int64(100)
	have := make([]map[string]bool, nSeries) // fields each series has so far
	for i := range have {
		have[i] = map[string]bool{}
	}
	fillerN := 0
	filler := func() bool {
		// an unrelated request of another size: 1..40 lines with long field names
		var sb strings.Builder
		for i, n := 0, 1+r.IntN(40); i < n; i++ {
			fillerN++
			fmt.Fprintf(&sb, "c06fill,k=%d %s=%di,%s=%d.25 %d\n", fillerN%7, strings.Repeat("q", 3+r.IntN(12)), fillerN, strings.Repeat("w", 2+r.IntN(9)), fillerN, base+int64(fillerN))
		}
		wr := s.Write(db, sb.String(), nil)
		return wr.Acked()
	}
	check := func(pass string) bool {
		// a new series becomes visible to queries a moment after its acknowledged first write
		// (asynchronous index; the main phases wait the same way): wait until every row is there
		var obs map[string]*obsRow
		for deadline := time.Now().Add(15 * time.Second); ; {
			var err error
			obs, err = growFetch(s)
			if err != nil {
				if !s.Alive() {
					c.Violation("server-died:growth", "ts-server exited during the growth phase (series written by several requests with growing field sets): "+firstPanicLine(s.StdoutTail(1<<20)), map[string]any{"requests": reqs, "log": s.StdoutTail(6000)})
					return false
				}
				c.Inconclusive("growth:query-error", 1)
				return false
			}
			all := true
			for i := range rows {
				if _, ok := obs[fmt.Sprintf("%d|%d", rows[i].Series, rows[i].TS)]; !ok {
					all = false
					break
				}
			}
			if all || time.Now().After(deadline) {
				break
			}
			time.Sleep(200 * time.Millisecond)
		}
		ok := true
		for i := range rows {
			row := &rows[i]
			c.Eval(1)
			c.Count("growth/rows-compared/"+pass, 1)
			key := fmt.Sprintf("%d|%d", row.Series, row.TS)
			ln := &Line{ID: key, Text: row.Text, TS: row.TS}
			a := &Alt{Meas: growMeas, Tags: map[string]string{"s": strconv.Itoa(row.Series)}, Fields: row.Fields}
			o, found := obs[key]
			var m *mismatch
			if !found {
				m = &mismatch{aspect: "row-missing", detail: "no row at this series and time"}
			} else {
				m = compareAlt(ln, a, o)
			}
			if m == nil {
				continue
			}
			ok = false
			c.Violation("growth:"+m.aspect+":"+pass, fmt.Sprintf("series s=%d written by several requests with growing field sets: the row of line %q (request %d) reads back differently (%s): %s", row.Series, row.Text, row.Req, pass, m.detail),
				&growWitness{Row: *row, Pass: pass, Requests: reqs})
			break
		}
		return ok
	}
	for round := 0; round < rounds; round++ {
		order := r.Perm(nSeries)
		for len(order) > 0 {
			k := 1 + r.IntN(3)
			if k > len(order) {
				k = len(order)
			}
			var sb strings.Builder
			var pending []growRow
			for _, se := range order[:k] {
				nRows := 1
				if r.IntN(4) == 0 {
					nRows = 2 + r.IntN(2) // several rows of one series with different field sets in one request
				}
				for j := 0; j < nRows; j++ {
					nf := 1 + r.IntN(4)
					pick := map[string]bool{}
					// prefer a name the series does not have yet (that is the interesting step)
					for tries := 0; len(pick) < nf && tries < 20; tries++ {
						n := growPool[r.IntN(len(growPool))]
						if !have[se][n] || r.IntN(3) == 0 {
							pick[n] = true
						}
					}
					if len(pick) == 0 {
						pick[growPool[r.IntN(len(growPool))]] = true
					}
					names := make([]string, 0, len(pick))
					for n := range pick {
						names = append(names, n)
					}
					sort.Strings(names)
					if r.IntN(2) == 0 { // the line need not list its fields in sorted order
						r.Shuffle(len(names), func(a, b int) { names[a], names[b] = names[b], names[a] })
					}
					counter++
					ts := base + counter*1000
					fields := map[string]Val{}
					var parts []string
					newBefore, newMiddle, newAfter := false, false, false
					for _, n := range names {
						counter++
						v, text := growVal(n, counter)
						fields[n] = v
						parts = append(parts, n+"="+text)
						if !have[se][n] && len(have[se]) > 0 {
							lo, hi := false, false
							for h := range have[se] {
								if h < n {
									lo = true
								} else {
									hi = true
								}
							}
							switch {
							case lo && hi:
								newMiddle = true
							case hi:
								newBefore = true
							default:
								newAfter = true
							}
						}
					}
					for n := range fields {
						have[se][n] = true
					}
					text := fmt.Sprintf("%s,s=%d %s %d", growMeas, se, strings.Join(parts, ","), ts)
					sb.WriteString(text + "\n")
					pending = append(pending, growRow{Series: se, TS: ts, Fields: fields, Req: len(reqs), Text: text})
					cat := "growth|same-fields"
					switch {
					case newMiddle:
						cat = "growth|new-field-between-existing"
					case newBefore:
						cat = "growth|new-field-before-existing"
					case newAfter:
						cat = "growth|new-field-after-existing"
					}
					if nRows > 1 {
						cat += "|several-rows-of-the-series-in-one-request"
					}
					if round > rounds/2 {
						cat += "|after-a-flush"
					}
					c.Nontrivial(cat)
					c.Distinct("growth-step", cat)
				}
			}
			order = order[k:]
			body := sb.String()
			wr := s.Write(db, body, nil)
			if !wr.Acked() && !s.Alive() {
				c.Violation("server-died:growth", "ts-server exited during the growth phase (series written by several requests with growing field sets): "+firstPanicLine(s.StdoutTail(1<<20)), map[string]any{"requests": append(reqs, body), "log": s.StdoutTail(6000)})
				return
			}
			if !wr.Acked() {
				c.Violation("growth:valid-request-refused", fmt.Sprintf("a request of valid lines was answered %d %s", wr.Status, wr.Body), map[string]any{"body": body})
				return
			}
			reqs = append(reqs, body)
			rows = append(rows, pending...)
			for i, n := 0, r.IntN(4); i < n; i++ {
				if !filler() {
					c.Inconclusive("growth:filler-refused", 1)
				}
			}
		}
		if round == rounds/2 {
			if !check("memtable-before-the-middle-flush") {
				return
			}
			if err := s.Flush(); err != nil {
				c.Inconclusive("growth:flush-failed", 1)
				return
			}
			if !check("files-after-the-middle-flush") {
				return
			}
		}
	}
	c.Count("growth/requests", int64(len(reqs)))
	c.Count("growth/filler-lines", int64(fillerN))
	if !check("files-plus-memtable-at-the-end") {
		return
	}
	if err := s.Flush(); err != nil {
		c.Inconclusive("growth:flush-failed", 1)
		return
	}
	check("files-after-the-final-flush")
	if !s.Alive() {
		c.Violation("server-died:growth", "ts-server exited during the growth phase", map[string]any{"log": s.StdoutTail(4000)})
	}
}

// growFetch returns the rows of the growth measurement keyed by "series|time".
func growFetch(s *proc.Server) (map[string]*obsRow, error) {
	res, err := s.Query(db, "SELECT * FROM "+growMeas+" GROUP BY *", nil)
	if err != nil {
		return nil, err
	}
	out := map[string]*obsRow{}
	for _, r := range res.Results {
		for _, se := range r.Series {
			for _, row := range se.Values {
				o := &obsRow{Meas: se.Name, Tags: se.Tags, Fields: map[string]any{}}
				for i, col := range se.Columns {
					if i >= len(row) || row[i] == nil {
						continue
					}
					if i == 0 && col == "time" {
						o.Time = fmt.Sprint(row[i])
						continue
					}
					o.Fields[col] = row[i]
				}
				out[se.Tags["s"]+"|"+o.Time] = o
			}
		}
	}
	return out, nil
}

func firstPanicLine(log string) string {
	for _, ln := range strings.Split(log, "\n") {
		if strings.HasPrefix(ln, "panic:") || strings.HasPrefix(ln, "fatal error:") {
			if len(ln) > 200 {
				ln = ln[:200]
			}
			return ln
		}
	}
	return "(no panic line in the output)"
}
