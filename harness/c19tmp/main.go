package main

import (
	"fmt"
	"os"
	"strings"
	"time"
	"verifharness/proc"
)

// temporary exploration helper: start an auth-enabled server and wait
func main() {
	dir := os.Args[1]
	extra := map[string][]string{"http": {`shared-secret = "verif-c19-secret"`}}
	for _, a := range os.Args[2:] {
		kv := strings.SplitN(a, ":", 2)
		extra[kv[0]] = append(extra[kv[0]], kv[1])
	}
	s := proc.New(proc.Config{Bin: "/var/tmp/c19x/ts-server", Dir: dir, IP: "127.29.9.9", Auth: true, Extra: extra})
	if err := s.Start(); err != nil {
		fmt.Println(err)
		os.Exit(2)
	}
	fmt.Println("started", s.URL())
	time.Sleep(20 * time.Minute)
	s.Kill()
}
