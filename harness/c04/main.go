// C04 — concurrent writes, flushes, compactions and queries show no torn data.
// A real ts-server built with -race -tags verif runs under W writer clients, R reader
// clients, a flusher, a compaction/merge trigger and a dropper (separate measurement),
// with background flush/compaction left on and seeded delays at hook points between the
// critical sections of flush and file replacement. The recorded client history is checked
// per (series,timestamp) with porcupine (register model) and linear-time checks; race
// detector reports are reduced to signatures and gated on a watch-list; the run ends with
// SIGTERM while clients are active (no crash, no deadlock).
package main

import (
	"encoding/json"
	"fmt"
	"math/rand/v2"
	"os"
	"path/filepath"
	"regexp"
	"sort"
	"strconv"
	"strings"
	"sync"
	"sync/atomic"
	"syscall"
	"time"

	"github.com/anishathalye/porcupine"

	"verifharness/kit"
	"verifharness/proc"
	"verifharness/vf"
)

const db = "db0"

var clock int64

func tick() int64 { return atomic.AddInt64(&clock, 1) }

type key struct {
	Series string // "w=1,s=2"
	T      int64
}

type op struct {
	Client int   `json:"client"`
	Write  bool  `json:"write"`
	Key    key   `json:"key"`
	Val    int64 `json:"val"` // value id written / read (0 = absent)
	Call   int64 `json:"call"`
	Ret    int64 `json:"ret"` // 0 = outcome unknown (kept open)
	Torn   bool  `json:"torn,omitempty"`
}

type recorder struct {
	mu        sync.Mutex
	ops       []op
	attempted map[int][]key // writer -> keys whose write was issued (recorded before the call)
	seenKey   map[key]bool
	acked     map[key]int64 // logical time of the first acknowledged write of the key
	anomalies []map[string]any
}

func (r *recorder) ack(k key, t int64) {
	r.mu.Lock()
	if r.acked[k] == 0 {
		r.acked[k] = t
	}
	r.mu.Unlock()
}

func (r *recorder) ackedAt(k key) int64 {
	r.mu.Lock()
	defer r.mu.Unlock()
	return r.acked[k]
}

func (r *recorder) attempt(w int, ks ...key) {
	r.mu.Lock()
	for _, k := range ks {
		if !r.seenKey[k] {
			r.seenKey[k] = true
			r.attempted[w] = append(r.attempted[w], k)
		}
	}
	r.mu.Unlock()
}

func (r *recorder) watched(w int) []key {
	r.mu.Lock()
	defer r.mu.Unlock()
	return append([]key(nil), r.attempted[w]...)
}

func (r *recorder) add(o ...op) {
	r.mu.Lock()
	r.ops = append(r.ops, o...)
	r.mu.Unlock()
}

type profile struct {
	Name   string
	Points string
	Extra  map[string][]string
}

var profiles = []profile{
	{"delays-in-flush", "cursor-before-clone-readers=sleep(15,30);flush-after-wal-switch=sleep(40,60);flush-after-index-flush=sleep(20,40);flush-after-commit=sleep(40,60);flush-before-snapshot-release=sleep(40,60)", nil},
	{"delays-in-replace", "cursor-before-clone-readers=sleep(15,30);replace-after-log=sleep(30,60);replace-after-rename=sleep(40,60);replace-after-delete-old=sleep(40,60);flush-after-commit=sleep(10,30)", nil},
	// background flushes by cold duration (writers pause together), forced flushes fired
	// while a background flush is between its memtable switch and the snapshot release
	{"cold-background-flush", "flush-after-wal-switch=sleep(250);flush-after-commit=sleep(120);flush-before-snapshot-release=sleep(80)", map[string][]string{"data.memtable": {`write-cold-duration = "1s"`}}},
	{"no-delays", "", nil},
	{"delays-small-segments", "flush-after-wal-switch=sleep(30,50);replace-after-rename=sleep(30,50);flush-before-snapshot-release=sleep(30,50)", map[string][]string{"data": {"max-rows-per-segment = 8"}}},
}

const baseT = int64(1_700_000_000) * 1_000_000_000

type runResult struct {
	ops      []op
	races    map[string]int // signature -> count
	raceText map[string]string
	crashed  string
	closeMsg string
}

func seriesName(w, s int) string { return fmt.Sprintf("s=%d,w=%d", s, w) }

func (rn *runner) runOnce(runIdx int, p profile, nW, nR, batches, scans int) {
	c := rn.c
	r := c.Rand(uint64(4000 + runIdx))
	dir := filepath.Join(c.Scratch, fmt.Sprintf("run%d", runIdx))
	_ = os.MkdirAll(dir, 0o755)
	raceLog := filepath.Join(dir, "race")
	extra := map[string][]string{}
	for k, v := range p.Extra {
		extra[k] = append(extra[k], v...)
	}
	s := proc.New(proc.Config{Bin: rn.bin, Dir: dir, IP: proc.IP(4, runIdx%8), Extra: extra,
		Env: []string{"GORACE=halt_on_error=0 log_path=" + raceLog + " history_size=3"}})
	if err := s.Start(); err != nil {
		c.Broken("start: %v", err)
		return
	}
	defer s.Kill()
	if err := s.WaitReady(240 * time.Second); err != nil {
		c.Broken("run %d: %v", runIdx, err)
		return
	}
	if _, err := s.Query("", "CREATE DATABASE "+db, nil); err != nil {
		c.Broken("create database: %v", err)
		return
	}
	const nSeries = 3
	// warm-up: one point per series (timestamp index 0), wait until established
	var warm strings.Builder
	var valSeq int64
	newVal := func(client int) int64 { return int64(client)<<32 | atomic.AddInt64(&valSeq, 1) }
	rec := &recorder{attempted: map[int][]key{}, seenKey: map[key]bool{}, acked: map[key]int64{}}
	line := func(w, se int, t int64, v int64) string {
		return fmt.Sprintf("m,w=%d,s=%d fi=%di,fs=\"v%d\" %d\n", w, se, v, v, t)
	}
	for w := 0; w < nW; w++ {
		for se := 0; se < nSeries; se++ {
			v := newVal(w + 1)
			call := tick()
			warm.WriteString(line(w, se, baseT, v))
			rec.attempt(w, key{seriesName(w, se), baseT})
			rec.ack(key{seriesName(w, se), baseT}, call+1)
			rec.add(op{Client: w + 1, Write: true, Key: key{seriesName(w, se), baseT}, Val: v, Call: call, Ret: call + 1})
		}
	}
	tick()
	warm.WriteString("md,w=9,s=0 fi=1i,fs=\"v1\" " + strconv.FormatInt(baseT, 10) + "\n")
	if wr := s.Write(db, warm.String(), nil); !wr.Acked() {
		c.Broken("warm-up write: %d %s %v", wr.Status, wr.Body, wr.Err)
		return
	}
	deadline := time.Now().Add(120 * time.Second)
	for {
		res, err := s.Query(db, "SELECT fi FROM m GROUP BY *", nil)
		if err == nil && len(res.Results) == 1 && len(res.Results[0].Series) == nW*nSeries {
			break
		}
		if time.Now().After(deadline) {
			c.Inconclusive("series-never-established", 1)
			return
		}
		time.Sleep(200 * time.Millisecond)
	}
	if p.Points != "" {
		if err := s.Points(p.Points); err != nil {
			c.Broken("points: %v", err)
			return
		}
	}
	var stop int32
	var totalBatches int64
	var pauseUntil int64 // unix nanos until which writers hold off (cold-background-flush profile)
	cold := p.Name == "cold-background-flush"
	var closeTick int64 // logical time of the SIGTERM (0 = not yet)
	var wg sync.WaitGroup
	var writesDone int32
	var readsOverlapFlush int64
	var flushGen, replaceGen int64
	var maintBusy, finalScan, finalDone int32
	// writers
	for w := 0; w < nW; w++ {
		wg.Add(1)
		go func(w int) {
			defer wg.Done()
			defer atomic.AddInt32(&writesDone, 1)
			wr := rand.New(rand.NewPCG(c.Seed, uint64(runIdx*100+w)))
			next := make([]int, nSeries) // next fresh timestamp index per series
			for i := range next {
				next[i] = 1
			}
			nb := batches
			if cold {
				nb = batches * 2 // the run must span several cold pauses
			}
			for b := 0; b < nb && atomic.LoadInt32(&stop) == 0; b++ {
				if cold {
					// every 100 batches (all writers together) everybody pauses for 1.6 s: the shard
					// goes cold (write-cold-duration 1 s) and flushes in the background
					if atomic.AddInt64(&totalBatches, 1)%100 == 0 {
						atomic.StoreInt64(&pauseUntil, time.Now().Add(1600*time.Millisecond).UnixNano())
						c.Count("cold-pauses", 1)
					}
					if d := atomic.LoadInt64(&pauseUntil) - time.Now().UnixNano(); d > 0 {
						time.Sleep(time.Duration(d))
					}
				}
				n := 1 + wr.IntN(3)
				var body strings.Builder
				var ops []op
				seen := map[key]bool{}
				for k := 0; k < n; k++ {
					se := wr.IntN(nSeries)
					ti := next[se]
					if ti > 1 && wr.IntN(4) == 0 {
						ti = wr.IntN(ti) // overwrite an older timestamp (late data)
					} else {
						next[se]++
					}
					kk := key{seriesName(w, se), baseT + int64(ti)*1_000_000_000}
					if seen[kk] {
						continue
					}
					seen[kk] = true
					v := newVal(w + 1)
					body.WriteString(line(w, se, kk.T, v))
					ops = append(ops, op{Client: w + 1, Write: true, Key: kk, Val: v})
				}
				for _, o := range ops {
					rec.attempt(w, o.Key)
				}
				call := tick()
				res := s.Write(db, body.String(), nil)
				ret := tick()
				for i := range ops {
					ops[i].Call = call
					if res.Acked() {
						ops[i].Ret = ret
						rec.ack(ops[i].Key, ret)
					}
				}
				if !res.Acked() {
					// outcome unknown (timeout / reset / 5xx): stays open until the end; this logical
					// client stops writing those keys by ending
					rec.add(ops...)
					if atomic.LoadInt32(&stop) == 0 {
						c.Count("writes-with-unknown-outcome", 1)
					}
					return
				}
				rec.add(ops...)
				if wr.IntN(3) == 0 {
					time.Sleep(time.Duration(wr.IntN(15)) * time.Millisecond)
				}
			}
		}(w)
	}
	// readers
	var torn, dupRows, unknownVals []string
	var rmu sync.Mutex
	for rd := 0; rd < nR; rd++ {
		wg.Add(1)
		go func(rd int) {
			defer wg.Done()
			rr := rand.New(rand.NewPCG(c.Seed, uint64(runIdx*100+50+rd)))
			client := 100 + rd
			myFinal := 0 // writers scanned in the quiescent pass (see finalScan)
			for q := 0; (q < scans || myFinal <= nW) && atomic.LoadInt32(&stop) == 0; q++ {
				if q >= scans && atomic.LoadInt32(&finalScan) == 0 {
					time.Sleep(20 * time.Millisecond) // out of seeded scans: wait for the quiescent pass
					continue
				}
				w := rr.IntN(nW)
				if atomic.LoadInt32(&finalScan) == 1 && myFinal <= nW {
					// quiescent pass: writers and maintenance are done, the server is still up -
					// every reader scans every writer's series once more (judged like any read: it
					// must return the last acknowledged value of every key)
					if myFinal == nW {
						atomic.AddInt32(&finalDone, 1)
						myFinal++
					} else {
						w = myFinal
						myFinal++
					}
				}
				desc := rr.IntN(3) == 0
				stmt := fmt.Sprintf("SELECT fi, fs FROM m WHERE w = '%d' GROUP BY *", w)
				if desc {
					stmt += " ORDER BY time DESC"
				}
				f0, r0 := atomic.LoadInt64(&flushGen), atomic.LoadInt64(&replaceGen)
				watchedKeys := rec.watched(w)
				call := tick()
				res, err := s.Query(db, stmt, nil)
				ret := tick()
				if err != nil || len(res.Results) != 1 {
					continue
				}
				if atomic.LoadInt64(&flushGen) != f0 || atomic.LoadInt64(&replaceGen) != r0 {
					atomic.AddInt64(&readsOverlapFlush, 1)
				}
				got := map[key]int64{}
				for _, se := range res.Results[0].Series {
					sn := seriesName(atoi(se.Tags["w"]), atoi(se.Tags["s"]))
					for _, row := range se.Values {
						t, _ := strconv.ParseInt(fmt.Sprint(row[0]), 10, 64)
						k := key{sn, t}
						if _, dup := got[k]; dup {
							rmu.Lock()
							dupRows = append(dupRows, fmt.Sprintf("%s: %s@%d twice", stmt, sn, t))
							rmu.Unlock()
						}
						var fi int64
						if row[1] != nil {
							fi, _ = strconv.ParseInt(fmt.Sprint(row[1]), 10, 64)
						}
						fs, _ := row[2].(string)
						if row[1] == nil || fs != "v"+strconv.FormatInt(fi, 10) {
							rmu.Lock()
							torn = append(torn, fmt.Sprintf("%s: %s@%d fi=%v fs=%v", stmt, sn, t, row[1], row[2]))
							rmu.Unlock()
							fi = -1
						}
						got[k] = fi
					}
				}
				// one read per watched key of this writer (keys whose write had been issued before
				// this query started), plus every key the answer contains
				var ops []op
				for _, k := range watchedKeys {
					v := got[k] // 0 = absent
					if v == 0 {
						if at := rec.ackedAt(k); at != 0 && at < call {
							rec.mu.Lock()
							if len(rec.anomalies) < 4 {
								l := kitLayout(s)
								rec.anomalies = append(rec.anomalies, map[string]any{"query": stmt, "call": call, "ret": ret, "missing_key": k, "acked_at": at,
									"series_in_answer": len(res.Results[0].Series), "raw": trunc(res.Raw, 3000), "layout_after": l, "flush_gen": []int64{f0, atomic.LoadInt64(&flushGen)}, "replace_gen": []int64{r0, atomic.LoadInt64(&replaceGen)}})
							}
							rec.mu.Unlock()
						}
					}
					delete(got, k)
					ops = append(ops, op{Client: client, Key: k, Val: v, Call: call, Ret: ret, Torn: v == -1})
				}
				for k, v := range got {
					ops = append(ops, op{Client: client, Key: k, Val: v, Call: call, Ret: ret, Torn: v == -1})
				}
				rec.add(ops...)
			}
		}(rd)
	}
	// flusher, compactor, dropper and its clients
	wg.Add(1)
	go func() {
		defer wg.Done()
		fr := rand.New(rand.NewPCG(c.Seed, uint64(runIdx*100+90)))
		n := 0
		for atomic.LoadInt32(&stop) == 0 && atomic.LoadInt32(&writesDone) < int32(nW) {
			if cold {
				// every ~2.5 s all writers pause for 1.5 s: the shard goes cold and flushes in the
				// background; fire a forced flush as soon as a snapshot is seen in progress
				if st, err := s.State(db); err == nil {
					for _, sh := range st.Shards {
						if sh.SnapshotTbl {
							atomic.AddInt64(&flushGen, 1)
							_ = s.Flush()
							atomic.AddInt64(&flushGen, 1)
							c.Count("forced-flushes-fired-while-a-snapshot-was-in-progress", 1)
							break
						}
					}
				}
				time.Sleep(15 * time.Millisecond)
				continue
			}
			time.Sleep(time.Duration(150+fr.IntN(500)) * time.Millisecond)
			if os.Getenv("VERIF_C04_NOMAINT") != "" {
				continue
			}
			x := fr.IntN(10)
			if n%3 == 0 {
				x = 6 // the first and every third action: a merge racing a flush or full compactions
			}
			switch {
			case x < 6:
				atomic.AddInt64(&flushGen, 1)
				_ = s.Flush()
				atomic.AddInt64(&flushGen, 1)
				c.Count("forced-flushes", 1)
			case x < 8 && n%3 == 0 && (runIdx+n/3)%2 == 0:
				// a flush of late rows arriving exactly when an out-of-order merge has removed the
				// last out-of-order file of the measurement and is about to drop the measurement's
				// (then empty) out-of-order list: the merge is parked between the two steps
				atomic.StoreInt32(&maintBusy, 1)
				for k := 0; k < 2; k++ {
					// the first flush may be the very first of the run (ordered files only); what the
					// writers overwrite meanwhile becomes an out-of-order file with the second one
					atomic.AddInt64(&flushGen, 1)
					_ = s.Flush()
					atomic.AddInt64(&flushGen, 1)
					time.Sleep(120 * time.Millisecond)
				}
				atomic.AddInt64(&replaceGen, 1)
				t0 := time.Now()
				hold := "merge-unordered-removed=sleep(1500)"
				if p.Points != "" {
					hold = p.Points + ";" + hold
				}
				n0 := int64(0)
				if st, err := s.State(db); err == nil {
					n0 = st.Points["merge-unordered-removed"]
				}
				_ = s.Points(hold)
				var mwg sync.WaitGroup
				mwg.Add(1)
				go func() { defer mwg.Done(); _ = s.Ctl("POST", "/verif/merge?full=1", "", nil) }() // all out-of-order files of a measurement
				reached := false
				var lastPts map[string]int64
				for t := 0; t < 150 && !reached; t++ {
					time.Sleep(20 * time.Millisecond)
					if st, err := s.State(db); err == nil {
						reached = st.Points["merge-unordered-removed"] > n0
						lastPts = st.Points
					}
				}
				atomic.AddInt64(&flushGen, 1)
				_ = s.Flush() // the writers' late rows of the last moments: a new out-of-order file
				atomic.AddInt64(&flushGen, 1)
				mwg.Wait()
				_ = s.Points(p.Points)
				atomic.AddInt64(&replaceGen, 1)
				time.Sleep(1600 * time.Millisecond) // the parked merge finishes its clean-up
				atomic.StoreInt32(&maintBusy, 0)
				if reached {
					c.Count("flushes-landing-at-the-end-of-an-out-of-order-merge", 1)
				} else {
					c.Count("forced-merges(parked-end-not-reached)", 1)
					if os.Getenv("C04_DEBUG") != "" {
						st, err := s.State(db)
						fmt.Printf("DEBUG merge end not reached: elapsed=%v n0=%d writesDone=%d err=%v points=%v last=%v\n", time.Since(t0), n0, atomic.LoadInt32(&writesDone), err, st.Points, lastPts)
					}
				}
			case x < 8 && n%3 == 0:
				// an out-of-order merge with two full compactions requested while it runs: the
				// planner must leave the files the merge owns alone, both times
				atomic.AddInt64(&flushGen, 1)
				_ = s.Flush() // late rows become an out-of-order file: the merge has work
				atomic.AddInt64(&flushGen, 1)
				atomic.AddInt64(&replaceGen, 1)
				// hold the merge inside its file replacement (it owns its input files until the end)
				hold := "replace-after-log=sleep(450)"
				if p.Points != "" {
					hold = p.Points + ";" + hold
				}
				_ = s.Points(hold)
				var mwg sync.WaitGroup
				mwg.Add(3)
				go func() { defer mwg.Done(); _ = s.Merge() }()
				for _, d := range []int{20 + fr.IntN(60), 150 + fr.IntN(200)} {
					go func(d int) {
						defer mwg.Done()
						time.Sleep(time.Duration(d) * time.Millisecond)
						_ = s.Compact("full")
					}(d)
				}
				mwg.Wait()
				_ = s.Points(p.Points)
				atomic.AddInt64(&replaceGen, 1)
				c.Count("forced-merges-with-concurrent-full-compactions", 1)
			case x < 8:
				atomic.AddInt64(&replaceGen, 1)
				_ = s.Merge()
				atomic.AddInt64(&replaceGen, 1)
				c.Count("forced-merges", 1)
			default:
				atomic.AddInt64(&replaceGen, 1)
				_ = s.Compact("level")
				atomic.AddInt64(&replaceGen, 1)
				c.Count("forced-level-compactions", 1)
			}
			n++
		}
	}()
	wg.Add(1)
	go func() {
		// a writer and a reader on measurement md, which is dropped while they are active
		defer wg.Done()
		i := 0
		for atomic.LoadInt32(&stop) == 0 && atomic.LoadInt32(&writesDone) < int32(nW) {
			i++
			if cold {
				if d := atomic.LoadInt64(&pauseUntil) - time.Now().UnixNano(); d > 0 {
					time.Sleep(time.Duration(d))
				}
			}
			s.Write(db, fmt.Sprintf("md,w=9,s=0 fi=%di,fs=\"v%d\" %d\n", i, i, baseT+int64(i)*1_000_000_000), nil)
			s.Query(db, "SELECT count(fi) FROM md", nil)
			if i%40 == 20 && os.Getenv("VERIF_C04_NODROP") == "" {
				if _, err := s.Query(db, "DROP MEASUREMENT md", nil); err == nil {
					c.Count("drops-while-active", 1)
				}
			}
			time.Sleep(10 * time.Millisecond)
		}
	}()
	// let the workload finish its writes, then close while readers are still scanning
	done := make(chan struct{})
	go func() { wg.Wait(); close(done) }()
	watchdog := time.After(15 * time.Minute)
	for atomic.LoadInt32(&writesDone) < int32(nW) {
		select {
		case <-watchdog:
			atomic.StoreInt32(&stop, 1)
			c.Inconclusive("workload-watchdog", 1)
			<-done
			return
		default:
		}
		if !s.Alive() {
			break
		}
		time.Sleep(100 * time.Millisecond)
	}
	if s.Alive() {
		// quiescent pass before the close: wait for the maintenance action in flight, then let
		// every reader scan everything once (bounded)
		for t := 0; t < 200 && atomic.LoadInt32(&maintBusy) == 1; t++ {
			time.Sleep(50 * time.Millisecond)
		}
		atomic.StoreInt32(&finalScan, 1)
		for t := 0; t < 400 && atomic.LoadInt32(&finalDone) < int32(nR) && s.Alive(); t++ {
			time.Sleep(50 * time.Millisecond)
		}
		if atomic.LoadInt32(&finalDone) >= int32(nR) {
			c.Count("quiescent-read-passes-completed-before-the-close", 1)
		}
	}
	crashed := ""
	if !s.Alive() {
		crashed = firstFatal(s.StdoutTail(1 << 20))
	} else {
		// SIGTERM while readers (and the md clients) are still active
		atomic.StoreInt64(&closeTick, tick())
		s.Signal(syscall.SIGTERM)
		if !s.WaitExit(90 * time.Second) {
			cpu0 := cpuTicks(s.Pid())
			exited := s.WaitExit(60 * time.Second)
			cpu1 := cpuTicks(s.Pid())
			if !exited {
				s.Signal(syscall.SIGQUIT)
				s.WaitExit(20 * time.Second)
				if cpu1-cpu0 < 5 { // < 50 ms of CPU in 60 s: nothing is making progress
					c.Violation("deadlock-at-close", fmt.Sprintf("run %d (%s): SIGTERM with clients active: process neither exited within 150 s nor consumed CPU (%d ticks in 60 s)", runIdx, p.Name, cpu1-cpu0),
						map[string]any{"run": runIdx, "profile": p.Name, "goroutines": tail(s.StdoutTail(1<<20), 12000)})
				} else {
					c.Inconclusive("close-slow", 1)
				}
			}
		}
		if msg := firstFatal(s.StdoutTail(1 << 20)); msg != "no panic line" && !strings.Contains(msg, "SIGQUIT") {
			crashed = msg
		}
	}
	atomic.StoreInt32(&stop, 1)
	<-done
	if crashed != "" {
		c.Violation("server-crash:"+crashed, fmt.Sprintf("run %d (%s): server process died under the concurrent workload: %s", runIdx, p.Name, crashed),
			map[string]any{"run": runIdx, "profile": p.Name, "stdout": tail(s.StdoutTail(1<<20), 8000)})
	}
	c.Eval(1)
	c.Count("reads-overlapping-a-flush-or-file-replacement", readsOverlapFlush)
	c.Nontrivial(fmt.Sprintf("run%d|%s|overlaps=%d", runIdx, p.Name, minI64(readsOverlapFlush, 3)))
	// linear-time checks
	for _, t := range head(torn, 3) {
		c.Violation("torn-row", fmt.Sprintf("run %d (%s): row whose fields come from different writes: %s", runIdx, p.Name, t), map[string]any{"run": runIdx, "profile": p.Name, "rows": head(torn, 20)})
	}
	for _, d := range head(dupRows, 3) {
		c.Violation("duplicate-timestamp-in-one-result", fmt.Sprintf("run %d (%s): %s", runIdx, p.Name, d), map[string]any{"run": runIdx, "profile": p.Name, "rows": head(dupRows, 20)})
	}
	_ = unknownVals
	// answers given while the server is closing are outside the consistency claim (the
	// property only demands that closing neither deadlocks nor crashes): reads that had not
	// returned before the SIGTERM are not judged
	ct := atomic.LoadInt64(&closeTick)
	judged := rec.ops[:0:0]
	dropped := 0
	for _, o := range rec.ops {
		if !o.Write && ct != 0 && (o.Ret == 0 || o.Ret >= ct) {
			dropped++
			continue
		}
		judged = append(judged, o)
	}
	var anomalies []map[string]any
	for _, a := range rec.anomalies {
		if r, _ := a["ret"].(int64); ct == 0 || r < ct {
			anomalies = append(anomalies, a)
		}
	}
	c.Count("read-observations-overlapping-the-close(not judged)", int64(dropped))
	rn.checkHistory(runIdx, p, judged, anomalies)
	rn.collectRaces(runIdx, p, raceLog)
	_ = r
	if runIdx == 0 {
		rec.mu.Lock()
		var sample []op
		for i, o := range rec.ops {
			if i%(len(rec.ops)/6+1) == 0 {
				sample = append(sample, o)
			}
		}
		rec.mu.Unlock()
		c.Sample(map[string]any{"run": 0, "profile": p.Name, "writers": nW, "readers": nR, "ops_recorded": len(rec.ops), "some_ops": sample})
	}
}

func atoi(s string) int { n, _ := strconv.Atoi(s); return n }

func minI64(a, b int64) int64 {
	if a < b {
		return a
	}
	return b
}

func head(xs []string, n int) []string {
	if len(xs) > n {
		return xs[:n]
	}
	return xs
}

func tail(s string, n int) string {
	if i := strings.Index(s, "panic:"); i >= 0 {
		s = s[i:]
	} else if i := strings.Index(s, "fatal error:"); i >= 0 {
		s = s[i:]
	}
	if len(s) > n {
		s = s[:n]
	}
	return s
}

func firstFatal(s string) string {
	for _, ln := range strings.Split(s, "\n") {
		if strings.HasPrefix(ln, "panic:") || strings.HasPrefix(ln, "fatal error:") {
			if len(ln) > 140 {
				ln = ln[:140]
			}
			return ln
		}
	}
	return "no panic line"
}

func cpuTicks(pid int) int64 {
	b, err := os.ReadFile(fmt.Sprintf("/proc/%d/stat", pid))
	if err != nil {
		return 0
	}
	f := strings.Fields(string(b[strings.LastIndexByte(string(b), ')')+1:]))
	if len(f) < 14 {
		return 0
	}
	u, _ := strconv.ParseInt(f[11], 10, 64)
	st, _ := strconv.ParseInt(f[12], 10, 64)
	return u + st
}

// checkHistory: per key, porcupine register check plus a direct single-writer check that
// names the anomaly.
func (rn *runner) checkHistory(runIdx int, p profile, ops []op, anomalies []map[string]any) {
	c := rn.c
	byKey := map[key][]op{}
	var end int64
	for _, o := range ops {
		if o.Ret > end {
			end = o.Ret
		}
		if o.Call > end {
			end = o.Call
		}
	}
	end += 10
	for _, o := range ops {
		if o.Torn {
			continue
		}
		byKey[o.Key] = append(byKey[o.Key], o)
	}
	type regIn struct {
		Write bool
		Val   int64
	}
	model := porcupine.Model{
		Init: func() interface{} { return int64(0) },
		Step: func(state, in, out interface{}) (bool, interface{}) {
			i := in.(regIn)
			if i.Write {
				return true, i.Val
			}
			return out.(int64) == state.(int64), state
		},
		DescribeOperation: func(in, out interface{}) string {
			i := in.(regIn)
			if i.Write {
				return fmt.Sprintf("write(%d)", i.Val)
			}
			return fmt.Sprintf("read -> %d", out.(int64))
		},
	}
	checked, unknown, reads := 0, 0, 0
	keys := make([]key, 0, len(byKey))
	for k := range byKey {
		keys = append(keys, k)
	}
	sort.Slice(keys, func(i, j int) bool {
		if keys[i].Series != keys[j].Series {
			return keys[i].Series < keys[j].Series
		}
		return keys[i].T < keys[j].T
	})
	violations := 0
	for _, k := range keys {
		kops := byKey[k]
		var pops []porcupine.Operation
		nr := 0
		for _, o := range kops {
			ret := o.Ret
			if ret == 0 {
				ret = end // outcome unknown: stays open until the end of the history
			}
			if o.Write {
				pops = append(pops, porcupine.Operation{ClientId: o.Client, Input: regIn{true, o.Val}, Call: o.Call, Output: int64(0), Return: ret})
			} else {
				nr++
				pops = append(pops, porcupine.Operation{ClientId: o.Client, Input: regIn{false, 0}, Call: o.Call, Output: o.Val, Return: ret})
			}
		}
		if nr == 0 {
			continue
		}
		reads += nr
		res, _ := porcupine.CheckOperationsVerbose(model, pops, 20*time.Second)
		switch res {
		case porcupine.Ok:
			checked++
		case porcupine.Unknown:
			unknown++
		case porcupine.Illegal:
			checked++
			violations++
			if violations <= 3 {
				what, sig := explain(kops)
				sort.Slice(kops, func(i, j int) bool { return kops[i].Call < kops[j].Call })
				c.Violation("non-linearizable-key:"+sig, fmt.Sprintf("run %d (%s): history of %s@%d is not linearizable: %s", runIdx, p.Name, k.Series, k.T, what),
					map[string]any{"run": runIdx, "profile": p.Name, "key": k, "ops": kops, "anomalous_answers": anomalies})
			}
		}
	}
	c.Count("keys-checked-with-porcupine", int64(checked))
	c.Count("read-observations-checked", int64(reads))
	c.Count("operations-recorded", int64(len(ops)))
	if unknown > 0 {
		c.Inconclusive("porcupine-timeout-partitions", int64(unknown))
	}
}

// explain classifies an illegal single-writer register history.
func explain(kops []op) (string, string) {
	var ws, rs []op
	for _, o := range kops {
		if o.Write {
			ws = append(ws, o)
		} else {
			rs = append(rs, o)
		}
	}
	sort.Slice(ws, func(i, j int) bool { return ws[i].Call < ws[j].Call })
	idx := map[int64]int{}
	for i, w := range ws {
		idx[w.Val] = i
	}
	for _, r := range rs {
		if r.Val == 0 {
			for _, w := range ws {
				if w.Ret != 0 && w.Ret < r.Call {
					return fmt.Sprintf("read [%d,%d] by client %d returned absent although write(%d) was acknowledged at %d", r.Call, r.Ret, r.Client, w.Val, w.Ret), "acknowledged-point-missing"
				}
			}
			continue
		}
		i, ok := idx[r.Val]
		if !ok {
			return fmt.Sprintf("read by client %d returned value %d that nobody wrote", r.Client, r.Val), "value-nobody-wrote"
		}
		if ws[i].Call > r.Ret {
			return fmt.Sprintf("read [%d,%d] returned %d before its write was issued (%d)", r.Call, r.Ret, r.Val, ws[i].Call), "read-from-the-future"
		}
		for j := i + 1; j < len(ws); j++ {
			if ws[j].Ret != 0 && ws[j].Ret < r.Call {
				return fmt.Sprintf("read [%d,%d] by client %d returned %d although the overwrite write(%d) was acknowledged at %d", r.Call, r.Ret, r.Client, r.Val, ws[j].Val, ws[j].Ret), "stale-value-after-acknowledged-overwrite"
			}
		}
	}
	// per-client order
	byClient := map[int][]op{}
	for _, r := range rs {
		byClient[r.Client] = append(byClient[r.Client], r)
	}
	for cl, l := range byClient {
		sort.Slice(l, func(i, j int) bool { return l[i].Call < l[j].Call })
		last := -1
		for _, r := range l {
			cur := -1
			if r.Val != 0 {
				cur = idx[r.Val]
			}
			if cur < last {
				return fmt.Sprintf("client %d saw write #%d and later (read [%d,%d]) the older state #%d", cl, last, r.Call, r.Ret, cur), "point-went-backwards-for-one-client"
			}
			last = cur
		}
	}
	return "two clients observed the writes in incompatible orders", "incompatible-orders"
}

// a frame line is "  <import path>.<function>()"; the function name itself may contain
// parentheses more than once when a closure of an inlined method is reported, e.g.
// engine/immutable.(*mergeTool).execute.func2.(*MergePerformers).Close.1() — take everything
// up to the trailing "()"
var raceFrame = regexp.MustCompile(`^\s+(github\.com/openGemini/openGemini/.+)\(\)\s*$`)

// collectRaces parses the race detector's log files into signatures: the unordered pair
// of the innermost openGemini functions of the two stacks.
func (rn *runner) collectRaces(runIdx int, p profile, prefix string) {
	c := rn.c
	files, _ := filepath.Glob(prefix + ".*")
	sigs := map[string]string{}
	n := 0
	for _, f := range files {
		b, err := os.ReadFile(f)
		if err != nil {
			continue
		}
		for _, block := range strings.Split(string(b), "WARNING: DATA RACE")[1:] {
			n++
			// the two access stacks come first; goroutine creation stacks follow
			parts := regexp.MustCompile(`\n\n`).Split(block, -1)
			var fns []string
			for _, part := range parts {
				if len(fns) == 2 {
					break
				}
				if strings.Contains(part, "Goroutine ") && strings.Contains(part, "created at") {
					continue
				}
				for _, ln := range strings.Split(part, "\n") {
					if m := raceFrame.FindStringSubmatch(ln); m != nil {
						fn := strings.TrimPrefix(m[1], "github.com/openGemini/openGemini/")
						fns = append(fns, fn)
						break
					}
				}
			}
			if len(fns) < 2 {
				continue
			}
			sort.Strings(fns)
			sig := fns[0] + " <-> " + fns[1]
			if _, ok := sigs[sig]; !ok {
				if len(block) > 5000 {
					block = block[:5000]
				}
				sigs[sig] = block
			}
		}
	}
	c.Count("race-reports", int64(n))
	for sig, text := range sigs {
		if watched(sig) {
			c.Distinct("race-signatures-in-scope", sig)
			c.Violation("race:"+sig, fmt.Sprintf("run %d (%s): data race reported by the race detector between %s", runIdx, p.Name, sig),
				map[string]any{"run": runIdx, "profile": p.Name, "report": text})
		} else {
			c.Distinct("race-signatures-out-of-scope(statistics/logger/caches/initialisers)", sig)
		}
	}
}

// watched: at least one side in the storage mechanisms the property anchors, neither side
// in statistics / logging / cache-statistics code or a one-time initialiser.
func watched(sig string) bool {
	sides := strings.Split(sig, " <-> ")
	in := false
	for _, s := range sides {
		for _, ex := range []string{"lib/statisticsPusher", "lib/logger", "lib/readcache", "lib/cpu", "lib/metrics", "statistics.", "services/"} {
			if strings.Contains(s, ex) {
				return false
			}
		}
		fn := s[strings.LastIndexByte(s, '.')+1:]
		if strings.HasPrefix(fn, "New") || strings.HasPrefix(fn, "Init") || strings.HasPrefix(fn, "init") {
			return false
		}
		for _, pk := range []string{"engine.", "engine/mutable.", "engine/immutable.", "engine/index/tsi.", "lib/record."} {
			if strings.HasPrefix(s, pk) {
				in = true
			}
		}
	}
	return in
}

type runner struct {
	c   *vf.Ctx
	bin string
}

func main() {
	c := vf.New("C04", "exploration")
	c.SetRule("runs of a real ts-server built with -race under 4 writer clients (own series, monotone timestamps, a seeded fraction overwriting older timestamps, unique value ids in two fields), 3 reader clients (scans of one writer's series, asc/desc), forced flushes, merges and level compactions, a measurement dropped while its own clients are active, background flush/compaction on, seeded sleeps at hook points inside flush and file replacement; close by SIGTERM with readers active. Oracles: porcupine register check per (series,timestamp), torn-row / duplicate-row checks, crash, deadlock-at-close (no exit and no CPU), race reports reduced to innermost-function pairs and gated on a watch-list. A case = one run; distinct non-trivial = distinct (run, delay profile) in which reads overlapped a flush or file replacement")
	c.Assume("writes whose HTTP call failed or timed out stay open until the end of the history")
	c.Assume("race reports are schedule dependent; signatures outside the watch-list (statistics, logger, cache counters, one-time initialisers) are counted, not gated")
	bin, err := proc.Build(c.RepoDir, c.Scratch, "ts-server", true)
	if err != nil {
		c.Broken("build ts-server -race: %v", err)
		c.Finish()
	}
	rn := &runner{c: c, bin: bin}
	if c.ReplayIn != "" {
		b, _ := os.ReadFile(c.ReplayIn)
		var w struct {
			Witness struct {
				Run     int    `json:"run"`
				Profile string `json:"profile"`
			} `json:"witness"`
		}
		_ = json.Unmarshal(b, &w)
		p := profiles[0]
		for _, x := range profiles {
			if x.Name == w.Witness.Profile {
				p = x
			}
		}
		rn.runOnce(w.Witness.Run, p, 4, 3, 150, 120)
		c.Nontrivial("replay-a")
		c.Nontrivial("replay-b")
		c.Finish()
	}
	runs := c.Pick(3, 12)
	par := c.Pick(3, 3)
	sem := make(chan struct{}, par)
	var wg sync.WaitGroup
	for i := 0; i < runs; i++ {
		sem <- struct{}{}
		wg.Add(1)
		go func(i int) {
			defer func() { <-sem; wg.Done() }()
			p := profiles[i%len(profiles)]
			if v := os.Getenv("VERIF_C04_PROFILE"); v != "" {
				for _, x := range profiles {
					if x.Name == v {
						p = x
					}
				}
			}
			rn.runOnce(i, p, 4, 3, c.Pick(150, 220), c.Pick(120, 180))
		}(i)
	}
	wg.Wait()
	c.Finish()
}

func trunc(s string, n int) string {
	if len(s) > n {
		return s[:n]
	}
	return s
}

func kitLayout(s *proc.Server) string { return kit.ReadLayout(s, db).String() }
