// Package kit holds what the sequential black-box storage drivers (C01, C02, C03, C09,
// C13) share: the small conflict-heavy universe, the batch generator, dumps of the
// server's logical contents and the visibility / stability rules of DESIGN.md §4.4.
package kit

import (
	"fmt"
	"math/rand/v2"
	"net/url"
	"path/filepath"
	"sort"
	"strings"
	"time"

	"verifharness/model"
	"verifharness/proc"
)

// Universe is deliberately small: conflicts (same series, same timestamp) are the point.
type Universe struct {
	Msts   []string
	Series []map[string]string // tag sets
	Times  []int64             // ns
	Fields []FieldDef
}

type FieldDef struct {
	Name string
	Kind byte
}

const BaseTime = int64(1_700_000_000) * 1_000_000_000 // 2023-11-14T22:13:20Z

// NewUniverse builds nm measurements × ns series × nt timestamps (1 s apart, all in one
// shard group of the default 7 d duration) with the four typed fields.
func NewUniverse(nm, ns, nt int) *Universe {
	u := &Universe{}
	for i := 0; i < nm; i++ {
		u.Msts = append(u.Msts, fmt.Sprintf("m%d", i))
	}
	hosts := []string{"a", "b", "c", "d", "e", "f"}
	regions := []string{"x", "y"}
	for i := 0; i < ns; i++ {
		u.Series = append(u.Series, map[string]string{"host": hosts[i%len(hosts)], "region": regions[(i/2)%len(regions)]})
	}
	for i := 0; i < nt; i++ {
		u.Times = append(u.Times, BaseTime+int64(i)*1_000_000_000)
	}
	u.Fields = []FieldDef{{"fi", 'i'}, {"ff", 'f'}, {"fb", 'b'}, {"fs", 's'}}
	return u
}

var seq int64

// Value produces a fresh value of the kind; values are unique per call for ints and
// strings (so a read identifies the write it observed) and exact eighths for floats.
func Value(r *rand.Rand, kind byte) model.Value {
	seq++
	switch kind {
	case 'i':
		return model.Int(seq*1000 + int64(r.IntN(1000)))
	case 'f':
		return model.Float(float64(seq*8+int64(r.IntN(8))) / 8)
	case 'b':
		return model.Bool(r.IntN(2) == 0)
	}
	return model.Str(fmt.Sprintf("s%d_%d", seq, r.IntN(100)))
}

// BatchOpts steers GenBatch.
type BatchOpts struct {
	MaxPoints   int      // 1..MaxPoints points
	Msts        []string // restrict measurements (nil = all)
	TimeLo      int      // index range into Times [TimeLo, TimeHi)
	TimeHi      int
	FullRowProb float64 // probability that a row carries all fields
	DupInBatch  float64 // probability of repeating a (series,time) inside the batch
}

func (u *Universe) GenBatch(r *rand.Rand, o BatchOpts) []model.Point {
	if o.MaxPoints <= 0 {
		o.MaxPoints = 4
	}
	if o.TimeHi <= o.TimeLo {
		o.TimeLo, o.TimeHi = 0, len(u.Times)
	}
	msts := o.Msts
	if len(msts) == 0 {
		msts = u.Msts
	}
	n := 1 + r.IntN(o.MaxPoints)
	var ps []model.Point
	for i := 0; i < n; i++ {
		var p model.Point
		if len(ps) > 0 && r.Float64() < o.DupInBatch {
			q := ps[r.IntN(len(ps))]
			p = model.Point{Mst: q.Mst, Tags: q.Tags, T: q.T}
		} else {
			p = model.Point{Mst: msts[r.IntN(len(msts))], Tags: u.Series[r.IntN(len(u.Series))],
				T: u.Times[o.TimeLo+r.IntN(o.TimeHi-o.TimeLo)]}
		}
		p.Fields = map[string]model.Value{}
		full := r.Float64() < o.FullRowProb
		for _, f := range u.Fields {
			if full || r.IntN(2) == 0 {
				p.Fields[f.Name] = Value(r, f.Kind)
			}
		}
		if len(p.Fields) == 0 {
			f := u.Fields[r.IntN(len(u.Fields))]
			p.Fields[f.Name] = Value(r, f.Kind)
		}
		ps = append(ps, p)
	}
	return ps
}

// SeedBatch writes one full row per (measurement, series) at the first timestamp, so
// that every series exists in the index before the history proper starts.
func (u *Universe) SeedBatch(r *rand.Rand, msts []string) []model.Point {
	if msts == nil {
		msts = u.Msts
	}
	var ps []model.Point
	for _, m := range msts {
		for _, s := range u.Series {
			p := model.Point{Mst: m, Tags: s, T: u.Times[0], Fields: map[string]model.Value{}}
			for _, f := range u.Fields {
				p.Fields[f.Name] = Value(r, f.Kind)
			}
			ps = append(ps, p)
		}
	}
	return ps
}

// DumpOpts selects what to read.
type DumpOpts struct {
	Desc   bool
	Fields []string // nil = *
	TMin   *int64   // inclusive bounds
	TMax   *int64
	Params url.Values
}

func quoteIdent(s string) string { return `"` + strings.ReplaceAll(s, `"`, `\"`) + `"` }

// DumpQuery renders the SELECT for one measurement.
func DumpQuery(mst string, o DumpOpts) string {
	sel := "*"
	if len(o.Fields) > 0 {
		qs := make([]string, len(o.Fields))
		for i, f := range o.Fields {
			qs[i] = quoteIdent(f)
		}
		sel = strings.Join(qs, ", ")
	}
	q := "SELECT " + sel + " FROM " + quoteIdent(mst)
	var conds []string
	if o.TMin != nil {
		conds = append(conds, fmt.Sprintf("time >= %d", *o.TMin))
	}
	if o.TMax != nil {
		conds = append(conds, fmt.Sprintf("time <= %d", *o.TMax))
	}
	if len(conds) > 0 {
		q += " WHERE " + strings.Join(conds, " AND ")
	}
	q += " GROUP BY *"
	if o.Desc {
		q += " ORDER BY time DESC"
	}
	return q
}

// Dump reads the logical contents of the given measurements.
func Dump(s *proc.Server, db string, msts []string, schema map[string]map[string]byte, o DumpOpts) (model.Contents, []model.Problem, error) {
	out := model.Contents{}
	var probs []model.Problem
	for _, m := range msts {
		res, err := s.Query(db, DumpQuery(m, o), o.Params)
		if err != nil {
			// a measurement that does not exist (any more) reads as empty
			if res != nil && (strings.Contains(err.Error(), "measurement not found") || strings.Contains(err.Error(), "not found")) {
				continue
			}
			return nil, nil, fmt.Errorf("dump %s: %w", m, err)
		}
		if len(res.Results) != 1 {
			return nil, nil, fmt.Errorf("dump %s: %d results", m, len(res.Results))
		}
		c, p := model.FromResult(res.Results[0].Series, schema, o.Desc)
		for k, v := range c {
			out[k] = v
		}
		probs = append(probs, p...)
	}
	return out, probs, nil
}

// Expect restricts the model's contents to what a dump with the given options returns.
func Expect(m *model.Model, msts []string, o DumpOpts) model.Contents {
	want := model.Contents{}
	mset := map[string]bool{}
	for _, x := range msts {
		mset[x] = true
	}
	for k, fs := range m.Rows {
		if !mset[k.Mst] {
			continue
		}
		if o.TMin != nil && k.T < *o.TMin || o.TMax != nil && k.T > *o.TMax {
			continue
		}
		row := map[string]model.Value{}
		if len(o.Fields) == 0 {
			for f, v := range fs {
				row[f] = v
			}
		} else {
			for _, f := range o.Fields {
				if v, ok := fs[f]; ok {
					row[f] = v
				}
			}
		}
		if len(row) > 0 {
			want[k] = row
		}
	}
	return want
}

// WaitSeries polls until every (measurement, series) of pts is returned by a query
// (visibility rule: a new series becomes visible to queries with a lag). Returns the
// number of polls; error only when the watchdog expires.
func WaitSeries(s *proc.Server, db string, pts []model.Point, wd time.Duration) (int, error) {
	need := map[string]map[string]bool{}
	for _, p := range pts {
		if need[p.Mst] == nil {
			need[p.Mst] = map[string]bool{}
		}
		need[p.Mst][model.SeriesKey(p.Tags)] = true
	}
	deadline := time.Now().Add(wd)
	polls := 0
	for {
		polls++
		missing := 0
		for m, ss := range need {
			res, err := s.Query(db, "SELECT * FROM "+quoteIdent(m)+" GROUP BY *", nil)
			seen := map[string]bool{}
			if err == nil && len(res.Results) == 1 {
				for _, se := range res.Results[0].Series {
					seen[model.SeriesKey(se.Tags)] = true
				}
			}
			for k := range ss {
				if !seen[k] {
					missing++
				}
			}
		}
		if missing == 0 {
			return polls, nil
		}
		if time.Now().After(deadline) {
			return polls, fmt.Errorf("%d series still invisible after %s", missing, wd)
		}
		time.Sleep(150 * time.Millisecond)
	}
}

// StableDump reads the full contents repeatedly until accept(dump) holds, or the dump
// stayed identical for 12 consecutive reads (3 s), or wd elapsed. After a restart the
// first answers can be partial while partitions come online and series become visible,
// so missing data is judged only on a dump that stayed stable. Never waits when the
// first dump is already acceptable.
func StableDump(s *proc.Server, db string, msts []string, schema map[string]map[string]byte, accept func(model.Contents) bool, wd time.Duration) (model.Contents, []model.Problem, error) {
	deadline := time.Now().Add(wd)
	var prev model.Contents
	stable := 0
	for {
		cur, probs, err := Dump(s, db, msts, schema, DumpOpts{})
		if err == nil {
			if accept != nil && accept(cur) {
				return cur, probs, nil
			}
			if prev != nil && len(model.Diff(prev, cur, "", 1)) == 0 {
				stable++
			} else {
				stable = 0
			}
			prev = cur
			if stable >= 12 || time.Now().After(deadline) {
				return cur, probs, nil
			}
		} else if time.Now().After(deadline) || !s.Alive() {
			return nil, nil, err
		}
		time.Sleep(250 * time.Millisecond)
	}
}

// SortedKeys lists the row keys of c in canonical order (for samples).
func SortedKeys(c model.Contents) []model.RowKey {
	ks := make([]model.RowKey, 0, len(c))
	for k := range c {
		ks = append(ks, k)
	}
	sort.Slice(ks, func(i, j int) bool {
		a, b := ks[i], ks[j]
		if a.Mst != b.Mst {
			return a.Mst < b.Mst
		}
		if a.Series != b.Series {
			return a.Series < b.Series
		}
		return a.T < b.T
	})
	return ks
}

// Layout describes how a shard's data is currently spread (coverage measure).
type Layout struct {
	ActiveMem bool
	Ordered   int // number of ordered tssp files (all measurements)
	Unordered int
	MaxLevel  int
}

func (l Layout) String() string {
	return fmt.Sprintf("mem=%v ordered=%d unordered=%d maxlevel=%d", l.ActiveMem, minInt(l.Ordered, 9), minInt(l.Unordered, 9), l.MaxLevel)
}

func minInt(a, b int) int {
	if a < b {
		return a
	}
	return b
}

// ReadLayout inspects the data directory (tssp files per shard) and the control port.
func ReadLayout(s *proc.Server, db string) Layout {
	var l Layout
	if st, err := s.State(db); err == nil {
		for _, sh := range st.Shards {
			if sh.ActiveMem > 0 {
				l.ActiveMem = true
			}
		}
	}
	files, _ := filepathGlob(s.DataDir() + "/data/" + db + "/*/*/*/tssp/*/*.tssp")
	for _, f := range files {
		l.Ordered++
		base := f[strings.LastIndexByte(f, '/')+1:]
		parts := strings.Split(strings.TrimSuffix(base, ".tssp"), "-")
		if len(parts) >= 2 {
			var lv int
			fmt.Sscanf(parts[1], "%x", &lv)
			if lv > l.MaxLevel {
				l.MaxLevel = lv
			}
		}
	}
	un, _ := filepathGlob(s.DataDir() + "/data/" + db + "/*/*/*/tssp/*/out-of-order/*.tssp")
	l.Unordered = len(un)
	return l
}

func filepathGlob(p string) ([]string, error) { return filepath.Glob(p) }
