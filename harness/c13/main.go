// C13 — dropping removes exactly what was named, for every kind of read, for good.
// Sequential black-box histories against a real ts-server: data are spread over memtable,
// ordered, out-of-order and compacted files; then DROP SERIES (predicate selecting none /
// some / all series), DROP MEASUREMENT, DROP RETENTION POLICY or DROP DATABASE; then
// further writes (also to dropped series / re-created names), flush, compaction, restart
// (thorough: crash at sampled file-system steps). At three moments a matrix of read
// shapes is evaluated against the model with the drop applied.
package main

import (
	"encoding/json"
	"fmt"
	"math/rand/v2"
	"os"
	"path/filepath"
	"regexp"
	"sort"
	"strconv"
	"strings"
	"sync"
	"sync/atomic"
	"time"

	"verifharness/kit"
	"verifharness/model"
	"verifharness/proc"
	"verifharness/vf"
)

const db = "db0"

type step struct {
	Op     string    `json:"op"` // write flush compact-level compact-full merge restart drop check crash
	RP     string    `json:"rp,omitempty"`
	Points []string  `json:"points,omitempty"`
	Stmt   string    `json:"stmt,omitempty"`
	Drop   *dropSpec `json:"drop,omitempty"`
	// crash steps: the file-system step the process was armed to die in front of (drawn from the
	// history's stream on the first execution, kept for replays) and what the recorder reported
	K          int64  `json:"k,omitempty"`
	DiedBefore string `json:"died_before,omitempty"`
	pts        []model.Point
}

type dropSpec struct {
	Kind string `json:"kind"` // series measurement rp database
	Mst  string `json:"mst,omitempty"`
	Pred string `json:"pred,omitempty"` // InfluxQL text of the tag predicate
	Op   string `json:"pred_op,omitempty"`
	Key  string `json:"key,omitempty"`
	Val  string `json:"val,omitempty"`
}

func (d *dropSpec) matches(tags map[string]string) bool {
	v := tags[d.Key]
	switch d.Op {
	case "=":
		return v == d.Val
	case "!=":
		return v != d.Val
	case "=~":
		return regexp.MustCompile(d.Val).MatchString(v)
	case "!~":
		return !regexp.MustCompile(d.Val).MatchString(v)
	}
	return false
}

type history struct {
	Index      int    `json:"index"`
	Steps      []step `json:"steps"`
	Kind       string `json:"drop_kind"`
	Young      bool   `json:"young_series,omitempty"` // the dropped series was first written right before the drop
	Concurrent bool   `json:"concurrent_drops,omitempty"`
	// Cold: the concurrent statements of the first round are the first DROP SERIES this server
	// process executes for the database (no delete index exists yet); otherwise one sequential
	// warm-up drop of a sacrificial series precedes the concurrent rounds
	Cold bool `json:"first_drops_concurrent,omitempty"`
	// After: what follows the first check after the drop: "" (further writes), "crash" (SIGKILL at
	// a file-system step of a flush), "restart" (clean stop/start while rows acknowledged before
	// the drop are still in the memtable / write-ahead log only)
	After string `json:"after,omitempty"`
	// TwoRP: the database has a second retention policy rp1 holding the same measurements and
	// series (DROP RETENTION POLICY histories, and every third DROP SERIES history: a DROP
	// SERIES applies to every policy, each of which has its own series index and delete index)
	TwoRP bool `json:"two_retention_policies,omitempty"`
	// SecondDropFar: a second DROP SERIES follows rows written two months later (another series index)
	SecondDropFar bool `json:"second_drop_in_a_later_index,omitempty"`
}

func lp(pts []model.Point) []string {
	out := make([]string, len(pts))
	for i, p := range pts {
		out[i] = p.LP()
	}
	return out
}

func genHistory(r *rand.Rand, idx int, kind string, nbuild int, after string, cold bool) *history {
	h := &history{Index: idx, Kind: kind, After: after}
	u := kit.NewUniverse(2, 5, 14)
	add := func(st step) {
		st.Points = lp(st.pts)
		h.Steps = append(h.Steps, st)
	}
	rps := []string{"autogen"}
	if kind == "rp" || (kind == "series" && idx%3 == 1) {
		rps = []string{"autogen", "rp1"}
		h.TwoRP = true
	}
	// every (rp, measurement, series, timestamp) is written at most once while it is live
	// and always as a full row: overwrites, partial rows and their effect on statistics
	// push-down are the subject of C02/C09, not of this property
	used := map[string]bool{}
	key := func(rp string, p model.Point) string {
		return rp + "|" + p.Mst + "|" + model.SeriesKey(p.Tags) + "|" + strconv.FormatInt(p.T, 10)
	}
	fresh := func(rp string, n int) []model.Point {
		var pts []model.Point
		for tries := 0; len(pts) < n && tries < 40*n; tries++ {
			p := model.Point{Mst: u.Msts[r.IntN(len(u.Msts))], Tags: u.Series[r.IntN(len(u.Series))], T: u.Times[1+r.IntN(len(u.Times)-1)]}
			if used[key(rp, p)] {
				continue
			}
			used[key(rp, p)] = true
			p.Fields = map[string]model.Value{}
			for _, f := range u.Fields {
				p.Fields[f.Name] = kit.Value(r, f.Kind)
			}
			pts = append(pts, p)
		}
		return pts
	}
	for _, rp := range rps {
		sb := u.SeedBatch(r, nil)
		for _, p := range sb {
			used[key(rp, p)] = true
		}
		add(step{Op: "write", RP: rp, pts: sb})
	}
	build := func(n int) {
		for i := 0; i < n; i++ {
			x := r.IntN(100)
			rp := rps[r.IntN(len(rps))]
			switch {
			case x < 55:
				if pts := fresh(rp, 1+r.IntN(6)); len(pts) > 0 {
					add(step{Op: "write", RP: rp, pts: pts})
				}
			case x < 75:
				add(step{Op: "flush"})
			case x < 82:
				add(step{Op: "compact-full"})
			case x < 92:
				add(step{Op: "merge"})
			default:
				// fresh later timestamp for all series (ordered data)
				nt := u.Times[len(u.Times)-1] + 1_000_000_000
				u.Times = append(u.Times, nt)
				var pts []model.Point
				for _, m := range u.Msts {
					for _, se := range u.Series {
						p := model.Point{Mst: m, Tags: se, T: nt, Fields: map[string]model.Value{}}
						for _, f := range u.Fields {
							p.Fields[f.Name] = kit.Value(r, f.Kind)
						}
						used[key(rp, p)] = true
						pts = append(pts, p)
					}
				}
				add(step{Op: "write", RP: rp, pts: pts})
				add(step{Op: "flush"})
			}
		}
	}
	build(nbuild)
	if after == "restart" || (after == "crash" && idx%4 == 3) {
		// make sure that rows acknowledged before the drop are still in the memtable / write-ahead
		// log when the server is stopped (or killed after the deleted ids have reached the disk)
		if pts := fresh("autogen", 6); len(pts) > 0 {
			add(step{Op: "write", RP: "autogen", pts: pts})
		}
	}
	// the drop
	d := &dropSpec{Kind: kind}
	if kind == "series-concurrent" {
		// several DROP SERIES statements in flight at once (nothing serialises them between the
		// sql node and the store): every one that is acknowledged must take effect
		d.Kind = "series"
		h.Kind = "series"
		h.Concurrent = true
		d.Mst = u.Msts[r.IntN(len(u.Msts))]
		h.Cold = cold
		if !cold {
			// the first DROP SERIES of a database creates its delete index; that creation is not
			// serialised (separate finding, exercised by the cold variant): make it happen alone
			warm := model.Point{Mst: d.Mst, Tags: map[string]string{"host": "warm", "region": "x"}, T: u.Times[1], Fields: map[string]model.Value{}}
			for _, f := range u.Fields {
				warm.Fields[f.Name] = kit.Value(r, f.Kind)
			}
			add(step{Op: "write", RP: "autogen", pts: []model.Point{warm}})
			add(step{Op: "settle"})
			add(step{Op: "drop", Stmt: "DROP SERIES FROM " + d.Mst + " WHERE host = 'warm'", Drop: &dropSpec{Kind: "series", Mst: d.Mst, Key: "host", Op: "=", Val: "warm", Pred: "host = 'warm'"}})
		}
		for round := 0; round < 4; round++ {
			var pts []model.Point
			var stmts []string
			for i := 0; i < 24; i++ {
				host := fmt.Sprintf("r%dc%02d", round, i)
				p := model.Point{Mst: d.Mst, Tags: map[string]string{"host": host, "region": "x"}, T: u.Times[1+i%4], Fields: map[string]model.Value{}}
				for _, f := range u.Fields {
					p.Fields[f.Name] = kit.Value(r, f.Kind)
				}
				pts = append(pts, p)
				stmts = append(stmts, "DROP SERIES FROM "+d.Mst+" WHERE host = '"+host+"'")
			}
			add(step{Op: "write", RP: "autogen", pts: pts})
			add(step{Op: "settle"})
			add(step{Op: "drop-concurrent", Stmt: strings.Join(stmts, ";"), Drop: &dropSpec{Kind: "series", Mst: d.Mst, Key: "host", Op: "=~", Val: fmt.Sprintf("^r%dc", round)}})
		}
		d.Key, d.Op, d.Val = "host", "=~", "^(r[0-9]c|warm$)"
		d.Pred = "host =~ /^r[0-9]c/ (24 concurrent statements per round)"
		kind = "series"
	} else if kind == "series-young" {
		// a series whose first write was acknowledged immediately before the drop
		d.Kind = "series"
		h.Kind = "series"
		h.Young = true
		d.Mst = u.Msts[r.IntN(len(u.Msts))]
		young := map[string]string{"host": "n", "region": "x"}
		var pts []model.Point
		for i := 0; i < 3; i++ {
			p := model.Point{Mst: d.Mst, Tags: young, T: u.Times[1+i], Fields: map[string]model.Value{}}
			for _, f := range u.Fields {
				p.Fields[f.Name] = kit.Value(r, f.Kind)
			}
			pts = append(pts, p)
		}
		add(step{Op: "write", RP: "autogen", pts: pts})
		d.Key, d.Op, d.Val = "host", "=", "n"
		d.Pred = "host = 'n'"
		add(step{Op: "drop", Drop: d, Stmt: "DROP SERIES FROM " + d.Mst + " WHERE host = 'n'"})
		add(step{Op: "pause"})
		kind = "series"
	} else {
		switch kind {
		case "series":
			d.Mst = u.Msts[r.IntN(len(u.Msts))]
			hosts := []string{"a", "b", "c", "d", "e"}
			switch r.IntN(7) {
			case 0: // selects none
				d.Key, d.Op, d.Val = "host", "=", "zz"
			case 1: // selects all
				d.Key, d.Op, d.Val = "host", "!=", "zz"
			case 2:
				d.Key, d.Op, d.Val = "host", "=", hosts[r.IntN(len(hosts))]
			case 3:
				d.Key, d.Op, d.Val = "region", "=", []string{"x", "y"}[r.IntN(2)]
			case 4:
				d.Key, d.Op, d.Val = "host", "=~", "^("+hosts[r.IntN(3)]+"|"+hosts[2+r.IntN(3)]+")$"
			case 5:
				d.Key, d.Op, d.Val = "host", "!=", hosts[r.IntN(len(hosts))]
			default:
				d.Key, d.Op, d.Val = "host", "!~", "^("+hosts[r.IntN(len(hosts))]+")$"
			}
			lit := "'" + d.Val + "'"
			if d.Op == "=~" || d.Op == "!~" {
				lit = "/" + d.Val + "/"
			}
			d.Pred = fmt.Sprintf("%s %s %s", d.Key, d.Op, lit)
			stmt := "DROP SERIES"
			if d.Mst != "" {
				stmt += " FROM " + d.Mst
			}
			add(step{Op: "drop", Drop: d, Stmt: stmt + " WHERE " + d.Pred})
		case "measurement":
			d.Mst = u.Msts[r.IntN(len(u.Msts))]
			add(step{Op: "drop", Drop: d, Stmt: "DROP MEASUREMENT " + d.Mst})
		case "rp":
			add(step{Op: "drop", Drop: d, Stmt: "DROP RETENTION POLICY rp1 ON " + db})
		case "database":
			add(step{Op: "drop", Drop: d, Stmt: "DROP DATABASE " + db})
		}
	}
	// keys of dropped data are free again: later writes deliberately reuse them
	for k := range used {
		parts := strings.Split(k, "|")
		gone := false
		switch kind {
		case "series":
			gone = (d.Mst == "" || d.Mst == parts[1]) && d.matches(parseSeries(parts[2]))
		case "measurement":
			gone = parts[1] == d.Mst
		case "rp":
			gone = parts[0] == "rp1"
		case "database":
			gone = true
		}
		if gone {
			delete(used, k)
		}
	}
	add(step{Op: "check"})
	switch after {
	case "crash":
		add(step{Op: "crash"})
		add(step{Op: "check"})
	case "restart":
		add(step{Op: "restart"})
		add(step{Op: "check"})
	}
	if kind == "database" {
		add(step{Op: "createdb"})
	}
	if kind == "measurement" && idx%2 == 1 {
		// re-create the name only after the asynchronous physical drop has completed (the
		// catalogue entry is gone, not merely marked deleted)
		add(step{Op: "wait-physical-drop", Stmt: d.Mst})
	}
	// further writes: to dropped series / re-created names too
	for i := 0; i < 3+r.IntN(4); i++ {
		if pts := fresh("autogen", 2+r.IntN(6)); len(pts) > 0 {
			add(step{Op: "write", RP: "autogen", pts: pts})
		}
	}
	add(step{Op: "settle"})
	add(step{Op: "flush"})
	add(step{Op: []string{"compact-full", "merge", "compact-level"}[r.IntN(3)]})
	add(step{Op: "check"})
	if kind == "series" && idx%3 == 2 {
		// a second DROP SERIES, on series of a series index that did not exist when the first drop
		// created the policy's delete index: rows two months later go to another shard group and
		// index. The pause keeps this apart from the known finding about a drop right after the
		// first write of a series
		far := int64(60 * 24 * 3600 * 1_000_000_000)
		var pts []model.Point
		for _, m := range u.Msts {
			for si, se := range u.Series {
				for j := 0; j < 2; j++ {
					p := model.Point{Mst: m, Tags: se, T: u.Times[1] + far + int64(si*2+j)*1_000_000_000, Fields: map[string]model.Value{}}
					for _, f := range u.Fields {
						p.Fields[f.Name] = kit.Value(r, f.Kind)
					}
					pts = append(pts, p)
				}
			}
		}
		add(step{Op: "write", RP: "autogen", pts: pts})
		add(step{Op: "settle"})
		add(step{Op: "pause"})
		d2 := &dropSpec{Kind: "series", Mst: u.Msts[r.IntN(len(u.Msts))], Key: "host", Op: "=", Val: u.Series[r.IntN(len(u.Series))]["host"]}
		d2.Pred = fmt.Sprintf("host = '%s'", d2.Val)
		add(step{Op: "drop", Drop: d2, Stmt: "DROP SERIES FROM " + d2.Mst + " WHERE " + d2.Pred})
		h.SecondDropFar = true
		add(step{Op: "check"})
	}
	add(step{Op: "restart"})
	add(step{Op: "check"})
	return h
}

// world: one model per retention policy.
type world struct {
	rp      map[string]*model.Model
	mstGone map[string]bool // measurement dropped (by name, or with its database) and not written since
}

func (w *world) get(rp string) *model.Model {
	if rp == "" {
		rp = "autogen"
	}
	if w.rp[rp] == nil {
		w.rp[rp] = model.New()
	}
	return w.rp[rp]
}

func (w *world) applyDrop(d *dropSpec) {
	switch d.Kind {
	case "series":
		for _, m := range w.rp {
			m.DropSeries(d.Mst, func(series string) bool { return d.matches(parseSeries(series)) })
		}
	case "measurement":
		for _, m := range w.rp {
			m.DropMeasurement(d.Mst)
		}
		w.mstGone[d.Mst] = true
	case "rp":
		delete(w.rp, "rp1")
	case "database":
		w.rp = map[string]*model.Model{}
		for _, m := range allMsts {
			w.mstGone[m] = true
		}
	}
}

func parseSeries(s string) map[string]string {
	out := map[string]string{}
	for _, kv := range strings.Split(s, ",") {
		x := strings.SplitN(kv, "=", 2)
		if len(x) == 2 {
			out[x[0]] = x[1]
		}
	}
	return out
}

type runner struct {
	c   *vf.Ctx
	bin string
}

var allMsts = []string{"m0", "m1"}
var schema = map[string]map[string]byte{
	"m0": {"fi": 'i', "ff": 'f', "fb": 'b', "fs": 's'},
	"m1": {"fi": 'i', "ff": 'f', "fb": 'b', "fs": 's'},
}

func isMissing(err error) bool {
	if err == nil {
		return false
	}
	e := err.Error()
	return strings.Contains(e, "not found") || strings.Contains(e, "is being delete")
}

// shape: a read and the way to compute its expected answer from the model.
type shapeResult struct {
	name      string
	diff      []string
	err       error
	query     string
	tagFilter bool           // a row selection with a tag condition (answered through the tag-filter cache)
	extra     []model.RowKey // row selections: every row returned that the model does not hold
	missing   []model.RowKey // row selections: every row of the model that was not returned
	tolerated int            // statistics-served aggregate after a crash: groups inside the replay allowance
	redo      func() shapeResult
}

// replayAllowance: after a SIGKILL the write-ahead log is replayed over whatever the interrupted
// flush had already committed, so rows acknowledged since the last completed flush can exist in
// two flush generations. Aggregates served from stored statistics (no exact hint, no field
// filter, no time bucket) are allowed to count such rows twice (C09's statement); every other
// shape must stay exact. Per (measurement, host): how many surviving rows could have been
// replayed, and the sums of their positive / negative fi values.
type replayAllowance struct {
	rows   map[string]int64
	sumPos map[string]int64
	sumNeg map[string]int64
}

func (a *replayAllowance) add(rp, mst, host string, fi int64) {
	for _, k := range []string{rp + "|" + mst + "|" + host, rp + "|" + mst + "|*"} {
		a.rows[k]++
		if fi >= 0 {
			a.sumPos[k] += fi
		} else {
			a.sumNeg[k] += fi
		}
	}
}

func rowsOf(m *model.Model, mst string, keep func(k model.RowKey, row map[string]model.Value) bool) map[model.RowKey]map[string]model.Value {
	out := map[model.RowKey]map[string]model.Value{}
	if m == nil {
		return out
	}
	for k, row := range m.Rows {
		if k.Mst == mst && len(row) > 0 && (keep == nil || keep(k, row)) {
			out[k] = row
		}
	}
	return out
}

func (rn *runner) evalShapes(s *proc.Server, w *world, rpName string, r *rand.Rand, allow *replayAllowance) []shapeResult {
	var out []shapeResult
	m := w.rp[rpName] // may be nil (dropped rp / database)
	from := func(mst string) string {
		if rpName == "autogen" {
			return mst
		}
		return fmt.Sprintf(`"%s"."%s"."%s"`, db, rpName, mst)
	}
	var dumpOnce func(name, q string, want model.Contents) shapeResult
	dump := func(name, q string, mst string, want model.Contents) {
		sr := dumpOnce(name, q, want)
		sr.redo = func() shapeResult { return dumpOnce(name, q, want) }
		out = append(out, sr)
	}
	dumpOnce = func(name, q string, want model.Contents) shapeResult {
		res, err := s.Query(db, q, nil)
		if err != nil {
			if isMissing(err) && len(want) == 0 {
				return shapeResult{name: name, query: q}
			}
			if isMissing(err) {
				return shapeResult{name: name, query: q, diff: []string{fmt.Sprintf("%s: %v but the model still holds %d rows", q, err, len(want))}}
			}
			return shapeResult{name: name, query: q, err: err}
		}
		var series []proc.Series
		if len(res.Results) > 0 {
			series = res.Results[0].Series
		}
		got, probs := model.FromResult(series, schema, false)
		var d []string
		for _, p := range probs {
			d = append(d, p.Kind+": "+p.Msg)
		}
		d = append(d, model.Diff(want, got, "", 5)...)
		for i := range d {
			d[i] = q + " => " + d[i]
		}
		sr := shapeResult{name: name, diff: d, query: q, tagFilter: strings.HasPrefix(name, "tag")}
		for k, row := range got {
			if len(row) > 0 && len(want[k]) == 0 {
				sr.extra = append(sr.extra, k)
			}
		}
		for k, row := range want {
			if len(row) > 0 && len(got[k]) == 0 {
				sr.missing = append(sr.missing, k)
			}
		}
		return sr
	}
	agg := func(name, q string, want map[string]int64, groupTag string, valueCol string, mst string, statsServed bool) {
		res, err := s.Query(db, q, nil)
		if err != nil {
			if isMissing(err) && len(want) == 0 {
				out = append(out, shapeResult{name: name})
				return
			}
			if isMissing(err) {
				out = append(out, shapeResult{name: name, diff: []string{fmt.Sprintf("%s: %v but the model still holds data", q, err)}})
				return
			}
			out = append(out, shapeResult{name: name, err: err})
			return
		}
		got := map[string]int64{}
		if len(res.Results) > 0 {
			for _, se := range res.Results[0].Series {
				ci := -1
				ti := -1
				for i, cname := range se.Columns {
					if cname == valueCol {
						ci = i
					}
					if cname == "time" {
						ti = i
					}
				}
				for _, row := range se.Values {
					if ci < 0 || row[ci] == nil {
						continue
					}
					n, _ := strconv.ParseInt(fmt.Sprint(row[ci]), 10, 64)
					key := ""
					if groupTag == "time" {
						key = fmt.Sprint(row[ti])
					} else if groupTag != "" {
						key = se.Tags[groupTag]
					}
					got[key] += n
				}
			}
		}
		var d []string
		keys := map[string]bool{}
		for k := range want {
			keys[k] = true
		}
		for k := range got {
			keys[k] = true
		}
		tolerated := 0
		for k := range keys {
			if want[k] == got[k] {
				continue
			}
			if statsServed && allow != nil {
				ak := rpName + "|" + mst + "|" + k
				if groupTag == "" {
					ak = rpName + "|" + mst + "|*"
				}
				lo, hi := want[k], want[k]+allow.rows[ak]
				if valueCol == "sum" {
					lo, hi = want[k]+allow.sumNeg[ak], want[k]+allow.sumPos[ak]
				}
				if got[k] >= lo && got[k] <= hi {
					tolerated++
					continue
				}
				d = append(d, fmt.Sprintf("%s => group %q: %d, want %d (with the rows replayed after the crash counted twice at most %d)", q, k, got[k], want[k], hi))
				continue
			}
			d = append(d, fmt.Sprintf("%s => group %q: %d, want %d", q, k, got[k], want[k]))
		}
		sort.Strings(d)
		if len(d) > 5 {
			d = d[:5]
		}
		out = append(out, shapeResult{name: name, diff: d, query: q, tolerated: tolerated})
	}
	for _, mst := range allMsts {
		all := rowsOf(m, mst, nil)
		dump("no-filter", "SELECT * FROM "+from(mst)+" GROUP BY *", mst, all)
		host := []string{"a", "b", "c", "d", "e"}[r.IntN(5)]
		dump("tag=", fmt.Sprintf("SELECT * FROM %s WHERE host = '%s' GROUP BY *", from(mst), host), mst,
			rowsOf(m, mst, func(k model.RowKey, _ map[string]model.Value) bool { return parseSeries(k.Series)["host"] == host }))
		dump("tag!=", fmt.Sprintf("SELECT * FROM %s WHERE host != '%s' GROUP BY *", from(mst), host), mst,
			rowsOf(m, mst, func(k model.RowKey, _ map[string]model.Value) bool { return parseSeries(k.Series)["host"] != host }))
		dump("tag=~", fmt.Sprintf("SELECT * FROM %s WHERE host =~ /^(%s|c)$/ GROUP BY *", from(mst), host), mst,
			rowsOf(m, mst, func(k model.RowKey, _ map[string]model.Value) bool {
				h := parseSeries(k.Series)["host"]
				return h == host || h == "c"
			}))
		dump("tag!~", fmt.Sprintf("SELECT * FROM %s WHERE host !~ /^(%s)$/ GROUP BY *", from(mst), host), mst,
			rowsOf(m, mst, func(k model.RowKey, _ map[string]model.Value) bool { return parseSeries(k.Series)["host"] != host }))
		// "series that carry the tag": a negated pattern that matches the empty string is answered
		// by scanning the values of the tag, another path than the other filters
		dump("tag!~empty", fmt.Sprintf("SELECT * FROM %s WHERE region !~ /^$/ GROUP BY *", from(mst)), mst,
			rowsOf(m, mst, func(k model.RowKey, _ map[string]model.Value) bool { return parseSeries(k.Series)["region"] != "" }))
		dump("tag!~alt-or-empty", fmt.Sprintf("SELECT * FROM %s WHERE host !~ /^(%s|)$/ GROUP BY *", from(mst), host), mst,
			rowsOf(m, mst, func(k model.RowKey, _ map[string]model.Value) bool {
				h := parseSeries(k.Series)["host"]
				return h != host && h != ""
			}))
		// field filter: threshold = median of fi values
		var vals []int64
		for _, row := range all {
			if v, ok := row["fi"]; ok {
				vals = append(vals, v.I)
			}
		}
		sort.Slice(vals, func(i, j int) bool { return vals[i] < vals[j] })
		thr := int64(0)
		if len(vals) > 0 {
			thr = vals[len(vals)/2]
		}
		dump("field-filter", fmt.Sprintf("SELECT * FROM %s WHERE fi >= %d GROUP BY *", from(mst), thr), mst,
			rowsOf(m, mst, func(_ model.RowKey, row map[string]model.Value) bool {
				v, ok := row["fi"]
				return ok && v.I >= thr
			}))
		// aggregates
		cntAll := map[string]int64{}
		cntHost := map[string]int64{}
		sumHost := map[string]int64{}
		cntTime := map[string]int64{}
		for k, row := range all {
			if v, ok := row["fi"]; ok {
				cntAll[""]++
				h := parseSeries(k.Series)["host"]
				cntHost[h]++
				sumHost[h] += v.I
				if k.T >= kit.BaseTime-10_000_000_000 && k.T <= kit.BaseTime+200_000_000_000 { // the statement's time range
					b := k.T - mod(k.T, 2_000_000_000)
					cntTime[strconv.FormatInt(b, 10)]++
				}
			}
		}
		agg("count-no-pushdown-hint", "SELECT /*+ Exact_Statistic_Query */ count(fi) FROM "+from(mst), cntAll, "", "count", mst, false)
		agg("count-pushdown", "SELECT count(fi) FROM "+from(mst), cntAll, "", "count", mst, true)
		agg("count-group-by-tag", "SELECT count(fi) FROM "+from(mst)+" GROUP BY host", cntHost, "host", "count", mst, true)
		agg("sum-group-by-tag", "SELECT sum(fi) FROM "+from(mst)+" GROUP BY host", sumHost, "host", "sum", mst, true)
		agg("count-group-by-time", fmt.Sprintf("SELECT count(fi) FROM %s WHERE time >= %d AND time <= %d GROUP BY time(2s) fill(none)", from(mst), kit.BaseTime-10_000_000_000, kit.BaseTime+200_000_000_000), cntTime, "time", "count", mst, false)
		cntFiltered := map[string]int64{}
		for _, row := range all {
			if v, ok := row["fi"]; ok && v.I >= thr {
				cntFiltered[""]++
			}
		}
		agg("count-field-filter", fmt.Sprintf("SELECT count(fi) FROM %s WHERE fi >= %d", from(mst), thr), cntFiltered, "", "count", mst, false)
	}
	if rpName == "autogen" {
		// listings (index level): series, tag keys, tag values of the database
		wantSeries := map[string]bool{}
		wantHosts := map[string]map[string]bool{}
		for _, mm := range w.rp {
			for k, row := range mm.Rows {
				if len(row) == 0 {
					continue
				}
				wantSeries[k.Mst+","+k.Series] = true
				if wantHosts[k.Mst] == nil {
					wantHosts[k.Mst] = map[string]bool{}
				}
				wantHosts[k.Mst][parseSeries(k.Series)["host"]] = true
			}
		}
		res, err := s.Query(db, "SHOW SERIES", nil)
		if err != nil && !isMissing(err) {
			out = append(out, shapeResult{name: "show-series", err: err})
		} else {
			got := map[string]bool{}
			if res != nil && len(res.Results) > 0 {
				for _, se := range res.Results[0].Series {
					for _, row := range se.Values {
						got[fmt.Sprint(row[0])] = true
					}
				}
			}
			var d []string
			for k := range wantSeries {
				if !got[k] {
					d = append(d, "SHOW SERIES misses "+k)
				}
			}
			for k := range got {
				if !wantSeries[k] {
					d = append(d, "SHOW SERIES lists dropped/unknown "+k)
				}
			}
			sort.Strings(d)
			out = append(out, shapeResult{name: "show-series", diff: head(d, 5)})
		}
		res, err = s.Query(db, "SHOW TAG VALUES WITH KEY = host", nil)
		if err != nil && !isMissing(err) {
			out = append(out, shapeResult{name: "show-tag-values", err: err})
		} else {
			got := map[string]map[string]bool{}
			if res != nil && len(res.Results) > 0 {
				for _, se := range res.Results[0].Series {
					if got[se.Name] == nil {
						got[se.Name] = map[string]bool{}
					}
					for _, row := range se.Values {
						got[se.Name][fmt.Sprint(row[1])] = true
					}
				}
			}
			var d []string
			for _, mst := range allMsts {
				for h := range wantHosts[mst] {
					if !got[mst][h] {
						d = append(d, fmt.Sprintf("SHOW TAG VALUES misses %s host=%s", mst, h))
					}
				}
				for h := range got[mst] {
					if !wantHosts[mst][h] {
						d = append(d, fmt.Sprintf("SHOW TAG VALUES lists dropped %s host=%s", mst, h))
					}
				}
			}
			sort.Strings(d)
			out = append(out, shapeResult{name: "show-tag-values", diff: head(d, 5)})
		}
		// conditional listings: the tag values / series restricted by a condition on the OTHER
		// tag take a different path through the index (an eligible-id set) than the plain ones
		for _, cond := range [][2]string{{"region", "host"}, {"host", "region"}} {
			ck, lk := cond[0], cond[1]
			// fixed candidate values, whether or not a live series still carries them
			cvs := []string{"x", "y"}
			if ck == "host" {
				cvs = []string{"a", "c", "f", "n"}
			}
			var d, ds []string
			var qerr error
			for _, cv := range cvs {
				want := map[string]map[string]bool{}
				wantSe := map[string]bool{}
				for _, mm := range w.rp {
					for k, row := range mm.Rows {
						tags := parseSeries(k.Series)
						if len(row) == 0 || tags[ck] != cv {
							continue
						}
						if want[k.Mst] == nil {
							want[k.Mst] = map[string]bool{}
						}
						want[k.Mst][tags[lk]] = true
						wantSe[k.Mst+","+k.Series] = true
					}
				}
				res, err := s.Query(db, fmt.Sprintf("SHOW TAG VALUES WITH KEY = %s WHERE %s = '%s'", lk, ck, cv), nil)
				if err != nil && !isMissing(err) {
					qerr = err
					continue
				}
				got := map[string]map[string]bool{}
				if res != nil && len(res.Results) > 0 {
					for _, se := range res.Results[0].Series {
						if got[se.Name] == nil {
							got[se.Name] = map[string]bool{}
						}
						for _, row := range se.Values {
							got[se.Name][fmt.Sprint(row[1])] = true
						}
					}
				}
				for _, mst := range allMsts {
					for h := range want[mst] {
						if !got[mst][h] {
							d = append(d, fmt.Sprintf("SHOW TAG VALUES WHERE %s='%s' misses %s %s=%s", ck, cv, mst, lk, h))
						}
					}
					for h := range got[mst] {
						if !want[mst][h] {
							d = append(d, fmt.Sprintf("SHOW TAG VALUES WHERE %s='%s' lists dropped %s %s=%s", ck, cv, mst, lk, h))
						}
					}
				}
				res, err = s.Query(db, fmt.Sprintf("SHOW SERIES WHERE %s = '%s'", ck, cv), nil)
				if err != nil && !isMissing(err) {
					qerr = err
					continue
				}
				gotSe := map[string]bool{}
				if res != nil && len(res.Results) > 0 {
					for _, se := range res.Results[0].Series {
						for _, row := range se.Values {
							gotSe[fmt.Sprint(row[0])] = true
						}
					}
				}
				for k := range wantSe {
					if !gotSe[k] {
						ds = append(ds, fmt.Sprintf("SHOW SERIES WHERE %s='%s' misses %s", ck, cv, k))
					}
				}
				for k := range gotSe {
					if !wantSe[k] {
						ds = append(ds, fmt.Sprintf("SHOW SERIES WHERE %s='%s' lists dropped/unknown %s", ck, cv, k))
					}
				}
			}
			sort.Strings(d)
			sort.Strings(ds)
			out = append(out, shapeResult{name: "show-tag-values-where-" + ck, diff: head(d, 5), err: qerr})
			out = append(out, shapeResult{name: "show-series-where-" + ck, diff: head(ds, 5), err: qerr})
		}
		res, err = s.Query(db, "SHOW TAG KEYS", nil)
		if err != nil && !isMissing(err) {
			out = append(out, shapeResult{name: "show-tag-keys", err: err})
		} else {
			got := map[string]bool{}
			if res != nil && len(res.Results) > 0 {
				for _, se := range res.Results[0].Series {
					if len(se.Values) > 0 {
						got[se.Name] = true
					}
				}
			}
			var d []string
			for _, mst := range allMsts {
				if len(wantHosts[mst]) > 0 && !got[mst] {
					d = append(d, "SHOW TAG KEYS misses measurement "+mst)
				}
				// tag keys are schema of the measurement: DROP SERIES removes series, not the
				// measurement, so keys of a measurement whose series were all dropped may still be
				// listed; only a dropped measurement / policy / database must stop listing them
				if len(wantHosts[mst]) == 0 && got[mst] && w.mstGone[mst] {
					d = append(d, "SHOW TAG KEYS lists tag keys of dropped measurement "+mst)
				}
			}
			out = append(out, shapeResult{name: "show-tag-keys", diff: d})
		}
	}
	return out
}

func mod(a, b int64) int64 {
	m := a % b
	if m < 0 {
		m += b
	}
	return m
}

func head(xs []string, n int) []string {
	if len(xs) > n {
		return xs[:n]
	}
	return xs
}

func disableBackground(s *proc.Server) {
	s.HTTP.Post(s.URL()+"/debug/ctrl?mod=compen&switchon=false&allshards=true", "", nil)
	s.HTTP.Post(s.URL()+"/debug/ctrl?mod=merge&switchon=false&allshards=true", "", nil)
}

func (rn *runner) run(h *history, worker int) {
	c := rn.c
	r := c.Rand(uint64(7000 + h.Index))
	dir := filepath.Join(c.Scratch, fmt.Sprintf("h%d", h.Index))
	defer os.RemoveAll(dir)
	s := proc.New(proc.Config{BGOff: true, Bin: rn.bin, Dir: dir, IP: proc.IP(13, worker), FS: true, FSMatch: "/data/",
		Extra: map[string][]string{"data.memtable": {`write-cold-duration = "1h"`, `force-snapShot-duration = "1h"`}}})
	if err := s.Start(); err != nil {
		c.Broken("start: %v", err)
		return
	}
	defer s.Kill()
	if err := s.WaitReady(180 * time.Second); err != nil {
		c.Broken("history %d: %v", h.Index, err)
		return
	}
	setup := func() bool {
		var err error
		for attempt := 0; attempt < 120; attempt++ {
			// a database that is still being deleted cannot be re-created yet
			if _, err = s.Query("", "CREATE DATABASE "+db, nil); err == nil || !strings.Contains(err.Error(), "is being delete") {
				break
			}
			time.Sleep(250 * time.Millisecond)
		}
		if err != nil {
			c.Inconclusive("create-database-refused", 1)
			fmt.Printf("INCONCLUSIVE C13 create database: %v\n", err)
			return false
		}
		if h.TwoRP || h.Kind == "rp" {
			if _, err := s.Query("", "CREATE RETENTION POLICY rp1 ON "+db+" DURATION 0s REPLICATION 1", nil); err != nil {
				c.Broken("create rp: %v", err)
				return false
			}
		}
		return true
	}
	if !setup() {
		return
	}
	disableBackground(s)
	w := &world{rp: map[string]*model.Model{}, mstGone: map[string]bool{}}
	dropped := false
	nDrops := 0
	moment := "before-drop"
	var pendingNew []model.Point
	// rk: a row of one retention policy
	rk := func(rp string, k model.RowKey) string {
		if rp == "" {
			rp = "autogen"
		}
		return rp + "|" + k.String()
	}
	unflushed := map[string]bool{}       // rows acknowledged since the last completed flush (memtable + write-ahead log only)
	unflushedAtDrop := map[string]bool{} // ... at the moment of a DROP SERIES (union over the drop statements)
	newSeries := map[string]bool{}       // rp|mst|series first written, or written again after its drop, after the first check
	tagReadsBegan := false               // the first check (and with it the first tag-filter reads, which fill the cache) has run
	var allow *replayAllowance           // set by a crash, kept until the end of the history
	tombstones := ""                     // crash after DROP SERIES: had the delete index of the policy changed on disk at the kill?
	var delIndexBefore string            // listing of the delete index parts before the (last) DROP SERIES
	delIndexParts := func() string {
		dirs, _ := filepath.Glob(filepath.Join(s.DataDir(), "data", db, "*", "*", "index", "18446744073709551615_*", "mergeset", "*_*_*"))
		sort.Strings(dirs)
		return strings.Join(dirs, ",")
	}
	wit := func(i int, extra map[string]any) map[string]any {
		x := map[string]any{"history": history{Index: h.Index, Kind: h.Kind, Young: h.Young, Concurrent: h.Concurrent, Cold: h.Cold, After: h.After, TwoRP: h.TwoRP, SecondDropFar: h.SecondDropFar, Steps: h.Steps[:i+1]}}
		for k, v := range extra {
			x[k] = v
		}
		return x
	}
	for i := range h.Steps {
		st := &h.Steps[i]
		switch st.Op {
		case "write":
			if st.RP == "rp1" && w.rp["rp1"] == nil && dropped {
				continue
			}
			params := map[string][]string{}
			if st.RP != "" && st.RP != "autogen" {
				params["rp"] = []string{st.RP}
			}
			var wr proc.WriteResult
			for attempt := 0; attempt < 40; attempt++ {
				wr = s.Write(db, model.LPBatch(st.pts), params)
				if wr.Acked() || !dropped {
					break
				}
				time.Sleep(250 * time.Millisecond) // a just-dropped name may be refused for a while
			}
			if !wr.Acked() {
				c.Inconclusive("write-not-acknowledged", 1)
				fmt.Printf("INCONCLUSIVE C13 history %d step %d: write answered %d %s %v\n", h.Index, i, wr.Status, wr.Body, wr.Err)
				return
			}
			for _, p := range st.pts {
				k := model.RowKey{Mst: p.Mst, Series: model.SeriesKey(p.Tags), T: p.T}
				unflushed[rk(st.RP, k)] = true
				if m := w.rp[rpOr(st.RP)]; tagReadsBegan && (m == nil || !hasSeries(m, k.Mst, k.Series)) {
					newSeries[rpOr(st.RP)+"|"+k.Mst+"|"+k.Series] = true
				}
			}
			w.get(st.RP).Apply(st.pts)
			for _, p := range st.pts {
				delete(w.mstGone, p.Mst)
			}
			if i < 2 || dropped || h.Concurrent {
				pendingNew = append(pendingNew, st.pts...)
			}
			if i < 2 {
				if err := waitVisible(s, st.RP, st.pts); err != nil {
					c.Inconclusive("series-never-visible", 1)
					return
				}
				pendingNew = nil
			}
		case "wait-physical-drop":
			gone := false
			for t := 0; t < 120 && !gone; t++ {
				dirs, _ := filepath.Glob(filepath.Join(s.DataDir(), "data", db, "*", "*", "*", "tssp", st.Stmt+"_*"))
				gone = len(dirs) == 0
				if !gone {
					time.Sleep(250 * time.Millisecond)
				}
			}
			if !gone {
				c.Inconclusive("physical-drop-not-observed", 1)
			}
			time.Sleep(3 * time.Second)
			c.Count("recreations-after-completed-physical-drop", 1)
		case "pause":
			// give a not-yet-indexed series the time to surface (visibility lag) before judging
			time.Sleep(3 * time.Second)
		case "settle":
			// series re-created after the drop become visible with the usual lag
			if err := waitVisible(s, "autogen", pendingNew); err != nil {
				c.Violation("write-after-drop-never-visible:"+h.Kind, fmt.Sprintf("history %d: points written (acknowledged) after %s never became readable: %v", h.Index, dropStmt(h), err), wit(i, nil))
				return
			}
			pendingNew = nil
		case "flush":
			if err := s.Flush(); err == nil {
				unflushed = map[string]bool{}
			}
		case "compact-level":
			_ = s.Compact("level")
		case "compact-full":
			_ = s.Compact("full")
		case "merge":
			_ = s.Merge()
		case "createdb":
			if !setup() {
				return
			}
		case "drop-concurrent":
			stmts := strings.Split(st.Stmt, ";")
			delIndexBefore = delIndexParts()
			var wg sync.WaitGroup
			failed := int32(0)
			var firstErr atomic.Value
			for _, q := range stmts {
				wg.Add(1)
				go func(q string) {
					defer wg.Done()
					if _, err := s.Query(db, q, nil); err != nil {
						atomic.AddInt32(&failed, 1)
						firstErr.CompareAndSwap(nil, q+": "+err.Error())
					}
				}(q)
			}
			wg.Wait()
			if failed > 0 && s.Alive() {
				s.WaitExit(3 * time.Second) // a dying process closes its connections before it is reaped
			}
			if !s.Alive() {
				sig := "server-died-during-concurrent-drop-series"
				if h.Cold && !dropped {
					sig += "|first-drops-since-start-are-concurrent"
				}
				c.Violation(sig+"|"+firstFatal(s.StdoutTail(1<<20)), fmt.Sprintf("history %d: the server died while %d concurrent DROP SERIES statements were in flight (%s ...)", h.Index, len(stmts), stmts[0]), wit(i, map[string]any{"stdout": firstFatalContext(s.StdoutTail(1 << 20))}))
				return
			}
			if failed > 0 {
				c.Inconclusive("concurrent-drop-rejected", int64(failed))
				fmt.Printf("INCONCLUSIVE C13 history %d: %d of %d concurrent DROP SERIES statements were not acknowledged (%v)\n", h.Index, failed, len(stmts), firstErr.Load())
				return
			}
			for k := range unflushed {
				unflushedAtDrop[k] = true
			}
			w.applyDrop(st.Drop)
			dropped = true
			nDrops++
			moment = "after-drop"
			c.Count("concurrent-drop-statements-acknowledged", int64(len(stmts)))
		case "drop":
			delIndexBefore = delIndexParts()
			if _, err := s.Query(db, st.Stmt, nil); err != nil {
				c.Inconclusive("drop-rejected", 1)
				fmt.Printf("INCONCLUSIVE C13 history %d: %s: %v\n", h.Index, st.Stmt, err)
				return
			}
			if st.Drop.Kind == "series" {
				for k := range unflushed {
					unflushedAtDrop[k] = true
				}
			}
			w.applyDrop(st.Drop)
			dropped = true
			nDrops++
			moment = "after-drop"
		case "restart", "crash":
			hadUnflushed := len(unflushed) > 0
			if st.Op == "restart" {
				s.Stop(60 * time.Second)
			} else {
				// every second crash after DROP SERIES waits until the deleted ids have reached the disk
				// (the delete index of the policy shows a new part; the table flushes in the
				// background about once a second), so that both sides of that window are exercised
				if h.Kind == "series" && dropped && (h.Index/2)%2 == 1 {
					for t := 0; t < 50 && delIndexParts() == delIndexBefore; t++ {
						time.Sleep(100 * time.Millisecond)
					}
				}
				// crash at a seeded file-system step of a flush issued after the drop
				k := 1 + int64(r.IntN(25))
				if st.K > 0 {
					k = st.K // replay of a witness
				}
				st.K = k
				_ = s.FsArm(k, 0)
				_ = s.Flush()
				if s.Alive() {
					s.WaitExit(2 * time.Second)
				}
				if s.Alive() {
					_ = s.FsArm(0, 0)
					s.Kill()
				}
				st.DiedBefore = strings.ReplaceAll(s.DieLog(), s.Cfg.Dir, "")
				c.Distinct("crash-position", crashClass(st.DiedBefore))
				// the write-ahead log is replayed over whatever the interrupted flush had committed
				allow = &replayAllowance{rows: map[string]int64{}, sumPos: map[string]int64{}, sumNeg: map[string]int64{}}
				for rpName, m := range w.rp {
					for k, row := range m.Rows {
						if v, ok := row["fi"]; ok && unflushed[rk(rpName, k)] {
							allow.add(rpName, k.Mst, parseSeries(k.Series)["host"], v.I)
						}
					}
				}
				if h.Kind == "series" && dropped {
					tombstones = "tombstones-on-disk-at-kill"
					if delIndexParts() == delIndexBefore {
						tombstones = "tombstones-not-on-disk-at-kill"
					}
				}
				if os.Getenv("C13_DEBUG") != "" {
					fmt.Printf("DEBUG history %d crash k=%d died-before=%q %s unflushed-at-drop=%d\n", h.Index, k, st.DiedBefore, tombstones, len(unflushedAtDrop))
				}
			}
			// after a clean stop the memtable has been flushed or is replayed from the log: either
			// way nothing is unflushed in the sense of "replayed over committed files"
			unflushed = map[string]bool{}
			if err := s.Start(); err != nil {
				c.Broken("restart: %v", err)
				return
			}
			if err := s.WaitReady(120 * time.Second); err != nil {
				if !s.Alive() {
					c.Violation("server-died-after-drop:"+firstFatal(s.StdoutTail(1<<20)), fmt.Sprintf("history %d: server cannot start after %s + %s", h.Index, dropStmt(h), st.Op), wit(i, map[string]any{"stdout": s.StdoutTail(5000)}))
					return
				}
				c.Inconclusive("not-ready-after-restart", 1)
				return
			}
			disableBackground(s)
			moment = "after-" + st.Op
			if st.Op == "restart" && hadUnflushed {
				moment = "after-restart-with-unflushed-rows"
			}
			// wait until the surviving data are all visible again
			want := model.Contents{}
			for _, mm := range []*model.Model{w.rp["autogen"]} {
				if mm != nil {
					for k, v := range kit.Expect(mm, allMsts, kit.DumpOpts{}) {
						want[k] = v
					}
				}
			}
			kit.StableDump(s, db, allMsts, schema, func(cur model.Contents) bool { return len(model.Diff(want, cur, "", 1)) == 0 }, 20*time.Second)
		case "check":
			if !s.Alive() {
				c.Violation("server-died-after-drop:"+firstFatal(s.StdoutTail(1<<20)), fmt.Sprintf("history %d: server died after %s", h.Index, dropStmt(h)), wit(i, map[string]any{"stdout": s.StdoutTail(5000)}))
				return
			}
			if i > 0 && (h.Steps[i-1].Op == "compact-full" || h.Steps[i-1].Op == "merge" || h.Steps[i-1].Op == "compact-level") {
				moment = "after-flush+reorganise"
			}
			rps := []string{"autogen"}
			if h.TwoRP || h.Kind == "rp" {
				rps = append(rps, "rp1")
			}
			tagReadsBegan = true
			for _, rp := range rps {
				for _, sr := range rn.evalShapes(s, w, rp, r, allow) {
					c.Eval(1)
					if sr.err != nil {
						if !s.Alive() {
							c.Violation("server-died-after-drop:"+firstFatal(s.StdoutTail(1<<20)), fmt.Sprintf("history %d: server died while answering %s after %s", h.Index, sr.name, dropStmt(h)), wit(i, map[string]any{"stdout": s.StdoutTail(5000)}))
							return
						}
						c.Inconclusive("query-error:"+sr.name, 1)
						fmt.Printf("INCONCLUSIVE C13 history %d %s: %v\n", h.Index, sr.name, sr.err)
						continue
					}
					c.Nontrivial(fmt.Sprintf("%s|%s|%s|%s", h.Kind, predClass(h), sr.name, moment))
					c.Distinct("read-shape", sr.name)
					c.Distinct("moment", moment)
					if sr.tolerated > 0 {
						c.Count("after-crash:statistics-served-aggregate-counts-replayed-rows-twice(C09-carve-out,not-gating)", int64(sr.tolerated))
					}
					// visibility rule: a series first written (or re-created) after the tag-filter reads
					// began can stay invisible to a tag-filter read whose result was cached before, until
					// the cache turns over (the index table signals it at most every 10 s); the same
					// happens to a series that was never dropped. Re-read (bounded); only a persistent
					// miss is judged.
					if len(sr.diff) > 0 && sr.tagFilter && sr.redo != nil && onlyMissingRowsOf(sr, rp, newSeries) {
						redo := sr.redo
						for t := 0; t < 40 && len(sr.diff) > 0 && onlyMissingRowsOf(sr, rp, newSeries) && s.Alive(); t++ {
							time.Sleep(time.Second)
							sr = redo()
							sr.tagFilter = true
						}
						if len(sr.diff) == 0 && sr.err == nil {
							c.Count("new-series-reached-a-cached-tag-filter-read-after-a-lag(not-gating)", 1)
						}
					}
					if sr.err != nil {
						c.Inconclusive("query-error:"+sr.name, 1)
						continue
					}
					if len(sr.diff) > 0 {
						cls := "wrong-answer"
						if strings.Contains(sr.diff[0], "extra row") || strings.Contains(sr.diff[0], "lists dropped") || strings.Contains(sr.diff[0], ", want 0") {
							cls = "dropped-data-still-returned"
						} else if strings.Contains(sr.diff[0], "missing row") || strings.Contains(sr.diff[0], "misses") {
							cls = "surviving-data-missing"
						}
						if h.Concurrent && cls == "dropped-data-still-returned" {
							cls += "|concurrent-drop-statements"
						}
						if h.Young && cls == "dropped-data-still-returned" {
							cls += "|series-first-written-right-before-the-drop"
						}
						// what the extra rows are and when the process died decide which defect this is
						var detail []string
						if strings.HasPrefix(cls, "dropped-data-still-returned") && h.Kind == "series" {
							if moment == "after-crash" && tombstones != "" {
								detail = append(detail, tombstones)
							}
							if moment != "after-drop" && len(sr.extra) > 0 {
								only := true
								for _, k := range sr.extra {
									if !unflushedAtDrop[rk(rp, k)] {
										only = false
									}
								}
								if only {
									detail = append(detail, "only-rows-unflushed-at-the-drop")
								} else {
									detail = append(detail, "rows-flushed-before-the-drop-too")
								}
							}
							if h.Concurrent && h.Cold {
								detail = append(detail, "first-drops-since-start-are-concurrent")
							}
							if h.Concurrent && len(sr.extra) > 0 {
								first := true
								for _, k := range sr.extra {
									if !strings.HasPrefix(parseSeries(k.Series)["host"], "r0c") {
										first = false
									}
								}
								if first {
									detail = append(detail, "only-series-of-the-first-round")
								} else {
									detail = append(detail, "series-of-later-rounds-too")
								}
							}
						}
						sig := fmt.Sprintf("drop-%s|%s|moment=%s", h.Kind, cls, moment)
						if nDrops >= 2 && h.SecondDropFar && moment == "after-drop" {
							sig += "|second-drop-on-series-of-a-later-index"
						}
						if len(detail) > 0 {
							sig += "|" + strings.Join(detail, "|")
						}
						sig += "|shape=" + sr.name
						c.Violation(sig,
							fmt.Sprintf("history %d, %s, %s (rp %s): %s", h.Index, dropStmt(h), moment, rp, strings.Join(sr.diff, "; ")),
							wit(i, map[string]any{"shape": sr.name, "moment": moment, "diff": sr.diff, "extra_rows": len(sr.extra), "missing_rows": len(sr.missing)}))
						return
					}
				}
			}
		}
	}
	c.Count("histories-completed", 1)
	c.Distinct("drop-kind", h.Kind+"/"+predClass(h))
	if h.Index < 3 {
		var ops []string
		for _, st := range h.Steps {
			switch st.Op {
			case "write":
				ops = append(ops, fmt.Sprintf("write(%d)", len(st.pts)))
			case "drop":
				ops = append(ops, "["+st.Stmt+"]")
			default:
				ops = append(ops, st.Op)
			}
		}
		c.Sample(map[string]any{"history": h.Index, "ops": strings.Join(ops, " ")})
	}
}

func rpOr(rp string) string {
	if rp == "" {
		return "autogen"
	}
	return rp
}

func hasSeries(m *model.Model, mst, series string) bool {
	for k, row := range m.Rows {
		if k.Mst == mst && k.Series == series && len(row) > 0 {
			return true
		}
	}
	return false
}

// onlyMissingRowsOf: the answer differs from the model only by lacking rows, all of them rows
// of series in the set.
func onlyMissingRowsOf(sr shapeResult, rp string, set map[string]bool) bool {
	if sr.err != nil || len(sr.extra) > 0 || len(sr.missing) == 0 {
		return false
	}
	for _, d := range sr.diff {
		if !strings.Contains(d, "missing row") {
			return false
		}
	}
	for _, k := range sr.missing {
		if !set[rpOr(rp)+"|"+k.Mst+"|"+k.Series] {
			return false
		}
	}
	return true
}

// crashClass: "<mutation>:<what kind of file>" of the recorder's line about the mutation the
// process died in front of ("<n> <kind> <path> <size> torn=<t>").
func crashClass(die string) string {
	f := strings.Fields(die)
	if len(f) < 3 {
		return "killed-after-the-flush-returned"
	}
	p := f[2]
	what := "other"
	switch {
	case strings.Contains(p, "/index/18446744073709551615_"):
		what = "delete-index"
	case strings.Contains(p, "/index/"):
		what = "series-index"
	case strings.Contains(p, "/wal/"):
		what = "write-ahead-log"
	case strings.Contains(p, "/tssp/"):
		what = "data-file"
	}
	return f[1] + ":" + what
}

// firstFatalContext: the fatal line and the goroutine that raised it.
func firstFatalContext(out string) string {
	lines := strings.Split(out, "\n")
	for i, ln := range lines {
		if strings.HasPrefix(ln, "panic:") || strings.HasPrefix(ln, "fatal error:") {
			j := i + 14
			if j > len(lines) {
				j = len(lines)
			}
			return strings.Join(lines[i:j], "\n")
		}
	}
	return ""
}

func dropStmt(h *history) string {
	if h.Concurrent {
		return "4 rounds of 24 concurrent DROP SERIES FROM m WHERE host = 'r<round>c<nn>'"
	}
	for _, st := range h.Steps {
		if st.Op == "drop" {
			return st.Stmt
		}
	}
	return "?"
}

func predClass(h *history) string {
	if h.Concurrent {
		return "concurrent"
	}
	for _, st := range h.Steps {
		if st.Op == "drop" && st.Drop != nil && st.Drop.Kind == "series" {
			return "pred" + st.Drop.Op
		}
	}
	return "-"
}

func waitVisible(s *proc.Server, rp string, pts []model.Point) error {
	if len(pts) == 0 {
		return nil
	}
	if rp == "" || rp == "autogen" {
		_, err := kit.WaitSeries(s, db, pts, 60*time.Second)
		return err
	}
	deadline := time.Now().Add(60 * time.Second)
	for {
		ok := true
		for _, m := range allMsts {
			res, err := s.Query(db, fmt.Sprintf(`SELECT * FROM "%s"."%s"."%s" GROUP BY *`, db, rp, m), nil)
			need := map[string]bool{}
			for _, p := range pts {
				if p.Mst == m {
					need[model.SeriesKey(p.Tags)] = true
				}
			}
			if err != nil || len(res.Results) == 0 {
				ok = len(need) == 0 && ok
				continue
			}
			for _, se := range res.Results[0].Series {
				delete(need, model.SeriesKey(se.Tags))
			}
			if len(need) > 0 {
				ok = false
			}
		}
		if ok {
			return nil
		}
		if time.Now().After(deadline) {
			return fmt.Errorf("series of rp %s not visible", rp)
		}
		time.Sleep(200 * time.Millisecond)
	}
}

func firstFatal(s string) string {
	for _, ln := range strings.Split(s, "\n") {
		if strings.HasPrefix(ln, "panic:") || strings.HasPrefix(ln, "fatal error:") {
			if len(ln) > 140 {
				ln = ln[:140]
			}
			return ln
		}
	}
	return "no panic line"
}

func main() {
	c := vf.New("C13", "exploration")
	c.SetRule("seeded sequential histories on a real ts-server (data in memtable, ordered, out-of-order and compacted files), then one DROP (series with a predicate selecting none/some/all via = != =~ !~, measurement, retention policy, database), further writes incl. to dropped series and re-created names, flush, reorganisation, restart (thorough: every second history is killed at a seeded file-system step of a flush issued after the drop, every fourth is stopped and started cleanly right after the drop while rows acknowledged before it are still in the memtable; concurrent DROP SERIES rounds with and without a preceding sequential drop); at each moment (after drop, after flush+reorganise, after restart/crash) a matrix of read shapes (no filter, tag = != =~ !~, field filter, count with/without statistics push-down, group by tag, group by time, SHOW SERIES / TAG VALUES / TAG KEYS) is compared with the model; distinct non-trivial = distinct (drop kind, predicate operator, read shape, moment)")
	c.Assume("the model applies the drop at its acknowledgement; writes acknowledged afterwards are fresh data")
	c.Assume("a write to a just-dropped name that is refused is retried (bounded); only acknowledged writes enter the model")
	c.Assume("after a SIGKILL, aggregates served from stored statistics (no exact hint, no field filter, no time bucket) may count rows acknowledged since the last completed flush twice (write-ahead-log replay over files the interrupted flush had committed; C09's carve-out for keys present in two flush generations); every other read shape stays exact")
	c.Assume("a series first written or re-created after the tag-filter reads began may be missing from a tag-filter read answered from the tag-filter cache until the cache turns over (index table signals at most every 10 s; same for a never-dropped series): such a read is repeated up to 40 times at 1 s and judged on the last answer")
	bin, err := proc.Build(c.RepoDir, c.Scratch, "ts-server", false)
	if err != nil {
		c.Broken("build ts-server: %v", err)
		c.Finish()
	}
	rn := &runner{c: c, bin: bin}
	if c.ReplayIn != "" {
		b, err := os.ReadFile(c.ReplayIn)
		if err != nil {
			c.Broken("replay: %v", err)
			c.Finish()
		}
		var w struct {
			Witness struct {
				History history `json:"history"`
			} `json:"witness"`
		}
		if err := json.Unmarshal(b, &w); err != nil {
			c.Broken("replay: %v", err)
			c.Finish()
		}
		h := &w.Witness.History
		for i := range h.Steps {
			for _, ln := range h.Steps[i].Points {
				p, err := model.ParseLP(ln)
				if err != nil {
					c.Broken("replay: %v", err)
					c.Finish()
				}
				h.Steps[i].pts = append(h.Steps[i].pts, p)
			}
		}
		if h.Steps[len(h.Steps)-1].Op != "check" {
			h.Steps = append(h.Steps, step{Op: "check"})
		}
		rn.run(h, 0)
		c.Nontrivial("replay-a")
		c.Nontrivial("replay-b")
		c.Finish()
	}
	kinds := []string{"series", "series", "series-young", "measurement", "rp", "database", "series-concurrent"}
	n := c.Pick(12, 80)
	par := 8
	sem := make(chan int, par)
	for i := 0; i < par; i++ {
		sem <- i
	}
	var wg sync.WaitGroup
	for i := 0; i < n; i++ {
		r := c.Rand(uint64(6000 + i))
		// thorough: every second history crashes after the drop, every fourth is stopped and
		// started cleanly right after the drop (rows acknowledged before the drop still in the
		// memtable); every other concurrent history issues its first drops concurrently
		after := ""
		if c.Thorough() && i%2 == 1 {
			after = "crash"
		} else if c.Thorough() && i%4 == 0 {
			after = "restart"
		}
		h := genHistory(r, i, kinds[i%len(kinds)], c.Pick(14, 30), after, c.Thorough() && (i/len(kinds))%2 == 1)
		w := <-sem
		wg.Add(1)
		go func(h *history, w int) {
			defer func() { sem <- w; wg.Done() }()
			rn.run(h, w)
		}(h, w)
	}
	wg.Wait()
	c.Finish()
}
