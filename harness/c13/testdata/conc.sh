#!/bin/bash
# first-ever DROP SERIES statements of a database, issued concurrently
IP=${1:-127.23.200.1}; N=${2:-24}
S="/var/tmp/c13-repro/srv.sh $IP"
$S kill; $S wipe; $S start >/dev/null; DB= $S q "CREATE DATABASE db0" >/dev/null
body=""
for i in $(seq -w 0 $((N-1))); do body+="m0,host=r0c$i,region=x fi=${i#0}1i 1700000001000000000"$'\n'; done
$S w "$body" >/dev/null
sleep 4
echo "series before: $($S q 'SELECT * FROM m0 GROUP BY *' | grep -o '"host":"r0c[0-9]*"' | wc -l)"
for i in $(seq -w 0 $((N-1))); do
  ( $S q "DROP SERIES FROM m0 WHERE host = 'r0c$i'" | grep -v '{"results":\[{"statement_id":0}\]}' | grep . ) &
done
wait
echo "series after $N concurrent acknowledged drops: $($S q 'SELECT * FROM m0 GROUP BY *' | grep -o '"host":"r0c[0-9]*"' | tr '\n' ' ')"
sleep 4
echo "4 s later: $($S q 'SELECT * FROM m0 GROUP BY *' | grep -o '"host":"r0c[0-9]*"' | wc -l) series; SHOW SERIES: $($S q 'SHOW SERIES' | grep -o 'host=r0c[0-9]*' | wc -l)"
$S stop; $S start >/dev/null; sleep 3
echo "after clean restart: $($S q 'SELECT * FROM m0 GROUP BY *' | grep -o '"host":"r0c[0-9]*"' | wc -l) series"
grep -c "panic\|fatal" /var/tmp/c13-repro/inst-$IP/stdout.log
