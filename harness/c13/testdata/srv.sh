#!/bin/bash
# usage: srv.sh <ip> start|kill|stop|q <query>|w <lineprotocol>|flush|merge|compact <mode>|arm <k>|state|wipe
# single ts-server on a private loopback address, same configuration as harness/proc uses for C13
IP="$1"; shift
D=/var/tmp/c13-repro/inst-$IP
BIN=${BIN:-/var/tmp/c13-repro/ts-server}
case "$1" in
wipe) rm -rf "$D";;
start)
  mkdir -p "$D"
  cat > "$D/server.conf" <<EOF
[common]
  meta-join = ["$IP:8092"]
  ha-policy = "write-available-first"
  ignore-empty-tag = true
[meta]
  bind-address = "$IP:8088"
  http-bind-address = "$IP:8091"
  rpc-bind-address = "$IP:8092"
  dir = "$D/meta"
[http]
  bind-address = "$IP:8086"
  flight-address = "$IP:8087"
  flight-enabled = false
  flight-auth-enabled = false
[data]
  store-ingest-addr = "$IP:8400"
  store-select-addr = "$IP:8401"
  store-data-dir = "$D/data"
  store-wal-dir = "$D/data"
  store-meta-dir = "$D/meta"
  enable-mmap-read = false
  lazy-load-shard-enable = false
[data.memtable]
  write-cold-duration = "1h"
  force-snapShot-duration = "1h"
[coordinator]
  query-timeout = "0s"
[index]
  cache-compress-enable = false
[logging]
  path = "$D/logs/"
[gossip]
  enabled = false
[spec-limit]
  enable-query-when-exceed = true
  query-series-limit = 100000
  query-schema-limit = 1000000
[monitor]
  pushers = ""
  store-enabled = false
  store-database = "_internal"
  store-interval = "10s"
  store-path = "$D/metric/{{id}}/metric.data"
  compress = false
  https-enabled = false
  http-endpoint = "$IP:8086"
[record-write]
  enabled = false
  auth-enabled = false
  rpc-address = "$IP:8305"
[hierarchical_storage]
  enabled = false
  index-enabled = false
EOF
  cd "$D"
  VERIF_CTL=$IP:8999 VERIF_FS=1 VERIF_FS_DIELOG=$D/dielog VERIF_FS_MATCH=/data/ VERIF_BG_OFF=1 setsid nohup "$BIN" run -config "$D/server.conf" >> "$D/stdout.log" 2>&1 &
  echo $! > "$D/pid"
  for i in $(seq 1 300); do
    if curl -s -o /dev/null "http://$IP:8086/ping" && curl -s "http://$IP:8999/verif/state" | grep -q '"ready":true'; then
      curl -s -XPOST "http://$IP:8086/debug/ctrl?mod=compen&switchon=false&allshards=true" >/dev/null
      curl -s -XPOST "http://$IP:8086/debug/ctrl?mod=merge&switchon=false&allshards=true" >/dev/null
      echo started; exit 0; fi
    sleep 0.2
  done
  echo "not ready"; exit 1;;
kill) kill -9 "$(cat $D/pid)" 2>/dev/null; sleep 0.3;;
stop) kill -TERM "$(cat $D/pid)" 2>/dev/null; for i in $(seq 1 200); do kill -0 "$(cat $D/pid)" 2>/dev/null || break; sleep 0.2; done;;
alive) kill -0 "$(cat $D/pid)" 2>/dev/null && echo alive || echo dead;;
q) shift; m=GET; case "$1" in [Ss][Ee][Ll]*|[Ss][Hh][Oo]*) m=GET;; *) m=POST;; esac
   curl -s -X$m "http://$IP:8086/query" --data-urlencode "db=${DB-db0}" --data-urlencode "epoch=ns" --data-urlencode "q=$1" -G; echo;;
w) shift; curl -s -o /dev/null -w '%{http_code}\n' -XPOST "http://$IP:8086/write?db=${DB-db0}" --data-binary "$1";;
flush) curl -s -XPOST "http://$IP:8999/verif/flush"; echo;;
merge) curl -s -XPOST "http://$IP:8999/verif/merge"; echo;;
compact) curl -s -XPOST "http://$IP:8999/verif/compact?mode=$2"; echo;;
arm) curl -s -XPOST "http://$IP:8999/verif/fs/arm?k=$2&torn=0"; echo;;
count) curl -s "http://$IP:8999/verif/fs/count"; echo;;
state) curl -s "http://$IP:8999/verif/state"; echo;;
dielog) cat "$D/dielog" 2>/dev/null; rm -f "$D/dielog";;
esac
