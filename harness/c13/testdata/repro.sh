#!/bin/bash
# Curl-level reproducers of what C13's thorough tier found on the unchanged tree.
#   build:  cd /repo && go build -tags verif -o /var/tmp/c13-repro/ts-server ./app/ts-server
#           mkdir -p /var/tmp/c13-repro && cp srv.sh conc.sh /var/tmp/c13-repro/
#   usage:  repro.sh a1|a2|a3|lag        (BIN=<ts-server binary> to test another build)
# srv.sh <ip> start|stop|kill|wipe|q <stmt>|w <lines>|flush   one ts-server on a private loopback address
S="/var/tmp/c13-repro/srv.sh ${IP:-127.23.200.1}"
hosts() { grep -o '"host":"[a-z0-9]*"' | tr '\n' ' '; }
fresh() { $S kill; $S wipe; $S start >/dev/null; DB= $S q "CREATE DATABASE db0" >/dev/null; }
case "$1" in
a1) # DROP SERIES acknowledged before the deleted ids are on disk: kill -9 right after the acknowledgement
  fresh
  $S w $'m0,host=a,region=x fi=1i 1700000000000000000\nm0,host=b,region=x fi=2i 1700000000000000000' >/dev/null
  sleep 3; $S flush >/dev/null; sleep 1
  $S q "DROP SERIES FROM m0 WHERE host = 'b'" >/dev/null
  echo "after the drop:        $($S q 'SELECT * FROM m0 GROUP BY *' | hosts)"
  $S kill; $S start >/dev/null; sleep 3
  echo "after kill -9 + start: $($S q 'SELECT * FROM m0 GROUP BY *' | hosts)   (expected: a only)";;
a2) # rows still in the memtable / write-ahead log at the drop come back at the next (clean) start
  fresh
  $S w $'m0,host=a,region=x fi=1i 1700000000000000000\nm0,host=b,region=x fi=2i 1700000000000000000' >/dev/null
  sleep 3
  $S q "DROP SERIES FROM m0 WHERE host = 'b'" >/dev/null
  echo "after the drop:          $($S q 'SELECT * FROM m0 GROUP BY *' | hosts)"
  sleep 6                       # the deleted ids are on disk by now
  $S stop; $S start >/dev/null; sleep 3
  echo "after SIGTERM + start:   $($S q 'SELECT * FROM m0 GROUP BY *' | hosts)   (expected: a only)";;
a3) # the first DROP SERIES statements of a database, concurrently: server dies / drops lost
  # (stress/main.go.txt: go program doing the same against many fresh databases of one server)
  /var/tmp/c13-repro/conc.sh "${IP:-127.23.200.1}" 24
  grep -m1 "fatal error" /var/tmp/c13-repro/inst-${IP:-127.23.200.1}/stdout.log;;
lag) # NOT a drop defect (no drop involved): a new series is missing from a tag-filter read whose
  # result was cached before, until the tag-filter cache turns over (<= ~10 s)
  fresh
  $S w 'm0,host=a,region=x fi=1i 1700000000000000000' >/dev/null; sleep 2
  echo "primed:  $($S q "SELECT * FROM m0 WHERE host != 'c' GROUP BY *" | hosts)"
  $S w 'm0,host=b,region=x fi=2i 1700000001000000000' >/dev/null
  for i in $(seq 1 13); do sleep 1; echo "t+$i s: no filter: $($S q 'SELECT * FROM m0 GROUP BY *' | hosts)| host != 'c': $($S q "SELECT * FROM m0 WHERE host != 'c' GROUP BY *" | hosts)"; done;;
*) sed -n 2,7p "$0";;
esac
