#!/usr/bin/env python3
"""Writes /verif/known_findings.d/c18.json (run by hand after calibration, never at check time).

A signature produced by the driver is
    [two-shard-window| or file-memtable-seam| or range<step| or nan-inf-in-window|]<kind>|<mode>|<head>|<shape>
(at most one data-shape prefix, the first that applies; kind of difference, instant|range|range-vs-instant, construct of the
minimal disagreeing expression, its abstract shape). vf matches exactly or, with a trailing
'*', by prefix; the first matching entry names the finding, so the construct families come
before the data-shape families.
"""
import json

FLAGS = ["two-shard-window|", "file-memtable-seam|", "range<step|", "nan-inf-in-window|"]
COMBOS = [""] + FLAGS
AGGS = ["sum", "avg", "min", "max", "count", "group", "stddev", "stdvar", "quantile"]
SAME = "error:populatepromseries raise err: vector cannot contain metrics with the same labels"
NOANS = "error:harness: no answer within Ns (or the server died answering); server killed and r"
BIG = "error:harness: response larger than N mib"
ALLMODES = ("instant", "range", "range-vs-instant")

out = []


def add(fid, what, where, sigs):
    for s in sigs:
        out.append({"property": "C18", "id": fid, "status": "known", "signature": s, "what_fails": what, "where": where})


def every(kinds, modes, heads):
    return [c + k + "|" + m + "|" + h + "*" for c in COMBOS for k in kinds for m in modes for h in heads]


# ---- construct families -------------------------------------------------------------------
add("C18-matcher-label-on-no-series",
    'a matcher that rejects the empty string on a label that no series of the metric carries (mem_used{nolabel="x"}, {nolabel!=""}, {nolabel=~".+"}, {nolabel!~".*"}) is ignored: all series of the metric are returned, Prometheus returns none',
    "lib/util/lifted/promql2influxql/selector.go (label matcher -> tag condition on a tag key the measurement does not have)",
    every(["series-extra"], ("instant", "range"), ["matcher{label-on-no-series/rejects-empty "]))
add("C18-matcher-empty-value",
    'matchers with an empty value are ignored: mem_used{instance=""} and {instance=~""} return every series (Prometheus: none); {zone=""} and {zone!=""} both return the series with and without the label',
    "lib/util/lifted/promql2influxql/selector.go (label matcher with empty value)",
    every(["series-extra"], ("instant", "range"), ["matcher{empty-value "]))
add("C18-regex-matcher-unanchored",
    '=~ and !~ match substrings instead of the whole label value: mem_used{instance=~"a"} returns instance="a:80", {instance=~":80"} returns all series, {instance!~"a"} drops a:80 (Prometheus anchors regular expressions)',
    "regular-expression tag filter behind lib/util/lifted/promql2influxql/selector.go: pattern not wrapped in ^(?:...)$",
    every(["series-extra"], ("instant", "range"), ["matcher{regex-unanchored-differs =~"]) +
    every(["series-missing"], ("instant", "range"), ["matcher{regex-unanchored-differs !~"]))
add("C18-aggregation-over-offset-selector-range-query",
    "range query of an aggregation directly over an instant selector with offset, e.g. sum(mem_used offset 5m) with step 60s over 20 min: steps are missing, or one timestamp is returned several times with partial sums; the instant queries at the same steps are right",
    "lib/util/lifted/promql2influxql/aggregate_expr.go + transpiler.go (QueryOffset with GROUP BY time) / engine/executor/prom_instant_vector_transform.go",
    every(["point-missing", "duplicate-point", "point-extra", "value:number"], ("range", "range-vs-instant"),
          ["aggregation over offset-selector: "]))
add("C18-quantile-over-subexpression-empty",
    "quantile aggregation whose operand is a binary operation or another aggregation: quantile by (job) (0.5, mem_used + 1), quantile(0.5, sum without (instance) (mem_used)) and quantile by (job) (0.5, sum(mem_used)) return nothing (instant and range), or the range query and its instant queries return different series",
    "lib/util/lifted/promql2influxql/aggregate_expr.go (quantile over a sub-query) / engine/executor prom aggregate",
    every(["series-missing", "series-extra"], ALLMODES, ["aggregation quantile of aggregation-", "aggregation quantile of paren "]))
add("C18-nested-bool-comparison",
    "a bool comparison whose operand is itself a parenthesised bool comparison: 1 == bool (600 == bool mem_used) returns nothing, (queue_len <= bool 1) != bool 100 returns 0 where Prometheus returns 1",
    "lib/util/lifted/promql2influxql/binary_expr.go (comparison with bool modifier over a comparison sub-query)",
    every(["series-missing", "value:number", "point-missing", "point-extra"], ALLMODES,
          ["binary scalar,paren bool-comparison", "binary paren bool-comparison"]))
add("C18-vector-matching",
    'vector-vector operations (with on()/ignoring() or default matching): in a range query req_total{code="500"} + on(instance, job) req_total{code="200"} keeps producing points for a pair after one side has ended or gone stale (the instant queries at those steps return nothing) and drops other pairs; as instant query rate(req_total[5m]) > ignoring(code) rate(req_total{code="200"}[5m]) returns nothing; an aggregation over such an operation (sum by (job) (rate(a[5m]) < on(instance, job) b)) returns nothing or other values even as instant query',
    "engine/executor/prom_binop_transform.go (matching of series across the steps of a range query; as sub-query of an aggregation)",
    every(["point-extra", "point-missing", "series-missing", "series-extra", "value:number"], ALLMODES,
          ["vector-matching "]) +
    every(["series-missing", "series-extra", "value:number", "point-missing", "point-extra"], ALLMODES,
          ["aggregation over vector-matching: "]))
add("C18-binary-of-two-aggregations",
    "binary operation between two aggregations, e.g. avg by (instance) (resets(req_total[5m])) <= bool avg by (instance) (avg_over_time(mem_used[5m] offset 90s)): empty result as instant query; in range queries extra or missing points and series",
    "lib/util/lifted/promql2influxql/binary_expr.go (binary operation over two aggregate sub-queries, offset on one side)",
    every(["series-missing", "series-extra", "point-extra", "point-missing", "value:number"], ALLMODES,
          ["vector-matching default: aggregation-"]))

# ---- data-shape families ------------------------------------------------------------------
GARBAGE = ["point-missing", "point-extra", "series-missing", "series-extra", "series-set", "labels", "duplicate-point", "value:number", "value:nan-vs-number",
           "value:inf", SAME, NOANS, BIG]


def flagged(flag, kinds):
    return [flag + k + "|*" for k in kinds]


add("C18-window-across-shard-groups",
    "an evaluation whose look-back or range window reaches across a shard-group boundary (data of the series in two shards) uses the samples of one shard only: the range query of a plain selector misses the first step after the boundary, last_over_time(mem_used[1h]) misses series, rate() at the boundary step differs, max_over_time raises 'vector cannot contain metrics with the same labelset'",
    "engine/prom_instant_vector_cursor.go, engine/prom_range_vector_cursor.go (evaluation per shard) / lib/util/lifted/influx/httpd/results_merge_prom.go",
    flagged("two-shard-window|", GARBAGE))
add("C18-window-across-file-memtable-seam",
    "after a flush between two remote-write requests (older samples of a series in a file, newer ones in the memtable) the range-query step whose window covers the flush point loses its sample: temp_c with step 60s misses the last step before the seam, sum_over_time(mem_used[10m]) misses a point",
    "engine/prom_instant_vector_cursor.go, engine/prom_range_vector_cursor.go (one series read from a file and from the memtable)",
    flagged("file-memtable-seam|", GARBAGE))
add("C18-range-function-range-below-step",
    "range query of a range-vector function whose range is shorter than the step (avg_over_time(mem_used[17s]) step 100s; sum_over_time(req_total[45s]) step 360s): error 'vector cannot contain metrics with the same labelset', wrong values, a response of more than 64 MiB, or no answer at all while the server allocates GiB per 10 s",
    "engine/prom_range_vector_cursor.go (window selection when the windows do not tile the query range) / lib/util/lifted/promql2influxql/call.go",
    flagged("range<step|", GARBAGE))
add("C18-nan-inf-samples",
    "current samples that are NaN or +/-Inf: a comparison keeps the NaN sample (temp_c > 0.5 returns it, Prometheus drops it); (2 ^ temp_c) >= bool 5 drops it; quantile() orders NaN differently (quantile(0.5, temp_c) 8.23 instead of 6.065, quantile(1, ...) NaN instead of the maximum); min()/max() over NaN or +Inf return 1.7976931348623157e+308",
    "engine/executor/prom_binop_transform.go (comparison of NaN), engine/executor prom aggregates (min/max initial value, quantile ordering)",
    flagged("nan-inf-in-window|", ["value:number", "value:nan-vs-number", "value:inf", "point-extra", "series-extra",
                                   "point-missing", "series-missing"]))

# first match names the finding: the narrower family first
ORDER = ["C18-matcher-label-on-no-series", "C18-matcher-empty-value", "C18-regex-matcher-unanchored",
         "C18-aggregation-over-offset-selector-range-query", "C18-quantile-over-subexpression-empty",
         "C18-nested-bool-comparison", "C18-binary-of-two-aggregations", "C18-vector-matching",
         "C18-window-across-shard-groups", "C18-window-across-file-memtable-seam",
         "C18-range-function-range-below-step", "C18-nan-inf-samples"]
out.sort(key=lambda e: ORDER.index(e["id"]))
json.dump({"findings": out}, open("/verif/known_findings.d/c18.json", "w"), indent=1)
print(len(out), "entries")
