package main

import (
	"bufio"
	"fmt"
	"os"
	"path/filepath"
	"strconv"
	"strings"

	"verifharness/vf"
)

// probe is a debugging aid (not part of the registered check): with C18_PROBE=<file> the
// driver loads sample set C18_PROBE_SET (default 0) of the current seed and evaluates the
// lines of the file on both engines, printing both answers:
//
//	instant <time_ms> <expr>
//	range <start_ms> <end_ms> <step_ms> <expr>
func probe(c *vf.Ctx, bin string) {
	idx, _ := strconv.Atoi(os.Getenv("C18_PROBE_SET"))
	box, err := startServer(c, bin, 0)
	if err != nil {
		c.Broken("probe: %v", err)
		return
	}
	s := box.s
	defer s.Kill()
	rng := c.Rand(uint64(1000 + idx))
	set := genSet(rng, idx)
	ref, err := newRef(filepath.Join(c.Scratch, "ref-probe"))
	if err != nil {
		c.Broken("probe: %v", err)
		return
	}
	defer ref.close()
	if err := ref.load(set.Series); err != nil {
		c.Broken("probe: %v", err)
		return
	}
	run := &setRun{c: c, set: set, ref: ref, og: &og{b: box, s: s, db: "probe"}, ingest: "one-request/memtable"}
	if m := os.Getenv("C18_PROBE_INGEST"); m != "" {
		run.ingest = m
	}
	if !run.load() {
		return
	}
	box.onUp = run.waitVisible
	fmt.Printf("set %d T0=%d End=%d series=%d\n", idx, set.T0, set.End, len(set.Series))
	if os.Getenv("C18_PROBE_DUMP") != "" {
		for _, sd := range set.Series {
			fmt.Printf("SERIES %s %v\n", labelKey(sd.Labels), sd.Shape)
			for i := range sd.T {
				fmt.Printf("   %s %s\n", msStr(sd.T[i]), fstr(sd.V[i]))
			}
		}
	}
	f, err := os.Open(os.Getenv("C18_PROBE"))
	if err != nil {
		c.Broken("probe: %v", err)
		return
	}
	defer f.Close()
	sc := bufio.NewScanner(f)
	for sc.Scan() {
		ln := strings.TrimSpace(sc.Text())
		if ln == "" || strings.HasPrefix(ln, "#") {
			continue
		}
		parts := strings.Fields(ln)
		var want, got *Result
		var gerr error
		switch parts[0] {
		case "instant":
			t, _ := strconv.ParseInt(parts[1], 10, 64)
			expr := strings.TrimSpace(strings.SplitN(ln, parts[1], 2)[1])
			want = ref.instant(expr, t)
			got, gerr = run.og.instant(expr, t)
		case "range":
			a, _ := strconv.ParseInt(parts[1], 10, 64)
			b, _ := strconv.ParseInt(parts[2], 10, 64)
			st, _ := strconv.ParseInt(parts[3], 10, 64)
			expr := strings.Join(parts[4:], " ")
			want = ref.rangeQ(expr, a, b, st)
			got, gerr = run.og.rangeQ(expr, a, b, st)
		default:
			continue
		}
		c.Eval(1)
		fmt.Printf("== %s\n", ln)
		if gerr != nil {
			fmt.Printf("   transport error: %v\n", gerr)
			continue
		}
		verdict := "AGREE"
		if want.Err != "" {
			verdict = "REF-ERROR"
		} else if d := compare(want, got); d != nil {
			verdict = "DIFF " + d.Kind + ": " + d.Detail
		}
		if verdict == "AGREE" && os.Getenv("C18_PROBE_VERBOSE") == "" {
			fmt.Printf("   AGREE (%d series, %d points)\n", len(want.Series), want.points())
			continue
		}
		fmt.Printf("   %s\n   ref: %s\n   og:  %s\n", verdict, strings.Join(want.render(20), "\n        "), strings.Join(got.render(20), "\n        "))
	}
}
