// Command c18 is the runtime check of property C18: PromQL queries of openGemini return
// what the upstream Prometheus engine returns on the same samples, and a range query
// equals the instant queries at its steps. Black-box: real ts-server processes, samples
// through remote write, answers through /api/v1/query and /api/v1/query_range.
package main

import (
	"encoding/json"
	"fmt"
	"math"
	"os"
	"path/filepath"
	"regexp"
	"strings"
	"sync"
	"sync/atomic"
	"time"

	"verifharness/proc"
	"verifharness/vf"
)

type witness struct {
	Set       int          `json:"sample_set"`
	SetT0     int64        `json:"sample_set_t0_ms"`
	SetEnd    int64        `json:"sample_set_end_ms"`
	Ingest    string       `json:"ingest_mode"`
	Mode      string       `json:"mode"` // instant | range | range-vs-instant
	Expr      string       `json:"expr"`
	Node      *Node        `json:"node"`
	FullExpr  string       `json:"generated_expr,omitempty"`
	Params    EvalParams   `json:"params"`
	Diff      string       `json:"difference"`
	Expected  []string     `json:"expected"`
	Got       []string     `json:"got"`
	Series    []wireSeries `json:"series"`
	Signature string       `json:"signature"`
}

type setRun struct {
	c      *vf.Ctx
	set    *SampleSet
	ref    *refEngine
	og     *og
	ingest string
}

func main() {
	c := vf.New("C18", "exploration")
	c.SetRule("an evaluation (expression × instant|range) is non-trivial when the reference engine returns at least one sample for it and openGemini's answer was compared with it; distinct by expression shape (functions, operators, grouping, matcher kinds, modifiers, value kind of the metric) × mode")
	c.Assume("github.com/prometheus/prometheus v0.50.1 promql.Engine over a tsdb head (module cache) with lookback 5m is the reference semantics")
	c.Assume("both sides receive the same samples: remote write (snappy prompb) to openGemini, Appender of the reference storage; staleness markers are sent as the StaleNaN bit pattern")
	c.Assume("a series is judged only after a PromQL query has shown it (index visibility lag)")
	c.Assume("expressions for which the reference engine itself returns an error are not judged")

	bin, err := proc.Build(c.RepoDir, c.Scratch, "ts-server", false)
	if err != nil {
		c.Broken("build ts-server: %v", err)
		c.Finish()
	}
	if c.ReplayIn != "" {
		replay(c, bin)
		c.Finish()
	}
	if os.Getenv("C18_PROBE") != "" {
		probe(c, bin)
		c.Finish()
	}
	nsets := c.Pick(3, 30)
	nexpr := c.Pick(120, 400)
	if v := os.Getenv("C18_SETS"); v != "" {
		fmt.Sscan(v, &nsets)
	}
	if v := os.Getenv("C18_EXPRS"); v != "" {
		fmt.Sscan(v, &nexpr)
	}
	workers := c.Pick(3, 6)
	if workers > nsets {
		workers = nsets
	}
	if len(unsupported) > 0 {
		c.Extra("unsupported", unsupported)
	} else {
		c.Extra("unsupported", "none: no generated construct was answered with an explicit 'not supported' error during calibration; such an answer would be reported with kind error:unsupported")
	}
	c.Extra("generator", map[string]any{
		"range_functions": rangeFns, "aggregations": aggOps, "arithmetic": arithOps, "comparison": cmpOps,
		"sample_sets": nsets, "expressions_per_set": nexpr,
		"per_expression": "1 instant query + 1 range query against the reference engine, and the range query against openGemini's own instant queries at its steps",
	})
	var wg sync.WaitGroup
	for w := 0; w < workers; w++ {
		wg.Add(1)
		go func(w int) {
			defer wg.Done()
			if p := vf.Catch(func() { worker(c, bin, w, workers, nsets, nexpr) }); p != nil {
				c.Broken("worker %d panicked: %v", w, p)
			}
		}(w)
	}
	wg.Wait()
	// categories the design requires: each must have taken part in a non-empty comparison
	required := []string{"selector", "matcher:=", "matcher:!=", "matcher:=~", "matcher:!~", "offset",
		"fn:rate", "fn:increase", "fn:delta", "fn:irate", "fn:sum_over_time", "fn:avg_over_time", "fn:min_over_time",
		"fn:max_over_time", "fn:count_over_time", "agg:sum:by", "agg:sum:without", "agg:avg:by", "agg:avg:without"}
	reached := func(prefixes ...string) bool {
		for t := range nonemptyTags {
			for _, p := range prefixes {
				if strings.HasPrefix(t, p) {
					return true
				}
			}
		}
		return false
	}
	for _, cat := range required {
		if !nonemptyTags[cat] {
			c.Inconclusive("category-not-reached:"+cat, 1)
		}
	}
	for _, op := range arithOps {
		if !reached("arith:"+op+":vector-scalar", "arith:"+op+":scalar-vector") {
			c.Inconclusive("category-not-reached:arith:"+op+":with-scalar", 1)
		}
	}
	for _, op := range cmpOps {
		if !reached("cmp:"+op+":vector-scalar", "cmp:"+op+":scalar-vector") {
			c.Inconclusive("category-not-reached:cmp:"+op+":with-scalar", 1)
		}
		if !reached("cmp:" + op + ":bool:") {
			c.Inconclusive("category-not-reached:cmp:"+op+":bool", 1)
		}
	}
	if n := atomic.LoadInt64(&answeredOnSecondAsking); n > 0 {
		c.Count("calls-unanswered-once-and-answered-when-made-again(load,not-gating)", n)
	}
	c.Finish()
}

func startServer(c *vf.Ctx, bin string, w int) (*srvBox, error) {
	var lastErr error
	for attempt := 0; attempt < 2; attempt++ { // the machine is shared: one retry
		dir := filepath.Join(c.Scratch, fmt.Sprintf("srv%d", w))
		_ = os.RemoveAll(dir)
		s := proc.New(proc.Config{Bin: bin, Dir: dir, IP: proc.IP(18, w)})
		if err := s.Start(); err != nil {
			return nil, err
		}
		b := &srvBox{s: s}
		b.limit()
		if err := s.WaitReady(150 * time.Second); err != nil {
			s.Kill()
			lastErr = err
			continue
		}
		return b, nil
	}
	return nil, lastErr
}

func worker(c *vf.Ctx, bin string, w, workers, nsets, nexpr int) {
	box, err := startServer(c, bin, w)
	if err != nil {
		c.Broken("worker %d: server: %v", w, err)
		return
	}
	s := box.s
	defer func() { s.Kill() }()
	for idx := w; idx < nsets; idx += workers {
		if box.dead {
			c.Broken("worker %d: ts-server given up after %d restarts", w, box.restarts)
			return
		}
		if !s.Alive() {
			c.Broken("worker %d: ts-server exited: %v\n%s", w, s.ExitError(), s.StdoutTail(3000))
			return
		}
		rng := c.Rand(uint64(1000 + idx))
		set := genSet(rng, idx)
		ref, err := newRef(filepath.Join(c.Scratch, fmt.Sprintf("ref%d", idx)))
		if err != nil {
			c.Broken("reference storage: %v", err)
			return
		}
		if err := ref.load(set.Series); err != nil {
			c.Broken("reference load: %v", err)
			ref.close()
			return
		}
		run := &setRun{c: c, set: set, ref: ref, og: &og{b: box, s: s, db: fmt.Sprintf("prom%d", idx)}}
		box.onUp = func() bool {
			c.Count("server-restarts-after-unanswered-query", 1)
			return run.waitVisible()
		}
		run.ingest = []string{"one-request/memtable", "time-chunked/memtable", "time-chunked/flush-mid", "time-chunked/flush-all"}[rng.IntN(4)]
		if ok := run.load(); ok {
			run.describe()
			g := &gen{rng: rng, set: set, fam: families()}
			type job struct {
				n *Node
				p EvalParams
			}
			jobs := make([]job, nexpr)
			for i := range jobs {
				jobs[i] = job{g.next(i), g.params()}
			}
			// plus nexpr/6 probes around the edges of single series
			for k := 0; k < nexpr/6; k++ {
				n, p := g.edgeProbe(k)
				jobs = append(jobs, job{n, p})
			}
			// plus nexpr/10 *_over_time probes whose window starts, ends or sits on a NaN / Inf sample
			for k := 0; k < nexpr/10; k++ {
				if n, p, ok := g.nanProbe(k); ok {
					jobs = append(jobs, job{n, p})
				}
			}
			// plus nexpr/8 selectors with several matchers of which one is a regular expression
			// whose anchoring decides the answer
			for k := 0; k < nexpr/8; k++ {
				jobs = append(jobs, job{g.matcherProbe(k), g.params()})
			}
			ch := make(chan job)
			var wg sync.WaitGroup
			par := 4
			if v := os.Getenv("C18_PAR"); v != "" {
				fmt.Sscan(v, &par)
			}
			for k := 0; k < par; k++ {
				wg.Add(1)
				go func() {
					defer wg.Done()
					for j := range ch {
						if p := vf.Catch(func() { run.evalExpr(j.n, j.p) }); p != nil {
							c.Broken("evaluation of %s panicked: %v", j.n, p)
						}
					}
				}()
			}
			for _, j := range jobs {
				ch <- j
			}
			close(ch)
			wg.Wait()
		}
		ref.close()
	}
}

// load creates the database, sends the samples and waits until every series is visible.
func (r *setRun) load() bool {
	c, s := r.c, r.og.s
	if _, err := s.Query("", "CREATE DATABASE "+r.og.db, nil); err != nil {
		c.Broken("create database: %v", err)
		return false
	}
	var err error
	switch r.ingest {
	case "one-request/memtable":
		err = r.writeWindow(0, 1<<62)
	default:
		nwin := int64(5)
		w := (r.set.End - r.set.T0 + 120000) / nwin
		for k := int64(0); k < nwin && err == nil; k++ {
			from := r.set.T0 - 60000 + k*w
			to := from + w
			if k == nwin-1 {
				to = 1 << 62
			}
			err = r.writeWindow(from, to)
			if err == nil && r.ingest == "time-chunked/flush-mid" && k == 2 {
				err = s.Flush()
				r.set.Seam = to
			}
		}
		if err == nil && r.ingest == "time-chunked/flush-all" {
			err = s.Flush()
		}
	}
	if err != nil {
		c.Broken("set %d ingest (%s): %v", r.set.Index, r.ingest, err)
		return false
	}
	return r.waitVisible()
}

// waitVisible: visibility rule — every series must have been returned by a PromQL query.
func (r *setRun) waitVisible() bool {
	c := r.c
	plain := &og{s: r.og.s, db: r.og.db} // no server lock: also called while restarting
	// One probe per shard group: the series index is per shard, so a series visible through
	// the samples of one shard may still be invisible in the other. count_over_time over
	// exactly the shard's part of the data must return every series that has a (non-stale)
	// sample there.
	type probe struct {
		expr string
		at   int64
		want int
	}
	var probes []probe
	lo, hi := r.set.T0-120000, r.set.End+120000
	bounds := [][2]int64{{lo, hi}}
	if shardBoundary > lo && shardBoundary <= hi {
		bounds = [][2]int64{{lo, shardBoundary - 1}, {shardBoundary, hi}}
	}
	for m, ss := range r.set.byMetric {
		for _, bd := range bounds {
			want := 0
			for _, s := range ss {
				for i, t := range s.T {
					if t >= bd[0] && t <= bd[1] && !isStale(s.V[i]) {
						want++
						break
					}
				}
			}
			if want > 0 {
				probes = append(probes, probe{fmt.Sprintf("count_over_time(%s[%dms])", m, bd[1]-bd[0]+1), bd[1], want})
			}
		}
	}
	for attempt := 0; attempt < 300; attempt++ {
		all := true
		for _, p := range probes {
			res, err := plain.instant(p.expr, p.at)
			if err != nil || res.Err != "" || len(res.Series) < p.want {
				all = false
				break
			}
		}
		if all {
			return true
		}
		time.Sleep(100 * time.Millisecond)
	}
	c.Inconclusive("series-never-visible", 1)
	fmt.Printf("INCONCLUSIVE property=C18 set %d: not all series became visible\n", r.set.Index)
	return false
}

// writeWindow sends the samples with from <= t < to, all series in one request unless
// that exceeds the batch cap.
func (r *setRun) writeWindow(from, to int64) error {
	var batch []*SeriesData
	n := 0
	flush := func() error {
		if n == 0 {
			return nil
		}
		err := r.og.remoteWrite(batch)
		batch, n = nil, 0
		return err
	}
	for _, s := range r.set.Series {
		part := &SeriesData{Labels: s.Labels}
		for i, t := range s.T {
			if t >= from && t < to {
				part.T = append(part.T, t)
				part.V = append(part.V, s.V[i])
			}
		}
		if len(part.T) == 0 {
			continue
		}
		if n+len(part.T) > maxWriteBatch {
			if err := flush(); err != nil {
				return err
			}
		}
		batch = append(batch, part)
		n += len(part.T)
	}
	return flush()
}

func (r *setRun) describe() {
	c := r.c
	c.Distinct("ingest-mode", r.ingest)
	if r.set.Straddle {
		c.Count("sample-sets-straddling-shard-group-boundary", 1)
	}
	c.Count("sample-sets", 1)
	for _, s := range r.set.Series {
		c.Count("series", 1)
		c.Count("samples", int64(len(s.T)))
		c.Count("series-kind:"+s.Kind, 1)
		seen := map[string]bool{}
		for _, sh := range s.Shape {
			if !seen[sh] {
				c.Count("series-shape:"+sh, 1)
				seen[sh] = true
			}
		}
	}
	if res, err := r.og.s.Query(r.og.db, "SHOW SHARDS", nil); err == nil {
		n := 0
		for _, st := range res.Results {
			for _, se := range st.Series {
				if se.Name == r.og.db {
					n += len(se.Values)
				}
			}
		}
		if n > 0 {
			c.Distinct("shards-per-database", fmt.Sprint(n))
		}
	}
}

// evalExpr runs one expression as instant and as range query on both engines, and the
// range query against the instant queries at its steps on openGemini.
func (r *setRun) evalExpr(n *Node, p EvalParams) {
	c := r.c
	expr := n.String()
	tags := map[string]struct{}{}
	n.Constructs(tags)
	for t := range tags {
		c.Count("expressions-by-construct/"+t, 1)
	}
	for _, m := range []string{"instant", "range"} {
		if windowCovers(n, m, p, r.set.Seam) {
			c.Count("evaluations-with-window-across-file-memtable-seam", 1)
		}
		if r.nanInfInWindow(n, m, p) {
			c.Count("evaluations-with-nan-or-inf-sample-in-window", 1)
		}
	}
	if twoShards(n, "instant", p) {
		c.Count("evaluations-with-window-across-shard-group-boundary", 1)
	}
	if twoShards(n, "range", p) {
		c.Count("evaluations-with-window-across-shard-group-boundary", 1)
	}
	if rangeBelowStep(n, p) {
		c.Count("range-evaluations-with-range<step", 1)
	}
	c.Count("instant-class:"+p.IClass, 1)
	c.Count("step-class:"+p.StepClass, 1)
	hitmiss := func(t int64) {
		if r.set.hits(t) {
			c.Count("eval-timestamps:hit-a-sample-timestamp", 1)
		} else {
			c.Count("eval-timestamps:miss", 1)
		}
	}
	// (1) instant
	hitmiss(p.Instant)
	refI := r.ref.instant(expr, p.Instant)
	ogI, err := r.og.instant(expr, p.Instant)
	r.judge(n, n, "instant", p, refI, ogI, err, tags)
	// (1) range
	for _, t := range p.steps() {
		hitmiss(t)
	}
	refR := r.ref.rangeQ(expr, p.Start, p.End, p.Step)
	ogR, err := r.og.rangeQ(expr, p.Start, p.End, p.Step)
	r.judge(n, n, "range", p, refR, ogR, err, tags)
	// (2) range = instants at its steps
	if err == nil && ogR.Err == "" {
		want, ierr := r.instants(expr, p)
		c.Eval(1)
		switch {
		case ierr != nil:
			c.Inconclusive("transport-error", 1)
		case want.Err != "":
			r.report(n, n, "range-vs-instant", p, &Diff{"instant-error-at-step", want.Err}, want, ogR)
		default:
			if d := compare(want, ogR); d != nil {
				r.report(n, n, "range-vs-instant", p, d, want, ogR)
			} else {
				c.Count("range-vs-instant:agreed", 1)
				c.Count("range-vs-instant:points-compared", int64(ogR.points()))
				if ogR.points() > 0 {
					c.Nontrivial("range-vs-instant|" + n.Shape())
				}
			}
		}
	}
}

// instants evaluates expr as instant query at every step on openGemini and stitches the
// answers into the matrix the range query has to equal.
func (r *setRun) instants(expr string, p EvalParams) (*Result, error) {
	var parts []*Result
	for _, t := range p.steps() {
		res, err := r.og.instant(expr, t)
		if err != nil {
			return nil, err
		}
		if res.Err != "" {
			return &Result{Err: fmt.Sprintf("instant query at %s: %s", msStr(t), res.Err)}, nil
		}
		if res.Type != "vector" && res.Type != "scalar" {
			return &Result{Err: fmt.Sprintf("instant query at %s: resultType %s", msStr(t), res.Type)}, nil
		}
		parts = append(parts, res)
	}
	return stitch(parts), nil
}

func (r *setRun) judge(full, n *Node, mode string, p EvalParams, ref, got *Result, err error, tags map[string]struct{}) {
	c := r.c
	c.Eval(1)
	if err != nil {
		c.Inconclusive("transport-error", 1)
		return
	}
	if ref.Err != "" {
		c.Count("reference-error-not-judged", 1)
		return
	}
	if d := compare(ref, got); d != nil {
		r.report(full, n, mode, p, d, ref, got)
		return
	}
	c.Count(mode+":agreed", 1)
	c.Count(mode+":result-series-compared", int64(len(ref.Series)))
	c.Count(mode+":result-points-compared", int64(ref.points()))
	if ref.points() > 0 {
		c.Nontrivial(mode + "|" + n.Shape())
		c.Sample(map[string]any{"expr": n.String(), "mode": mode, "params": paramStr(mode, p), "sample_set": r.set.Index,
			"series_compared": len(ref.Series), "points_compared": ref.points(), "first_series": ref.render(1)[1]})
		for t := range tags {
			c.Count("nonempty-results-by-construct/"+mode+"/"+t, 1)
			nonemptyMu.Lock()
			nonemptyTags[t] = true
			nonemptyMu.Unlock()
		}
	} else {
		c.Count(mode+":agreed-empty", 1)
	}
}

var (
	nonemptyMu   sync.Mutex
	nonemptyTags = map[string]bool{} // constructs that took part in a compared, non-empty result
)

// evalMode evaluates a node in the given mode and returns (expected, got, difference).
func (r *setRun) evalMode(n *Node, mode string, p EvalParams) (*Result, *Result, *Diff) {
	expr := n.String()
	switch mode {
	case "instant":
		ref := r.ref.instant(expr, p.Instant)
		got, err := r.og.instant(expr, p.Instant)
		if err != nil || ref.Err != "" {
			return ref, got, nil
		}
		return ref, got, compare(ref, got)
	case "range":
		ref := r.ref.rangeQ(expr, p.Start, p.End, p.Step)
		got, err := r.og.rangeQ(expr, p.Start, p.End, p.Step)
		if err != nil || ref.Err != "" {
			return ref, got, nil
		}
		return ref, got, compare(ref, got)
	default:
		got, err := r.og.rangeQ(expr, p.Start, p.End, p.Step)
		if err != nil || got.Err != "" {
			return nil, got, nil
		}
		want, err := r.instants(expr, p)
		if err != nil {
			return want, got, nil
		}
		if want.Err != "" {
			return want, got, &Diff{"instant-error-at-step", want.Err}
		}
		return want, got, compare(want, got)
	}
}

var reDigits = regexp.MustCompile(`[0-9]+`)
var reQuoted = regexp.MustCompile("\"[^\"]*\"|'[^']*'|`[^`]*`")

func errorClass(msg string) string {
	m := strings.ToLower(msg)
	if strings.Contains(m, "not support") || strings.Contains(m, "unsupport") || strings.Contains(m, "not implement") {
		return "unsupported"
	}
	m = reQuoted.ReplaceAllString(m, "\"…\"")
	m = reDigits.ReplaceAllString(m, "N")
	if len(m) > 80 {
		m = m[:80]
	}
	return m
}

// report minimises the disagreeing expression (a child that disagrees in the same mode
// with the same parameters replaces its parent) and reports the violation with the
// signature  mode | shape of the minimal expression | kind of difference.
func (r *setRun) report(full, n *Node, mode string, p EvalParams, d *Diff, want, got *Result) {
	min := n
	for depth := 0; depth < 16; depth++ {
		var next *Node
		cands := min.Kids()
		if d.Detail != noAnswer { // every variant of an unanswered query costs a time-out and a restart
			cands = append(cands, min.Simpler()...)
		}
		for _, k := range cands {
			w2, g2, d2 := r.evalMode(k, mode, p)
			if d2 != nil {
				next, want, got, d = k, w2, g2, d2
				break
			}
		}
		if next == nil {
			break
		}
		min = next
	}
	kind := d.Kind
	if kind == "error" || kind == "instant-error-at-step" {
		kind += ":" + errorClass(d.Detail)
	}
	hn := min
	if d.Detail == noAnswer && len(min.Matchers) > 0 {
		// not minimised (see above): the matchers were not shown to be necessary
		k := *min
		k.Matchers = nil
		hn = &k
	}
	sig := kind + "|" + mode + "|" + hn.Head() + "|" + hn.Shape()
	// one data-shape prefix, the most specific input class first
	switch {
	case twoShards(min, mode, p):
		// some selector's window reaches across a shard-group boundary
		sig = "two-shard-window|" + sig
	case windowCovers(min, mode, p, r.set.Seam):
		// a window covers the flush point (older samples in a file, newer in the memtable)
		sig = "file-memtable-seam|" + sig
	case mode != "instant" && rangeBelowStep(min, p):
		// windows of a range function do not tile the range query (range < step)
		sig = "range<step|" + sig
	case r.nanInfInWindow(min, mode, p):
		// a NaN or +/-Inf sample lies in a window the expression reads, or the expression
		// divides by a vector or by 0 / raises to a negative power / raises a negative number
		// to a vector (NaN or Inf are computed)
		sig = "nan-inf-in-window|" + sig
	}
	ms := map[string]struct{}{}
	min.metrics(ms)
	var series []*SeriesData
	for _, s := range r.set.Series {
		if _, ok := ms[s.Metric()]; ok {
			series = append(series, s)
		}
	}
	w := witness{Set: r.set.Index, SetT0: r.set.T0, SetEnd: r.set.End, Ingest: r.ingest, Mode: mode, Expr: min.String(), Node: min, Params: p, Diff: d.Kind + ": " + d.Detail,
		Expected: want.render(30), Got: got.render(30), Series: toWire(series), Signature: sig}
	if full != min {
		w.FullExpr = full.String()
	}
	what := fmt.Sprintf("%s query %s (%s): %s: %s", mode, min.String(), paramStr(mode, p), d.Kind, d.Detail)
	known := r.c.Violation(sig, what, w)
	r.c.Count("disagreements", 1)
	if known {
		r.c.Count("disagreements-known", 1)
	}
	if os.Getenv("C18_DEBUG") != "" {
		fmt.Printf("DIFF set=%d ingest=%s %s\n  sig: %s\n  full: %s\n  expected: %s\n  got: %s\n", r.set.Index, r.ingest, what, sig, full.String(),
			strings.Join(want.render(6), "\n            "), strings.Join(got.render(6), "\n            "))
	}
}

// twoShards reports whether a data window of the expression (range or look-back, shifted
// by the offset) contains the shard-group boundary for some evaluation step.
func twoShards(n *Node, mode string, p EvalParams) bool {
	return windowCovers(n, mode, p, shardBoundary)
}

// windowCovers: some selector's window (range or look-back, shifted by the offset)
// contains the instant at for some evaluation step.
func windowCovers(n *Node, mode string, p EvalParams, at int64) bool {
	if at == 0 {
		return false
	}
	var ws [][2]int64
	n.windows(&ws)
	from, to := p.Instant, p.Instant
	if mode != "instant" {
		from, to = p.Start, p.End
	}
	for _, w := range ws {
		if from-w[0] < at && at <= to-w[1] {
			return true
		}
	}
	return false
}

// nanInfInWindow: a series of a metric the expression selects has a NaN (not a staleness
// marker) or infinite sample inside a window of some evaluation step.
func (r *setRun) nanInfInWindow(n *Node, mode string, p EvalParams) bool {
	if n == nil {
		return false
	}
	if n.Kind == "sel" || n.Kind == "rfn" {
		w := lookbackMs
		if n.Kind == "rfn" {
			w = n.Range
		}
		from, to := p.Instant, p.Instant
		if mode != "instant" {
			from, to = p.Start, p.End
		}
		lo, hi := from-n.Offset-w, to-n.Offset
		for _, s := range r.set.byMetric[n.Metric] {
			for i, t := range s.T {
				if t >= lo && t <= hi && !isStale(s.V[i]) && (math.IsNaN(s.V[i]) || math.IsInf(s.V[i], 0)) {
					return true
				}
			}
		}
		return false
	}
	if n.Kind == "bin" {
		// computed NaN / Inf: division or modulo by a vector (samples can be 0), negative power
		if (n.Op == "/" || n.Op == "%") && (n.R.Kind != "num" || n.R.Val == 0) {
			return true
		}
		if n.Op == "^" && (n.R.Kind == "num" && n.R.Val < 0 || n.L.Kind == "num" && n.L.Val < 0) {
			return true
		}
	}
	return r.nanInfInWindow(n.Child, mode, p) || r.nanInfInWindow(n.L, mode, p) || r.nanInfInWindow(n.R, mode, p)
}

func rangeBelowStep(n *Node, p EvalParams) bool {
	if n == nil {
		return false
	}
	if n.Kind == "rfn" && n.Range < p.Step {
		return true
	}
	return rangeBelowStep(n.Child, p) || rangeBelowStep(n.L, p) || rangeBelowStep(n.R, p)
}

func paramStr(mode string, p EvalParams) string {
	if mode == "instant" {
		return "time=" + msStr(p.Instant)
	}
	return fmt.Sprintf("start=%s end=%s step=%s", msStr(p.Start), msStr(p.End), msStr(p.Step))
}

// replay re-executes the case of a witness file: same samples, same (minimal) expression,
// same mode and parameters.
func replay(c *vf.Ctx, bin string) {
	b, err := os.ReadFile(c.ReplayIn)
	if err != nil {
		c.Broken("replay: %v", err)
		return
	}
	var f struct {
		Witness witness `json:"witness"`
	}
	if err := json.Unmarshal(b, &f); err != nil || f.Witness.Node == nil {
		c.Broken("replay: witness unreadable: %v", err)
		return
	}
	w := f.Witness
	series, err := fromWire(w.Series)
	if err != nil {
		c.Broken("replay: %v", err)
		return
	}
	set := &SampleSet{Index: w.Set, Series: series, times: map[int64]struct{}{}, byMetric: map[string][]*SeriesData{}}
	for _, s := range series {
		set.byMetric[s.Metric()] = append(set.byMetric[s.Metric()], s)
		for _, t := range s.T {
			set.times[t] = struct{}{}
			if set.T0 == 0 || t < set.T0 {
				set.T0 = t
			}
			if t > set.End {
				set.End = t
			}
		}
	}
	if w.SetT0 != 0 && w.SetEnd != 0 {
		set.T0, set.End = w.SetT0, w.SetEnd // same request windows and flush point as the original run
	}
	box, err := startServer(c, bin, 0)
	if err != nil {
		c.Broken("replay: server: %v", err)
		return
	}
	s := box.s
	defer s.Kill()
	ref, err := newRef(filepath.Join(c.Scratch, "ref-replay"))
	if err != nil {
		c.Broken("replay: %v", err)
		return
	}
	defer ref.close()
	if err := ref.load(series); err != nil {
		c.Broken("replay: %v", err)
		return
	}
	run := &setRun{c: c, set: set, ref: ref, og: &og{b: box, s: s, db: "promreplay"}, ingest: w.Ingest}
	if run.ingest == "" {
		run.ingest = "one-request/memtable"
	}
	if !run.load() {
		return
	}
	box.onUp = run.waitVisible
	c.Eval(1)
	want, got, d := run.evalMode(w.Node, w.Mode, w.Params)
	if d == nil {
		fmt.Printf("REPLAY property=C18 no difference any more for %s query %s\n", w.Mode, w.Node.String())
		return
	}
	run.report(w.Node, w.Node, w.Mode, w.Params, d, want, got)
}
