package main

import (
	"fmt"
	"math"
	"sort"
	"strconv"
	"strings"
)

// staleBits is Prometheus' staleness marker (model/value.StaleNaN).
const staleBits uint64 = 0x7ff0000000000002

func staleNaN() float64 { return math.Float64frombits(staleBits) }
func isStale(v float64) bool {
	return math.Float64bits(v) == staleBits
}

// SeriesData is one ingested series: labels (with __name__), sample times (ms) and values.
type SeriesData struct {
	Labels map[string]string
	Kind   string // counter | gauge | special | small
	Shape  []string
	T      []int64
	V      []float64
}

func (s *SeriesData) Metric() string { return s.Labels["__name__"] }

// wireSeries is the JSON form (floats as strings so that NaN/Inf/stale survive).
type wireSeries struct {
	Labels map[string]string `json:"labels"`
	Kind   string            `json:"kind"`
	T      []int64           `json:"t_ms"`
	V      []string          `json:"v"`
}

func fstr(v float64) string {
	if isStale(v) {
		return "stale"
	}
	return strconv.FormatFloat(v, 'g', -1, 64)
}

func fparse(s string) (float64, error) {
	if s == "stale" {
		return staleNaN(), nil
	}
	return strconv.ParseFloat(s, 64)
}

func toWire(ss []*SeriesData) []wireSeries {
	out := make([]wireSeries, 0, len(ss))
	for _, s := range ss {
		w := wireSeries{Labels: s.Labels, Kind: s.Kind, T: s.T}
		for _, v := range s.V {
			w.V = append(w.V, fstr(v))
		}
		out = append(out, w)
	}
	return out
}

func fromWire(ws []wireSeries) ([]*SeriesData, error) {
	var out []*SeriesData
	for _, w := range ws {
		s := &SeriesData{Labels: w.Labels, Kind: w.Kind, T: w.T}
		if len(w.T) != len(w.V) {
			return nil, fmt.Errorf("witness series with %d times and %d values", len(w.T), len(w.V))
		}
		for _, x := range w.V {
			v, err := fparse(x)
			if err != nil {
				return nil, err
			}
			s.V = append(s.V, v)
		}
		out = append(out, s)
	}
	return out, nil
}

// Pt is one result sample.
type Pt struct {
	T int64 // ms
	V float64
}

// RSeries is one result series.
type RSeries struct {
	Labels map[string]string
	Pts    []Pt
}

// Result of a PromQL evaluation in a form common to both engines.
type Result struct {
	Type   string // vector | matrix | scalar | string
	Series []RSeries
	Err    string // non-empty: the engine answered with an error
}

func labelKey(m map[string]string) string {
	ks := make([]string, 0, len(m))
	for k := range m {
		ks = append(ks, k)
	}
	sort.Strings(ks)
	var b strings.Builder
	b.WriteByte('{')
	for i, k := range ks {
		if i > 0 {
			b.WriteByte(',')
		}
		b.WriteString(k)
		b.WriteByte('=')
		b.WriteString(strconv.Quote(m[k]))
	}
	b.WriteByte('}')
	return b.String()
}

func (r *Result) points() int {
	n := 0
	for _, s := range r.Series {
		n += len(s.Pts)
	}
	return n
}

// render is a compact, JSON-safe text form for witnesses.
func (r *Result) render(max int) []string {
	if r == nil {
		return nil
	}
	if r.Err != "" {
		return []string{"error: " + r.Err}
	}
	out := []string{"type=" + r.Type}
	ss := append([]RSeries{}, r.Series...)
	sort.Slice(ss, func(i, j int) bool { return labelKey(ss[i].Labels) < labelKey(ss[j].Labels) })
	for _, s := range ss {
		var b strings.Builder
		b.WriteString(labelKey(s.Labels))
		for i, p := range s.Pts {
			if i >= 40 {
				b.WriteString(" …")
				break
			}
			fmt.Fprintf(&b, " %s@%s", fstr(p.V), msStr(p.T))
		}
		out = append(out, b.String())
		if len(out) > max {
			out = append(out, "…")
			break
		}
	}
	return out
}

// msStr renders a millisecond timestamp as seconds with exactly three decimals (the form
// sent to the HTTP API: no float rounding involved).
func msStr(ms int64) string {
	neg := ""
	if ms < 0 {
		neg = "-"
		ms = -ms
	}
	return fmt.Sprintf("%s%d.%03d", neg, ms/1000, ms%1000)
}
