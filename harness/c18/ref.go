package main

import (
	"context"
	"fmt"
	"os"
	"sort"
	"time"

	"github.com/prometheus/prometheus/model/labels"
	"github.com/prometheus/prometheus/promql"
	"github.com/prometheus/prometheus/storage"
	"github.com/prometheus/prometheus/tsdb"
)

const lookbackDelta = 5 * time.Minute

// refEngine is the upstream Prometheus query engine (module cache, v0.50.1) over a tsdb
// head loaded with the same samples — the construction of util/teststorage, with the
// directory under the check's scratch area instead of /tmp.
type refEngine struct {
	db  *tsdb.DB
	eng *promql.Engine
	dir string
}

func newRef(dir string) (*refEngine, error) {
	_ = os.RemoveAll(dir)
	if err := os.MkdirAll(dir, 0o755); err != nil {
		return nil, err
	}
	opts := tsdb.DefaultOptions()
	opts.MinBlockDuration = int64(24 * time.Hour / time.Millisecond)
	opts.MaxBlockDuration = int64(24 * time.Hour / time.Millisecond)
	opts.RetentionDuration = 0
	db, err := tsdb.Open(dir, nil, nil, opts, tsdb.NewDBStats())
	if err != nil {
		return nil, err
	}
	eng := promql.NewEngine(promql.EngineOpts{
		MaxSamples:           50_000_000,
		Timeout:              2 * time.Minute,
		LookbackDelta:        lookbackDelta,
		EnableAtModifier:     true,
		EnableNegativeOffset: true,
	})
	return &refEngine{db: db, eng: eng, dir: dir}, nil
}

func (r *refEngine) close() {
	if r.db != nil {
		_ = r.db.Close()
	}
	_ = os.RemoveAll(r.dir)
}

// load appends every series (samples in time order, one series after the other, as the
// promql test loader does).
func (r *refEngine) load(ss []*SeriesData) error {
	for _, s := range ss {
		app := r.db.Appender(context.Background())
		ls := labels.FromMap(s.Labels)
		var ref storage.SeriesRef
		for i := range s.T {
			var err error
			ref, err = app.Append(ref, ls, s.T[i], s.V[i])
			if err != nil {
				_ = app.Rollback()
				return fmt.Errorf("reference append %s t=%d: %w", ls, s.T[i], err)
			}
		}
		if err := app.Commit(); err != nil {
			return err
		}
	}
	return nil
}

func (r *refEngine) instant(expr string, tms int64) *Result {
	q, err := r.eng.NewInstantQuery(context.Background(), r.db, nil, expr, time.UnixMilli(tms))
	if err != nil {
		return &Result{Err: err.Error()}
	}
	defer q.Close()
	return convertRef(q.Exec(context.Background()))
}

func (r *refEngine) rangeQ(expr string, start, end, stepMs int64) *Result {
	q, err := r.eng.NewRangeQuery(context.Background(), r.db, nil, expr, time.UnixMilli(start), time.UnixMilli(end),
		time.Duration(stepMs)*time.Millisecond)
	if err != nil {
		return &Result{Err: err.Error()}
	}
	defer q.Close()
	return convertRef(q.Exec(context.Background()))
}

func convertRef(res *promql.Result) *Result {
	if res.Err != nil {
		return &Result{Err: res.Err.Error()}
	}
	out := &Result{}
	switch v := res.Value.(type) {
	case promql.Vector:
		out.Type = "vector"
		for _, s := range v {
			if s.H != nil {
				return &Result{Err: "reference returned a histogram sample"}
			}
			out.Series = append(out.Series, RSeries{Labels: s.Metric.Map(), Pts: []Pt{{s.T, s.F}}})
		}
	case promql.Matrix:
		out.Type = "matrix"
		for _, s := range v {
			rs := RSeries{Labels: s.Metric.Map()}
			for _, p := range s.Floats {
				rs.Pts = append(rs.Pts, Pt{p.T, p.F})
			}
			out.Series = append(out.Series, rs)
		}
	case promql.Scalar:
		out.Type = "scalar"
		out.Series = []RSeries{{Labels: map[string]string{}, Pts: []Pt{{v.T, v.V}}}}
	case promql.String:
		out.Type = "string"
	default:
		return &Result{Err: fmt.Sprintf("reference returned %T", res.Value)}
	}
	sort.Slice(out.Series, func(i, j int) bool { return labelKey(out.Series[i].Labels) < labelKey(out.Series[j].Labels) })
	return out
}
