package main

import (
	"bytes"
	"encoding/json"
	"fmt"
	"io"
	"math"
	"net/http"
	"net/url"
	"sort"
	"strconv"
	"strings"
	"sync"
	"sync/atomic"
	"time"

	"golang.org/x/sys/unix"

	"github.com/golang/snappy"
	"github.com/prometheus/prometheus/prompb"

	"verifharness/proc"
)

// srvBox is one ts-server shared by the goroutines of a worker. Queries hold the read
// lock; a query that gets no answer makes its goroutine kill and restart the server
// (write lock), because such a query keeps allocating inside the server.
type srvBox struct {
	mu       sync.RWMutex
	s        *proc.Server
	gen      int
	restarts int
	dead     bool
	onUp     func() bool // re-establishes visibility after a restart
}

const serverMemCap = 10 << 30 // RLIMIT_AS of a ts-server: a runaway query must not take the machine

func (b *srvBox) limit() {
	if pid := b.s.Pid(); pid > 0 {
		lim := unix.Rlimit{Cur: serverMemCap, Max: serverMemCap}
		_ = unix.Prlimit(pid, unix.RLIMIT_AS, &lim, nil)
	}
}

// restart kills and restarts the server unless another goroutine already did (gen).
func (b *srvBox) restart(gen int) {
	b.mu.Lock()
	defer b.mu.Unlock()
	if b.gen != gen || b.dead {
		return
	}
	b.gen++
	b.restarts++
	t0 := time.Now()
	defer func() {
		fmt.Printf("C18: ts-server restarted after an unanswered query (restart %d, %.1fs, ok=%v)\n", b.restarts, time.Since(t0).Seconds(), !b.dead)
	}()
	b.s.Kill()
	if b.restarts > 40 {
		b.dead = true
		return
	}
	if err := b.s.Start(); err != nil {
		b.dead = true
		return
	}
	b.limit()
	if err := b.s.WaitReady(120 * time.Second); err != nil {
		b.s.Kill()
		b.dead = true
		return
	}
	if b.onUp != nil && !b.onUp() {
		b.dead = true
	}
}

// og is the client of one openGemini database through the Prometheus-compatible API.
type og struct {
	b  *srvBox
	s  *proc.Server
	db string
}

// remoteWrite sends the series through POST /api/v1/write (snappy prompb.WriteRequest).
func (o *og) remoteWrite(ss []*SeriesData) error {
	var req prompb.WriteRequest
	for _, s := range ss {
		ts := prompb.TimeSeries{}
		names := make([]string, 0, len(s.Labels))
		for k := range s.Labels {
			names = append(names, k)
		}
		sort.Strings(names)
		for _, k := range names {
			ts.Labels = append(ts.Labels, prompb.Label{Name: k, Value: s.Labels[k]})
		}
		for i := range s.T {
			ts.Samples = append(ts.Samples, prompb.Sample{Timestamp: s.T[i], Value: s.V[i]})
		}
		if len(ts.Samples) > 0 {
			req.Timeseries = append(req.Timeseries, ts)
		}
	}
	if len(req.Timeseries) == 0 {
		return nil
	}
	raw, err := req.Marshal()
	if err != nil {
		return err
	}
	body := snappy.Encode(nil, raw)
	hreq, _ := http.NewRequest("POST", o.s.URL()+"/api/v1/write?db="+url.QueryEscape(o.db), bytes.NewReader(body))
	hreq.Header.Set("Content-Encoding", "snappy")
	hreq.Header.Set("Content-Type", "application/x-protobuf")
	resp, err := o.s.HTTP.Do(hreq)
	if err != nil {
		return err
	}
	defer resp.Body.Close()
	b, _ := io.ReadAll(resp.Body)
	if resp.StatusCode != 204 {
		return fmt.Errorf("remote write: status %d: %s", resp.StatusCode, strings.TrimSpace(string(b)))
	}
	return nil
}

type promResp struct {
	Status    string `json:"status"`
	ErrorType string `json:"errorType"`
	Error     string `json:"error"`
	Data      struct {
		ResultType string          `json:"resultType"`
		Result     json.RawMessage `json:"result"`
	} `json:"data"`
}

// transportError marks a failure of the HTTP exchange itself (not an answer of the API).
type transportError struct{ err error }

func (t transportError) Error() string { return t.err.Error() }

const (
	queryTimeout = 20 * time.Second
	maxBody      = 64 << 20
)

var queryClient = &http.Client{Transport: &http.Transport{MaxIdleConnsPerHost: 16}, Timeout: queryTimeout}

// get performs one API call. An answer that does not arrive within queryTimeout or is
// larger than maxBody is returned as an error *answer* (Result.Err) with a fixed text, so
// that it is judged like any other wrong answer; connection-level failures are retried
// and finally returned as transportError.
func (o *og) get(path string, v url.Values) (*Result, error) {
	res, gen, err := o.get1(path, v)
	if err == nil && res.Err == noAnswer && o.b != nil {
		o.b.restart(gen)
		// a wall-clock deadline is no verdict on a loaded machine: the same call is made once more
		// against the restarted server; only a call that goes unanswered twice counts as unanswered
		res2, gen2, err2 := o.get1(path, v)
		if err2 == nil && res2.Err == noAnswer {
			o.b.restart(gen2)
			return res2, nil
		}
		if err2 == nil {
			atomic.AddInt64(&answeredOnSecondAsking, 1)
			return res2, nil
		}
	}
	return res, err
}

// answeredOnSecondAsking counts calls that went unanswered once and were answered when made
// again after the restart (reported in the evidence, not gating).
var answeredOnSecondAsking int64

func (o *og) get1(path string, v url.Values) (*Result, int, error) {
	gen := 0
	if o.b != nil {
		o.b.mu.RLock()
		defer o.b.mu.RUnlock()
		gen = o.b.gen
		if o.b.dead {
			return nil, gen, transportError{fmt.Errorf("server given up after repeated restarts")}
		}
	}
	r, err := o.get0(path, v)
	if err != nil && o.b != nil && !o.s.Alive() {
		// the server died while answering (e.g. out of memory under the address-space cap)
		return &Result{Err: noAnswer}, gen, nil
	}
	return r, gen, err
}

func (o *og) get0(path string, v url.Values) (*Result, error) {
	v.Set("db", o.db)
	var lastErr error
	for attempt := 0; attempt < 3; attempt++ {
		resp, err := queryClient.Get(o.s.URL() + path + "?" + v.Encode())
		if err != nil {
			if ue, ok := err.(*url.Error); ok && ue.Timeout() {
				return &Result{Err: noAnswer}, nil
			}
			if !o.s.Alive() {
				return nil, transportError{err}
			}
			lastErr = err
			time.Sleep(200 * time.Millisecond)
			continue
		}
		b, err := io.ReadAll(io.LimitReader(resp.Body, maxBody+1))
		resp.Body.Close()
		if err != nil {
			if strings.Contains(err.Error(), "Timeout") || strings.Contains(err.Error(), "deadline") {
				return &Result{Err: noAnswer}, nil
			}
			lastErr = err
			continue
		}
		if len(b) > maxBody {
			return &Result{Err: oversized}, nil
		}
		return decodeProm(resp.StatusCode, b)
	}
	return nil, transportError{lastErr}
}

const (
	noAnswer  = "harness: no answer within 20s (or the server died answering); server killed and restarted"
	oversized = "harness: response larger than 64 MiB"
)

func (o *og) instant(expr string, tms int64) (*Result, error) {
	return o.get("/api/v1/query", url.Values{"query": {expr}, "time": {msStr(tms)}})
}

func (o *og) rangeQ(expr string, start, end, stepMs int64) (*Result, error) {
	return o.get("/api/v1/query_range", url.Values{"query": {expr}, "start": {msStr(start)}, "end": {msStr(end)}, "step": {msStr(stepMs)}})
}

func decodeProm(status int, b []byte) (*Result, error) {
	var pr promResp
	dec := json.NewDecoder(bytes.NewReader(b))
	dec.UseNumber()
	if err := dec.Decode(&pr); err != nil {
		return nil, fmt.Errorf("status %d: undecodable body %.300q: %v", status, b, err)
	}
	if pr.Status != "success" {
		msg := pr.Error
		if msg == "" {
			msg = fmt.Sprintf("status %d: %.200s", status, b)
		}
		return &Result{Err: msg}, nil
	}
	out := &Result{Type: pr.Data.ResultType}
	type item struct {
		Metric map[string]string   `json:"metric"`
		Value  []json.RawMessage   `json:"value"`
		Values [][]json.RawMessage `json:"values"`
	}
	switch pr.Data.ResultType {
	case "vector", "matrix":
		var items []item
		if len(pr.Data.Result) > 0 && string(pr.Data.Result) != "null" {
			d := json.NewDecoder(bytes.NewReader(pr.Data.Result))
			d.UseNumber()
			if err := d.Decode(&items); err != nil {
				return nil, fmt.Errorf("undecodable result %.300q: %v", pr.Data.Result, err)
			}
		}
		for _, it := range items {
			rs := RSeries{Labels: it.Metric}
			if rs.Labels == nil {
				rs.Labels = map[string]string{}
			}
			if pr.Data.ResultType == "vector" {
				p, err := decodePoint(it.Value)
				if err != nil {
					return nil, err
				}
				rs.Pts = []Pt{p}
			} else {
				for _, pv := range it.Values {
					p, err := decodePoint(pv)
					if err != nil {
						return nil, err
					}
					rs.Pts = append(rs.Pts, p)
				}
			}
			out.Series = append(out.Series, rs)
		}
	case "scalar":
		var pv []json.RawMessage
		if err := json.Unmarshal(pr.Data.Result, &pv); err != nil {
			return nil, fmt.Errorf("undecodable scalar %.300q: %v", pr.Data.Result, err)
		}
		p, err := decodePoint(pv)
		if err != nil {
			return nil, err
		}
		out.Series = []RSeries{{Labels: map[string]string{}, Pts: []Pt{p}}}
	case "string":
	default:
		return nil, fmt.Errorf("unknown resultType %q in %.300q", pr.Data.ResultType, b)
	}
	return out, nil
}

func decodePoint(pv []json.RawMessage) (Pt, error) {
	if len(pv) != 2 {
		return Pt{}, fmt.Errorf("sample with %d elements", len(pv))
	}
	tf, err := strconv.ParseFloat(strings.Trim(string(pv[0]), `"`), 64)
	if err != nil {
		return Pt{}, fmt.Errorf("timestamp %s: %v", pv[0], err)
	}
	var vs string
	if err := json.Unmarshal(pv[1], &vs); err != nil {
		return Pt{}, fmt.Errorf("value %s: %v", pv[1], err)
	}
	v, err := strconv.ParseFloat(vs, 64)
	if err != nil {
		return Pt{}, fmt.Errorf("value %q: %v", vs, err)
	}
	return Pt{T: int64(math.Round(tf * 1000)), V: v}, nil
}
