package main

import (
	"fmt"
	"math"
	"math/rand/v2"
	"regexp"
	"sort"
	"strconv"
	"strings"
)

// Matcher of a vector selector.
type Matcher struct {
	Label string `json:"label"`
	Op    string `json:"op"` // = != =~ !~
	Value string `json:"value"`
	// data shape of the matcher, computed when it is generated:
	// LabelOn: "all-series" | "some-series" | "no-series" of the metric family carry the label
	// Empty:   "matches-empty" | "rejects-empty" (does the matcher accept an absent label)
	// VClass:  kind of value / regular expression
	LabelOn string `json:"label_on,omitempty"`
	Empty   string `json:"empty,omitempty"`
	VClass  string `json:"value_class,omitempty"`
	// Unanchored: the regular expression matches a proper substring of some value of the
	// label but not the whole value (anchoring matters)
	Unanchored bool `json:"unanchored_differs,omitempty"`
}

// Desc is the abstract form of the matcher used in shapes and finding signatures.
// The most significant property comes first so that a family of findings is a prefix.
func (m Matcher) Desc() string {
	switch {
	case m.LabelOn == "no-series":
		return "label-on-no-series/" + m.Empty + " " + m.Op + m.VClass
	case m.Value == "":
		return "empty-value " + m.Op + " label-on-" + m.LabelOn
	case m.Unanchored:
		return "regex-unanchored-differs " + m.Op + m.VClass + " label-on-" + m.LabelOn + "/" + m.Empty
	}
	return m.Op + m.VClass + " label-on-" + m.LabelOn + "/" + m.Empty
}

// Node is an expression of the generated PromQL subset.
type Node struct {
	Kind string `json:"kind"` // sel | rfn | agg | bin | num

	// sel (and the selector inside rfn)
	Metric   string    `json:"metric,omitempty"`
	MKind    string    `json:"mkind,omitempty"` // value kind of the metric family (data shape)
	Matchers []Matcher `json:"matchers,omitempty"`
	Offset   int64     `json:"offset_ms,omitempty"`

	// rfn
	Fn    string  `json:"fn,omitempty"`
	Range int64   `json:"range_ms,omitempty"`
	Param float64 `json:"param,omitempty"` // quantile_over_time / quantile

	// agg
	Op       string   `json:"op,omitempty"`
	Grouping string   `json:"grouping,omitempty"` // "" | by | without
	Labels   []string `json:"labels,omitempty"`
	Child    *Node    `json:"child,omitempty"`

	// bin (Op, Bool, L, R, matching)
	Bool     bool     `json:"bool,omitempty"`
	L        *Node    `json:"l,omitempty"`
	R        *Node    `json:"r,omitempty"`
	Match    string   `json:"match,omitempty"` // "" | on | ignoring
	MatchLbl []string `json:"match_labels,omitempty"`

	// num
	Val float64 `json:"val,omitempty"`

	// Paren: the node is written inside (redundant) parentheses
	Paren bool `json:"paren,omitempty"`
}

func durStr(ms int64) string {
	neg := ""
	if ms < 0 {
		neg = "-"
		ms = -ms
	}
	if ms%1000 == 0 {
		return fmt.Sprintf("%s%ds", neg, ms/1000)
	}
	return fmt.Sprintf("%s%dms", neg, ms)
}

func (n *Node) selString(withRange bool) string {
	var b strings.Builder
	b.WriteString(n.Metric)
	if len(n.Matchers) > 0 {
		b.WriteByte('{')
		for i, m := range n.Matchers {
			if i > 0 {
				b.WriteByte(',')
			}
			b.WriteString(m.Label + m.Op + strconv.Quote(m.Value))
		}
		b.WriteByte('}')
	}
	if withRange {
		b.WriteString("[" + durStr(n.Range) + "]")
	}
	if n.Offset != 0 {
		b.WriteString(" offset " + durStr(n.Offset))
	}
	return b.String()
}

func numStr(v float64) string { return strconv.FormatFloat(v, 'g', -1, 64) }

func isCmp(op string) bool {
	switch op {
	case "==", "!=", ">", "<", ">=", "<=":
		return true
	}
	return false
}

// String renders PromQL text.
func (n *Node) String() string {
	if n.Paren {
		k := *n
		k.Paren = false
		return "(" + k.String() + ")"
	}
	switch n.Kind {
	case "sel":
		return n.selString(false)
	case "rfn":
		if n.Fn == "quantile_over_time" {
			return fmt.Sprintf("%s(%s, %s)", n.Fn, numStr(n.Param), n.selString(true))
		}
		return fmt.Sprintf("%s(%s)", n.Fn, n.selString(true))
	case "agg":
		g := ""
		if n.Grouping != "" {
			g = " " + n.Grouping + " (" + strings.Join(n.Labels, ", ") + ")"
		}
		if n.Op == "quantile" {
			return fmt.Sprintf("%s%s (%s, %s)", n.Op, g, numStr(n.Param), n.Child.String())
		}
		return fmt.Sprintf("%s%s (%s)", n.Op, g, n.Child.String())
	case "bin":
		op := n.Op
		if n.Bool {
			op += " bool"
		}
		if n.Match != "" {
			op += " " + n.Match + "(" + strings.Join(n.MatchLbl, ", ") + ")"
		}
		l, r := n.L.String(), n.R.String()
		if n.L.Kind == "bin" && !n.L.Paren {
			l = "(" + l + ")"
		}
		if n.R.Kind == "bin" && !n.R.Paren {
			r = "(" + r + ")"
		}
		return fmt.Sprintf("%s %s %s", l, op, r)
	case "num":
		return numStr(n.Val)
	}
	return "?"
}

// Shape abstracts literals away: function / operator names, grouping kind, matcher kinds
// (with the data shape "label absent from the family"), modifiers, redundant parentheses
// and the value kind of the selected metric family stay. It is the "function/operator ×
// data shape" part of finding signatures.
func (n *Node) Shape() string {
	if n.Paren {
		k := *n
		k.Paren = false
		return "paren(" + k.Shape() + ")"
	}
	sel := func(withRange bool) string {
		ops := []string{}
		for _, m := range n.Matchers {
			ops = append(ops, m.Desc())
		}
		sort.Strings(ops)
		s := "<" + n.MKind + ">"
		if len(ops) > 0 {
			s += "{" + strings.Join(ops, ",") + "}"
		}
		if withRange {
			s += "[r]"
		}
		if n.Offset > 0 {
			s += " offset +"
		} else if n.Offset < 0 {
			s += " offset -"
		}
		return s
	}
	switch n.Kind {
	case "sel":
		return sel(false)
	case "rfn":
		return n.Fn + "(" + sel(true) + ")"
	case "agg":
		g := ""
		if n.Grouping != "" {
			g = " " + n.Grouping
			if len(n.Labels) == 0 {
				g += "()"
			}
		}
		return n.Op + g + " (" + n.Child.Shape() + ")"
	case "bin":
		op := n.Op
		if n.Bool {
			op += " bool"
		}
		if n.Match != "" {
			op += " " + n.Match
		}
		l, r := n.L.Shape(), n.R.Shape()
		if n.L.Kind == "bin" && !n.L.Paren {
			l = "paren(" + l + ")"
		}
		if n.R.Kind == "bin" && !n.R.Paren {
			r = "paren(" + r + ")"
		}
		return l + " " + op + " " + r
	case "num":
		return "scalar"
	}
	return "?"
}

// Head names the construct a (minimal) disagreeing expression is about: the matchers if
// any survived minimisation (they are then necessary for the disagreement), else the
// function / aggregation over its operand kind / binary operation with operand kinds.
func (n *Node) Head() string {
	kinds := func(k *Node) string {
		set := map[string]struct{}{}
		k.mkinds(set)
		ks := make([]string, 0, len(set))
		for x := range set {
			ks = append(ks, x)
		}
		sort.Strings(ks)
		return "<" + strings.Join(ks, ",") + ">"
	}
	short := func(k *Node) string {
		p := ""
		if k.Paren {
			p = "paren "
		}
		switch k.Kind {
		case "sel":
			if k.Offset != 0 {
				return p + "selector offset" + kinds(k)
			}
			return p + "selector" + kinds(k)
		case "rfn":
			if k.Offset != 0 {
				return p + "range-function offset" + kinds(k)
			}
			return p + "range-function" + kinds(k)
		case "agg":
			g := k.Grouping
			if g == "" {
				g = "all"
			}
			return p + "aggregation-" + g + kinds(k)
		case "bin":
			c := "arithmetic"
			if isCmp(k.Op) {
				c = "comparison"
				if k.Bool {
					c = "bool-comparison"
				}
			}
			if k.Match != "" {
				c += " " + k.Match
			} else if k.L.Kind != "num" && k.R.Kind != "num" {
				c += " vector-vector"
			}
			return "paren " + c + kinds(k)
		case "num":
			return "scalar"
		}
		return "?"
	}
	switch n.Kind {
	case "sel", "rfn":
		if len(n.Matchers) > 0 {
			ds := []string{}
			for _, m := range n.Matchers {
				ds = append(ds, m.Desc())
			}
			sort.Strings(ds)
			return "matcher{" + strings.Join(ds, ",") + "}"
		}
		if n.Kind == "sel" {
			return short(n)
		}
		return short(n) + ":" + n.Fn
	case "agg":
		g := ""
		if n.Grouping != "" {
			g = " " + n.Grouping
		}
		switch {
		case n.Child.Kind == "sel" && n.Child.Offset != 0:
			return "aggregation over offset-selector: " + n.Op + g + " of " + short(n.Child)
		case n.Child.Kind == "bin" && n.Child.L.Kind != "num" && n.Child.R.Kind != "num":
			return "aggregation over vector-matching: " + n.Op + g + " of " + short(n.Child)
		}
		return "aggregation " + n.Op + " of " + short(n.Child) + g
	case "bin":
		op := n.Op
		if n.Bool {
			op += " bool"
		}
		if n.L.Kind != "num" && n.R.Kind != "num" {
			m := n.Match
			if m == "" {
				m = "default"
			}
			return "vector-matching " + m + ": " + short(n.L) + "," + short(n.R) + ":" + op
		}
		return "binary " + short(n.L) + "," + short(n.R) + ":" + op
	}
	return short(n)
}

func (n *Node) mkinds(into map[string]struct{}) {
	if n == nil {
		return
	}
	if n.MKind != "" {
		into[n.MKind] = struct{}{}
	}
	n.Child.mkinds(into)
	n.L.mkinds(into)
	n.R.mkinds(into)
}

// windows lists, for every selector of the expression, how far back its data window
// reaches (range or look-back, plus offset) and where it ends (offset), in ms before the
// evaluation time.
func (n *Node) windows(into *[][2]int64) {
	if n == nil {
		return
	}
	switch n.Kind {
	case "sel":
		*into = append(*into, [2]int64{n.Offset + lookbackMs, n.Offset})
	case "rfn":
		*into = append(*into, [2]int64{n.Offset + n.Range, n.Offset})
	}
	n.Child.windows(into)
	n.L.windows(into)
	n.R.windows(into)
}

// Kids returns the instant-vector sub-expressions (for minimisation of a disagreement).
func (n *Node) Kids() []*Node {
	switch n.Kind {
	case "rfn":
		k := *n
		k.Kind, k.Fn, k.Range, k.Paren = "sel", "", 0, false
		return []*Node{&k}
	case "agg":
		return []*Node{n.Child}
	case "bin":
		var out []*Node
		if n.L.Kind != "num" {
			out = append(out, n.L)
		}
		if n.R.Kind != "num" {
			out = append(out, n.R)
		}
		return out
	}
	return nil
}

// Simpler returns variants of the node with one detail removed (a matcher, the offset,
// redundant parentheses, the grouping clause, the bool modifier, a nested operand
// replaced by its own operand). The minimiser keeps a variant if it still disagrees.
func (n *Node) Simpler() []*Node {
	var out []*Node
	cp := func() *Node { k := *n; return &k }
	if n.Paren {
		k := cp()
		k.Paren = false
		out = append(out, k)
	}
	switch n.Kind {
	case "sel", "rfn":
		for i := range n.Matchers {
			k := cp()
			k.Matchers = append(append([]Matcher{}, n.Matchers[:i]...), n.Matchers[i+1:]...)
			out = append(out, k)
		}
		if n.Offset != 0 {
			k := cp()
			k.Offset = 0
			out = append(out, k)
		}
	case "agg":
		if n.Grouping != "" {
			k := cp()
			k.Grouping, k.Labels = "", nil
			out = append(out, k)
		}
		for _, c := range n.Child.Simpler() {
			k := cp()
			k.Child = c
			out = append(out, k)
		}
		for _, c := range n.Child.Kids() {
			k := cp()
			k.Child = c
			out = append(out, k)
		}
	case "bin":
		if n.Bool && !(n.L.Kind == "num" && n.R.Kind == "num") {
			k := cp()
			k.Bool = false
			out = append(out, k)
		}
		for _, c := range n.L.Simpler() {
			k := cp()
			k.L = c
			out = append(out, k)
		}
		for _, c := range n.R.Simpler() {
			k := cp()
			k.R = c
			out = append(out, k)
		}
		if n.Match == "" { // replacing an operand keeps one-to-one matching only without on/ignoring
			for _, c := range n.L.Kids() {
				k := cp()
				k.L = c
				out = append(out, k)
			}
			for _, c := range n.R.Kids() {
				k := cp()
				k.R = c
				out = append(out, k)
			}
		}
	}
	return out
}

// Constructs lists the construct tags of the expression (evidence: expressions by
// construct).
func (n *Node) Constructs(into map[string]struct{}) {
	if n.Paren {
		into["parentheses"] = struct{}{}
	}
	selTags := func() {
		for _, m := range n.Matchers {
			into["matcher:"+m.Op] = struct{}{}
			into["matcher-label-on-"+m.LabelOn] = struct{}{}
			if m.Unanchored {
				into["matcher-regex-where-anchoring-matters"] = struct{}{}
			}
			if m.Value == "" {
				into["matcher-empty-value"] = struct{}{}
			}
		}
		if n.Offset > 0 {
			into["offset"] = struct{}{}
		} else if n.Offset < 0 {
			into["offset:negative"] = struct{}{}
		}
	}
	switch n.Kind {
	case "sel":
		into["selector"] = struct{}{}
		selTags()
	case "rfn":
		into["fn:"+n.Fn] = struct{}{}
		selTags()
	case "agg":
		g := n.Grouping
		if g == "" {
			g = "all"
		}
		into["agg:"+n.Op+":"+g] = struct{}{}
		n.Child.Constructs(into)
	case "bin":
		class := "arith"
		if isCmp(n.Op) {
			class = "cmp"
		}
		side := "vector-vector"
		if n.R.Kind == "num" {
			side = "vector-scalar"
		} else if n.L.Kind == "num" {
			side = "scalar-vector"
		}
		tag := class + ":" + n.Op
		if n.Bool {
			tag += ":bool"
		}
		tag += ":" + side
		if n.Match != "" {
			tag += ":" + n.Match
		}
		into[tag] = struct{}{}
		if (n.L.Kind == "bin" && !n.L.Paren) || (n.R.Kind == "bin" && !n.R.Paren) {
			into["parentheses"] = struct{}{}
		}
		n.L.Constructs(into)
		n.R.Constructs(into)
	}
}

func (n *Node) metrics(into map[string]struct{}) {
	if n == nil {
		return
	}
	if n.Metric != "" {
		into[n.Metric] = struct{}{}
	}
	n.Child.metrics(into)
	n.L.metrics(into)
	n.R.metrics(into)
}

// ---- generator -------------------------------------------------------------------------

var (
	rangeFns = []string{"rate", "increase", "delta", "irate", "idelta",
		"sum_over_time", "avg_over_time", "min_over_time", "max_over_time", "count_over_time",
		"last_over_time", "stddev_over_time", "stdvar_over_time", "present_over_time",
		"quantile_over_time", "changes", "resets", "deriv"}
	aggOps   = []string{"sum", "avg", "min", "max", "count", "group", "stddev", "stdvar", "quantile"}
	arithOps = []string{"+", "-", "*", "/", "%", "^"}
	cmpOps   = []string{"==", "!=", ">", "<", ">=", "<="}
	ranges   = []int64{30000, 45000, 60000, 90000, 120000, 180000, 300000, 300000, 600000, 17000, 3600000}
	offsets  = []int64{15000, 30000, 60000, 300000, 7000, 600000, 90000}
	negOffs  = []int64{-30000, -120000, -15000}
	numbers  = []float64{2, 0.5, 100, 0, -1, 1000, 3, 10, 1, 600}
	quants   = []float64{0.5, 0.9, 0, 1, 0.25}
)

// disabled constructs (removed after calibration because openGemini answers with an
// explicit "not supported" error); filled by calibration, reported in evidence.
var unsupported = map[string]string{}

type gen struct {
	rng *rand.Rand
	set *SampleSet
	fam []family
}

func pick[T any](g *gen, xs []T) T { return xs[g.rng.IntN(len(xs))] }

func (g *gen) metric() (string, string) {
	for tries := 0; tries < 20; tries++ {
		f := pick(g, g.fam)
		if len(g.set.byMetric[f.metric]) > 0 {
			return f.metric, f.kind
		}
	}
	s := g.set.Series[0]
	return s.Metric(), s.Kind
}

// counterMetric prefers the counter family for rate-like functions (as a user would) but
// sometimes applies them to gauges too.
func (g *gen) metricFor(fn string) (string, string) {
	switch fn {
	case "rate", "increase", "irate", "resets":
		if g.rng.IntN(4) > 0 && len(g.set.byMetric["req_total"]) > 0 {
			return "req_total", "counter"
		}
	case "delta", "idelta", "deriv", "changes":
		if g.rng.IntN(4) > 0 {
			m := pick(g, []string{"mem_used", "queue_len", "temp_c"})
			if ss := g.set.byMetric[m]; len(ss) > 0 {
				return m, ss[0].Kind
			}
		}
	}
	return g.metric()
}

func (g *gen) matcher(metric string, op string) Matcher {
	lv := g.set.labelVals[metric]
	labels := make([]string, 0, len(lv)+1)
	for k := range lv {
		labels = append(labels, k)
	}
	sort.Strings(labels)
	l := pick(g, labels)
	if _, ok := lv[labelAbsentKey]; !ok && g.rng.IntN(12) == 0 {
		l = labelAbsentKey // a label no series of the family has
	}
	vals := lv[l]
	if op == "" {
		op = pick(g, []string{"=", "!=", "=~", "!~"})
	}
	var v string
	switch op {
	case "=", "!=":
		switch r := g.rng.IntN(20); {
		case r < 16 && len(vals) > 0:
			v = pick(g, vals)
		case r < 17:
			v = ""
		default:
			v = "nosuch"
		}
	default:
		cands := []string{".+", ".*", "nosuch|none"}
		if g.rng.IntN(4) == 0 {
			cands = append(cands, "")
		}
		for _, x := range vals {
			cands = append(cands, x, x[:1]+".*", ".*"+x[len(x)-1:], x+"|zzz")
			if len(x) > 1 && g.rng.IntN(12) == 0 {
				cands = append(cands, x[:len(x)-1], x[1:]) // proper prefix / suffix: anchoring matters
			}
		}
		if len(vals) >= 2 {
			cands = append(cands, vals[0]+"|"+vals[1], "("+vals[0]+"|"+vals[len(vals)-1]+")")
		}
		switch l {
		case "instance":
			cands = append(cands, "[ab]:80", ".*:80", "[^a].*")
		case "code":
			cands = append(cands, "5..", "2.+", "[0-9]+")
		case "room":
			cands = append(cands, "r[12]", "r[^1]")
		}
		v = pick(g, cands)
	}
	m := Matcher{Label: l, Op: op, Value: v}
	g.set.classify(metric, &m)
	return m
}

// classify fills the data-shape fields of a matcher against the sample set.
func (set *SampleSet) classify(metric string, m *Matcher) {
	have := 0
	for _, s := range set.byMetric[metric] {
		if _, ok := s.Labels[m.Label]; ok {
			have++
		}
	}
	switch {
	case have == 0:
		m.LabelOn = "no-series"
	case have == len(set.byMetric[metric]):
		m.LabelOn = "all-series"
	default:
		m.LabelOn = "some-series"
	}
	m.Empty = "rejects-empty"
	if matchesEmpty(*m) {
		m.Empty = "matches-empty"
	}
	v := m.Value
	switch m.Op {
	case "=", "!=":
		m.VClass = "value"
		if v == "" {
			m.VClass = "\"\""
		}
	default:
		switch {
		case v == "":
			m.VClass = "\"\""
		case v == ".*" || v == ".+":
			m.VClass = v
		case strings.Contains(v, "[^"):
			m.VClass = "negated-class"
		case strings.Contains(v, "["):
			m.VClass = "class"
		case strings.Contains(v, "|"):
			m.VClass = "alternation"
		case strings.Contains(v, "."):
			m.VClass = "wildcard"
		default:
			m.VClass = "literal"
		}
		if re, err := regexp.Compile(v); err == nil {
			full := regexp.MustCompile("^(?:" + v + ")$")
			for _, x := range set.labelVals[metric][m.Label] {
				if re.MatchString(x) != full.MatchString(x) {
					m.Unanchored = true
				}
			}
		}
	}
}

func matchesEmpty(m Matcher) bool {
	switch m.Op {
	case "=":
		return m.Value == ""
	case "!=":
		return m.Value != ""
	}
	re, err := regexp.Compile("^(?:" + m.Value + ")$")
	if err != nil {
		return false
	}
	if m.Op == "=~" {
		return re.MatchString("")
	}
	return !re.MatchString("")
}

func (g *gen) sel(metric, kind string, forceOp string) *Node {
	n := &Node{Kind: "sel", Metric: metric, MKind: kind}
	nm := []int{0, 0, 1, 1, 1, 2}[g.rng.IntN(6)]
	if forceOp != "" && nm == 0 {
		nm = 1
	}
	for i := 0; i < nm; i++ {
		op := ""
		if i == 0 {
			op = forceOp
		}
		n.Matchers = append(n.Matchers, g.matcher(metric, op))
	}
	if g.rng.IntN(6) == 0 {
		n.Offset = pick(g, offsets)
	} else if g.rng.IntN(25) == 0 {
		n.Offset = pick(g, negOffs)
	}
	return n
}

func (g *gen) rfn(fn string) *Node {
	if fn == "" {
		fn = pick(g, rangeFns)
	}
	m, k := g.metricFor(fn)
	n := g.sel(m, k, "")
	n.Kind, n.Fn, n.Range = "rfn", fn, pick(g, ranges)
	if fn == "quantile_over_time" {
		n.Param = pick(g, quants)
	}
	return n
}

func (g *gen) leaf() *Node {
	if g.rng.IntN(100) < 45 {
		m, k := g.metric()
		return g.sel(m, k, "")
	}
	return g.rfn("")
}

func (g *gen) groupLabels() []string {
	all := []string{"job", "instance", "code", "zone", "room"}
	n := []int{1, 1, 1, 2, 2, 0}[g.rng.IntN(6)]
	perm := g.rng.Perm(len(all))
	var out []string
	for _, i := range perm[:n] {
		out = append(out, all[i])
	}
	sort.Strings(out)
	return out
}

func (g *gen) agg(op, grouping string, child *Node) *Node {
	if op == "" {
		op = pick(g, aggOps)
	}
	if grouping == "?" {
		grouping = pick(g, []string{"", "by", "by", "without", "without"})
	}
	n := &Node{Kind: "agg", Op: op, Grouping: grouping, Child: child}
	if grouping != "" {
		n.Labels = g.groupLabels()
	}
	if op == "quantile" {
		n.Param = pick(g, quants)
	}
	return n
}

func (g *gen) num() *Node { return &Node{Kind: "num", Val: pick(g, numbers)} }

func (g *gen) binScalar(op string, boolMod bool, scalarLeft bool, child *Node) *Node {
	if op == "%" && !(child.Kind == "sel" && (child.MKind == "counter" || child.MKind == "small")) {
		// x % y is discontinuous: a last-digit rounding difference of a computed operand
		// legitimately changes the result by y, so % is applied to exact sample values only
		m := pick(g, []string{"req_total", "queue_len"})
		if ss := g.set.byMetric[m]; len(ss) > 0 {
			child = g.sel(m, ss[0].Kind, "")
		} else {
			op = "+"
		}
	}
	n := &Node{Kind: "bin", Op: op, Bool: boolMod}
	num := g.num()
	if isCmp(op) && child.Kind == "sel" && g.rng.IntN(4) > 0 {
		// a threshold inside the value range of the family, so that both outcomes occur
		switch child.MKind {
		case "counter":
			num.Val = pick(g, []float64{300, 800, 1500})
		case "gauge":
			num.Val = pick(g, []float64{700, 1000, 1300})
		case "special":
			num.Val = pick(g, []float64{0, 5, 12.5})
		case "small":
			num.Val = pick(g, []float64{0, 1, 2, 3})
		}
	}
	if g.rng.IntN(5) == 0 {
		c := *child
		c.Paren = true
		child = &c
	}
	if op == "^" {
		// small exponents: x^600 only tests overflow to +Inf, which the special-valued family covers
		num.Val = pick(g, []float64{2, 0.5, 3, -1, 0, 1})
	}
	if scalarLeft {
		n.L, n.R = num, child
	} else {
		n.L, n.R = child, num
	}
	return n
}

// vv builds a vector-vector operation with one-to-one matching guaranteed by construction.
func (g *gen) vv(form int, op string) *Node {
	if op == "" {
		if g.rng.IntN(3) == 0 {
			op = pick(g, cmpOps)
		} else {
			op = pick(g, arithOps)
		}
	}
	if op == "%" { // see binScalar
		op = "-"
	}
	n := &Node{Kind: "bin", Op: op}
	if isCmp(op) && g.rng.IntN(2) == 0 {
		n.Bool = true
	}
	switch form % 3 {
	case 0: // same selector under two range functions
		a := g.rfn(pick(g, []string{"max_over_time", "avg_over_time", "last_over_time", "sum_over_time"}))
		b := *a
		b.Fn = pick(g, []string{"min_over_time", "avg_over_time", "count_over_time", "stddev_over_time"})
		n.L, n.R = a, &b
	case 1: // both sides aggregated by the same labels
		lbls := g.groupLabels()
		a := g.agg(pick(g, []string{"sum", "max", "avg", "count"}), "by", g.leaf())
		b := g.agg(pick(g, []string{"sum", "min", "avg", "count"}), "by", g.leaf())
		a.Labels, b.Labels = lbls, lbls
		n.L, n.R = a, b
	case 2: // error ratio: code="500" over code="200", ignoring(code) / on(job, instance)
		mk := func(code string) *Node {
			s := &Node{Kind: "rfn", Metric: "req_total", MKind: "counter", Fn: "rate", Range: 300000,
				Matchers: []Matcher{{Label: "code", Op: "=", Value: code}}}
			g.set.classify("req_total", &s.Matchers[0])
			if g.rng.IntN(2) == 0 {
				s.Kind, s.Fn, s.Range = "sel", "", 0
			}
			return s
		}
		n.L, n.R = mk("500"), mk("200")
		if g.rng.IntN(2) == 0 {
			n.Match, n.MatchLbl = "ignoring", []string{"code"}
		} else {
			n.Match, n.MatchLbl = "on", []string{"instance", "job"}
		}
	}
	return n
}

func (g *gen) expr(depth int) *Node {
	if depth <= 0 {
		return g.leaf()
	}
	switch r := g.rng.IntN(100); {
	case r < 22:
		return g.leaf()
	case r < 55:
		return g.agg("", "?", g.expr(depth-1))
	case r < 75:
		return g.binScalar(pick(g, arithOps), false, g.rng.IntN(3) == 0, g.expr(depth-1))
	case r < 90:
		return g.binScalar(pick(g, cmpOps), g.rng.IntN(2) == 0, g.rng.IntN(3) == 0, g.expr(depth-1))
	default:
		return g.vv(g.rng.IntN(3), "")
	}
}

// systematic returns the i-th expression of the fixed part of the workload, which walks
// through every construct once; nil when i is past it.
func (g *gen) systematic(i int) *Node {
	k := i
	if k < 4 { // the four matcher kinds on a plain selector
		m, kd := g.metric()
		return g.sel(m, kd, []string{"=", "!=", "=~", "!~"}[k])
	}
	k -= 4
	if k < 4 { // … and inside a range function
		n := g.rfn(pick(g, []string{"rate", "avg_over_time", "delta", "count_over_time"}))
		n.Matchers = append([]Matcher{g.matcher(n.Metric, []string{"=", "!=", "=~", "!~"}[k])}, n.Matchers...)
		return n
	}
	k -= 4
	if k < len(rangeFns) {
		return g.rfn(rangeFns[k])
	}
	k -= len(rangeFns)
	if k < 3*len(aggOps) {
		return g.agg(aggOps[k/3], []string{"", "by", "without"}[k%3], g.leaf())
	}
	k -= 3 * len(aggOps)
	if k < 2*len(arithOps) {
		return g.binScalar(arithOps[k/2], false, k%2 == 1, g.leaf())
	}
	k -= 2 * len(arithOps)
	if k < 2*len(cmpOps) {
		child := g.leaf()
		if ss := g.set.byMetric["queue_len"]; len(ss) > 0 && (cmpOps[k/2] == "==" || cmpOps[k/2] == "!=") {
			child = g.sel("queue_len", "small", "") // equality needs exactly representable values
			child.Matchers = nil
		}
		return g.binScalar(cmpOps[k/2], k%2 == 1, g.rng.IntN(3) == 0, child)
	}
	k -= 2 * len(cmpOps)
	if k < 4 { // offsets, positive and negative, on selector and range selector
		var n *Node
		if k%2 == 0 {
			m, kd := g.metric()
			n = g.sel(m, kd, "")
		} else {
			n = g.rfn("")
		}
		if k < 2 {
			n.Offset = pick(g, offsets)
		} else {
			n.Offset = pick(g, negOffs)
		}
		return n
	}
	k -= 4
	if k < 6 {
		if k < 3 {
			return g.vv(k, pick(g, arithOps))
		}
		return g.vv(k, pick(g, cmpOps))
	}
	return nil
}

// matcherProbe: a selector with two or three matchers on different labels of which one is a
// regular expression whose anchoring decides the answer - a proper prefix, suffix or inner
// part of a stored value, alone or in an alternation: PromQL matches the whole value, so
// `job=~"ap"` selects nothing where an unanchored match would select job="api". Selectors with
// several matchers are resolved by another path of the series index than single ones.
func (g *gen) matcherProbe(i int) *Node {
	m, kd := g.metric()
	n := &Node{Kind: "sel", Metric: m, MKind: kd}
	lv := g.set.labelVals[m]
	labels := make([]string, 0, len(lv))
	for k, vs := range lv {
		if k != labelAbsentKey && len(vs) > 0 {
			labels = append(labels, k)
		}
	}
	sort.Strings(labels)
	if len(labels) == 0 {
		return g.sel(m, kd, "=~")
	}
	g.rng.Shuffle(len(labels), func(a, b int) { labels[a], labels[b] = labels[b], labels[a] })
	l := labels[0]
	x := pick(g, lv[l])
	var re string
	switch k := i % 6; {
	case k == 0 && len(x) > 1:
		re = x[:len(x)-1] // proper prefix
	case k == 1 && len(x) > 1:
		re = x[1:] // proper suffix
	case k == 2 && len(x) > 2:
		re = x[1 : len(x)-1] // inner part
	case k == 3 && len(x) > 1:
		re = x[:1] + "|zzz" // prefix in an alternation
	case k == 4:
		re = x + "|" + x[:1] // whole value or its first character
	default:
		re = x[:1] + "." // first character and one more
	}
	rm := Matcher{Label: l, Op: []string{"=~", "!~"}[(i/6)%2], Value: re}
	g.set.classify(m, &rm)
	n.Matchers = append(n.Matchers, rm)
	for _, l2 := range labels[1:] {
		if len(n.Matchers) >= 2+i%2 {
			break
		}
		var om Matcher
		switch g.rng.IntN(4) {
		case 0:
			om = Matcher{Label: l2, Op: "!=", Value: pick(g, lv[l2])}
		case 1:
			om = Matcher{Label: l2, Op: "=~", Value: ".+"}
		default:
			om = Matcher{Label: l2, Op: "=", Value: pick(g, lv[l2])}
		}
		g.set.classify(m, &om)
		n.Matchers = append(n.Matchers, om)
	}
	if len(n.Matchers) < 2 {
		// a family with one label: pair the regex with a matcher on a label nobody has
		om := Matcher{Label: labelAbsentKey, Op: "=", Value: ""}
		g.set.classify(m, &om)
		n.Matchers = append(n.Matchers, om)
	}
	if i%3 == 0 {
		return g.agg(pick(g, []string{"sum", "count", "max"}), "by", n)
	}
	return n
}

// nanProbe: an *_over_time function over ONE series of the family with NaN / Inf samples,
// evaluated so that an ordinary (non-stale) NaN or Inf sample is the OLDEST sample of the
// window, the newest one, or the only one: functions that fold the window from its first sample
// must not let a NaN stick. nil when the set has no such sample.
func (g *gen) nanProbe(i int) (*Node, EvalParams, bool) {
	var p EvalParams
	cs := g.set.byMetric["temp_c"]
	type at struct {
		s *SeriesData
		j int
	}
	var cand []at
	for _, s := range cs {
		for j := range s.V {
			if !isStale(s.V[j]) && (math.IsNaN(s.V[j]) || math.IsInf(s.V[j], 0)) {
				cand = append(cand, at{s, j})
			}
		}
	}
	if len(cand) == 0 {
		return nil, p, false
	}
	c := cand[g.rng.IntN(len(cand))]
	s := c.s
	fn := []string{"max_over_time", "min_over_time", "avg_over_time", "sum_over_time", "last_over_time", "count_over_time", "quantile_over_time", "stddev_over_time"}[i%8]
	n := &Node{Kind: "rfn", Metric: s.Metric(), MKind: s.Kind, Fn: fn, Range: pick(g, []int64{45000, 60000, 90000, 120000})}
	if fn == "quantile_over_time" {
		n.Param = pick(g, quants)
	}
	labels := make([]string, 0, len(s.Labels))
	for k := range s.Labels {
		if k != "__name__" {
			labels = append(labels, k)
		}
	}
	sort.Strings(labels)
	for _, k := range labels {
		m := Matcher{Label: k, Op: "=", Value: s.Labels[k]}
		g.set.classify(n.Metric, &m)
		n.Matchers = append(n.Matchers, m)
	}
	t := s.T[c.j]
	switch (i / 8) % 3 {
	case 0:
		p.IClass = "nan-is-oldest-sample-of-the-window"
		p.Instant = t + n.Range - 1 // the window (instant-range, instant] starts just before the sample
	case 1:
		p.IClass = "nan-is-newest-sample-of-the-window"
		p.Instant = t + int64(g.rng.IntN(1000))
	default:
		p.IClass = "nan-inside-the-window"
		p.Instant = t + n.Range/2
	}
	p.StepClass = "across-a-nan-sample"
	p.Step = pick(g, []int64{15000, 7500, 20000})
	p.Start = t - n.Range/2
	steps := 2 * n.Range / p.Step
	if steps > 24 {
		steps = 24
	}
	p.End = p.Start + steps*p.Step
	return n, p, true
}

// edgeProbe: a range function over ONE series (selected by all of its labels) evaluated
// around an edge of that series - its first sample, the first sample after a gap longer
// than the look-back window, a staleness marker, its last sample - so that the windows
// hold the first / last few samples of a run (extrapolation limits, counters that start
// near zero, look-back limits). The instant lies a few scrapes after the edge and the
// range query walks across it in small steps.
func (g *gen) edgeProbe(i int) (*Node, EvalParams) {
	set := g.set
	var s *SeriesData
	if cs := set.byMetric["req_total"]; len(cs) > 0 && i%4 != 3 {
		s = pick(g, cs)
	} else {
		s = pick(g, set.Series)
	}
	edges := []int64{s.T[0], s.T[len(s.T)-1]}
	for j := 1; j < len(s.T); j++ {
		if s.T[j]-s.T[j-1] > lookbackMs {
			edges = append(edges, s.T[j], s.T[j], s.T[j-1])
		}
		if isStale(s.V[j]) {
			edges = append(edges, s.T[j])
		}
	}
	if i%2 == 0 {
		edges = edges[:1] // the first sample
	}
	e := pick(g, edges)
	fn := pick(g, []string{"rate", "increase", "rate", "increase", "delta", "irate", "deriv", "avg_over_time", "last_over_time", "count_over_time"})
	if s.Kind != "counter" {
		fn = pick(g, []string{"delta", "deriv", "avg_over_time", "last_over_time", "count_over_time", "max_over_time", "changes", "idelta"})
	}
	n := &Node{Kind: "rfn", Metric: s.Metric(), MKind: s.Kind, Fn: fn, Range: pick(g, []int64{60000, 90000, 120000, 180000, 300000})}
	labels := make([]string, 0, len(s.Labels))
	for k := range s.Labels {
		if k != "__name__" {
			labels = append(labels, k)
		}
	}
	sort.Strings(labels)
	for _, k := range labels {
		m := Matcher{Label: k, Op: "=", Value: s.Labels[k]}
		set.classify(n.Metric, &m)
		n.Matchers = append(n.Matchers, m)
	}
	var p EvalParams
	p.IClass = "after-series-edge"
	p.Instant = e + int64(1+g.rng.IntN(int(n.Range/15000)))*15000
	if g.rng.IntN(2) == 0 {
		p.Instant += int64(g.rng.IntN(15000))
	}
	p.StepClass = "across-series-edge"
	p.Step = pick(g, []int64{15000, 15000, 30000, 7500, 20000})
	p.Start = e - n.Range/2
	if g.rng.IntN(2) == 0 {
		p.Start -= p.Start % gridMs
	}
	steps := 2 * n.Range / p.Step
	if steps > 24 {
		steps = 24
	}
	p.End = p.Start + steps*p.Step
	return n, p
}

func (g *gen) next(i int) *Node {
	if n := g.systematic(i); n != nil {
		return n
	}
	return g.expr(1 + g.rng.IntN(2))
}

// ---- evaluation parameters --------------------------------------------------------------

// EvalParams of one expression: an instant time and a range (start, step, number of steps).
type EvalParams struct {
	Instant   int64  `json:"instant_ms"`
	IClass    string `json:"instant_class"`
	Start     int64  `json:"start_ms"`
	End       int64  `json:"end_ms"`
	Step      int64  `json:"step_ms"`
	StepClass string `json:"step_class"`
}

func (g *gen) params() EvalParams {
	var p EvalParams
	set := g.set
	switch r := g.rng.IntN(100); {
	case r < 35:
		p.IClass = "grid"
		p.Instant = set.T0 + int64(40+g.rng.IntN(220))*gridMs
	case r < 55:
		p.IClass = "sample-time"
		p.Instant = set.sortedT[g.rng.IntN(len(set.sortedT))]
	case r < 92:
		p.IClass = "off-grid"
		p.Instant = set.T0 + 8*60*1000 + int64(g.rng.IntN(56*60*1000))
	case r < 96:
		p.IClass = "after-end"
		p.Instant = set.End + int64(g.rng.IntN(12*60*1000))
	default:
		p.IClass = "before-start"
		p.Instant = set.T0 - int64(g.rng.IntN(3*60*1000)) + 60*1000
	}
	switch r := g.rng.IntN(100); {
	case r < 40:
		p.StepClass = "grid"
		p.Step = pick(g, []int64{15000, 30000, 60000, 120000})
		p.Start = set.T0 + int64(20+g.rng.IntN(160))*gridMs
	case r < 80:
		p.StepClass = "off-grid"
		p.Step = pick(g, []int64{17000, 7500, 100000, 41234, 59999, 1000})
		p.Start = set.T0 + 5*60*1000 + int64(g.rng.IntN(40*60*1000))
	default:
		p.StepClass = "step>=lookback"
		p.Step = pick(g, []int64{300000, 360000, 600000})
		p.Start = set.T0 + int64(g.rng.IntN(10*60*1000))
	}
	n := int64(4 + g.rng.IntN(9))
	if p.StepClass == "step>=lookback" {
		n = int64(3 + g.rng.IntN(5))
	}
	p.End = p.Start + n*p.Step
	if g.rng.IntN(4) == 0 {
		p.End += p.Step / 2 // end not on a step
	}
	return p
}

func (p EvalParams) steps() []int64 {
	var out []int64
	for t := p.Start; t <= p.End; t += p.Step {
		out = append(out, t)
	}
	return out
}
