package main

import (
	"fmt"
	"math"
	"sort"
)

const (
	relTol = 1e-9
	// absTol: results of cancelling computations (deriv, stddev of a constant series) come out
	// as 0 in one implementation and as 1e-17 in another; both are floating-point rounding
	absTol = 1e-12
)

// valuesEqual: NaN = NaN, infinities exact, otherwise relative 1e-9 (or both within 1e-12 of
// each other near zero).
func valuesEqual(a, b float64) bool {
	an, bn := math.IsNaN(a), math.IsNaN(b)
	if an || bn {
		return an && bn
	}
	if math.IsInf(a, 0) || math.IsInf(b, 0) {
		return a == b
	}
	if a == b {
		return true
	}
	d := math.Abs(a - b)
	return d <= relTol*math.Max(math.Abs(a), math.Abs(b)) || d <= absTol
}

func valueDiffKind(ref, got float64) string {
	switch {
	case math.IsNaN(ref) != math.IsNaN(got):
		return "value:nan-vs-number"
	case math.IsInf(ref, 0) || math.IsInf(got, 0):
		return "value:inf"
	default:
		return "value:number"
	}
}

// Diff describes the first difference found, most structural first.
type Diff struct {
	Kind   string
	Detail string
}

func indexSeries(r *Result) (map[string]*RSeries, string) {
	m := map[string]*RSeries{}
	for i := range r.Series {
		k := labelKey(r.Series[i].Labels)
		if _, dup := m[k]; dup {
			return m, k
		}
		m[k] = &r.Series[i]
	}
	return m, ""
}

// compare returns nil when got (openGemini, or the instant-query reconstruction) carries
// the same series, label sets, timestamps and values as want.
func compare(want, got *Result) *Diff {
	if got.Err != "" {
		return &Diff{"error", got.Err}
	}
	if want.Type != got.Type {
		return &Diff{"type", fmt.Sprintf("resultType %s, expected %s", got.Type, want.Type)}
	}
	wm, _ := indexSeries(want)
	gm, dup := indexSeries(got)
	if dup != "" {
		return &Diff{"duplicate-series", "label set returned twice: " + dup}
	}
	for k, g := range gm {
		seen := map[int64]struct{}{}
		for _, p := range g.Pts {
			if _, dup := seen[p.T]; dup {
				return &Diff{"duplicate-point", fmt.Sprintf("%s has two samples at %s", k, msStr(p.T))}
			}
			seen[p.T] = struct{}{}
		}
	}
	var missing, extra []string
	for k := range wm {
		if _, ok := gm[k]; !ok {
			missing = append(missing, k)
		}
	}
	for k := range gm {
		if _, ok := wm[k]; !ok {
			extra = append(extra, k)
		}
	}
	sort.Strings(missing)
	sort.Strings(extra)
	switch {
	case len(missing) > 0 && len(extra) > 0 && len(missing) == len(extra) && len(wm) == len(gm):
		return &Diff{"labels", fmt.Sprintf("%d series with other label sets: expected %s, got %s", len(missing), missing[0], extra[0])}
	case len(missing) > 0 && len(extra) > 0:
		return &Diff{"series-set", fmt.Sprintf("%d expected series missing (first %s), %d unexpected (first %s)", len(missing), missing[0], len(extra), extra[0])}
	case len(missing) > 0:
		return &Diff{"series-missing", fmt.Sprintf("%d of %d expected series missing, first %s", len(missing), len(wm), missing[0])}
	case len(extra) > 0:
		return &Diff{"series-extra", fmt.Sprintf("%d unexpected series (expected %d), first %s", len(extra), len(wm), extra[0])}
	}
	keys := make([]string, 0, len(wm))
	for k := range wm {
		keys = append(keys, k)
	}
	sort.Strings(keys)
	var valueDiff *Diff
	for _, k := range keys {
		w, g := wm[k], gm[k]
		wp := map[int64]float64{}
		for _, p := range w.Pts {
			wp[p.T] = p.V
		}
		gp := map[int64]float64{}
		for _, p := range g.Pts {
			if _, dup := gp[p.T]; dup {
				return &Diff{"duplicate-point", fmt.Sprintf("%s has two samples at %s", k, msStr(p.T))}
			}
			gp[p.T] = p.V
		}
		for _, p := range w.Pts {
			gv, ok := gp[p.T]
			if !ok {
				return &Diff{"point-missing", fmt.Sprintf("%s: no sample at %s (expected %s); %d of %d points returned", k, msStr(p.T), fstr(p.V), len(g.Pts), len(w.Pts))}
			}
			if valueDiff == nil && !valuesEqual(p.V, gv) {
				valueDiff = &Diff{valueDiffKind(p.V, gv), fmt.Sprintf("%s at %s: got %s, expected %s", k, msStr(p.T), fstr(gv), fstr(p.V))}
			}
		}
		for _, p := range g.Pts {
			if _, ok := wp[p.T]; !ok {
				return &Diff{"point-extra", fmt.Sprintf("%s: unexpected sample %s at %s; %d points returned, %d expected", k, fstr(p.V), msStr(p.T), len(g.Pts), len(w.Pts))}
			}
		}
	}
	return valueDiff
}

// stitch builds the matrix that a range query must equal from the instant results at its
// steps (vector or scalar each).
func stitch(steps []*Result) *Result {
	out := &Result{Type: "matrix"}
	idx := map[string]int{}
	for _, r := range steps {
		for _, s := range r.Series {
			k := labelKey(s.Labels)
			i, ok := idx[k]
			if !ok {
				i = len(out.Series)
				idx[k] = i
				out.Series = append(out.Series, RSeries{Labels: s.Labels})
			}
			out.Series[i].Pts = append(out.Series[i].Pts, s.Pts...)
		}
	}
	return out
}
