package main

import (
	"math"
	"math/rand/v2"
	"sort"
)

const (
	spanMs = 60 * 60 * 1000
	gridMs = 15 * 1000
	// ordinary base time (2023-11-14T22:13:20Z) and the start of a default (168h, Monday
	// 00:00 UTC aligned) shard group, which some sample sets straddle
	baseOrdinary   = int64(1_700_000_000_000)
	shardBoundary  = int64(1_700_438_400_000)
	lookbackMs     = int64(5 * 60 * 1000)
	maxWriteBatch  = 4000
	labelAbsentKey = "zone"
)

// SampleSet is one generated world: a few metric families with different value kinds and
// scrape patterns.
type SampleSet struct {
	Index     int
	T0, End   int64
	Seam      int64 // time of the flush between two write requests (0: none): older samples in a file, newer in the memtable
	Straddle  bool
	Series    []*SeriesData
	times     map[int64]struct{} // every sample timestamp of the set
	sortedT   []int64
	byMetric  map[string][]*SeriesData
	labelVals map[string]map[string][]string // metric -> label -> values seen
}

type family struct {
	metric string
	kind   string
	combos []map[string]string
	min    int
	max    int
}

func families() []family {
	var req, mem, temp, queue []map[string]string
	for _, job := range []string{"api", "web"} {
		for _, inst := range []string{"a:80", "b:80", "c:80"} {
			for _, code := range []string{"200", "500"} {
				req = append(req, map[string]string{"job": job, "instance": inst, "code": code})
			}
		}
	}
	for _, job := range []string{"api", "db"} {
		for _, inst := range []string{"a:80", "b:80", "c:80"} {
			m := map[string]string{"job": job, "instance": inst}
			if inst != "b:80" { // the zone label is absent on some series
				if job == "api" {
					m["zone"] = "eu"
				} else {
					m["zone"] = "us"
				}
			}
			mem = append(mem, m)
		}
	}
	for _, room := range []string{"r1", "r2", "r3", "r4"} {
		temp = append(temp, map[string]string{"job": "sensor", "room": room})
	}
	for _, job := range []string{"api", "db", "web"} {
		for _, inst := range []string{"a:80", "b:80"} {
			queue = append(queue, map[string]string{"job": job, "instance": inst})
		}
	}
	return []family{
		{"req_total", "counter", req, 6, 9},
		{"mem_used", "gauge", mem, 4, 6},
		{"temp_c", "special", temp, 3, 4},
		{"queue_len", "small", queue, 3, 5},
	}
}

func genSet(rng *rand.Rand, idx int) *SampleSet {
	set := &SampleSet{Index: idx, times: map[int64]struct{}{}, byMetric: map[string][]*SeriesData{},
		labelVals: map[string]map[string][]string{}}
	set.T0 = baseOrdinary
	if idx%3 == 2 {
		set.Straddle = true
		set.T0 = shardBoundary - spanMs/2
	}
	set.End = set.T0 + spanMs
	for _, f := range families() {
		n := f.min + rng.IntN(f.max-f.min+1)
		perm := rng.Perm(len(f.combos))
		for _, ci := range perm[:n] {
			lbl := map[string]string{"__name__": f.metric}
			for k, v := range f.combos[ci] {
				lbl[k] = v
			}
			s := &SeriesData{Labels: lbl, Kind: f.kind}
			genTimes(rng, set, s)
			genValues(rng, s)
			if len(s.T) == 0 {
				continue
			}
			set.Series = append(set.Series, s)
			set.byMetric[f.metric] = append(set.byMetric[f.metric], s)
		}
	}
	for _, s := range set.Series {
		for _, t := range s.T {
			set.times[t] = struct{}{}
		}
		lv := set.labelVals[s.Metric()]
		if lv == nil {
			lv = map[string][]string{}
			set.labelVals[s.Metric()] = lv
		}
		for k, v := range s.Labels {
			if k == "__name__" {
				continue
			}
			found := false
			for _, x := range lv[k] {
				found = found || x == v
			}
			if !found {
				lv[k] = append(lv[k], v)
				sort.Strings(lv[k])
			}
		}
	}
	for t := range set.times {
		set.sortedT = append(set.sortedT, t)
	}
	sort.Slice(set.sortedT, func(i, j int) bool { return set.sortedT[i] < set.sortedT[j] })
	return set
}

// genTimes decides the scrape pattern of one series: interval, phase, jitter, late start,
// early end, a gap longer than the look-back window, staleness markers.
func genTimes(rng *rand.Rand, set *SampleSet, s *SeriesData) {
	interval := []int64{15000, 15000, 30000, 60000}[rng.IntN(4)]
	phase := []int64{0, 0, 0, 5000, 7321}[rng.IntN(5)]
	jitter := int64(0)
	if rng.IntN(2) == 0 {
		jitter = 2000
		s.Shape = append(s.Shape, "irregular-scrape")
	} else {
		s.Shape = append(s.Shape, "regular-scrape")
	}
	start, end := set.T0, set.End
	if rng.IntN(10) < 3 {
		start += int64(rng.IntN(20*60)) * 1000
		s.Shape = append(s.Shape, "late-start")
	}
	if rng.IntN(10) < 3 {
		end -= int64(rng.IntN(20*60)) * 1000
		s.Shape = append(s.Shape, "early-end")
	}
	var gapFrom, gapTo int64
	if rng.IntN(10) < 4 {
		gapFrom = set.T0 + int64(5*60+rng.IntN(35*60))*1000
		gapTo = gapFrom + int64(6*60+rng.IntN(9*60))*1000
		s.Shape = append(s.Shape, "gap>lookback")
	}
	// staleness: a marker one interval after some sample, then 1..10 scrapes missing
	staleAt := int64(-1)
	staleSkip := 0
	if rng.IntN(10) < 3 {
		staleAt = set.T0 + int64(5*60+rng.IntN(45*60))*1000
		staleSkip = 1 + rng.IntN(10)
		s.Shape = append(s.Shape, "stale-marker")
	}
	endStale := rng.IntN(10) < 2
	var last int64 = math.MinInt64
	skip := 0
	staleDone := false
	for k := int64(0); ; k++ {
		t := set.T0 + phase + k*interval
		if t > end {
			break
		}
		if t < start || (gapFrom != 0 && t >= gapFrom && t < gapTo) {
			continue
		}
		if skip > 0 {
			skip--
			continue
		}
		if jitter > 0 {
			t += int64(rng.IntN(int(2*jitter+1))) - jitter
		}
		if t <= last {
			continue
		}
		if staleAt >= 0 && !staleDone && t >= staleAt && len(s.T) > 0 {
			s.T = append(s.T, t)
			s.V = append(s.V, staleNaN())
			last = t
			skip = staleSkip
			staleDone = true
			continue
		}
		s.T = append(s.T, t)
		s.V = append(s.V, 0) // filled by genValues
		last = t
	}
	if endStale && len(s.T) > 1 && !isStale(s.V[len(s.V)-1]) {
		s.T = append(s.T, last+interval)
		s.V = append(s.V, staleNaN())
		s.Shape = append(s.Shape, "ends-with-stale-marker")
	}
}

func genValues(rng *rand.Rand, s *SeriesData) {
	n := len(s.T)
	switch s.Kind {
	case "counter":
		v := float64(rng.IntN(1000))
		half := rng.IntN(2) == 0
		// a freshly started target: the counter begins near zero, so that the windows over
		// its first samples extrapolate back to the counter's zero point
		if rng.IntN(3) == 0 {
			v = float64(rng.IntN(12))
			if half {
				v /= 2
			}
			s.Shape = append(s.Shape, "counter-starts-near-zero")
		}
		restartAfterGap := rng.IntN(2) == 0
		resets := 0
		if rng.IntN(2) == 0 {
			resets = 1 + rng.IntN(2)
			s.Shape = append(s.Shape, "counter-reset")
		}
		resetAt := map[int]bool{}
		for i := 0; i < resets && n > 4; i++ {
			resetAt[2+rng.IntN(n-2)] = true
		}
		for i := 0; i < n; i++ {
			if isStale(s.V[i]) {
				continue
			}
			if restartAfterGap && i > 0 && s.T[i]-s.T[i-1] > lookbackMs {
				// the target came back after an outage longer than any window: a restarted counter
				v = float64(rng.IntN(12))
				if half {
					v /= 2
				}
				s.Shape = append(s.Shape, "counter-restarts-after-gap")
			} else if resetAt[i] {
				v = float64(rng.IntN(5))
			} else {
				inc := float64(rng.IntN(21))
				if half {
					inc /= 2
				}
				v += inc
			}
			s.V[i] = v
		}
	case "gauge":
		v := 500 + rng.Float64()*1000
		for i := 0; i < n; i++ {
			if isStale(s.V[i]) {
				continue
			}
			v += (rng.Float64() - 0.5) * 40
			s.V[i] = v
		}
	case "special":
		v := rng.Float64()*40 - 10
		for i := 0; i < n; i++ {
			if isStale(s.V[i]) {
				continue
			}
			v += (rng.Float64() - 0.5) * 3
			s.V[i] = math.Round(v*100)/100 + 0 // "+ 0": no negative zero (its loss is property C07's finding)
		}
		put := func(count int, x float64, name string) {
			for j := 0; j < count && n > 0; j++ {
				i := rng.IntN(n)
				if !isStale(s.V[i]) {
					s.V[i] = x
					s.Shape = append(s.Shape, name)
				}
			}
		}
		if rng.IntN(3) > 0 {
			put(1+rng.IntN(3), math.NaN(), "value-NaN")
		}
		if rng.IntN(2) == 0 {
			put(1+rng.IntN(2), math.Inf(1), "value+Inf")
		}
		if rng.IntN(2) == 0 {
			put(1+rng.IntN(2), math.Inf(-1), "value-Inf")
		}
	case "small":
		v := float64(rng.IntN(4))
		for i := 0; i < n; i++ {
			if isStale(s.V[i]) {
				continue
			}
			if rng.IntN(3) == 0 {
				v = float64(rng.IntN(4))
			}
			s.V[i] = v
		}
	}
}

func (set *SampleSet) hits(t int64) bool {
	_, ok := set.times[t]
	return ok
}
