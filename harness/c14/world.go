package main

import (
	"bytes"
	"encoding/json"
	"fmt"
	"io"
	"net/http"
	"net/url"
	"os"
	"path/filepath"
	"strconv"
	"strings"
	"sync"
	"syscall"
	"time"

	"verifharness/proc"
	"verifharness/vf"
)

// clk reads the harness clock (wall clock, monotonic part stripped so that it compares
// with the timestamps of the server log, which come from the same system clock).
func clk() time.Time { return time.Now().Round(0) }

var farFuture = time.Unix(1<<40, 0)

// cycle is one "retention policy deletion check" of services/retention as written to the
// server log: the (start) line is emitted before the service refreshes durations and
// reads its clock, the (end) line after all deletions and catalogue updates of the cycle.
type cycle struct {
	Start time.Time
	End   time.Time
	Trace string
	Done  bool
}

// tailer follows the server log and extracts the retention cycles.
type tailer struct {
	path string
	off  int64
	rest []byte
	mu   sync.Mutex
	cyc  []cycle
	bad  int
}

type logLine struct {
	Time  string `json:"time"`
	Trace string `json:"trace_id"`
	Op    string `json:"op_name"`
	Ev    string `json:"op_event"`
}

func (t *tailer) poll() {
	f, err := os.Open(t.path)
	if err != nil {
		return
	}
	defer f.Close()
	t.mu.Lock()
	defer t.mu.Unlock()
	if st, err := f.Stat(); err == nil && st.Size() < t.off {
		t.off, t.rest = 0, nil // rotated
	}
	if _, err := f.Seek(t.off, io.SeekStart); err != nil {
		return
	}
	b, err := io.ReadAll(io.LimitReader(f, 64<<20))
	if err != nil || len(b) == 0 {
		return
	}
	t.off += int64(len(b))
	buf := append(t.rest, b...)
	for {
		i := bytes.IndexByte(buf, '\n')
		if i < 0 {
			break
		}
		line := buf[:i]
		buf = buf[i+1:]
		if !bytes.Contains(line, []byte(`"retention_delete_check"`)) {
			continue
		}
		var l logLine
		if json.Unmarshal(line, &l) != nil || l.Op != "retention_delete_check" {
			t.bad++
			continue
		}
		ts, err := time.Parse(time.RFC3339Nano, l.Time)
		if err != nil {
			t.bad++
			continue
		}
		switch l.Ev {
		case "start":
			t.cyc = append(t.cyc, cycle{Start: ts, Trace: l.Trace})
		case "end":
			for k := len(t.cyc) - 1; k >= 0 && k >= len(t.cyc)-4; k-- {
				if t.cyc[k].Trace == l.Trace && !t.cyc[k].Done {
					t.cyc[k].End, t.cyc[k].Done = ts, true
					break
				}
			}
		}
	}
	t.rest = append([]byte(nil), buf...)
}

func (t *tailer) snapshot() []cycle {
	t.mu.Lock()
	defer t.mu.Unlock()
	return append([]cycle(nil), t.cyc...)
}

// shardRow is one row of SHOW SHARDS.
type shardRow struct {
	ID    uint64
	DB    string
	RP    string
	Group uint64
	Start int64 // ns
	End   int64
}

// shardObs is one bracketed SHOW SHARDS observation. If Barrier is set the observation
// was taken after a catalogue-changing statement issued at B0 had been acknowledged to
// this harness through the same server: every catalogue change that completed before B0
// is then ordered before the answer (no dependence on cache propagation delays).
type shardObs struct {
	T0, T1  time.Time
	Rows    []shardRow
	Barrier bool
	B0      time.Time
}

// dirEnt is one shard directory found under the data directory.
type dirEnt struct {
	DB    string
	RP    string
	ID    uint64
	Start int64
	End   int64
}

type diskObs struct {
	T0, T1 time.Time
	Dirs   []dirEnt
}

// world is one server with the scenarios that share it.
type world struct {
	c     *vf.Ctx
	name  string
	srv   *proc.Server
	lazy  bool
	tail  *tailer
	mu    sync.Mutex
	sh    []shardObs
	disk  []diskObs
	stop  chan struct{}
	wg    sync.WaitGroup
	nbar  int
	scens []*scen
	down  bool // server intentionally down (restart in progress)
	// storm worlds: the scenarios publish their expiry instants here
	stormX chan time.Time
}

// pauser freezes the server process (SIGSTOP) from just before the first expiry instant
// of the storm scenarios until just after the last one, then lets it continue: the
// batches that had passed the retention-window check before the freeze reach the store
// at the same moment as the first retention cycle that finds their shard expired. This
// is the schedule a long stall (VM pause, CPU starvation) produces; no verdict depends
// on it other than through the ordinary bracketed obligations and "the server survives".
func (w *world) pauser(n int) {
	var lo, hi time.Time
	for i := 0; i < n; i++ {
		select {
		case x := <-w.stormX:
			if x.IsZero() {
				continue
			}
			if lo.IsZero() || x.Before(lo) {
				lo = x
			}
			if x.After(hi) {
				hi = x
			}
		case <-time.After(60 * time.Second):
			return
		}
	}
	if lo.IsZero() || hi.Sub(lo) > 5*time.Second {
		return
	}
	for i := 0; i < 100000 && clk().Before(lo.Add(-40*time.Millisecond)); i++ {
		time.Sleep(2 * time.Millisecond)
	}
	w.srv.Signal(syscall.SIGSTOP)
	t := clk()
	for i := 0; i < 100000 && clk().Before(hi.Add(400*time.Millisecond)); i++ {
		time.Sleep(5 * time.Millisecond)
	}
	w.srv.Signal(syscall.SIGCONT)
	w.c.Count("storm:server-frozen-across-expiry-ms", clk().Sub(t).Milliseconds())
}

func newWorld(c *vf.Ctx, name, bin string, ipWorker int, lazy bool) *world {
	extra := map[string][]string{
		"retention": {`check-interval = "1s"`},
		"logging":   {`max-size = "512m"`, `compress-enabled = false`},
	}
	if lazy {
		// every shard whose group did not end within a minute of "now" is left unopened
		// at start-up and loaded on first use
		extra["data"] = []string{`lazy-load-shard-enable = true`,
			`thermal-shard-start-duration = "1m"`, `thermal-shard-end-duration = "1m"`}
	}
	dir := filepath.Join(c.Scratch, name)
	w := &world{c: c, name: name, lazy: lazy, stop: make(chan struct{}), stormX: make(chan time.Time, 256)}
	w.srv = proc.New(proc.Config{Bin: bin, Dir: dir, IP: proc.IP(14, ipWorker), PtNum: 2, Extra: extra})
	w.tail = &tailer{path: filepath.Join(w.srv.LogDir(), "single.log")}
	return w
}

// ready is the readiness rule for this driver: /ping answers, the control port reports
// the engine open and no shard replaying its WAL, every shard directory on disk is known
// to the engine, and a catalogue query succeeds. Unlike proc.WaitReady it does not
// demand that every shard is opened (with lazy loading that is the point).
func (w *world) ready(wd time.Duration) error {
	deadline := time.Now().Add(wd)
	for n := 0; n < 3000 && time.Now().Before(deadline); n++ {
		if !w.srv.Alive() {
			return fmt.Errorf("server exited during start-up: %v\n%s", w.srv.ExitError(), w.srv.StdoutTail(1500))
		}
		if w.readyOnce() {
			return nil
		}
		time.Sleep(150 * time.Millisecond)
	}
	return fmt.Errorf("server not ready within %s\n%s", wd, w.srv.StdoutTail(1500))
}

func (w *world) readyOnce() bool {
	resp, err := w.srv.HTTP.Get(w.srv.URL() + "/ping")
	if err != nil {
		return false
	}
	io.Copy(io.Discard, resp.Body)
	resp.Body.Close()
	if resp.StatusCode != http.StatusNoContent && resp.StatusCode != http.StatusOK {
		return false
	}
	st, err := w.srv.State("")
	if err != nil || !st.Ready && !w.lazy {
		return false
	}
	have := map[uint64]bool{}
	for _, sh := range st.Shards {
		if sh.ReplayingWal {
			return false
		}
		have[sh.ID] = true
	}
	res, err := w.srv.Query("", "SHOW DATABASES", nil)
	if err != nil || len(res.Results) == 0 {
		return false
	}
	dbs := map[string]bool{}
	for _, se := range res.Results[0].Series {
		for _, row := range se.Values {
			if len(row) > 0 {
				dbs[fmt.Sprint(row[0])] = true
			}
		}
	}
	for _, d := range w.listDirs() {
		if dbs[d.DB] && !have[d.ID] {
			return false
		}
	}
	return true
}

func (w *world) listDirs() []dirEnt {
	root := filepath.Join(w.srv.DataDir(), "data")
	paths, _ := filepath.Glob(filepath.Join(root, "*", "*", "*", "*_*_*_*"))
	var out []dirEnt
	for _, p := range paths {
		rel, _ := filepath.Rel(root, p)
		parts := strings.Split(rel, string(filepath.Separator))
		if len(parts) != 4 {
			continue
		}
		f := strings.Split(parts[3], "_")
		if len(f) != 4 {
			continue
		}
		id, e1 := strconv.ParseUint(f[0], 10, 64)
		st, e2 := strconv.ParseInt(f[1], 10, 64)
		en, e3 := strconv.ParseInt(f[2], 10, 64)
		if e1 != nil || e2 != nil || e3 != nil {
			continue
		}
		out = append(out, dirEnt{DB: parts[0], RP: parts[2], ID: id, Start: st, End: en})
	}
	return out
}

func (w *world) observeDisk() {
	t0 := clk()
	d := w.listDirs()
	t1 := clk()
	w.mu.Lock()
	w.disk = append(w.disk, diskObs{T0: t0, T1: t1, Dirs: d})
	w.mu.Unlock()
}

func parseShardRows(res *proc.QueryResult) ([]shardRow, error) {
	var rows []shardRow
	if len(res.Results) == 0 {
		return nil, fmt.Errorf("no result")
	}
	for _, se := range res.Results[0].Series {
		col := map[string]int{}
		for i, c := range se.Columns {
			col[c] = i
		}
		for _, k := range []string{"id", "database", "retention_policy", "shard_group", "start_time", "end_time"} {
			if _, ok := col[k]; !ok {
				return nil, fmt.Errorf("SHOW SHARDS: column %q missing in %v", k, se.Columns)
			}
		}
		for _, v := range se.Values {
			id, e1 := strconv.ParseUint(fmt.Sprint(v[col["id"]]), 10, 64)
			g, e2 := strconv.ParseUint(fmt.Sprint(v[col["shard_group"]]), 10, 64)
			st, e3 := time.Parse(time.RFC3339Nano, fmt.Sprint(v[col["start_time"]]))
			en, e4 := time.Parse(time.RFC3339Nano, fmt.Sprint(v[col["end_time"]]))
			if e1 != nil || e2 != nil || e3 != nil || e4 != nil {
				return nil, fmt.Errorf("SHOW SHARDS: unparsable row %v", v)
			}
			rows = append(rows, shardRow{ID: id, DB: fmt.Sprint(v[col["database"]]), RP: fmt.Sprint(v[col["retention_policy"]]),
				Group: g, Start: st.UnixNano(), End: en.UnixNano()})
		}
	}
	return rows, nil
}

// observeShards takes one SHOW SHARDS observation; with barrier it first performs a
// catalogue change of its own (a fresh empty database) and waits for its acknowledgement.
func (w *world) observeShards(barrier bool) bool {
	var b0 time.Time
	if barrier {
		w.mu.Lock()
		w.nbar++
		n := w.nbar
		w.mu.Unlock()
		b0 = clk()
		if _, err := w.srv.Query("", fmt.Sprintf("CREATE DATABASE c14bar%d", n), nil); err != nil {
			return false
		}
	}
	t0 := clk()
	res, err := w.srv.Query("", "SHOW SHARDS", nil)
	t1 := clk()
	if err != nil {
		w.c.Count("shards-observation-errors", 1)
		return false
	}
	rows, err := parseShardRows(res)
	if err != nil {
		w.c.Broken("%v", err)
		return false
	}
	w.mu.Lock()
	w.sh = append(w.sh, shardObs{T0: t0, T1: t1, Rows: rows, Barrier: barrier, B0: b0})
	w.mu.Unlock()
	return true
}

// pollers: log tailer, SHOW SHARDS and data-directory listing, until stopped.
func (w *world) startPollers() {
	w.wg.Add(2)
	go func() {
		defer w.wg.Done()
		for i := 0; i < 200000; i++ {
			select {
			case <-w.stop:
				w.tail.poll()
				return
			case <-time.After(250 * time.Millisecond):
			}
			w.tail.poll()
		}
	}()
	go func() {
		defer w.wg.Done()
		for i := 0; i < 100000; i++ {
			select {
			case <-w.stop:
				return
			case <-time.After(700 * time.Millisecond):
			}
			w.mu.Lock()
			down := w.down
			w.mu.Unlock()
			if down {
				continue
			}
			w.observeShards(false)
			w.observeDisk()
		}
	}()
}

func (w *world) stopPollers() {
	close(w.stop)
	w.wg.Wait()
}

func (w *world) setDown(d bool) {
	w.mu.Lock()
	w.down = d
	w.mu.Unlock()
}

func (w *world) snapshotObs() ([]shardObs, []diskObs) {
	w.mu.Lock()
	defer w.mu.Unlock()
	return append([]shardObs(nil), w.sh...), append([]diskObs(nil), w.disk...)
}

// exec runs a statement and returns its bracket; err is a statement error (not applied),
// transport reports that the outcome is unknown.
func (w *world) exec(db, q string) (lo, hi time.Time, err error, transport bool) {
	lo = clk()
	res, e := w.srv.Query(db, q, nil)
	hi = clk()
	if e != nil && res == nil {
		return lo, hi, e, true
	}
	return lo, hi, e, false
}

func vals(kv ...string) url.Values {
	v := url.Values{}
	for i := 0; i+1 < len(kv); i += 2 {
		v.Set(kv[i], kv[i+1])
	}
	return v
}
