// Command c14 checks property C14 "retention removes only data that has expired" by
// running real ts-server processes with a 1 s retention interval and judging bracketed
// observations (see SetRule/Assume below and DESIGN.md §5/C14).
package main

import (
	"encoding/json"
	"fmt"
	"os"
	"regexp"
	"strings"
	"sync"
	"time"

	"verifharness/proc"
	"verifharness/vf"
)

func main() {
	c := vf.New("C14", "exploration")
	if vf.IsWorker() {
		pureWorker(c)
		c.Finish()
	}
	c.SetRule("one scenario = one database with its own retention policy (shard duration 1 h unless stated) on a real ts-server with [retention] check-interval=1s and 2 partitions (so every group also has a shard the engine never created); " +
		"timestamps are placed relative to the harness clock so that the expiry instant X = groupEnd + duration of the group holding the test point lies at a seed-chosen offset " +
		"(+20..30 s, +90 s, +3 h, in the past or +25 s after ALTER, never for duration 0), the policy is altered per kind, and every query / SHOW SHARDS / data-directory listing is bracketed by clock readings t0<t1. " +
		"Judged: present if t1+2s < E (earliest instant at which any duration that was or may have been in force allows deletion), absent if t0 > Z (3 completed retention cycles, read from the server log, that all started > 2 s after expiry under a duration certainly in force; " +
		"for SHOW SHARDS additionally only after a catalogue change of the harness's own was acknowledged later than Z). Everything between E-2s and Z is counted as unjudged. " +
		"A scenario is distinct by kind and the parameters that matter for the kind (delta, position of the point in its group, alteration target) and non-trivial if its designed obligations were actually judged: " +
		"kinds that expire need >=1 judged-present and >=1 judged-absent query observation (lazy kinds, silent before expiry by design, >=1 judged-absent), kinds that keep need >=1 judged-present observation after >=3 completed retention cycles. " +
		"Pure part: engine.NewShard objects with generated (group end, duration), IsExpired() bracketed the same way")
	c.Assume("harness and server read the same system clock (same host); the clock is not stepped during a run")
	c.Assume("the timestamp of a server log line is taken before the line's retention cycle refreshes durations and reads its clock (start line) respectively after all its deletions returned (end line)")
	c.Assume("shard group boundaries are multiples of the shard duration counted from Go's zero time (time.Truncate); cross-checked against SHOW SHARDS in every run (mismatch = broken)")
	c.Assume("a statement that returned an error was not applied; a write is part of the model only after HTTP 204; a transport error ends the judging of that scenario")
	c.Assume("a point is under the present-obligation once any point of the same series and shard group has been returned by a completed query (index visibility lag is outside this property)")
	c.Assume("what retention removes never comes back: a missing point that a later observation returns again is not charged to retention (counted as inconclusive transient-read-miss)")
	c.Assume("a catalogue statement acknowledged to the harness is ordered after every catalogue change that completed before it was sent (used as barrier before SHOW SHARDS absent-judgements)")

	if c.ReplayIn != "" {
		replay(c)
		c.Finish()
	}
	tb := time.Now()
	bin, err := proc.Build(c.RepoDir, c.Scratch, "ts-server", false)
	if err != nil {
		c.Broken("build ts-server: %v", err)
		c.Finish()
	}
	c.Extra("build-seconds", time.Since(tb).Seconds())
	var wg sync.WaitGroup
	wg.Add(1)
	go func() {
		defer wg.Done()
		c.RunWorker("pure", 5*time.Minute)
	}()
	rounds := c.Pick(1, 4)
	for r := 0; r < rounds; r++ {
		a, b, st := genSpecs(c.Rand(uint64(1000+r)), c.Thorough(), r)
		switch os.Getenv("VERIF_C14_ONLY") {
		case "storm":
			a, b = nil, nil
		case "nostorm":
			st = nil
		}
		runRound(c, bin, r, a, b, st)
		if c.Violations() > 0 && r+1 < rounds {
			break
		}
	}
	wg.Wait()
	if os.Getenv("VERIF_C14_ONLY") == "" && c.Violations() == 0 {
		// categories the design requires
		for _, k := range []string{"expire", "expire-later", "far", "lowered", "lowered-soon", "unlimited", "raise-before", "raise-after", "equal", "refused", "writer",
			"lazy-expire", "lazy-keep", "lazy-lowered", "lazy-unlimited", "lazy-raise", "storm"} {
			if !judgedKinds[k] {
				c.Inconclusive("category-not-reached:"+k, 1)
			}
		}
		if !notLoadedSeen {
			c.Inconclusive("category-not-reached:shard-not-loaded-while-cycles-ran", 1)
		}
	}
	c.Finish()
}

var (
	judgedKinds   = map[string]bool{}
	notLoadedSeen bool
)

// runRound runs the scenarios a on a normally loading server and b on a server that is
// restarted with lazy shard loading between writing and expiry; both at the same time.
func runRound(c *vf.Ctx, bin string, round int, a, b, st []spec) {
	var wg sync.WaitGroup
	if len(a) > 0 {
		wg.Add(1)
		go func() {
			defer wg.Done()
			runWorld(c, newWorld(c, fmt.Sprintf("r%da", round), bin, 2*round, false), round, a)
		}()
	}
	if len(b) > 0 {
		wg.Add(1)
		go func() {
			defer wg.Done()
			runWorld(c, newWorld(c, fmt.Sprintf("r%db", round), bin, 2*round+1, true), round, b)
		}()
	}
	if len(st) > 0 {
		wg.Add(1)
		go func() {
			defer wg.Done()
			runWorld(c, newWorld(c, fmt.Sprintf("r%dc", round), bin, 100+round, false), round, st)
		}()
	}
	wg.Wait()
}

func runWorld(c *vf.Ctx, w *world, round int, specs []spec) {
	if err := w.srv.Start(); err != nil {
		c.Broken("%s: start: %v", w.name, err)
		return
	}
	defer w.srv.Kill()
	ts := time.Now()
	if err := w.ready(240 * time.Second); err != nil {
		c.Broken("%s: %v", w.name, err)
		return
	}
	c.Extra("ready-seconds-"+w.name, time.Since(ts).Seconds())
	w.startPollers()
	for i, sp := range specs {
		sc := &scen{Spec: sp, w: w, db: fmt.Sprintf("c14r%ds%d", round, sp.ID), rng: c.Rand(uint64(5000 + 200*round + i)), refused: map[string]int{}}
		w.scens = append(w.scens, sc)
	}
	each := func(f func(*scen)) {
		var wg sync.WaitGroup
		for _, sc := range w.scens {
			wg.Add(1)
			go func(sc *scen) {
				defer wg.Done()
				if p := vf.Catch(func() { f(sc) }); p != nil {
					c.Broken("%s scenario %s: harness panic: %v", w.name, sc.Spec.Kind, p)
				}
			}(sc)
		}
		wg.Wait()
	}
	if !w.lazy {
		if nst := countKind(specs, "storm"); nst > 0 {
			go w.pauser(nst)
		}
		each(func(sc *scen) { sc.run() })
	} else {
		each(func(sc *scen) { sc.phase1() })
		w.setDown(true)
		r0 := clk()
		w.srv.Stop(20 * time.Second)
		if err := w.srv.Start(); err != nil {
			c.Broken("%s: restart: %v", w.name, err)
			return
		}
		if err := w.ready(240 * time.Second); err != nil {
			c.Broken("%s: after restart: %v", w.name, err)
			return
		}
		w.setDown(false)
		c.Count("restarts-with-lazy-loading", 1)
		c.Extra(fmt.Sprintf("restart-seconds-%s", w.name), clk().Sub(r0).Seconds())
		each(func(sc *scen) { sc.phase2() })
	}
	if !w.srv.Alive() {
		reportDeath(c, w)
	}
	w.observeShards(true)
	w.observeDisk()
	w.stopPollers()
	conclude(c, w)
}

var (
	scenMu  sync.Mutex
	scenLog []any
)

// conclude judges all scenarios of a world and records the evidence.
func conclude(c *vf.Ctx, w *world) {
	cyc := w.tail.snapshot()
	shards, disks := w.snapshotObs()
	done := 0
	for _, cy := range cyc {
		if cy.Done {
			done++
		}
	}
	c.Count("retention-cycles-completed", int64(done))
	c.Count("retention-cycles-started", int64(len(cyc)))
	c.Count("show-shards-observations", int64(len(shards)))
	c.Count("data-dir-observations", int64(len(disks)))
	if w.tail.bad > 0 {
		c.Broken("%s: %d retention log lines could not be parsed", w.name, w.tail.bad)
	}
	if done < 10 {
		c.Broken("%s: only %d completed retention cycles found in %s", w.name, done, w.tail.path)
	}
	for _, sc := range w.scens {
		c.Eval(1)
		c.Distinct("scenario-kind", sc.Spec.Kind)
		c.Count("scenarios:"+sc.Spec.Kind, 1)
		if sc.aborted != "" {
			c.Inconclusive("scenario-aborted:"+sc.Spec.Kind, 1)
			fmt.Printf("note: %s %s aborted: %s\n", w.name, sc.Spec.Kind, sc.aborted)
			continue
		}
		vs := sc.judge(cyc, shards, disks)
		for _, v := range vs {
			c.Violation(v.Sig, v.What, v.Wit)
		}
		r := sc.res
		c.Count("judged-present:data", int64(r.PresentData))
		c.Count("judged-absent:data", int64(r.AbsentData))
		c.Count("judged-present:catalogue", int64(r.PresentCat))
		c.Count("judged-absent:catalogue(after-barrier)", int64(r.AbsentCat))
		c.Count("judged-present:storage", int64(r.PresentDisk))
		c.Count("judged-absent:storage", int64(r.AbsentDisk))
		c.Count("unjudged:expiry-inside-bracket-or-margin", int64(r.InBracket))
		c.Count("unjudged:not-yet-visible", int64(r.NotVisibleYet))
		c.Count("query-observations", int64(len(sc.obs)))
		if r.TransientMiss > 0 {
			c.Inconclusive("transient-read-miss:point-returned-again-later(not-a-retention-effect)", int64(r.TransientMiss))
		}
		if r.MissNoFollowUp > 0 {
			c.Inconclusive("miss-without-follow-up-observation", int64(r.MissNoFollowUp))
		}
		c.Distinct("expiring-point-position", sc.Spec.P1Class)
		if len(sc.segs) > 0 {
			switch d := sc.segs[0].D; {
			case d == 0:
				c.Distinct("duration-vs-shard-duration", "unlimited")
			case d == sc.S:
				c.Distinct("duration-vs-shard-duration", "equal")
			case d > sc.S:
				c.Distinct("duration-vs-shard-duration", "longer")
			default:
				c.Distinct("duration-vs-shard-duration", "shorter")
			}
		}
		expires := r.Z != ""
		switch {
		case expires && r.PresentData > 0 && r.AbsentData > 0:
			c.Nontrivial(caseKey(sc.Spec))
			markJudged(sc.Spec.Kind)
			c.Distinct("judged-both-sides-of-expiry", sc.Spec.Kind)
		case !expires && r.PresentData > 0 && r.KeptThroughCycles >= 3:
			c.Nontrivial(caseKey(sc.Spec))
			markJudged(sc.Spec.Kind)
			c.Distinct("kept-through-cycles", sc.Spec.Kind)
		case expires && sc.Spec.Lazy && r.AbsentData > 0:
			// lazy scenarios stay silent before expiry by design (a query would load the shard)
			c.Nontrivial(caseKey(sc.Spec))
			markJudged(sc.Spec.Kind)
			c.Distinct("judged-absent-after-silent-expiry", sc.Spec.Kind)
		default:
			c.Inconclusive("scenario-obligations-not-judged:"+sc.Spec.Kind, 1)
		}
		sum := map[string]any{"server": w.name, "spec": sc.Spec, "database": sc.db, "shard_duration": sc.S.String(),
			"durations": sc.segs, "points": len(sc.points), "result": r, "notes": sc.notes}
		c.Sample(sum)
		scenMu.Lock()
		scenLog = append(scenLog, sum)
		c.Extra("scenarios", scenLog)
		scenMu.Unlock()
	}
}

// replay re-executes the scenario of a witness (same kind and parameters; absolute times
// are re-derived from the current clock) on a fresh server.
func replay(c *vf.Ctx) {
	b, err := os.ReadFile(c.ReplayIn)
	if err != nil {
		c.Broken("replay: %v", err)
		return
	}
	var f struct {
		Witness struct {
			Spec  spec   `json:"spec"`
			World []spec `json:"world_specs"`
		} `json:"witness"`
	}
	if err := json.Unmarshal(b, &f); err != nil || f.Witness.Spec.Kind == "" && len(f.Witness.World) == 0 {
		c.Broken("replay: witness without scenario spec: %v", err)
		return
	}
	bin, err := proc.Build(c.RepoDir, c.Scratch, "ts-server", false)
	if err != nil {
		c.Broken("build ts-server: %v", err)
		return
	}
	sp := f.Witness.Spec
	if sp.Kind == "pure" {
		c.RunWorker("pure", 5*time.Minute)
		return
	}
	specs := f.Witness.World
	if len(specs) == 0 {
		specs = []spec{sp}
	}
	runWorld(c, newWorld(c, "replay", bin, 99, specs[0].Lazy), 0, specs)
}

// panicHead cuts a server's stdout down to the start of its fatal report.
func panicHead(s string) string {
	for _, k := range []string{"panic:", "fatal error:"} {
		if i := strings.Index(s, k); i >= 0 {
			s = s[i:]
			break
		}
	}
	if len(s) > 3500 {
		s = s[:3500]
	}
	return s
}

func countKind(specs []spec, kind string) int {
	n := 0
	for _, sp := range specs {
		if sp.Kind == kind {
			n++
		}
	}
	return n
}

var reNum = regexp.MustCompile(`[0-9]+`)

// reportDeath turns a server that died with a Go panic / runtime fatal error while the
// retention service and the scenario's writes and queries were running into a violation
// (signature: normalised first line of the report + first frame); a death without such a
// report is a failure of the machinery.
func reportDeath(c *vf.Ctx, w *world) {
	out := w.srv.StdoutTail(400000)
	head := panicHead(out)
	if !strings.HasPrefix(head, "panic:") && !strings.HasPrefix(head, "fatal error:") {
		c.Broken("%s: server died: %v\n%s", w.name, w.srv.ExitError(), w.srv.StdoutTail(1500))
		return
	}
	lines := strings.Split(head, "\n")
	first := lines[0]
	if i := strings.Index(first, "open /"); i >= 0 {
		if j := strings.Index(first[i:], ": "); j >= 0 {
			first = first[:i] + "open <path>" + first[i+j:]
		}
	}
	first = reNum.ReplaceAllString(first, "N")
	frame := ""
	for i, l := range lines {
		if strings.HasPrefix(l, "goroutine ") && i+1 < len(lines) {
			frame = lines[i+1]
			if k := strings.LastIndex(frame, "("); k > 0 {
				frame = frame[:k]
			}
			break
		}
	}
	var specs []spec
	for _, sc := range w.scens {
		specs = append(specs, sc.Spec)
	}
	wit := map[string]any{"server": w.name, "report": head, "world_specs": specs}
	c.Violation("server-crash/"+first+"/"+frame,
		"ts-server died with a Go panic while the retention service was deleting shards and the scenarios were writing and querying", wit)
}

// caseKey names what makes a scenario a distinct case: its kind and only those
// parameters that change what the kind exercises.
func caseKey(sp spec) string {
	k := sp.Kind + "|" + sp.P1Class
	switch sp.Kind {
	case "expire", "expire-later", "writer":
		k += fmt.Sprintf("|d=%d", sp.Delta)
	case "lowered", "unlimited":
		k += fmt.Sprintf("|variant=%v", sp.Coin)
	case "raise-before", "raise-after", "lazy-raise":
		k += "|to=" + sp.AlterTo
	case "storm":
		k = "storm"
	}
	return k
}

func markJudged(kind string) {
	scenMu.Lock()
	judgedKinds[kind] = true
	scenMu.Unlock()
}
