package main

import (
	"fmt"
	"math/rand/v2"
	"os"
	"strconv"
	"strings"
	"sync"
	"time"

	"verifharness/proc"
)

const (
	sec        = int64(time.Second)
	zeroToUnix = int64(62135596800) // seconds between Go's zero time and the Unix epoch
)

// spec holds the seed-derived parameters of one scenario (the replayable witness part).
type spec struct {
	ID      int    `json:"id"`
	Kind    string `json:"kind"`
	Delta   int    `json:"delta_s"`  // intended expiry instant X, seconds after the scenario start
	P1Class string `json:"p1_class"` // where in its group the expiring point sits
	P1Off   int64  `json:"p1_off_ns"`
	P2Off   int64  `json:"p2_off_ns"` // survivor: this far after the group end
	AlterAt int    `json:"alter_at_s"`
	AlterTo string `json:"alter_to"`
	Coin    bool   `json:"coin"`
	Lazy    bool   `json:"lazy"`
	// storm: expiry instants of the scenarios of one server are staggered by this many ms
	// so that, whatever the phase of the 1 s retention ticker, some shard expires just
	// before a cycle starts while large writes into it are in flight
	StaggerMs int `json:"stagger_ms"`
	Batch     int `json:"batch_rows"`
}

type durSeg struct {
	D    time.Duration `json:"duration"` // 0 = unlimited
	Lo   time.Time     `json:"sent"`
	Hi   time.Time     `json:"acked"`
	Stmt string        `json:"stmt"`
}

type point struct {
	Role   string    `json:"role"` // expiring | survivor | old | autogen | rewritten | writer-exp | writer-surv
	RP     string    `json:"rp"`
	T      int64     `json:"time_ns"`
	GS     int64     `json:"group_start_ns"`
	GE     int64     `json:"group_end_ns"`
	W0     time.Time `json:"write_sent"`
	W1     time.Time `json:"write_acked"`
	ids    map[uint64]bool
	dirIDs map[uint64]bool
}

type qobs struct {
	T0, T1 time.Time
	Err    string
	Seen   map[string]bool // rp/time
}

type scen struct {
	Spec    spec
	w       *world
	rng     *rand.Rand
	db      string
	S       time.Duration
	T0      time.Time
	ge      int64
	segs    []durSeg
	points  []*point
	obs     []qobs
	ambFrom time.Time // outcome of a statement unknown from here on: nothing later is judged
	notes   []string
	aborted string
	nval    int
	p1, p2  *point
	refused map[string]int
	res     scenResult
}

func (sc *scen) note(f string, a ...any) {
	sc.notes = append(sc.notes, clk().Format("15:04:05.000")+" "+fmt.Sprintf(f, a...))
}

func (sc *scen) abort(f string, a ...any) {
	sc.aborted = fmt.Sprintf(f, a...)
	sc.note("ABORT %s", sc.aborted)
}

func groupOf(t int64, S time.Duration) (int64, int64) {
	gs := time.Unix(0, t).UTC().Truncate(S)
	return gs.UnixNano(), gs.Add(S).UnixNano()
}

func durStr(d time.Duration) string {
	if d%time.Second != 0 {
		return strconv.FormatInt(int64(d/time.Millisecond), 10) + "ms"
	}
	return strconv.FormatInt(int64(d/time.Second), 10) + "s"
}

func (sc *scen) addSeg(d time.Duration, lo, hi time.Time, stmt string) {
	sc.segs = append(sc.segs, durSeg{D: d, Lo: lo, Hi: hi, Stmt: stmt})
}

// createDB creates the database and its default policy rp1 (duration d, shard duration S).
func (sc *scen) createDB(d time.Duration) bool {
	if _, _, err, _ := sc.w.exec("", "CREATE DATABASE "+sc.db); err != nil {
		sc.abort("create database: %v", err)
		return false
	}
	return sc.createRP(d, true)
}

func (sc *scen) createRP(d time.Duration, mustWork bool) bool {
	stmt := fmt.Sprintf("CREATE RETENTION POLICY rp1 ON %s DURATION %s REPLICATION 1 SHARD DURATION %s DEFAULT", sc.db, durStr(d), durStr(sc.S))
	lo, hi, err, tr := sc.w.exec("", stmt)
	if tr {
		sc.abort("create policy: transport error %v", err)
		return false
	}
	if err != nil {
		sc.note("refused: %s: %v", stmt, err)
		if mustWork {
			sc.abort("create policy refused: %v", err)
		}
		return false
	}
	sc.addSeg(d, lo, hi, stmt)
	sc.note("%s", stmt)
	return true
}

// alter changes the policy duration; returns whether it was applied.
func (sc *scen) alter(d time.Duration) bool {
	stmt := fmt.Sprintf("ALTER RETENTION POLICY rp1 ON %s DURATION %s", sc.db, durStr(d))
	lo, hi, err, tr := sc.w.exec("", stmt)
	if tr {
		sc.ambFrom = lo
		sc.abort("alter: transport error %v", err)
		return false
	}
	if err != nil {
		sc.note("refused: %s: %v", stmt, err)
		return false
	}
	sc.addSeg(d, lo, hi, stmt)
	sc.note("%s", stmt)
	return true
}

// write sends one point; it becomes part of the model only if acknowledged (204).
func (sc *scen) write(rp, role string, t int64, S time.Duration) *point {
	return sc.writeK(rp, role, t, S, "a")
}

// lateSeries writes further series into the shard group of p some retention cycles after
// the group came into being: their points hash to other partitions, whose shards of that
// group exist in the catalogue but are opened by the engine only now.
func (sc *scen) lateSeries(p *point) {
	if p == nil {
		return
	}
	sc.observeFor(3 * time.Second)
	for i, k := range []string{"b", "c", "d", "e"} {
		t := p.T + int64(i+1)
		if t >= p.GE {
			t = p.T - int64(i+1)
		}
		sc.writeK(p.RP, "late-series", t, sc.S, k)
	}
}

func (sc *scen) writeK(rp, role string, t int64, S time.Duration, k string) *point {
	sc.nval++
	body := fmt.Sprintf("m,k=%s v=%di %d", k, sc.nval, t)
	var w0, w1 time.Time
	var r proc.WriteResult
	for try := 0; try < 4; try++ {
		w0 = clk()
		r = sc.w.srv.Write(sc.db, body, vals("rp", rp))
		w1 = clk()
		// a 5xx answer is a refusal for reasons other than the retention window (seen: the
		// store has not yet learnt of a shard group that was created for this very write)
		if r.Err != nil || r.Status < 500 {
			break
		}
		sc.note("write %s t=%d: %d %.120s (attempt %d)", role, t, r.Status, r.Body, try+1)
		sc.w.c.Count("writes-5xx-retried", 1)
		time.Sleep(300 * time.Millisecond)
	}
	if !r.Acked() {
		if sc.refused[role]++; sc.refused[role] <= 3 {
			sc.note("write %s t=%d not acknowledged: %d %.120q %v", role, t, r.Status, r.Body, r.Err)
		}
		sc.w.c.Count("writes-refused:"+role, 1)
		return nil
	}
	gs, ge := groupOf(t, S)
	p := &point{Role: role, RP: rp, T: t, GS: gs, GE: ge, W0: w0, W1: w1, ids: map[uint64]bool{}, dirIDs: map[uint64]bool{}}
	sc.points = append(sc.points, p)
	sc.w.c.Count("writes-acked", 1)
	return p
}

func key(rp string, t int64) string { return rp + "/" + strconv.FormatInt(t, 10) }

// observe runs one bracketed query for everything the scenario ever wrote.
func (sc *scen) observe() {
	t0 := clk()
	res, err := sc.w.srv.Query(sc.db, `SELECT v FROM "rp1"."m"; SELECT v FROM "autogen"."m"`, nil)
	t1 := clk()
	o := qobs{T0: t0, T1: t1, Seen: map[string]bool{}}
	if err != nil {
		o.Err = err.Error()
		sc.w.c.Count("query-observation-errors", 1)
		sc.obs = append(sc.obs, o)
		return
	}
	for _, r := range res.Results {
		rp := "rp1"
		if r.ID == 1 {
			rp = "autogen"
		}
		for _, se := range r.Series {
			for _, v := range se.Values {
				if len(v) > 0 {
					if n, err := strconv.ParseInt(fmt.Sprint(v[0]), 10, 64); err == nil {
						o.Seen[key(rp, n)] = true
					}
				}
			}
		}
	}
	sc.obs = append(sc.obs, o)
}

func (sc *scen) nap() { time.Sleep(time.Duration(350+sc.rng.IntN(300)) * time.Millisecond) }

// observeUntil keeps observing until the harness clock passes t (capped).
func (sc *scen) observeUntil(t time.Time) {
	for i := 0; i < 1500 && clk().Before(t); i++ {
		sc.observe()
		sc.nap()
	}
}

func (sc *scen) observeFor(d time.Duration) { sc.observeUntil(clk().Add(d)) }

// silentUntil waits without touching the database (lazy scenarios).
func (sc *scen) silentUntil(t time.Time) {
	for i := 0; i < 3000 && clk().Before(t); i++ {
		time.Sleep(200 * time.Millisecond)
	}
}

// waitGone waits until the log shows that deletion of p must have happened (enough
// retention cycles after its expiry) or the watchdog expires. Returns whether it did.
func (sc *scen) waitGone(p *point, wd time.Duration, silent bool) bool {
	if wd < 60*time.Second {
		wd = 60 * time.Second // expiry instant already in the past
	}
	wd = wd.Round(time.Second)
	deadline := clk().Add(wd)
	for i := 0; i < 3000 && clk().Before(deadline); i++ {
		if z, ok := sc.certain(p, sc.w.tail.snapshot()); ok && clk().After(z) {
			return true
		}
		if silent {
			time.Sleep(300 * time.Millisecond)
		} else {
			sc.observe()
			sc.nap()
		}
	}
	sc.w.c.Inconclusive("liveness-watchdog:deletion-not-certain-in-time", 1)
	sc.note("watchdog: deletion of %s not certain within %s", p.Role, wd)
	return false
}

// setup creates db+policy so that the group ending at the hour boundary 1–2 h ago
// expires Delta seconds after T0, and writes the standard points.
func (sc *scen) setup(unlimited bool) bool {
	sc.S = time.Hour
	sc.T0 = clk()
	sc.ge = sc.T0.Truncate(time.Hour).Add(-time.Hour).UnixNano()
	var d time.Duration
	if !unlimited {
		x := sc.T0.Add(time.Duration(sc.Spec.Delta) * time.Second).UnixNano()
		d = time.Duration((x-sc.ge+sec-1)/sec)*time.Second + time.Duration(sc.Spec.StaggerMs)*time.Millisecond
	}
	if !sc.createDB(d) {
		return false
	}
	return sc.writeStandard()
}

func (sc *scen) writeStandard() bool {
	sc.p1 = sc.write("rp1", "expiring", sc.ge-sc.Spec.P1Off, sc.S)
	sc.p2 = sc.write("rp1", "survivor", sc.ge+sc.Spec.P2Off, sc.S)
	sc.write("autogen", "autogen", sc.ge-400*24*3600*sec, 168*time.Hour)
	if sc.p1 == nil || sc.p2 == nil {
		sc.abort("standard points not acknowledged")
		sc.w.c.Inconclusive("write-refused:"+sc.Spec.Kind, 1)
		return false
	}
	return true
}

func (sc *scen) xOf(p *point, d time.Duration) time.Time { return time.Unix(0, p.GE).Add(d) }

func (sc *scen) curD() time.Duration { return sc.segs[len(sc.segs)-1].D }

// findEqual looks for a shard duration S (whole seconds, 1h..2h) one of whose multiples,
// counted from Go's zero time as Truncate does, falls 40..70 s after now.
func findEqual(now time.Time, rng *rand.Rand) (S time.Duration, x time.Time, ok bool) {
	base := now.Unix() + 40
	type hit struct{ s, x int64 }
	var hits []hit
	for tau := base; tau <= base+30; tau++ {
		for s := int64(3600); s <= 7200; s++ {
			if (tau+zeroToUnix)%s == 0 {
				hits = append(hits, hit{s, tau})
			}
		}
	}
	if len(hits) == 0 {
		return 0, time.Time{}, false
	}
	h := hits[rng.IntN(len(hits))]
	return time.Duration(h.s) * time.Second, time.Unix(h.x, 0), true
}

func (sc *scen) finishBarrier() {
	if !sc.w.observeShards(true) {
		sc.note("barrier observation failed")
	}
}

// run executes the script of a non-lazy scenario.
func (sc *scen) run() {
	sp := sc.Spec
	switch sp.Kind {
	case "expire", "expire-later", "writer":
		if !sc.setup(false) {
			return
		}
		x := sc.xOf(sc.p1, sc.curD())
		if sp.Kind == "writer" {
			// points keep arriving in the expiring group and in its neighbour while the
			// retention service runs and removes the former
			for k := int64(1); k <= 400 && clk().Before(x.Add(3*time.Second)); k++ {
				sc.write("rp1", "writer-exp", sc.ge-sc.Spec.P1Off-k*int64(time.Millisecond), sc.S)
				sc.write("rp1", "writer-surv", sc.ge+sc.Spec.P2Off+k*int64(time.Millisecond), sc.S)
				sc.observe()
				time.Sleep(time.Duration(100+sc.rng.IntN(120)) * time.Millisecond)
			}
		}
		if sc.waitGone(sc.p1, time.Until(x)+60*time.Second, false) {
			sc.observeFor(4 * time.Second)
			sc.finishBarrier()
		}
	case "storm":
		if !sc.setup(false) {
			sc.w.stormX <- time.Time{}
			return
		}
		x := sc.xOf(sc.p1, sc.curD())
		sc.w.stormX <- x
		sc.observeUntil(x.Add(-4 * time.Second))
		sc.storm(x)
		if sc.waitGone(sc.p1, time.Until(x)+60*time.Second, false) {
			sc.observeFor(3 * time.Second)
			sc.finishBarrier()
		}
	case "shard-raised":
		// SHARD DURATION raised from 1 h to 1 d by an ALTER that does not name the index
		// duration; a point two days back then gets a one-day shard group. The policy duration
		// is then set so that [group start + 1 h] + duration already lies in the past while the
		// group's own end + duration is most of a day away: whatever the policy's index group
		// duration was left at, the point is inside the retention window and must stay readable
		sc.S = time.Hour
		sc.T0 = clk()
		sc.ge = sc.T0.Truncate(time.Hour).Add(-time.Hour).UnixNano()
		if !sc.createDB(1000 * time.Hour) {
			return
		}
		sc.write("rp1", "old", sc.ge-30*60*sec, sc.S) // a one-hour group (and its index group) exists
		sc.write("autogen", "autogen", sc.ge-400*24*3600*sec, 168*time.Hour)
		stmt := fmt.Sprintf("ALTER RETENTION POLICY rp1 ON %s SHARD DURATION 1d", sc.db)
		if _, _, err, tr := sc.w.exec("", stmt); err != nil || tr {
			sc.abort("alter shard duration: %v", err)
			return
		}
		sc.note("%s", stmt)
		sc.S = 24 * time.Hour
		day0 := sc.T0.Add(-48 * time.Hour).Truncate(24 * time.Hour)
		sc.ge = day0.Add(24 * time.Hour).UnixNano()
		sc.p1 = sc.write("rp1", "survivor", day0.Add(30*time.Minute).UnixNano(), sc.S)
		sc.p2 = sc.write("rp1", "survivor", day0.Add(13*time.Hour).UnixNano(), sc.S)
		if sc.p1 == nil || sc.p2 == nil {
			sc.abort("points not acknowledged")
			sc.w.c.Inconclusive("write-refused:"+sc.Spec.Kind, 1)
			return
		}
		sc.observeFor(3 * time.Second)
		d := clk().Sub(day0.Add(time.Hour)).Truncate(time.Second) - 60*time.Second
		if !sc.alter(d) {
			sc.abort("alter duration refused")
			return
		}
		sc.observeFor(20 * time.Second)
	case "far":
		if !sc.setup(false) {
			return
		}
		sc.observeFor(35 * time.Second)
	case "lowered", "lowered-soon":
		if !sc.setup(false) {
			return
		}
		sc.observeFor(time.Duration(sp.AlterAt) * time.Second)
		now := clk()
		var d time.Duration
		if sp.Kind == "lowered" {
			// as low as the catalogue accepts, or anything that puts X at least 10 s into the past
			d = time.Hour
			if room := (now.UnixNano()-sc.ge)/sec - 3600 - 10; sp.Coin && room > 0 {
				d += time.Duration(sc.rng.Int64N(room+1)) * time.Second
			}
		} else {
			d = time.Duration((now.UnixNano()-sc.ge)/sec+25) * time.Second
		}
		if !sc.alter(d) {
			sc.abort("lowering refused")
			return
		}
		x := sc.xOf(sc.p1, d)
		if sc.waitGone(sc.p1, time.Until(x)+60*time.Second, false) {
			sc.observeFor(4 * time.Second)
			sc.finishBarrier()
		}
	case "unlimited":
		if !sc.setup(true) {
			return
		}
		sc.write("rp1", "old", sc.ge-3*365*24*3600*sec-sc.Spec.P1Off, sc.S)
		sc.observeFor(12 * time.Second)
		if sp.Coin {
			// finite but far, then unlimited again
			if sc.alter(time.Duration((clk().UnixNano()-sc.ge)/sec+3*3600) * time.Second) {
				sc.observeFor(8 * time.Second)
				sc.alter(0)
			}
		}
		sc.observeFor(12 * time.Second)
	case "raise-before":
		if !sc.setup(false) {
			return
		}
		xOld := sc.xOf(sc.p1, sc.curD())
		sc.lateSeries(sc.p1)
		sc.observeUntil(sc.T0.Add(time.Duration(sp.AlterAt) * time.Second))
		d := sc.curD() + 3*time.Hour
		if sp.AlterTo == "unlimited" {
			d = 0
		}
		sc.alter(d)
		sc.observeUntil(xOld.Add(12 * time.Second))
	case "raise-after":
		if !sc.setup(false) {
			return
		}
		x := sc.xOf(sc.p1, sc.curD())
		if !sc.waitGone(sc.p1, time.Until(x)+60*time.Second, false) {
			return
		}
		sc.observeFor(time.Second)
		d := sc.curD() + 2*time.Hour
		if sp.AlterTo == "unlimited" {
			d = 0
		}
		if sc.alter(d) {
			// the same time range is writable again; the old point must stay gone
			sc.write("rp1", "rewritten", sc.p1.T-1, sc.S)
			sc.observeFor(10 * time.Second)
		}
		sc.finishBarrier()
	case "equal":
		sc.T0 = clk()
		S, x, ok := findEqual(sc.T0, sc.rng)
		if !ok {
			sc.w.c.Inconclusive("category-not-reached:duration-equals-shard-duration", 1)
			sc.abort("no shard duration with a boundary in the window")
			return
		}
		sc.S = S
		sc.ge = x.Add(-S).UnixNano()
		if !sc.createDB(S) || !sc.writeStandard() {
			return
		}
		if sc.waitGone(sc.p1, time.Until(x)+60*time.Second, false) {
			sc.observeFor(4 * time.Second)
			sc.finishBarrier()
		}
	case "refused":
		// duration shorter than the shard duration: refused at creation and at alteration,
		// so the data keeps the duration that was accepted
		sc.T0 = clk()
		sc.S = 2 * time.Hour
		if _, _, err, _ := sc.w.exec("", "CREATE DATABASE "+sc.db); err != nil {
			sc.abort("create database: %v", err)
			return
		}
		if sc.createRP(time.Hour, false) {
			sc.w.c.Distinct("duration-below-shard-duration", "accepted-at-create")
		} else if sc.aborted != "" {
			return
		} else {
			sc.w.c.Distinct("duration-below-shard-duration", "refused-at-create")
			if !sc.createRP(3*time.Hour, true) {
				return
			}
			if sc.alter(time.Hour) {
				sc.w.c.Distinct("duration-below-shard-duration", "accepted-at-alter")
			} else {
				sc.w.c.Distinct("duration-below-shard-duration", "refused-at-alter")
			}
		}
		if sc.aborted != "" {
			return
		}
		t := sc.T0.Add(-time.Duration(5+sc.rng.IntN(40)) * time.Minute).UnixNano()
		sc.p1 = sc.write("rp1", "survivor", t, sc.S)
		sc.write("autogen", "autogen", t-400*24*3600*sec, 168*time.Hour)
		sc.observeFor(18 * time.Second)
	default:
		sc.abort("unknown kind %q", sp.Kind)
	}
}

// storm sends large batches into the expiring group (every row still inside the
// retention window when the batch is sent, the last ones by nanoseconds) from several
// connections until 1.5 s after the expiry instant. Only the first row of each
// acknowledged batch enters the model.
func (sc *scen) storm(x time.Time) {
	var sb strings.Builder
	for j := 0; j < sc.Spec.Batch; j++ {
		fmt.Fprintf(&sb, "m,k=a v=%di %d\n", j, sc.ge-1-int64(j))
	}
	body := sb.String()
	var mu sync.Mutex
	var wg sync.WaitGroup
	stopAt := x.Add(1500 * time.Millisecond)
	for g := 0; g < 3; g++ {
		wg.Add(1)
		go func() {
			defer wg.Done()
			for i := 0; i < 5000 && clk().Before(stopAt); i++ {
				w0 := clk()
				r := sc.w.srv.Write(sc.db, body, vals("rp", "rp1"))
				w1 := clk()
				mu.Lock()
				switch {
				case r.Acked():
					gs, ge := groupOf(sc.ge-1, sc.S)
					sc.points = append(sc.points, &point{Role: "storm", RP: "rp1", T: sc.ge - 1, GS: gs, GE: ge, W0: w0, W1: w1, ids: map[uint64]bool{}, dirIDs: map[uint64]bool{}})
					sc.w.c.Count("storm:batches-acked", 1)
				case r.Err != nil:
					sc.w.c.Count("storm:batches-transport-error", 1)
				default:
					sc.w.c.Count(fmt.Sprintf("storm:batches-status-%d", r.Status), 1)
					if sc.refused["storm"]++; sc.refused["storm"] <= 3 {
						sc.note("storm batch: %d %.160q", r.Status, r.Body)
					}
				}
				mu.Unlock()
			}
		}()
	}
	wg.Wait()
}

// phase1 of a lazy scenario: create, write, establish visibility; the server is then
// restarted with lazy loading so that the shards of old groups are not opened.
func (sc *scen) phase1() {
	ok := sc.setup(sc.Spec.Kind == "lazy-unlimited")
	if !ok {
		return
	}
	for i := 0; i < 40; i++ {
		sc.observe()
		o := sc.obs[len(sc.obs)-1]
		if o.Seen[key("rp1", sc.p1.T)] && o.Seen[key("rp1", sc.p2.T)] {
			break
		}
		sc.nap()
	}
}

func (sc *scen) loadState(label string) {
	st, err := sc.w.srv.State(sc.db)
	if err != nil {
		return
	}
	for _, sh := range st.Shards {
		if sh.DB != sc.db || sh.RP != "rp1" {
			continue
		}
		for _, d := range sc.w.listDirs() {
			if d.ID == sh.ID && d.DB == sc.db && d.End == sc.p1.GE {
				s := "opened"
				if !sh.Opened {
					s = "not-loaded"
				}
				sc.w.c.Distinct("lazy:shard-of-old-group:"+label, s)
				if !sh.Opened && label != "after-restart" {
					scenMu.Lock()
					notLoadedSeen = true
					scenMu.Unlock()
				}
				sc.note("shard %d of the old group is %s (%s)", sh.ID, s, label)
			}
		}
	}
}

func (sc *scen) phase2() {
	if sc.aborted != "" || sc.p1 == nil {
		return
	}
	sp := sc.Spec
	switch sp.Kind {
	case "lazy-expire":
		x := sc.xOf(sc.p1, sc.curD())
		sc.loadState("after-restart")
		if sc.waitGone(sc.p1, time.Until(x)+60*time.Second, true) {
			sc.observeFor(5 * time.Second)
			sc.finishBarrier()
		}
	case "lazy-keep", "lazy-unlimited":
		sc.loadState("after-restart")
		sc.silentUntil(clk().Add(12 * time.Second))
		sc.loadState("after-cycles-before-first-query")
		sc.observeFor(8 * time.Second)
	case "lazy-lowered":
		sc.loadState("after-restart")
		if !sc.alter(time.Hour) {
			return
		}
		x := sc.xOf(sc.p1, time.Hour)
		if sc.waitGone(sc.p1, time.Until(x)+60*time.Second, true) {
			sc.observeFor(5 * time.Second)
			sc.finishBarrier()
		}
	case "lazy-raise":
		xOld := sc.xOf(sc.p1, sc.curD())
		sc.loadState("after-restart")
		d := sc.curD() + 3*time.Hour
		if sp.AlterTo == "unlimited" {
			d = 0
		}
		sc.alter(d)
		sc.silentUntil(xOld.Add(8 * time.Second))
		sc.loadState("after-cycles-before-first-query")
		sc.observeFor(8 * time.Second)
	}
}

// pickP1 chooses where in its group the expiring point sits; maxOff is the room that
// keeps the write inside the retention window with 15 s to spare.
func pickP1(rng *rand.Rand, delta int, S time.Duration) (string, int64) {
	maxOff := int64(delta-15) * sec
	classes := []string{"last-ns"}
	if maxOff >= 5*sec {
		classes = append(classes, "near-end")
	}
	if maxOff > 6*sec {
		classes = append(classes, "mid")
	}
	if maxOff >= int64(S) {
		classes = append(classes, "group-start", "group-start")
	}
	switch cl := classes[rng.IntN(len(classes))]; cl {
	case "last-ns":
		return cl, 1
	case "near-end":
		return cl, sec + rng.Int64N(4*sec)
	case "mid":
		hi := maxOff
		if hi > int64(30*time.Minute) {
			hi = int64(30 * time.Minute)
		}
		return cl, 5*sec + rng.Int64N(hi-5*sec)
	default:
		return "group-start", int64(S)
	}
}

func pickP2(rng *rand.Rand) int64 {
	switch rng.IntN(3) {
	case 0:
		return 0 // the first instant of the next group
	case 1:
		return 10 * sec
	default:
		return rng.Int64N(int64(30 * time.Minute))
	}
}

// genSpecs derives the scenario list of one round from the seed.
func genSpecs(rng *rand.Rand, thorough bool, round int) (a, b, st []spec) {
	mk := func(kind string, delta int) spec {
		sp := spec{Kind: kind, Delta: delta, Coin: rng.IntN(2) == 0}
		sp.P1Class, sp.P1Off = pickP1(rng, delta, time.Hour)
		sp.P2Off = pickP2(rng)
		if rng.IntN(2) == 0 {
			sp.AlterTo = "unlimited"
		} else {
			sp.AlterTo = "plus"
		}
		return sp
	}
	later := 90
	if thorough {
		later = 90 + 30*(round%3)
	}
	a = append(a, mk("expire", 20+rng.IntN(11)))
	a = append(a, mk("expire-later", later))
	a = append(a, mk("far", 3*3600))
	lo := mk("lowered", 3*3600)
	lo.AlterAt = 8 + rng.IntN(6)
	a = append(a, lo)
	ls := mk("lowered-soon", 3*3600)
	ls.AlterAt = 6 + rng.IntN(5)
	a = append(a, ls)
	a = append(a, mk("unlimited", 3*3600))
	rb := mk("raise-before", 45)
	rb.AlterAt = 14 + rng.IntN(8)
	a = append(a, rb)
	a = append(a, mk("raise-after", 25+rng.IntN(8)))
	a = append(a, mk("equal", 40))
	a = append(a, mk("refused", 3*3600))
	a = append(a, mk("writer", 40))
	a = append(a, mk("shard-raised", 3*3600))
	if thorough {
		kinds := []string{"expire", "lowered", "raise-before", "raise-after", "unlimited", "writer", "lowered-soon"}
		for i := 0; i < 4; i++ {
			k := kinds[rng.IntN(len(kinds))]
			var sp spec
			switch k {
			case "expire":
				sp = mk(k, 20+rng.IntN(60))
			case "lowered", "lowered-soon", "unlimited":
				sp = mk(k, 3*3600)
				sp.AlterAt = 5 + rng.IntN(20)
			case "raise-before":
				sp = mk(k, 45+rng.IntN(30))
				sp.AlterAt = 10 + rng.IntN(sp.Delta-25)
			case "raise-after":
				sp = mk(k, 25+rng.IntN(30))
			default:
				sp = mk(k, 40+rng.IntN(20))
			}
			a = append(a, sp)
		}
	}
	for _, k := range []string{"lazy-expire", "lazy-keep", "lazy-lowered", "lazy-unlimited", "lazy-raise"} {
		d := 3 * 3600
		if k == "lazy-expire" || k == "lazy-raise" {
			d = 75
		}
		sp := mk(k, d)
		sp.Lazy = true
		b = append(b, sp)
	}
	for i := range a {
		a[i].ID = i
	}
	nst, batch := 12, 4000
	if v := os.Getenv("VERIF_C14_STORM"); v != "" { // experiments only: "<databases>,<rows per batch>"
		fmt.Sscanf(v, "%d,%d", &nst, &batch)
	}
	for i := 0; i < nst; i++ {
		sp := mk("storm", 30)
		sp.P1Class, sp.P1Off = "last-ns", 1
		sp.StaggerMs = i * 1000 / nst
		sp.Batch = batch
		sp.ID = 200 + i
		st = append(st, sp)
	}
	for i := range b {
		b[i].ID = 100 + i
	}
	return a, b, st
}
