package main

import (
	"fmt"
	"math"
	"path/filepath"
	"time"

	"github.com/openGemini/openGemini/engine"
	"github.com/openGemini/openGemini/lib/config"
	"github.com/openGemini/openGemini/lib/logger"
	meta "github.com/openGemini/openGemini/lib/util/lifted/influx/meta"

	"verifharness/vf"
)

// pureWorker (child process) exercises the expiry test of real engine shard objects:
// shards built by engine.NewShard with generated group end times, their duration
// descriptor set the way the retention service sets it (through GetDuration()), and
// IsExpired() bracketed by two clock readings. Specification: duration 0 ⇒ never
// expired; X = end + duration < t0 ⇒ expired; X >= t1 ⇒ not expired; X inside the
// bracket is not judged.
func pureWorker(c *vf.Ctx) {
	rng := c.Rand(77)
	// keep the engine's own log lines inside the scratch directory
	lc := config.NewLogger(config.AppSingle)
	lc.Path = filepath.Join(c.Scratch, "logs")
	logger.InitLogger(lc)
	type expirer interface {
		IsExpired() bool
		GetDuration() *meta.DurationDescriptor
		GetEndTime() time.Time
	}
	now := clk()
	hour := now.Truncate(time.Hour)
	ends := []time.Time{
		hour, hour.Add(-time.Hour), hour.Add(-2 * time.Hour), hour.Add(time.Hour), hour.Add(24 * time.Hour),
		now.Add(-time.Second).Truncate(time.Second), now.Add(-time.Minute).Truncate(time.Second),
		hour.Add(-7 * 24 * time.Hour), hour.Add(-365 * 24 * time.Hour), hour.Add(-50 * 365 * 24 * time.Hour),
		time.Unix(0, 0).UTC(), time.Unix(3600, 0).UTC(), hour.Add(10 * 365 * 24 * time.Hour),
	}
	lock := filepath.Join(c.Scratch, "LOCK")
	var shards []expirer
	for i, end := range ends {
		dur := time.Hour
		if i%3 == 1 {
			dur = 24 * time.Hour
		}
		start := end.Add(-dur)
		if start.Before(time.Unix(0, 0)) {
			start = time.Unix(0, 0).UTC()
		}
		dir := fmt.Sprintf("%d_%d_%d_%d", i+1, start.UnixNano(), end.UnixNano(), i+1)
		dp := filepath.Join(c.Scratch, "data", "db0", "0", "rp0", dir)
		wp := filepath.Join(c.Scratch, "wal", "db0", "0", "rp0", dir)
		ident := &meta.ShardIdentifier{ShardID: uint64(i + 1), ShardGroupID: uint64(i + 1), OwnerDb: "db0", OwnerPt: 0, Policy: "rp0"}
		di := &meta.DurationDescriptor{}
		tr := &meta.TimeRangeInfo{StartTime: start, EndTime: end}
		c.LogInput(map[string]any{"kind": "pure", "step": "NewShard", "start": start, "end": end})
		var sh expirer
		if p := vf.Catch(func() {
			sh = engine.NewShard(dp, wp, &lock, ident, di, tr, engine.NewEngineOptions(), config.TSSTORE, nil)
		}); p != nil {
			c.Broken("pure: engine.NewShard panicked: %v", p)
			return
		}
		if !sh.GetEndTime().Equal(end) {
			c.Broken("pure: shard end time %v != %v", sh.GetEndTime(), end)
			return
		}
		shards = append(shards, sh)
	}
	offs := []time.Duration{
		-100 * 365 * 24 * time.Hour, -10 * 365 * 24 * time.Hour, -24 * time.Hour, -time.Hour, -time.Minute, -time.Second,
		-time.Millisecond, -2 * time.Microsecond, 2 * time.Microsecond, time.Millisecond, time.Second, time.Minute, time.Hour,
		24 * time.Hour, 10 * 365 * 24 * time.Hour, 100 * 365 * 24 * time.Hour,
	}
	n := c.Pick(20000, 400000)
	judgedTrue, judgedFalse, unj, skipped := 0, 0, 0, 0
	for i := 0; i < n; i++ {
		sh := shards[rng.IntN(len(shards))]
		end := sh.GetEndTime()
		if i%64 == 0 {
			c.LogInput(map[string]any{"kind": "pure", "end": end, "case": i})
		}
		var d time.Duration
		class := ""
		switch k := rng.IntN(10); {
		case k == 0:
			d, class = 0, "unlimited"
		case k == 1:
			d, class = time.Duration(math.MaxInt64), "max-duration"
		case k == 2:
			d, class = time.Hour*time.Duration(1+rng.IntN(24*400)), "whole-hours"
		default:
			off := offs[rng.IntN(len(offs))]
			if rng.IntN(3) == 0 {
				off = time.Duration(rng.Int64N(int64(2*time.Hour))) - time.Hour
			}
			// duration that puts X = end + d at now + off; only positive durations exist
			dd := clk().Add(off).Sub(end)
			if dd <= 0 {
				skipped++
				continue
			}
			d, class = dd, "x-at-now"+signClass(off)
		}
		sh.GetDuration().Duration = d
		x := end.Add(d)
		t0 := clk()
		got := sh.IsExpired()
		t1 := clk()
		c.Eval(1)
		var want, judged bool
		switch {
		case d == 0:
			want, judged = false, true
		case x.Before(t0):
			want, judged = true, true
		case !x.Before(t1):
			want, judged = false, true
		}
		if !judged {
			unj++
			continue
		}
		if want {
			judgedTrue++
		} else {
			judgedFalse++
		}
		c.Distinct("pure:case-class", class+fmt.Sprintf("/expired=%v", want))
		if got != want {
			c.Violation(fmt.Sprintf("pure:IsExpired=%v/want=%v/%s", got, want, class),
				fmt.Sprintf("engine shard with end %s and duration %s: IsExpired() = %v between %s and %s", end.Format(time.RFC3339Nano), d, got, t0.Format(time.RFC3339Nano), t1.Format(time.RFC3339Nano)),
				map[string]any{"spec": spec{Kind: "pure"}, "end": end, "duration_ns": int64(d), "t0": t0, "t1": t1, "x": x, "got": got})
			break
		}
	}
	c.Count("pure:IsExpired-judged-expired", int64(judgedTrue))
	c.Count("pure:IsExpired-judged-not-expired", int64(judgedFalse))
	c.Count("pure:IsExpired-unjudged-in-bracket", int64(unj))
	c.Count("pure:generated-negative-duration-skipped", int64(skipped))
	if judgedTrue > 0 && judgedFalse > 0 {
		c.Nontrivial("pure:IsExpired-both-outcomes")
	}
}

func signClass(off time.Duration) string {
	a := off
	if a < 0 {
		a = -a
	}
	s := "+"
	if off < 0 {
		s = "-"
	}
	switch {
	case a < time.Millisecond:
		return s + "us"
	case a < time.Second:
		return s + "ms"
	case a < time.Hour:
		return s + "s..min"
	default:
		return s + "hours.."
	}
}
