package main

import (
	"fmt"
	"sort"
	"time"
)

const (
	margin     = 2 * time.Second // distance from an expiry instant inside which nothing is judged
	needCycles = 3               // completed retention cycles after expiry that make deletion certain
)

// possEnd is the latest instant at which segment i's duration may still have been the
// one a retention cycle worked with: until the next alteration was acknowledged (plus the
// margin), or the end of a cycle that had started before that acknowledgement.
func (sc *scen) possEnd(i int, cyc []cycle) time.Time {
	if i == len(sc.segs)-1 {
		return farFuture
	}
	hi := sc.segs[i+1].Hi
	pe := hi.Add(margin)
	for k, c := range cyc {
		if !c.Start.Before(hi) {
			break
		}
		if c.Done {
			if c.End.After(pe) {
				pe = c.End
			}
		} else if k == len(cyc)-1 {
			return farFuture // still running: no bound
		}
	}
	return pe
}

// earliest returns E: the earliest instant at which the retention service may remove
// point p's shard without violating the property, given every duration that was or may
// have been in force. Before E the data must be there.
func (sc *scen) earliest(p *point, cyc []cycle) time.Time {
	e := farFuture
	if p.RP != "rp1" {
		return e // autogen: unlimited, never altered
	}
	for i, s := range sc.segs {
		if s.D == 0 {
			continue
		}
		cand := time.Unix(0, p.GE).Add(s.D)
		if s.Lo.After(cand) {
			cand = s.Lo
		}
		if p.W0.After(cand) {
			cand = p.W0
		}
		if cand.Before(sc.possEnd(i, cyc)) && cand.Before(e) {
			e = cand
		}
	}
	return e
}

// certain returns Z: an instant by which needCycles retention cycles have completed that
// all started after p's shard was expired by more than the margin under a duration that
// was certainly in force for all of them. From Z on the data must be gone.
func (sc *scen) certain(p *point, cyc []cycle) (time.Time, bool) {
	if p.RP != "rp1" {
		return time.Time{}, false
	}
	var best time.Time
	found := false
	for i, s := range sc.segs {
		if s.D == 0 {
			continue
		}
		from := time.Unix(0, p.GE).Add(s.D).Add(margin)
		if s.Hi.After(from) {
			from = s.Hi
		}
		if p.W1.After(from) {
			from = p.W1
		}
		until := farFuture
		if i+1 < len(sc.segs) {
			until = sc.segs[i+1].Lo
		}
		n := 0
		for _, c := range cyc {
			if !c.Done || !c.Start.After(from) {
				continue
			}
			if !c.End.Before(until) {
				break
			}
			n++
			if n == needCycles {
				if !found || c.End.Before(best) {
					best, found = c.End, true
				}
				break
			}
		}
	}
	return best, found
}

type scenResult struct {
	PresentData, AbsentData int
	PresentCat, AbsentCat   int
	PresentDisk, AbsentDisk int
	InBracket               int
	NotVisibleYet           int
	CyclesSinceWrite        int
	Violations              int
	EverAbsentJudged        bool
	CatAbsentUnjudgedNoIDs  int
	KeptThroughCycles       int
	E, Z                    string
	BySig                   map[string]int `json:",omitempty"`
	TransientMiss           int
	MissNoFollowUp          int
	TransientSample         map[string]any `json:",omitempty"`
}

type violation struct {
	Sig  string
	What string
	Wit  map[string]any
}

func (sc *scen) witness(p *point, cyc []cycle, o map[string]any) map[string]any {
	e := sc.earliest(p, cyc)
	z, zok := sc.certain(p, cyc)
	w := map[string]any{
		"spec": sc.Spec, "server": sc.w.name, "database": sc.db, "shard_duration": sc.S.String(), "scenario_start": sc.T0,
		"durations": sc.segs, "point": p, "observation": o, "margin": margin.String(),
		"earliest_legitimate_deletion": e, "notes": sc.notes,
	}
	if zok {
		w["deletion_certain_from"] = z
	}
	var near []cycle
	for _, c := range cyc {
		if c.Start.After(e.Add(-5*time.Second)) && len(near) < 12 {
			near = append(near, c)
		}
	}
	w["retention_cycles_from_5s_before_E"] = near
	return w
}

// judge evaluates every recorded observation of the scenario against the obligations.
func (sc *scen) judge(cyc []cycle, shards []shardObs, disks []diskObs) []violation {
	var out []violation
	seenSig := map[string]bool{}
	add := func(class string, p *point, what string, o map[string]any) {
		sc.res.Violations++
		sig := fmt.Sprintf("%s/%s/%s", class, sc.Spec.Kind, p.Role)
		if sc.res.BySig == nil {
			sc.res.BySig = map[string]int{}
		}
		sc.res.BySig[sig]++
		if seenSig[sig] {
			return
		}
		seenSig[sig] = true
		out = append(out, violation{Sig: sig, What: what, Wit: sc.witness(p, cyc, o)})
	}
	sort.Slice(cyc, func(i, j int) bool { return cyc[i].Start.Before(cyc[j].Start) })
	type pz struct {
		e   time.Time
		z   time.Time
		zok bool
	}
	lim := map[*point]pz{}
	for _, p := range sc.points {
		z, ok := sc.certain(p, cyc)
		lim[p] = pz{sc.earliest(p, cyc), z, ok}
	}
	if sc.p1 != nil {
		l := lim[sc.p1]
		sc.res.E = l.e.Format(time.RFC3339Nano)
		if l.zok {
			sc.res.Z = l.z.Format(time.RFC3339Nano)
		}
	}
	cut := func(t time.Time) bool { return !sc.ambFrom.IsZero() && !t.Before(sc.ambFrom) }

	// data
	established := map[string]bool{}
	gk := func(p *point) string { return fmt.Sprintf("%s/%d", p.RP, p.GS) }
	for oi, o := range sc.obs {
		if o.Err != "" || cut(o.T1) {
			continue
		}
		newly := map[string]bool{}
		for _, p := range sc.points {
			if !o.T0.After(p.W1) {
				continue
			}
			l := lim[p]
			seen := o.Seen[key(p.RP, p.T)]
			if seen {
				newly[gk(p)] = true
			}
			ob := map[string]any{"kind": "query", "t0": o.T0, "t1": o.T1, "returned": seen, "neighbouring_observations": sc.around(oi, p)}
			switch {
			case l.zok && o.T0.After(l.z):
				if seen {
					add("absent-obligation:data", p, fmt.Sprintf("point of an expired shard still returned after %d completed retention cycles that started more than %s after expiry", needCycles, margin), ob)
				} else {
					sc.res.AbsentData++
					sc.res.EverAbsentJudged = true
				}
			case o.T1.Add(margin).Before(l.e):
				if seen {
					sc.res.PresentData++
				} else if established[gk(p)] {
					// What the retention service removes never comes back, so a miss is
					// charged to it only if it lasts: the point is returned by none of the
					// later observations (at least one of them still under the obligation).
					// A miss that heals is a read anomaly of another kind (seen once: a
					// point acknowledged 0.5 s earlier missing from one answer) and is
					// reported as inconclusive for this property.
					later, healed := 0, false
					for _, o2 := range sc.obs[oi+1:] {
						if o2.Err != "" || cut(o2.T1) {
							continue
						}
						if o2.Seen[key(p.RP, p.T)] {
							healed = true
							break
						}
						if o2.T1.Add(margin).Before(l.e) {
							later++
						}
					}
					switch {
					case healed:
						sc.res.TransientMiss++
						if sc.res.TransientSample == nil {
							sc.res.TransientSample = map[string]any{"point": p, "observation": ob}
						}
					case later == 0:
						sc.res.MissNoFollowUp++
					default:
						add("present-obligation:data", p, fmt.Sprintf("point not returned (nor by any of the %d later observations under the same obligation) although its shard expires no earlier than %s, more than %s after the observation ended", later, l.e.Format(time.RFC3339Nano), margin), ob)
					}
				} else {
					sc.res.NotVisibleYet++
				}
			default:
				sc.res.InBracket++
			}
		}
		for k := range newly {
			established[k] = true
		}
	}

	// catalogue: collect the shard ids of each point's group while it certainly exists
	for _, o := range shards {
		if cut(o.T1) {
			continue
		}
		for _, p := range sc.points {
			if !o.T0.After(p.W1) || !o.T1.Add(margin).Before(lim[p].e) {
				continue
			}
			n := 0
			for _, r := range o.Rows {
				if r.DB == sc.db && r.RP == p.RP && r.Start <= p.T && p.T < r.End {
					n++
					p.ids[r.ID] = true
					if r.Start != p.GS || r.End != p.GE {
						sc.w.c.Broken("group boundary model: point %d of %s/%s expected group [%d,%d) but catalogue has [%d,%d)", p.T, sc.db, p.RP, p.GS, p.GE, r.Start, r.End)
					}
				}
			}
			if n == 0 {
				add("present-obligation:catalogue", p, "SHOW SHARDS lists no shard group covering an acknowledged point whose shard cannot have expired yet",
					map[string]any{"kind": "show-shards", "t0": o.T0, "t1": o.T1, "rows_of_database": rowsOf(o.Rows, sc.db)})
			} else {
				sc.res.PresentCat++
			}
		}
	}
	for _, o := range shards {
		if cut(o.T1) || !o.Barrier {
			continue
		}
		for _, p := range sc.points {
			l := lim[p]
			if !l.zok || !o.B0.After(l.z) {
				continue
			}
			if len(p.ids) == 0 {
				sc.res.CatAbsentUnjudgedNoIDs++
				continue
			}
			bad := false
			for _, r := range o.Rows {
				if p.ids[r.ID] {
					bad = true
				}
			}
			if bad {
				add("absent-obligation:catalogue", p, "SHOW SHARDS still lists a shard of the expired group after the deletion was certain and a later catalogue change had been acknowledged",
					map[string]any{"kind": "show-shards-after-barrier", "t0": o.T0, "t1": o.T1, "barrier_sent": o.B0, "rows_of_database": rowsOf(o.Rows, sc.db)})
			} else {
				sc.res.AbsentCat++
			}
		}
	}

	// storage
	for _, o := range disks {
		if cut(o.T1) {
			continue
		}
		for _, p := range sc.points {
			if !o.T0.After(p.W1) || !o.T1.Add(margin).Before(lim[p].e) {
				continue
			}
			n := 0
			for _, d := range o.Dirs {
				if d.DB == sc.db && d.RP == p.RP && d.Start <= p.T && p.T < d.End {
					n++
					p.dirIDs[d.ID] = true
				}
			}
			if n == 0 {
				add("present-obligation:storage", p, "no shard directory covering an acknowledged point whose shard cannot have expired yet",
					map[string]any{"kind": "data-dir", "t0": o.T0, "t1": o.T1})
			} else {
				sc.res.PresentDisk++
			}
		}
	}
	for _, o := range disks {
		if cut(o.T1) {
			continue
		}
		for _, p := range sc.points {
			l := lim[p]
			if !l.zok || !o.T0.After(l.z) || len(p.dirIDs) == 0 {
				continue
			}
			bad := false
			for _, d := range o.Dirs {
				if d.DB == sc.db && p.dirIDs[d.ID] {
					bad = true
				}
			}
			if bad {
				add("absent-obligation:storage", p, "shard directory of the expired group still on disk after the deletion was certain",
					map[string]any{"kind": "data-dir", "t0": o.T0, "t1": o.T1})
			} else {
				sc.res.AbsentDisk++
			}
		}
	}

	// how many completed cycles ran while the data was being kept
	if sc.p2 != nil || sc.p1 != nil {
		p := sc.p2
		if p == nil {
			p = sc.p1
		}
		last := time.Time{}
		for _, o := range sc.obs {
			if o.Err == "" && o.Seen[key(p.RP, p.T)] {
				last = o.T0
			}
		}
		for _, c := range cyc {
			if c.Done && c.Start.After(p.W1) && c.End.Before(last) {
				sc.res.KeptThroughCycles++
			}
		}
	}
	return out
}

func rowsOf(rows []shardRow, db string) []shardRow {
	var out []shardRow
	for _, r := range rows {
		if r.DB == db {
			out = append(out, r)
		}
	}
	return out
}

// around describes the observations next to observation oi for a witness: when they
// ran, how many points they returned, and whether they returned p.
func (sc *scen) around(oi int, p *point) []map[string]any {
	var out []map[string]any
	for k := oi - 3; k <= oi+6; k++ {
		if k < 0 || k >= len(sc.obs) {
			continue
		}
		o := sc.obs[k]
		out = append(out, map[string]any{"index": k - oi, "t0": o.T0, "t1": o.T1, "error": o.Err,
			"points_returned": len(o.Seen), "returned_this_point": o.Seen[key(p.RP, p.T)]})
	}
	return out
}
