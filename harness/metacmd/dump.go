package metacmd

import (
	"fmt"
	"reflect"
	"sort"
	"strconv"
	"strings"
	"sync"
	"time"
	"unsafe"

	"github.com/openGemini/openGemini/lib/util/lifted/influx/meta"
)

// Canonical dump of the catalogue: one "path=value" line per leaf, map keys sorted, nil and
// empty containers identical, mutexes skipped. Times are printed as UnixNano ("zero" for the
// zero time); wall-clock deletion stamps (DeletedAt) only as set/unset.
//
// Fields that are not part of the replicated catalogue are skipped, each for a stated reason.
var skipFields = map[string]string{
	"Data.opsMapMu":                       "mutex",
	"Data.OpsMap":                         "incremental-sync cache of applied commands, local to a node (rebuilt, never snapshotted)",
	"Data.OpsMapMinIndex":                 "same",
	"Data.OpsMapMaxIndex":                 "same",
	"Data.OpsToMarshalIndex":              "same",
	"Data.UpdateNodeTmpIndexCommandStart": "incremental-sync bookkeeping (index of the last successful command), reset to Index by Unmarshal by design",
	"Data.ExpandShardsEnable":             "copied from the node's configuration on every node join (documented as not persisted)",
	"Data.SQLite":                         "handle to a local database",
	"MeasurementInfo.SchemaLock":          "mutex",
	"MeasurementInfo.tagKeysTotal":        "derived cache filled only by unmarshal",
	"MeasurementInfo.ObsOptions":          "derived: any lookup of the measurement (Data.Measurement) copies the database's Options pointer into it, also on behalf of commands that then fail; it never differs from the database's value",
}

// SkippedFields returns the skip list for the evidence file.
func SkippedFields() map[string]string { return skipFields }

var (
	timeType    = reflect.TypeOf(time.Time{})
	rwMutexType = reflect.TypeOf(sync.RWMutex{})
	mutexType   = reflect.TypeOf(sync.Mutex{})
)

// Dump renders the catalogue canonically.
func Dump(d *meta.Data) string {
	var sb strings.Builder
	sb.Grow(4096)
	w := &walker{sb: &sb}
	w.walk("", reflect.ValueOf(d).Elem())
	return sb.String()
}

type walker struct {
	sb    *strings.Builder
	noPos bool
}

// DumpNoPos is Dump without the raft position (Term, Index), which Apply advances even
// for a command that fails.
func DumpNoPos(d *meta.Data) string {
	var sb strings.Builder
	sb.Grow(4096)
	w := &walker{sb: &sb, noPos: true}
	w.walk("", reflect.ValueOf(d).Elem())
	return sb.String()
}

func access(v reflect.Value) reflect.Value {
	if !v.CanInterface() && v.CanAddr() {
		return reflect.NewAt(v.Type(), unsafe.Pointer(v.UnsafeAddr())).Elem()
	}
	return v
}

func (w *walker) leaf(path, val string) {
	w.sb.WriteString(path)
	w.sb.WriteByte('=')
	w.sb.WriteString(val)
	w.sb.WriteByte('\n')
}

func keyString(k reflect.Value) string {
	switch k.Kind() {
	case reflect.String:
		return k.String()
	case reflect.Int, reflect.Int8, reflect.Int16, reflect.Int32, reflect.Int64:
		return fmt.Sprintf("%020d", k.Int())
	case reflect.Uint, reflect.Uint8, reflect.Uint16, reflect.Uint32, reflect.Uint64:
		return fmt.Sprintf("%020d", k.Uint())
	}
	return fmt.Sprint(k)
}

func (w *walker) walk(path string, v reflect.Value) {
	switch v.Kind() {
	case reflect.Ptr:
		if v.IsNil() {
			w.leaf(path, "nil")
			return
		}
		w.walk(path, v.Elem())
	case reflect.Interface:
		if v.IsNil() {
			w.leaf(path, "nil")
			return
		}
		w.walk(path, v.Elem())
	case reflect.Struct:
		t := v.Type()
		if t == timeType {
			tv := access(v)
			var tm time.Time
			if tv.CanInterface() {
				tm = tv.Interface().(time.Time)
			} else {
				cp := reflect.New(timeType).Elem()
				cp.Set(v)
				tm = cp.Interface().(time.Time)
			}
			switch {
			case strings.HasSuffix(path, ".DeletedAt"):
				if tm.IsZero() {
					w.leaf(path, "unset")
				} else {
					w.leaf(path, "set")
				}
			case strings.HasSuffix(path, ".LastRunTime"):
				// every reader of a continuous query's last run time receives it through
				// Marshal (UnixNano); the zero time and its image after a round trip are the
				// same value for them (services/continuousquery treats both as "long ago")
				w.leaf(path, strconv.FormatInt(tm.UnixNano(), 10))
			case tm.IsZero():
				w.leaf(path, "zero")
			default:
				w.leaf(path, strconv.FormatInt(tm.UnixNano(), 10))
			}
			return
		}
		if t == rwMutexType || t == mutexType {
			return
		}
		for i := 0; i < t.NumField(); i++ {
			f := t.Field(i)
			if _, skip := skipFields[t.Name()+"."+f.Name]; skip {
				continue
			}
			if w.noPos && path == "" && (f.Name == "Term" || f.Name == "Index") {
				continue
			}
			w.walk(path+"."+f.Name, access(v.Field(i)))
		}
	case reflect.Slice, reflect.Array:
		n := v.Len()
		if n == 0 {
			return
		}
		w.leaf(path+".len", strconv.Itoa(n))
		for i := 0; i < n; i++ {
			w.walk(path+"["+strconv.Itoa(i)+"]", access(v.Index(i)))
		}
	case reflect.Map:
		if v.Len() == 0 {
			return
		}
		keys := v.MapKeys()
		ks := make([]string, len(keys))
		idx := make([]int, len(keys))
		for i, k := range keys {
			ks[i] = keyString(k)
			idx[i] = i
		}
		sort.Slice(idx, func(a, b int) bool { return ks[idx[a]] < ks[idx[b]] })
		w.leaf(path+".len", strconv.Itoa(len(keys)))
		for _, i := range idx {
			e := v.MapIndex(keys[i])
			if e.Kind() == reflect.Struct || e.Kind() == reflect.Array {
				// map elements are not addressable: copy, so unexported fields can be read
				cp := reflect.New(e.Type()).Elem()
				cp.Set(e)
				e = cp
			}
			w.walk(path+"{"+strings.TrimLeft(ks[i], "0")+"}", e)
		}
	case reflect.String:
		w.leaf(path, strconv.Quote(v.String()))
	case reflect.Bool:
		w.leaf(path, strconv.FormatBool(v.Bool()))
	case reflect.Int, reflect.Int8, reflect.Int16, reflect.Int32, reflect.Int64:
		w.leaf(path, strconv.FormatInt(v.Int(), 10))
	case reflect.Uint, reflect.Uint8, reflect.Uint16, reflect.Uint32, reflect.Uint64, reflect.Uintptr:
		w.leaf(path, strconv.FormatUint(v.Uint(), 10))
	case reflect.Float32, reflect.Float64:
		w.leaf(path, strconv.FormatFloat(v.Float(), 'g', -1, 64))
	case reflect.Func, reflect.Chan, reflect.UnsafePointer:
		// not state
	default:
		w.leaf(path, "?"+v.Kind().String())
	}
}

// Diff describes the first differing line of two dumps.
type Diff struct {
	Path  string `json:"path"`  // concrete path
	Shape string `json:"shape"` // path with indices and keys replaced by *
	A     string `json:"a"`
	B     string `json:"b"`
	Count int    `json:"differing_lines"`
}

func splitLine(l string) (string, string) {
	if i := strings.IndexByte(l, '='); i >= 0 {
		return l[:i], l[i+1:]
	}
	return l, ""
}

// Shape replaces indices and map keys in a path by *.
func Shape(path string) string {
	var sb strings.Builder
	depth := 0
	for _, r := range path {
		switch r {
		case '[', '{':
			depth++
			sb.WriteRune(r)
			sb.WriteByte('*')
		case ']', '}':
			depth--
			sb.WriteRune(r)
		default:
			if depth == 0 {
				sb.WriteRune(r)
			}
		}
	}
	return sb.String()
}

// FirstDiff compares two dumps; ok is false when they are equal.
func FirstDiff(a, b string) (Diff, bool) {
	if a == b {
		return Diff{}, false
	}
	la := strings.Split(a, "\n")
	lb := strings.Split(b, "\n")
	ma := map[string]string{}
	for _, l := range la {
		if l != "" {
			p, v := splitLine(l)
			ma[p] = v
		}
	}
	mb := map[string]string{}
	for _, l := range lb {
		if l != "" {
			p, v := splitLine(l)
			mb[p] = v
		}
	}
	var d Diff
	first := true
	note := func(p, va, vb string) {
		d.Count++
		if first {
			first = false
			d.Path, d.A, d.B = p, va, vb
			d.Shape = Shape(p)
		}
	}
	for _, l := range la {
		if l == "" {
			continue
		}
		p, va := splitLine(l)
		vb, ok := mb[p]
		if !ok {
			note(p, va, "<absent>")
		} else if va != vb {
			note(p, va, vb)
		}
	}
	for _, l := range lb {
		if l == "" {
			continue
		}
		p, vb := splitLine(l)
		if _, ok := ma[p]; !ok {
			note(p, "<absent>", vb)
		}
	}
	return d, true
}

// DeepCopy returns an independent copy of the catalogue made by a reflection walk (it does
// not use the catalogue's own Clone, which is code under test). Mutexes are left zero; the
// incremental-sync op cache is not copied.
func DeepCopy(d *meta.Data) *meta.Data {
	out := &meta.Data{}
	copyValue(reflect.ValueOf(out).Elem(), reflect.ValueOf(d).Elem(), "Data")
	return out
}

func copyValue(dst, src reflect.Value, owner string) {
	dst = access(dst)
	src = access(src)
	switch src.Kind() {
	case reflect.Ptr:
		if src.IsNil() {
			return
		}
		n := reflect.New(src.Type().Elem())
		copyValue(n.Elem(), src.Elem(), owner)
		dst.Set(n)
	case reflect.Struct:
		t := src.Type()
		if t == timeType {
			dst.Set(src)
			return
		}
		if t == rwMutexType || t == mutexType {
			return
		}
		for i := 0; i < t.NumField(); i++ {
			f := t.Field(i)
			if t.Name() == "Data" && (f.Name == "OpsMap" || f.Name == "SQLite") {
				continue
			}
			copyValue(dst.Field(i), src.Field(i), t.Name())
		}
	case reflect.Slice:
		if src.IsNil() {
			return
		}
		n := reflect.MakeSlice(src.Type(), src.Len(), src.Len())
		for i := 0; i < src.Len(); i++ {
			copyValue(n.Index(i), src.Index(i), owner)
		}
		dst.Set(n)
	case reflect.Array:
		for i := 0; i < src.Len(); i++ {
			copyValue(dst.Index(i), src.Index(i), owner)
		}
	case reflect.Map:
		if src.IsNil() {
			return
		}
		n := reflect.MakeMapWithSize(src.Type(), src.Len())
		it := src.MapRange()
		for it.Next() {
			tmp := reflect.New(src.Type().Elem()).Elem()
			tmp.Set(it.Value()) // addressable copy, so unexported fields can be reached
			e := reflect.New(src.Type().Elem()).Elem()
			copyValue(e, tmp, owner)
			n.SetMapIndex(it.Key(), e)
		}
		dst.Set(n)
	case reflect.Interface:
		if src.IsNil() {
			return
		}
		e := reflect.New(src.Elem().Type()).Elem()
		copyValue(e, src.Elem(), owner)
		dst.Set(e)
	case reflect.Func, reflect.Chan, reflect.UnsafePointer:
	default:
		dst.Set(src)
	}
}
