package metacmd

import (
	"encoding/json"
	"os"
	"path/filepath"
	"strings"
	"syscall"

	"verifharness/vf"
)

// The meta package imports (transitively) openGemini's engine package, whose init starts a
// background Compactor goroutine that, every 10 s, spawns a goroutine writing a statistics
// gauge without synchronisation. Under GORACE=halt_on_error=1 that statistics race kills any
// process that lives longer than ~20 s, parent or worker. Statistics races are outside the
// properties (DESIGN §4.4), so the C15/C16 drivers run the race detector in "scoped" mode:
// reports are written to files instead of halting, and after the run every report is
// classified — a report with a frame in the catalogue / state-machine packages or in the
// harness is a violation, anything else is only counted.

const scopedEnv = "VERIF_RACE_SCOPED"

// ScopeRaceDetector re-executes the process once with GORACE set for scoped mode. Call it
// first thing in main().
func ScopeRaceDetector() {
	if os.Getenv(scopedEnv) != "" {
		return
	}
	dir := os.Getenv("VERIF_SCRATCH")
	if dir == "" {
		dir = filepath.Join("/var/tmp/verif-scratch", "race-"+filepath.Base(os.Args[0]))
	}
	_ = os.MkdirAll(dir, 0o755)
	exe, err := os.Executable()
	if err != nil {
		return
	}
	var env []string
	for _, e := range os.Environ() {
		if !strings.HasPrefix(e, "GORACE=") { // the runtime takes the first GORACE it finds
			env = append(env, e)
		}
	}
	env = append(env, scopedEnv+"="+filepath.Join(dir, "race"),
		"GORACE=halt_on_error=0 exitcode=0 log_path="+filepath.Join(dir, "race"))
	_ = syscall.Exec(exe, os.Args, env)
}

var inScope = []string{"/lib/util/lifted/influx/meta.", "/app/ts-meta/meta.", "verifharness/", "hashicorp/raft"}

// ScanRaceLogs classifies the race reports written by this process and its workers.
func ScanRaceLogs(c *vf.Ctx) {
	prefix := os.Getenv(scopedEnv)
	if prefix == "" {
		return
	}
	files, _ := filepath.Glob(prefix + ".*")
	for _, f := range files {
		b, err := os.ReadFile(f)
		if err != nil {
			continue
		}
		for _, rep := range strings.Split(string(b), "==================") {
			if !strings.Contains(rep, "DATA RACE") {
				continue
			}
			scoped := false
			for _, s := range inScope {
				if strings.Contains(rep, s) {
					scoped = true
				}
			}
			if !scoped {
				c.Count("race-reports-outside-scope(statistics etc.)", 1)
				continue
			}
			top := ""
			for _, ln := range strings.Split(rep, "\n") {
				t := strings.TrimSpace(ln)
				if strings.HasPrefix(t, "github.com/") || strings.HasPrefix(t, "verifharness/") {
					top = t
					break
				}
			}
			if len(rep) > 4000 {
				rep = rep[:4000]
			}
			c.Violation("race:"+top, "data race with a frame in the catalogue / state-machine packages", map[string]any{"report": rep})
		}
	}
}

// KnownSignatures returns the signatures with status "known" recorded for prop. Workers use
// it only to skip the (expensive) shrinking of witnesses that the parent will not print.
func KnownSignatures(c *vf.Ctx, prop string) []string {
	var out []string
	files, _ := filepath.Glob(filepath.Join(c.VerifDir, "known_findings.d", "*.json"))
	files = append(files, filepath.Join(c.VerifDir, "known_findings.json"))
	for _, f := range files {
		b, err := os.ReadFile(f)
		if err != nil {
			continue
		}
		var all struct {
			Findings []vf.Finding `json:"findings"`
		}
		if json.Unmarshal(b, &all) != nil {
			continue
		}
		for _, x := range all.Findings {
			if x.Property == prop && x.Status == "known" {
				out = append(out, x.Signature)
			}
		}
	}
	return out
}

// MatchesKnown applies the vf matching rule (exact, or prefix when the pattern ends in *).
func MatchesKnown(pats []string, sig string) bool {
	for _, p := range pats {
		if strings.HasSuffix(p, "*") {
			if strings.HasPrefix(sig, strings.TrimSuffix(p, "*")) {
				return true
			}
		} else if p == sig {
			return true
		}
	}
	return false
}
