// Package metacmd builds proto.Command messages for the meta state machine of openGemini
// (app/ts-meta/meta storeFSM). It is shared by the C15 and C16 drivers. Builders are
// state-aware: they look at the current catalogue (read-only) to pick existing or
// deliberately non-existing objects, so that both the success and the error paths of
// every command type are exercised. All choices come from the *rand.Rand handed in; map
// keys are sorted before a pick, so a log is a function of the seed.
package metacmd

import (
	"fmt"
	"math"
	"math/rand/v2"
	"sort"
	"time"

	"github.com/hashicorp/raft"
	"github.com/openGemini/openGemini/lib/util/lifted/influx/meta"
	mproto "github.com/openGemini/openGemini/lib/util/lifted/influx/meta/proto"
	"github.com/openGemini/openGemini/lib/util/lifted/protobuf/proto"
)

// DataT is the catalogue type.
type DataT = meta.Data

// Cmd is one log entry: a marshalled proto.Command plus a readable description.
type Cmd struct {
	Type    int32  `json:"type"`
	Name    string `json:"name"`
	Variant string `json:"variant,omitempty"`
	Desc    string `json:"desc"`
	Data    []byte `json:"data"` // marshalled proto.Command (base64 in JSON)
}

// Log wraps the command into a raft log entry.
func (c Cmd) Log(index, term uint64) *raft.Log {
	return &raft.Log{Index: index, Term: term, Type: raft.LogCommand, Data: c.Data}
}

func mk(typ mproto.Command_Type, desc *proto.ExtensionDesc, value proto.Message, variant string) Cmd {
	cmd := &mproto.Command{Type: &typ}
	if err := proto.SetExtension(cmd, desc, value); err != nil {
		panic(fmt.Sprintf("metacmd: SetExtension %v: %v", typ, err))
	}
	b, err := proto.Marshal(cmd)
	if err != nil {
		panic(fmt.Sprintf("metacmd: Marshal %v: %v (%v)", typ, err, value))
	}
	d := proto.CompactTextString(value)
	if len(d) > 600 {
		d = d[:600] + "..."
	}
	return Cmd{Type: int32(typ), Name: typ.String(), Variant: variant, Desc: d, Data: b}
}

// Registered lists the command types of the applyFunc table in store_fsm.go (66 types).
var Registered = []mproto.Command_Type{
	mproto.Command_CreateDatabaseCommand, mproto.Command_DropDatabaseCommand,
	mproto.Command_CreateRetentionPolicyCommand, mproto.Command_DropRetentionPolicyCommand,
	mproto.Command_SetDefaultRetentionPolicyCommand, mproto.Command_UpdateRetentionPolicyCommand,
	mproto.Command_CreateShardGroupCommand, mproto.Command_DeleteShardGroupCommand,
	mproto.Command_CreateSubscriptionCommand, mproto.Command_DropSubscriptionCommand,
	mproto.Command_CreateUserCommand, mproto.Command_DropUserCommand, mproto.Command_UpdateUserCommand,
	mproto.Command_SetPrivilegeCommand, mproto.Command_SetAdminPrivilegeCommand, mproto.Command_SetDataCommand,
	mproto.Command_CreateMetaNodeCommand, mproto.Command_DeleteMetaNodeCommand, mproto.Command_SetMetaNodeCommand,
	mproto.Command_CreateDataNodeCommand, mproto.Command_CreateSqlNodeCommand, mproto.Command_DeleteDataNodeCommand,
	mproto.Command_MarkDatabaseDeleteCommand, mproto.Command_MarkRetentionPolicyDeleteCommand,
	mproto.Command_CreateMeasurementCommand, mproto.Command_ReShardingCommand, mproto.Command_UpdateSchemaCommand,
	mproto.Command_AlterShardKeyCmd, mproto.Command_PruneGroupsCommand, mproto.Command_MarkMeasurementDeleteCommand,
	mproto.Command_DropMeasurementCommand, mproto.Command_DeleteIndexGroupCommand,
	mproto.Command_UpdateShardInfoTierCommand, mproto.Command_UpdateNodeStatusCommand,
	mproto.Command_UpdateSqlNodeStatusCommand, mproto.Command_CreateEventCommand, mproto.Command_UpdateEventCommand,
	mproto.Command_UpdatePtInfoCommand, mproto.Command_RemoveEventCommand,
	mproto.Command_CreateDownSamplePolicyCommand, mproto.Command_DropDownSamplePolicyCommand,
	mproto.Command_CreateDbPtViewCommand, mproto.Command_UpdateShardDownSampleInfoCommand,
	mproto.Command_MarkTakeoverCommand, mproto.Command_MarkBalancerCommand, mproto.Command_CreateStreamCommand,
	mproto.Command_DropStreamCommand, mproto.Command_VerifyDataNodeCommand, mproto.Command_ExpandGroupsCommand,
	mproto.Command_UpdatePtVersionCommand, mproto.Command_RegisterQueryIDOffsetCommand,
	mproto.Command_CreateContinuousQueryCommand, mproto.Command_ContinuousQueryReportCommand,
	mproto.Command_DropContinuousQueryCommand, mproto.Command_NotifyCQLeaseChangedCommand,
	mproto.Command_SetNodeSegregateStatusCommand, mproto.Command_RemoveNodeCommand,
	mproto.Command_UpdateReplicationCommand, mproto.Command_UpdateMeasurementCommand,
	mproto.Command_UpdateNodeTmpIndexCommand, mproto.Command_InsertFilesCommand,
	mproto.Command_UpdateMetaNodeStatusCommand, mproto.Command_UpdateIndexInfoTierCommand,
	mproto.Command_ReplaceMergeShardsCommand, mproto.Command_RecoverMetaData,
}

// Uncovered lists registered types that have no builder, with the reason.
var Uncovered = map[string]string{
	mproto.Command_RecoverMetaData.String(): "argument is the JSON image of a whole backup catalogue plus a node map; not a self-contained argument message",
}

const (
	Hour = int64(time.Hour)
	Day  = 24 * Hour
	// BaseTime is 2023-11-15 00:00:00 UTC, aligned to 1h and 24h.
	BaseTime = int64(1700006400) * int64(time.Second)
	// MinNanoTime / MaxNanoTime as in influxdb/models.
	MinNanoTime = int64(math.MinInt64) + 2
	MaxNanoTime = int64(math.MaxInt64) - 1
)

// BoundaryTimes is the boundary-heavy timestamp list for CreateShardGroup.
var BoundaryTimes = []int64{
	BaseTime, BaseTime + 30*int64(time.Minute), BaseTime + Hour - 1, BaseTime + Hour, BaseTime + Hour + 1,
	BaseTime + 90*int64(time.Minute), BaseTime + 2*Hour - 1, BaseTime + 2*Hour, BaseTime + 3*Hour, BaseTime + Day - 1, BaseTime + Day,
	BaseTime + 7*Day, BaseTime - 1, BaseTime - Hour, BaseTime - Day, BaseTime + 25*Hour,
}

// ExtremeTimes are far past / far future instants.
var ExtremeTimes = []int64{0, -1, 1, MinNanoTime, MinNanoTime + Hour, -200 * 365 * Day, MaxNanoTime, MaxNanoTime - Hour, 4e18}

// Gen is the state-aware command generator.
type Gen struct {
	R *rand.Rand
	// D returns the current catalogue (read-only view).
	D func() *meta.Data
	// Safe mirrors the preconditions under which the real issuers (retention service,
	// balancer, sql front end) send a command; used by C16, where the catalogue's
	// well-formedness is the oracle. C15 runs with Safe=false plus PanicSafe.
	Safe bool
	// Extreme allows far past / far future timestamps.
	Extreme bool
	// Replication allows ReplicaN>1 databases (only meaningful under ha-policy=replication).
	Replication bool
	// TmpIndex allows UpdateNodeTmpIndexCommand (the per-node applied-index watermark of
	// the incremental catalogue sync). Drivers switch it on for a fraction of the logs only:
	// the watermark is not part of the snapshot (known finding), and a log stops at its first
	// divergence.
	TmpIndex bool
	// FlipShardType lets CreateMeasurement ask for the sharding type the policy does not
	// use (normally refused; accepted when an equally named measurement awaits deletion,
	// which is a known source of map-order dependent divergence).
	FlipShardType bool
	ltime         uint64
	queue         []Cmd // commands that must follow the one just drawn
}

var (
	dbPool    = []string{"db0", "db1", "db2"}
	rpPool    = []string{"rp0", "rp1", "autogen"}
	mstPool   = []string{"m0", "m1", "m2"}
	userPool  = []string{"u0", "u1", "root"}
	cqPool    = []string{"cq0", "cq1"}
	strPool   = []string{"s0", "s1"}
	subPool   = []string{"sub0", "sub1"}
	hostPool  = []string{"10.0.0.1", "10.0.0.2", "10.0.0.3", "10.0.0.4"}
	fieldPool = []string{"f0", "f1", "t0", "t1"}
)

func (g *Gen) p(x float64) bool { return g.R.Float64() < x }
func (g *Gen) n(n int) int {
	if n <= 0 {
		return 0
	}
	return g.R.IntN(n)
}
func pickS(g *Gen, s []string) string { return s[g.n(len(s))] }

func (g *Gen) dbs() []string {
	d := g.D()
	out := make([]string, 0, len(d.Databases))
	for k := range d.Databases {
		out = append(out, k)
	}
	sort.Strings(out)
	return out
}

// liveDBs are databases not marked deleted.
func (g *Gen) liveDBs() []string {
	d := g.D()
	var out []string
	for _, k := range g.dbs() {
		if !d.Databases[k].MarkDeleted {
			out = append(out, k)
		}
	}
	return out
}

func (g *Gen) pickDB() string {
	e := g.dbs()
	switch {
	case len(e) > 0 && g.p(0.8):
		return pickS(g, e)
	case g.p(0.8):
		return pickS(g, dbPool)
	}
	return "nosuchdb"
}

func (g *Gen) rps(db string) []string {
	d := g.D()
	di := d.Databases[db]
	if di == nil {
		return nil
	}
	out := make([]string, 0, len(di.RetentionPolicies))
	for k := range di.RetentionPolicies {
		out = append(out, k)
	}
	sort.Strings(out)
	return out
}

func (g *Gen) pickRP(db string) string {
	e := g.rps(db)
	switch {
	case len(e) > 0 && g.p(0.8):
		return pickS(g, e)
	case g.p(0.3):
		return "" // default policy
	case g.p(0.8):
		return pickS(g, rpPool)
	}
	return "nosuchrp"
}

func (g *Gen) rp(db, rp string) *meta.RetentionPolicyInfo {
	di := g.D().Databases[db]
	if di == nil {
		return nil
	}
	if rp == "" {
		rp = di.DefaultRetentionPolicy
	}
	return di.RetentionPolicies[rp]
}

func (g *Gen) msts(db, rp string) []string {
	r := g.rp(db, rp)
	if r == nil {
		return nil
	}
	out := make([]string, 0, len(r.MstVersions))
	for k := range r.MstVersions {
		out = append(out, k)
	}
	sort.Strings(out)
	return out
}

func (g *Gen) pickMst(db, rp string) string {
	e := g.msts(db, rp)
	switch {
	case len(e) > 0 && g.p(0.8):
		return pickS(g, e)
	case g.p(0.85):
		return pickS(g, mstPool)
	}
	return "nosuchmst"
}

// dbrp picks a (db, rp) pair, mostly one that exists and has the wanted feature.
func (g *Gen) dbrp() (string, string) {
	db := g.pickDB()
	return db, g.pickRP(db)
}

// dbrpWith prefers a pair for which ok() holds.
func (g *Gen) dbrpWith(ok func(r *meta.RetentionPolicyInfo) bool) (string, string) {
	if g.p(0.85) {
		var cands [][2]string
		for _, db := range g.dbs() {
			for _, rp := range g.rps(db) {
				if ok(g.rp(db, rp)) {
					cands = append(cands, [2]string{db, rp})
				}
			}
		}
		if len(cands) > 0 {
			c := cands[g.n(len(cands))]
			return c[0], c[1]
		}
	}
	return g.dbrp()
}

func (g *Gen) dataNodeIDs() []uint64 {
	var out []uint64
	for _, n := range g.D().DataNodes {
		out = append(out, n.ID)
	}
	return out
}

func (g *Gen) pickNodeID(ids []uint64) uint64 {
	if len(ids) > 0 && g.p(0.85) {
		return ids[g.n(len(ids))]
	}
	return uint64(90 + g.n(3))
}

func (g *Gen) nextLTime() uint64 {
	if g.p(0.1) && g.ltime > 2 {
		return g.ltime - 2 // older event
	}
	g.ltime++
	return g.ltime
}

func (g *Gen) timestamp() int64 {
	if g.Extreme && g.p(0.15) {
		return ExtremeTimes[g.n(len(ExtremeTimes))]
	}
	if g.p(0.8) {
		return BoundaryTimes[g.n(len(BoundaryTimes))]
	}
	return BaseTime + int64(g.n(72))*Hour/2 + int64(g.n(3)) - 1
}

func (g *Gen) ski(typ string) *mproto.ShardKeyInfo {
	k := &mproto.ShardKeyInfo{Type: proto.String(typ)}
	switch g.n(3) {
	case 1:
		k.ShardKey = []string{"t0"}
	case 2:
		k.ShardKey = []string{"t0", "t1"}
	}
	return k
}

func (g *Gen) rpInfo(name string) *mproto.RetentionPolicyInfo {
	sgd := []int64{0, Hour, 2 * Hour, 3 * Hour, Day, 7 * Day, Hour / 2}[g.n(7)]
	dur := []int64{0, 0, Day, 2 * Day, 30 * Day, 200 * Day, Hour, Hour / 2}[g.n(8)]
	rp := &mproto.RetentionPolicyInfo{
		Name: proto.String(name), Duration: proto.Int64(dur), ShardGroupDuration: proto.Int64(sgd),
		ReplicaN: proto.Uint32(1), HotDuration: proto.Int64(0), WarmDuration: proto.Int64(0), IndexGroupDuration: proto.Int64(0),
	}
	if g.p(0.2) {
		eff := sgd
		if eff < Hour {
			eff = Hour
		}
		rp.HotDuration = proto.Int64(eff * int64(1+g.n(3)))
	}
	if g.p(0.15) {
		rp.WarmDuration = proto.Int64([]int64{Hour, Day, 90 * int64(time.Minute)}[g.n(3)])
	}
	if g.p(0.2) {
		rp.IndexGroupDuration = proto.Int64([]int64{Hour, 2 * Day, 5 * Hour}[g.n(3)])
	}
	if g.p(0.1) {
		rp.IndexColdDuration = proto.Int64([]int64{Day, 2 * Day, 90 * int64(time.Minute)}[g.n(3)])
	}
	if g.p(0.1) {
		rp.ShardMergeDuration = proto.Int64([]int64{2 * Hour, 2 * Day, 7 * Day}[g.n(3)])
	}
	if g.p(0.05) {
		rp.ReplicaN = proto.Uint32(uint32([]int{0, 3}[g.n(2)]))
	}
	if g.Replication && g.p(0.5) {
		rp.ReplicaN = proto.Uint32(3)
	}
	return rp
}

// ---- builders -------------------------------------------------------------------

func (g *Gen) plainCreateDatabase(db string) Cmd {
	v := &mproto.CreateDatabaseCommand{Name: proto.String(db), ReplicaNum: proto.Uint32(1),
		RetentionPolicy: &mproto.RetentionPolicyInfo{Name: proto.String("rp0"), Duration: proto.Int64(0), ShardGroupDuration: proto.Int64(Hour), ReplicaN: proto.Uint32(1),
			HotDuration: proto.Int64(0), WarmDuration: proto.Int64(0), IndexGroupDuration: proto.Int64(0)}}
	return mk(mproto.Command_CreateDatabaseCommand, mproto.E_CreateDatabaseCommand_Command, v, "")
}

// orphanPtView returns a database that has a partition view but no catalogue entry (the
// window between the two commands of the create-database handler).
func (g *Gen) orphanPtView() string {
	d := g.D()
	var ks []string
	for k := range d.PtView {
		if d.Databases[k] == nil {
			ks = append(ks, k)
		}
	}
	if len(ks) == 0 {
		return ""
	}
	sort.Strings(ks)
	return ks[0]
}

func (g *Gen) CreateDataNode() Cmd {
	// A node join while a partition view has no database yet makes CreateDataNode
	// dereference a nil DatabaseInfo (expandDBPtView -> DBReplicaN): the state machine
	// panics. That crash is reported separately (apply-panic); most of the time the
	// generator closes the window first so that logs are not cut short by it.
	if o := g.orphanPtView(); o != "" && g.p(0.9) {
		return g.plainCreateDatabase(o)
	}
	h := pickS(g, hostPool)
	role := ""
	if g.p(0.15) {
		role = []string{"reader", "writer"}[g.n(2)]
	}
	v := &mproto.CreateDataNodeCommand{HTTPAddr: proto.String(h + ":8400"), TCPAddr: proto.String(h + ":8401"), Role: proto.String(role), Az: proto.String("az" + fmt.Sprint(g.n(2)))}
	return mk(mproto.Command_CreateDataNodeCommand, mproto.E_CreateDataNodeCommand_Command, v, "")
}

func (g *Gen) CreateDbPtView() Cmd {
	db := g.pickDB()
	rn := uint32(1)
	if g.p(0.2) {
		rn = 0
	}
	if g.Replication && g.p(0.6) {
		rn = 3
	}
	v := &mproto.CreateDbPtViewCommand{DbName: proto.String(db), ReplicaNum: proto.Uint32(rn)}
	return mk(mproto.Command_CreateDbPtViewCommand, mproto.E_CreateDbPtViewCommand_Command, v, "")
}

func (g *Gen) CreateDatabase() Cmd {
	db := g.pickDB()
	if g.Safe && db != "" {
		// the create-database handler first applies CreateDbPtViewCommand for the database
		if _, ok := g.D().PtView[db]; !ok {
			g.queue = append(g.queue, g.plainCreateDatabase(db))
			return mk(mproto.Command_CreateDbPtViewCommand, mproto.E_CreateDbPtViewCommand_Command, &mproto.CreateDbPtViewCommand{DbName: proto.String(db), ReplicaNum: proto.Uint32(1)}, "before-create-database")
		}
	}
	if g.p(0.03) {
		db = ""
	}
	v := &mproto.CreateDatabaseCommand{Name: proto.String(db)}
	if g.p(0.6) {
		v.RetentionPolicy = g.rpInfo(pickS(g, rpPool))
	}
	if g.p(0.3) {
		v.ReplicaNum = proto.Uint32(1)
	}
	if g.Replication {
		// a replicated database is created only after its partition view and replica
		// groups (CreateDbPtViewCommand with the same replica number), as the handler does
		if pv := g.D().ReplicaGroups[db]; len(pv) > 0 {
			v.ReplicaNum = proto.Uint32(3)
			if v.RetentionPolicy != nil {
				v.RetentionPolicy.ReplicaN = proto.Uint32(3)
			}
		}
	}
	if g.p(0.2) {
		// the client attaches a database shard key only when it names at least one column
		v.Ski = &mproto.ShardKeyInfo{Type: proto.String("hash"), ShardKey: [][]string{{"t0"}, {"t0", "t1"}}[g.n(2)]}
	}
	if g.p(0.2) {
		v.EnableTagArray = proto.Bool(true)
	}
	if g.p(0.1) {
		v.Options = &mproto.ObsOptions{Enabled: proto.Bool(true), BucketName: proto.String("b"), Ak: proto.String("ak"), Sk: proto.String("sk"), Endpoint: proto.String("e"), BasePath: proto.String("p")}
	}
	return mk(mproto.Command_CreateDatabaseCommand, mproto.E_CreateDatabaseCommand_Command, v, "")
}

func (g *Gen) MarkDatabaseDelete() Cmd {
	v := &mproto.MarkDatabaseDeleteCommand{Name: proto.String(g.pickDB())}
	return mk(mproto.Command_MarkDatabaseDeleteCommand, mproto.E_MarkDatabaseDeleteCommand_Command, v, "")
}

func (g *Gen) DropDatabase() Cmd {
	db := g.pickDB()
	if g.Safe || g.p(0.7) {
		// the real issuer drops only databases that were marked deleted
		var c []string
		for _, n := range g.dbs() {
			if g.D().Databases[n].MarkDeleted {
				c = append(c, n)
			}
		}
		if len(c) > 0 {
			db = pickS(g, c)
		} else if g.Safe {
			db = "nosuchdb"
		}
	}
	v := &mproto.DropDatabaseCommand{Name: proto.String(db)}
	return mk(mproto.Command_DropDatabaseCommand, mproto.E_DropDatabaseCommand_Command, v, "")
}

func (g *Gen) CreateRetentionPolicy() Cmd {
	db := g.pickDB()
	name := pickS(g, rpPool)
	if g.p(0.03) {
		name = ""
	}
	v := &mproto.CreateRetentionPolicyCommand{Database: proto.String(db), RetentionPolicy: g.rpInfo(name), DefaultRP: proto.Bool(g.p(0.3))}
	if di := g.D().Databases[db]; di != nil && di.ReplicaN > 1 && g.p(0.8) {
		v.RetentionPolicy.ReplicaN = proto.Uint32(uint32(di.ReplicaN))
	}
	return mk(mproto.Command_CreateRetentionPolicyCommand, mproto.E_CreateRetentionPolicyCommand_Command, v, "")
}

func (g *Gen) MarkRetentionPolicyDelete() Cmd {
	db, rp := g.dbrp()
	v := &mproto.MarkRetentionPolicyDeleteCommand{Database: proto.String(db), Name: proto.String(rp)}
	return mk(mproto.Command_MarkRetentionPolicyDeleteCommand, mproto.E_MarkRetentionPolicyDeleteCommand_Command, v, "")
}

func (g *Gen) DropRetentionPolicy() Cmd {
	db, rp := g.dbrpWith(func(r *meta.RetentionPolicyInfo) bool { return r.MarkDeleted })
	if g.Safe {
		if r := g.rp(db, rp); r == nil || !r.MarkDeleted || rp == "" {
			rp = "nosuchrp"
		}
	}
	v := &mproto.DropRetentionPolicyCommand{Database: proto.String(db), Name: proto.String(rp)}
	return mk(mproto.Command_DropRetentionPolicyCommand, mproto.E_DropRetentionPolicyCommand_Command, v, "")
}

func (g *Gen) SetDefaultRetentionPolicy() Cmd {
	db, rp := g.dbrp()
	v := &mproto.SetDefaultRetentionPolicyCommand{Database: proto.String(db), Name: proto.String(rp)}
	return mk(mproto.Command_SetDefaultRetentionPolicyCommand, mproto.E_SetDefaultRetentionPolicyCommand_Command, v, "")
}

// UpdateRetentionPolicy: duration, shard-duration and tier-duration changes. NewName is
// never set: no front end of openGemini sends a rename (ALTER RETENTION POLICY has none).
func (g *Gen) UpdateRetentionPolicy() Cmd {
	db, rp := g.dbrp()
	v := &mproto.UpdateRetentionPolicyCommand{Database: proto.String(db), Name: proto.String(rp)}
	if g.p(0.6) {
		v.ShardGroupDuration = proto.Int64([]int64{Hour, 2 * Hour, 3 * Hour, Day, 7 * Day, Hour / 2}[g.n(6)])
	}
	if g.p(0.3) {
		v.Duration = proto.Int64([]int64{0, Day, 2 * Day, 30 * Day, Hour, Hour / 2}[g.n(6)])
	}
	if g.p(0.1) {
		v.HotDuration = proto.Int64([]int64{0, Hour, Day, 90 * int64(time.Minute)}[g.n(4)])
	}
	if g.p(0.1) {
		v.WarmDuration = proto.Int64([]int64{0, Hour, Day}[g.n(3)])
	}
	if g.p(0.1) {
		v.IndexGroupDuration = proto.Int64([]int64{Hour, Day, 2 * Day}[g.n(3)])
	}
	if g.p(0.05) {
		v.IndexColdDuration = proto.Int64([]int64{0, Day}[g.n(2)])
	}
	if g.p(0.05) {
		v.ReplicaN = proto.Uint32(1)
	}
	v.MakeDefault = proto.Bool(g.p(0.15))
	return mk(mproto.Command_UpdateRetentionPolicyCommand, mproto.E_UpdateRetentionPolicyCommand_Command, v, "")
}

// CreateMeasurement always carries a shard key, as every client path does
// (metaclient.CreateMeasurement / SimpleCreateMeasurement).
func (g *Gen) CreateMeasurement() Cmd {
	db, rp := g.dbrp()
	mst := g.pickMst(db, rp)
	typ := "hash"
	// mostly follow the sharding type already used in the policy
	if r := g.rp(db, rp); r != nil {
		for _, n := range g.mstNames(r) {
			if m := r.Measurements[n]; len(m.ShardKeys) > 0 {
				typ = m.ShardKeys[0].Type
				break
			}
		}
		if len(r.Measurements) == 0 && g.p(0.2) {
			typ = "range"
		}
	}
	if g.FlipShardType && g.p(0.15) {
		if typ == "hash" {
			typ = "range"
		} else {
			typ = "hash"
		}
	}
	v := &mproto.CreateMeasurementCommand{DBName: proto.String(db), RpName: proto.String(rp), Name: proto.String(mst), Ski: g.ski(typ), EngineType: proto.Uint32(0)}
	if typ == "range" && len(v.Ski.ShardKey) == 0 {
		v.Ski.ShardKey = []string{"t0"}
	}
	if g.p(0.15) {
		v.EngineType = proto.Uint32(1)
		v.ColStoreInfo = &mproto.ColStoreInfo{PrimaryKey: []string{"t0"}, SortKey: []string{"t0", "f0"}, TimeClusterDuration: proto.Int64(0), CompactionType: proto.Int32(int32(g.n(2)))}
	}
	if g.p(0.3) {
		v.InitNumOfShards = proto.Int32(int32([]int{-1, 0, 1, 2}[g.n(4)]))
	}
	if g.p(0.3) {
		v.SchemaInfo = g.fields()
	}
	if g.p(0.2) {
		v.Options = &mproto.Options{Ttl: proto.Int64(int64(g.n(3)) * Day), SplitChar: proto.String(","), TagsSplit: proto.String(";"), CaseInSensitive: proto.Bool(g.p(0.5))}
	}
	if g.p(0.15) {
		v.IR = &mproto.IndexRelation{Rid: proto.Uint32(0), Oid: []uint32{uint32(g.n(3))}, IndexName: []string{"field"}, IndexLists: []*mproto.IndexList{{IList: []string{"f0"}}}}
	}
	return mk(mproto.Command_CreateMeasurementCommand, mproto.E_CreateMeasurementCommand_Command, v, "")
}

func (g *Gen) mstNames(r *meta.RetentionPolicyInfo) []string {
	out := make([]string, 0, len(r.Measurements))
	for k := range r.Measurements {
		out = append(out, k)
	}
	sort.Strings(out)
	return out
}

func (g *Gen) fields() []*mproto.FieldSchema {
	n := 1 + g.n(3)
	var out []*mproto.FieldSchema
	for i := 0; i < n; i++ {
		f := pickS(g, fieldPool)
		typ := int32(3) // float
		if f[0] == 't' {
			typ = 6 // tag
		}
		if g.p(0.08) {
			typ = 1 // int: type conflict with an earlier float
		}
		end := int32(((BaseTime + int64(g.n(4))*Day) >> 32) & 0x7fffffff)
		out = append(out, &mproto.FieldSchema{FieldName: proto.String(f), FieldType: proto.Int32(typ), EndTime: proto.Int32(end)})
	}
	return out
}

func (g *Gen) UpdateSchema() Cmd {
	db, rp := g.dbrpWith(func(r *meta.RetentionPolicyInfo) bool { return len(r.Measurements) > 0 })
	v := &mproto.UpdateSchemaCommand{Database: proto.String(db), RpName: proto.String(rp), Measurement: proto.String(g.pickMst(db, rp)), FieldToCreate: g.fields()}
	return mk(mproto.Command_UpdateSchemaCommand, mproto.E_UpdateSchemaCommand_Command, v, "")
}

func (g *Gen) AlterShardKey() Cmd {
	db, rp := g.dbrpWith(func(r *meta.RetentionPolicyInfo) bool { return len(r.Measurements) > 0 })
	mst := g.pickMst(db, rp)
	typ := "hash"
	if r := g.rp(db, rp); r != nil {
		if m := r.Measurement(mst); m != nil && len(m.ShardKeys) > 0 && g.p(0.9) {
			typ = m.ShardKeys[0].Type
		}
	}
	k := g.ski(typ)
	if typ == "range" && len(k.ShardKey) == 0 {
		k.ShardKey = []string{"t1"}
	}
	v := &mproto.AlterShardKeyCmd{DBName: proto.String(db), RpName: proto.String(rp), Name: proto.String(mst), Ski: k}
	return mk(mproto.Command_AlterShardKeyCmd, mproto.E_AlterShardKeyCmd_Command, v, "")
}

func (g *Gen) MarkMeasurementDelete() Cmd {
	db, rp := g.dbrpWith(func(r *meta.RetentionPolicyInfo) bool { return len(r.Measurements) > 0 })
	v := &mproto.MarkMeasurementDeleteCommand{Database: proto.String(db), Policy: proto.String(rp), Measurement: proto.String(g.pickMst(db, rp))}
	return mk(mproto.Command_MarkMeasurementDeleteCommand, mproto.E_MarkMeasurementDeleteCommand_Command, v, "")
}

func (g *Gen) DropMeasurement() Cmd {
	db, rp := g.dbrpWith(func(r *meta.RetentionPolicyInfo) bool {
		for _, m := range r.Measurements {
			if m.MarkDeleted {
				return true
			}
		}
		return false
	})
	name := "m0_0000"
	if r := g.rp(db, rp); r != nil && len(r.Measurements) > 0 {
		ns := g.mstNames(r)
		var del []string
		for _, n := range ns {
			if r.Measurements[n].MarkDeleted {
				del = append(del, n)
			}
		}
		if len(del) > 0 && g.p(0.85) {
			name = pickS(g, del)
		} else if !g.Safe {
			name = pickS(g, ns)
		}
	}
	v := &mproto.DropMeasurementCommand{Database: proto.String(db), Policy: proto.String(rp), Measurement: proto.String(name)}
	return mk(mproto.Command_DropMeasurementCommand, mproto.E_DropMeasurementCommand_Command, v, "")
}

func (g *Gen) UpdateMeasurement() Cmd {
	db, rp := g.dbrpWith(func(r *meta.RetentionPolicyInfo) bool { return len(r.Measurements) > 0 })
	v := &mproto.UpdateMeasurementCommand{Db: proto.String(db), Rp: proto.String(rp), Mst: proto.String(g.pickMst(db, rp)),
		Options: &mproto.Options{Ttl: proto.Int64([]int64{0, 1, 3, Day, 2 * Day}[g.n(5)]), SplitChar: proto.String("|")}}
	return mk(mproto.Command_UpdateMeasurementCommand, mproto.E_UpdateMeasurementCommand_Command, v, "")
}

func (g *Gen) CreateShardGroup() Cmd {
	db, rp := g.dbrpWith(func(r *meta.RetentionPolicyInfo) bool { return len(r.Measurements) > 0 && !r.MarkDeleted })
	eng := uint32(0)
	if g.p(0.1) {
		eng = 1
	}
	v := &mproto.CreateShardGroupCommand{Database: proto.String(db), Policy: proto.String(rp), Timestamp: proto.Int64(g.timestamp()),
		ShardTier: proto.Uint64(uint64(1 + g.n(2))), EngineType: proto.Uint32(eng), Version: proto.Uint32(uint32(g.n(2)))}
	return mk(mproto.Command_CreateShardGroupCommand, mproto.E_CreateShardGroupCommand_Command, v, "")
}

func hasGroups(r *meta.RetentionPolicyInfo) bool { return len(r.ShardGroups) > 0 }

func (g *Gen) DeleteShardGroup() Cmd {
	db, rp := g.dbrpWith(hasGroups)
	id := uint64(900 + g.n(3))
	if r := g.rp(db, rp); r != nil && len(r.ShardGroups) > 0 && g.p(0.9) {
		id = r.ShardGroups[g.n(len(r.ShardGroups))].ID
	}
	v := &mproto.DeleteShardGroupCommand{Database: proto.String(db), Policy: proto.String(rp), ShardGroupID: proto.Uint64(id)}
	switch {
	case g.p(0.15):
		v.DeleteType = proto.Int32(meta.CancelDelete)
	case g.p(0.2):
		v.DeletedAt = proto.Int64(BaseTime + 100*Day)
	}
	return mk(mproto.Command_DeleteShardGroupCommand, mproto.E_DeleteShardGroupCommand_Command, v, "")
}

// liveRefs reports whether a non-deleted shard group of r refers to an index of ig.
func liveRefs(r *meta.RetentionPolicyInfo, ig *meta.IndexGroupInfo) bool {
	ids := map[uint64]bool{}
	for i := range ig.Indexes {
		ids[ig.Indexes[i].ID] = true
	}
	for i := range r.ShardGroups {
		if r.ShardGroups[i].Deleted() {
			continue
		}
		for j := range r.ShardGroups[i].Shards {
			if ids[r.ShardGroups[i].Shards[j].IndexID] {
				return true
			}
		}
	}
	return false
}

func (g *Gen) DeleteIndexGroup() Cmd {
	db, rp := g.dbrpWith(func(r *meta.RetentionPolicyInfo) bool { return len(r.IndexGroups) > 0 })
	id := uint64(900 + g.n(3))
	if r := g.rp(db, rp); r != nil && len(r.IndexGroups) > 0 && g.p(0.9) {
		var c []uint64
		for i := range r.IndexGroups {
			// Safe: the retention service expires an index group only after the shard groups in it
			if !g.Safe || !liveRefs(r, &r.IndexGroups[i]) {
				c = append(c, r.IndexGroups[i].ID)
			}
		}
		if len(c) > 0 {
			id = c[g.n(len(c))]
		}
	}
	v := &mproto.DeleteIndexGroupCommand{Database: proto.String(db), Policy: proto.String(rp), IndexGroupID: proto.Uint64(id)}
	return mk(mproto.Command_DeleteIndexGroupCommand, mproto.E_DeleteIndexGroupCommand_Command, v, "")
}

func (g *Gen) PruneGroups() Cmd {
	shard := g.p(0.7)
	id := uint64(9000 + g.n(3))
	d := g.D()
	var c []uint64
	for _, db := range g.dbs() {
		for _, rp := range g.rps(db) {
			r := d.Databases[db].RetentionPolicies[rp]
			if shard {
				for i := range r.ShardGroups {
					sg := &r.ShardGroups[i]
					if g.Safe && !sg.Deleted() {
						continue // shards are pruned only out of groups marked deleted
					}
					for j := range sg.Shards {
						if !sg.Shards[j].MarkDelete || g.p(0.1) {
							c = append(c, sg.Shards[j].ID)
						}
					}
				}
			} else {
				for i := range r.IndexGroups {
					ig := &r.IndexGroups[i]
					if g.Safe && (!ig.Deleted() || liveRefs(r, ig)) {
						continue
					}
					for j := range ig.Indexes {
						c = append(c, ig.Indexes[j].ID)
					}
				}
			}
		}
	}
	if len(c) > 0 && g.p(0.92) {
		id = c[g.n(len(c))]
	}
	v := &mproto.PruneGroupsCommand{ShardGroup: proto.Bool(shard), ID: proto.Uint64(id)}
	return mk(mproto.Command_PruneGroupsCommand, mproto.E_PruneGroupsCommand_Command, v, "")
}

func (g *Gen) anyShard(db, rp string) (uint64, *meta.ShardGroupInfo) {
	if r := g.rp(db, rp); r != nil && len(r.ShardGroups) > 0 {
		sg := &r.ShardGroups[g.n(len(r.ShardGroups))]
		if len(sg.Shards) > 0 {
			return sg.Shards[g.n(len(sg.Shards))].ID, sg
		}
	}
	return uint64(9000 + g.n(3)), nil
}

func (g *Gen) UpdateShardInfoTier() Cmd {
	db, rp := g.dbrpWith(hasGroups)
	id, _ := g.anyShard(db, rp)
	if g.p(0.1) {
		id = 9999
	}
	v := &mproto.UpdateShardInfoTierCommand{ShardID: proto.Uint64(id), Tier: proto.Uint64(uint64(1 + g.n(3))), DbName: proto.String(db), RpName: proto.String(rp)}
	return mk(mproto.Command_UpdateShardInfoTierCommand, mproto.E_UpdateShardInfoTierCommand_Command, v, "")
}

func (g *Gen) UpdateIndexInfoTier() Cmd {
	db, rp := g.dbrpWith(func(r *meta.RetentionPolicyInfo) bool { return len(r.IndexGroups) > 0 })
	id := uint64(9999)
	if r := g.rp(db, rp); r != nil && len(r.IndexGroups) > 0 && g.p(0.9) {
		ig := &r.IndexGroups[g.n(len(r.IndexGroups))]
		if len(ig.Indexes) > 0 {
			id = ig.Indexes[g.n(len(ig.Indexes))].ID
		}
	}
	v := &mproto.UpdateIndexInfoTierCommand{IndexID: proto.Uint64(id), Tier: proto.Uint64(uint64(2 + g.n(2))), DbName: proto.String(db), RpName: proto.String(rp)}
	return mk(mproto.Command_UpdateIndexInfoTierCommand, mproto.E_UpdateIndexInfoTierCommand_Command, v, "")
}

// downSamplePanics mirrors UpdateShardDownSampleInfo: it takes the FIRST group whose shard id
// range [first,last] contains the id; after an expansion (ExpandGroups / node join with
// expand-shards) the ranges of different groups overlap and that group may not hold the
// shard, in which case the state machine dereferences nil.
func downSamplePanics(r *meta.RetentionPolicyInfo, id uint64) bool {
	for i := range r.ShardGroups {
		sg := &r.ShardGroups[i]
		if len(sg.Shards) > 0 && id >= sg.Shards[0].ID && id <= sg.Shards[len(sg.Shards)-1].ID && sg.Shard(id) == nil {
			return true
		}
	}
	return false
}

func (g *Gen) UpdateShardDownSampleInfo() Cmd {
	db, rp := g.dbrpWith(hasGroups)
	id, sg := g.anyShard(db, rp)
	if r := g.rp(db, rp); r != nil {
		// mostly stay clear of the crash input (it is reported as apply-panic when hit)
		for tries := 0; tries < 6 && downSamplePanics(r, id) && g.p(0.95); tries++ {
			id, sg = g.anyShard(db, rp)
		}
	}
	gid := uint64(0)
	if sg != nil {
		gid = sg.ID
	}
	if rp == "" { // the command looks the policy up by its literal name
		if di := g.D().Databases[db]; di != nil {
			rp = di.DefaultRetentionPolicy
		}
	}
	v := &mproto.UpdateShardDownSampleInfoCommand{Ident: &mproto.ShardIdentifier{ShardID: proto.Uint64(id), ShardGroupID: proto.Uint64(gid), OwnerDb: proto.String(db), OwnerPt: proto.Uint32(0),
		Policy: proto.String(rp), ShardType: proto.String("hash"), DownSampleLevel: proto.Int64(int64(g.n(3))), DownSampleID: proto.Uint64(uint64(g.n(2))), ReadOnly: proto.Bool(g.p(0.5))}}
	return mk(mproto.Command_UpdateShardDownSampleInfoCommand, mproto.E_UpdateShardDownSampleInfoCommand_Command, v, "")
}

// ReSharding is only meaningful for range-sharded policies; the number of bounds is kept
// below the partition count, as the balancer that issues it does (one shard per partition).
func (g *Gen) ReSharding() Cmd {
	db, rp := g.dbrpWith(func(r *meta.RetentionPolicyInfo) bool {
		if len(r.ShardGroups) == 0 {
			return false
		}
		for _, m := range r.Measurements {
			if len(m.ShardKeys) > 0 && m.ShardKeys[0].Type == "range" {
				return true
			}
		}
		return false
	})
	gid := uint64(900)
	split := BaseTime + 10*int64(time.Minute)
	if r := g.rp(db, rp); r != nil && len(r.ShardGroups) > 0 {
		last := &r.ShardGroups[len(r.ShardGroups)-1]
		if g.p(0.85) {
			gid = last.ID
		} else {
			gid = r.ShardGroups[0].ID
		}
		split = last.StartTime.UnixNano() + int64(1+g.n(50))*int64(time.Minute)
	}
	nb := 1
	if pn := int(g.D().ClusterPtNum); pn > 2 {
		nb = 1 + g.n(pn-1)
	}
	bounds := []string{"g", "n", "t", "w"}[:min(nb, 4)]
	v := &mproto.ReShardingCommand{Database: proto.String(db), RpName: proto.String(rp), ShardGroupID: proto.Uint64(gid), SplitTime: proto.Int64(split), ShardBounds: bounds}
	return mk(mproto.Command_ReShardingCommand, mproto.E_ReShardingCommand_Command, v, "")
}

// replaceMergeShardsOpt: the command is drawn only when at least one of its shard ids
// exists; with none, ReplaceMergeShards indexes an empty slice and the state machine panics
// (reported separately as apply-panic by drivers that send it).
func (g *Gen) replaceMergeShardsOpt() (Cmd, bool) {
	c, n := g.replaceMergeShards()
	return c, n >= 1
}

func (g *Gen) ReplaceMergeShards() Cmd { c, _ := g.replaceMergeShards(); return c }

// singleEngine reports whether all shard groups of the policy belong to one storage engine.
func singleEngine(r *meta.RetentionPolicyInfo) bool {
	for i := range r.ShardGroups {
		if r.ShardGroups[i].EngineType != r.ShardGroups[0].EngineType {
			return false
		}
	}
	return true
}

// In Safe mode the merge request names shards of consecutive groups of a policy whose groups
// all belong to one engine, in time order: ReplaceMergeShards works on slice positions and
// would otherwise swallow the groups of the other engine that lie in between.
func (g *Gen) replaceMergeShards() (Cmd, int) {
	db, rp := g.dbrpWith(func(r *meta.RetentionPolicyInfo) bool {
		return len(r.ShardGroups) > 1 && (!g.Safe || singleEngine(r))
	})
	if g.Safe {
		if r := g.rp(db, rp); r == nil || !singleEngine(r) {
			return Cmd{}, 0
		}
	}
	var ids []uint64
	pt := uint32(0)
	if r := g.rp(db, rp); r != nil && len(r.ShardGroups) > 0 {
		if pn := int(g.D().ClusterPtNum); pn > 0 {
			pt = uint32(g.n(pn))
		}
		start := g.n(len(r.ShardGroups))
		n := 1 + g.n(3)
		for i := start; i < len(r.ShardGroups) && len(ids) < n; i++ {
			for _, s := range r.ShardGroups[i].Shards {
				if len(s.Owners) > 0 && s.Owners[0] == pt {
					ids = append(ids, s.ID)
				}
			}
		}
		if g.p(0.1) && len(ids) > 1 {
			ids[0], ids[len(ids)-1] = ids[len(ids)-1], ids[0] // not incremental: refused
		}
	}
	if rp == "" {
		if di := g.D().Databases[db]; di != nil {
			rp = di.DefaultRetentionPolicy
		}
	}
	v := &mproto.ReplaceMergeShardsCommand{Db: proto.String(db), Rp: proto.String(rp), PtId: proto.Uint32(pt), ShardId: ids}
	return mk(mproto.Command_ReplaceMergeShardsCommand, mproto.E_ReplaceMergeShardsCommand_Command, v, ""), len(ids)
}

func (g *Gen) CreateSubscription() Cmd {
	db, rp := g.dbrp()
	v := &mproto.CreateSubscriptionCommand{Name: proto.String(pickS(g, subPool)), Database: proto.String(db), RetentionPolicy: proto.String(rp),
		Mode: proto.String([]string{"ALL", "ANY"}[g.n(2)]), Destinations: []string{"http://127.0.0.1:9999"}}
	return mk(mproto.Command_CreateSubscriptionCommand, mproto.E_CreateSubscriptionCommand_Command, v, "")
}

func (g *Gen) DropSubscription() Cmd {
	db, rp := g.dbrp()
	name := pickS(g, subPool)
	switch g.n(12) {
	case 0:
		db = ""
	case 1:
		name = ""
	case 2:
		rp = ""
	}
	v := &mproto.DropSubscriptionCommand{Name: proto.String(name), Database: proto.String(db), RetentionPolicy: proto.String(rp)}
	return mk(mproto.Command_DropSubscriptionCommand, mproto.E_DropSubscriptionCommand_Command, v, "")
}

func (g *Gen) CreateUser() Cmd {
	n := pickS(g, userPool)
	if g.p(0.03) {
		n = ""
	}
	v := &mproto.CreateUserCommand{Name: proto.String(n), Hash: proto.String("h" + fmt.Sprint(g.n(2))), Admin: proto.Bool(n == "root" || g.p(0.1)), RwUser: proto.Bool(g.p(0.3))}
	return mk(mproto.Command_CreateUserCommand, mproto.E_CreateUserCommand_Command, v, "")
}
func (g *Gen) DropUser() Cmd {
	v := &mproto.DropUserCommand{Name: proto.String(pickS(g, userPool))}
	return mk(mproto.Command_DropUserCommand, mproto.E_DropUserCommand_Command, v, "")
}
func (g *Gen) UpdateUser() Cmd {
	v := &mproto.UpdateUserCommand{Name: proto.String(pickS(g, userPool)), Hash: proto.String("h" + fmt.Sprint(g.n(3)))}
	return mk(mproto.Command_UpdateUserCommand, mproto.E_UpdateUserCommand_Command, v, "")
}
func (g *Gen) SetPrivilege() Cmd {
	v := &mproto.SetPrivilegeCommand{Username: proto.String(pickS(g, userPool)), Database: proto.String(g.pickDB()), Privilege: proto.Int32(int32(g.n(4)))}
	return mk(mproto.Command_SetPrivilegeCommand, mproto.E_SetPrivilegeCommand_Command, v, "")
}
func (g *Gen) SetAdminPrivilege() Cmd {
	v := &mproto.SetAdminPrivilegeCommand{Username: proto.String(pickS(g, userPool)), Admin: proto.Bool(g.p(0.5))}
	return mk(mproto.Command_SetAdminPrivilegeCommand, mproto.E_SetAdminPrivilegeCommand_Command, v, "")
}

// SetData installs the marshalled image of the current catalogue (what the upgrade path does).
func (g *Gen) SetData() Cmd {
	v := &mproto.SetDataCommand{Data: g.D().Marshal()}
	c := mk(mproto.Command_SetDataCommand, mproto.E_SetDataCommand_Command, v, "")
	c.Desc = fmt.Sprintf("SetData(image of the current catalogue, %d bytes)", len(c.Data))
	return c
}

func (g *Gen) CreateMetaNode() Cmd {
	h := pickS(g, hostPool)
	tcp := h + ":8088"
	if g.p(0.15) {
		tcp = h + ":8401" // same TCP address as a data node: id is shared
	}
	v := &mproto.CreateMetaNodeCommand{HTTPAddr: proto.String(h + ":8091"), RPCAddr: proto.String(h + ":8092"), TCPAddr: proto.String(tcp), Rand: proto.Uint64(uint64(1000 + g.n(5)))}
	return mk(mproto.Command_CreateMetaNodeCommand, mproto.E_CreateMetaNodeCommand_Command, v, "")
}
func (g *Gen) SetMetaNode() Cmd {
	h := pickS(g, hostPool)
	v := &mproto.SetMetaNodeCommand{HTTPAddr: proto.String(h + ":8091"), RPCAddr: proto.String(h + ":8092"), TCPAddr: proto.String(h + ":8088"), Rand: proto.Uint64(uint64(2000 + g.n(5)))}
	return mk(mproto.Command_SetMetaNodeCommand, mproto.E_SetMetaNodeCommand_Command, v, "")
}
func (g *Gen) DeleteMetaNode() Cmd {
	var ids []uint64
	for _, n := range g.D().MetaNodes {
		ids = append(ids, n.ID)
	}
	id := g.pickNodeID(ids)
	if g.p(0.05) {
		id = 0
	}
	v := &mproto.DeleteMetaNodeCommand{ID: proto.Uint64(id)}
	return mk(mproto.Command_DeleteMetaNodeCommand, mproto.E_DeleteMetaNodeCommand_Command, v, "")
}
func (g *Gen) DeleteDataNode() Cmd {
	v := &mproto.DeleteDataNodeCommand{ID: proto.Uint64(g.pickNodeID(g.dataNodeIDs()))}
	return mk(mproto.Command_DeleteDataNodeCommand, mproto.E_DeleteDataNodeCommand_Command, v, "")
}
func (g *Gen) CreateSqlNode() Cmd {
	h := pickS(g, hostPool)
	v := &mproto.CreateSqlNodeCommand{HTTPAddr: proto.String(h + ":8086"), GossipAddr: proto.String(h + ":8011")}
	return mk(mproto.Command_CreateSqlNodeCommand, mproto.E_CreateSqlNodeCommand_Command, v, "")
}

func (g *Gen) status() int32 { return []int32{1, 1, 2, 3, 4}[g.n(5)] } // serf alive/leaving/left/failed

func (g *Gen) UpdateNodeStatus() Cmd {
	v := &mproto.UpdateNodeStatusCommand{ID: proto.Uint64(g.pickNodeID(g.dataNodeIDs())), Status: proto.Int32(g.status()), Ltime: proto.Uint64(g.nextLTime()), GossipAddr: proto.String("8010")}
	return mk(mproto.Command_UpdateNodeStatusCommand, mproto.E_UpdateNodeStatusCommand_Command, v, "")
}
func (g *Gen) UpdateSqlNodeStatus() Cmd {
	var ids []uint64
	for _, n := range g.D().SqlNodes {
		ids = append(ids, n.ID)
	}
	v := &mproto.UpdateSqlNodeStatusCommand{ID: proto.Uint64(g.pickNodeID(ids)), Status: proto.Int32(g.status()), Ltime: proto.Uint64(g.nextLTime()), GossipAddr: proto.String("8011")}
	return mk(mproto.Command_UpdateSqlNodeStatusCommand, mproto.E_UpdateSqlNodeStatusCommand_Command, v, "")
}
func (g *Gen) UpdateMetaNodeStatus() Cmd {
	var ids []uint64
	for _, n := range g.D().MetaNodes {
		ids = append(ids, n.ID)
	}
	v := &mproto.UpdateMetaNodeStatusCommand{ID: proto.Uint64(g.pickNodeID(ids)), Status: proto.Int32(g.status()), Ltime: proto.Uint64(g.nextLTime()), GossipAddr: proto.String("8012")}
	return mk(mproto.Command_UpdateMetaNodeStatusCommand, mproto.E_UpdateMetaNodeStatusCommand_Command, v, "")
}
func (g *Gen) updateNodeTmpIndexOpt() (Cmd, bool) {
	if !g.TmpIndex {
		return Cmd{}, false
	}
	return g.UpdateNodeTmpIndex(), true
}

func (g *Gen) UpdateNodeTmpIndex() Cmd {
	role := int32(g.n(3)) // SQL, STORE, META(invalid)
	var ids []uint64
	if role == 0 {
		for _, n := range g.D().SqlNodes {
			ids = append(ids, n.ID)
		}
	} else {
		ids = g.dataNodeIDs()
	}
	v := &mproto.UpdateNodeTmpIndexCommand{Role: proto.Int32(role), Index: proto.Uint64(g.D().Index + uint64(g.n(3)) - 1), NodeId: proto.Uint64(g.pickNodeID(ids))}
	return mk(mproto.Command_UpdateNodeTmpIndexCommand, mproto.E_UpdateNodeTmpIndexCommand_Command, v, "")
}
func (g *Gen) VerifyDataNode() Cmd {
	v := &mproto.VerifyDataNodeCommand{NodeID: proto.Uint64(g.pickNodeID(g.dataNodeIDs()))}
	return mk(mproto.Command_VerifyDataNodeCommand, mproto.E_VerifyDataNodeCommand_Command, v, "")
}
func (g *Gen) SetNodeSegregateStatus() Cmd {
	n := 1 + g.n(2)
	v := &mproto.SetNodeSegregateStatusCommand{}
	for i := 0; i < n; i++ {
		v.NodeIds = append(v.NodeIds, g.pickNodeID(g.dataNodeIDs()))
		v.Status = append(v.Status, uint64(g.n(3)))
	}
	return mk(mproto.Command_SetNodeSegregateStatusCommand, mproto.E_SetNodeSegregateStatusCommand_Command, v, "")
}
func (g *Gen) RemoveNode() Cmd {
	ids := g.dataNodeIDs()
	// the segregation path removes nodes that were segregated first
	if g.Safe || g.p(0.7) {
		ids = nil
		for _, n := range g.D().DataNodes {
			if n.SegregateStatus == meta.Segregated {
				ids = append(ids, n.ID)
			}
		}
	}
	v := &mproto.RemoveNodeCommand{NodeIds: []uint64{g.pickNodeID(ids)}}
	return mk(mproto.Command_RemoveNodeCommand, mproto.E_RemoveNodeCommand_Command, v, "")
}

func (g *Gen) ptInfo(db string) (*mproto.PtInfo, *meta.PtInfo) {
	pv := g.D().PtView[db]
	if len(pv) > 0 && g.p(0.9) {
		pt := pv[g.n(len(pv))]
		pb := pt.Marshal()
		if g.p(0.1) {
			pb.Status = proto.Uint32((uint32(pt.Status) + 1) % 4) // stale view: PtChanged
		}
		return pb, &pt
	}
	return &mproto.PtInfo{Owner: &mproto.PtOwner{NodeID: proto.Uint64(1)}, Status: proto.Uint32(3), PtId: proto.Uint32(uint32(g.n(40))), Ver: proto.Uint64(1), RGID: proto.Uint32(0)}, nil
}

func (g *Gen) UpdatePtInfo() Cmd {
	db := g.pickDB()
	pb, cur := g.ptInfo(db)
	owner := g.pickNodeID(g.dataNodeIDs())
	if cur != nil && g.p(0.7) {
		owner = cur.Owner.NodeID
	}
	v := &mproto.UpdatePtInfoCommand{Db: proto.String(db), Pt: pb, OwnerNode: proto.Uint64(owner), Status: proto.Uint32(uint32([]int{0, 0, 1, 2, 3, 6}[g.n(6)]))}
	return mk(mproto.Command_UpdatePtInfoCommand, mproto.E_UpdatePtInfoCommand_Command, v, "")
}
func (g *Gen) UpdatePtVersion() Cmd {
	db := g.pickDB()
	pt := uint32(g.n(3))
	if pv := g.D().PtView[db]; len(pv) > 0 && g.p(0.9) {
		pt = uint32(g.n(len(pv)))
	} else if g.p(0.3) {
		pt = 77
	}
	v := &mproto.UpdatePtVersionCommand{Db: proto.String(db), Pt: proto.Uint32(pt)}
	return mk(mproto.Command_UpdatePtVersionCommand, mproto.E_UpdatePtVersionCommand_Command, v, "")
}

func (g *Gen) eventID(db string, pt uint32) string { return fmt.Sprintf("%s$%d", db, pt) }

func (g *Gen) eventInfo(existing bool) *mproto.MigrateEventInfo {
	d := g.D()
	if existing && len(d.MigrateEvents) > 0 {
		var ks []string
		for k := range d.MigrateEvents {
			ks = append(ks, k)
		}
		sort.Strings(ks)
		id := pickS(g, ks)
		e := d.MigrateEvents[id]
		return &mproto.MigrateEventInfo{EventId: proto.String(id), EventType: proto.Int32(int32(e.GetEventType())), OpId: proto.Uint64(e.GetOpId()),
			Pti: e.GetPtInfo().Marshal(), CurrState: proto.Int32(int32(e.GetCurrentState())), PreState: proto.Int32(int32(e.GetPreState())),
			Src: proto.Uint64(e.GetSrc()), Dest: proto.Uint64(e.GetDst()), AliveConnId: proto.Uint64(e.GetAliveConnId())}
	}
	db := g.pickDB()
	pb, _ := g.ptInfo(db)
	return &mproto.MigrateEventInfo{EventId: proto.String(g.eventID(db, pb.GetPtId())), EventType: proto.Int32(int32(g.n(3))), OpId: proto.Uint64(0),
		Pti:       &mproto.DbPt{Db: proto.String(db), Pt: pb, DBBriefInfo: &mproto.DatabaseBriefInfo{Name: proto.String(db), EnableTagArray: proto.Bool(false), Replicas: proto.Int32(1)}},
		CurrState: proto.Int32(int32(g.n(4))), PreState: proto.Int32(int32(g.n(4))), Src: proto.Uint64(g.pickNodeID(g.dataNodeIDs())), Dest: proto.Uint64(g.pickNodeID(g.dataNodeIDs())),
		CheckConflict: proto.Bool(g.p(0.5)), AliveConnId: proto.Uint64(uint64(g.n(5)))}
}

func (g *Gen) CreateEvent() Cmd {
	v := &mproto.CreateEventCommand{EventInfo: g.eventInfo(g.p(0.2))}
	return mk(mproto.Command_CreateEventCommand, mproto.E_CreateEventCommand_Command, v, "")
}
func (g *Gen) UpdateEvent() Cmd {
	e := g.eventInfo(g.p(0.85))
	e.CurrState = proto.Int32(int32(1 + g.n(10)))
	e.PreState = proto.Int32(int32(g.n(10)))
	if g.p(0.1) {
		e.OpId = proto.Uint64(e.GetOpId() + 7)
	}
	v := &mproto.UpdateEventCommand{EventInfo: e}
	return mk(mproto.Command_UpdateEventCommand, mproto.E_UpdateEventCommand_Command, v, "")
}
func (g *Gen) RemoveEvent() Cmd {
	e := g.eventInfo(g.p(0.85))
	v := &mproto.RemoveEventCommand{EventId: proto.String(e.GetEventId())}
	return mk(mproto.Command_RemoveEventCommand, mproto.E_RemoveEventCommand_Command, v, "")
}

// Down-sample commands are restricted to existing databases / policies: the apply
// functions dereference the looked-up objects without a nil check (the sql front end
// validates the names before it sends the command).
func (g *Gen) CreateDownSamplePolicy() (Cmd, bool) {
	var cands [][2]string
	for _, db := range g.dbs() {
		for _, rp := range g.rps(db) {
			cands = append(cands, [2]string{db, rp})
		}
	}
	if len(cands) == 0 {
		return Cmd{}, false
	}
	c := cands[g.n(len(cands))]
	v := &mproto.CreateDownSamplePolicyCommand{Database: proto.String(c[0]), Name: proto.String(c[1]),
		DownSamplePolicyInfo: &mproto.DownSamplePolicyInfo{
			Calls:              []*mproto.DownSampleOperators{{AggOps: []string{"min", "max"}, DataType: proto.Int64(3)}},
			DownSamplePolicies: []*mproto.DownSamplePolicy{{SampleInterval: proto.Int64(Day), TimeInterval: proto.Int64(int64(time.Minute)), WaterMark: proto.Int64(Day)}},
			Duration:           proto.Int64(int64(2+g.n(3)) * Day), TaskID: proto.Uint64(0)}}
	return mk(mproto.Command_CreateDownSamplePolicyCommand, mproto.E_CreateDownSamplePolicyCommand_Command, v, ""), true
}
func (g *Gen) DropDownSamplePolicy() (Cmd, bool) {
	d := g.D()
	var with [][2]string
	for _, db := range g.dbs() {
		for _, rp := range g.rps(db) {
			if d.Databases[db].RetentionPolicies[rp].DownSamplePolicyInfo != nil {
				with = append(with, [2]string{db, rp})
			}
		}
	}
	if len(with) > 0 && g.p(0.6) {
		c := with[g.n(len(with))]
		v := &mproto.DropDownSamplePolicyCommand{Database: proto.String(c[0]), RpName: proto.String(c[1]), DropAll: proto.Bool(false)}
		return mk(mproto.Command_DropDownSamplePolicyCommand, mproto.E_DropDownSamplePolicyCommand_Command, v, ""), true
	}
	dbs := g.dbs()
	if len(dbs) == 0 {
		return Cmd{}, false
	}
	v := &mproto.DropDownSamplePolicyCommand{Database: proto.String(pickS(g, dbs)), RpName: proto.String(""), DropAll: proto.Bool(true)}
	return mk(mproto.Command_DropDownSamplePolicyCommand, mproto.E_DropDownSamplePolicyCommand_Command, v, ""), true
}

func (g *Gen) MarkTakeover() Cmd {
	v := &mproto.MarkTakeoverCommand{Enable: proto.Bool(g.p(0.7))}
	return mk(mproto.Command_MarkTakeoverCommand, mproto.E_MarkTakeoverCommand_Command, v, "")
}
func (g *Gen) MarkBalancer() Cmd {
	v := &mproto.MarkBalancerCommand{Enable: proto.Bool(g.p(0.5))}
	return mk(mproto.Command_MarkBalancerCommand, mproto.E_MarkBalancerCommand_Command, v, "")
}

func (g *Gen) CreateStream() Cmd {
	db, rp := g.dbrp()
	v := &mproto.CreateStreamCommand{StreamInfo: &mproto.StreamInfo{Name: proto.String(pickS(g, strPool)), ID: proto.Uint64(0),
		SrcMst:   &mproto.StreamMeasurementInfo{Name: proto.String(pickS(g, mstPool)), Database: proto.String(db), RetentionPolicy: proto.String(rp)},
		DesMst:   &mproto.StreamMeasurementInfo{Name: proto.String("dst"), Database: proto.String(db), RetentionPolicy: proto.String(rp)},
		Interval: proto.Int64(int64(1+g.n(2)) * int64(time.Minute)), Delay: proto.Int64(int64(time.Second)), Dims: []string{"t0"},
		Calls: []*mproto.StreamCall{{Call: proto.String("sum"), Field: proto.String("f0"), Alias: proto.String("sum_f0")}}, Cond: proto.String("")}}
	return mk(mproto.Command_CreateStreamCommand, mproto.E_CreateStreamCommand_Command, v, "")
}
func (g *Gen) DropStream() Cmd {
	v := &mproto.DropStreamCommand{Name: proto.String(pickS(g, strPool))}
	return mk(mproto.Command_DropStreamCommand, mproto.E_DropStreamCommand_Command, v, "")
}
func (g *Gen) ExpandGroups() Cmd {
	return mk(mproto.Command_ExpandGroupsCommand, mproto.E_ExpandGroupsCommand_Command, &mproto.ExpandGroupsCommand{}, "")
}
func (g *Gen) RegisterQueryIDOffset() Cmd {
	v := &mproto.RegisterQueryIDOffsetCommand{Host: proto.String(pickS(g, hostPool) + ":8086")}
	return mk(mproto.Command_RegisterQueryIDOffsetCommand, mproto.E_RegisterQueryIDOffsetCommand_Command, v, "")
}
func (g *Gen) CreateContinuousQuery() Cmd {
	db := g.pickDB()
	name := pickS(g, cqPool)
	q := fmt.Sprintf(`CREATE CONTINUOUS QUERY "%s" ON "%s" RESAMPLE EVERY %dh BEGIN SELECT max("f0") INTO "mx" FROM "m0" GROUP BY time(10m) END`, name, db, 1+g.n(2))
	v := &mproto.CreateContinuousQueryCommand{Database: proto.String(db), Name: proto.String(name), Query: proto.String(q)}
	return mk(mproto.Command_CreateContinuousQueryCommand, mproto.E_CreateContinuousQueryCommand_Command, v, "")
}
func (g *Gen) ContinuousQueryReport() Cmd {
	v := &mproto.ContinuousQueryReportCommand{CQStates: []*mproto.CQState{{Name: proto.String(pickS(g, cqPool)), LastRunTime: proto.Int64(BaseTime + int64(g.n(100))*Hour)}}}
	return mk(mproto.Command_ContinuousQueryReportCommand, mproto.E_ContinuousQueryReportCommand_Command, v, "")
}
func (g *Gen) DropContinuousQuery() Cmd {
	v := &mproto.DropContinuousQueryCommand{Name: proto.String(pickS(g, cqPool)), Database: proto.String(g.pickDB())}
	return mk(mproto.Command_DropContinuousQueryCommand, mproto.E_DropContinuousQueryCommand_Command, v, "")
}
func (g *Gen) NotifyCQLeaseChanged() Cmd {
	return mk(mproto.Command_NotifyCQLeaseChangedCommand, mproto.E_NotifyCQLeaseChangedCommand_Command, &mproto.NotifyCQLeaseChangedCommand{}, "")
}

// UpdateReplication indexes the replica-group slice with the id it is given; the id is
// kept in range when the database has groups (the master-pt balancer reads it from there).
func (g *Gen) UpdateReplication() Cmd {
	d := g.D()
	db := g.pickDB()
	var with []string
	for _, n := range g.dbs() {
		if len(d.ReplicaGroups[n]) > 0 {
			with = append(with, n)
		}
	}
	if len(with) > 0 && g.p(0.9) {
		db = pickS(g, with)
	}
	v := &mproto.UpdateReplicationCommand{Database: proto.String(db), RepGroupId: proto.Uint32(0), MasterId: proto.Uint32(0)}
	if rgs, ok := d.ReplicaGroups[db]; ok {
		if len(rgs) == 0 {
			v.Database = proto.String("nosuchdb")
		} else {
			rg := rgs[g.n(len(rgs))]
			v.RepGroupId = proto.Uint32(rg.ID)
			if int(rg.ID) >= len(rgs) {
				v.RepGroupId = proto.Uint32(0)
			}
			v.MasterId = proto.Uint32(rg.MasterPtID)
			if len(rg.Peers) > 0 && g.p(0.8) {
				p := rg.Peers[g.n(len(rg.Peers))]
				v.MasterId = proto.Uint32(p.ID)
				v.Peers = append(v.Peers, &mproto.Peer{ID: proto.Uint32(rg.MasterPtID), Role: proto.Uint32(1)})
				for _, q := range rg.Peers {
					if q.ID != p.ID {
						v.Peers = append(v.Peers, &mproto.Peer{ID: proto.Uint32(q.ID), Role: proto.Uint32(1)})
					}
				}
			}
		}
	}
	return mk(mproto.Command_UpdateReplicationCommand, mproto.E_UpdateReplicationCommand_Command, v, "")
}

func (g *Gen) InsertFiles() Cmd {
	v := &mproto.InsertFilesCommand{FileInfos: []*mproto.FileInfo{{Sequence: proto.Uint64(1), MstID: proto.Uint64(0), ShardID: proto.Uint64(1)}}}
	return mk(mproto.Command_InsertFilesCommand, mproto.E_InsertFilesCommand_Command, v, "")
}

func wrap(f func(g *Gen) Cmd) func(g *Gen) (Cmd, bool) {
	return func(g *Gen) (Cmd, bool) { return f(g), true }
}

type entry struct {
	typ    mproto.Command_Type
	weight int
	admin  bool
	fn     func(g *Gen) (Cmd, bool)
}

var table = []entry{
	{mproto.Command_CreateDataNodeCommand, 5, true, wrap((*Gen).CreateDataNode)},
	{mproto.Command_CreateDbPtViewCommand, 5, true, wrap((*Gen).CreateDbPtView)},
	{mproto.Command_CreateDatabaseCommand, 6, true, wrap((*Gen).CreateDatabase)},
	{mproto.Command_MarkDatabaseDeleteCommand, 2, true, wrap((*Gen).MarkDatabaseDelete)},
	{mproto.Command_DropDatabaseCommand, 2, true, wrap((*Gen).DropDatabase)},
	{mproto.Command_CreateRetentionPolicyCommand, 5, true, wrap((*Gen).CreateRetentionPolicy)},
	{mproto.Command_MarkRetentionPolicyDeleteCommand, 2, true, wrap((*Gen).MarkRetentionPolicyDelete)},
	{mproto.Command_DropRetentionPolicyCommand, 2, true, wrap((*Gen).DropRetentionPolicy)},
	{mproto.Command_SetDefaultRetentionPolicyCommand, 2, true, wrap((*Gen).SetDefaultRetentionPolicy)},
	{mproto.Command_UpdateRetentionPolicyCommand, 6, true, wrap((*Gen).UpdateRetentionPolicy)},
	{mproto.Command_CreateMeasurementCommand, 7, true, wrap((*Gen).CreateMeasurement)},
	{mproto.Command_UpdateSchemaCommand, 4, true, wrap((*Gen).UpdateSchema)},
	{mproto.Command_AlterShardKeyCmd, 3, true, wrap((*Gen).AlterShardKey)},
	{mproto.Command_MarkMeasurementDeleteCommand, 2, true, wrap((*Gen).MarkMeasurementDelete)},
	{mproto.Command_DropMeasurementCommand, 2, true, wrap((*Gen).DropMeasurement)},
	{mproto.Command_UpdateMeasurementCommand, 2, true, wrap((*Gen).UpdateMeasurement)},
	{mproto.Command_CreateShardGroupCommand, 14, true, wrap((*Gen).CreateShardGroup)},
	{mproto.Command_DeleteShardGroupCommand, 5, true, wrap((*Gen).DeleteShardGroup)},
	{mproto.Command_DeleteIndexGroupCommand, 2, true, wrap((*Gen).DeleteIndexGroup)},
	{mproto.Command_PruneGroupsCommand, 6, true, wrap((*Gen).PruneGroups)},
	{mproto.Command_UpdateShardInfoTierCommand, 2, true, wrap((*Gen).UpdateShardInfoTier)},
	{mproto.Command_UpdateIndexInfoTierCommand, 2, true, wrap((*Gen).UpdateIndexInfoTier)},
	{mproto.Command_UpdateShardDownSampleInfoCommand, 2, true, wrap((*Gen).UpdateShardDownSampleInfo)},
	{mproto.Command_ReShardingCommand, 2, true, wrap((*Gen).ReSharding)},
	{mproto.Command_ReplaceMergeShardsCommand, 3, true, (*Gen).replaceMergeShardsOpt},
	{mproto.Command_ExpandGroupsCommand, 2, true, wrap((*Gen).ExpandGroups)},
	{mproto.Command_UpdateNodeStatusCommand, 3, true, wrap((*Gen).UpdateNodeStatus)},
	{mproto.Command_SetNodeSegregateStatusCommand, 2, true, wrap((*Gen).SetNodeSegregateStatus)},
	{mproto.Command_RemoveNodeCommand, 1, true, wrap((*Gen).RemoveNode)},
	{mproto.Command_UpdatePtInfoCommand, 3, true, wrap((*Gen).UpdatePtInfo)},
	{mproto.Command_UpdatePtVersionCommand, 1, true, wrap((*Gen).UpdatePtVersion)},
	{mproto.Command_CreateDownSamplePolicyCommand, 2, true, (*Gen).CreateDownSamplePolicy},
	{mproto.Command_DropDownSamplePolicyCommand, 1, true, (*Gen).DropDownSamplePolicy},
	{mproto.Command_CreateSubscriptionCommand, 2, false, wrap((*Gen).CreateSubscription)},
	{mproto.Command_DropSubscriptionCommand, 2, false, wrap((*Gen).DropSubscription)},
	{mproto.Command_CreateUserCommand, 2, false, wrap((*Gen).CreateUser)},
	{mproto.Command_DropUserCommand, 1, false, wrap((*Gen).DropUser)},
	{mproto.Command_UpdateUserCommand, 1, false, wrap((*Gen).UpdateUser)},
	{mproto.Command_SetPrivilegeCommand, 2, false, wrap((*Gen).SetPrivilege)},
	{mproto.Command_SetAdminPrivilegeCommand, 1, false, wrap((*Gen).SetAdminPrivilege)},
	{mproto.Command_SetDataCommand, 1, false, wrap((*Gen).SetData)},
	{mproto.Command_CreateMetaNodeCommand, 2, false, wrap((*Gen).CreateMetaNode)},
	{mproto.Command_SetMetaNodeCommand, 1, false, wrap((*Gen).SetMetaNode)},
	{mproto.Command_DeleteMetaNodeCommand, 1, false, wrap((*Gen).DeleteMetaNode)},
	{mproto.Command_DeleteDataNodeCommand, 1, false, wrap((*Gen).DeleteDataNode)},
	{mproto.Command_CreateSqlNodeCommand, 2, false, wrap((*Gen).CreateSqlNode)},
	{mproto.Command_UpdateSqlNodeStatusCommand, 1, false, wrap((*Gen).UpdateSqlNodeStatus)},
	{mproto.Command_UpdateMetaNodeStatusCommand, 1, false, wrap((*Gen).UpdateMetaNodeStatus)},
	{mproto.Command_UpdateNodeTmpIndexCommand, 2, false, (*Gen).updateNodeTmpIndexOpt},
	{mproto.Command_VerifyDataNodeCommand, 1, false, wrap((*Gen).VerifyDataNode)},
	{mproto.Command_CreateEventCommand, 2, false, wrap((*Gen).CreateEvent)},
	{mproto.Command_UpdateEventCommand, 2, false, wrap((*Gen).UpdateEvent)},
	{mproto.Command_RemoveEventCommand, 1, false, wrap((*Gen).RemoveEvent)},
	{mproto.Command_MarkTakeoverCommand, 1, false, wrap((*Gen).MarkTakeover)},
	{mproto.Command_MarkBalancerCommand, 1, false, wrap((*Gen).MarkBalancer)},
	{mproto.Command_CreateStreamCommand, 2, false, wrap((*Gen).CreateStream)},
	{mproto.Command_DropStreamCommand, 1, false, wrap((*Gen).DropStream)},
	{mproto.Command_RegisterQueryIDOffsetCommand, 1, false, wrap((*Gen).RegisterQueryIDOffset)},
	{mproto.Command_CreateContinuousQueryCommand, 2, false, wrap((*Gen).CreateContinuousQuery)},
	{mproto.Command_ContinuousQueryReportCommand, 1, false, wrap((*Gen).ContinuousQueryReport)},
	{mproto.Command_DropContinuousQueryCommand, 1, false, wrap((*Gen).DropContinuousQuery)},
	{mproto.Command_NotifyCQLeaseChangedCommand, 1, false, wrap((*Gen).NotifyCQLeaseChanged)},
	{mproto.Command_UpdateReplicationCommand, 1, false, wrap((*Gen).UpdateReplication)},
	{mproto.Command_InsertFilesCommand, 1, false, wrap((*Gen).InsertFiles)},
}

// Covered returns the names of the command types that have a builder.
func Covered() []string {
	var out []string
	for _, e := range table {
		out = append(out, e.typ.String())
	}
	sort.Strings(out)
	return out
}

// Next draws one command. adminOnly restricts the draw to the administrative subset.
func (g *Gen) Next(adminOnly bool) Cmd {
	if len(g.queue) > 0 {
		c := g.queue[0]
		g.queue = g.queue[1:]
		return c
	}
	total := 0
	for _, e := range table {
		if !adminOnly || e.admin {
			total += e.weight
		}
	}
	for tries := 0; tries < 50; tries++ {
		x := g.n(total)
		for _, e := range table {
			if adminOnly && !e.admin {
				continue
			}
			if x < e.weight {
				if c, ok := e.fn(g); ok {
					return c
				}
				break
			}
			x -= e.weight
		}
	}
	return g.CreateDataNode()
}

// Bootstrap returns the usual opening of a cluster's log: data nodes join, the partition
// view and a database with a policy are created, a measurement is added.
func (g *Gen) Bootstrap() []func() Cmd {
	return []func() Cmd{
		func() Cmd { return g.fixedNode("10.0.0.1") },
		func() Cmd { return g.fixedNode("10.0.0.2") },
		func() Cmd {
			return mk(mproto.Command_CreateDbPtViewCommand, mproto.E_CreateDbPtViewCommand_Command, &mproto.CreateDbPtViewCommand{DbName: proto.String("db0"), ReplicaNum: proto.Uint32(g.bootRep())}, "boot")
		},
		func() Cmd {
			rp := &mproto.RetentionPolicyInfo{Name: proto.String("rp0"), Duration: proto.Int64(0), ShardGroupDuration: proto.Int64(Hour), ReplicaN: proto.Uint32(g.bootRep()),
				HotDuration: proto.Int64(0), WarmDuration: proto.Int64(0), IndexGroupDuration: proto.Int64(0)}
			return mk(mproto.Command_CreateDatabaseCommand, mproto.E_CreateDatabaseCommand_Command, &mproto.CreateDatabaseCommand{Name: proto.String("db0"), RetentionPolicy: rp, ReplicaNum: proto.Uint32(g.bootRep())}, "boot")
		},
		func() Cmd {
			return mk(mproto.Command_CreateMeasurementCommand, mproto.E_CreateMeasurementCommand_Command, &mproto.CreateMeasurementCommand{DBName: proto.String("db0"), RpName: proto.String("rp0"), Name: proto.String("m0"),
				Ski: &mproto.ShardKeyInfo{Type: proto.String("hash")}, EngineType: proto.Uint32(0)}, "boot")
		},
	}
}

func (g *Gen) bootRep() uint32 {
	if g.Replication {
		return 3
	}
	return 1
}

func (g *Gen) fixedNode(h string) Cmd {
	v := &mproto.CreateDataNodeCommand{HTTPAddr: proto.String(h + ":8400"), TCPAddr: proto.String(h + ":8401"), Role: proto.String(""), Az: proto.String("az0")}
	return mk(mproto.Command_CreateDataNodeCommand, mproto.E_CreateDataNodeCommand_Command, v, "boot")
}

// Mk exposes the command constructor to drivers that define their own fixed templates.
func Mk(typ mproto.Command_Type, desc *proto.ExtensionDesc, value proto.Message, variant string) Cmd {
	return mk(typ, desc, value, variant)
}
