package main

import (
	"fmt"
	"os"
	"sort"
	"strings"
	"time"

	"verifharness/proc"
)

func main() {
	dir := "/var/tmp/c10probe/srv"
	os.RemoveAll(dir)
	bin, err := proc.Build("/repo", "/var/tmp/c10probe", "ts-server", false)
	if err != nil {
		fmt.Println(err)
		os.Exit(2)
	}
	s := proc.New(proc.Config{Bin: bin, Dir: dir, IP: proc.IP(10, 7)})
	if err := s.Start(); err != nil {
		fmt.Println(err)
		os.Exit(2)
	}
	defer s.Kill()
	if err := s.WaitReady(90 * time.Second); err != nil {
		fmt.Println(err)
		os.Exit(2)
	}
	_, err = s.Query("", "CREATE DATABASE db0", nil)
	fmt.Println("create:", err)
	vals := []string{"web", "db", "web-1", "web-12", "w", "d", "xwebx", "foo", "foobar", "xfoo", "ab", "xaybz", "a", ""}
	var lines []string
	for i, v := range vals {
		if v == "" {
			lines = append(lines, fmt.Sprintf("m,z=%d v=1i 1000000000", i))
		} else {
			lines = append(lines, fmt.Sprintf("m,host=%s,z=%d v=1i 1000000000", v, i))
		}
	}
	w := s.Write("db0", strings.Join(lines, "\n"), nil)
	fmt.Println("write:", w.Status, w.Body, w.Err)
	for i := 0; i < 100; i++ {
		r, err := s.Query("db0", "SHOW SERIES", nil)
		if err == nil && len(r.Results) > 0 && len(r.Results[0].Series) > 0 && len(r.Results[0].Series[0].Values) == len(vals) {
			break
		}
		time.Sleep(100 * time.Millisecond)
	}
	for _, q := range os.Args[1:] {
		r, err := s.Query("db0", "SHOW SERIES WHERE "+q, nil)
		var out []string
		if err == nil && len(r.Results) > 0 {
			for _, se := range r.Results[0].Series {
				for _, row := range se.Values {
					out = append(out, fmt.Sprint(row[0]))
				}
			}
		}
		sort.Strings(out)
		fmt.Printf("SHOW   %-24s err=%v -> %v\n", q, err, out)
		r, err = s.Query("db0", "SELECT v FROM m WHERE "+q+" GROUP BY *", nil)
		out = nil
		if err == nil && len(r.Results) > 0 {
			for _, se := range r.Results[0].Series {
				h, ok := se.Tags["host"]
				if !ok || h == "" {
					h = "-"
				}
				out = append(out, "host="+h)
			}
		}
		sort.Strings(out)
		fmt.Printf("SELECT %-24s err=%v -> %v\n", q, err, out)
	}
	if len(os.Args) > 1 {
		for _, q := range []string{"SHOW TAG KEYS", "SHOW TAG VALUES WITH KEY = host", "SHOW TAG VALUES WITH KEY = host WHERE host =~ /[wd]/"} {
			r, err := s.Query("db0", q, nil)
			fmt.Println(q, err, r.Raw)
		}
	}
}
