package main

import (
	"flag"
	"fmt"
	"os"
	"sort"
	"strings"
	"time"

	"github.com/openGemini/openGemini/engine/index/tsi"
	"github.com/openGemini/openGemini/lib/config"
	"github.com/openGemini/openGemini/lib/index"
	"github.com/openGemini/openGemini/lib/util/lifted/influx/influxql"
	"github.com/openGemini/openGemini/lib/util/lifted/influx/meta"
	"github.com/openGemini/openGemini/lib/util/lifted/vm/protoparser/influx"
	"github.com/savsgio/dictpool"
)

func open(path string, clock uint64, seq *uint64) (*tsi.MergeSetIndex, *tsi.IndexBuilder) {
	lockPath := ""
	ident := &meta.IndexIdentifier{OwnerDb: "db0", OwnerPt: 1, Policy: "rp0"}
	ident.Index = &meta.IndexDescriptor{IndexID: 2, IndexGroupID: 3, TimeRange: meta.TimeRangeInfo{}}
	opts := new(tsi.Options).Path(path).Ident(ident).IndexType(index.MergeSet).EngineType(config.TSSTORE).
		StartTime(time.Now()).EndTime(time.Now().Add(time.Hour)).Duration(time.Hour).LogicalClock(clock).SequenceId(seq).Lock(&lockPath)
	b := tsi.NewIndexBuilder(opts)
	pi, err := tsi.NewIndex(opts)
	if err != nil {
		panic(err)
	}
	pi.SetIndexBuilder(b)
	rel, err := tsi.NewIndexRelation(opts, pi, b)
	if err != nil {
		panic(err)
	}
	b.Relations[uint32(index.MergeSet)] = rel
	if err := b.Open(); err != nil {
		panic(err)
	}
	return pi.(*tsi.MergeSetIndex), b
}

func parse(s string) influxql.Expr {
	p := influxql.NewParser(strings.NewReader(s))
	defer p.Release()
	e, err := p.ParseExpr()
	if err != nil {
		panic(err)
	}
	influxql.WalkFunc(e, func(n influxql.Node) {
		if r, ok := n.(*influxql.VarRef); ok {
			r.Type = influxql.Tag
		}
	})
	return e
}

func main() {
	flag.Parse()
	dir := "/var/tmp/c10probe/idx"
	os.RemoveAll(dir)
	seq := uint64(100)
	idx, b := open(dir, 1, &seq)
	vals := []string{"web", "db", "web-1", "web-12", "w", "d", "xwebx", "foo", "foobar", "xfoo", "ab", "xaybz", "a", ""}
	var rows []influx.Row
	for i, v := range vals {
		r := influx.Row{Name: "m_0000"}
		if v != "" {
			r.Tags = append(r.Tags, influx.Tag{Key: "host", Value: v})
		}
		r.Tags = append(r.Tags, influx.Tag{Key: "z", Value: fmt.Sprint(i)})
		sort.Sort(&r.Tags)
		r.UnmarshalIndexKeys(nil)
		rows = append(rows, r)
	}
	d := &dictpool.Dict{}
	d.Set("m_0000", &rows)
	if err := b.CreateIndexIfNotExists(d, true); err != nil {
		panic(err)
	}
	b.Flush()
	for _, q := range flag.Args() {
		ks, err := idx.SearchSeries(nil, []byte("m_0000"), parse(q), tsi.DefaultTR)
		var out []string
		for _, k := range ks {
			out = append(out, string(k))
		}
		sort.Strings(out)
		fmt.Printf("%-28s err=%v -> %v\n", q, err, out)
	}
	b.Close()
}
