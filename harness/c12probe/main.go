package main

import (
	"fmt"
	"strings"

	"github.com/openGemini/openGemini/lib/util/lifted/influx/influxql"
)

func yparse(q string, params map[string]interface{}) (*influxql.Query, error) {
	p := influxql.NewParser(strings.NewReader(q))
	defer p.Release()
	if params != nil {
		p.SetParams(params)
	}
	yy := influxql.NewYyParser(p.GetScanner(), p.GetPara())
	yy.ParseTokens()
	return yy.GetQuery()
}

func dump(e influxql.Expr) string {
	switch n := e.(type) {
	case *influxql.BinaryExpr:
		return fmt.Sprintf("(%s %s %s)", n.Op, dump(n.LHS), dump(n.RHS))
	case *influxql.ParenExpr:
		return "P[" + dump(n.Expr) + "]"
	case *influxql.Call:
		var a []string
		for _, x := range n.Args {
			a = append(a, dump(x))
		}
		return n.Name + "{" + strings.Join(a, ",") + "}"
	case nil:
		return "<nil>"
	default:
		return fmt.Sprintf("%T<%s>", e, e.String())
	}
}

func main() {
	conds := []string{
		"a = 1 OR b = 2 AND c = 3",
		"a = 1 AND b = 2 OR c = 3",
		"a / -b > 1",
		"a * -b > 1",
		"a - -b > 1",
		"a / 2.0 > 1.2",
		"a =~ /x\\/y/",
		"a > -10000000000000000000.0",
		"a > 10000000000000000000.0",
		"a > 9223372036854775807",
		"a > -9223372036854775808",
		"a > 9223372036854775808",
		"a = 'it\\'s' AND \"my \\\"id\" = 'b\\\\c\\nd'",
		"time > '2020-01-01T00:00:00Z' AND a > 1",
		"a::float > 1 AND b::integer < 2 AND c::tag = 'x' and d::field > 2",
		"a = $p",
		"a in (1, 2.5, 'x')",
		"a > 1.5e3",
		"a > 5m",
		"a + 1 > 2 - b * 3 % 4",
		"(a + 1) * 2 > 2",
		"a - (b - c) > 2",
		"a ^ b | c & d > 1",
		"-(a + b) > 1",
		"-a + b > 1",
		"f(-a, 1) > 1",
		"a > 0.000000001",
		"a = true and b = false",
		"a <> 1",
		"\"select\" = 1",
		"a = 'x' or (b = 'y' and c = 'z')",
		"(a = 'x' or b = 'y') and c = 'z'",
		"a = - 1",
		"a = -1s",
		"a > 1 = true",
		"(a > 1) = (b < 2)",
	}
	for _, c := range conds {
		q := "SELECT f FROM m WHERE " + c
		qq, err := yparse(q, map[string]interface{}{"p": "a\rb"})
		fmt.Printf("---- %s\n", c)
		if err != nil {
			fmt.Println("  yacc err:", err)
		} else if len(qq.Statements) == 1 {
			st := qq.Statements[0].(*influxql.SelectStatement)
			e := st.Condition
			s := e.String()
			e2, err2 := influxql.ParseExpr(s)
			fmt.Printf("  yacc: %s\n  str : %q\n", dump(e), s)
			if err2 != nil {
				fmt.Println("  reparse err:", err2)
			} else {
				fmt.Printf("  re  : %s  same=%v\n", dump(e2), dump(e) == dump(e2))
			}
		}
		e, err := influxql.ParseExpr(c)
		if err != nil {
			fmt.Println("  rd err:", err)
			continue
		}
		s := e.String()
		e2, err2 := influxql.ParseExpr(s)
		fmt.Printf("  rd  : %s\n  str : %q\n", dump(e), s)
		if err2 != nil {
			fmt.Println("  reparse err:", err2)
		} else {
			fmt.Printf("  re  : %s  same=%v\n", dump(e2), dump(e) == dump(e2))
		}
	}
}
