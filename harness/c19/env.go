package main

import (
	"bytes"
	"encoding/base64"
	"fmt"
	"io"
	"net/http"
	"net/url"
	"os"
	"path/filepath"
	"sort"
	"strings"
	"sync"
	"time"

	"verifharness/proc"
	"verifharness/vf"
)

// Names and secrets of the fixture. Passwords satisfy the server's complexity rule
// (8..256 chars, lower+upper+digit+one of -~@$#%_^!*+=?, not the user name).
const (
	sharedSecret = "c19-Shared-Secret-For-Verif"
	adminUser    = "admin"
	adminPass    = "Adm1n#C19-verif"
	roUser       = "reader1" // READ on db1 (and repo1)
	woUser       = "writer1" // WRITE on db1 (and repo1)
	otherUser    = "dbtwo1"  // ALL on db2 only
	victimUser   = "victim1" // ALL on db1; only ever presented with wrong passwords
	grantUser    = "grantee1"
	userPass     = "Us3r#C19-verif"
	ghostUser    = "ghost404"
	db1          = "db1"
	db2          = "db2"
	sacDB        = "sacdb" // sacrificial objects for destructive requests of sufficient users
	repo1        = "repo1"
	stream1      = "ls1"
	mst1         = "m1"
)

type flavour struct {
	Name      string
	Worker    int
	LogKeeper bool
	Extra     map[string][]string
}

// env is one running server with its fixture.
type env struct {
	c      *vf.Ctx
	fl     flavour
	s      *proc.Server
	hc     *http.Client
	routes []Route
	pprof  bool
	admin  url.Values // u/p parameters of the administrator (fingerprints, fixtures)

	lockMu    sync.Mutex
	failCount map[string]int // failed log-ins per existing user since the last reset

	sent      int64
	outcome   map[string]map[string]int // class -> outcome -> n   (evidence matrix)
	outcomeMu sync.Mutex
	base      *fingerprint
	dirty     int // batches whose escaped requests changed the state
	restarts  int
	capped    bool
}

func (e *env) tag() string { return e.fl.Name }

// request is a fully specified HTTP request (serialisable: it is the witness).
type request struct {
	Method  string            `json:"method"`
	Path    string            `json:"path"`
	Query   map[string]string `json:"query,omitempty"`
	Headers map[string]string `json:"headers,omitempty"`
	BodyB64 string            `json:"body_b64,omitempty"`
}

func (r request) body() []byte {
	b, _ := base64.StdEncoding.DecodeString(r.BodyB64)
	return b
}

func (r request) clone() request {
	o := request{Method: r.Method, Path: r.Path, BodyB64: r.BodyB64, Query: map[string]string{}, Headers: map[string]string{}}
	for k, v := range r.Query {
		o.Query[k] = v
	}
	for k, v := range r.Headers {
		o.Headers[k] = v
	}
	return o
}

func (r request) String() string {
	q := url.Values{}
	for k, v := range r.Query {
		q.Set(k, v)
	}
	s := r.Method + " " + r.Path
	if len(q) > 0 {
		s += "?" + q.Encode()
	}
	return s
}

type response struct {
	Status int    `json:"status"`
	Body   string `json:"body"` // first bytes
	Err    string `json:"err,omitempty"`
}

// send performs one request. Redirects are not followed; the body is read up to 64 KiB.
func (e *env) send(r request) response {
	q := url.Values{}
	keys := make([]string, 0, len(r.Query))
	for k := range r.Query {
		keys = append(keys, k)
	}
	sort.Strings(keys)
	for _, k := range keys {
		q.Set(k, r.Query[k])
	}
	u := e.s.URL() + r.Path
	if len(q) > 0 {
		u += "?" + q.Encode()
	}
	var body io.Reader
	if b := r.body(); len(b) > 0 {
		body = bytes.NewReader(b)
	}
	req, err := http.NewRequest(r.Method, u, body)
	if err != nil {
		return response{Err: err.Error()}
	}
	for k, v := range r.Headers {
		// set verbatim (no canonicalisation surprises for odd header values)
		req.Header[http.CanonicalHeaderKey(k)] = []string{v}
	}
	resp, err := e.hc.Do(req)
	if err != nil {
		return response{Err: err.Error()}
	}
	defer resp.Body.Close()
	b, _ := io.ReadAll(io.LimitReader(resp.Body, 64<<10))
	_, _ = io.Copy(io.Discard, io.LimitReader(resp.Body, 8<<20))
	e.outcomeMu.Lock()
	e.sent++
	e.outcomeMu.Unlock()
	s := string(b)
	if len(s) > 400 {
		s = s[:400]
	}
	return response{Status: resp.StatusCode, Body: s}
}

func newHTTPClient() *http.Client {
	tr := &http.Transport{MaxIdleConnsPerHost: 8}
	return &http.Client{Transport: tr, Timeout: 60 * time.Second,
		CheckRedirect: func(*http.Request, []*http.Request) error { return http.ErrUseLastResponse }}
}

// adminQ runs one statement as the administrator (u/p parameters).
func (e *env) adminQ(db, q string) (*proc.QueryResult, error) {
	return e.s.Query(db, q, e.admin)
}

// fixtureRetry runs fixture until it succeeds (an object that a request deleted may be
// re-creatable only after the server finished deleting it); gives up as a broken run.
func (e *env) fixtureRetry() bool {
	var err error
	for i := 0; i < 60; i++ {
		if err = e.fixture(); err == nil {
			return true
		}
		time.Sleep(500 * time.Millisecond)
	}
	e.c.Broken("[%s] fixture: %v", e.tag(), err)
	return false
}

// startServer starts the flavour's server with authentication on, creates the
// administrator (allowed without credentials only while no user exists) and waits for
// readiness.
func startServer(c *vf.Ctx, bin string, fl flavour) (*env, error) {
	dir := filepath.Join(c.Scratch, "srv-"+fl.Name)
	_ = os.RemoveAll(dir)
	extra := map[string][]string{
		"http":          {`shared-secret = "` + sharedSecret + `"`, `pprof-enabled = true`},
		"data.memtable": {`write-cold-duration = "10h"`},
	}
	for k, v := range fl.Extra {
		for _, ln := range v {
			extra[k] = append(extra[k], strings.ReplaceAll(ln, "{{dir}}", dir))
		}
	}
	if err := os.MkdirAll(dir, 0o755); err != nil {
		return nil, err
	}
	if fl.LogKeeper {
		_ = os.WriteFile(filepath.Join(dir, "runtime.yaml"), []byte("overrides:\n  tenant1:\n    prom_limit_enabled: true\n"), 0o644)
	}
	s := proc.New(proc.Config{Bin: bin, Dir: dir, IP: proc.IP(19, fl.Worker), Auth: true, Extra: extra})
	e := &env{c: c, fl: fl, s: s, hc: newHTTPClient(), failCount: map[string]int{}, outcome: map[string]map[string]int{},
		admin: url.Values{"u": {adminUser}, "p": {adminPass}}}
	if err := s.Start(); err != nil {
		return nil, err
	}
	// first start: no administrator yet, so proc.WaitReady's authenticated probe cannot
	// work; wait for /ping and the control port instead
	deadline := time.Now().Add(90 * time.Second)
	up := false
	for time.Now().Before(deadline) {
		if !s.Alive() {
			return e, fmt.Errorf("server exited during start-up: %v\n%s", s.ExitError(), s.StdoutTail(1500))
		}
		if r := e.send(request{Method: "GET", Path: "/ping"}); r.Status == 204 {
			if st, err := s.State(""); err == nil && st.Ready {
				up = true
				break
			}
		}
		time.Sleep(150 * time.Millisecond)
	}
	if !up {
		return e, fmt.Errorf("server did not answer /ping within 90 s\n%s", s.StdoutTail(1500))
	}
	// Observation outside the property's premise (no administrator yet), recorded only.
	pre := e.send(request{Method: "POST", Path: "/query", Query: map[string]string{"q": "CREATE DATABASE pre_admin_db"}})
	c.Distinct("before-admin:create-database-without-credentials", fmt.Sprintf("status-%d", pre.Status))
	var lastErr string
	for i := 0; i < 40; i++ {
		r := e.send(request{Method: "POST", Path: "/query", Query: map[string]string{
			"q": fmt.Sprintf("CREATE USER %s WITH PASSWORD '%s' WITH ALL PRIVILEGES", adminUser, adminPass)}})
		if r.Status == 200 && !strings.Contains(r.Body, `"error"`) {
			lastErr = ""
			break
		}
		lastErr = fmt.Sprintf("status %d %s %s", r.Status, r.Body, r.Err)
		time.Sleep(250 * time.Millisecond)
	}
	if lastErr != "" {
		return e, fmt.Errorf("cannot create the administrator: %s", lastErr)
	}
	s.ReadyParams = e.admin
	if err := s.WaitReady(90 * time.Second); err != nil {
		return e, err
	}
	return e, nil
}

// fixture creates databases, users, grants and data (idempotent: it is also the repair
// step after a request changed something it should not have).
func (e *env) fixture() error {
	run := func(q string) error {
		if _, err := e.adminQ("", q); err != nil {
			return fmt.Errorf("%q: %v", q, err)
		}
		return nil
	}
	var stmts []string
	for _, db := range []string{db1, db2, sacDB} {
		stmts = append(stmts, "CREATE DATABASE "+db)
	}
	for _, u := range []string{roUser, woUser, otherUser, victimUser, grantUser} {
		stmts = append(stmts, fmt.Sprintf("CREATE USER %s WITH PASSWORD '%s'", u, userPass))
	}
	// a retention policy whose removal by a cross-database DROP would be visible (crossdb.go)
	for _, db := range []string{db1, db2} {
		stmts = append(stmts, "CREATE RETENTION POLICY "+crossRP+" ON "+db+" DURATION 1d REPLICATION 1")
	}
	stmts = append(stmts, "GRANT READ ON "+db1+" TO "+roUser, "GRANT WRITE ON "+db1+" TO "+woUser,
		"GRANT ALL ON "+db2+" TO "+otherUser, "GRANT ALL ON "+db1+" TO "+victimUser)
	for _, q := range stmts {
		if err := run(q); err != nil {
			return err
		}
	}
	lines := ""
	for i := 0; i < 6; i++ {
		lines += fmt.Sprintf("%s,host=h%d v=%d,f=%d.5 %d\n", mst1, i%2, i, i, int64(1700000000+i)*1e9)
	}
	// (with product-type = "logkeeper" a line-protocol write to a time-series database
	// crashes the server in IndexBuilder.GetPrimaryIndex, so that flavour gets log records only)
	seeded := func(db string) bool {
		res, err := e.adminQ(db, "SELECT count(v) FROM "+mst1)
		return err == nil && len(res.Results) > 0 && len(res.Results[0].Series) > 0 && len(res.Results[0].Series[0].Values) > 0 &&
			fmt.Sprint(res.Results[0].Series[0].Values[0][1]) == "6"
	}
	for _, db := range []string{db1, db2, sacDB} {
		if e.fl.LogKeeper {
			break
		}
		if seeded(db) {
			continue
		}
		w := e.s.Write(db, lines, e.admin)
		if !w.Acked() {
			return fmt.Errorf("seed write to %s: %d %s %v", db, w.Status, w.Body, w.Err)
		}
		// visibility rule: wait until the seed series are established
		seen := false
		for i := 0; i < 100 && !seen; i++ {
			if seen = seeded(db); !seen {
				time.Sleep(100 * time.Millisecond)
			}
		}
		if !seen {
			e.c.Inconclusive("fixture-data-not-visible:"+e.tag()+":"+db, 1)
		}
	}
	if e.fl.LogKeeper {
		for _, rp := range []string{repo1, "sacrepo"} {
			r := e.send(e.asAdmin(specFor(Route{Method: "POST", Pattern: "/api/v1/repository/{repository}"}, target{NewName: rp})))
			if r.Status/100 != 2 && !strings.Contains(r.Body, "exist") {
				return fmt.Errorf("repository %s: %d %s", rp, r.Status, r.Body)
			}
			r = e.send(e.asAdmin(specFor(Route{Method: "POST", Pattern: "/api/v1/logstream/{repository}/{logStream}"}, target{Repo: rp, NewName: stream1})))
			if r.Status/100 != 2 && !strings.Contains(r.Body, "exist") {
				return fmt.Errorf("logstream %s/%s: %d %s", rp, stream1, r.Status, r.Body)
			}
		}
		// No log records are seeded: with pending records in a stream's mem-table, deleting
		// that log stream (which the sweep's findings do) makes the server panic at its next
		// flush ("wal remove files failed"), and a dead server judges nothing.
		for _, q := range []string{"GRANT READ ON " + repo1 + " TO " + roUser, "GRANT WRITE ON " + repo1 + " TO " + woUser,
			"GRANT ALL ON " + repo1 + " TO " + victimUser} {
			if err := run(q); err != nil {
				return err
			}
		}
	}
	if !e.fl.LogKeeper {
		// empty mem-tables make the engine's view part of the fingerprint (any accepted write shows);
		// not for the log-store flavour: a flush after a log stream was deleted panics the server
		_ = e.s.Flush()
	}
	return nil
}

func (e *env) asAdmin(r request) request {
	o := r.clone()
	o.Query["u"], o.Query["p"] = adminUser, adminPass
	return o
}

// note one outcome in the per-class matrix reported as evidence.
func (e *env) note(class, outcome string) {
	e.outcomeMu.Lock()
	m := e.outcome[class]
	if m == nil {
		m = map[string]int{}
		e.outcome[class] = m
	}
	m[outcome]++
	e.outcomeMu.Unlock()
}

// lockGuard keeps the server's log-in lock (5 failures within 30 s lock the name for
// 30 s) from masking the password comparison: after every third failed attempt for an
// existing user one correct log-in resets that user's failure counter.
func (e *env) lockGuard(cr cred) {
	if cr.TouchesUser == "" {
		return
	}
	e.lockMu.Lock()
	e.failCount[cr.TouchesUser]++
	n := e.failCount[cr.TouchesUser]
	if n >= 3 {
		e.failCount[cr.TouchesUser] = 0
	}
	e.lockMu.Unlock()
	if n >= 3 {
		r := e.send(request{Method: "GET", Path: "/query", Query: map[string]string{"q": "SHOW DATABASES", "u": cr.TouchesUser, "p": userPass}})
		if r.Status != 200 {
			e.c.Inconclusive("lock-reset-failed:"+e.tag(), 1)
		}
	}
}
