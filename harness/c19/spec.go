package main

import (
	"encoding/base64"
	"fmt"
	"regexp"
	"strings"

	"github.com/golang/snappy"
	"github.com/prometheus/prometheus/prompb"
)

// Route is one entry of the enumeration: a (method, path template) registered on the
// live router, or one of the prefixes ServeHTTP dispatches ahead of the router.
type Route struct {
	Method    string `json:"method"`
	Pattern   string `json:"pattern"`
	PreRouter bool   `json:"pre_router,omitempty"`
}

func (r Route) key() string { return r.Method + " " + r.Pattern }

// preRouterRoutes: Handler.ServeHTTP tests three URL prefixes before it consults the
// router (these are code, not table entries, so they cannot be enumerated from the
// router): /debug/pprof (when pprof-enabled), /debug/vars, /debug/query. The concrete
// paths below exercise every branch of handleProfiles.
func preRouterRoutes(pprof bool) []Route {
	out := []Route{
		{Method: "GET", Pattern: "/debug/vars", PreRouter: true},
		{Method: "GET", Pattern: "/debug/query", PreRouter: true},
	}
	if pprof {
		for _, p := range []string{"/debug/pprof", "/debug/pprof/", "/debug/pprof/cmdline", "/debug/pprof/symbol",
			"/debug/pprof/goroutine", "/debug/pprof/heap", "/debug/pprof/profile", "/debug/pprof/all"} {
			out = append(out, Route{Method: "GET", Pattern: p, PreRouter: true})
		}
	}
	return out
}

// need is what the action behind a route requires, by the meaning of the endpoint
// (InfluxDB authorisation documentation: SELECT/SHOW on a database need READ on it,
// writes need WRITE, database/user/server management needs an administrator).
type need int

const (
	needUnknown      need = iota // not modelled: only the no-identity classes are judged
	needAnon                     // liveness/status/pre-flight: answers anonymously
	needAuth                     // any authenticated user
	needRead                     // READ on the target database
	needWrite                    // WRITE on the target database
	needDB                       // some privilege on the target database (which one is not modelled)
	needAdmin                    // administrator
	needReadAndWrite             // SELECT … INTO: READ on the source and WRITE on the target
	needWriteOrAdmin             // documentation: administrator; upstream InfluxQL code: WRITE. Only READ-only and foreign users are judged
)

func (n need) String() string {
	return [...]string{"unmodelled", "anonymous", "any-user", "read", "write", "some-db-privilege", "admin", "read+write", "write-or-admin"}[n]
}

// denied reports whether an authenticated non-admin class must be rejected.
func (n need) denied(class string) (judged, deny bool) {
	switch n {
	case needRead:
		return true, class == clWO || class == clOther
	case needWrite:
		return true, class == clRO || class == clOther
	case needDB:
		if class == clOther {
			return true, true
		}
		return false, false
	case needAdmin, needReadAndWrite:
		return true, true
	case needWriteOrAdmin:
		if class == clWO {
			return false, false
		}
		return true, true
	case needAuth, needAnon:
		return true, false
	}
	return false, false
}

// routeNeed classifies a route by its method and path template.
func routeNeed(r Route) need {
	p := r.Pattern
	if r.Method == "OPTIONS" {
		return needAnon
	}
	switch p {
	case "/ping", "/status":
		return needAnon
	case "/write", "/api/v2/write", "/api/v1/write", "/api/v1/otlp/traces", "/api/v1/otlp/metrics", "/api/v1/otlp/logs",
		"/prometheus/{metric_store}/api/v1/write", "/fence/delete_fence":
		return needWrite
	case "/fence/match_batch":
		return needDB
	case "/api/v1/tsdb/{tsdb}", "/debug/ctrl", "/backup/run", "/backup/abort", "/backup/status", "/failpoint",
		"/runtime_config", "/debug/vars", "/debug/query":
		return needAdmin
	case "/metrics", "/api/v2/query":
		return needAuth
	case "/query":
		return needUnknown // judged per statement kind
	case "/api/v1/repository":
		return needAuth // list, filtered like SHOW DATABASES
	}
	if strings.HasPrefix(p, "/debug/pprof") {
		return needAdmin
	}
	if strings.HasPrefix(p, "/api/v1/") || strings.HasPrefix(p, "/prometheus/{metric_store}/api/v1/") {
		tail := p[strings.LastIndex(p, "/api/v1/")+len("/api/v1/"):]
		switch {
		case tail == "read", tail == "query", tail == "query_range", tail == "labels", tail == "series", tail == "metadata",
			strings.HasPrefix(tail, "label/"):
			return needRead
		case strings.HasPrefix(tail, "repository/"), strings.HasPrefix(tail, "logstream/"):
			if r.Method == "GET" {
				return needRead // show / list: catalogue of that repository
			}
			return needAdmin // create, update, delete of repositories and log streams
		}
	}
	if strings.HasPrefix(p, "/repo/{repository}/logstreams/{logStream}/") {
		tail := strings.TrimPrefix(p, "/repo/{repository}/logstreams/{logStream}/")
		switch {
		case tail == "records", tail == "upload":
			return needWrite
		case r.Method == "GET":
			return needRead
		case tail == "recalldata":
			return needDB
		case strings.HasPrefix(tail, "stream-task"):
			return needDB
		}
	}
	return needUnknown
}

// target names the objects a request is aimed at.
type target struct {
	DB, Mst   string
	Repo, LS  string
	NewName   string // name for objects a request would create
	TSNanos   int64
	PromMilli int64
}

func victimTarget(n int) target {
	return target{DB: db1, Mst: mst1, Repo: repo1, LS: stream1, NewName: fmt.Sprintf("c19new%d", n), TSNanos: 1700000100e9 + int64(n), PromMilli: 1700000100000 + int64(n)}
}

// sacrificialTarget is used for requests of sufficient users, which really act.
func sacrificialTarget(n int) target {
	return target{DB: sacDB, Mst: mst1, Repo: "sacrepo", LS: stream1, NewName: fmt.Sprintf("c19adm%d", n), TSNanos: 1700000200e9 + int64(n), PromMilli: 1700000200000 + int64(n)}
}

var varRe = regexp.MustCompile(`\{[A-Za-z_]+\}`)

func promWriteBody(metric string, ms int64) []byte {
	wr := prompb.WriteRequest{Timeseries: []prompb.TimeSeries{{
		Labels:  []prompb.Label{{Name: "__name__", Value: metric}, {Name: "host", Value: "h0"}},
		Samples: []prompb.Sample{{Value: 1.5, Timestamp: ms}},
	}}}
	b, _ := wr.Marshal()
	return snappy.Encode(nil, b)
}

func promReadBody(metric string, ms int64) []byte {
	rr := prompb.ReadRequest{Queries: []*prompb.Query{{
		StartTimestampMs: ms - 3600000, EndTimestampMs: ms + 3600000,
		Matchers: []*prompb.LabelMatcher{{Type: prompb.LabelMatcher_EQ, Name: "__name__", Value: metric}},
	}}}
	b, _ := rr.Marshal()
	return snappy.Encode(nil, b)
}

func setBody(r *request, b []byte, ctype string) {
	r.BodyB64 = base64.StdEncoding.EncodeToString(b)
	if ctype != "" {
		r.Headers["Content-Type"] = ctype
	}
}

// specFor builds a plausible request for a route: path variables filled with existing
// (or, for creating requests, new) object names, the parameters the handler reads, and a
// minimal valid body. Unknown patterns get the generic default (variables filled, db=…).
func specFor(rt Route, t target) request {
	r := request{Method: rt.Method, Query: map[string]string{}, Headers: map[string]string{}}
	p := rt.Pattern
	creating := rt.Method == "POST" && (strings.HasSuffix(p, "/repository/{repository}") || strings.HasSuffix(p, "/tsdb/{tsdb}"))
	creatingLS := rt.Method == "POST" && strings.HasSuffix(p, "/logstream/{repository}/{logStream}")
	r.Path = varRe.ReplaceAllStringFunc(p, func(v string) string {
		switch v {
		case "{repository}":
			if creating {
				return t.NewName
			}
			return t.Repo
		case "{logStream}":
			if creatingLS {
				return t.NewName
			}
			return t.LS
		case "{tsdb}":
			return t.NewName
		case "{metric_store}":
			return t.Mst
		case "{name}":
			return "host"
		case "{cursor}":
			return "0"
		case "{taskId}":
			return "1"
		}
		return "x"
	})
	r.Query["db"] = t.DB
	isProm := strings.Contains(p, "/api/v1/") && !strings.Contains(p, "otlp") && !strings.Contains(p, "repository") && !strings.Contains(p, "logstream") && !strings.Contains(p, "tsdb")
	promTime := fmt.Sprintf("%d", t.PromMilli/1000)
	switch {
	case p == "/query":
		r.Query["q"] = "SELECT count(v) FROM " + t.Mst
	case p == "/write":
		setBody(&r, []byte(fmt.Sprintf("%s,host=h0 v=99i %d\n", "c19w", t.TSNanos)), "text/plain")
	case p == "/api/v2/write":
		delete(r.Query, "db")
		r.Query["bucket"] = t.DB + "/autogen"
		r.Query["org"] = "o"
		setBody(&r, []byte(fmt.Sprintf("%s,host=h0 v=99i %d\n", "c19w2", t.TSNanos)), "text/plain")
	case p == "/api/v2/query":
		setBody(&r, []byte(`{"query":"buckets()"}`), "application/json")
	case p == "/fence/match_batch":
		r.Query["points"] = "1,116.3,39.9"
	case p == "/fence/delete_fence":
		r.Query["fenceId"] = "c19-fence"
	case p == "/failpoint":
		r.Query["point"], r.Query["flag"], r.Query["term"] = "c19-verif-point", "enable", "return"
	case strings.HasPrefix(p, "/api/v1/otlp/"):
		setBody(&r, []byte{}, "application/x-protobuf")
	case p == "/debug/ctrl":
		r.Query["mod"] = "flush"
	case p == "/debug/query":
		r.Query["mod"] = "shards"
		r.Query["rp"] = "autogen"
		r.Query["pt"] = "0"
	case p == "/debug/pprof/profile":
		r.Query["seconds"] = "1"
	case p == "/debug/pprof/goroutine":
		r.Query["debug"] = "1"
	case strings.HasPrefix(p, "/backup/"):
		r.Query["backupPath"] = "/nonexistent/c19-backup"
		r.Query["isNode"] = "true"
	case isProm && strings.HasSuffix(p, "/write"):
		setBody(&r, promWriteBody(t.Mst, t.PromMilli), "application/x-protobuf")
		r.Headers["Content-Encoding"] = "snappy"
	case isProm && strings.HasSuffix(p, "/read"):
		setBody(&r, promReadBody(t.Mst, t.PromMilli), "application/x-protobuf")
		r.Headers["Content-Encoding"] = "snappy"
	case isProm && strings.HasSuffix(p, "/query"):
		r.Query["query"], r.Query["time"] = "v", promTime
	case isProm && strings.HasSuffix(p, "/query_range"):
		r.Query["query"], r.Query["start"], r.Query["end"], r.Query["step"] = "v", promTime, promTime, "15"
	case isProm && strings.HasSuffix(p, "/series"):
		r.Query["match[]"], r.Query["start"], r.Query["end"] = "v", promTime, promTime
	case isProm && (strings.HasSuffix(p, "/labels") || strings.HasSuffix(p, "/values")):
		r.Query["start"], r.Query["end"] = promTime, promTime
	case strings.HasSuffix(p, "/records"):
		setBody(&r, []byte(fmt.Sprintf(`{"time":%d,"content":"c19 log line","host":"h0"}`+"\n", t.PromMilli)), "application/json")
		r.Headers["x-log-compresstype"] = ""
		r.Query["type"] = "json"
	case strings.HasPrefix(p, "/repo/{repository}/logstreams/{logStream}/") && rt.Method == "GET":
		r.Query["query"] = "*"
		r.Query["from"], r.Query["to"] = fmt.Sprintf("%d", t.PromMilli-3600000), fmt.Sprintf("%d", t.PromMilli+3600000)
		r.Query["limit"], r.Query["timeout_ms"] = "10", "5000"
		r.Query["task_num"], r.Query["time"] = "1", fmt.Sprintf("%d", t.PromMilli)
	case strings.HasSuffix(p, "/stream-task"):
		setBody(&r, []byte(`{"name":"c19task","query":"*","interval":"1m"}`), "application/json")
	case strings.HasSuffix(p, "/logstream/{repository}/{logStream}") && (rt.Method == "POST" || rt.Method == "PUT"):
		setBody(&r, []byte(`{"ttl":7}`), "application/json")
	}
	return r
}
