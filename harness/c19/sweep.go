package main

import (
	"encoding/json"
	"fmt"
	"math/rand/v2"
	"os"
	"sort"
	"strings"
	"sync"
	"time"
)

// oneCase is one request × credential with its observed answer.
type oneCase struct {
	Cred    cred     `json:"cred"`
	Req     request  `json:"request"`
	Resp    response `json:"response"`
	Verdict string   `json:"verdict"`
}

const (
	vRejected   = "rejected-401/403"
	vEscaped    = "ESCAPED"          // answered although the credentials are insufficient
	vInBody     = "rejected-in-body" // 2xx whose body carries only errors
	vNotReached = "other-4xx/5xx"    // refused for another reason: authorisation not observable
	vAnon       = "allow-listed"
	vAccepted   = "accepted"
	vNoRoute    = "router-404/405"
	vClientErr  = "client-error"
)

func isRouterMiss(r response) bool {
	return (r.Status == 404 && strings.HasPrefix(r.Body, "404 page not found")) || (r.Status == 405 && strings.TrimSpace(r.Body) == "")
}

// bodyOnlyErrors: a 2xx answer that reports an error for the request or for every statement.
func bodyOnlyErrors(body string) bool {
	var v struct {
		Error   string `json:"error"`
		Status  string `json:"status"`
		Results []struct {
			Error string `json:"error"`
		} `json:"results"`
	}
	if json.Unmarshal([]byte(body), &v) != nil {
		return false
	}
	if v.Error != "" || v.Status == "error" {
		return true
	}
	if len(v.Results) == 0 {
		return false
	}
	for _, r := range v.Results {
		if r.Error == "" {
			return false
		}
	}
	return true
}

// judgeInsufficient classifies the answer to a request whose credentials are insufficient.
func judgeInsufficient(cr cred, anon bool, r response) string {
	switch {
	case r.Err != "":
		return vClientErr
	case isRouterMiss(r):
		return vNoRoute
	case anon:
		return vAnon
	case r.Status == 401 || r.Status == 403:
		return vRejected
	}
	if noIdentity[cr.Class] {
		// without a valid identity nothing but the authentication layer may answer
		return vEscaped
	}
	if r.Status >= 200 && r.Status < 400 {
		if bodyOnlyErrors(r.Body) {
			return vInBody
		}
		return vEscaped
	}
	return vNotReached
}

// batch is one case of the enumeration: a route (or a /query statement kind) with the
// credentials that are insufficient for it.
type batch struct {
	Key   string // "METHOD pattern" or "POST /query stmt=<kind>"
	Route Route
	Need  need
	Make  func(t target) request
	No    int
}

func variantSig(cr cred) string {
	v := cr.Variant
	if strings.HasPrefix(v, "fuzz(") {
		v = "fuzzed"
	}
	return cr.Class + "/" + cr.Transport + "/" + v
}

// runInsufficient sends the batch's request with every insufficient credential, judges
// the status classes and then compares the fingerprint with the baseline.
func (e *env) runInsufficient(b batch, rnd *rand.Rand) {
	c := e.c
	t0 := time.Now()
	anon := b.Need == needAnon
	req := b.Make(victimTarget(b.No))
	creds := credPlan(c.Thorough(), b.No, rnd)
	var notJudgedUsers []string
	for _, class := range []string{clRO, clWO, clOther} {
		judged, deny := b.Need.denied(class)
		if judged && deny {
			creds = append(creds, userCreds(class)...)
		} else if !judged {
			notJudgedUsers = append(notJudgedUsers, class)
		}
	}
	// The credentials that touch an existing user's failed-log-in counter go through one
	// sequential lane (lockGuard needs their order); the rest is sent from a few lanes.
	cases := make([]oneCase, len(creds))
	do := func(i int) {
		cr := creds[i]
		full := cr.apply(req)
		resp := e.send(full)
		e.lockGuard(cr)
		cases[i] = oneCase{Cred: cr, Req: full, Resp: resp, Verdict: judgeInsufficient(cr, anon, resp)}
	}
	c.LogInput(map[string]any{"flavour": e.tag(), "case": b.Key, "request": req.String()})
	var wg sync.WaitGroup
	var seq, par []int
	for i, cr := range creds {
		if cr.TouchesUser != "" {
			seq = append(seq, i)
		} else {
			par = append(par, i)
		}
	}
	wg.Add(1)
	go func() {
		defer wg.Done()
		for _, i := range seq {
			do(i)
		}
	}()
	const lanes = 4
	for l := 0; l < lanes; l++ {
		wg.Add(1)
		go func(l int) {
			defer wg.Done()
			for k := l; k < len(par); k += lanes {
				do(par[k])
			}
		}(l)
	}
	wg.Wait()
	live := false
	sampled := map[string]bool{}
	for _, k := range cases {
		cr, resp, v := k.Cred, k.Resp, k.Verdict
		if b.No%9 == 0 && !sampled[v] && (v == vRejected || v == vEscaped || v == vAnon) {
			sampled[v] = true
			c.Sample(map[string]any{"flavour": e.tag(), "case": b.Key, "need": b.Need.String(), "credentials": cr.key(),
				"request": k.Req.String(), "authorization_header": trunc(k.Req.Headers["Authorization"], 60), "status": resp.Status, "body": trunc(resp.Body, 80), "verdict": v})
		}
		if strings.Contains(resp.Body, "user is locked") {
			c.Inconclusive("answer-was-user-locked:"+e.tag(), 1)
		}
		e.note(cr.Class, v)
		c.Eval(1)
		c.Count("requests:"+cr.Class+"/"+cr.Transport, 1)
		if v != vNoRoute && v != vClientErr {
			live = true
		}
		if v == vRejected || v == vEscaped || v == vAnon {
			c.Nontrivial(e.tag() + "|" + b.Key + "|" + cr.Class + "/" + cr.Transport)
		}
		if v == vNotReached {
			c.Inconclusive("privilege-check-not-reached:"+b.Key+":"+cr.Class, 1)
		}
		if v == vClientErr {
			c.Count("client-side-request-errors", 1)
		}
	}
	if !live {
		c.Violation("route-not-live:"+b.Key, fmt.Sprintf("[%s] %s is in the route table built from the code but the running server's router does not know it", e.tag(), b.Key),
			map[string]any{"flavour": e.tag(), "case": b.Key, "cases": cases[:1]})
		return
	}
	c.Distinct("cases-"+e.tag(), b.Key)
	for _, cl := range notJudgedUsers {
		c.Count("user-class-not-modelled:"+cl, 1)
	}

	tSend := time.Since(t0)
	fp := e.takeFingerprint()
	d := e.base.diff(fp)
	if os.Getenv("C19_TIMING") != "" {
		fmt.Printf("[%s] timing at=%s %-60s requests=%d send=%.2fs fingerprint=%.2fs\n", e.tag(), time.Now().Format("15:04:05.000"), b.Key, len(cases), tSend.Seconds(), (time.Since(t0) - tSend).Seconds())
	}
	if len(d) == 0 {
		e.report(b, cases, nil)
		return
	}
	// The state moved. Requests that act are order dependent (the second user to delete an
	// object gets "not found"), so after repairing the fixture the requests that did not
	// escape are sent again, until no further request escapes. State that moves in a pass in
	// which every answer was a rejection is a side effect despite rejection.
	c.Count("batches-with-fingerprint-change", 1)
	all := append([]string{}, d...)
	for pass := 0; pass < 3; pass++ {
		e.repair()
		newEscape := false
		var again []oneCase
		for i := range cases {
			k := &cases[i]
			if k.Verdict != vRejected && k.Verdict != vNotReached && k.Verdict != vInBody {
				continue
			}
			resp := e.send(k.Req)
			e.lockGuard(k.Cred)
			c.Eval(1)
			if v := judgeInsufficient(k.Cred, anon, resp); v == vEscaped {
				k.Resp, k.Verdict = resp, v
				e.note(k.Cred.Class, v)
				newEscape = true
			} else {
				again = append(again, oneCase{Cred: k.Cred, Req: k.Req, Resp: resp, Verdict: v})
			}
		}
		d2 := e.base.diff(e.settle())
		if len(d2) == 0 {
			break
		}
		all = append(all, d2...)
		if !newEscape {
			if len(again) > 6 {
				again = again[:6]
			}
			c.Violation("side-effect-despite-rejection:"+b.Key+":"+diffKinds(d2),
				fmt.Sprintf("[%s] %s: requests that were all answered with a rejection changed the state: %s", e.tag(), b.Key, strings.Join(d2, "; ")),
				map[string]any{"flavour": e.tag(), "kind": "side-effect", "case": b.Key, "need": b.Need.String(), "cases": again, "diff": d2})
			break
		}
	}
	e.repair()
	hadEscape := false
	for _, k := range cases {
		if k.Verdict == vEscaped {
			hadEscape = true
		}
	}
	if hadEscape {
		e.dirty++
	}
	if !hadEscape && len(all) == len(d) {
		c.Inconclusive("fingerprint-change-not-reproduced:"+b.Key, 1)
	}
	e.report(b, cases, all)
}

// report turns the verdicts of one batch into violations.
func (e *env) report(b batch, cases []oneCase, diff []string) {
	c := e.c
	var noIDTotal, noIDEsc int
	var escNoID, escUser []oneCase
	classesEsc := map[string]bool{}
	for _, k := range cases {
		if noIdentity[k.Cred.Class] {
			if k.Verdict == vRejected || k.Verdict == vEscaped {
				noIDTotal++ // requests the client library refused to send are not judged
			}
			if k.Verdict == vEscaped {
				noIDEsc++
				escNoID = append(escNoID, k)
			}
		} else if k.Verdict == vEscaped {
			escUser = append(escUser, k)
			classesEsc[k.Cred.Class] = true
		}
	}
	wit := func(ks []oneCase) map[string]any {
		if len(ks) > 6 {
			ks = ks[:6]
		}
		return map[string]any{"flavour": e.tag(), "kind": "status", "case": b.Key, "need": b.Need.String(), "cases": ks, "state_change": diff}
	}
	side := ""
	if len(diff) > 0 {
		side = " AND the state changed: " + strings.Join(diff, "; ")
	}
	if noIDEsc > 0 && noIDEsc == noIDTotal {
		c.Violation("unauthenticated:"+b.Key,
			fmt.Sprintf("[%s] %s answers every request without valid credentials (e.g. no credentials -> %d %q)%s", e.tag(), b.Key,
				escNoID[0].Resp.Status, trunc(escNoID[0].Resp.Body, 80), side), wit(escNoID))
	} else {
		seen := map[string]bool{}
		for _, k := range escNoID {
			sig := "auth-bypass:" + b.Key + ":" + variantSig(k.Cred)
			if seen[sig] {
				continue
			}
			seen[sig] = true
			c.Violation(sig, fmt.Sprintf("[%s] %s accepted %s credentials: %d %q%s", e.tag(), b.Key, k.Cred.key(), k.Resp.Status, trunc(k.Resp.Body, 80), side),
				wit([]oneCase{k}))
		}
	}
	if len(escUser) > 0 && !(noIDEsc > 0 && noIDEsc == noIDTotal) {
		cl := make([]string, 0, len(classesEsc))
		for k := range classesEsc {
			cl = append(cl, k)
		}
		sort.Strings(cl)
		// the set of classes served depends on request order for acting requests (the second
		// DELETE finds nothing), so it is in the text and the witness, not in the signature
		c.Violation("privilege-bypass:"+b.Key+":needs="+b.Need.String(),
			fmt.Sprintf("[%s] %s needs %s but served %s (e.g. %s -> %d %q)%s", e.tag(), b.Key, b.Need, strings.Join(cl, ", "),
				escUser[0].Cred.key(), escUser[0].Resp.Status, trunc(escUser[0].Resp.Body, 80), side), wit(escUser))
	}
}

// settleQuick: one fingerprint after the short pause an immediate effect needs.
func (e *env) settleQuick() *fingerprint {
	return e.settle()
}

// repair brings the fixture back after something changed it and re-baselines.
func (e *env) repair() {
	e.c.Count("repairs", 1)
	t0 := time.Now()
	defer func() {
		if os.Getenv("C19_TIMING") != "" {
			fmt.Printf("[%s] timing repair %.2fs\n", e.tag(), time.Since(t0).Seconds())
		}
	}()
	if !e.restartIfDead("repair") {
		return
	}
	keepDB := map[string]bool{db1: true, db2: true, sacDB: true, "_internal": true}
	if e.fl.LogKeeper {
		keepDB[repo1], keepDB["sacrepo"] = true, true
	}
	if res, err := e.adminQ("", "SHOW DATABASES"); err == nil {
		for _, db := range column(res, 0) {
			if !keepDB[db] {
				_, err := e.adminQ("", fmt.Sprintf(`DROP DATABASE "%s"`, db))
				if os.Getenv("C19_TIMING") != "" {
					fmt.Printf("[%s] timing repair: drop database %s %.2fs %v\n", e.tag(), db, time.Since(t0).Seconds(), err)
				}
			}
		}
	}
	keepU := map[string]bool{adminUser: true, roUser: true, woUser: true, otherUser: true, victimUser: true, grantUser: true}
	if res, err := e.adminQ("", "SHOW USERS"); err == nil {
		for _, u := range column(res, 0) {
			if !keepU[u] {
				_, _ = e.adminQ("", fmt.Sprintf(`DROP USER "%s"`, u))
			}
		}
	}
	// extra retention policies / log streams and measurements inside the kept databases
	wantRP := map[string]bool{"autogen": true, stream1: true, crossRP: true}
	wantMst := map[string]bool{mst1: true, stream1: true}
	for db := range keepDB {
		if db == "_internal" {
			continue
		}
		if res, err := e.adminQ("", fmt.Sprintf(`SHOW RETENTION POLICIES ON "%s"`, db)); err == nil {
			for _, rp := range column(res, 0) {
				if !wantRP[rp] {
					_, _ = e.adminQ("", fmt.Sprintf(`DROP RETENTION POLICY "%s" ON "%s"`, rp, db))
				}
			}
		}
		if res, err := e.adminQ(db, "SHOW MEASUREMENTS"); err == nil {
			for _, m := range column(res, 0) {
				if !wantMst[m] {
					_, _ = e.adminQ(db, fmt.Sprintf(`DROP MEASUREMENT "%s"`, m))
				}
			}
		}
	}
	// continuous queries and subscriptions (a /query statement served to the wrong user may leave one)
	if res, err := e.adminQ("", "SHOW CONTINUOUS QUERIES"); err == nil && len(res.Results) > 0 {
		for _, se := range res.Results[0].Series {
			for _, v := range se.Values {
				if len(v) > 0 {
					_, _ = e.adminQ("", fmt.Sprintf(`DROP CONTINUOUS QUERY "%v" ON "%s"`, v[0], se.Name))
				}
			}
		}
	}
	if res, err := e.adminQ("", "SHOW SUBSCRIPTIONS"); err == nil && len(res.Results) > 0 {
		for _, se := range res.Results[0].Series {
			for _, v := range se.Values {
				if len(v) > 1 {
					_, _ = e.adminQ("", fmt.Sprintf(`DROP SUBSCRIPTION "%v" ON "%s"."%v"`, v[1], se.Name, v[0]))
				}
			}
		}
	}
	e.fixtureRetry()
	if os.Getenv("C19_TIMING") != "" {
		fmt.Printf("[%s] timing repair: fixture done %.2fs\n", e.tag(), time.Since(t0).Seconds())
	}
	e.base = e.settle()
}
