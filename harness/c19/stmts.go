package main

import (
	"fmt"
	"math/rand/v2"
	"strings"
)

// stmtKind is one statement kind of the query endpoint with the privilege the InfluxDB
// authorisation documentation requires for it. Text acts on the victims' objects (db1,
// the fixture users): if it were executed for an insufficient user the fingerprint would
// move. AdminText is what the administrator runs afterwards (on sacrificial objects).
type stmtKind struct {
	Kind      string
	Text      string
	AdminText string
	Need      need
	Core      bool // part of the quick tier
}

func stmtKinds() []stmtKind {
	k := []stmtKind{
		// reads: READ on the database
		{Kind: "SELECT", Text: "SELECT v FROM m1 LIMIT 1", Need: needRead, Core: true},
		{Kind: "SELECT-aggregate", Text: "SELECT count(v) FROM m1 WHERE time > 0 GROUP BY host", Need: needRead},
		{Kind: "SELECT-subquery", Text: "SELECT max(c) FROM (SELECT count(v) AS c FROM m1 GROUP BY host)", Need: needRead},
		{Kind: "SELECT-qualified-other-db", Text: "SELECT v FROM db1.autogen.m1 LIMIT 1", Need: needRead, Core: true},
		{Kind: "EXPLAIN", Text: "EXPLAIN SELECT v FROM m1", Need: needRead},
		{Kind: "EXPLAIN-ANALYZE", Text: "EXPLAIN ANALYZE SELECT v FROM m1", Need: needRead},
		{Kind: "SHOW-MEASUREMENTS", Text: "SHOW MEASUREMENTS", Need: needRead, Core: true},
		{Kind: "SHOW-MEASUREMENTS-ON", Text: "SHOW MEASUREMENTS ON db1", Need: needRead},
		{Kind: "SHOW-SERIES", Text: "SHOW SERIES", Need: needRead, Core: true},
		{Kind: "SHOW-TAG-KEYS", Text: "SHOW TAG KEYS", Need: needRead},
		{Kind: "SHOW-TAG-VALUES", Text: "SHOW TAG VALUES WITH KEY = host", Need: needRead},
		{Kind: "SHOW-FIELD-KEYS", Text: "SHOW FIELD KEYS", Need: needRead},
		{Kind: "SHOW-RETENTION-POLICIES", Text: "SHOW RETENTION POLICIES ON db1", Need: needRead, Core: true},
		{Kind: "SHOW-SERIES-CARDINALITY", Text: "SHOW SERIES CARDINALITY", Need: needRead},
		{Kind: "SHOW-MEASUREMENT-CARDINALITY", Text: "SHOW MEASUREMENT CARDINALITY", Need: needRead},
		{Kind: "SHOW-TAG-KEY-CARDINALITY", Text: "SHOW TAG KEY CARDINALITY", Need: needRead},
		{Kind: "SHOW-TAG-VALUES-CARDINALITY", Text: "SHOW TAG VALUES CARDINALITY WITH KEY = host", Need: needRead},
		{Kind: "SHOW-FIELD-KEY-CARDINALITY", Text: "SHOW FIELD KEY CARDINALITY", Need: needRead},
		{Kind: "SHOW-MEASUREMENTS-DETAIL", Text: "SHOW MEASUREMENTS DETAIL WITH MEASUREMENT = m1", Need: needRead},
		// writes: WRITE on the database
		{Kind: "SELECT-INTO", Text: "SELECT v INTO m1copy FROM m1", Need: needReadAndWrite, Core: true},
		{Kind: "DELETE", Text: "DELETE FROM m1 WHERE time < 1700000003000000000", Need: needWrite, Core: true},
		{Kind: "DROP-SERIES", Text: "DROP SERIES FROM m1 WHERE host = 'h1'", Need: needWrite},
		// catalogue, users, server: administrator
		{Kind: "CREATE-DATABASE", Text: "CREATE DATABASE c19stmtdb", AdminText: "CREATE DATABASE c19admdb", Need: needAdmin, Core: true},
		{Kind: "DROP-DATABASE", Text: "DROP DATABASE db2", AdminText: "DROP DATABASE c19admdb", Need: needAdmin, Core: true},
		{Kind: "CREATE-RETENTION-POLICY", Text: "CREATE RETENTION POLICY rpx ON db1 DURATION 1d REPLICATION 1", Need: needAdmin, Core: true},
		{Kind: "ALTER-RETENTION-POLICY", Text: "ALTER RETENTION POLICY autogen ON db1 DURATION 300d", AdminText: "ALTER RETENTION POLICY rpx ON sacdb DURATION 2d", Need: needAdmin},
		{Kind: "DROP-RETENTION-POLICY", Text: "DROP RETENTION POLICY autogen ON db1", AdminText: "DROP RETENTION POLICY rpx ON sacdb", Need: needWriteOrAdmin},
		{Kind: "CREATE-USER", Text: "CREATE USER c19intruder WITH PASSWORD 'Intrud3r#C19-x'", AdminText: "CREATE USER c19tmpuser WITH PASSWORD 'Tmp#User-C19x'", Need: needAdmin, Core: true},
		{Kind: "CREATE-USER-ADMIN", Text: "CREATE USER c19intruder2 WITH PASSWORD 'Intrud3r#C19-x' WITH ALL PRIVILEGES", AdminText: "SHOW USERS", Need: needAdmin},
		{Kind: "SET-PASSWORD", Text: "SET PASSWORD FOR dbtwo1 = 'N3w#Passw0rd-C19'", AdminText: "SET PASSWORD FOR c19tmpuser = 'N3w#Passw0rd-C19'", Need: needAdmin, Core: true},
		{Kind: "GRANT", Text: "GRANT ALL ON db1 TO dbtwo1", AdminText: "GRANT READ ON sacdb TO c19tmpuser", Need: needAdmin, Core: true},
		{Kind: "REVOKE", Text: "REVOKE ALL ON db2 FROM dbtwo1", AdminText: "REVOKE READ ON sacdb FROM c19tmpuser", Need: needAdmin},
		{Kind: "GRANT-ADMIN", Text: "GRANT ALL PRIVILEGES TO dbtwo1", AdminText: "SHOW USERS", Need: needAdmin, Core: true},
		{Kind: "REVOKE-ADMIN", Text: "REVOKE ALL PRIVILEGES FROM admin", AdminText: "SHOW USERS", Need: needAdmin},
		{Kind: "DROP-USER", Text: "DROP USER dbtwo1", AdminText: "DROP USER c19tmpuser", Need: needAdmin, Core: true},
		{Kind: "SHOW-USERS", Text: "SHOW USERS", Need: needAdmin, Core: true},
		{Kind: "SHOW-GRANTS", Text: "SHOW GRANTS FOR reader1", Need: needAdmin},
		{Kind: "CREATE-MEASUREMENT", Text: "CREATE MEASUREMENT c19mst", Need: needAdmin},
		{Kind: "ALTER-MEASUREMENT-SHARDKEY", Text: "ALTER MEASUREMENT m1 WITH SHARDKEY host", Need: needAdmin},
		{Kind: "DROP-MEASUREMENT", Text: "DROP MEASUREMENT m1", AdminText: "DROP MEASUREMENT c19mst", Need: needAdmin, Core: true},
		{Kind: "DROP-SHARD", Text: "DROP SHARD 1", AdminText: "DROP SHARD 999999", Need: needAdmin},
		{Kind: "SHOW-SHARDS", Text: "SHOW SHARDS", Need: needAdmin},
		{Kind: "SHOW-SHARD-GROUPS", Text: "SHOW SHARD GROUPS", Need: needAdmin},
		{Kind: "SHOW-STATS", Text: "SHOW STATS", Need: needAdmin},
		{Kind: "SHOW-DIAGNOSTICS", Text: "SHOW DIAGNOSTICS", Need: needAdmin},
		{Kind: "SHOW-SUBSCRIPTIONS", Text: "SHOW SUBSCRIPTIONS", Need: needAdmin},
		{Kind: "CREATE-SUBSCRIPTION", Text: `CREATE SUBSCRIPTION sub0 ON "db1"."autogen" DESTINATIONS ALL 'http://127.0.0.1:9'`, Need: needAdmin},
		{Kind: "DROP-SUBSCRIPTION", Text: `DROP SUBSCRIPTION sub0 ON "db1"."autogen"`, Need: needAdmin},
		{Kind: "CREATE-CONTINUOUS-QUERY", Text: "CREATE CONTINUOUS QUERY cq0 ON db1 BEGIN SELECT mean(v) INTO m1mean FROM m1 GROUP BY time(1h) END", Need: needAdmin},
		{Kind: "SHOW-CONTINUOUS-QUERIES", Text: "SHOW CONTINUOUS QUERIES", Need: needRead},
		{Kind: "DROP-CONTINUOUS-QUERY", Text: "DROP CONTINUOUS QUERY cq0 ON db1", Need: needWriteOrAdmin},
		{Kind: "KILL-QUERY", Text: "KILL QUERY 1", Need: needAdmin},
		{Kind: "CREATE-STREAM", Text: "CREATE STREAM st0 INTO db1.autogen.m1stream ON SELECT sum(v) FROM db1.autogen.m1 GROUP BY time(1m), host DELAY 10s",
			AdminText: "CREATE STREAM st0 INTO sacdb.autogen.m1stream ON SELECT sum(v) FROM sacdb.autogen.m1 GROUP BY time(1m), host DELAY 10s", Need: needAdmin},
		{Kind: "SHOW-STREAMS", Text: "SHOW STREAMS", Need: needAdmin},
		{Kind: "DROP-STREAM", Text: "DROP STREAM st0", Need: needAdmin},
		{Kind: "CREATE-DOWNSAMPLE", Text: "CREATE DOWNSAMPLE ON db1.autogen (float(sum),integer(sum)) WITH DURATION 300d SAMPLEINTERVAL(1d,2d) TIMEINTERVAL(1m,3m)",
			AdminText: "CREATE DOWNSAMPLE ON sacdb.autogen (float(sum),integer(sum)) WITH DURATION 300d SAMPLEINTERVAL(1d,2d) TIMEINTERVAL(1m,3m)", Need: needAdmin},
		{Kind: "SHOW-DOWNSAMPLES", Text: "SHOW DOWNSAMPLES ON db1", Need: needDB},
		{Kind: "DROP-DOWNSAMPLE", Text: "DROP DOWNSAMPLES ON db1", Need: needAdmin},
		{Kind: "SHOW-CONFIGS", Text: "SHOW CONFIGS", Need: needAdmin},
		{Kind: "SET-CONFIG", Text: `SET CONFIG sql "logging.level" = "info"`, Need: needAdmin},
		{Kind: "SHOW-CLUSTER", Text: "SHOW CLUSTER", Need: needAdmin},
		{Kind: "SHOW-MEASUREMENT-KEYS", Text: "SHOW SHARDKEY FROM m1", Need: needDB},
		// any authenticated user
		{Kind: "SHOW-DATABASES", Text: "SHOW DATABASES", Need: needAuth, Core: true},
		{Kind: "SHOW-QUERIES", Text: "SHOW QUERIES", Need: needDB},
		// two statements in one request: the second needs more than the first
		{Kind: "multi-SELECT+DROP-DATABASE", Text: "SELECT v FROM m1 LIMIT 1; DROP DATABASE db2", AdminText: "SELECT v FROM m1 LIMIT 1; SHOW DATABASES", Need: needAdmin, Core: true},
	}
	for i := range k {
		if k[i].AdminText == "" {
			k[i].AdminText = strings.ReplaceAll(k[i].Text, "db1", sacDB)
		}
	}
	return k
}

// queryBatch wraps a statement kind into a batch on POST /query.
func (e *env) runStatements(rnd *rand.Rand, no0 int) {
	c := e.c
	kinds := stmtKinds()
	for i, sk := range kinds {
		if c.Quick() && !sk.Core {
			continue
		}
		if !e.ensureAlive("phase Q") || e.tooMany() {
			return
		}
		sk := sk
		method := "POST"
		b := batch{Key: method + " /query stmt=" + sk.Kind, Route: Route{Method: method, Pattern: "/query"}, Need: sk.Need, No: no0 + i,
			Make: func(t target) request {
				return request{Method: method, Path: "/query", Query: map[string]string{"db": t.DB, "q": sk.Text}, Headers: map[string]string{}}
			}}
		e.runInsufficientStmt(b, sk, rnd)
	}
	// statements that name another database than the request's db parameter
	e.runCrossDatabase()
	// afterwards the sufficient users: the statements really execute
	for _, sk := range kinds {
		if c.Quick() && !sk.Core {
			continue
		}
		e.runSufficientStmt(sk)
	}
	e.repair()
}

func (e *env) runInsufficientStmt(b batch, sk stmtKind, rnd *rand.Rand) {
	e.c.Distinct("statement-kinds-"+e.tag(), sk.Kind+" ["+sk.Need.String()+"]")
	e.runInsufficient(b, rnd)
}

// runSufficientStmt runs the statement for the classes that must be allowed.
func (e *env) runSufficientStmt(sk stmtKind) {
	c := e.c
	type who struct {
		class string
		db    string
		text  string
	}
	ws := []who{{clAdmin, sacDB, sk.AdminText}}
	for _, class := range []string{clRO, clWO, clOther} {
		if judged, deny := sk.Need.denied(class); judged && !deny {
			// non-destructive needs only (read / any-user / write to the user's own database)
			db := db1
			text := sk.Text
			if class == clOther {
				db, text = db2, strings.ReplaceAll(sk.Text, "db1", db2)
			}
			ws = append(ws, who{class, db, text})
		}
	}
	for _, w := range ws {
		for _, cr := range userCreds(w.class) {
			req := cr.apply(request{Method: "POST", Path: "/query", Query: map[string]string{"db": w.db, "q": w.text}, Headers: map[string]string{}})
			resp := e.send(req)
			c.Eval(1)
			v := vAccepted
			switch {
			case resp.Err != "":
				v = vClientErr
			case (resp.Status == 401 || resp.Status == 403) && w.class != clAdmin:
				// stricter than the model: not against the property (which only forbids serving the
				// insufficient), recorded
				v = "refused-although-modelled-sufficient"
				c.Distinct("stricter-than-model-"+e.tag(), sk.Kind+" ["+w.class+"]: "+trunc(resp.Body, 120))
			case resp.Status == 401 || resp.Status == 403:
				// the administrator turned away: the rejections observed above would be vacuous
				v = "SUFFICIENT-REJECTED"
				c.Violation("administrator-rejected:POST /query stmt="+sk.Kind,
					fmt.Sprintf("[%s] %s (%s) is refused for %s: %d %q", e.tag(), sk.Kind, w.text, cr.key(), resp.Status, trunc(resp.Body, 120)),
					map[string]any{"flavour": e.tag(), "kind": "sufficient", "case": "POST /query stmt=" + sk.Kind, "cases": []oneCase{{Cred: cr, Req: req, Resp: resp, Verdict: v}}})
			case resp.Status/100 == 2 && bodyOnlyErrors(resp.Body):
				v = "accepted-statement-error"
				c.Count("sufficient-statement-error:"+sk.Kind, 1)
				c.Distinct("sufficient-statement-errors-"+e.tag(), sk.Kind+" ["+w.class+"]: "+trunc(resp.Body, 110))
			case resp.Status/100 != 2:
				v = fmt.Sprintf("accepted-status-%d", resp.Status)
			}
			e.note(w.class, v)
			if v == vAccepted {
				c.Nontrivial(e.tag() + "|stmt=" + sk.Kind + "|" + w.class + "/" + cr.Transport + "|accepted")
			}
		}
	}
}
