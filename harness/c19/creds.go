package main

import (
	"crypto/hmac"
	"crypto/sha256"
	"encoding/base64"
	"encoding/json"
	"fmt"
	"math/rand/v2"
	"strings"
)

// Credential classes of the property's quantifier.
const (
	clNone    = "none"
	clMalf    = "malformed"
	clUnknown = "unknown-user"
	clWrongPw = "wrong-password"
	clRO      = "read-only-user"
	clWO      = "write-only-user"
	clOther   = "other-db-user"
	clAdmin   = "admin"
)

var noIdentity = map[string]bool{clNone: true, clMalf: true, clUnknown: true, clWrongPw: true}

// Transports: basic = "Authorization: Basic", params = u/p URL parameters,
// bearer = "Authorization: Bearer <JWT HS256 over the shared secret>",
// token = "Authorization: Token user:password" (the fourth form ParseCredentials accepts).
const (
	trBasic  = "basic"
	trParams = "params"
	trBearer = "bearer"
	trToken  = "token"
	trNone   = "-"
)

// cred is a data-only description of how credentials are attached to a request.
type cred struct {
	Class       string `json:"class"`
	Transport   string `json:"transport"`
	Variant     string `json:"variant"`
	AuthHeader  string `json:"authorization,omitempty"`
	SetU        bool   `json:"set_u,omitempty"`
	U           string `json:"u,omitempty"`
	SetP        bool   `json:"set_p,omitempty"`
	P           string `json:"p,omitempty"`
	TouchesUser string `json:"touches_user,omitempty"` // existing user whose failed-log-in counter this increments
}

func (cr cred) key() string { return cr.Class + "/" + cr.Transport + "/" + cr.Variant }

// apply attaches the credentials to a copy of r.
func (cr cred) apply(r request) request {
	o := r.clone()
	if cr.AuthHeader != "" {
		o.Headers["Authorization"] = cr.AuthHeader
	}
	if cr.SetU {
		o.Query["u"] = cr.U
	}
	if cr.SetP {
		o.Query["p"] = cr.P
	}
	return o
}

func b64(s string) string { return base64.StdEncoding.EncodeToString([]byte(s)) }

func basic(u, p string) string { return "Basic " + b64(u+":"+p) }

// jwtHS256 builds a compact JWS by hand so that broken variants can be built too.
func jwtRaw(header, claims map[string]any, secret string, alg string) string {
	enc := func(v any) string {
		b, _ := json.Marshal(v)
		return base64.RawURLEncoding.EncodeToString(b)
	}
	signing := enc(header) + "." + enc(claims)
	switch alg {
	case "HS256":
		m := hmac.New(sha256.New, []byte(secret))
		m.Write([]byte(signing))
		return signing + "." + base64.RawURLEncoding.EncodeToString(m.Sum(nil))
	case "none":
		return signing + "."
	default:
		return signing + "." + base64.RawURLEncoding.EncodeToString([]byte("not-a-signature"))
	}
}

const farFuture = 4102444800 // 2100-01-01, a fixed value: no wall-clock dependence

func jwtFor(user, secret string) string {
	return jwtRaw(map[string]any{"alg": "HS256", "typ": "JWT"}, map[string]any{"username": user, "exp": farFuture}, secret, "HS256")
}

func identity(class, user, pass string, transports []string) []cred {
	var out []cred
	for _, tr := range transports {
		switch tr {
		case trBasic:
			out = append(out, cred{Class: class, Transport: tr, Variant: "valid", AuthHeader: basic(user, pass)})
		case trParams:
			out = append(out, cred{Class: class, Transport: tr, Variant: "valid", SetU: true, U: user, SetP: true, P: pass})
		case trBearer:
			out = append(out, cred{Class: class, Transport: tr, Variant: "valid", AuthHeader: "Bearer " + jwtFor(user, sharedSecret)})
		case trToken:
			out = append(out, cred{Class: class, Transport: tr, Variant: "valid", AuthHeader: "Token " + user + ":" + pass})
		}
	}
	return out
}

var allTransports = []string{trBasic, trParams, trBearer, trToken}

// malformed variants per transport. None of them names a valid (user, secret) pair.
func malformedVariants() map[string][]cred {
	m := map[string][]cred{}
	add := func(tr, variant string, cr cred) {
		cr.Class, cr.Transport, cr.Variant = clMalf, tr, variant
		m[tr] = append(m[tr], cr)
	}
	add(trBasic, "not-base64", cred{AuthHeader: "Basic !!!not*base64!!!"})
	add(trBasic, "no-colon", cred{AuthHeader: "Basic " + b64(adminUser)})
	add(trBasic, "scheme-only", cred{AuthHeader: "Basic"})
	add(trBasic, "no-scheme", cred{AuthHeader: adminUser + ":" + "Wr0ng#Password"})
	add(trBasic, "empty-user", cred{AuthHeader: basic("", "Wr0ng#Password")})
	add(trBasic, "unknown-scheme", cred{AuthHeader: "Digest username=\"" + adminUser + "\""})
	add(trParams, "u-only", cred{SetU: true, U: adminUser})
	add(trParams, "p-only", cred{SetP: true, P: "Wr0ng#Password"})
	add(trParams, "empty-u", cred{SetU: true, U: "", SetP: true, P: "Wr0ng#Password"})
	add(trParams, "u-empty-p", cred{SetU: true, U: adminUser, SetP: true, P: ""})
	add(trBearer, "not-a-jwt", cred{AuthHeader: "Bearer not.a.jwt"})
	add(trBearer, "empty-token", cred{AuthHeader: "Bearer "})
	add(trBearer, "alg-none", cred{AuthHeader: "Bearer " + jwtRaw(map[string]any{"alg": "none", "typ": "JWT"},
		map[string]any{"username": adminUser, "exp": farFuture}, "", "none")})
	add(trBearer, "no-exp", cred{AuthHeader: "Bearer " + jwtRaw(map[string]any{"alg": "HS256", "typ": "JWT"},
		map[string]any{"username": adminUser}, sharedSecret, "HS256")})
	add(trBearer, "no-username", cred{AuthHeader: "Bearer " + jwtRaw(map[string]any{"alg": "HS256", "typ": "JWT"},
		map[string]any{"exp": farFuture}, sharedSecret, "HS256")})
	add(trBearer, "expired", cred{AuthHeader: "Bearer " + jwtRaw(map[string]any{"alg": "HS256", "typ": "JWT"},
		map[string]any{"username": adminUser, "exp": 1000000000}, sharedSecret, "HS256")})
	add(trBearer, "username-not-string", cred{AuthHeader: "Bearer " + jwtRaw(map[string]any{"alg": "HS256", "typ": "JWT"},
		map[string]any{"username": 7, "exp": farFuture}, sharedSecret, "HS256")})
	add(trBearer, "rs256-header-hmac-sig", cred{AuthHeader: "Bearer " + jwtRaw(map[string]any{"alg": "RS256", "typ": "JWT"},
		map[string]any{"username": adminUser, "exp": farFuture}, sharedSecret, "HS256")})
	add(trToken, "no-colon", cred{AuthHeader: "Token " + adminUser})
	add(trToken, "empty-user", cred{AuthHeader: "Token :Wr0ng#Password"})
	return m
}

func unknownUser() []cred {
	out := identity(clUnknown, ghostUser, userPass, allTransports)
	// an unknown name with the administrator's real password must not help either
	out = append(out, cred{Class: clUnknown, Transport: trBasic, Variant: "admin-password", AuthHeader: basic(ghostUser, adminPass)})
	return out
}

// wrongPassword: an existing user with ALL on the target database, never its password.
// Includes the empty password (which the URL-parameter form cannot express: u/p are only
// taken when both are non-empty) and, for bearer, a token for the administrator signed
// with another secret.
func wrongPassword() []cred {
	w := "Wr0ng#Password"
	out := []cred{
		{Class: clWrongPw, Transport: trBasic, Variant: "wrong", AuthHeader: basic(victimUser, w), TouchesUser: victimUser},
		{Class: clWrongPw, Transport: trBasic, Variant: "empty", AuthHeader: basic(victimUser, ""), TouchesUser: victimUser},
		{Class: clWrongPw, Transport: trParams, Variant: "wrong", SetU: true, U: victimUser, SetP: true, P: w, TouchesUser: victimUser},
		{Class: clWrongPw, Transport: trToken, Variant: "wrong", AuthHeader: "Token " + victimUser + ":" + w, TouchesUser: victimUser},
		{Class: clWrongPw, Transport: trToken, Variant: "empty", AuthHeader: "Token " + victimUser + ":", TouchesUser: victimUser},
		{Class: clWrongPw, Transport: trBearer, Variant: "wrong-secret", AuthHeader: "Bearer " + jwtFor(adminUser, "another-secret")},
	}
	return out
}

// credPlan returns the credentials of the insufficient-identity classes for one case.
// Quick: one malformed variant per transport (rotating with the case number), all other
// variants; thorough: every malformed variant plus fuzzed credential syntax.
func credPlan(thorough bool, caseNo int, rnd *rand.Rand) []cred {
	out := []cred{{Class: clNone, Transport: trNone, Variant: "no-credentials"}}
	mv := malformedVariants()
	for _, tr := range allTransports {
		vs := mv[tr]
		if thorough {
			out = append(out, vs...)
		} else {
			out = append(out, vs[caseNo%len(vs)])
		}
	}
	out = append(out, unknownUser()...)
	out = append(out, wrongPassword()...)
	if thorough {
		for i := 0; i < 40; i++ {
			out = append(out, fuzzCred(rnd))
		}
	}
	return out
}

// fuzzCred produces a syntactic mutation of a credential that is invalid by construction:
// the secret is never a valid one, so whatever way the server parses it, it names no
// valid (user, secret) pair.
func fuzzCred(rnd *rand.Rand) cred {
	users := []string{victimUser, ghostUser, adminUser + "x", "", " " + victimUser, victimUser + " ", strings.ToUpper(victimUser),
		victimUser + ":" + victimUser, "víctim1", strings.Repeat("a", 300), "'" + victimUser + "'", "\"" + victimUser + "\""}
	pws := []string{"", " ", "Wr0ng#Password", "x", strings.Repeat("Z", 400), userPass + "x", strings.ToLower(userPass), "Us3r#C19-veri", "%00", "' OR '1'='1"}
	u := users[rnd.IntN(len(users))]
	p := pws[rnd.IntN(len(pws))]
	cr := cred{Class: clMalf, Variant: fmt.Sprintf("fuzz(%q,%q)", trunc(u, 24), trunc(p, 24))}
	if strings.TrimSpace(u) == victimUser || strings.HasPrefix(u, victimUser+":") {
		cr.TouchesUser = victimUser
	}
	schemes := []string{"Basic", "basic", "BASIC", "Basic ", "Bearer", "bearer", "Token", "token", "Negotiate", ""}
	switch rnd.IntN(4) {
	case 0:
		cr.Transport = trParams
		cr.SetU, cr.U, cr.SetP, cr.P = true, u, true, p
		if u == victimUser {
			cr.TouchesUser = victimUser
		}
	case 1:
		cr.Transport = trBasic
		sc := schemes[rnd.IntN(4)]
		cr.AuthHeader = sc + " " + b64(u+":"+p)
		cr.Variant += "/" + sc
	case 2:
		cr.Transport = trBearer
		sec := []string{"", "x", sharedSecret + "x", strings.ToLower(sharedSecret)}[rnd.IntN(4)]
		alg := []string{"HS256", "none", "junk"}[rnd.IntN(3)]
		cr.AuthHeader = schemes[4+rnd.IntN(2)] + " " + jwtRaw(map[string]any{"alg": alg, "typ": "JWT"}, map[string]any{"username": u, "exp": farFuture}, sec, alg)
		cr.Variant += "/" + alg
		cr.TouchesUser = ""
	default:
		cr.Transport = trToken
		sc := schemes[6+rnd.IntN(4)]
		cr.AuthHeader = strings.TrimSpace(sc + " " + u + ":" + p)
		cr.Variant += "/" + sc
	}
	if cr.TouchesUser == "" && (cr.Transport == trBasic || cr.Transport == trToken || cr.Transport == trParams) &&
		(u == victimUser || strings.HasPrefix(u, victimUser+":")) {
		cr.TouchesUser = victimUser
	}
	return cr
}

func trunc(s string, n int) string {
	if len(s) > n {
		return s[:n] + "…"
	}
	return s
}

// userCreds: the three authenticated non-admin classes and the administrator.
func userCreds(class string) []cred {
	switch class {
	case clRO:
		return identity(clRO, roUser, userPass, allTransports)
	case clWO:
		return identity(clWO, woUser, userPass, allTransports)
	case clOther:
		return identity(clOther, otherUser, userPass, allTransports)
	case clAdmin:
		return identity(clAdmin, adminUser, adminPass, allTransports)
	}
	return nil
}
