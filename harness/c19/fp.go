package main

import (
	"fmt"
	"sort"
	"strings"
	"time"

	"verifharness/proc"
)

// fingerprint is the catalogue/data state seen by the administrator plus the engine's
// control-port view. Two fingerprints taken around a batch of rejected requests must be
// identical (side-effect freedom).
type fingerprint struct {
	Parts map[string]string // component -> canonical rendering
}

func renderResult(res *proc.QueryResult, err error) string {
	if res == nil {
		return fmt.Sprintf("ERR(%v)", err)
	}
	var b strings.Builder
	for _, r := range res.Results {
		if r.Err != "" {
			fmt.Fprintf(&b, "error=%s;", r.Err)
		}
		for _, se := range r.Series {
			rows := make([]string, 0, len(se.Values))
			for _, v := range se.Values {
				rows = append(rows, fmt.Sprint(v...))
			}
			sort.Strings(rows)
			tags := make([]string, 0, len(se.Tags))
			for k, v := range se.Tags {
				tags = append(tags, k+"="+v)
			}
			sort.Strings(tags)
			fmt.Fprintf(&b, "%s{%s}%v:%s;", se.Name, strings.Join(tags, ","), se.Columns, strings.Join(rows, "|"))
		}
	}
	if res.Err != "" {
		fmt.Fprintf(&b, "ERROR=%s", res.Err)
	}
	return b.String()
}

func column(res *proc.QueryResult, col int) []string {
	var out []string
	if res == nil {
		return out
	}
	for _, r := range res.Results {
		for _, se := range r.Series {
			for _, v := range se.Values {
				if len(v) > col {
					out = append(out, fmt.Sprint(v[col]))
				}
			}
		}
	}
	return out
}

func (e *env) takeFingerprint() *fingerprint {
	fp := &fingerprint{Parts: map[string]string{}}
	q := func(key, db, stmt string) *proc.QueryResult {
		res, err := e.adminQ(db, stmt)
		fp.Parts[key] = renderResult(res, err)
		return res
	}
	dbs := column(q("databases", "", "SHOW DATABASES"), 0)
	users := column(q("users", "", "SHOW USERS"), 0)
	for _, u := range users {
		q("grants:"+u, "", fmt.Sprintf(`SHOW GRANTS FOR "%s"`, u))
	}
	q("subscriptions", "", "SHOW SUBSCRIPTIONS")
	q("continuous-queries", "", "SHOW CONTINUOUS QUERIES")
	q("streams", "", "SHOW STREAMS")
	for _, db := range dbs {
		if db == "_internal" {
			continue
		}
		rps := column(q("rps:"+db, "", fmt.Sprintf(`SHOW RETENTION POLICIES ON "%s"`, db)), 0)
		q("measurements:"+db, db, "SHOW MEASUREMENTS")
		for _, rp := range rps {
			res, err := e.s.Query(db, "SELECT count(*) FROM /.*/", map[string][]string{"u": {adminUser}, "p": {adminPass}, "rp": {rp}})
			fp.Parts["rows:"+db+"."+rp] = renderResult(res, err)
		}
	}
	if st, err := e.s.State(""); err == nil {
		var sh []string
		for _, s := range st.Shards {
			sh = append(sh, fmt.Sprintf("%d:%s.%s.pt%d:mem=%d:snap=%v", s.ID, s.DB, s.RP, s.PT, s.ActiveMem, s.SnapshotTbl))
		}
		sort.Strings(sh)
		fp.Parts["engine-shards"] = strings.Join(sh, " ")
	} else {
		fp.Parts["engine-shards"] = "ERR " + err.Error()
	}
	return fp
}

// diff lists the components that differ (empty = identical).
func (a *fingerprint) diff(b *fingerprint) []string {
	var out []string
	seen := map[string]bool{}
	for k, v := range a.Parts {
		seen[k] = true
		if w, ok := b.Parts[k]; !ok {
			out = append(out, "removed "+k)
		} else if w != v {
			out = append(out, fmt.Sprintf("changed %s: %s => %s", k, trunc(v, 200), trunc(w, 200)))
		}
	}
	for k, w := range b.Parts {
		if !seen[k] {
			out = append(out, fmt.Sprintf("added %s: %s", k, trunc(w, 200)))
		}
	}
	sort.Strings(out)
	return out
}

// kinds summarises a diff into the component kinds that changed (for signatures).
func diffKinds(d []string) string {
	set := map[string]bool{}
	for _, x := range d {
		f := strings.Fields(x)
		if len(f) < 2 {
			continue
		}
		k := f[1]
		if i := strings.IndexAny(k, ":"); i >= 0 {
			k = k[:i]
		}
		set[k] = true
	}
	ks := make([]string, 0, len(set))
	for k := range set {
		ks = append(ks, k)
	}
	sort.Strings(ks)
	return strings.Join(ks, "+")
}

// settle waits until two consecutive fingerprints agree (bounded) and returns the last.
func (e *env) settle() *fingerprint {
	prev := e.takeFingerprint()
	for i := 0; i < 30; i++ {
		time.Sleep(250 * time.Millisecond)
		cur := e.takeFingerprint()
		if len(prev.diff(cur)) == 0 {
			return cur
		}
		prev = cur
	}
	e.c.Inconclusive("fingerprint-did-not-settle:"+e.tag(), 1)
	return prev
}
