package main

import (
	"fmt"
)

// Credential life cycle: "no request is served without valid credentials" also after the
// credentials of a name changed. The server keeps a cache of credentials it has checked; a
// password that WAS valid must stop working the moment the administrator's statement is
// acknowledged:
//
//	user A: logs in with P1 (cached), SET PASSWORD = P2        -> P1 refused, P2 accepted
//	user B: logs in with P1 (cached), DROP USER                -> P1 refused
//	        CREATE USER (same name) WITH PASSWORD P2 + GRANT   -> P1 refused on every transport
//	                                                              BEFORE anybody logged in with P2,
//	                                                              then P2 accepted
//
// The server locks a name for 30 s after 5 failed log-ins within 30 s, which would mask an
// acceptance: every name sees at most 4 expected refusals before a correct log-in.
const (
	lifeDB = "ldb"
	lifeP1 = "L1fe#C19-first"
	lifeP2 = "L1fe#C19-second"
)

func (e *env) lifeProbe(user, pass, tr string) (response, request, cred) {
	cr := identity("life-cycle", user, pass, []string{tr})[0]
	rq := cr.apply(request{Method: "GET", Path: "/query", Query: map[string]string{"db": lifeDB, "q": "SELECT count(v) FROM m1"}, Headers: map[string]string{}})
	return e.send(rq), rq, cr
}

func (e *env) runLifecycle() {
	c := e.c
	if _, err := e.adminQ("", "CREATE DATABASE "+lifeDB); err != nil {
		c.Inconclusive("life-cycle-fixture:"+e.tag(), 1)
		return
	}
	if w := e.s.Write(lifeDB, "m1,host=h0 v=1 1700000000000000000\n", e.admin); !w.Acked() {
		c.Inconclusive("life-cycle-fixture:"+e.tag(), 1)
		return
	}
	var history []string
	admin := func(q string) bool {
		history = append(history, q)
		if _, err := e.adminQ("", q); err != nil {
			history[len(history)-1] += " (refused: " + trunc(err.Error(), 80) + ")"
			c.Inconclusive("life-cycle-admin-statement-refused:"+e.tag(), 1)
			return false
		}
		return true
	}
	// expect: the probe must be accepted (want=true) or refused with 401/403 (want=false)
	expect := func(step, user, pass, tr string, want bool) bool {
		r, rq, cr := e.lifeProbe(user, pass, tr)
		c.Eval(1)
		accepted := r.Status == 200 && !bodyOnlyErrors(r.Body)
		refused := r.Status == 401 || r.Status == 403
		history = append(history, fmt.Sprintf("probe %s password=%s over %s -> %d", user, map[string]string{lifeP1: "P1", lifeP2: "P2"}[pass], tr, r.Status))
		c.Count("life-cycle-probes", 1)
		c.Nontrivial(fmt.Sprintf("%s|life-cycle|%s|%s|want-accepted=%v", e.tag(), step, tr, want))
		c.Distinct("life-cycle-steps", step)
		wit := map[string]any{"flavour": e.tag(), "kind": "life-cycle", "history": append([]string{}, history...), "probe": oneCase{Cred: cr, Req: rq, Resp: r}}
		switch {
		case !want && accepted:
			c.Violation("life-cycle:stale-credentials-accepted:"+step, fmt.Sprintf("[%s] %s: a request of %s with a password that is no longer valid was served over %s (%d)", e.tag(), step, user, tr, r.Status), wit)
			return false
		case want && refused:
			c.Violation("life-cycle:valid-credentials-refused:"+step, fmt.Sprintf("[%s] %s: a request of %s with the valid password was refused over %s (%d %s)", e.tag(), step, user, tr, r.Status, trunc(r.Body, 80)), wit)
			return false
		case !accepted && !refused:
			c.Inconclusive("life-cycle-unclear-answer:"+e.tag(), 1)
		}
		return true
	}
	trs := []string{trBasic, trParams, trToken}
	// user A: SET PASSWORD
	a := "c19lifea"
	if !admin(fmt.Sprintf("CREATE USER %s WITH PASSWORD '%s'", a, lifeP1)) || !admin(fmt.Sprintf("GRANT ALL ON %s TO %s", lifeDB, a)) {
		return
	}
	for _, tr := range trs {
		expect("A:first-log-in", a, lifeP1, tr, true)
	}
	if admin(fmt.Sprintf("SET PASSWORD FOR %s = '%s'", a, lifeP2)) {
		for _, tr := range trs {
			expect("A:old-password-after-SET-PASSWORD", a, lifeP1, tr, false)
		}
		for _, tr := range trs {
			expect("A:new-password-after-SET-PASSWORD", a, lifeP2, tr, true)
		}
	}
	admin("DROP USER " + a)
	// user B: DROP USER, then the name is given out again with another password
	b := "c19lifeb"
	if !admin(fmt.Sprintf("CREATE USER %s WITH PASSWORD '%s'", b, lifeP1)) || !admin(fmt.Sprintf("GRANT ALL ON %s TO %s", lifeDB, b)) {
		return
	}
	for _, tr := range trs {
		expect("B:first-log-in", b, lifeP1, tr, true)
	}
	if !admin("DROP USER " + b) {
		return
	}
	expect("B:password-of-the-dropped-user", b, lifeP1, trBasic, false)
	if admin(fmt.Sprintf("CREATE USER %s WITH PASSWORD '%s'", b, lifeP2)) && admin(fmt.Sprintf("GRANT ALL ON %s TO %s", lifeDB, b)) {
		for _, tr := range trs {
			expect("B:former-password-after-DROP-and-CREATE-of-the-same-name", b, lifeP1, tr, false)
		}
		for _, tr := range trs {
			expect("B:new-password-after-DROP-and-CREATE", b, lifeP2, tr, true)
		}
	}
	admin("DROP USER " + b)
}
