package main

import (
	"encoding/json"
	"fmt"
	"os"
	"path/filepath"
	"strings"
	"time"

	"github.com/openGemini/openGemini/app"
	ingestserver "github.com/openGemini/openGemini/app/ts-sql/sql"
	"github.com/openGemini/openGemini/lib/config"

	"verifharness/proc"
	"verifharness/vf"
)

// The route table comes from the code that is running: a child process of this driver
// (built from the same repository tree as the server binary) performs exactly what
// `ts-server run -config <file>` does for its SQL part up to, but not including,
// Server.Open — parse the server's own configuration file, NewServer (which calls
// httpd.NewHandler and then adds further routes) — and reads the gorilla router of the
// resulting handler through the verif-tagged accessor. The parent then confirms every
// entry against the live server (a table entry the live router answers with its 404/405
// is reported as route-not-live).

type routeTable struct {
	Routes []Route `json:"routes"`
	Pprof  bool    `json:"pprof"`
}

// routesWorker: arg = "routes|<conf>|<out>".
func routesWorker(c *vf.Ctx, arg string) {
	f := strings.Split(arg, "|")
	if len(f) != 3 {
		c.Broken("bad worker argument %q", arg)
		return
	}
	conf, out := f[1], f[2]
	info := app.ServerInfo{App: config.AppSingle, Version: "verif"}
	cmd := ingestserver.NewCommand(info, false)
	if err := cmd.InitConfig(cmd.Config, conf); err != nil {
		c.Broken("route worker: parse %s: %v", conf, err)
		return
	}
	srv, err := cmd.NewServerFunc(cmd.Config, cmd.Info, cmd.Logger)
	if err != nil {
		c.Broken("route worker: NewServer: %v", err)
		return
	}
	rs, pprof, ok := ingestserver.VerifHTTPRoutes(srv)
	if !ok {
		c.Broken("route worker: server object has no HTTP handler")
		return
	}
	var t routeTable
	t.Pprof = pprof
	for _, r := range rs {
		t.Routes = append(t.Routes, Route{Method: r.Method, Pattern: r.Pattern})
	}
	b, _ := json.Marshal(t)
	if err := os.WriteFile(out, b, 0o644); err != nil {
		c.Broken("route worker: %v", err)
	}
	c.Eval(1)
}

// liveRoutes asks a worker for the table of the configuration the server runs with.
func (e *env) liveRoutes() bool {
	c := e.c
	srvConf := filepath.Join(e.s.Cfg.Dir, "server.conf")
	b, err := os.ReadFile(srvConf)
	if err != nil {
		c.Broken("[%s] read server.conf: %v", e.tag(), err)
		return false
	}
	// same configuration, but logs and data paths of the (never opened) twin go elsewhere
	twinDir := filepath.Join(c.Scratch, "twin-"+e.fl.Name)
	_ = os.MkdirAll(twinDir, 0o755)
	txt := strings.ReplaceAll(string(b), e.s.Cfg.Dir, twinDir)
	// NewServer binds the arrow-flight address when that service is enabled: the twin gets
	// its own loopback address
	txt = strings.ReplaceAll(txt, e.s.Cfg.IP, proc.IP(19, 100+e.fl.Worker))
	if e.fl.LogKeeper {
		if rt, err := os.ReadFile(filepath.Join(e.s.Cfg.Dir, "runtime.yaml")); err == nil {
			_ = os.WriteFile(filepath.Join(twinDir, "runtime.yaml"), rt, 0o644)
		}
	}
	conf := filepath.Join(twinDir, "server.conf")
	out := filepath.Join(twinDir, "routes.json")
	if err := os.WriteFile(conf, []byte(txt), 0o644); err != nil {
		c.Broken("[%s] %v", e.tag(), err)
		return false
	}
	c.RunWorker("routes|"+conf+"|"+out, 3*time.Minute, "HOME="+twinDir)
	rb, err := os.ReadFile(out)
	if err != nil {
		c.Broken("[%s] route worker produced no table: %v", e.tag(), err)
		return false
	}
	var t routeTable
	if err := json.Unmarshal(rb, &t); err != nil || len(t.Routes) == 0 {
		c.Broken("[%s] route table unreadable or empty: %v", e.tag(), err)
		return false
	}
	e.routes = append(t.Routes, preRouterRoutes(t.Pprof)...)
	e.pprof = t.Pprof
	var list []string
	for _, r := range e.routes {
		list = append(list, r.key())
	}
	c.Extra("routes-"+e.tag(), list)
	c.Count("routes-enumerated-"+e.tag(), int64(len(e.routes)))
	fmt.Printf("[%s] %d routes enumerated (%d from the router, %d pre-router prefixes)\n", e.tag(), len(e.routes), len(t.Routes), len(e.routes)-len(t.Routes))
	return true
}
