// Command c19 checks property C19: with authentication on and an administrator present,
// no HTTP endpoint acts for a request without sufficient credentials.
//
// It is a black-box driver: real ts-server processes (auth-enabled = true, shared-secret
// set) are driven over HTTP; the set of endpoints is read from the running code's router
// (see routes.go), not from a list in this package.
package main

import (
	"encoding/json"
	"fmt"
	"math/rand/v2"
	"os"
	"sort"
	"strings"
	"sync"
	"time"

	"verifharness/proc"
	"verifharness/vf"
)

func flavours() []flavour {
	return []flavour{
		{Name: "ts", Worker: 0},
		// the log-store product registers the repository / log-stream API on the same handler;
		// runtime-config makes ts-sql add /runtime_config after NewHandler
		{Name: "logkeeper", Worker: 1, LogKeeper: true, Extra: map[string][]string{
			"common":         {`product-type = "logkeeper"`},
			"http":           {`flight-enabled = true`}, // the log record writer only exists with the flight service
			"runtime-config": {`enabled = true`, `load-path = "{{dir}}/runtime.yaml"`, `reload-period = "10s"`},
		}},
	}
}

func main() {
	c := vf.New("C19", "exploration")
	if vf.IsWorker() {
		routesWorker(c, vf.WorkerArg())
		c.Finish()
	}
	c.SetRule("a case is (server flavour, route or /query statement kind, credential class, transport); it is distinct by that tuple and " +
		"non-trivial when the live router knows the route (not its own 404/405) and the answer was judged: rejected with 401/403, escaped, " +
		"allow-listed, or — for sufficient credentials — accepted; grant/revoke steps count once per (operation, privilege, transport)")
	c.Assume("the route table of the running server equals the table of a handler built in a child process from the same source tree, " +
		"the same configuration file and the same constructor path (ts-sql NewCommand/InitConfig/NewServer); every entry is additionally confirmed live")
	c.Assume("the three URL prefixes that Handler.ServeHTTP dispatches before the router are listed by hand (they are code, not table entries)")
	c.Assume("required privileges per endpoint follow the InfluxDB authorisation documentation (read = READ on the database, write = WRITE, " +
		"catalogue/user/server management = administrator); endpoints without a model are judged for the credential-less classes only")
	c.Assume("side effects are those visible in SHOW DATABASES/USERS/GRANTS/RETENTION POLICIES/MEASUREMENTS/SUBSCRIPTIONS/CONTINUOUS QUERIES/STREAMS, " +
		"row counts of every measurement and the engine control port's shard list and mem-table sizes")

	bin, err := proc.Build(c.RepoDir, c.Scratch, "ts-server", false)
	if err != nil {
		c.Broken("build ts-server: %v", err)
		c.Finish()
	}
	if c.ReplayIn != "" {
		replay(c, bin)
		c.Finish()
	}
	var wg sync.WaitGroup
	envs := make([]*env, len(flavours()))
	for i, fl := range flavours() {
		wg.Add(1)
		go func(i int, fl flavour) {
			defer wg.Done()
			done := make(chan struct{})
			go func() {
				defer close(done)
				envs[i] = runFlavour(c, bin, fl)
			}()
			wd := time.Duration(c.Pick(8, 45)) * time.Minute
			select {
			case <-done:
			case <-time.After(wd):
				c.Inconclusive("flavour-watchdog:"+fl.Name, 1)
				fmt.Printf("INCONCLUSIVE property=C19 flavour %s exceeded its watchdog %s\n", fl.Name, wd)
			}
		}(i, fl)
	}
	wg.Wait()
	matrix := map[string]any{}
	var sent int64
	for _, e := range envs {
		if e == nil {
			continue
		}
		e.outcomeMu.Lock()
		matrix[e.tag()] = e.outcome
		sent += e.sent
		e.outcomeMu.Unlock()
		if e.s != nil {
			e.s.Kill()
		}
	}
	c.Extra("outcome-matrix(class -> outcome -> requests)", matrix)
	c.Count("http-requests-sent", sent)
	c.Finish()
}

// the route table of the default product, published for the log-store flavour (whose
// administrator sweep is limited to the routes that only it has: with product-type =
// "logkeeper" an accepted line-protocol write crashes the server, see env.fixture)
var (
	tsTable      = map[string]bool{}
	tsTableReady = make(chan struct{})
)

func runFlavour(c *vf.Ctx, bin string, fl flavour) *env {
	t0 := time.Now()
	e, err := startServer(c, bin, fl)
	if err != nil {
		c.Broken("[%s] %v", fl.Name, err)
		return e
	}
	if !e.fixtureRetry() {
		return e
	}
	if !e.liveRoutes() {
		if !fl.LogKeeper {
			close(tsTableReady)
		}
		return e
	}
	if !fl.LogKeeper {
		for _, r := range e.routes {
			tsTable[r.key()] = true
		}
		close(tsTableReady)
	}
	e.base = e.settle()
	fmt.Printf("[%s] server + fixture + route table ready after %.1fs\n", e.tag(), time.Since(t0).Seconds())
	rnd := c.Rand(uint64(100 + fl.Worker))

	// Phase A: every route with every insufficient credential, in a seed-determined order
	// (DELETE routes last: what they remove is what other requests aim at)
	var order []int
	perm := rnd.Perm(len(e.routes))
	for _, i := range perm {
		if e.routes[i].Method != "DELETE" {
			order = append(order, i)
		}
	}
	for _, i := range perm {
		if e.routes[i].Method == "DELETE" {
			order = append(order, i)
		}
	}
	for n, i := range order {
		if !e.ensureAlive("phase A before "+e.routes[i].key()) || e.tooMany() {
			return e
		}
		rt := e.routes[i]
		e.runInsufficient(batch{Key: rt.key(), Route: rt, Need: routeNeed(rt), No: n,
			Make: func(t target) request { return specFor(rt, t) }}, rnd)
	}
	if !e.ensureAlive("end of phase A") {
		return e
	}
	fmt.Printf("[%s] phase A (routes x insufficient credentials) done after %.1fs\n", e.tag(), time.Since(t0).Seconds())
	e.runMethodSweep()

	if !fl.LogKeeper && !e.tooMany() {
		// Phase Q: statement kinds of the query endpoint
		e.runStatements(rnd, len(e.routes))
		fmt.Printf("[%s] phase Q (statement kinds) done after %.1fs\n", e.tag(), time.Since(t0).Seconds())

		// Phase G: grant / revoke matrix
		e.runGrants(rnd, c.Pick(10, 150))
		fmt.Printf("[%s] phase G (grant/revoke) done after %.1fs\n", e.tag(), time.Since(t0).Seconds())

		// Phase L: passwords that were valid and no longer are
		e.runLifecycle()
		fmt.Printf("[%s] phase L (credential life cycle) done after %.1fs\n", e.tag(), time.Since(t0).Seconds())
	}

	// Phase B: sufficient credentials really act, so this comes last
	e.runSufficient()
	fmt.Printf("[%s] phase B (sufficient credentials) done after %.1fs\n", e.tag(), time.Since(t0).Seconds())
	return e
}

// ensureAlive restarts a dead server. A death while every request so far was rejected is
// a violation (something unauthenticated killed it, or it dies by itself); after an escape
// (a request that was wrongly served, e.g. a log stream deleted under pending records) the
// death is a consequence of that reported escape and only counted.
func (e *env) ensureAlive(where string) bool {
	if e.s.Alive() {
		return true
	}
	if !e.restartIfDead(where) {
		return false
	}
	e.repair()
	return e.s.Alive()
}

// restartIfDead reports a dead server (see ensureAlive) and starts it again.
func (e *env) restartIfDead(where string) bool {
	if e.s.Alive() {
		return true
	}
	c := e.c
	tail := trunc(e.s.StdoutTail(700), 700)
	esc := e.dirty // batches in which a wrongly served request changed the state
	if esc == 0 {
		c.Violation("server-died:"+e.tag(), "the server process died although every request so far was rejected ("+where+"): "+tail,
			map[string]any{"flavour": e.tag(), "kind": "crash", "where": where})
	} else {
		c.Inconclusive("server-died-after-escaped-requests:"+e.tag(), 1)
		fmt.Printf("INCONCLUSIVE property=C19 [%s] server died (%s) after %d batches with wrongly served, state-changing requests: %s\n", e.tag(), where, esc, trunc(tail, 200))
	}
	e.restarts++
	if e.restarts > 5 {
		c.Broken("[%s] server died more than 5 times", e.tag())
		return false
	}
	if err := e.s.Start(); err != nil {
		c.Broken("[%s] restart: %v", e.tag(), err)
		return false
	}
	if err := e.s.WaitReady(90 * time.Second); err != nil {
		c.Broken("[%s] restart: %v", e.tag(), err)
		return false
	}
	return true
}

// tooMany bounds the run when a change breaks authentication wholesale.
func (e *env) tooMany() bool {
	if e.c.Violations() >= 40 {
		if !e.capped {
			e.capped = true
			e.c.Inconclusive("sweep-cut-short-after-40-violations:"+e.tag(), 1)
			fmt.Printf("[%s] 40 violations reported: the rest of the sweep is skipped\n", e.tag())
		}
		return true
	}
	return false
}

// runMethodSweep: a path template must not be served under a method it was not registered
// for (the router answers 405/404 itself; anything else without credentials is an escape).
func (e *env) runMethodSweep() {
	c := e.c
	reg := map[string]map[string]bool{}
	var patterns []string
	for _, rt := range e.routes {
		if rt.PreRouter {
			continue // the prefixes ignore the method; they are judged as routes
		}
		if reg[rt.Pattern] == nil {
			reg[rt.Pattern] = map[string]bool{}
			patterns = append(patterns, rt.Pattern)
		}
		reg[rt.Pattern][rt.Method] = true
	}
	before := e.base
	for n, p := range patterns {
		for _, meth := range []string{"GET", "HEAD", "POST", "PUT", "PATCH", "DELETE", "OPTIONS", "TRACE"} {
			if reg[p][meth] || reg[p]["*"] {
				continue
			}
			req := specFor(Route{Method: meth, Pattern: p}, victimTarget(5000+n))
			resp := e.send(req)
			c.Eval(1)
			switch {
			case resp.Err != "":
				e.note("unregistered-method", vClientErr)
			case isRouterMiss(resp) || resp.Status == 405 || resp.Status == 404:
				e.note("unregistered-method", vNoRoute)
				c.Nontrivial(e.tag() + "|unregistered-method|" + meth + " " + p)
			case resp.Status == 401 || resp.Status == 403:
				e.note("unregistered-method", vRejected)
			default:
				e.note("unregistered-method", vEscaped)
				c.Violation("unregistered-method-served:"+meth+" "+p,
					fmt.Sprintf("[%s] %s %s is not in the route table but is answered without credentials: %d %q", e.tag(), meth, p, resp.Status, trunc(resp.Body, 100)),
					map[string]any{"flavour": e.tag(), "kind": "status", "case": meth + " " + p,
						"cases": []oneCase{{Cred: cred{Class: clNone, Transport: trNone, Variant: "no-credentials"}, Req: req, Resp: resp, Verdict: vEscaped}}})
			}
		}
	}
	if d := before.diff(e.takeFingerprint()); len(d) > 0 {
		c.Violation("side-effect-despite-rejection:unregistered-methods:"+diffKinds(d),
			fmt.Sprintf("[%s] requests with unregistered methods changed the state: %s", e.tag(), strings.Join(d, "; ")),
			map[string]any{"flavour": e.tag(), "kind": "side-effect", "diff": d})
		e.repair()
	}
}

// runSufficient: for every route the administrator (and the non-admin classes the route's
// need admits) must not be turned away by the authentication/authorisation layer.
func (e *env) runSufficient() {
	c := e.c
	if e.fl.LogKeeper {
		select {
		case <-tsTableReady:
		case <-time.After(2 * time.Minute):
		}
		if len(tsTable) == 0 {
			c.Inconclusive("logkeeper-sufficient-sweep-skipped:no-ts-table", 1)
			return
		}
	}
	// DELETE routes last, deeper paths first (a log stream before its repository)
	routes := append([]Route{}, e.routes...)
	sort.SliceStable(routes, func(i, j int) bool {
		di, dj := routes[i].Method == "DELETE", routes[j].Method == "DELETE"
		if di != dj {
			return dj
		}
		if di && dj {
			return len(routes[i].Pattern) > len(routes[j].Pattern)
		}
		return false
	})
	for n, rt := range routes {
		if e.fl.LogKeeper && tsTable[rt.key()] {
			continue
		}
		nd := routeNeed(rt)
		type who struct {
			class string
			t     target
		}
		ws := []who{{clAdmin, sacrificialTarget(n)}}
		for _, class := range []string{clRO, clWO, clOther} {
			if judged, deny := nd.denied(class); judged && !deny && nd != needAnon {
				t := victimTarget(1000 + n)
				if class == clOther {
					t.DB = db2
				}
				ws = append(ws, who{class, t})
			}
		}
		for _, w := range ws {
			for _, cr := range userCreds(w.class) {
				req := cr.apply(specFor(rt, w.t))
				resp := e.send(req)
				c.Eval(1)
				v := vAccepted
				fluxOff := strings.Contains(resp.Body, "Flux query service disabled")
				switch {
				case resp.Err != "":
					v = vClientErr
				case isRouterMiss(resp):
					v = vNoRoute
				case (resp.Status == 401 || resp.Status == 403) && !fluxOff && w.class != clAdmin:
					// stricter than the model: not against the property, recorded
					v = "refused-although-modelled-sufficient"
					c.Distinct("stricter-than-model-"+e.tag(), rt.key()+" ["+w.class+"]: "+trunc(resp.Body, 120))
				case (resp.Status == 401 || resp.Status == 403) && !fluxOff:
					// the administrator turned away: the rejections observed before would be vacuous
					v = "SUFFICIENT-REJECTED"
					c.Violation("administrator-rejected:"+rt.key(),
						fmt.Sprintf("[%s] %s refuses %s: %d %q", e.tag(), rt.key(), cr.key(), resp.Status, trunc(resp.Body, 120)),
						map[string]any{"flavour": e.tag(), "kind": "sufficient", "case": rt.key(), "cases": []oneCase{{Cred: cr, Req: req, Resp: resp, Verdict: v}}})
				case resp.Status/100 != 2:
					v = fmt.Sprintf("accepted-status-%dxx", resp.Status/100)
					c.Distinct("sufficient-but-not-2xx-"+e.tag(), fmt.Sprintf("%s %s -> %d %s", w.class, rt.key(), resp.Status, trunc(strings.TrimSpace(resp.Body), 70)))
				}
				e.note(w.class, v)
				if v != vClientErr && v != vNoRoute && v != "SUFFICIENT-REJECTED" && v != "refused-although-modelled-sufficient" {
					c.Nontrivial(e.tag() + "|" + rt.key() + "|" + w.class + "/" + cr.Transport + "|accepted")
				}
			}
		}
		if !e.s.Alive() {
			// requests of sufficient users really act; a crash they cause is not this property's concern
			c.Inconclusive("server-died-during-sufficient-sweep:"+e.tag()+":"+rt.key(), 1)
			fmt.Printf("INCONCLUSIVE property=C19 [%s] server died during the sufficient-credentials sweep at %s: %s\n", e.tag(), rt.key(), trunc(e.s.StdoutTail(300), 300))
			return
		}
	}
}

// replay re-executes the requests of a witness against a fresh server with the fixture.
func replay(c *vf.Ctx, bin string) {
	b, err := os.ReadFile(c.ReplayIn)
	if err != nil {
		c.Broken("replay: %v", err)
		return
	}
	var w struct {
		Signature string `json:"finding_signature"`
		Witness   struct {
			Flavour string    `json:"flavour"`
			Kind    string    `json:"kind"`
			Case    string    `json:"case"`
			Cases   []oneCase `json:"cases"`
		} `json:"witness"`
	}
	if err := json.Unmarshal(b, &w); err != nil {
		c.Broken("replay: %v", err)
		return
	}
	var fl *flavour
	for _, f := range flavours() {
		if f.Name == w.Witness.Flavour {
			f := f
			fl = &f
		}
	}
	if fl != nil && w.Witness.Kind == "life-cycle" {
		// the life-cycle phase is a fixed sequence: run it again on a fresh server
		e, err := startServer(c, bin, *fl)
		if e != nil && e.s != nil {
			defer e.s.Kill()
		}
		if err != nil {
			c.Broken("replay: %v", err)
			return
		}
		if !e.fixtureRetry() {
			return
		}
		e.runLifecycle()
		return
	}
	if fl == nil || len(w.Witness.Cases) == 0 {
		c.Broken("replay: witness has no replayable request (kind %q)", w.Witness.Kind)
		return
	}
	e, err := startServer(c, bin, *fl)
	if e != nil && e.s != nil {
		defer e.s.Kill()
	}
	if err != nil {
		c.Broken("replay: %v", err)
		return
	}
	if !e.fixtureRetry() {
		return
	}
	e.base = e.settle()
	still := false
	var lines []string
	for _, k := range w.Witness.Cases {
		r := e.send(k.Req)
		c.Eval(1)
		lines = append(lines, fmt.Sprintf("%s [%s] -> %d %q (recorded %d)", k.Req.String(), k.Cred.key(), r.Status, trunc(r.Body, 80), k.Resp.Status))
		switch w.Witness.Kind {
		case "status":
			if judgeInsufficient(k.Cred, false, r) == vEscaped {
				still = true
			}
		case "sufficient":
			if r.Status == 401 || r.Status == 403 {
				still = true
			}
		}
	}
	d := e.base.diff(e.settle())
	if w.Witness.Kind == "side-effect" && len(d) > 0 {
		still = true
	}
	sort.Strings(lines)
	for _, l := range lines {
		fmt.Println("replay:", l)
	}
	if len(d) > 0 {
		fmt.Println("replay: state change:", strings.Join(d, "; "))
	}
	if still {
		c.Violation(w.Signature, "replayed witness still violates: "+strings.Join(lines, " | "), map[string]any{"flavour": fl.Name, "kind": w.Witness.Kind, "case": w.Witness.Case, "cases": w.Witness.Cases, "state_change": d})
	} else {
		fmt.Println("replay: the witness no longer violates")
	}
}

var _ = rand.IntN
