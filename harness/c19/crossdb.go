package main

import (
	"fmt"
	"sort"
	"strings"
)

// Cross-database statements. The privilege a statement needs is a privilege on the
// database the STATEMENT names; the request's db parameter is only the default for
// statements that name none. Every case here puts the two apart: the db parameter is a
// database the user holds privileges on (or is omitted), the statement names a database
// on which the user holds nothing. All three non-admin users must be refused and the
// named database must not change. The fixture carries a retention policy (crossRP) on
// db1 and db2 so that a wrongly executed DROP RETENTION POLICY shows in the fingerprint.
const crossRP = "rpc19"

type crossKind struct {
	Kind     string
	Template string // {T} = the database the user has no privilege on
	Mutating bool   // POST only
	Core     bool
}

func crossKinds() []crossKind {
	return []crossKind{
		{Kind: "SELECT", Template: "SELECT v FROM {T}.autogen.m1 LIMIT 1", Core: true},
		{Kind: "SHOW-MEASUREMENTS-ON", Template: "SHOW MEASUREMENTS ON {T}", Core: true},
		{Kind: "SHOW-TAG-KEYS-ON", Template: "SHOW TAG KEYS ON {T}", Core: true},
		{Kind: "SHOW-RETENTION-POLICIES-ON", Template: "SHOW RETENTION POLICIES ON {T}", Core: true},
		{Kind: "SHOW-SERIES-ON", Template: "SHOW SERIES ON {T}"},
		{Kind: "SHOW-TAG-VALUES-ON", Template: "SHOW TAG VALUES ON {T} WITH KEY = host"},
		{Kind: "SHOW-FIELD-KEYS-ON", Template: "SHOW FIELD KEYS ON {T}"},
		{Kind: "SHOW-SERIES-CARDINALITY-ON", Template: "SHOW SERIES CARDINALITY ON {T}"},
		{Kind: "SHOW-MEASUREMENT-CARDINALITY-ON", Template: "SHOW MEASUREMENT CARDINALITY ON {T}"},
		{Kind: "SELECT-subquery", Template: "SELECT max(c) FROM (SELECT count(v) AS c FROM {T}.autogen.m1 GROUP BY host)"},
		// the foreign database as ONE of several sources ({O} = the database the user may read)
		{Kind: "SELECT-join-right-subquery", Template: "SELECT a.v, b.v FROM (SELECT v FROM {O}.autogen.m1 GROUP BY host) AS a INNER JOIN (SELECT v FROM {T}.autogen.m1 GROUP BY host) AS b ON a.host = b.host GROUP BY host", Core: true},
		{Kind: "SELECT-join-left-subquery", Template: "SELECT a.v, b.v FROM (SELECT v FROM {T}.autogen.m1 GROUP BY host) AS a INNER JOIN (SELECT v FROM {O}.autogen.m1 GROUP BY host) AS b ON a.host = b.host GROUP BY host", Core: true},
		{Kind: "SELECT-join-full-right-subquery", Template: "SELECT a.v, b.v FROM {O}.autogen.m1 AS a FULL JOIN (SELECT v FROM {T}.autogen.m1 GROUP BY host) AS b ON a.host = b.host GROUP BY host"},
		{Kind: "SELECT-two-sources", Template: "SELECT v FROM {O}.autogen.m1, {T}.autogen.m1 LIMIT 2", Core: true},
		{Kind: "DROP-RETENTION-POLICY", Template: "DROP RETENTION POLICY " + crossRP + " ON {T}", Mutating: true, Core: true},
		{Kind: "SELECT-INTO", Template: "SELECT v INTO {T}.autogen.m1copy FROM {T}.autogen.m1", Mutating: true, Core: true},
		{Kind: "DROP-CONTINUOUS-QUERY", Template: "DROP CONTINUOUS QUERY cqx ON {T}", Mutating: true},
	}
}

// who holds what: (class, database given as the db parameter, database named by the statement)
var crossUsers = []struct{ class, own, foreign string }{
	{clRO, db1, db2},
	{clWO, db1, db2},
	{clOther, db2, db1},
}

func (e *env) runCrossDatabase() {
	c := e.c
	n := 0
	for _, ck := range crossKinds() {
		if c.Quick() && !ck.Core {
			continue
		}
		if !e.ensureAlive("cross-database statements") || e.tooMany() {
			return
		}
		methods := []string{"POST", "GET"}
		if ck.Mutating {
			methods = []string{"POST"}
		}
		byMethod := map[string][]oneCase{}
		var rejected []oneCase
		for _, u := range crossUsers {
			text := strings.ReplaceAll(strings.ReplaceAll(ck.Template, "{T}", u.foreign), "{O}", u.own)
			for _, dbParam := range []string{u.own, ""} {
				for _, meth := range methods {
					creds := userCreds(u.class)
					if c.Quick() {
						creds = creds[n%len(creds) : n%len(creds)+1] // one transport per request, rotating
					}
					n++
					for _, cr := range creds {
						q := map[string]string{"q": text}
						variant := "db-omitted"
						if dbParam != "" {
							q["db"] = dbParam
							variant = "db=" + dbParam
						}
						req := cr.apply(request{Method: meth, Path: "/query", Query: q, Headers: map[string]string{}})
						resp := e.send(req)
						v := judgeInsufficient(cr, false, resp)
						k := oneCase{Cred: cr, Req: req, Resp: resp, Verdict: v}
						c.Eval(1)
						e.note(u.class, "cross-db:"+v)
						c.Count("cross-database-requests", 1)
						switch v {
						case vEscaped:
							byMethod[meth] = append(byMethod[meth], k)
						case vRejected:
							rejected = append(rejected, k)
							c.Nontrivial(fmt.Sprintf("%s|cross-db|%s|%s|%s|%s/%s", e.tag(), ck.Kind, meth, variant, u.class, cr.Transport))
						case vNotReached:
							c.Inconclusive("privilege-check-not-reached:cross-database "+meth+" stmt="+ck.Kind+":"+u.class, 1)
						}
					}
				}
			}
		}
		c.Distinct("cross-database-statement-kinds-"+e.tag(), ck.Kind)
		d := e.base.diff(e.takeFingerprint())
		side := ""
		if len(d) > 0 {
			side = " AND the state changed: " + strings.Join(d, "; ")
		}
		meths := make([]string, 0, len(byMethod))
		for m := range byMethod {
			meths = append(meths, m)
		}
		sort.Strings(meths)
		for _, m := range meths {
			ks := byMethod[m]
			seen := map[string]bool{}
			var who []string
			for _, k := range ks {
				if !seen[k.Cred.Class] {
					seen[k.Cred.Class] = true
					who = append(who, k.Cred.Class)
				}
			}
			sort.Strings(who)
			first := ks[0]
			if len(ks) > 6 {
				ks = ks[:6]
			}
			c.Violation("privilege-bypass:"+m+" /query stmt="+ck.Kind+":cross-database",
				fmt.Sprintf("[%s] %s was executed for %s who hold no privilege on the database the statement names (e.g. %s, %s -> %d %q)%s",
					e.tag(), ck.Kind, strings.Join(who, ", "), first.Req.String(), first.Cred.key(), first.Resp.Status, trunc(first.Resp.Body, 80), side),
				map[string]any{"flavour": e.tag(), "kind": "status", "case": m + " /query stmt=" + ck.Kind + " cross-database", "need": "privilege on the named database",
					"cases": ks, "state_change": d})
		}
		if len(d) > 0 {
			if len(byMethod) == 0 {
				if len(rejected) > 6 {
					rejected = rejected[:6]
				}
				c.Violation("side-effect-despite-rejection:POST /query stmt="+ck.Kind+":cross-database:"+diffKinds(d),
					fmt.Sprintf("[%s] cross-database %s: every request was rejected but the state changed: %s", e.tag(), ck.Kind, strings.Join(d, "; ")),
					map[string]any{"flavour": e.tag(), "kind": "side-effect", "case": "POST /query stmt=" + ck.Kind + " cross-database", "cases": rejected, "diff": d})
			} else {
				e.dirty++
			}
			e.repair()
		}
	}
}
