package main

import (
	"fmt"
	"math/rand/v2"
	"strings"
)

// Grant / revoke: "granting and revoking a privilege changes what that user may do on
// exactly that database". One user, three databases; after every GRANT/REVOKE the
// allowed/denied matrix (read probe = SELECT, write probe = POST /write) is measured on
// all databases:
//   - rows of the other databases must not change;
//   - on the named database, after GRANT p the operations p covers are allowed, after
//     REVOKE p they are denied (what happens to the privilege that was not named is not
//     judged: GRANT replaces, REVOKE subtracts, and the documentation leaves that open).
type cell struct{ Read, Write bool }

var grantDBs = []string{"gdb0", "gdb1", "gdb2"}

func (e *env) probeMatrix(tr string) (map[string]cell, []oneCase, bool) {
	m := map[string]cell{}
	var log []oneCase
	okAll := true
	cr := identity("grantee", grantUser, userPass, []string{tr})[0]
	for i, db := range grantDBs {
		rq := cr.apply(request{Method: "GET", Path: "/query", Query: map[string]string{"db": db, "q": "SELECT count(v) FROM m1"}, Headers: map[string]string{}})
		rr := e.send(rq)
		wq := cr.apply(request{Method: "POST", Path: "/write", Query: map[string]string{"db": db}, Headers: map[string]string{}})
		setBody(&wq, []byte(fmt.Sprintf("m1,host=h0 v=7 %d\n", int64(1700000300+i)*1e9)), "text/plain")
		wr := e.send(wq)
		e.c.Eval(2)
		var c cell
		decide := func(r response, okStatus int) (allowed, clear bool) {
			switch {
			case r.Status == okStatus && !bodyOnlyErrors(r.Body):
				return true, true
			case r.Status == 401 || r.Status == 403:
				return false, true
			}
			return false, false
		}
		var c1, c2 bool
		c.Read, c1 = decide(rr, 200)
		c.Write, c2 = decide(wr, 204)
		if !c1 || !c2 {
			okAll = false
		}
		m[db] = c
		log = append(log, oneCase{Cred: cr, Req: rq, Resp: rr}, oneCase{Cred: cr, Req: wq, Resp: wr})
	}
	return m, log, okAll
}

func (e *env) runGrants(rnd *rand.Rand, steps int) {
	c := e.c
	for _, db := range grantDBs {
		if _, err := e.adminQ("", "CREATE DATABASE "+db); err != nil {
			c.Broken("[%s] grant fixture: %v", e.tag(), err)
			return
		}
		if w := e.s.Write(db, "m1,host=h0 v=1 1700000000000000000\n", e.admin); !w.Acked() {
			c.Broken("[%s] grant fixture write: %d %s", e.tag(), w.Status, w.Body)
			return
		}
		_, _ = e.adminQ("", fmt.Sprintf("REVOKE ALL ON %s FROM %s", db, grantUser))
	}
	trs := []string{trBasic, trParams, trBearer, trToken}
	prev, _, ok := e.probeMatrix(trBasic)
	if !ok {
		c.Inconclusive("grant-matrix-unclear-answer:"+e.tag(), 1)
	}
	for db, cl := range prev {
		if cl.Read || cl.Write {
			c.Violation("grant-matrix:initial:"+db, fmt.Sprintf("[%s] user without any grant may act on %s: %+v", e.tag(), db, cl), map[string]any{"flavour": e.tag(), "kind": "grant"})
		}
	}
	privs := []string{"READ", "WRITE", "ALL"}
	var history []string
	for i := 0; i < steps; i++ {
		db := grantDBs[rnd.IntN(len(grantDBs))]
		p := privs[rnd.IntN(len(privs))]
		grant := rnd.IntN(3) != 0
		var q string
		if grant {
			q = fmt.Sprintf("GRANT %s ON %s TO %s", p, db, grantUser)
		} else {
			q = fmt.Sprintf("REVOKE %s ON %s FROM %s", p, db, grantUser)
		}
		history = append(history, q)
		if _, err := e.adminQ("", q); err != nil {
			// revoking what is not held may be refused: not a verdict
			c.Count("grant-step-refused", 1)
			history[len(history)-1] += " (refused: " + trunc(err.Error(), 60) + ")"
			continue
		}
		tr := trs[rnd.IntN(len(trs))]
		cur, log, ok := e.probeMatrix(tr)
		if !ok {
			c.Inconclusive("grant-matrix-unclear-answer:"+e.tag(), 1)
			prev = cur
			continue
		}
		c.Count("grant-steps", 1)
		c.Distinct("grant-ops", strings.Fields(q)[0]+" "+p)
		c.Nontrivial(fmt.Sprintf("%s|grant-step|%s|%s", e.tag(), strings.Fields(q)[0]+" "+p, tr))
		wit := map[string]any{"flavour": e.tag(), "kind": "grant", "history": append([]string{}, history...), "before": prev, "after": cur, "probes": log}
		for _, other := range grantDBs {
			if other != db && prev[other] != cur[other] {
				c.Violation("grant-matrix:other-database-changed:"+strings.Fields(q)[0]+" "+p,
					fmt.Sprintf("[%s] %q changed what %s may do on %s: %+v -> %+v", e.tag(), q, grantUser, other, prev[other], cur[other]), wit)
			}
		}
		got := cur[db]
		covR, covW := p == "READ" || p == "ALL", p == "WRITE" || p == "ALL"
		bad := ""
		if grant {
			if covR && !got.Read {
				bad = "read still denied after GRANT"
			}
			if covW && !got.Write {
				bad = "write still denied after GRANT"
			}
		} else {
			if covR && got.Read {
				bad = "read still allowed after REVOKE"
			}
			if covW && got.Write {
				bad = "write still allowed after REVOKE"
			}
		}
		if bad != "" {
			c.Violation("grant-matrix:"+strings.Fields(q)[0]+" "+p+":"+bad,
				fmt.Sprintf("[%s] after %q on %s: %s (matrix %+v)", e.tag(), q, db, bad, got), wit)
		}
		prev = cur
	}
}
