package main

import (
	"fmt"
	"os"
	"time"
	"verifharness/proc"
)

func main() {
	dir := "/var/tmp/verif-scratch/c14x"

	bin, err := proc.Build("/repo", dir, "ts-server", false)
	if err != nil { fmt.Println(err); os.Exit(2) }
	lazy := os.Getenv("LAZY") != ""
	ex := map[string][]string{"retention": {`check-interval = "1s"`}}
	if lazy { ex["data"] = []string{"lazy-load-shard-enable = true"} }
	s := proc.New(proc.Config{Bin: bin, Dir: dir + "/srv", IP: "127.24.99.1", Extra: ex, PtNum: 2})
	if err := s.Start(); err != nil { fmt.Println(err); os.Exit(2) }
	defer s.Kill()
	if err := s.WaitReady(60 * time.Second); err != nil { fmt.Println(err); os.Exit(2) }
	fmt.Println("ready", s.URL(), s.Pid())
	for {
		time.Sleep(time.Second)
		if _, err := os.Stat(dir + "/restart"); err == nil {
			os.Remove(dir + "/restart")
			s.Kill(); s.Start(); fmt.Println("restarted", s.WaitReady(60*time.Second))
		}
		if _, err := os.Stat(dir + "/stop"); err == nil { return }
	}
}
