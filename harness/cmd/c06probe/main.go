package main

import (
	"fmt"
	"os"
	"time"
	"verifharness/proc"
)

func main() {
	dir := "/var/tmp/c06probe/s0"
	os.RemoveAll(dir)
	s := proc.New(proc.Config{Bin: "/var/tmp/c06probe/bin/ts-server", Dir: dir, IP: "127.16.99.1"})
	if err := s.Start(); err != nil { fmt.Println(err); os.Exit(2) }
	defer s.Kill()
	if err := s.WaitReady(60 * time.Second); err != nil { fmt.Println(err); os.Exit(2) }
	_, err := s.Query("", "CREATE DATABASE db0", nil)
	fmt.Println("ready", s.URL(), err)
	time.Sleep(3 * time.Hour)
}
