package main

import (
	"fmt"
	"os"
	"time"
	"verifharness/proc"
)

func main() {
	dir := "/var/tmp/c06probe/s1"
	os.RemoveAll(dir)
	bin, err := proc.Build("/repo", "/var/tmp/c06probe/b1", "ts-server", false)
	if err != nil { fmt.Println(err); os.Exit(2) }
	s := proc.New(proc.Config{Bin: bin, Dir: dir, IP: "127.16.99.2"})
	if err := s.Start(); err != nil { fmt.Println(err); os.Exit(2) }
	defer s.Kill()
	if err := s.WaitReady(180 * time.Second); err != nil { fmt.Println(err); os.Exit(2) }
	_, err = s.Query("", "CREATE DATABASE db0", nil)
	fmt.Println("ready", s.URL(), err)
	time.Sleep(2 * time.Hour)
}
