package main

import (
	"fmt"
	"os"
	"strconv"
	"time"
	"verifharness/proc"
)

// throw-away: start a ts-server and keep it up. args: ptnum ipworker
func main() {
	pt, _ := strconv.Atoi(os.Args[1])
	w, _ := strconv.Atoi(os.Args[2])
	repo := os.Getenv("VERIF_REPO")
	if repo == "" {
		repo = "/repo"
	}
	dir := fmt.Sprintf("/var/tmp/verif-scratch/c08probe-%d", w)
	bin, err := proc.Build(repo, dir+"-bin", "ts-server", false)
	if err != nil {
		fmt.Println(err)
		os.Exit(2)
	}
	os.RemoveAll(dir)
	s := proc.New(proc.Config{Bin: bin, Dir: dir, IP: fmt.Sprintf("127.18.%d.77", w), PtNum: pt, BGOff: true,
		Extra: map[string][]string{"data.memtable": {`write-cold-duration = "1h"`, `force-snapShot-duration = "1h"`}}})
	if err := s.Start(); err != nil {
		fmt.Println(err)
		os.Exit(2)
	}
	defer s.Kill()
	if err := s.WaitReady(180 * time.Second); err != nil {
		fmt.Println(err)
		os.Exit(2)
	}
	_, err = s.Query("", "CREATE DATABASE db0", nil)
	fmt.Println("READY", s.URL(), s.CtlURL(), err)
	time.Sleep(6 * time.Hour)
}
