package main

import (
	"fmt"
	"os"
	"time"
	"verifharness/proc"
)

func main() {
	bin, err := proc.Build("/repo", "/var/tmp/verif-scratch/smoke", "ts-server", false)
	if err != nil { fmt.Println(err); os.Exit(2) }
	dir := "/var/tmp/verif-scratch/smoke"
	os.RemoveAll(dir)
	s := proc.New(proc.Config{Bin: bin, Dir: dir, IP: proc.IP(0, 0), FS: true, FSMatch: "/data/"})
	t0 := time.Now()
	if err := s.Start(); err != nil { fmt.Println(err); os.Exit(2) }
	defer s.Kill()
	if err := s.WaitReady(60 * time.Second); err != nil { fmt.Println(err); os.Exit(2) }
	fmt.Println("ready in", time.Since(t0))
	_, err = s.Query("", "CREATE DATABASE db0", nil)
	fmt.Println("create:", err)
	w := s.Write("db0", "m,host=a v=1i,f=2.5 1000000000\nm,host=b v=2i 2000000000", nil)
	fmt.Println("write:", w.Status, w.Body, w.Err)
	for i := 0; i < 50; i++ {
		r, err := s.Query("db0", "SELECT * FROM m GROUP BY *", nil)
		if err == nil && len(r.Results) > 0 && len(r.Results[0].Series) == 2 { fmt.Println("visible after", i, r.Raw); break }
		time.Sleep(100 * time.Millisecond)
	}
	st, err := s.State("")
	fmt.Printf("state: %+v %v\n", st, err)
	fmt.Println("flush:", s.Flush())
	st, _ = s.State("")
	fmt.Printf("state: %+v\n", st)
	fmt.Println("compact:", s.Compact("level"), s.Compact("full"), s.Merge())
	s.Kill()
	t0 = time.Now()
	s.Start()
	fmt.Println("restart ready:", s.WaitReady(60*time.Second), time.Since(t0))
	for i := 0; i < 100; i++ {
		r, err := s.Query("db0", "SELECT * FROM m GROUP BY *", nil)
		if err != nil || len(r.Results[0].Series) == 2 { fmt.Println("after restart visible at", i, time.Since(t0), r.Raw, err); break }
		time.Sleep(100 * time.Millisecond)
	}
	st, _ = s.State("")
	fmt.Printf("state: %+v\n", st)
}
