package main

import (
	"fmt"
	"os"
	"time"
	"verifharness/proc"
)

func main() {
	dir := "/var/tmp/verif-scratch/csmoke"
	os.RemoveAll(dir)
	c, err := proc.NewCluster("/repo", dir, dir, "127.9.8", false, nil)
	if err != nil { fmt.Println(err); os.Exit(2) }
	defer c.KillAll()
	t0 := time.Now()
	err = c.StartAll(90 * time.Second)
	fmt.Println("start:", err, time.Since(t0))
	res, err := c.Front.Query("", "SHOW CLUSTER", nil)
	if res != nil { fmt.Println(res.Raw) }
	for _, q := range []string{"CREATE DATABASE r3 REPLICAS 3", "CREATE DATABASE r3b WITH REPLICANUM 3"} {
		r, err := c.Front.Query("", q, nil)
		fmt.Println(q, "=>", err); if r != nil { fmt.Println(r.Raw) }
	}
	for i := 0; i < 40; i++ {
		w := c.Front.Write("r3", fmt.Sprintf("m,host=a v=%di %d\n", i, 1700000000000000000+int64(i)*1000000000), nil)
		if w.Acked() { fmt.Println("first ack at try", i); break }
		if i%5 == 0 { fmt.Println("write:", w.Status, w.Body, w.Err) }
		time.Sleep(500 * time.Millisecond)
	}
	time.Sleep(3 * time.Second)
	r, err := c.Front.Query("r3", "SELECT * FROM m GROUP BY *", nil)
	fmt.Println(err); if r != nil { fmt.Println(r.Raw) }
	for i := 0; i < 3; i++ {
		st, err := c.StoreState(i)
		fmt.Println("store", i, err, st["partitions"])
	}
}
