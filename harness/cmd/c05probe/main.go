// c05probe — small deterministic reproducers for the C05 findings (replicated database,
// 3 meta / 3 store / 1 sql on loopback). Usage: c05probe <scenario> [repo]
//
//	flushkill   a store is SIGKILLed while a memtable flush is in progress (after the raft
//	            snapshot index was advanced, before the TSSP file exists); after it is
//	            restarted and becomes master again, acknowledged points are gone
//	replayrace  a follower is down during an overwrite, restarts (local raft-log replay runs
//	            concurrently with the application of the entries it catches up), later
//	            becomes master: the overwritten (old) value is served
//	stale       reads right after the leader was killed (served by a replica that has not
//	            applied the last acknowledged entries yet)
//	meta        only print the meta data view (replica groups, pt view)
package main

import (
	"encoding/json"
	"fmt"
	"io"
	"net/http"
	"os"
	"sort"
	"strings"
	"sync"
	"time"

	"verifharness/proc"
)

const db = "r3"

type cluster struct{ *proc.Cluster }

func logf(f string, a ...any) {
	fmt.Printf("%s  %s\n", time.Now().Format("15:04:05.000"), fmt.Sprintf(f, a...))
}

// raftLeader: index of the store whose control port reports raft leadership for db (-1 none).
func (c cluster) raftLeader(skip int) int {
	for i := 0; i < 3; i++ {
		if i == skip || !c.Stores[i].Alive() {
			continue
		}
		st, err := c.StoreState(i)
		if err != nil {
			continue
		}
		pts, _ := st["partitions"].([]any)
		for _, p := range pts {
			m, _ := p.(map[string]any)
			if m["db"] == db && m["leader"] == true {
				return i
			}
		}
	}
	return -1
}

type metaView struct {
	MasterPt  int
	Status    int
	Peers     []int       // slave pt ids in election order
	PtOwner   map[int]int // pt -> store index
	PtStatus  map[int]int
	MasterIdx int // store index owning the master pt
	Raw       string
}

// meta reads replica groups and the pt view from a ts-meta node's /getdata.
func (c cluster) meta() (*metaView, error) {
	var last error
	for i := 0; i < 3; i++ {
		resp, err := http.Get("http://" + c.Metas[i].IP + ":8091/getdata")
		if err != nil {
			last = err
			continue
		}
		b, _ := io.ReadAll(resp.Body)
		resp.Body.Close()
		var d map[string]any
		if err := json.Unmarshal(b, &d); err != nil {
			last = fmt.Errorf("%v: %.200s", err, b)
			continue
		}
		mv := &metaView{PtOwner: map[int]int{}, PtStatus: map[int]int{}, MasterIdx: -1}
		nodeIdx := map[int]int{}
		if dn, ok := d["DataNodes"].([]any); ok {
			for _, n := range dn {
				m, _ := n.(map[string]any)
				id := int(num(m["ID"]))
				host := fmt.Sprint(m["Host"])
				for si := 0; si < 3; si++ {
					if strings.HasPrefix(host, c.Stores[si].IP+":") {
						nodeIdx[id] = si
					}
				}
			}
		}
		if pv, ok := d["PtView"].(map[string]any); ok {
			if l, ok := pv[db].([]any); ok {
				for _, p := range l {
					m, _ := p.(map[string]any)
					o, _ := m["Owner"].(map[string]any)
					pt := int(num(m["PtId"]))
					mv.PtOwner[pt] = nodeIdx[int(num(o["NodeID"]))]
					mv.PtStatus[pt] = int(num(m["Status"]))
				}
			}
		}
		if rg, ok := d["ReplicaGroups"].(map[string]any); ok {
			if l, ok := rg[db].([]any); ok && len(l) > 0 {
				m, _ := l[0].(map[string]any)
				mv.MasterPt = int(num(m["MasterPtID"]))
				mv.Status = int(num(m["Status"]))
				if ps, ok := m["Peers"].([]any); ok {
					for _, p := range ps {
						pm, _ := p.(map[string]any)
						mv.Peers = append(mv.Peers, int(num(pm["ID"])))
					}
				}
				mv.MasterIdx = mv.PtOwner[mv.MasterPt]
			}
		}
		keys := make([]string, 0, len(d))
		for k := range d {
			keys = append(keys, k)
		}
		sort.Strings(keys)
		mv.Raw = strings.Join(keys, ",")
		return mv, nil
	}
	return nil, last
}

func num(v any) float64 {
	switch x := v.(type) {
	case float64:
		return x
	case json.Number:
		f, _ := x.Float64()
		return f
	}
	return -1
}

func (m *metaView) String() string {
	return fmt.Sprintf("masterPt=%d(store%d) rgStatus=%d slavePeers=%v ptOwner=%v ptStatus=%v", m.MasterPt, m.MasterIdx+1, m.Status, m.Peers, m.PtOwner, m.PtStatus)
}

func (c cluster) write(lines string) bool {
	for i := 0; i < 80; i++ {
		r := c.Front.Write(db, lines, nil)
		if r.Acked() {
			return true
		}
		logf("  write not acknowledged (status %d err %v body %.120s); retry", r.Status, r.Err, r.Body)
		time.Sleep(500 * time.Millisecond)
	}
	logf("write never acknowledged")
	return false
}

// read returns k -> v of measurement m (tag k, field v), or an error string.
func (c cluster) read() (map[string]int64, string) {
	r, err := c.Front.Query(db, "SELECT v FROM m GROUP BY *", nil)
	if err != nil {
		return nil, "ERR " + err.Error()
	}
	out := map[string]int64{}
	for _, res := range r.Results {
		for _, se := range res.Series {
			for _, row := range se.Values {
				var v int64
				fmt.Sscan(fmt.Sprint(row[1]), &v)
				out[se.Tags["k"]+"@"+fmt.Sprint(row[0])] = v
			}
		}
	}
	return out, ""
}

func (c cluster) waitReady(i int) bool {
	for t := 0; t < 240; t++ {
		if st, err := c.StoreState(i); err == nil && st["ready"] == true {
			pts, _ := st["partitions"].([]any)
			for _, p := range pts {
				if m, _ := p.(map[string]any); m["db"] == db && m["raft"] == true {
					return true
				}
			}
		}
		time.Sleep(500 * time.Millisecond)
	}
	return false
}

// waitMaster waits until meta names a master pt on a live store different from `not`.
func (c cluster) waitMaster(not int) *metaView {
	var mv *metaView
	for t := 0; t < 120; t++ {
		m, err := c.meta()
		if err == nil {
			mv = m
			if m.MasterIdx >= 0 && m.MasterIdx != not && c.Stores[m.MasterIdx].Alive() {
				return m
			}
		}
		time.Sleep(500 * time.Millisecond)
	}
	return mv
}

func summary(m map[string]int64, errs string) string {
	if errs != "" {
		return errs
	}
	return fmt.Sprintf("%d points", len(m))
}

func main() {
	scenario := os.Args[1]
	repo := "/repo"
	if len(os.Args) > 2 {
		repo = os.Args[2]
	}
	dir := fmt.Sprintf("/var/tmp/verif-scratch/c05probe-%s-%d", scenario, os.Getpid())
	os.RemoveAll(dir)
	base := fmt.Sprintf("127.9.%d", os.Getpid()%200+20)
	pc, err := proc.NewCluster(repo, dir, dir, base, false, nil)
	if err != nil {
		fmt.Println(err)
		os.Exit(2)
	}
	c := cluster{pc}
	defer func() {
		c.KillAll()
		if os.Getenv("VERIF_KEEP_SCRATCH") == "" {
			os.RemoveAll(dir)
		} else {
			logf("scratch kept: %s", dir)
		}
	}()
	if err := c.StartAll(180 * time.Second); err != nil {
		fmt.Println(err)
		return
	}
	c.Front.HTTP.Timeout = 25 * time.Second
	if _, err := c.Front.Query("", "CREATE DATABASE "+db+" REPLICAS 3", nil); err != nil {
		fmt.Println("create database:", err)
		return
	}
	const T0 = int64(1_700_000_000) * 1_000_000_000
	pt := func(k string, ti int, v int64) string {
		return fmt.Sprintf("m,k=%s v=%di %d\n", k, v, T0+int64(ti)*1_000_000_000)
	}
	if !c.write(pt("warm", 0, 1)) {
		return
	}
	time.Sleep(3 * time.Second)
	mv, err := c.meta()
	if err != nil {
		fmt.Println("meta:", err)
		return
	}
	logf("meta keys: %s", mv.Raw)
	logf("meta: %v; raft leader: store%d", mv, c.raftLeader(-1)+1)
	switch scenario {
	case "meta":
		return

	case "flushkill":
		// 1. 20 acknowledged points, applied everywhere
		for i := 0; i < 20; i++ { // 20 separate requests = 20 raft entries
			if !c.write(pt("a", i, int64(100+i))) {
				return
			}
		}
		time.Sleep(2 * time.Second)
		got, e := c.read()
		logf("after 20 acknowledged points: read: %s", summary(got, e))
		// 2. the master's store X is killed inside writeSnapshot: after the WAL switch (the raft
		// snapshot index has been advanced through RaftFlushC) and before the file is written
		x := mv.MasterIdx
		logf("store%d (master pt %d): park the flush after the memtable switch, then SIGKILL", x+1, mv.MasterPt)
		_ = c.StoreCtl(x, "POST", "/verif/points", "flush-after-index-flush=sleep(8000)")
		go c.StoreCtl(x, "POST", "/verif/flush", "")
		time.Sleep(2 * time.Second)
		c.Stores[x].Kill()
		m2 := c.waitMaster(x)
		logf("meta after kill: %v", m2)
		if !c.write(pt("b", 0, 1)) {
			return
		}
		got, e = c.read()
		logf("one store down, read from the new master: %s", summary(got, e))
		// 3. restart X, let it catch up
		_ = c.Stores[x].Start()
		if !c.waitReady(x) {
			logf("store did not come back")
			return
		}
		time.Sleep(10 * time.Second)
		m3, _ := c.meta()
		logf("store%d restarted; meta: %v", x+1, m3)
		// 4. kill the current master until X is master again (at most 3 rounds; one store down at a time)
		for round := 0; round < 3; round++ {
			cur, _ := c.meta()
			if cur.MasterIdx == x {
				break
			}
			k := cur.MasterIdx
			logf("kill current master store%d", k+1)
			c.Stores[k].Kill()
			m4 := c.waitMaster(k)
			logf("meta: %v", m4)
			c.write(pt("b", 1+round, 1))
			got, e = c.read()
			logf("read while store%d is down (master store%d): %s", k+1, m4.MasterIdx+1, summary(got, e))
			if m4.MasterIdx == x {
				n := 0
				for i := 0; i < 20; i++ {
					if _, ok := got[fmt.Sprintf("a@%d", T0+int64(i)*1_000_000_000)]; !ok {
						n++
					}
				}
				logf("RESULT flushkill: %d of the 20 acknowledged points are missing when the restarted store serves", n)
			}
			_ = c.Stores[k].Start()
			c.waitReady(k)
			time.Sleep(8 * time.Second)
		}

	case "replayrace":
		// filler entries make the local replay of the restarted follower long
		f := -1
		if len(mv.Peers) > 0 {
			f = mv.PtOwner[mv.Peers[0]] // first slave peer: becomes master when the master dies
		}
		logf("follower under test: store%d", f+1)
		// 16 concurrent writers, one point per request = one raft entry each
		nFill := 30000
		if v := os.Getenv("C05_FILL"); v != "" {
			fmt.Sscan(v, &nFill)
		}
		var wg sync.WaitGroup
		for g := 0; g < 16; g++ {
			wg.Add(1)
			go func(g int) {
				defer wg.Done()
				for i := g; i < nFill; i += 16 {
					c.Front.Write(db, pt(fmt.Sprintf("fill%d", g), i, int64(i)), nil)
				}
			}(g)
		}
		wg.Wait()
		logf("%d filler entries written", nFill)
		// keys K0..K9 = 1 (old value), last entries before the kill
		for i := 0; i < 10; i++ {
			c.write(pt(fmt.Sprintf("K%d", i), 0, 1))
		}
		time.Sleep(time.Second)
		logf("kill follower store%d", f+1)
		c.Stores[f].Kill()
		time.Sleep(time.Second)
		for i := 0; i < 10; i++ {
			c.write(pt(fmt.Sprintf("K%d", i), 0, 2)) // overwrite while the follower is down
		}
		got, e := c.read()
		logf("after overwrite (follower down): K0=%d K9=%d %s", got[fmt.Sprintf("K0@%d", T0)], got[fmt.Sprintf("K9@%d", T0)], e)
		_ = c.Stores[f].Start()
		if !c.waitReady(f) {
			logf("follower did not come back")
			return
		}
		time.Sleep(12 * time.Second)
		cur, _ := c.meta()
		logf("follower restarted; meta: %v", cur)
		k := cur.MasterIdx
		logf("kill master store%d", k+1)
		c.Stores[k].Kill()
		m4 := c.waitMaster(k)
		logf("meta: %v", m4)
		c.write(pt("b", 0, 1))
		got, e = c.read()
		old := 0
		for i := 0; i < 10; i++ {
			if got[fmt.Sprintf("K%d@%d", i, T0)] != 2 {
				old++
			}
		}
		logf("RESULT replayrace: master store%d (restarted follower: %v): %d of 10 overwritten keys read back with a value != 2; %s", m4.MasterIdx+1, m4.MasterIdx == f, old, summary(got, e))

	case "coldshard":
		// two shards of one partition share the raft log: the cold one is flushed (raft snapshot
		// index advances) while the hot one still holds unflushed rows of earlier entries
		const month = 30 * 24 * 3600
		x := mv.MasterIdx
		for i := 0; i < 5; i++ {
			if !c.write(pt("cold", i, int64(100+i))) {
				return
			}
		}
		nHot := 0
		start := time.Now()
		for time.Since(start) < 9*time.Second { // keeps the hot shard hot; the cold one is flushed after 5 s
			if !c.write(pt("hot", month+nHot, int64(200+nHot))) {
				return
			}
			nHot++
			time.Sleep(400 * time.Millisecond)
		}
		got, e := c.read()
		logf("%d hot points acknowledged over 9 s; read: %s", nHot, summary(got, e))
		logf("SIGKILL master store%d", x+1)
		c.Stores[x].Kill()
		m2 := c.waitMaster(x)
		logf("meta after kill: %v", m2)
		c.write(pt("b", 0, 1))
		_ = c.Stores[x].Start()
		if !c.waitReady(x) {
			logf("store did not come back")
			return
		}
		time.Sleep(10 * time.Second)
		for round := 0; round < 3; round++ {
			cur, _ := c.meta()
			if cur.MasterIdx == x {
				break
			}
			k := cur.MasterIdx
			logf("kill current master store%d", k+1)
			c.Stores[k].Kill()
			m4 := c.waitMaster(k)
			c.write(pt("b", 1+round, 1))
			got, e = c.read()
			if m4.MasterIdx == x {
				n := 0
				for i := 0; i < nHot; i++ {
					if _, ok := got[fmt.Sprintf("hot@%d", T0+int64(month+i)*1_000_000_000)]; !ok {
						n++
					}
				}
				logf("RESULT coldshard: %d of the %d acknowledged points of the hot shard are missing when the restarted store serves (%s)", n, nHot, summary(got, e))
			}
			_ = c.Stores[k].Start()
			c.waitReady(k)
			time.Sleep(8 * time.Second)
		}

	case "newshard":
		// every point opens a new shard group (one per 30 days back); no fault before the kill
		const month = 30 * 24 * 3600
		n := 12
		for i := 1; i <= n; i++ {
			if !c.write(pt("g", -i*month, int64(i))) {
				return
			}
		}
		time.Sleep(3 * time.Second)
		got, e := c.read()
		logf("%d points acknowledged, each in a shard group of its own; read from the master: %s", n, summary(got, e))
		for round := 0; round < 2; round++ {
			cur, _ := c.meta()
			k := cur.MasterIdx
			logf("kill master store%d", k+1)
			c.Stores[k].Kill()
			m4 := c.waitMaster(k)
			c.write(pt("b", round, 1))
			got, e = c.read()
			miss := 0
			for i := 1; i <= n; i++ {
				if _, ok := got[fmt.Sprintf("g@%d", T0-int64(i*month)*1_000_000_000)]; !ok {
					miss++
				}
			}
			logf("RESULT newshard: master store%d (never restarted): %d of %d acknowledged points missing (%s)", m4.MasterIdx+1, miss, n, summary(got, e))
			_ = c.Stores[k].Start()
			c.waitReady(k)
			time.Sleep(8 * time.Second)
		}

	case "pausehang":
		// a store is stopped (SIGSTOP), not killed: are writes accepted again?
		for round := 0; round < 5; round++ {
			cur, _ := c.meta()
			x := cur.MasterIdx
			logf("round %d: SIGSTOP master store%d (raft leader store%d)", round, x+1, c.raftLeader(-1)+1)
			c.Stores[x].Pause()
			m2 := c.waitMaster(x)
			time.Sleep(3 * time.Second)
			logf("  meta: %v; raft leader now store%d", m2, c.raftLeader(x)+1)
			okN, failN := 0, 0
			start := time.Now()
			for i := 0; i < 6; i++ {
				t0 := time.Now()
				r := c.Front.Write(db, pt("p", round*100+i, 1), nil)
				if r.Acked() {
					okN++
				} else {
					failN++
					logf("  write %d not acknowledged after %.1fs: status %d %.100s", i, time.Since(t0).Seconds(), r.Status, strings.TrimSpace(r.Body))
				}
			}
			logf("  RESULT pausehang round %d: master store%d, raft leader store%d, %d writes acknowledged, %d not, in %.1fs", round, m2.MasterIdx+1, c.raftLeader(x)+1, okN, failN, time.Since(start).Seconds())
			c.Stores[x].Resume()
			time.Sleep(12 * time.Second)
		}

	case "lww":
		// no fault at all: overwrite across flush generations on every replica
		K := func(v int64) string {
			var b strings.Builder
			for i := 0; i < 10; i++ {
				b.WriteString(pt(fmt.Sprintf("K%d", i), 0, v))
			}
			return b.String()
		}
		check := func(label string, want int64) {
			got, e := c.read()
			bad := 0
			for i := 0; i < 10; i++ {
				if got[fmt.Sprintf("K%d@%d", i, T0)] != want {
					bad++
				}
			}
			logf("%s: %d of 10 keys differ from %d (%s)", label, bad, want, summary(got, e))
		}
		flushAll := func() {
			for i := 0; i < 3; i++ {
				if err := c.StoreCtl(i, "POST", "/verif/flush", ""); err != nil {
					logf("flush store%d: %v", i+1, err)
				}
			}
		}
		c.write(K(1))
		time.Sleep(time.Second)
		check("after v1", 1)
		flushAll()
		check("after v1 + flush", 1)
		c.write(K(2))
		check("after v2", 2)
		flushAll()
		check("after v2 + flush", 2)
		c.write(pt("other", 5, 1))
		check("after v2 + flush + other write", 2)
		c.write(K(3))
		check("after v3 (memtable over two files)", 3)
		flushAll()
		check("after v3 + flush", 3)
		time.Sleep(8 * time.Second)
		check("8 s later", 3)
		for i := 0; i < 3; i++ {
			_ = c.StoreCtl(i, "POST", "/verif/merge?full=1", "")
		}
		check("after out-of-order merge", 3)
		c.write(K(4))
		check("after v4", 4)
		k := mv.MasterIdx
		c.Stores[k].Kill()
		m4 := c.waitMaster(k)
		logf("master killed; meta: %v", m4)
		c.write(pt("other", 6, 1))
		check("after master kill", 4)

	case "stale":
		k := mv.MasterIdx
		n := 0
		for round := 0; round < 30; round++ {
			if !c.write(pt("s", round, int64(round+1))) {
				return
			}
			n++
		}
		// last acknowledged write, then kill the master immediately and read
		c.write(pt("s", 1000, 7))
		c.Stores[k].Kill()
		logf("last write acknowledged; master store%d killed", k+1)
		for i := 0; i < 24; i++ {
			logf("read %d starts", i)
			got, e := c.read()
			_, has := got[fmt.Sprintf("s@%d", T0+1000*1_000_000_000)]
			logf("read %d after master kill: %s, last acknowledged point present: %v", i, summary(got, e), has)
			if !has {
				r, err := c.Front.Query(db, "SELECT v FROM m WHERE k='s' AND time >= 1700000029000000000 GROUP BY *", nil)
				if r != nil {
					logf("   raw (status %d, err %v): %s", r.Status, err, strings.TrimSpace(r.Raw))
				}
			}
			time.Sleep(250 * time.Millisecond)
		}
	}
}
