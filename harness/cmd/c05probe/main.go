package main

import (
	"fmt"
	"os"
	"time"
	"verifharness/proc"
)

func leader(c *proc.Cluster, skip int) int {
	for i := 0; i < 3; i++ {
		if i == skip { continue }
		st, err := c.StoreState(i)
		if err != nil { continue }
		pts, _ := st["partitions"].([]any)
		for _, p := range pts {
			m := p.(map[string]any)
			if m["db"] == "r3" && m["leader"] == true { return i }
		}
	}
	return -1
}

func read(c *proc.Cluster) string {
	r, err := c.Front.Query("r3", "SELECT v FROM m GROUP BY *", nil)
	if err != nil { return "ERR " + err.Error() }
	return r.Raw
}

func main() {
	variant := os.Args[1]
	dir := "/var/tmp/verif-scratch/c05probe-" + variant
	os.RemoveAll(dir)
	c, err := proc.NewCluster("/repo", dir, dir, "127.9.7", false, nil)
	if err != nil { fmt.Println(err); os.Exit(2) }
	defer c.KillAll()
	if err := c.StartAll(120 * time.Second); err != nil { fmt.Println(err); os.Exit(2) }
	c.Front.Query("", "CREATE DATABASE r3 REPLICAS 3", nil)
	w := func(v int) { for i := 0; i < 60; i++ { if c.Front.Write("r3", fmt.Sprintf("m,host=a v=%di 1700000002000000000\nm,host=a x=%di %d\n", v, v, 1700000100000000000+int64(v)*1000000000), nil).Acked() { return }; time.Sleep(500*time.Millisecond) }; fmt.Println("write never acked") }
	w(1)
	time.Sleep(4 * time.Second)
	fmt.Println("after v1:", read(c))
	L := leader(c, -1)
	F := (L + 1) % 3
	fmt.Println("leader", L, "follower victim", F)
	if variant == "A" { // kill F before overwrite
		c.Stores[F].Kill()
		time.Sleep(time.Second)
		w(2)
		fmt.Println("after v2 (F down):", read(c))
		c.Stores[F].Start()
	} else {
		w(2)
		fmt.Println("after v2:", read(c))
		c.Stores[F].Kill()
		time.Sleep(2 * time.Second)
		c.Stores[F].Start()
	}
	for i := 0; i < 120; i++ { if st, err := c.StoreState(F); err == nil && st["ready"] == true { break }; time.Sleep(500*time.Millisecond) }
	time.Sleep(8 * time.Second)
	fmt.Println("F back; read:", read(c), "leader now", leader(c, -1))
	L = leader(c, -1)
	c.Stores[L].Kill()
	for i := 0; i < 20; i++ { time.Sleep(2 * time.Second); fmt.Println("after leader kill: leader", leader(c, L), read(c)) ; if i >= 3 { break } }
	w(3)
	fmt.Println("after v3:", read(c))
}
