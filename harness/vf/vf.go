// Package vf is the shared runtime of every check: tier/seed handling, coverage
// counters, known-finding matching, witness files, the evidence writer and the exit
// code discipline (0 held on what was observed, 1 violation, 2 machinery broken).
package vf

import (
	"encoding/json"
	"flag"
	"fmt"
	"math/rand/v2"
	"os"
	"path/filepath"
	"sort"
	"strconv"
	"strings"
	"sync"
	"time"
)

const (
	ExitHeld      = 0
	ExitViolation = 1
	ExitBroken    = 2
)

// Finding is one entry of /verif/known_findings.json.
type Finding struct {
	Property  string `json:"property"`
	ID        string `json:"id"`
	Status    string `json:"status"` // "known" | "fixed"
	Signature string `json:"signature"`
	WhatFails string `json:"what_fails"`
	Where     string `json:"where,omitempty"`
	Commit    string `json:"commit,omitempty"`
}

type Ctx struct {
	Prop       string
	Tier       string // quick | thorough
	Seed       uint64
	Level      string
	VerifDir   string
	OutDir     string // evidence/, replays/, bin/ live here (VERIF_OUT, default VerifDir)
	Scratch    string
	RepoDir    string
	ReplayIn   string // non-empty: replay mode
	start      time.Time
	mu         sync.Mutex
	evals      int64
	counters   map[string]int64
	distinct   map[string]map[string]struct{}
	samples    []any
	maxSample  int
	known      []Finding
	knownHit   map[string]int
	viol       int
	violSigs   map[string]int
	incon      map[string]int64
	assume     []string
	rule       string
	extra      map[string]any
	nontrivial map[string]struct{}
	broken     []string
	exhaustive *bool
	wviol      []workerViolation
	workerSeq  int
}

func envOr(k, d string) string {
	if v := os.Getenv(k); v != "" {
		return v
	}
	return d
}

// New builds the context from flags and environment. Flags: -tier, -seed, -replay.
func New(prop, level string) *Ctx {
	tier := flag.String("tier", envOr("VERIF_TIER", "quick"), "quick|thorough")
	seedS := flag.String("seed", envOr("VERIF_SEED", "1"), "seed")
	replay := flag.String("replay", "", "witness file to replay")
	if !flag.Parsed() {
		flag.Parse()
	}
	seed, err := strconv.ParseUint(strings.TrimSpace(*seedS), 10, 64)
	if err != nil {
		// any string is usable as a seed: hash it
		var h uint64 = 1469598103934665603
		for _, b := range []byte(*seedS) {
			h = (h ^ uint64(b)) * 1099511628211
		}
		seed = h
	}
	if *tier != "quick" && *tier != "thorough" {
		*tier = "quick"
	}
	c := &Ctx{
		Prop: prop, Tier: *tier, Seed: seed, Level: level,
		VerifDir: envOr("VERIF_DIR", "/verif"),
		RepoDir:  envOr("VERIF_REPO", "/repo"),
		OutDir:   envOr("VERIF_OUT", envOr("VERIF_DIR", "/verif")),
		Scratch:  envOr("VERIF_SCRATCH", ""),
		ReplayIn: *replay,
		start:    time.Now(),
		counters: map[string]int64{}, distinct: map[string]map[string]struct{}{},
		knownHit: map[string]int{}, violSigs: map[string]int{}, incon: map[string]int64{},
		extra: map[string]any{}, nontrivial: map[string]struct{}{}, maxSample: 12,
	}
	if c.Scratch == "" {
		c.Scratch = filepath.Join("/var/tmp/verif-scratch", fmt.Sprintf("%s-%d", prop, os.Getpid()))
	}
	_ = os.MkdirAll(c.Scratch, 0o755)
	c.loadKnown()
	return c
}

func (c *Ctx) Quick() bool    { return c.Tier == "quick" }
func (c *Ctx) Thorough() bool { return c.Tier == "thorough" }

// Pick returns q in the quick tier, t in the thorough tier.
func (c *Ctx) Pick(q, t int) int {
	if c.Thorough() {
		return t
	}
	return q
}

// Rand returns a PCG stream determined by (seed, stream).
func (c *Ctx) Rand(stream uint64) *rand.Rand {
	return rand.New(rand.NewPCG(c.Seed, stream*0x9e3779b97f4a7c15+0x1234567))
}

func (c *Ctx) loadKnown() {
	c.loadKnownFile(filepath.Join(c.VerifDir, "known_findings.json"))
	more, _ := filepath.Glob(filepath.Join(c.VerifDir, "known_findings.d", "*.json"))
	sort.Strings(more)
	for _, f := range more {
		c.loadKnownFile(f)
	}
}

func (c *Ctx) loadKnownFile(path string) {
	b, err := os.ReadFile(path)
	if err != nil {
		return
	}
	var all struct {
		Findings []Finding `json:"findings"`
	}
	if err := json.Unmarshal(b, &all); err != nil {
		c.Broken("%s unreadable: %v", path, err)
		return
	}
	for _, f := range all.Findings {
		if f.Property == c.Prop {
			c.known = append(c.known, f)
		}
	}
}

// Eval counts one executed case.
func (c *Ctx) Eval(n int) {
	c.mu.Lock()
	c.evals += int64(n)
	c.mu.Unlock()
}

// Count adds to a named counter reported in evidence coverage.
func (c *Ctx) Count(key string, n int64) {
	c.mu.Lock()
	c.counters[key] += n
	c.mu.Unlock()
}

// Distinct records key in a category; evidence reports the set sizes (and the members
// when the set is small).
func (c *Ctx) Distinct(cat, key string) {
	c.mu.Lock()
	m := c.distinct[cat]
	if m == nil {
		m = map[string]struct{}{}
		c.distinct[cat] = m
	}
	m[key] = struct{}{}
	c.mu.Unlock()
}

func (c *Ctx) DistinctCount(cat string) int {
	c.mu.Lock()
	defer c.mu.Unlock()
	return len(c.distinct[cat])
}

// Nontrivial records one distinct non-trivial case (by the rule given with SetRule).
func (c *Ctx) Nontrivial(key string) {
	c.mu.Lock()
	c.nontrivial[key] = struct{}{}
	c.mu.Unlock()
}

func (c *Ctx) SetRule(r string) { c.rule = r }
func (c *Ctx) Assume(a string)  { c.mu.Lock(); c.assume = append(c.assume, a); c.mu.Unlock() }
func (c *Ctx) Extra(k string, v any) {
	c.mu.Lock()
	c.extra[k] = v
	c.mu.Unlock()
}
func (c *Ctx) SetExhaustive(b bool) { c.exhaustive = &b }

// Sample keeps up to maxSample written-out cases.
func (c *Ctx) Sample(s any) {
	c.mu.Lock()
	if len(c.samples) < c.maxSample {
		c.samples = append(c.samples, s)
	}
	c.mu.Unlock()
}

// Inconclusive counts an observation that could not be judged (timeout, hook never
// reached). Never folded into held or violated.
func (c *Ctx) Inconclusive(kind string, n int64) {
	c.mu.Lock()
	c.incon[kind] += n
	c.mu.Unlock()
}

// Broken records a failure of the machinery itself; the run exits 2.
func (c *Ctx) Broken(format string, a ...any) {
	msg := fmt.Sprintf(format, a...)
	c.mu.Lock()
	c.broken = append(c.broken, msg)
	c.mu.Unlock()
	fmt.Printf("BROKEN property=%s %s\n", c.Prop, msg)
}

// Violation reports one observed violation. signature is matched against the known
// findings of this property (exact match, or prefix match when the known signature ends
// in '*'). A known finding prints one KNOWN-FINDING line per finding id; anything else
// writes a witness file and prints a VIOLATION line. Returns true if it was known.
func (c *Ctx) Violation(signature, what string, witness any) bool {
	c.mu.Lock()
	defer c.mu.Unlock()
	if IsWorker() {
		if len(c.wviol) < 50 {
			c.workerViolation(signature, what, witness)
		}
		return false
	}
	for _, f := range c.known {
		if f.Status != "known" {
			continue
		}
		if sigMatch(f.Signature, signature) {
			c.knownHit[f.ID]++
			if os.Getenv("VERIF_PRINT_KNOWN_SIGS") != "" { // development aid: which signatures a known finding absorbs
				fmt.Printf("KNOWN-SIG id=%s sig=%s\n", f.ID, signature)
			}
			if c.knownHit[f.ID] == 1 {
				fmt.Printf("KNOWN-FINDING: property=%s %s [%s]\n", c.Prop, f.WhatFails, f.ID)
			}
			return true
		}
	}
	c.violSigs[signature]++
	if c.violSigs[signature] > 1 && c.viol >= 20 {
		c.viol++
		return false
	}
	c.viol++
	dir := filepath.Join(c.OutDir, "replays")
	_ = os.MkdirAll(dir, 0o755)
	path := filepath.Join(dir, fmt.Sprintf("%s-%s-%d-%d.json", c.Prop, c.Tier, c.Seed, c.viol))
	w := map[string]any{
		"property": c.Prop, "seed": c.Seed, "tier": c.Tier, "finding_signature": signature,
		"what": what, "witness": witness,
		"how_to_replay": fmt.Sprintf("VERIF_SEED=%d ./run %s %s   (or ./run %s replay %s)", c.Seed, c.Prop, c.Tier, c.Prop, path),
	}
	b, _ := json.MarshalIndent(w, "", " ")
	_ = os.WriteFile(path, b, 0o644)
	fmt.Printf("VIOLATION property=%s replay=%s\n", c.Prop, path)
	fmt.Printf("  signature: %s\n  what: %s\n", signature, what)
	return false
}

func sigMatch(known, got string) bool {
	if strings.HasSuffix(known, "*") {
		return strings.HasPrefix(got, strings.TrimSuffix(known, "*"))
	}
	return known == got
}

func (c *Ctx) Violations() int { c.mu.Lock(); defer c.mu.Unlock(); return c.viol }

// Finish writes the evidence file and exits with the verdict.
func (c *Ctx) Finish() {
	c.mu.Lock()
	if IsWorker() {
		c.dumpWorker()
		c.mu.Unlock()
		os.Exit(0)
	}
	cov := map[string]any{}
	for k, v := range c.extra {
		cov[k] = v
	}
	cov["evaluations"] = c.evals
	cov["distinct_nontrivial"] = len(c.nontrivial)
	cov["rule"] = c.rule
	samples := c.samples
	if samples == nil {
		samples = []any{}
	}
	cov["samples"] = samples
	if len(c.counters) > 0 {
		cov["counters"] = c.counters
	}
	dist := map[string]any{}
	for cat, m := range c.distinct {
		ent := map[string]any{"count": len(m)}
		if len(m) <= 64 {
			keys := make([]string, 0, len(m))
			for k := range m {
				keys = append(keys, k)
			}
			sort.Strings(keys)
			ent["members"] = keys
		}
		dist[cat] = ent
	}
	if len(dist) > 0 {
		cov["distinct"] = dist
	}
	if len(c.incon) > 0 {
		cov["inconclusive"] = c.incon
	}
	if len(c.knownHit) > 0 {
		cov["known_findings_observed"] = c.knownHit
	}
	if c.exhaustive != nil {
		cov["exhaustive"] = *c.exhaustive
	}
	if c.Level == "other" {
		if _, ok := cov["explanation"]; !ok {
			cov["explanation"] = c.rule
		}
	}
	ev := map[string]any{
		"property_id": c.Prop, "tier": c.Tier, "seed": c.Seed, "level": c.Level,
		"coverage": cov, "assumptions": append([]string{}, c.assume...),
		"wall_s": time.Since(c.start).Seconds(), "violations": c.viol,
	}
	if ev["assumptions"] == nil {
		ev["assumptions"] = []string{}
	}
	nontriv := len(c.nontrivial)
	evals := c.evals
	viol := c.viol
	broken := append([]string{}, c.broken...)
	c.mu.Unlock()

	if c.ReplayIn == "" {
		dir := filepath.Join(c.OutDir, "evidence")
		_ = os.MkdirAll(dir, 0o755)
		b, _ := json.MarshalIndent(ev, "", " ")
		if err := os.WriteFile(filepath.Join(dir, c.Prop+".json"), append(b, '\n'), 0o644); err != nil {
			fmt.Printf("BROKEN property=%s cannot write evidence: %v\n", c.Prop, err)
			os.Exit(ExitBroken)
		}
	}
	if os.Getenv("VERIF_KEEP_SCRATCH") == "" {
		_ = os.RemoveAll(c.Scratch)
	}
	fmt.Printf("SUMMARY property=%s tier=%s seed=%d evaluations=%d distinct_nontrivial=%d violations=%d known=%d wall=%.1fs\n",
		c.Prop, c.Tier, c.Seed, evals, nontriv, viol, len(c.knownHit), time.Since(c.start).Seconds())
	switch {
	case viol > 0:
		os.Exit(ExitViolation)
	case len(broken) > 0:
		os.Exit(ExitBroken)
	case c.ReplayIn == "" && (evals < 1 || nontriv < 2):
		fmt.Printf("BROKEN property=%s nothing non-trivial was observed (evaluations=%d distinct_nontrivial=%d)\n", c.Prop, evals, nontriv)
		os.Exit(ExitBroken)
	}
	os.Exit(ExitHeld)
}

// JSON renders v compactly for signatures / samples.
func JSON(v any) string {
	b, _ := json.Marshal(v)
	return string(b)
}

// HasDistinct reports whether key was recorded in category cat.
func (c *Ctx) HasDistinct(cat, key string) bool {
	c.mu.Lock()
	defer c.mu.Unlock()
	_, ok := c.distinct[cat][key]
	return ok
}
