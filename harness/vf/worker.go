package vf

import (
	"encoding/json"
	"fmt"
	"os"
	"os/exec"
	"path/filepath"
	"runtime"
	"strings"
	"sync/atomic"
	"syscall"
	"time"
)

// Worker protocol. In-process checks run the real library code in child processes of
// the check binary itself, because a `fatal error: checkptr`, a race-detector abort or a
// runtime throw cannot be recovered and would otherwise end every monitor. The child is
// the same binary started with VERIF_WORKER_OUT=<file>; its Ctx collects the same
// counters and on Finish dumps them to that file instead of writing evidence. Before
// each risky call the child writes the input to <file>.last, so a process-fatal report
// is attributable to an input.

type workerViolation struct {
	Signature string `json:"signature"`
	What      string `json:"what"`
	Witness   any    `json:"witness"`
}

type workerState struct {
	Evals      int64               `json:"evals"`
	Counters   map[string]int64    `json:"counters"`
	Distinct   map[string][]string `json:"distinct"`
	Nontrivial []string            `json:"nontrivial"`
	Samples    []any               `json:"samples"`
	Incon      map[string]int64    `json:"incon"`
	Violations []workerViolation   `json:"violations"`
	Broken     []string            `json:"broken"`
	Extra      map[string]any      `json:"extra"`
}

var workerOut = os.Getenv("VERIF_WORKER_OUT")

// IsWorker reports whether this process is a child worker.
func IsWorker() bool { return workerOut != "" }

// WorkerArg returns the batch argument passed by the parent.
func WorkerArg() string { return os.Getenv("VERIF_WORKER_ARG") }

// LogInput records the input about to be exercised (worker side; no-op in a parent).
func (c *Ctx) LogInput(v any) {
	if workerOut == "" {
		return
	}
	if HangSeen() {
		// a call of the code under test is still spinning on its goroutine: hand over what
		// was observed (the hang has been reported by its caller) and end this worker
		c.Inconclusive("worker-ended-early-after-a-hang", 1)
		c.Finish()
	}
	b, _ := json.Marshal(v)
	_ = os.WriteFile(workerOut+".last", b, 0o644)
}

// WorkerViolation is Violation for worker processes: the parent decides known/new.
func (c *Ctx) workerViolation(signature, what string, witness any) {
	c.wviol = append(c.wviol, workerViolation{signature, what, witness})
}

func (c *Ctx) dumpWorker() {
	st := workerState{Evals: c.evals, Counters: c.counters, Distinct: map[string][]string{}, Incon: c.incon,
		Samples: c.samples, Violations: c.wviol, Broken: c.broken, Extra: c.extra}
	for cat, m := range c.distinct {
		for k := range m {
			st.Distinct[cat] = append(st.Distinct[cat], k)
		}
	}
	for k := range c.nontrivial {
		st.Nontrivial = append(st.Nontrivial, k)
	}
	b, err := json.Marshal(st)
	if err != nil {
		fmt.Fprintf(os.Stderr, "worker: cannot marshal state: %v\n", err)
		os.Exit(3)
	}
	if err := os.WriteFile(workerOut, b, 0o644); err != nil {
		fmt.Fprintf(os.Stderr, "worker: cannot write state: %v\n", err)
		os.Exit(3)
	}
}

// RunWorker starts this binary again as a worker for batch arg, waits (watchdog wd),
// and merges what it observed. A worker that dies abnormally is a violation whose
// witness is the last logged input and the tail of its output (signature
// "worker-fatal:<first fatal line>"); a watchdog expiry is inconclusive.
func (c *Ctx) RunWorker(arg string, wd time.Duration, extraEnv ...string) {
	exe, err := os.Executable()
	if err != nil {
		c.Broken("os.Executable: %v", err)
		return
	}
	c.mu.Lock()
	c.workerSeq++
	n := c.workerSeq
	c.mu.Unlock()
	out := filepath.Join(c.Scratch, fmt.Sprintf("worker-%d.json", n))
	logf := filepath.Join(c.Scratch, fmt.Sprintf("worker-%d.log", n))
	lf, _ := os.Create(logf)
	cmd := exec.Command(exe, "-tier", c.Tier, "-seed", fmt.Sprint(c.Seed))
	cmd.Env = append(os.Environ(), "VERIF_WORKER_OUT="+out, "VERIF_WORKER_ARG="+arg,
		"VERIF_SCRATCH="+filepath.Join(c.Scratch, fmt.Sprintf("w%d", n)), "VERIF_KEEP_SCRATCH=")
	cmd.Env = append(cmd.Env, extraEnv...)
	cmd.Stdout, cmd.Stderr = lf, lf
	cmd.SysProcAttr = &syscall.SysProcAttr{Setpgid: true}
	if err := cmd.Start(); err != nil {
		c.Broken("worker start: %v", err)
		return
	}
	done := make(chan error, 1)
	go func() { done <- cmd.Wait() }()
	var werr error
	timedOut := false
	select {
	case werr = <-done:
	case <-time.After(wd):
		timedOut = true
		_ = syscall.Kill(-cmd.Process.Pid, syscall.SIGQUIT)
		select {
		case <-done:
		case <-time.After(10 * time.Second):
			_ = syscall.Kill(-cmd.Process.Pid, syscall.SIGKILL)
			<-done
		}
	}
	lf.Close()
	if timedOut {
		c.Inconclusive("worker-watchdog:"+arg, 1)
		fmt.Printf("INCONCLUSIVE property=%s worker %s exceeded watchdog %s (log %s)\n", c.Prop, arg, wd, logf)
		return
	}
	b, rerr := os.ReadFile(out)
	if werr != nil || rerr != nil {
		last, _ := os.ReadFile(out + ".last")
		logb, _ := os.ReadFile(logf)
		tail := string(logb)
		first := firstFatalLine(tail)
		if len(tail) > 6000 {
			tail = tail[:3000] + "\n...\n" + tail[len(tail)-3000:]
		}
		var lastv any
		_ = json.Unmarshal(last, &lastv)
		c.Violation("worker-fatal:"+first, fmt.Sprintf("worker %q died (%v): %s", arg, werr, first),
			map[string]any{"batch": arg, "last_input": lastv, "output": tail})
		return
	}
	var st workerState
	if err := json.Unmarshal(b, &st); err != nil {
		c.Broken("worker state unreadable: %v", err)
		return
	}
	c.mu.Lock()
	c.evals += st.Evals
	for k, v := range st.Counters {
		c.counters[k] += v
	}
	for cat, ks := range st.Distinct {
		m := c.distinct[cat]
		if m == nil {
			m = map[string]struct{}{}
			c.distinct[cat] = m
		}
		for _, k := range ks {
			m[k] = struct{}{}
		}
	}
	for _, k := range st.Nontrivial {
		c.nontrivial[k] = struct{}{}
	}
	for _, s := range st.Samples {
		if len(c.samples) < c.maxSample {
			c.samples = append(c.samples, s)
		}
	}
	for k, v := range st.Incon {
		c.incon[k] += v
	}
	for k, v := range st.Extra {
		c.extra[k] = v
	}
	c.mu.Unlock()
	for _, m := range st.Broken {
		c.Broken("worker %s: %s", arg, m)
	}
	for _, v := range st.Violations {
		c.Violation(v.Signature, v.What, v.Witness)
	}
}

func firstFatalLine(out string) string {
	for _, ln := range strings.Split(out, "\n") {
		t := strings.TrimSpace(ln)
		if strings.HasPrefix(t, "fatal error:") || strings.HasPrefix(t, "panic:") ||
			strings.HasPrefix(t, "WARNING: DATA RACE") || strings.HasPrefix(t, "==") && strings.Contains(t, "ERROR") {
			if len(t) > 160 {
				t = t[:160]
			}
			return t
		}
	}
	return "unknown"
}

// Hang is what CatchHang returns when f did not come back in time.
type Hang struct {
	After  time.Duration
	Stacks string
}

func (h Hang) String() string {
	return fmt.Sprintf("hang: the call did not return within %s", h.After)
}

var hangSeen atomic.Bool

// HangSeen reports whether a CatchHang call of this process ran into its watchdog. The
// goroutine of that call is still running (it cannot be stopped), so a worker should
// finish soon afterwards; LogInput does that on its next call.
func HangSeen() bool { return hangSeen.Load() }

// CatchHang is Catch for calls that may loop for ever on a hostile input (parsers): f runs
// on a goroutine of its own; a panic is returned as by Catch, and if f has not returned
// after wd a Hang value (with the stacks of all goroutines) is returned instead. wd must
// be generous: it is a verdict only for calls that normally take microseconds.
func CatchHang(f func(), wd time.Duration) (p any) {
	done := make(chan any, 1)
	go func() {
		defer func() { done <- recover() }()
		f()
	}()
	t := time.NewTimer(wd)
	defer t.Stop()
	select {
	case r := <-done:
		return r
	case <-t.C:
		hangSeen.Store(true)
		buf := make([]byte, 1<<18)
		buf = buf[:runtime.Stack(buf, true)]
		return Hang{After: wd, Stacks: string(buf)}
	}
}

// Catch runs f and converts a Go panic into a returned description (nil if none).
func Catch(f func()) (p any) {
	defer func() {
		if r := recover(); r != nil {
			p = r
		}
	}()
	f()
	return nil
}
