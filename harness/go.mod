module verifharness

go 1.25.0

replace (
	github.com/VictoriaMetrics/VictoriaMetrics => /repo/lib/util/lifted/VictoriaMetrics
	github.com/influxdata/influxdb => /repo/lib/util/lifted/influxdb
	github.com/openGemini/openGemini => /repo
)
