module verifharness

go 1.25.0

replace (
	github.com/VictoriaMetrics/VictoriaMetrics => /repo/lib/util/lifted/VictoriaMetrics
	github.com/influxdata/influxdb => /repo/lib/util/lifted/influxdb
	github.com/openGemini/openGemini => /repo
)

require (
	github.com/golang/snappy v0.0.5-0.20231225225746-43d5d4cd4e0e
	github.com/hashicorp/raft v1.7.0
	github.com/openGemini/openGemini v0.0.0-00010101000000-000000000000
	github.com/prometheus/prometheus v0.50.1
	github.com/savsgio/dictpool v0.0.0-20221023140959-7bf2e61cea94
	go.etcd.io/etcd/raft/v3 v3.5.10
	go.uber.org/zap v1.27.0
	golang.org/x/sys v0.45.0
	google.golang.org/protobuf v1.36.11
)

require (
	github.com/Azure/azure-sdk-for-go/sdk/azcore v1.11.1 // indirect
	github.com/Azure/azure-sdk-for-go/sdk/azidentity v1.6.0 // indirect
	github.com/Azure/azure-sdk-for-go/sdk/internal v1.8.0 // indirect
	github.com/AzureAD/microsoft-authentication-library-for-go v1.2.2 // indirect
	github.com/BurntSushi/toml v1.3.2 // indirect
	github.com/JohnCGriffin/overflow v0.0.0-20211019200055-46fa312c352c // indirect
	github.com/RoaringBitmap/roaring v1.9.4 // indirect
	github.com/VictoriaMetrics/VictoriaMetrics v1.102.1 // indirect
	github.com/VictoriaMetrics/fastcache v1.12.2 // indirect
	github.com/VictoriaMetrics/metrics v1.24.0 // indirect
	github.com/alecthomas/units v0.0.0-20231202071711-9a357b53e9c9 // indirect
	github.com/andybalholm/brotli v1.0.4 // indirect
	github.com/anishathalye/porcupine v1.3.0
	github.com/apache/arrow/go/v13 v13.0.0-20230630125530-5a06b2ec2a8e // indirect
	github.com/apache/thrift v0.23.0 // indirect
	github.com/armon/go-metrics v0.4.1 // indirect
	github.com/aws/aws-sdk-go v1.50.0 // indirect
	github.com/bboreham/go-loser v0.0.0-20230920113527-fcc2c21820a3 // indirect
	github.com/beorn7/perks v1.0.1 // indirect
	github.com/bits-and-blooms/bitset v1.12.0 // indirect
	github.com/bits-and-blooms/bloom/v3 v3.5.0 // indirect
	github.com/bytedance/gopkg v0.1.3 // indirect
	github.com/bytedance/sonic v1.15.2 // indirect
	github.com/bytedance/sonic/loader v0.5.1 // indirect
	github.com/cespare/xxhash/v2 v2.3.0 // indirect
	github.com/cloudwego/base64x v0.1.6 // indirect
	github.com/cockroachdb/errors v1.11.1 // indirect
	github.com/cockroachdb/logtags v0.0.0-20230118201751-21c54148d20b // indirect
	github.com/cockroachdb/redact v1.1.5 // indirect
	github.com/davecgh/go-spew v1.1.2-0.20180830191138-d8f796af33cc // indirect
	github.com/deckarep/golang-set/v2 v2.6.0 // indirect
	github.com/dennwc/varint v1.0.0 // indirect
	github.com/dustin/go-humanize v1.0.1 // indirect
	github.com/edsrzf/mmap-go v1.1.0 // indirect
	github.com/facette/natsort v0.0.0-20181210072756-2cd4dd1e2dcb // indirect
	github.com/fatih/color v1.15.0 // indirect
	github.com/getsentry/sentry-go v0.18.0 // indirect
	github.com/go-kit/log v0.2.1 // indirect
	github.com/go-logfmt/logfmt v0.6.0 // indirect
	github.com/go-logr/logr v1.4.3 // indirect
	github.com/go-logr/stdr v1.2.2 // indirect
	github.com/goccy/go-json v0.10.0 // indirect
	github.com/goccy/go-yaml v1.17.1 // indirect
	github.com/gogo/protobuf v1.3.2 // indirect
	github.com/golang-jwt/jwt/v5 v5.2.1 // indirect
	github.com/golang/geo v0.0.0-20210108004804-a63082ebfb66 // indirect
	github.com/golang/protobuf v1.5.4 // indirect
	github.com/google/btree v1.0.1 // indirect
	github.com/google/flatbuffers v23.1.21+incompatible // indirect
	github.com/google/uuid v1.6.0 // indirect
	github.com/gorilla/mux v1.8.1 // indirect
	github.com/grafana/regexp v0.0.0-20221122212121-6b5c0a4cb7fd // indirect
	github.com/hashicorp/errwrap v1.1.0 // indirect
	github.com/hashicorp/go-hclog v1.6.2 // indirect
	github.com/hashicorp/go-immutable-radix v1.3.1 // indirect
	github.com/hashicorp/go-msgpack v0.5.3 // indirect
	github.com/hashicorp/go-msgpack/v2 v2.1.2 // indirect
	github.com/hashicorp/go-multierror v1.1.1 // indirect
	github.com/hashicorp/go-sockaddr v1.0.2 // indirect
	github.com/hashicorp/golang-lru v0.6.0 // indirect
	github.com/hashicorp/golang-lru/v2 v2.0.7 // indirect
	github.com/hashicorp/memberlist v0.5.0 // indirect
	github.com/huaweicloud/huaweicloud-sdk-go-obs v3.23.3+incompatible // indirect
	github.com/influxdata/influxdb v1.11.2 // indirect
	github.com/influxdata/influxdb-observability/common v0.5.6 // indirect
	github.com/influxdata/influxdb-observability/otel2influx v0.5.6 // indirect
	github.com/influxdata/influxql v1.2.0 // indirect
	github.com/jmespath/go-jmespath v0.4.0 // indirect
	github.com/jpillora/backoff v1.0.0 // indirect
	github.com/json-iterator/go v1.1.13-0.20220915233716-71ac16282d12 // indirect
	github.com/jsternberg/zap-logfmt v1.2.0 // indirect
	github.com/klauspost/compress v1.17.11 // indirect
	github.com/klauspost/cpuid/v2 v2.2.9 // indirect
	github.com/kr/pretty v0.3.1 // indirect
	github.com/kr/text v0.2.0 // indirect
	github.com/kylelemons/godebug v1.1.0 // indirect
	github.com/mattn/go-colorable v0.1.13 // indirect
	github.com/mattn/go-isatty v0.0.20 // indirect
	github.com/miekg/dns v1.1.58 // indirect
	github.com/modern-go/concurrent v0.0.0-20180306012644-bacd9c7ef1dd // indirect
	github.com/modern-go/reflect2 v1.0.2 // indirect
	github.com/munnerz/goautoneg v0.0.0-20191010083416-a7dc8b61c822 // indirect
	github.com/mwitkow/go-conntrack v0.0.0-20190716064945-2f068394615f // indirect
	github.com/oklog/ulid v1.3.1 // indirect
	github.com/openGemini/opengemini-client-go v0.8.1 // indirect
	github.com/panjf2000/ants/v2 v2.9.0 // indirect
	github.com/philhofer/fwd v1.1.2 // indirect
	github.com/pierrec/lz4/v4 v4.1.18 // indirect
	github.com/pingcap/errors v0.11.4 // indirect
	github.com/pingcap/failpoint v0.0.0-20220801062533-2eaa32854a6c // indirect
	github.com/pkg/browser v0.0.0-20240102092130-5ac0b6a4141c // indirect
	github.com/pkg/errors v0.9.1 // indirect
	github.com/pmezard/go-difflib v1.0.1-0.20181226105442-5d4384ee4fb2 // indirect
	github.com/prometheus/client_golang v1.20.5 // indirect
	github.com/prometheus/client_model v0.6.1 // indirect
	github.com/prometheus/common v0.55.0 // indirect
	github.com/prometheus/common/sigv4 v0.1.0 // indirect
	github.com/prometheus/procfs v0.15.1 // indirect
	github.com/remyoudompheng/bigfft v0.0.0-20230129092748-24d4a6f8daec // indirect
	github.com/rogpeppe/go-internal v1.14.1 // indirect
	github.com/savsgio/gotils v0.0.0-20220530130905-52f3993e8d6d // indirect
	github.com/sean-/seed v0.0.0-20170313163322-e2103e2c3529 // indirect
	github.com/shirou/gopsutil/v3 v3.24.5 // indirect
	github.com/spf13/cobra v1.8.0 // indirect
	github.com/spf13/pflag v1.0.5 // indirect
	github.com/stretchr/testify v1.11.1 // indirect
	github.com/tinylib/msgp v1.1.8 // indirect
	github.com/tklauser/go-sysconf v0.3.12 // indirect
	github.com/tklauser/numcpus v0.6.1 // indirect
	github.com/twitchyliquid64/golang-asm v0.15.1 // indirect
	github.com/valyala/fastjson v1.6.4 // indirect
	github.com/valyala/fastrand v1.1.0 // indirect
	github.com/valyala/gozstd v1.20.1 // indirect
	github.com/valyala/histogram v1.2.0 // indirect
	github.com/xlab/treeprint v1.2.0 // indirect
	github.com/zeebo/xxh3 v1.0.2 // indirect
	go.etcd.io/bbolt v1.3.10 // indirect
	go.opentelemetry.io/auto/sdk v1.2.1 // indirect
	go.opentelemetry.io/collector/consumer v0.104.0 // indirect
	go.opentelemetry.io/collector/pdata v1.14.1 // indirect
	go.opentelemetry.io/collector/semconv v0.104.0 // indirect
	go.opentelemetry.io/otel v1.43.0 // indirect
	go.opentelemetry.io/otel/metric v1.43.0 // indirect
	go.opentelemetry.io/otel/trace v1.43.0 // indirect
	go.uber.org/atomic v1.11.0 // indirect
	go.uber.org/goleak v1.3.0 // indirect
	go.uber.org/multierr v1.11.0 // indirect
	golang.org/x/arch v0.0.0-20210923205945-b76863e36670 // indirect
	golang.org/x/crypto v0.52.0 // indirect
	golang.org/x/exp v0.0.0-20240823005443-9b4947da3948 // indirect
	golang.org/x/net v0.55.0 // indirect
	golang.org/x/oauth2 v0.36.0 // indirect
	golang.org/x/sync v0.20.0 // indirect
	golang.org/x/text v0.37.0 // indirect
	golang.org/x/time v0.6.0 // indirect
	golang.org/x/xerrors v0.0.0-20220907171357-04be3eba64a2 // indirect
	google.golang.org/genproto/googleapis/rpc v0.0.0-20260414002931-afd174a4e478 // indirect
	google.golang.org/grpc v1.82.1 // indirect
	gopkg.in/natefinch/lumberjack.v2 v2.2.1 // indirect
	gopkg.in/yaml.v2 v2.4.0 // indirect
	gopkg.in/yaml.v3 v3.0.1 // indirect
	k8s.io/apimachinery v0.28.6 // indirect
	k8s.io/client-go v0.28.6 // indirect
	k8s.io/klog/v2 v2.120.1 // indirect
	k8s.io/utils v0.0.0-20230726121419-3b25d923346b // indirect
	modernc.org/libc v1.55.3 // indirect
	modernc.org/mathutil v1.6.0 // indirect
	modernc.org/memory v1.8.0 // indirect
	modernc.org/sqlite v1.34.5 // indirect
)
