package main

import (
	"encoding/json"
	"fmt"
	"os"

	"verifharness/model"
)

func loadReplay(path string) ([]step, cfgVariant, error) {
	b, err := os.ReadFile(path)
	if err != nil {
		return nil, cfgVariant{}, err
	}
	var w struct {
		Witness struct {
			Config string `json:"config"`
			Steps  []step `json:"steps"`
		} `json:"witness"`
	}
	if err := json.Unmarshal(b, &w); err != nil {
		return nil, cfgVariant{}, err
	}
	cfg := variants[0]
	for _, v := range variants {
		if v.Name == w.Witness.Config {
			cfg = v
		}
	}
	for i := range w.Witness.Steps {
		for _, ln := range w.Witness.Steps[i].Points {
			p, err := model.ParseLP(ln)
			if err != nil {
				return nil, cfg, fmt.Errorf("step %d: %v", i, err)
			}
			w.Witness.Steps[i].pts = append(w.Witness.Steps[i].pts, p)
		}
	}
	return w.Witness.Steps, cfg, nil
}
