// C02 — reads equal a last-write-wins replay of acknowledged writes, in any layout.
// Black-box: one real ts-server per history, one sequential client; after every
// reorganising operation and every third write the full logical contents (ascending,
// descending, random time ranges, random field subsets) are compared with the model.
package main

import (
	"fmt"
	"math/rand/v2"
	"os"
	"path/filepath"
	"sort"
	"strings"
	"sync"
	"time"

	"verifharness/kit"
	"verifharness/model"
	"verifharness/proc"
	"verifharness/vf"
)

type step struct {
	Op     string   `json:"op"`
	Points []string `json:"points,omitempty"` // line protocol
	pts    []model.Point
}

type cfgVariant struct {
	Name  string
	Extra map[string][]string
}

var variants = []cfgVariant{
	{"default", nil},
	{"small-segments", map[string][]string{"data": {"max-rows-per-segment = " + envOr("VERIF_C02_SEG", "4")}}},
	{"compaction-method-2", map[string][]string{"data": {"compaction-method = 2"}}},
	{"mem-data-read-off", map[string][]string{"data": {"mem-data-read-enabled = false"}}},
}

func genHistory(r *rand.Rand, u *kit.Universe, nops int) []step {
	var h []step
	h = append(h, step{Op: "write", pts: u.SeedBatch(r, nil)})
	flushBurst := 0
	for len(h) < nops {
		x := r.IntN(100)
		switch {
		case flushBurst > 0:
			// a fresh, later timestamp for every series then flush: builds the >= 8 ordered
			// level-0 files per measurement that a level-compaction plan needs
			nt := u.Times[len(u.Times)-1] + 1_000_000_000
			u.Times = append(u.Times, nt)
			var pts []model.Point
			for _, m := range u.Msts {
				for _, se := range u.Series {
					if r.IntN(4) == 0 {
						continue
					}
					p := model.Point{Mst: m, Tags: se, T: nt, Fields: map[string]model.Value{}}
					for _, f := range u.Fields {
						if r.IntN(3) != 0 {
							p.Fields[f.Name] = kit.Value(r, f.Kind)
						}
					}
					if len(p.Fields) == 0 {
						p.Fields["fi"] = kit.Value(r, 'i')
					}
					pts = append(pts, p)
				}
			}
			if len(pts) == 0 {
				pts = u.GenBatch(r, kit.BatchOpts{MaxPoints: 3})
			}
			h = append(h, step{Op: "write", pts: pts})
			h = append(h, step{Op: "flush"})
			flushBurst--
			if flushBurst == 0 && r.IntN(3) != 0 {
				h = append(h, step{Op: "compact-level"})
			}
		case x < 8:
			// many pending rows of ONE series between two sorts of its memtable chunk: repeated,
			// non-ascending timestamps, partial rows (the sort of > 12 rows must keep write order
			// among equal timestamps)
			se := u.Series[r.IntN(len(u.Series))]
			m := u.Msts[r.IntN(len(u.Msts))]
			n := 14 + r.IntN(30)
			var pts []model.Point
			for k := 0; k < n; k++ {
				p := model.Point{Mst: m, Tags: se, T: u.Times[r.IntN(len(u.Times))], Fields: map[string]model.Value{}}
				for _, f := range u.Fields {
					if r.IntN(2) == 0 {
						p.Fields[f.Name] = kit.Value(r, f.Kind)
					}
				}
				if len(p.Fields) == 0 {
					p.Fields["fi"] = kit.Value(r, 'i')
				}
				pts = append(pts, p)
			}
			h = append(h, step{Op: "write", pts: pts})
		case x < 55:
			h = append(h, step{Op: "write", pts: u.GenBatch(r, kit.BatchOpts{MaxPoints: 6, FullRowProb: 0.3, DupInBatch: 0.15})})
		case x < 70:
			h = append(h, step{Op: "flush"})
		case x < 76:
			flushBurst = 8 + r.IntN(3)
		case x < 83:
			h = append(h, step{Op: "compact-level"})
		case x < 88:
			h = append(h, step{Op: "compact-full"})
		case x < 95:
			h = append(h, step{Op: "merge"})
		default:
			h = append(h, step{Op: "restart"})
		}
	}
	for i := range h {
		for _, p := range h[i].pts {
			h[i].Points = append(h[i].Points, p.LP())
		}
	}
	return h
}

type runner struct {
	c    *vf.Ctx
	bin  string
	mu   sync.Mutex
	need map[string]bool
}

var requiredLayouts = []string{"memtable-only", "files-only", "memtable+ordered", "memtable+unordered+ordered",
	"after-level-compaction", "after-full-compaction", "after-merge", "after-restart"}

func layoutClass(l kit.Layout, lastOp string, levelBefore, unorderedBefore int) []string {
	var out []string
	switch {
	case l.ActiveMem && l.Ordered == 0 && l.Unordered == 0:
		out = append(out, "memtable-only")
	case !l.ActiveMem && (l.Ordered+l.Unordered) > 0:
		out = append(out, "files-only")
	}
	if l.ActiveMem && l.Ordered > 0 && l.Unordered == 0 {
		out = append(out, "memtable+ordered")
	}
	if l.ActiveMem && l.Ordered > 0 && l.Unordered > 0 {
		out = append(out, "memtable+unordered+ordered")
	}
	switch lastOp {
	case "compact-level":
		if l.MaxLevel > levelBefore {
			out = append(out, "after-level-compaction")
		}
	case "compact-full":
		if l.MaxLevel > levelBefore {
			out = append(out, "after-full-compaction")
		}
	case "merge":
		if l.Unordered < unorderedBefore {
			out = append(out, "after-merge")
		}
	case "restart":
		out = append(out, "after-restart")
	}
	return out
}

func (rn *runner) runHistory(idx int, worker int, v cfgVariant, replay []step) {
	c := rn.c
	r := c.Rand(uint64(1000 + idx))
	u := kit.NewUniverse(2, 4, 10)
	var h []step
	if replay != nil {
		h = replay
	} else {
		h = genHistory(r, u, c.Pick(60, 100))
	}
	dir := filepath.Join(c.Scratch, fmt.Sprintf("h%d", idx))
	extra := map[string][]string{"data.memtable": {`write-cold-duration = "1h"`, `force-snapShot-duration = "1h"`}}
	for k, ls := range v.Extra {
		extra[k] = append(extra[k], ls...)
	}
	s := proc.New(proc.Config{BGOff: true, Bin: rn.bin, Dir: dir, IP: proc.IP(2, worker), Extra: extra})
	if err := s.Start(); err != nil {
		c.Broken("start: %v", err)
		return
	}
	defer s.Kill()
	if err := s.WaitReady(180 * time.Second); err != nil {
		c.Broken("history %d: %v", idx, err)
		return
	}
	const db = "db0"
	if _, err := s.Query("", "CREATE DATABASE "+db, nil); err != nil {
		c.Broken("create database: %v", err)
		return
	}
	// background compaction and merge are switched off: the driver triggers them
	s.HTTP.Post(s.URL()+"/debug/ctrl?mod=compen&switchon=false&allshards=true", "", nil)
	s.HTTP.Post(s.URL()+"/debug/ctrl?mod=merge&switchon=false&allshards=true", "", nil)

	m := model.New()
	writes := 0
	witness := func(upto int, extra map[string]any) map[string]any {
		w := map[string]any{"history_index": idx, "config": v.Name, "steps": h[:upto+1]}
		for k, x := range extra {
			w[k] = x
		}
		return w
	}
	compare := func(i int, o kit.DumpOpts, what string) bool {
		got, probs, err := kit.Dump(s, db, u.Msts, m.Schema, o)
		if err != nil && !s.Alive() {
			c.Violation("server-died:"+firstLines(s.StdoutTail(1<<20)), fmt.Sprintf("history %d (%s) step %d: server process died while answering %s: %s", idx, v.Name, i, what, firstLines(s.StdoutTail(1<<20))),
				witness(i, map[string]any{"query": what, "stdout": tail(s.StdoutTail(1<<20), 6000)}))
			return false
		}
		if err != nil {
			c.Inconclusive("dump-error", 1)
			fmt.Printf("INCONCLUSIVE C02 history %d step %d: %v\n", idx, i, err)
			return true
		}
		c.Eval(1)
		want := kit.Expect(m, u.Msts, o)
		c.Count("rows-compared", int64(len(want)))
		for _, p := range probs {
			c.Violation("structure:"+p.Kind, fmt.Sprintf("history %d step %d (%s) %s: %s", idx, i, h[i].Op, what, p.Msg),
				witness(i, map[string]any{"query": what, "problem": p}))
			return false
		}
		if d := model.Diff(want, got, "", 8); len(d) > 0 {
			sig := "lww-mismatch:" + classify(d[0])
			c.Violation(sig, fmt.Sprintf("history %d (%s) step %d after %s, %s: %s", idx, v.Name, i, h[i].Op, what, strings.Join(d, "; ")),
				witness(i, map[string]any{"query": what, "diff": d}))
			return false
		}
		return true
	}
	lastLevel, lastUn := 0, 0
	for i, st := range h {
		before := kit.ReadLayout(s, db)
		lastLevel, lastUn = before.MaxLevel, before.Unordered
		switch st.Op {
		case "write":
			wr := s.Write(db, model.LPBatch(st.pts), nil)
			if !wr.Acked() {
				c.Inconclusive("write-not-acknowledged", 1)
				fmt.Printf("INCONCLUSIVE C02 history %d step %d: write answered %d %s %v\n", idx, i, wr.Status, wr.Body, wr.Err)
				return
			}
			m.Apply(st.pts)
			writes++
			if i == 0 {
				if _, err := kit.WaitSeries(s, db, st.pts, 60*time.Second); err != nil {
					c.Inconclusive("series-never-visible", 1)
					fmt.Printf("INCONCLUSIVE C02 history %d: %v\n", idx, err)
					return
				}
			}
		case "flush":
			if err := s.Flush(); err != nil {
				c.Broken("flush: %v", err)
				return
			}
		case "compact-level":
			_ = s.Compact("level")
		case "compact-full":
			_ = s.Compact("full")
		case "merge":
			_ = s.Merge()
		case "restart":
			if !s.Stop(60 * time.Second) {
				c.Inconclusive("clean-stop-timeout", 1)
			}
			if err := s.Start(); err != nil {
				c.Broken("restart: %v", err)
				return
			}
			if err := s.WaitReady(180 * time.Second); err != nil {
				c.Broken("history %d restart: %v", idx, err)
				return
			}
			s.HTTP.Post(s.URL()+"/debug/ctrl?mod=compen&switchon=false&allshards=true", "", nil)
			s.HTTP.Post(s.URL()+"/debug/ctrl?mod=merge&switchon=false&allshards=true", "", nil)
			// after a restart the first answers may be partial until partitions are online
			want := kit.Expect(m, u.Msts, kit.DumpOpts{})
			kit.StableDump(s, db, u.Msts, m.Schema, func(cur model.Contents) bool { return len(model.Diff(want, cur, "", 1)) == 0 }, 20*time.Second)
		}
		if !s.Alive() {
			c.Violation("server-died:"+firstLines(s.StdoutTail(1<<20)), fmt.Sprintf("history %d (%s) step %d (%s): server process exited: %s", idx, v.Name, i, st.Op, firstLines(s.StdoutTail(1<<20))),
				witness(i, map[string]any{"stdout": tail(s.StdoutTail(1<<20), 6000)}))
			return
		}
		if st.Op == "write" && writes%3 != 0 && i != len(h)-1 {
			continue
		}
		l := kit.ReadLayout(s, db)
		c.Distinct("layout-vector", l.String())
		for _, cl := range layoutClass(l, st.Op, lastLevel, lastUn) {
			c.Distinct("layout-class", cl)
		}
		c.Nontrivial(fmt.Sprintf("%s|%s|%s", v.Name, l.String(), st.Op))
		ok := compare(i, kit.DumpOpts{}, "full ascending") &&
			compare(i, kit.DumpOpts{Desc: true}, "full descending")
		for k := 0; ok && k < 2; k++ {
			a, b := u.Times[r.IntN(len(u.Times))], u.Times[r.IntN(len(u.Times))]
			if a > b {
				a, b = b, a
			}
			a += int64(r.IntN(3)-1) * 500_000_000 // on, between, outside existing timestamps
			b += int64(r.IntN(3)-1) * 500_000_000
			ok = compare(i, kit.DumpOpts{TMin: &a, TMax: &b, Desc: r.IntN(2) == 0}, fmt.Sprintf("range [%d,%d]", a, b))
		}
		if ok {
			var fs []string
			for _, f := range u.Fields {
				if r.IntN(2) == 0 {
					fs = append(fs, f.Name)
				}
			}
			if len(fs) == 0 {
				fs = []string{u.Fields[r.IntN(len(u.Fields))].Name}
			}
			ok = compare(i, kit.DumpOpts{Fields: fs}, "fields "+strings.Join(fs, ","))
		}
		if !ok {
			return
		}
	}
	c.Count("histories-completed", 1)
	if idx < 2 {
		var ops []string
		for _, st := range h {
			if st.Op == "write" {
				ops = append(ops, fmt.Sprintf("write(%d)", len(st.pts)))
			} else {
				ops = append(ops, st.Op)
			}
		}
		c.Sample(map[string]any{"history": idx, "config": v.Name, "ops": strings.Join(ops, " "), "first_batch": h[0].Points[:2], "a_later_batch": h[len(h)/2].Points})
	}
}

func classify(d string) string {
	switch {
	case strings.HasPrefix(d, "extra row"):
		return "extra-row"
	case strings.HasPrefix(d, "missing row"):
		return "missing-row"
	case strings.Contains(d, "want null"):
		return "value-where-null"
	case strings.Contains(d, ": null, want"):
		return "null-where-value"
	}
	return "wrong-value"
}

func tail(s string, n int) string {
	if i := strings.Index(s, "panic:"); i >= 0 {
		s = s[i:]
	} else if i := strings.Index(s, "fatal error:"); i >= 0 {
		s = s[i:]
	}
	if len(s) > n {
		s = s[:n]
	}
	return s
}

func firstLines(s string) string {
	for _, ln := range strings.Split(s, "\n") {
		if strings.HasPrefix(ln, "panic:") || strings.HasPrefix(ln, "fatal error:") {
			return ln
		}
	}
	return ""
}

func main() {
	c := vf.New("C02", "exploration")
	c.SetRule("seeded sequential histories (write batches over 2 measurements × 4 series × 10 timestamps × 4 typed fields with partial rows, in-batch duplicates and late data; flush, level/full compaction, out-of-order merge, clean restart at seeded positions) against a real ts-server; a case = one comparison point; distinct non-trivial = distinct (config, layout vector, preceding operation)")
	c.Assume("HTTP 204 is the acknowledgement; the harness model is field-wise last-write-wins in acknowledgement order")
	c.Assume("background compaction/merge switched off through /debug/ctrl and triggered explicitly through the verif control port")
	bin, err := proc.Build(c.RepoDir, c.Scratch, "ts-server", false)
	if err != nil {
		c.Broken("build ts-server: %v", err)
		c.Finish()
	}
	rn := &runner{c: c, bin: bin}
	if c.ReplayIn != "" {
		steps, cfg, err := loadReplay(c.ReplayIn)
		if err != nil {
			c.Broken("replay: %v", err)
			c.Finish()
		}
		rn.runHistory(0, 0, cfg, steps)
		c.Finish()
	}
	nh := c.Pick(8, 64)
	if os.Getenv("VERIF_C02_HISTORIES") != "" {
		fmt.Sscan(os.Getenv("VERIF_C02_HISTORIES"), &nh)
	}
	par := 8
	sem := make(chan int, par)
	for i := 0; i < par; i++ {
		sem <- i
	}
	var wg sync.WaitGroup
	for i := 0; i < nh; i++ {
		v := variants[0]
		if c.Thorough() {
			v = variants[i%len(variants)]
		} else if i == nh-1 {
			v = variants[1]
		}
		w := <-sem
		wg.Add(1)
		go func(i, w int, v cfgVariant) {
			defer func() { sem <- w; wg.Done() }()
			rn.runHistory(i, w, v, nil)
		}(i, w, v)
	}
	wg.Wait()
	have := map[string]bool{}
	// layout classes reached are in the evidence; the ones the design requires and this
	// run did not reach are inconclusive, not held
	for _, cl := range requiredLayouts {
		have[cl] = false
	}
	_ = sort.Strings
	for _, cl := range requiredLayouts {
		if !c.HasDistinct("layout-class", cl) {
			c.Inconclusive("layout-class-not-reached:"+cl, 1)
		}
	}
	c.Finish()
}

func envOr(k, d string) string {
	if v := os.Getenv(k); v != "" {
		return v
	}
	return d
}
