package main

import (
	"fmt"
	"math/rand/v2"
	"sort"
	"strconv"
	"strings"
)

// pred is a WHERE predicate over tags and fields (time bounds are kept apart and are
// always AND-ed at the top, the only place the language allows them).
type pred struct {
	Op   string `json:"op"` // and | or | tag | field
	L    *pred  `json:"l,omitempty"`
	R    *pred  `json:"r,omitempty"`
	Key  string `json:"key,omitempty"`
	Cmp  string `json:"cmp,omitempty"`  // = != < <= > >= =~ !~
	Val  string `json:"val,omitempty"`  // tag value, regexp source, or field literal as written
	Kind string `json:"kind,omitempty"` // field kind: i f b s
}

type bound struct {
	T    int64 `json:"t"`
	Incl bool  `json:"incl"`
}

type querySpec struct {
	Mst       string   `json:"mst"`
	Agg       bool     `json:"agg"`
	Star      bool     `json:"star,omitempty"`
	Cols      []string `json:"cols,omitempty"` // raw: fields (and ungrouped tags) in select order
	Func      string   `json:"func,omitempty"`
	Field     string   `json:"field,omitempty"`
	Lo        *bound   `json:"lo,omitempty"`
	Hi        *bound   `json:"hi,omitempty"`
	Where     *pred    `json:"where,omitempty"`
	GroupTags []string `json:"group_tags,omitempty"`
	GroupStar bool     `json:"group_star,omitempty"`
	Interval  int64    `json:"interval_ns,omitempty"`
	Fill      string   `json:"fill,omitempty"` // "" | none | null | previous | <integer>
	Limit     int      `json:"limit,omitempty"`
	Offset    int      `json:"offset,omitempty"`
	// Meta != "": a shape outside the reference evaluator's subset, judged by the
	// metamorphic oracle only: multi-agg (Calls), math (Cols are expressions),
	// grouped-limit (GROUP BY * with LIMIT/OFFSET per series)
	Meta  string   `json:"meta,omitempty"`
	Calls []string `json:"calls,omitempty"`
}

func (p *pred) text() string {
	switch p.Op {
	case "and", "or":
		// this product's grammar gives AND and OR the same precedence: always parenthesise
		return "(" + p.L.text() + " " + strings.ToUpper(p.Op) + " " + p.R.text() + ")"
	case "tag":
		if p.Cmp == "=~" || p.Cmp == "!~" {
			return fmt.Sprintf("%s %s /%s/", p.Key, p.Cmp, p.Val)
		}
		return fmt.Sprintf("%s %s '%s'", p.Key, p.Cmp, p.Val)
	}
	if p.Kind == "s" {
		return fmt.Sprintf("%s %s '%s'", p.Key, p.Cmp, p.Val)
	}
	return fmt.Sprintf("%s %s %s", p.Key, p.Cmp, p.Val)
}

func (p *pred) kinds(tag, field *bool) {
	if p == nil {
		return
	}
	switch p.Op {
	case "tag":
		*tag = true
	case "field":
		*field = true
	default:
		p.L.kinds(tag, field)
		p.R.kinds(tag, field)
	}
}

func (p *pred) hasOr() bool {
	if p == nil {
		return false
	}
	return p.Op == "or" || p.L.hasOr() || p.R.hasOr()
}

func (q *querySpec) text(desc bool) string {
	var b strings.Builder
	b.WriteString("SELECT ")
	switch {
	case q.Meta == "multi-agg":
		b.WriteString(strings.Join(q.Calls, ", "))
	case q.Agg:
		fmt.Fprintf(&b, "%s(%s)", q.Func, q.Field)
	case q.Star:
		b.WriteString("*")
	default:
		b.WriteString(strings.Join(q.Cols, ", "))
	}
	b.WriteString(" FROM " + q.Mst)
	var cs []string
	if q.Lo != nil {
		op := ">"
		if q.Lo.Incl {
			op = ">="
		}
		cs = append(cs, fmt.Sprintf("time %s %d", op, q.Lo.T))
	}
	if q.Hi != nil {
		op := "<"
		if q.Hi.Incl {
			op = "<="
		}
		cs = append(cs, fmt.Sprintf("time %s %d", op, q.Hi.T))
	}
	if q.Where != nil {
		cs = append(cs, q.Where.text())
	}
	if len(cs) > 0 {
		b.WriteString(" WHERE " + strings.Join(cs, " AND "))
	}
	var gs []string
	if q.GroupStar {
		gs = append(gs, "*")
	}
	gs = append(gs, q.GroupTags...)
	if q.Interval > 0 {
		gs = append(gs, fmt.Sprintf("time(%dns)", q.Interval))
	}
	if len(gs) > 0 {
		b.WriteString(" GROUP BY " + strings.Join(gs, ", "))
	}
	if q.Fill != "" {
		b.WriteString(" fill(" + q.Fill + ")")
	}
	if desc {
		b.WriteString(" ORDER BY time DESC")
	}
	if q.Limit > 0 {
		fmt.Fprintf(&b, " LIMIT %d", q.Limit)
	}
	if q.Offset > 0 {
		fmt.Fprintf(&b, " OFFSET %d", q.Offset)
	}
	return b.String()
}

// shape is the evidence category of a query.
func (q *querySpec) shape() string {
	kind := "raw"
	if q.Agg {
		kind = "agg:" + q.Func
	}
	if q.Meta != "" {
		kind = "metamorphic-only:" + q.Meta
	}
	gt := "none"
	switch {
	case q.GroupStar:
		gt = "*"
	case len(q.GroupTags) > 0:
		gt = strings.Join(q.GroupTags, "+")
	}
	gtime := "no"
	fill := "-"
	if q.Interval > 0 {
		gtime = "yes"
		fill = q.Fill
		if fill == "" {
			fill = "default"
		} else if _, err := strconv.Atoi(fill); err == nil {
			fill = "number"
		}
	}
	lim := "no"
	switch {
	case q.Limit > 0 && q.Offset > 0:
		lim = "limit+offset"
	case q.Limit > 0:
		lim = "limit"
	case q.Offset > 0:
		lim = "offset"
	}
	return fmt.Sprintf("%s|bytag=%s|bytime=%s|fill=%s|filter=%s|limit=%s", kind, gt, gtime, fill, q.filterKind(), lim)
}

func (q *querySpec) filterKind() string {
	var tag, field bool
	q.Where.kinds(&tag, &field)
	var parts []string
	if q.Lo != nil || q.Hi != nil {
		parts = append(parts, "time")
	}
	if tag {
		parts = append(parts, "tag")
	}
	if field {
		parts = append(parts, "field")
	}
	if q.Where.hasOr() {
		parts = append(parts, "or")
	}
	if len(parts) == 0 {
		return "none"
	}
	return strings.Join(parts, "+")
}

// Regular expressions for tag filters. No anchored pattern with a negated or wide
// character class (/^[^a]$/): the parser rewrites an anchored pattern into an OR of
// equalities and expands the class into every rune it contains (1.1 million terms),
// after which the statement does not return within minutes (influxql/ast.go matchRegex;
// reported, not part of this property).
var tagRegexps = map[string][]string{
	"host":   {"a|b", "^[a-c]$", "[d-f]", "^a$", "z", "a|e|f", "^(a|b|f)$"},
	"region": {"x", "^y$", "x|y", "q"},
}
var tagValues = map[string][]string{
	"host":   {"a", "b", "c", "d", "e", "f", "zz"},
	"region": {"x", "y", "w"},
}

func genLeaf(r *rand.Rand, wantField bool) *pred {
	if !wantField {
		key := []string{"host", "region"}[r.IntN(2)]
		switch r.IntN(4) {
		case 0:
			return &pred{Op: "tag", Key: key, Cmp: "=~", Val: tagRegexps[key][r.IntN(len(tagRegexps[key]))]}
		case 1:
			return &pred{Op: "tag", Key: key, Cmp: "!~", Val: tagRegexps[key][r.IntN(len(tagRegexps[key]))]}
		case 2:
			return &pred{Op: "tag", Key: key, Cmp: "!=", Val: tagValues[key][r.IntN(len(tagValues[key]))]}
		}
		return &pred{Op: "tag", Key: key, Cmp: "=", Val: tagValues[key][r.IntN(len(tagValues[key]))]}
	}
	num := []string{"=", "!=", "<", "<=", ">", ">="}
	switch r.IntN(8) {
	case 0, 1, 2:
		return &pred{Op: "field", Key: "fi", Kind: "i", Cmp: num[r.IntN(6)], Val: strconv.Itoa(r.IntN(31) - 15)}
	case 3, 4:
		return &pred{Op: "field", Key: "ff", Kind: "f", Cmp: num[r.IntN(6)], Val: strconv.FormatFloat(float64(r.IntN(121)-60)/8, 'f', -1, 64)}
	case 5:
		// a float field against an integer literal
		return &pred{Op: "field", Key: "ff", Kind: "f", Cmp: num[2+r.IntN(4)], Val: strconv.Itoa(r.IntN(13) - 6)}
	case 6:
		return &pred{Op: "field", Key: "fb", Kind: "b", Cmp: num[r.IntN(2)], Val: []string{"true", "false"}[r.IntN(2)]}
	}
	return &pred{Op: "field", Key: "fs", Kind: "s", Cmp: num[r.IntN(2)], Val: fmt.Sprintf("s%d", r.IntN(7))}
}

func genPred(r *rand.Rand) *pred {
	switch x := r.IntN(100); {
	case x < 30:
		return nil
	case x < 45:
		return genLeaf(r, false)
	case x < 62:
		return genLeaf(r, true)
	case x < 74:
		return &pred{Op: "and", L: genLeaf(r, false), R: genLeaf(r, true)}
	case x < 84:
		return &pred{Op: "or", L: genLeaf(r, r.IntN(2) == 0), R: genLeaf(r, true)}
	case x < 92:
		return &pred{Op: "or", L: genLeaf(r, false), R: genLeaf(r, false)}
	}
	// mixed AND/OR, three leaves
	in := &pred{Op: []string{"and", "or"}[r.IntN(2)], L: genLeaf(r, r.IntN(2) == 0), R: genLeaf(r, r.IntN(2) == 0)}
	out := &pred{Op: "or", L: in, R: genLeaf(r, r.IntN(2) == 0)}
	if in.Op == "or" {
		out.Op = "and"
	}
	if r.IntN(2) == 0 {
		out.L, out.R = out.R, out.L
	}
	return out
}

// pickTime: on a stored timestamp, between two, before all, after all.
func pickTime(r *rand.Rand, d *dataset) int64 {
	switch x := r.IntN(10); {
	case x < 5:
		return d.Times[r.IntN(len(d.Times))]
	case x < 8:
		return d.Times[r.IntN(len(d.Times))] + int64(1+r.IntN(900))*1_000_000
	case x < 9:
		return d.TLo - int64(1+r.IntN(40))*sec
	}
	return d.THi + int64(1+r.IntN(40))*sec
}

var intervals = []int64{1 * sec, 2 * sec, 5 * sec, 7 * sec, 10 * sec, 30 * sec, 60 * sec, 1500_000_000}

var fieldKinds = map[string]byte{"fi": 'i', "ff": 'f', "fb": 'b', "fs": 's'}

func genQuery(r *rand.Rand, d *dataset) *querySpec {
	q := &querySpec{Mst: d.U.Msts[r.IntN(len(d.U.Msts))]}
	if r.IntN(3) == 0 {
		q.Mst = d.U.Msts[0]
	}
	q.Agg = r.IntN(100) < 60
	q.Where = genPred(r)
	// time bounds
	a, b := pickTime(r, d), pickTime(r, d)
	if a > b {
		a, b = b, a
	}
	switch x := r.IntN(10); {
	case x < 5:
		q.Lo = &bound{a, r.IntN(2) == 0}
		q.Hi = &bound{b, r.IntN(2) == 0}
	case x < 6:
		q.Lo = &bound{a, r.IntN(2) == 0}
	case x < 7:
		q.Hi = &bound{b, r.IntN(2) == 0}
	}
	// group by tags
	switch x := r.IntN(10); {
	case x < 4:
	case x < 6:
		q.GroupTags = []string{"host"}
	case x < 7:
		q.GroupTags = []string{"region"}
	case x < 8:
		q.GroupTags = []string{"host", "region"}
	default:
		q.GroupStar = true
	}
	meta := r.IntN(100) < 14
	if q.Agg {
		fs := []string{"count", "sum", "mean", "min", "max", "first", "last"}
		q.Func = fs[r.IntN(len(fs))]
		switch q.Func {
		case "count", "first", "last":
			q.Field = []string{"fi", "ff", "fi", "ff", "fb", "fs"}[r.IntN(6)]
		default:
			q.Field = []string{"fi", "ff"}[r.IntN(2)]
		}
		if r.IntN(100) < 60 {
			q.Interval = intervals[r.IntN(len(intervals))]
			// GROUP BY time queries always carry explicit lower and upper bounds
			if q.Lo == nil {
				q.Lo = &bound{a, r.IntN(2) == 0}
			}
			if q.Hi == nil {
				q.Hi = &bound{b, r.IntN(2) == 0}
			}
			numeric := q.Func == "count" || fieldKinds[q.Field] == 'i' || fieldKinds[q.Field] == 'f'
			switch x := r.IntN(10); {
			case x < 2:
			case x < 4:
				q.Fill = "none"
			case x < 5:
				q.Fill = "null"
			case x < 8:
				q.Fill = "previous"
			default:
				if numeric {
					q.Fill = strconv.Itoa(r.IntN(200) - 100)
				} else {
					q.Fill = "none"
				}
			}
		}
		if meta {
			// several calls in one statement (no first/last: no ties; the numeric fields only)
			q.Meta = "multi-agg"
			calls := []string{"count(fi)", "sum(ff)", "mean(fi)", "min(ff)", "max(fi)", "count(fs)", "sum(fi)", "mean(ff)", "min(fi)", "max(ff)"}
			r.Shuffle(len(calls), func(i, j int) { calls[i], calls[j] = calls[j], calls[i] })
			seen := map[string]bool{}
			for _, cl := range calls {
				fn := cl[:strings.IndexByte(cl, '(')]
				if !seen[fn] && len(q.Calls) < 2+r.IntN(2) {
					seen[fn] = true
					q.Calls = append(q.Calls, cl)
				}
			}
			q.Func, q.Field = "", ""
			if q.Fill != "" && q.Fill != "none" && q.Fill != "null" && q.Fill != "previous" {
				q.Fill = "previous"
			}
		}
		return q
	}
	if meta {
		if r.IntN(2) == 0 {
			q.Meta = "math"
			q.Cols = [][]string{{"fi + ff"}, {"fi * 2", "ff - 1"}, {"ff * fi"}, {"fi - ff", "fi"}}[r.IntN(4)]
			return q
		}
		q.Meta = "grouped-limit"
		q.GroupTags, q.GroupStar = nil, true
		q.Cols = []string{"fi", "ff", "fs"}[:1+r.IntN(3)]
		q.Limit = 1 + r.IntN(8)
		q.Offset = r.IntN(6)
		if r.IntN(2) == 0 {
			// an offset that reaches past the first group(s): LIMIT/OFFSET count across the
			// groups, and several small groups can share one chunk
			rows := 0
			for _, part := range d.Parts {
				for _, p := range part {
					if p.Mst == q.Mst {
						rows++
					}
				}
			}
			if rows > 1 {
				q.Offset = r.IntN(rows)
			}
		}
		return q
	}
	// plain selection
	switch x := r.IntN(10); {
	case x < 3:
		q.Star = true
	case x < 6:
		q.Cols = []string{[]string{"fi", "ff", "fb", "fs"}[r.IntN(4)]}
	default:
		names := []string{"fi", "ff", "fb", "fs"}
		r.Shuffle(4, func(i, j int) { names[i], names[j] = names[j], names[i] })
		q.Cols = names[:2+r.IntN(2)]
	}
	if !q.Star && len(q.GroupTags) == 0 && !q.GroupStar && r.IntN(4) == 0 {
		// a tag in the select list
		q.Cols = append(q.Cols, []string{"host", "region"}[r.IntN(2)])
	}
	if len(q.GroupTags) == 0 && !q.GroupStar && r.IntN(100) < 65 {
		// LIMIT / OFFSET: ungrouped selections only
		switch r.IntN(4) {
		case 0:
			q.Limit = 1 + r.IntN(5)
		case 1:
			q.Limit = 1 + r.IntN(60)
			q.Offset = 1 + r.IntN(30)
		case 2:
			q.Limit = 10 + r.IntN(400)
		default:
			q.Limit = 1 + r.IntN(40)
			q.Offset = r.IntN(300)
		}
	}
	return q
}

// genTieProbe: a single selector call over groups that contain several series whose
// oldest / newest points share a timestamp and differ in value (see genDataset); the
// time range is open or covers everything, so the tie is what the call has to resolve.
func genTieProbe(r *rand.Rand, d *dataset, i int) *querySpec {
	q := &querySpec{Mst: d.U.Msts[i%len(d.U.Msts)], Agg: true}
	q.Func = []string{"last", "first", "last", "first", "max", "min"}[i%6]
	q.Field = []string{"fi", "ff", "ff", "fi", "fs", "fb"}[(i/2)%6]
	if q.Func == "max" || q.Func == "min" {
		q.Field = []string{"fi", "ff"}[(i/6)%2]
	}
	switch (i / 3) % 4 {
	case 1:
		q.GroupTags = []string{"region"}
	case 2:
		q.GroupTags = []string{"host"}
	}
	switch r.IntN(4) {
	case 0:
		q.Lo = &bound{0, false}
	case 1:
		q.Where = &pred{Op: "tag", Key: "region", Cmp: "=~", Val: "x|y"}
	case 2:
		q.Lo = &bound{d.TLo, true}
		q.Hi = &bound{d.THi, true}
	}
	return q
}

// genPageProbe: a plain selection with a small LIMIT and an OFFSET drawn over the whole
// length of its answer. Two of three probes select ONE series by its full tag set (so the
// window walks through that series' files one after the other); the third reads all series
// with a LIMIT of at least the series count. Star and explicit field lists alternate.
func genPageProbe(r *rand.Rand, d *dataset, i int) *querySpec {
	q := &querySpec{Mst: d.U.Msts[i%len(d.U.Msts)]}
	rows := 0
	if i%3 != 2 {
		keys := make([]string, 0, len(d.Tags))
		for k := range d.Tags {
			keys = append(keys, k)
		}
		sort.Strings(keys)
		tags := d.Tags[keys[r.IntN(len(keys))]]
		q.Where = &pred{Op: "and",
			L: &pred{Op: "tag", Key: "host", Cmp: "=", Val: tags["host"]},
			R: &pred{Op: "tag", Key: "region", Cmp: "=", Val: tags["region"]}}
		for _, part := range d.Parts {
			for _, p := range part {
				if p.Mst == q.Mst && p.Tags["host"] == tags["host"] && p.Tags["region"] == tags["region"] {
					rows++
				}
			}
		}
		q.Limit = 1 + r.IntN(4)
	} else {
		for _, part := range d.Parts {
			for _, p := range part {
				if p.Mst == q.Mst {
					rows++
				}
			}
		}
		q.Limit = 12 + r.IntN(30)
	}
	if rows > 0 {
		q.Offset = r.IntN(rows)
	}
	switch i % 4 {
	case 0, 1:
		q.Star = true
	case 2:
		q.Cols = []string{"fi", "ff", "fb", "fs"}
	default:
		q.Cols = []string{[]string{"fi", "ff", "fs"}[r.IntN(3)]}
	}
	if r.IntN(4) == 0 {
		q.Lo = &bound{d.TLo, true}
		q.Hi = &bound{d.THi, true}
	}
	return q
}

// genGroupedPageProbe: a plain selection GROUP BY tags with LIMIT and an OFFSET drawn over the
// whole answer: LIMIT/OFFSET count across the groups, and with a large chunk size several
// small groups share one chunk while with inner chunk sizes 1 and 2 every chunk holds rows of
// one group - the cells must agree (judged cell against cell, like every grouped-limit query).
func genGroupedPageProbe(r *rand.Rand, d *dataset, i int) *querySpec {
	q := &querySpec{Mst: d.U.Msts[i%len(d.U.Msts)], Meta: "grouped-limit"}
	// only groupings that keep every series apart: GROUP BY host alone merges series that share
	// timestamps, and which of two rows with one timestamp comes first is not defined - a
	// LIMIT/OFFSET window cutting between them may legitimately differ from cell to cell
	if i%2 == 0 {
		q.GroupStar = true
	} else {
		q.GroupTags = []string{"host", "region"}
	}
	q.Cols = []string{"fi", "ff", "fs"}[:1+r.IntN(3)]
	rows := 0
	for _, part := range d.Parts {
		for _, p := range part {
			if p.Mst == q.Mst {
				rows++
			}
		}
	}
	q.Limit = 1 + r.IntN(6)
	if rows > 1 {
		q.Offset = r.IntN(rows)
	}
	if (i/2)%2 == 0 {
		// a narrow time range: few rows per group, so many groups fit into one chunk
		t := d.Times[r.IntN(len(d.Times))]
		q.Lo = &bound{t, true}
		q.Hi = &bound{t + int64(2+r.IntN(6))*sec, true}
		q.Offset = r.IntN(12)
	}
	return q
}

// genFillProbe: an aggregate per time bucket with null filling (the default, or spelled out)
// whose range is cut so that it holds few buckets and among them zero, one or two empty
// ones, with bounds on and off bucket edges: the executor hands chunks of complete bucket
// sequences through unchanged and fills the others, so the interesting ranges are those where
// the first chunk is one bucket short of the range, or exactly one bucket longer than a chunk.
func genFillProbe(r *rand.Rand, d *dataset, i int) *querySpec {
	q := &querySpec{Mst: d.U.Msts[i%len(d.U.Msts)], Agg: true}
	q.Func = []string{"count", "sum", "max", "mean", "last", "min"}[i%6]
	q.Field = []string{"fi", "ff"}[(i/2)%2]
	q.Interval = []int64{1 * sec, 2 * sec, 5 * sec, 1 * sec, 10 * sec, 1500_000_000}[(i/3)%6]
	if i%2 == 0 {
		q.Fill = "null"
	}
	switch (i / 4) % 5 {
	case 3:
		q.GroupTags = []string{"region"}
	case 4:
		q.Where = &pred{Op: "tag", Key: "region", Cmp: "=", Val: []string{"x", "y"}[r.IntN(2)]}
	}
	// buckets that hold a timestamp of the data set
	has := map[int64]bool{}
	for _, t := range d.Times {
		has[t-mod64(t, q.Interval)] = true
	}
	start := d.Times[r.IntN(len(d.Times))]
	b0 := start - mod64(start, q.Interval)
	wantEmpty := i % 3
	maxBuckets := 2 + r.IntN(12)
	empty, n := 0, 0
	end := b0
	for b := b0; n < maxBuckets && b <= d.THi; b += q.Interval {
		if !has[b] {
			if empty == wantEmpty {
				break
			}
			empty++
		}
		end = b
		n++
	}
	// the range ends in a bucket with data (a trailing empty bucket is still a bucket of the range)
	lo, hi := b0, end+q.Interval-1
	switch r.IntN(4) {
	case 0:
		lo = start // off the bucket edge
	case 1:
		hi = end // first instant of the last bucket
	case 2:
		hi = end + q.Interval // one bucket more, holding its first instant only
	}
	q.Lo = &bound{lo, true}
	q.Hi = &bound{hi, true}
	return q
}

func mod64(a, b int64) int64 {
	m := a % b
	if m < 0 {
		m += b
	}
	return m
}

// probeInner: the inner chunk sizes a tie probe is run with, cell by cell.
var probeInner = []int{1, 2, 1024, 2, 1, 1024, 1, 2}
