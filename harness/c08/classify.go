package main

// Finding classifier. A failing answer is first compared with the answer the evaluator
// gives under the MODEL of a known defect (exact match names that defect); what is left
// is attributed row by row with rules that name the input class and the specific wrong
// observation. Anything no rule explains keeps a generic signature and is reported as a
// VIOLATION.

import (
	"fmt"
	"os"
	"sort"
	"strconv"

	"verifharness/model"
)

type finding struct {
	sig  string
	what string
}

const (
	sigNullRows    = "field-filter|plain-selection|returns-rows-whose-selected-fields-are-all-null"
	sigPrevLater   = "desc|fill(previous)|filled-from-the-later-bucket"
	sigFillSplit   = "desc|bytime-fill-split-across-chunks|bucket-with-data-reported-as-empty"
	sigPrevLeak    = "fill(previous)-split-across-chunks|empty-bucket-filled-with-another-value-than-the-previous-bucket's"
	sigPrevGroup   = "fill(previous)|empty-bucket-filled-with-a-value-of-the-previous-group"
	sigLimitCut    = "select-star|limit-smaller-than-series-count|rows-are-not-the-first-of-the-ordered-answer"
	sigBTMPanic    = "binary_tree_merge|selector-over-two-or-more-shards|runtime panic: slice bounds out of range in the merge iterator"
	sigMixedChunk  = "mixed-layout|aggregate|inner-chunk-smaller-than-record"
	sigMetaPrev    = "metamorphic-only|desc|fill(previous)|differs-from-the-ascending-answer-reversed"
	sigMetaPhantom = "metamorphic-only|field-filter|aggregate|null-rows-of-phantom-windows-differ-between-cells"
	sigMetaFill    = "metamorphic-only|bytime-fill-split-across-chunks|cells-differ"
	sigPhantomAgg  = "field-filter|aggregate|null-row-for-a-window-whose-passing-rows-have-no-value-of-the-aggregated-field"
)

// bucketsInRange: number of GROUP BY time buckets of the query range.
func (q *querySpec) bucketsInRange() int {
	if q.Interval == 0 || q.Lo == nil || q.Hi == nil {
		return 0
	}
	lo, hi := q.Lo.T, q.Hi.T
	if !q.Lo.Incl {
		lo++
	}
	if !q.Hi.Incl {
		hi--
	}
	if hi < lo {
		return 0
	}
	return int(floorDiv(hi, q.Interval)-floorDiv(lo, q.Interval)) + 1
}

// fillSplitPossible: the fill operator splits its output when the filled size of an
// input chunk exceeds twice the inner chunk size; impossible when even the whole filled
// result is smaller.
func fillSplitPossible(q *querySpec, cl cell, nGroups int) bool {
	if q.Interval == 0 || q.Fill == "none" {
		return false
	}
	return nGroups*(q.bucketsInRange()+1) > 2*cl.Inner
}

func rowTime(row []any) (int64, bool) {
	if len(row) == 0 {
		return 0, false
	}
	v, ok := parseCell(row[0], 'i')
	return v.I, ok && v.Kind == 'i'
}

// attribute names the findings behind a reference-oracle failure of one cell.
// generic is the signature used for whatever no rule explains.
func attribute(q *querySpec, cl cell, rows []mrow, schema map[string]byte, obs *answer, generic string, mm *mismatch) []finding {
	var hasTag, hasField bool
	q.Where.kinds(&hasTag, &hasField)
	// the defect models that apply to this query, tried alone and together
	type model1 struct {
		set  func(*quirks)
		sig  string
		what string
	}
	var models []model1
	if !q.Agg && hasField {
		models = append(models, model1{func(k *quirks) { k.NullRows = true }, sigNullRows, "equals the documented answer plus the rows that pass the filter but have no value in any selected field"})
	}
	if q.Agg && q.Interval > 0 && q.Fill == "previous" && cl.Desc {
		models = append(models, model1{func(k *quirks) { k.PrevLater = true }, sigPrevLater, "equals the documented answer except that empty buckets take the value of the next later bucket (previous in output order)"})
	}
	if q.Agg && hasField {
		models = append(models, model1{func(k *quirks) { k.PhantomNull = true }, sigPhantomAgg, "equals the documented answer plus null rows for groups / fill(none) buckets whose rows pass the filter but have no value of the aggregated field"})
	}
	var qk quirks
	for mask := 1; mask < 1<<len(models); mask++ {
		var k quirks
		var fs []finding
		for i, m := range models {
			if mask&(1<<i) != 0 {
				m.set(&k)
				fs = append(fs, finding{m.sig, m.what})
			}
		}
		if checkReference(evaluate(q, rows, schema, cl.Desc, k), obs) == nil {
			return fs
		}
	}
	for _, m := range models {
		m.set(&qk)
	}
	base := evaluate(q, rows, schema, cl.Desc, qk)
	// the null rows of phantom windows appear in some configurations only: judge the
	// answer without them against the models that do not produce them
	if q.Agg && hasField && (q.Interval == 0 || q.Fill == "none") {
		if stripped, n := stripPhantom(q, base, obs); n > 0 {
			for mask := 0; mask < 1<<len(models); mask++ {
				var k quirks
				fs := []finding{{sigPhantomAgg, fmt.Sprintf("%d null rows for windows whose rows pass the filter but have no value of %s", n, q.Field)}}
				skip := false
				for i, m := range models {
					if mask&(1<<i) != 0 {
						if m.sig == sigPhantomAgg {
							skip = true
						}
						m.set(&k)
						fs = append(fs, finding{m.sig, m.what})
					}
				}
				if !skip && checkReference(evaluate(q, rows, schema, cl.Desc, k), stripped) == nil {
					return fs
				}
			}
		}
	}
	unexplained := []finding{{generic, mm.String()}}
	if os.Getenv("VERIF_C08_DEBUG") == "2" && qk != (quirks{}) {
		fmt.Printf("DEBUG2 %s\n   under the defect model: %s\n", q.text(cl.Desc), checkReference(base, obs).String())
	}
	if !q.Agg {
		if q.Star && !hasField && q.Limit > 0 && limitCutPossible(q, rows) && rowsOfFullAnswer(q, rows, schema, cl.Desc, obs) {
			return []finding{{sigLimitCut, mm.String()}}
		}
		return unexplained
	}
	// (two coarse classes lived here while the aggregate cursor reduced a record twice after
	// an empty record of another file - sigMixedChunk, sigOrderedDescChunk; fixed in /repo
	// 6428309, so mismatches in those cells are attributed like everywhere else)
	// row-level attribution against the expectation under the deterministic defect models
	causes := map[string]string{}
	// a deterministic defect model that changes the expectation is part of the explanation
	for i, m := range models {
		var k quirks
		for j, m2 := range models {
			if j != i {
				m2.set(&k)
			}
		}
		if !sameExpectation(base, evaluate(q, rows, schema, cl.Desc, k)) {
			causes[m.sig] = m.what
		}
	}
	obsBy := map[string]*obsSeries{}
	for i := range obs.Series {
		s := &obs.Series[i]
		if _, dup := obsBy[s.Key]; dup {
			return unexplained
		}
		obsBy[s.Key] = s
	}
	// a series the model expects only as a phantom (no data at all) may be absent
	nExp := 0
	for _, es := range base.Series {
		allEmpty := true
		for _, g := range es.Groups {
			allEmpty = allEmpty && g.Empty
		}
		if obsBy[es.Key] == nil && allEmpty && hasField {
			continue
		}
		nExp++
	}
	if len(obsBy) != nExp {
		return unexplained
	}
	split := fillSplitPossible(q, cl, len(base.Series))
	for _, es := range base.Series {
		os := obsBy[es.Key]
		if os == nil {
			continue // optional phantom series (checked above)
		}
		if len(os.Rows) != len(es.Groups) {
			return unexplained
		}
		var prevSeries *obsSeries
		for i := range obs.Series {
			if obs.Series[i].Key == es.Key && i > 0 {
				prevSeries = &obs.Series[i-1]
			}
		}
		phantomInSeries := false
		for _, g := range es.Groups {
			phantomInSeries = phantomInSeries || g.Phantom
		}
		for gi, g := range es.Groups {
			row := os.Rows[gi]
			if len(row) != 2 {
				return unexplained
			}
			ot, ok1 := rowTime(row)
			ov, ok2 := parseCell(row[1], es.Kinds[1])
			if !ok1 || !ok2 {
				return unexplained
			}
			good := false
			for _, a := range g.Alts {
				if a[0].I == ot && valSame(a[1], ov, base.MeanCol) {
					good = true
					break
				}
			}
			if good {
				continue
			}
			// the bucket time itself must be right in a GROUP BY time answer
			if q.Interval > 0 && g.Alts[0][0].I != ot {
				return unexplained
			}
			switch {
			case cl.Desc && split && !g.Empty && (q.Fill == "previous" || isFillValue(q, ov, os, gi, es.Kinds[1])):
				causes[sigFillSplit] = fmt.Sprintf("{%s} row %d: got %s, the bucket has data: %s", es.Key, gi, rowText(row), altsText(g.Alts, 1))
			case hasField && g.Phantom && ov.Kind == 0:
				causes[sigPhantomAgg] = fmt.Sprintf("{%s} row %d: got %s, admissible %s; rows that pass the filter but have no value of %s exist in this window", es.Key, gi, rowText(row), altsText(g.Alts, 1), q.Field)
			case hasField && q.Fill == "previous" && g.Empty && phantomInSeries:
				// the null of a phantom window is sometimes taken as the previous value, sometimes skipped
				causes[sigPhantomAgg] = fmt.Sprintf("{%s} row %d: got %s, admissible %s; fill(previous) around a window whose passing rows have no value of %s", es.Key, gi, rowText(row), altsText(g.Alts, 1), q.Field)
			case q.Fill == "previous" && g.Empty && ov.Kind != 0 && prevSeries != nil && valueInSeries(prevSeries, ov, es.Kinds[1]):
				causes[sigPrevGroup] = fmt.Sprintf("{%s} row %d: got %s, admissible %s; the value occurs in the group before it {%s}", es.Key, gi, rowText(row), altsText(g.Alts, 1), prevSeries.Key)
			case q.Fill == "previous" && split && g.Empty:
				causes[sigPrevLeak] = fmt.Sprintf("{%s} row %d: got %s, admissible %s", es.Key, gi, rowText(row), altsText(g.Alts, 1))
			case q.Fill == "previous" && g.Empty && !g.Leading && gi > 0 && sameCell(os.Rows[gi-1][1], row[1]) && len(causes) > 0:
				// an empty bucket repeats the (already attributed) wrong value before it
			default:
				return unexplained
			}
		}
	}
	if len(causes) == 0 {
		return unexplained
	}
	var out []finding
	for s, w := range causes {
		out = append(out, finding{s, w})
	}
	sort.Slice(out, func(i, j int) bool { return out[i].sig < out[j].sig })
	return out
}

func sameCell(a, b any) bool { return cellText(a) == cellText(b) }

// isFillValue: the observed value is what the fill mode puts into an empty bucket.
func isFillValue(q *querySpec, v model.Value, os *obsSeries, gi int, kind byte) bool {
	switch q.Fill {
	case "", "null":
		if q.Func == "count" {
			return v.Kind == 'i' && v.I == 0
		}
		return v.Kind == 0
	case "previous":
		if gi == 0 {
			return v.Kind == 0
		}
		pv, ok := parseCell(os.Rows[gi-1][1], kind)
		return ok && valSame(pv, v, false)
	case "none":
		return false
	}
	n, _ := strconv.ParseInt(q.Fill, 10, 64)
	if v.Kind == 'f' {
		return v.F == float64(n)
	}
	return v.Kind == 'i' && v.I == n
}

// limitCutPossible: the engine keeps only limit+offset series (those that start first)
// when SELECT * has a LIMIT smaller than the number of series.
func limitCutPossible(q *querySpec, rows []mrow) bool {
	series := map[string]bool{}
	for i := range rows {
		if evalPred(q.Where, &rows[i]) {
			series[rows[i].skey] = true
		}
	}
	return q.Limit+q.Offset < len(series)
}

// rowsOfFullAnswer: every observed row is a row of the answer without LIMIT/OFFSET and
// the rows come in time order (so only the choice of the window is wrong).
func rowsOfFullAnswer(q *querySpec, rows []mrow, schema map[string]byte, desc bool, obs *answer) bool {
	full := *q
	full.Limit, full.Offset = 0, 0
	e := evaluate(&full, rows, schema, desc, quirks{})
	if len(e.Series) != 1 || len(obs.Series) != 1 {
		return false
	}
	es := e.Series[0]
	avail := map[string]int{}
	for _, g := range es.Groups {
		for _, a := range g.Alts {
			avail[valsText(a)]++
		}
	}
	if len(obs.Series[0].Rows) > q.Limit {
		return false
	}
	var last int64
	for i, row := range obs.Series[0].Rows {
		if len(row) != len(es.Kinds) {
			return false
		}
		vals := make([]model.Value, len(row))
		for c := range row {
			v, ok := parseCell(row[c], es.Kinds[c])
			if !ok {
				return false
			}
			vals[c] = v
		}
		k := valsText(vals)
		if avail[k] == 0 {
			return false
		}
		avail[k]--
		if i > 0 && (vals[0].I < last) != desc && vals[0].I != last {
			return false
		}
		last = vals[0].I
	}
	return true
}

func sameExpectation(a, b *expected) bool {
	if len(a.Series) != len(b.Series) {
		return false
	}
	for i := range a.Series {
		x, y := a.Series[i], b.Series[i]
		if x.Key != y.Key || len(x.Groups) != len(y.Groups) {
			return false
		}
		for j := range x.Groups {
			if altsText(x.Groups[j].Alts, 1) != altsText(y.Groups[j].Alts, 1) {
				return false
			}
		}
	}
	return true
}

// stripPhantom removes from obs the null rows of phantom windows (as flagged in base,
// evaluated with the PhantomNull model) and the series left empty; n = rows removed.
func stripPhantom(q *querySpec, base *expected, obs *answer) (*answer, int) {
	phantom := map[string]map[int64]bool{}
	for _, es := range base.Series {
		for _, g := range es.Groups {
			if !g.Phantom {
				continue
			}
			m := phantom[es.Key]
			if m == nil {
				m = map[int64]bool{}
				phantom[es.Key] = m
			}
			for _, a := range g.Alts {
				m[a[0].I] = true
			}
		}
	}
	out := &answer{}
	n := 0
	for _, s := range obs.Series {
		ns := obsSeries{Tags: s.Tags, Key: s.Key, Cols: s.Cols}
		for _, row := range s.Rows {
			t, ok := rowTime(row)
			if ok && len(row) == 2 && row[1] == nil && phantom[s.Key][t] {
				n++
				continue
			}
			ns.Rows = append(ns.Rows, row)
		}
		if len(ns.Rows) > 0 {
			out.Series = append(out.Series, ns)
		}
	}
	return out, n
}

func valueInSeries(s *obsSeries, v model.Value, kind byte) bool {
	for _, row := range s.Rows {
		if len(row) == 2 {
			if pv, ok := parseCell(row[1], kind); ok && pv.Kind != 0 && valSame(pv, v, false) {
				return true
			}
		}
	}
	return false
}
