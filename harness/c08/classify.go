package main

// Finding classifier. A failing answer is first compared with the answer the evaluator
// gives under the MODEL of a known defect (exact match names that defect); what is left
// is attributed row by row with rules that name the input class and the specific wrong
// observation. Anything no rule explains keeps a generic signature and is reported as a
// VIOLATION.

import (
	"fmt"
	"os"
	"sort"
	"strconv"

	"verifharness/model"
)

type finding struct {
	sig  string
	what string
}

const (
	sigNullRows   = "field-filter|plain-selection|returns-rows-whose-selected-fields-are-all-null"
	sigPrevLater  = "desc|fill(previous)|filled-from-the-later-bucket"
	sigDescSel    = "desc|first-last|reports-another-point-of-the-bucket"
	sigFillSplit  = "desc|bytime-fill-split-across-chunks|bucket-with-data-reported-as-empty"
	sigPrevLeak   = "fill(previous)-split-across-chunks|leading-empty-buckets-filled-from-the-previous-group"
	sigPhantomAgg = "field-filter|aggregate-of-a-field-that-is-null-in-passing-rows|phantom-or-displaced-group"
)

// bucketsInRange: number of GROUP BY time buckets of the query range.
func (q *querySpec) bucketsInRange() int {
	if q.Interval == 0 || q.Lo == nil || q.Hi == nil {
		return 0
	}
	lo, hi := q.Lo.T, q.Hi.T
	if !q.Lo.Incl {
		lo++
	}
	if !q.Hi.Incl {
		hi--
	}
	if hi < lo {
		return 0
	}
	return int(floorDiv(hi, q.Interval)-floorDiv(lo, q.Interval)) + 1
}

// fillSplitPossible: the fill operator splits its output when the filled size of an
// input chunk exceeds twice the inner chunk size; impossible when even the whole filled
// result is smaller.
func fillSplitPossible(q *querySpec, cl cell, nGroups int) bool {
	if q.Interval == 0 || q.Fill == "none" {
		return false
	}
	return nGroups*(q.bucketsInRange()+1) > 2*cl.Inner
}

// phantomGroup: some (tag group, bucket) has rows that pass the filter but no non-null
// value of the aggregated field among them.
func phantomGroup(q *querySpec, rows []mrow) bool {
	type st struct{ pass, val bool }
	m := map[string]*st{}
	dims := q.dims()
	for i := range rows {
		r := &rows[i]
		if !q.inTime(r.t) || !evalPred(q.Where, r) {
			continue
		}
		gt := map[string]string{}
		for _, d := range dims {
			gt[d] = r.tags[d]
		}
		k := model.SeriesKey(gt)
		if q.Interval > 0 {
			k += "@" + strconv.FormatInt(floorDiv(r.t, q.Interval), 10)
		}
		s := m[k]
		if s == nil {
			s = &st{}
			m[k] = s
		}
		s.pass = true
		if _, ok := r.f[q.Field]; ok {
			s.val = true
		}
	}
	for _, s := range m {
		if s.pass && !s.val {
			return true
		}
	}
	return false
}

func rowTime(row []any) (int64, bool) {
	if len(row) == 0 {
		return 0, false
	}
	v, ok := parseCell(row[0], 'i')
	return v.I, ok && v.Kind == 'i'
}

// attribute names the findings behind a reference-oracle failure of one cell.
// generic is the signature used for whatever no rule explains.
func attribute(q *querySpec, cl cell, rows []mrow, schema map[string]byte, obs *answer, generic string, mm *mismatch) []finding {
	var hasTag, hasField bool
	q.Where.kinds(&hasTag, &hasField)
	var qk quirks
	if !q.Agg && hasField {
		qk.NullRows = true
	}
	if q.Agg && q.Interval > 0 && q.Fill == "previous" && cl.Desc {
		qk.PrevLater = true
	}
	base := evaluate(q, rows, schema, cl.Desc, qk)
	if qk != (quirks{}) {
		if checkReference(base, obs) == nil {
			if qk.NullRows {
				return []finding{{sigNullRows, "equals the documented answer plus the rows that pass the filter but have no value in any selected field"}}
			}
			return []finding{{sigPrevLater, "equals the documented answer except that empty buckets take the value of the next later bucket (previous in output order)"}}
		}
	}
	unexplained := []finding{{generic, mm.String()}}
	if os.Getenv("VERIF_C08_DEBUG") == "2" && qk != (quirks{}) {
		fmt.Printf("DEBUG2 %s\n   under the defect model: %s\n", q.text(cl.Desc), checkReference(base, obs).String())
	}
	if !q.Agg {
		return unexplained
	}
	if hasField && phantomGroup(q, rows) {
		return []finding{{sigPhantomAgg, mm.String()}}
	}
	// row-level attribution against the expectation under the deterministic defect models
	causes := map[string]string{}
	if qk.PrevLater {
		causes[sigPrevLater] = "empty buckets take the value of the next later bucket"
	}
	obsBy := map[string]*obsSeries{}
	for i := range obs.Series {
		s := &obs.Series[i]
		if _, dup := obsBy[s.Key]; dup {
			return unexplained
		}
		obsBy[s.Key] = s
	}
	if len(obsBy) != len(base.Series) {
		return unexplained
	}
	// output order of the series (for "not the first group")
	pos := map[string]int{}
	for i, s := range obs.Series {
		pos[s.Key] = i
	}
	split := fillSplitPossible(q, cl, len(base.Series))
	for _, es := range base.Series {
		os := obsBy[es.Key]
		if os == nil || len(os.Rows) != len(es.Groups) {
			return unexplained
		}
		for gi, g := range es.Groups {
			row := os.Rows[gi]
			if len(row) != 2 {
				return unexplained
			}
			ot, ok1 := rowTime(row)
			ov, ok2 := parseCell(row[1], es.Kinds[1])
			if !ok1 || !ok2 {
				return unexplained
			}
			good := false
			for _, a := range g.Alts {
				if a[0].I == ot && valSame(a[1], ov, base.MeanCol) {
					good = true
					break
				}
			}
			if good {
				continue
			}
			// the bucket time itself must be right in a GROUP BY time answer
			if q.Interval > 0 && g.Alts[0][0].I != ot {
				return unexplained
			}
			switch {
			case cl.Desc && (q.Func == "first" || q.Func == "last") && !g.Empty && pointOf(g.Points, ot, ov):
				causes[sigDescSel] = fmt.Sprintf("{%s} %s: got %s, admissible %s", es.Key, "row "+strconv.Itoa(gi), rowText(row), altsText(g.Alts, 1))
			case cl.Desc && split && !g.Empty && isFillValue(q, ov, os, gi, es.Kinds[1]):
				causes[sigFillSplit] = fmt.Sprintf("{%s} row %d: got %s, the bucket has data: %s", es.Key, gi, rowText(row), altsText(g.Alts, 1))
			case q.Fill == "previous" && split && g.Empty && g.Leading && ov.Kind != 0 && pos[es.Key] > 0:
				causes[sigPrevLeak] = fmt.Sprintf("{%s} row %d: got %s, no bucket with data precedes it in this group", es.Key, gi, rowText(row))
			case q.Fill == "previous" && g.Empty && !g.Leading && gi > 0 && sameCell(os.Rows[gi-1][1], row[1]) && len(causes) > 0:
				// an empty bucket repeats the (already attributed) wrong value before it
			default:
				return unexplained
			}
		}
	}
	if len(causes) == 0 {
		return unexplained
	}
	var out []finding
	for s, w := range causes {
		out = append(out, finding{s, w})
	}
	sort.Slice(out, func(i, j int) bool { return out[i].sig < out[j].sig })
	return out
}

func sameCell(a, b any) bool { return cellText(a) == cellText(b) }

func pointOf(points [][]model.Value, t int64, v model.Value) bool {
	for _, p := range points {
		if p[0].I == t && valSame(p[1], v, false) {
			return true
		}
	}
	return false
}

// isFillValue: the observed value is what the fill mode puts into an empty bucket.
func isFillValue(q *querySpec, v model.Value, os *obsSeries, gi int, kind byte) bool {
	switch q.Fill {
	case "", "null":
		if q.Func == "count" {
			return v.Kind == 'i' && v.I == 0
		}
		return v.Kind == 0
	case "previous":
		if gi == 0 {
			return v.Kind == 0
		}
		pv, ok := parseCell(os.Rows[gi-1][1], kind)
		return ok && valSame(pv, v, false)
	case "none":
		return false
	}
	n, _ := strconv.ParseInt(q.Fill, 10, 64)
	if v.Kind == 'f' {
		return v.F == float64(n)
	}
	return v.Kind == 'i' && v.I == n
}
