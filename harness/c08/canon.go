package main

import (
	"encoding/json"
	"fmt"
	"math"
	"sort"
	"strconv"
	"strings"

	"verifharness/model"
	"verifharness/proc"
)

// obsSeries / answer: what the server returned for one statement, cells still as JSON
// tokens (nil, json.Number, bool, string).
type obsSeries struct {
	Tags map[string]string `json:"tags,omitempty"`
	Key  string            `json:"-"`
	Cols []string          `json:"columns"`
	Rows [][]any           `json:"values"`
}

type answer struct {
	Series []obsSeries `json:"series"`
}

func decodeAnswer(res *proc.QueryResult, stmt int) (*answer, error) {
	a := &answer{}
	found := false
	for _, r := range res.Results {
		if r.ID != stmt {
			continue
		}
		found = true
		if r.Err != "" {
			return nil, fmt.Errorf("statement error: %s", r.Err)
		}
		for _, se := range r.Series {
			a.Series = append(a.Series, obsSeries{Tags: se.Tags, Key: model.SeriesKey(se.Tags), Cols: se.Columns, Rows: se.Values})
		}
	}
	if !found {
		return nil, fmt.Errorf("no result for statement %d", stmt)
	}
	return a, nil
}

func (a *answer) rows() int {
	n := 0
	for _, s := range a.Series {
		n += len(s.Rows)
	}
	return n
}

func cellText(c any) string {
	switch v := c.(type) {
	case nil:
		return "null"
	case json.Number:
		return v.String()
	case bool:
		return strconv.FormatBool(v)
	case string:
		return strconv.Quote(v)
	}
	return fmt.Sprintf("?%v", c)
}

func rowText(r []any) string {
	parts := make([]string, len(r))
	for i, c := range r {
		parts[i] = cellText(c)
	}
	return "[" + strings.Join(parts, ",") + "]"
}

// canonical: series ordered by tag set; a descending answer reversed; rows with equal
// time (the language leaves their order open) ordered by their text.
func (a *answer) canonical(desc bool) *answer {
	out := &answer{}
	for _, s := range a.Series {
		rows := append([][]any{}, s.Rows...)
		if desc {
			for i, j := 0, len(rows)-1; i < j; i, j = i+1, j-1 {
				rows[i], rows[j] = rows[j], rows[i]
			}
		}
		for i := 0; i < len(rows); {
			j := i + 1
			for j < len(rows) && len(rows[j]) > 0 && len(rows[i]) > 0 && cellText(rows[j][0]) == cellText(rows[i][0]) {
				j++
			}
			if j-i > 1 {
				seg := rows[i:j]
				sort.SliceStable(seg, func(x, y int) bool { return rowText(seg[x]) < rowText(seg[y]) })
			}
			i = j
		}
		out.Series = append(out.Series, obsSeries{Tags: s.Tags, Key: s.Key, Cols: s.Cols, Rows: rows})
	}
	sort.SliceStable(out.Series, func(i, j int) bool { return out.Series[i].Key < out.Series[j].Key })
	return out
}

func ulpClose(a, b float64) bool {
	if a == b {
		return true
	}
	if math.IsNaN(a) || math.IsNaN(b) {
		return false
	}
	return math.Nextafter(a, b) == b
}

func cellSame(x, y any, tol bool) bool {
	if cellText(x) == cellText(y) {
		return true
	}
	if !tol {
		return false
	}
	nx, ok1 := x.(json.Number)
	ny, ok2 := y.(json.Number)
	if !ok1 || !ok2 {
		return false
	}
	fx, e1 := strconv.ParseFloat(nx.String(), 64)
	fy, e2 := strconv.ParseFloat(ny.String(), 64)
	return e1 == nil && e2 == nil && ulpClose(fx, fy)
}

// mismatch describes the first difference found by an oracle, in a form the finding
// classifier can look at.
type mismatch struct {
	Kind   string   `json:"kind"` // series-set | columns | row-count | row
	Series string   `json:"series,omitempty"`
	Pos    int      `json:"pos,omitempty"`
	Got    string   `json:"got,omitempty"`
	Want   string   `json:"want,omitempty"`
	GotRow []any    `json:"-"`
	Alts   [][]any  `json:"-"`
	More   []string `json:"more,omitempty"`
	// counts over the whole comparison
	NullForValue int `json:"null_where_value_expected,omitempty"`
	ValueForNull int `json:"value_where_null_expected,omitempty"`
	WrongValue   int `json:"wrong_value,omitempty"`
	WrongTime    int `json:"wrong_time,omitempty"`
	MissingRows  int `json:"missing_rows,omitempty"`
	ExtraRows    int `json:"extra_rows,omitempty"`
	MissingSer   int `json:"missing_series,omitempty"`
	ExtraSer     int `json:"extra_series,omitempty"`
}

func (m *mismatch) String() string {
	if m == nil {
		return ""
	}
	s := m.Kind
	if m.Series != "" {
		s += " {" + m.Series + "}"
	}
	if m.Kind == "row" || m.Kind == "row-count" {
		s += fmt.Sprintf(" at row %d", m.Pos)
	}
	s += ": got " + m.Got + ", want " + m.Want
	if len(m.More) > 0 {
		s += "; " + strings.Join(m.More, "; ")
	}
	return s
}

// compareAnswers: metamorphic oracle on two canonical answers.
func compareAnswers(a, b *answer, meanTol bool) *mismatch {
	ka, kb := seriesKeys(a), seriesKeys(b)
	if len(ka) != len(kb) || strings.Join(ka, ";") != strings.Join(kb, ";") {
		return &mismatch{Kind: "series-set", Got: strings.Join(kb, ";"), Want: strings.Join(ka, ";"),
			MissingSer: countMissing(ka, kb), ExtraSer: countMissing(kb, ka)}
	}
	var first *mismatch
	note := func(m *mismatch) {
		if first == nil {
			first = m
		} else if len(first.More) < 3 {
			first.More = append(first.More, m.Kind+" {"+m.Series+"} got "+m.Got+" want "+m.Want)
		}
	}
	tot := &mismatch{}
	for i := range a.Series {
		sa, sb := a.Series[i], b.Series[i]
		if strings.Join(sa.Cols, ",") != strings.Join(sb.Cols, ",") {
			note(&mismatch{Kind: "columns", Series: sa.Key, Got: strings.Join(sb.Cols, ","), Want: strings.Join(sa.Cols, ",")})
			continue
		}
		n := len(sa.Rows)
		if len(sb.Rows) != n {
			if len(sb.Rows) < n {
				tot.MissingRows += n - len(sb.Rows)
				n = len(sb.Rows)
			} else {
				tot.ExtraRows += len(sb.Rows) - n
			}
			note(&mismatch{Kind: "row-count", Series: sa.Key, Pos: n, Got: strconv.Itoa(len(sb.Rows)), Want: strconv.Itoa(len(sa.Rows))})
		}
		for r := 0; r < n; r++ {
			ra, rb := sa.Rows[r], sb.Rows[r]
			same := len(ra) == len(rb)
			for c := 0; same && c < len(ra); c++ {
				if !cellSame(ra[c], rb[c], meanTol) {
					same = false
					switch {
					case c == 0:
						tot.WrongTime++
					case rb[c] == nil:
						tot.NullForValue++
					case ra[c] == nil:
						tot.ValueForNull++
					default:
						tot.WrongValue++
					}
				}
			}
			if !same {
				note(&mismatch{Kind: "row", Series: sa.Key, Pos: r, Got: rowText(rb), Want: rowText(ra)})
			}
		}
	}
	if first != nil {
		first.NullForValue, first.ValueForNull, first.WrongValue, first.WrongTime = tot.NullForValue, tot.ValueForNull, tot.WrongValue, tot.WrongTime
		first.MissingRows, first.ExtraRows = tot.MissingRows, tot.ExtraRows
	}
	return first
}

func seriesKeys(a *answer) []string {
	out := make([]string, len(a.Series))
	for i, s := range a.Series {
		out[i] = s.Key
	}
	return out
}

func countMissing(want, got []string) int {
	have := map[string]int{}
	for _, k := range got {
		have[k]++
	}
	n := 0
	for _, k := range want {
		if have[k] > 0 {
			have[k]--
		} else {
			n++
		}
	}
	return n
}

func valText(v model.Value) string {
	if v.Kind == 0 {
		return "null"
	}
	if v.Kind == 'i' {
		return strconv.FormatInt(v.I, 10)
	}
	return v.String()
}

func valsText(r []model.Value) string {
	parts := make([]string, len(r))
	for i, v := range r {
		parts[i] = valText(v)
	}
	return "[" + strings.Join(parts, ",") + "]"
}

func altsText(alts [][]model.Value, take int) string {
	if len(alts) == 1 {
		return valsText(alts[0])
	}
	parts := []string{}
	for i, a := range alts {
		if i == 4 {
			parts = append(parts, fmt.Sprintf("…%d more", len(alts)-4))
			break
		}
		parts = append(parts, valsText(a))
	}
	return fmt.Sprintf("%d of {%s}", take, strings.Join(parts, " "))
}

// parseCell converts a JSON cell to the expected kind; ok=false if it has another type.
func parseCell(c any, kind byte) (model.Value, bool) {
	if c == nil {
		return null, true
	}
	v, err := model.ParseValue(c, kind)
	return v, err == nil
}

func valSame(a, b model.Value, tol bool) bool {
	if a.Kind != b.Kind {
		return false
	}
	switch a.Kind {
	case 0:
		return true
	case 'i':
		return a.I == b.I
	case 'f':
		if tol {
			return ulpClose(a.F, b.F)
		}
		return a.F == b.F
	case 'b':
		return a.B == b.B
	}
	return a.S == b.S
}

// checkReference: reference oracle. obs is the answer in server order (not reversed);
// exp was evaluated for the same order.
func checkReference(exp *expected, obs *answer) *mismatch {
	o := &answer{Series: append([]obsSeries{}, obs.Series...)}
	sort.SliceStable(o.Series, func(i, j int) bool { return o.Series[i].Key < o.Series[j].Key })
	var ke []string
	for _, s := range exp.Series {
		ke = append(ke, s.Key)
	}
	ko := seriesKeys(o)
	if len(ke) != len(ko) || strings.Join(ke, ";") != strings.Join(ko, ";") {
		return &mismatch{Kind: "series-set", Got: strings.Join(ko, ";"), Want: strings.Join(ke, ";"),
			MissingSer: countMissing(ke, ko), ExtraSer: countMissing(ko, ke)}
	}
	var first *mismatch
	tot := &mismatch{}
	note := func(m *mismatch) {
		if first == nil {
			first = m
		} else if len(first.More) < 3 {
			first.More = append(first.More, fmt.Sprintf("%s {%s} row %d got %s want %s", m.Kind, m.Series, m.Pos, m.Got, m.Want))
		}
	}
	for i := range exp.Series {
		es, os := exp.Series[i], o.Series[i]
		if strings.Join(es.Cols, ",") != strings.Join(os.Cols, ",") {
			note(&mismatch{Kind: "columns", Series: es.Key, Got: strings.Join(os.Cols, ","), Want: strings.Join(es.Cols, ",")})
			continue
		}
		pos := 0
		for _, g := range es.Groups {
			used := make([]bool, len(g.Alts))
			for k := 0; k < g.Take; k++ {
				if pos >= len(os.Rows) {
					tot.MissingRows++
					if k == 0 || first == nil {
						note(&mismatch{Kind: "row-count", Series: es.Key, Pos: pos, Got: "end of series after " + strconv.Itoa(len(os.Rows)) + " rows", Want: altsText(g.Alts, g.Take)})
					}
					continue
				}
				row := os.Rows[pos]
				ok := false
				if len(row) == len(es.Kinds) {
					vals := make([]model.Value, len(row))
					typed := true
					for c := range row {
						v, good := parseCell(row[c], es.Kinds[c])
						typed = typed && good
						vals[c] = v
					}
					if typed {
						for ai, alt := range g.Alts {
							if used[ai] {
								continue
							}
							same := true
							for c := range alt {
								if !valSame(alt[c], vals[c], exp.MeanCol && c > 0) {
									same = false
									break
								}
							}
							if same {
								used[ai] = true
								ok = true
								break
							}
						}
						if !ok {
							// classify against the closest alternative (same time if any)
							best := g.Alts[0]
							for _, alt := range g.Alts {
								if valSame(alt[0], vals[0], false) {
									best = alt
									break
								}
							}
							if !valSame(best[0], vals[0], false) {
								tot.WrongTime++
							} else {
								for c := 1; c < len(best); c++ {
									switch {
									case valSame(best[c], vals[c], exp.MeanCol):
									case vals[c].Kind == 0:
										tot.NullForValue++
									case best[c].Kind == 0:
										tot.ValueForNull++
									default:
										tot.WrongValue++
									}
								}
							}
						}
					}
				}
				if !ok {
					note(&mismatch{Kind: "row", Series: es.Key, Pos: pos, Got: rowText(row), Want: altsText(g.Alts, g.Take)})
				}
				pos++
			}
		}
		if pos < len(os.Rows) {
			tot.ExtraRows += len(os.Rows) - pos
			note(&mismatch{Kind: "row-count", Series: es.Key, Pos: pos, Got: rowText(os.Rows[pos]) + fmt.Sprintf(" (+%d more rows)", len(os.Rows)-pos-1), Want: "end of series"})
		}
	}
	if first != nil {
		first.NullForValue, first.ValueForNull, first.WrongValue, first.WrongTime = tot.NullForValue, tot.ValueForNull, tot.WrongValue, tot.WrongTime
		first.MissingRows, first.ExtraRows = tot.MissingRows, tot.ExtraRows
	}
	return first
}
