package main

import (
	"fmt"
	"os"
	"sort"
	"strings"
	"sync"
)

type failure struct {
	sig    string
	oracle string
	what   string
	cells  []cell
	mm     *mismatch
	obs    *answer
}

var evMu sync.Mutex
var pairSeen = map[string]bool{}

func cellDims(c cell) []string {
	return []string{"layout=" + c.Layout, fmt.Sprintf("ptnum=%d", c.Pt), fmt.Sprintf("chunk_size=%d", c.Chunked), fmt.Sprintf("inner_chunk_size=%d", c.Inner),
		fmt.Sprintf("chunk_reader_parallel=%d", c.Par), "binary_tree_merge=" + b01(c.BTM), "sliding_window_push_up=" + b01(c.SWPU), "parallelbatch=" + b01(c.Batch), "desc=" + b01(c.Desc)}
}

func totalPairs() int {
	n := []int{4, 2, 3, 5, 3, 2, 2, 2, 2}
	t := 0
	for i := range n {
		for j := i + 1; j < len(n); j++ {
			t += n[i] * n[j]
		}
	}
	return t
}

func (rn *runner) noteCell(c cell) {
	ds := cellDims(c)
	evMu.Lock()
	for i := range ds {
		for j := i + 1; j < len(ds); j++ {
			pairSeen[ds[i]+"&"+ds[j]] = true
		}
	}
	evMu.Unlock()
	for _, d := range ds {
		rn.c.Count("cells:"+d, 1)
	}
}

func (rn *runner) finishEvidence() {
	evMu.Lock()
	n := len(pairSeen)
	evMu.Unlock()
	rn.c.Extra("matrix_value_pairs_exercised", fmt.Sprintf("%d of %d", n, totalPairs()))
	if n < totalPairs() {
		rn.c.Inconclusive("category-not-reached:matrix-value-pairs", int64(totalPairs()-n))
	}
}

// judge applies both oracles to the outcomes of one query.
func (rn *runner) judge(d *dataset, qi int, q *querySpec, outs []outcome) {
	c := rn.c
	var ran []outcome
	for _, o := range outs {
		if o.ran {
			ran = append(ran, o)
		}
	}
	if len(ran) == 0 {
		return
	}
	shape := q.shape()
	c.Distinct("query-shape", shape)
	c.Count("queries", 1)
	rows := rowsOf(d.M, d.Tags, q.Mst)
	schema := d.M.Schema[q.Mst]
	var exp [2]*expected
	getExp := func(desc bool) *expected {
		i := 0
		if desc {
			i = 1
		}
		if exp[i] == nil {
			exp[i] = evaluate(q, rows, schema, desc, quirks{})
		}
		return exp[i]
	}
	fails := map[string]*failure{}
	addFail := func(sig, oracle, what string, cl cell, mm *mismatch, obs *answer) {
		f := fails[sig]
		if f == nil {
			f = &failure{sig: sig, oracle: oracle, what: what, mm: mm, obs: obs}
			fails[sig] = f
		}
		f.cells = append(f.cells, cl)
	}
	refOK := make([]bool, len(ran))
	canon := make([]*answer, len(ran))
	maxRows := 0
	for i, o := range ran {
		c.Eval(1)
		rn.noteCell(o.cell)
		if o.err != "" {
			if strings.Contains(o.err, "Client.Timeout") || strings.Contains(o.err, "context deadline exceeded") {
				// no answer within the HTTP client's 120 s: a wall-clock observation, never a verdict
				c.Inconclusive("query-gave-no-answer-within-120s", 1)
				c.Distinct("query-timeout-cell", o.cell.String())
				fmt.Printf("INCONCLUSIVE C08 dataset %d query %d: no answer within 120 s in cell %s: %s\n", d.Index, qi, o.cell, q.text(o.cell.Desc))
				continue
			}
			addFail(classifyError(q, o.cell, o.err), "error", o.err, o.cell, nil, nil)
			continue
		}
		canon[i] = o.ans.canonical(o.cell.Desc)
		if n := o.ans.rows(); n > maxRows {
			maxRows = n
		}
		if q.Meta == "" {
			e := getExp(o.cell.Desc)
			mm := checkReference(e, o.ans)
			if mm == nil {
				refOK[i] = true
				c.Count("reference-judgements-passed", 1)
			} else {
				for _, f := range attribute(q, o.cell, rows, schema, o.ans, classify(q, o.cell, mm, "reference", e), mm) {
					addFail(f.sig, "reference", f.what, o.cell, mm, o.ans)
				}
			}
			rn.straddle(o.cell, o.ans, e)
			if o.ans2 != nil {
				if mm2 := checkReference(e, o.ans2); mm2 != nil && mm == nil {
					for _, f := range attribute(q, o.cell, rows, schema, o.ans2, "second-statement-of-batch|"+classify(q, o.cell, mm2, "reference", e), mm2) {
						addFail(f.sig, "reference", "second statement of the parallelbatch request: "+f.what, o.cell, mm2, o.ans2)
					}
				}
			}
		} else {
			if o.ans2 != nil {
				if mm2 := compareAnswers(canon[i], o.ans2.canonical(o.cell.Desc), q.isMean()); mm2 != nil {
					sig := classifyMeta(q, o.cell, o.cell, canon[i], o.ans2.canonical(o.cell.Desc), mm2)
					if !strings.HasPrefix(sig, "metamorphic-only|") {
						sig = "second-statement-of-batch|" + sig
					}
					addFail(sig, "metamorphic", "the two statements of one parallelbatch request differ: "+mm2.String(), o.cell, mm2, o.ans2)
				}
			}
			rn.straddle(o.cell, o.ans, nil)
		}
	}
	// metamorphic: cells of one class must agree. LIMIT/OFFSET make the descending answer
	// another window, so ascending and descending cells are compared among themselves.
	classOf := func(o outcome) int {
		if (q.Limit > 0 || q.Offset > 0) && o.cell.Desc {
			return 1
		}
		return 0
	}
	for cls := 0; cls < 2; cls++ {
		// the consensus answer is the one most cells gave (a reference-approved one first)
		var idx []int
		for i, o := range ran {
			if o.err == "" && classOf(o) == cls {
				idx = append(idx, i)
			}
		}
		if len(idx) < 2 {
			continue
		}
		best, bestN := -1, -1
		for _, i := range idx {
			n := 0
			for _, j := range idx {
				if compareAnswers(canon[i], canon[j], q.isMean()) == nil {
					n++
				}
			}
			if refOK[i] {
				n += len(idx)
			}
			if n > bestN {
				best, bestN = i, n
			}
		}
		for _, i := range idx {
			if i == best {
				continue
			}
			c.Count("metamorphic-comparisons", 1)
			mm := compareAnswers(canon[best], canon[i], q.isMean())
			if mm == nil {
				continue
			}
			c.Count("metamorphic-comparisons-differing", 1)
			switch {
			case q.Meta == "" && refOK[i] && refOK[best] && !q.Agg && (q.Limit > 0 || q.Offset > 0):
				// the only output the language leaves unordered: rows of equal time from
				// different series in an ungrouped selection; LIMIT/OFFSET may cut them anywhere
				c.Count("admissible-choice-differs-between-cells", 1)
				c.Distinct("admissible-choice-kind", choiceKind(q))
			case q.Meta == "" && refOK[i] && refOK[best]:
				// both answers are correct w.r.t. the language (a first/last/min/max tie), but the
				// property demands the SAME answer in every cell
				sig := classifyTie(q, ran[i].cell, ran[best].cell, mm)
				addFail(sig, "metamorphic", fmt.Sprintf("both answers are admissible tie choices but differ from cell %s (cells differ in %s): %s", ran[best].cell, cellDiff(ran[i].cell, ran[best].cell), mm.String()), ran[i].cell, mm, ran[i].ans)
				if f := fails[sig]; len(f.cells) == 1 {
					f.cells = append(f.cells, ran[best].cell)
				}
			case q.Meta == "" && !refOK[i]:
				// already reported by the reference oracle for this cell
			default:
				sig := classifyMeta(q, ran[i].cell, ran[best].cell, canon[best], canon[i], mm)
				addFail(sig, "metamorphic", fmt.Sprintf("differs from cell %s: %s", ran[best].cell, mm.String()), ran[i].cell, mm, ran[i].ans)
				if f := fails[sig]; len(f.cells) == 1 {
					f.cells = append(f.cells, ran[best].cell)
				}
			}
		}
	}
	if maxRows > 0 && len(ran) >= 2 {
		c.Nontrivial(shape)
	}
	if q.Meta == "" && getExp(false).choice() {
		c.Count("queries-with-an-admissible-choice", 1)
		if q.Agg {
			// a selector tie: the metamorphic oracle demands the same choice in every cell
			c.Count("selector-tie-queries:"+q.Func, 1)
			for _, o := range ran {
				c.Count(fmt.Sprintf("selector-tie-cells:inner_chunk_size=%d", o.cell.Inner), 1)
			}
		}
	}
	if maxRows == 0 {
		c.Count("queries-with-empty-answer", 1)
	}
	if qi < 4 && d.Index == 0 {
		c.Sample(map[string]any{"query": q.text(false), "shape": shape, "cells": cellNames(ran), "rows": maxRows, "reference": q.Meta == ""})
	}
	sigs := make([]string, 0, len(fails))
	for s := range fails {
		sigs = append(sigs, s)
	}
	sort.Strings(sigs)
	for _, s := range sigs {
		f := fails[s]
		// add one agreeing cell so that the witness shows the contrast
		wcells := append([]cell{}, f.cells...)
		if len(wcells) > 4 {
			wcells = wcells[:4]
		}
		for i, o := range ran {
			if o.err == "" && (refOK[i] || q.Meta != "") && !containsCell(f.cells, o.cell) {
				wcells = append(wcells, o.cell)
				break
			}
		}
		what := fmt.Sprintf("dataset %d query %d [%s oracle] %s  -- %d of %d cells, first %s: %s", d.Index, qi, f.oracle, q.text(f.cells[0].Desc), len(f.cells), len(ran), f.cells[0], f.what)
		wit := map[string]any{"dataset": d.witness(q.Mst), "query": q, "text": q.text(f.cells[0].Desc), "params": f.cells[0].params().Encode(),
			"cells": wcells, "failing_cells": cellNames2(f.cells), "mismatch": f.mm}
		if f.obs != nil && f.obs.rows() <= 60 {
			wit["observed"] = f.obs
		}
		known := c.Violation(s, what, wit)
		if os.Getenv("VERIF_C08_DEBUG") != "" {
			fmt.Printf("DEBUG known=%v sig=%s\n  %s\n", known, s, what)
		}
	}
}

func containsCell(cs []cell, c cell) bool {
	for _, x := range cs {
		if x == c {
			return true
		}
	}
	return false
}

func cellNames(os []outcome) []string {
	var out []string
	for _, o := range os {
		out = append(out, o.cell.String())
	}
	return out
}

func cellNames2(cs []cell) []string {
	var out []string
	for _, c := range cs {
		out = append(out, c.String())
	}
	return out
}

func (q *querySpec) isMean() bool {
	if q.Func == "mean" {
		return true
	}
	for _, cl := range q.Calls {
		if strings.HasPrefix(cl, "mean(") {
			return true
		}
	}
	return false
}

func choiceKind(q *querySpec) string {
	switch {
	case !q.Agg && (q.Limit > 0 || q.Offset > 0):
		return "limit/offset cuts rows of equal time"
	case q.Func == "first" || q.Func == "last":
		return q.Func + " over equal timestamps in different series"
	case q.Func == "min" || q.Func == "max":
		return q.Func + " tie: which point's time is reported"
	}
	return "other"
}

// straddle counts results whose series or groups cannot have fitted into one chunk.
func (rn *runner) straddle(cl cell, a *answer, e *expected) {
	c := rn.c
	maxOut, maxIn := 0, 0
	for _, s := range a.Series {
		if len(s.Rows) > maxOut {
			maxOut = len(s.Rows)
		}
	}
	if e != nil {
		for _, s := range e.Series {
			if s.InPoints > maxIn {
				maxIn = s.InPoints
			}
		}
	} else {
		maxIn = maxOut
	}
	if cl.Chunked > 0 && maxOut > cl.Chunked {
		c.Count("results-with-a-series-straddling-a-response-chunk", 1)
	}
	if maxIn > cl.Inner || maxOut > cl.Inner {
		c.Count("results-with-a-group-straddling-an-inner-chunk", 1)
	}
}

func classifyError(q *querySpec, cl cell, err string) string {
	e := err
	if i := strings.Index(e, "\n"); i >= 0 {
		e = e[:i]
	}
	if len(e) > 100 {
		e = e[:100]
	}
	if cl.BTM && strings.Contains(err, "runtime panic") && strings.Contains(err, "slice bounds out of range") {
		return sigBTMPanic
	}
	return "query-error|" + e
}

// classify computes the finding signature of a mismatch: the input class (query shape
// features that matter for the root cause) and the specific wrong observation.
func classify(q *querySpec, cl cell, mm *mismatch, oracle string, e *expected) string {
	kind := "raw"
	if q.Agg {
		kind = q.Func
		if q.Meta != "" {
			kind = q.Meta
		}
	}
	var feats []string
	if q.Interval > 0 {
		f := q.Fill
		if f == "" {
			f = "null"
		} else if f != "none" && f != "null" && f != "previous" {
			f = "number"
		}
		feats = append(feats, "bytime:fill="+f)
	}
	if len(q.GroupTags) > 0 || q.GroupStar {
		feats = append(feats, "bytag")
	}
	var tag, field bool
	q.Where.kinds(&tag, &field)
	if field {
		feats = append(feats, "fieldfilter")
	}
	if q.Limit > 0 || q.Offset > 0 {
		feats = append(feats, "limit")
	}
	if cl.Desc {
		feats = append(feats, "desc")
	}
	obs := mm.Kind
	if mm.Kind == "row" || mm.Kind == "row-count" {
		var parts []string
		add := func(n int, s string) {
			if n > 0 {
				parts = append(parts, s)
			}
		}
		add(mm.MissingRows, "missing-rows")
		add(mm.ExtraRows, "extra-rows")
		add(mm.WrongTime, "wrong-time")
		add(mm.NullForValue, "null-for-value")
		add(mm.ValueForNull, "value-for-null")
		add(mm.WrongValue, "wrong-value")
		obs = strings.Join(parts, "+")
	}
	return fmt.Sprintf("%s|%s|%s|%s", oracle, kind, strings.Join(feats, ","), obs)
}

// classifyMeta: signature of a disagreement between two cells of a metamorphic-only query.
func classifyMeta(q *querySpec, a, b cell, ref, got *answer, mm *mismatch) string {
	// (an early class for empty answers under binary_tree_merge lived here until that
	// defect was repaired in /repo 63e6b02; it mislabelled phantom-window differences)
	var hasTag, hasField bool
	q.Where.kinds(&hasTag, &hasField)
	if q.Agg && hasField && (q.Interval == 0 || q.Fill == "none" || q.Fill == "previous") {
		// the null rows of windows whose passing rows have no value appear in some cells only
		if q.Fill == "previous" || compareAnswers(dropAllNullRows(ref), dropAllNullRows(got), q.isMean()) == nil {
			return sigMetaPhantom
		}
	}
	if q.Interval > 0 && q.Fill == "previous" && a.Desc != b.Desc && mm.Kind == "row" {
		return sigMetaPrev
	}
	if q.Interval > 0 && q.Fill != "none" && (mm.Kind == "row" || mm.Kind == "row-count") {
		n := len(ref.Series)
		if fillSplitPossible(q, a, n) || fillSplitPossible(q, b, n) {
			return sigMetaFill
		}
	}
	return classify(q, a, mm, "metamorphic", nil)
}

func dropAllNullRows(a *answer) *answer {
	out := &answer{}
	for _, s := range a.Series {
		ns := obsSeries{Tags: s.Tags, Key: s.Key, Cols: s.Cols}
		for _, row := range s.Rows {
			all := true
			for _, c := range row[1:] {
				all = all && c == nil
			}
			if !all {
				ns.Rows = append(ns.Rows, row)
			}
		}
		if len(ns.Rows) > 0 {
			out.Series = append(out.Series, ns)
		}
	}
	return out
}

// classifyTie: signature of two admissible but different tie choices of a selector.
func classifyTie(q *querySpec, a, b cell, mm *mismatch) string {
	var hasTag, hasField bool
	q.Where.kinds(&hasTag, &hasField)
	what := "value-differs"
	if mm.WrongTime > 0 && mm.WrongValue == 0 {
		what = "reported-time-differs"
	}
	by := "nogroup"
	if q.Interval > 0 {
		by = "bytime"
	}
	order := "ascending-cells"
	if a.Desc || b.Desc {
		order = "a-descending-cell"
	}
	return fmt.Sprintf("metamorphic|selector-tie|%s(%s)|%s|%s-between-cells|%s", q.Func, kindName[fieldKinds[q.Field]], by, what, order)
}

var kindName = map[byte]string{'i': "integer", 'f': "float", 'b': "boolean", 's': "string"}

// cellDiff names the execution dimensions in which two cells differ (layout and server
// are the stored form of the data, the rest are execution knobs).
func cellDiff(a, b cell) string {
	var ds []string
	add := func(c bool, n string) {
		if c {
			ds = append(ds, n)
		}
	}
	add(a.Layout != b.Layout, "layout")
	add(a.Pt != b.Pt, "ptnum")
	add(a.Inner != b.Inner, "inner_chunk_size")
	add(a.Par != b.Par, "chunk_reader_parallel")
	add(a.BTM != b.BTM, "binary_tree_merge")
	add(a.SWPU != b.SWPU, "sliding_window_push_up")
	add(a.Desc != b.Desc, "order")
	if len(ds) == 0 {
		return "same-execution-settings"
	}
	return strings.Join(ds, "+")
}
