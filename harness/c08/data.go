package main

import (
	"fmt"
	"math/rand/v2"
	"sort"

	"verifharness/kit"
	"verifharness/model"
)

// dataset: the logical contents (a set of points, some (series,time) rows written as two
// partial rows) split into three parts so that every layout can be produced without
// writing any (series,time) in two flush generations (which C09 — not C08 — is about):
//
//	base  written first
//	late  written after base; on the "mixed"/"compacted" servers base is flushed before,
//	      so rows older than their series' flushed maximum go to out-of-order files
//	tail  written last; stays in the memtable on the "mixed" server
type dataset struct {
	Index int
	U     *kit.Universe
	Parts [3][]model.Point // base, late, tail
	M     *model.Model
	TLo   int64 // smallest / largest timestamp
	THi   int64
	Times []int64                      // the distinct timestamps, ascending
	Tags  map[string]map[string]string // series key -> tags
}

var partNames = [3]string{"base", "late", "tail"}

const sec = int64(1_000_000_000)

// value ranges: small so that min/max ties happen, float data are k/8 so that every
// partial sum is exact in any order of addition.
func genValue(r *rand.Rand, kind byte) model.Value {
	switch kind {
	case 'i':
		return model.Int(int64(r.IntN(41) - 20))
	case 'f':
		return model.Float(float64(r.IntN(161)-80) / 8)
	case 'b':
		return model.Bool(r.IntN(2) == 0)
	}
	return model.Str(fmt.Sprintf("s%d", r.IntN(6)))
}

// genDataset builds nm measurements over the kit universe scaled up: 12 series with the
// two tag keys host/region, nt timestamps with gaps (some not on a whole second), nulls
// (partial rows), the same timestamps in many series, four typed fields. The timestamps
// straddle an hour boundary: the database is created with SHARD DURATION 1h, so the
// data sit in two shard groups.
func genDataset(r *rand.Rand, idx int, nt int) *dataset {
	nm := 2 + r.IntN(2)
	u := kit.NewUniverse(nm, 12, 1)
	d := &dataset{Index: idx, U: u, M: model.New(), Tags: map[string]map[string]string{}}
	// BaseTime+2800 s is a whole hour; start 100..250 s before it
	start := kit.BaseTime + (2800-100-int64(r.IntN(150)))*sec
	var times []int64
	t := start
	for len(times) < nt {
		times = append(times, t)
		switch x := r.IntN(100); {
		case x < 50:
			t += sec
		case x < 70:
			t += 2 * sec
		case x < 80:
			t += 250_000_000 * int64(1+r.IntN(3)) // sub-second step
		case x < 92:
			t += int64(3+r.IntN(6)) * sec
		case x < 98:
			t += int64(12+r.IntN(20)) * sec // gap wider than most buckets
		default:
			t += int64(61+r.IntN(30)) * sec
		}
	}
	d.Times = times
	d.TLo, d.THi = times[0], times[len(times)-1]
	for mi, mst := range u.Msts {
		series := u.Series
		density := 0.5
		nullp := 0.3
		switch mi {
		case 1: // sparse, null-heavy
			density, nullp = 0.2, 0.55
		case 2: // few series
			series = u.Series[:3]
			density = 0.6
		}
		for si, se := range series {
			d.Tags[model.SeriesKey(se)] = se
			// one series per measurement never carries ff (a whole-column null)
			noFF := si == 5
			for ti, ts := range times {
				// the oldest and the newest timestamp: most series carry a full row there with
				// values that differ from series to series, so that first()/last() over any
				// group of >= 2 series is a tie on time with different values
				edge := (ti == 0 || ti == len(times)-1) && si%4 != 3
				if !edge && r.Float64() >= density {
					continue
				}
				p := model.Point{Mst: mst, Tags: se, T: ts, Fields: map[string]model.Value{}}
				for _, f := range u.Fields {
					if noFF && f.Name == "ff" {
						continue
					}
					if r.Float64() >= nullp {
						p.Fields[f.Name] = genValue(r, f.Kind)
					}
				}
				if len(p.Fields) == 0 {
					p.Fields["fi"] = genValue(r, 'i')
				}
				if edge {
					k := int64(si)
					if ti == 0 {
						k = int64(len(series) - si)
					}
					p.Fields["fi"] = model.Int(k - 6)
					p.Fields["fb"] = model.Bool(si%2 == 0)
					p.Fields["fs"] = model.Str(fmt.Sprintf("s%d", si%6))
					if !noFF {
						p.Fields["ff"] = model.Float(float64(2*k-11) / 8)
					}
				}
				part := 0
				switch x := r.IntN(10); {
				case x >= 8:
					part = 2
				case x >= 6:
					part = 1
				}
				// a row written as two partial rows (same part = same flush generation)
				if len(p.Fields) >= 2 && r.IntN(6) == 0 {
					a := model.Point{Mst: mst, Tags: se, T: ts, Fields: map[string]model.Value{}}
					b := model.Point{Mst: mst, Tags: se, T: ts, Fields: map[string]model.Value{}}
					names := make([]string, 0, len(p.Fields))
					for n := range p.Fields {
						names = append(names, n)
					}
					sort.Strings(names)
					for i, n := range names {
						if i%2 == 0 {
							a.Fields[n] = p.Fields[n]
						} else {
							b.Fields[n] = p.Fields[n]
						}
					}
					d.Parts[part] = append(d.Parts[part], a, b)
				} else {
					d.Parts[part] = append(d.Parts[part], p)
				}
			}
		}
	}
	for i := range d.Parts {
		// arrival order is not time order
		r.Shuffle(len(d.Parts[i]), func(a, b int) { d.Parts[i][a], d.Parts[i][b] = d.Parts[i][b], d.Parts[i][a] })
		// ... but the two halves of a split row must not arrive in one request in the wrong
		// order: they carry disjoint fields, so any order gives the same contents
		d.M.Apply(d.Parts[i])
	}
	return d
}

// batches cuts a part into requests of at most n points.
func batches(ps []model.Point, n int) [][]model.Point {
	var out [][]model.Point
	for len(ps) > 0 {
		k := n
		if k > len(ps) {
			k = len(ps)
		}
		out = append(out, ps[:k])
		ps = ps[k:]
	}
	return out
}

// row of the logical contents
type mrow struct {
	skey string
	tags map[string]string
	t    int64
	f    map[string]model.Value
}

// rowsOf lists the logical rows of one measurement ordered by (time, series).
func rowsOf(m *model.Model, tags map[string]map[string]string, mst string) []mrow {
	var out []mrow
	for k, fs := range m.Rows {
		if k.Mst != mst || len(fs) == 0 {
			continue
		}
		out = append(out, mrow{skey: k.Series, tags: tags[k.Series], t: k.T, f: fs})
	}
	sort.Slice(out, func(i, j int) bool {
		if out[i].t != out[j].t {
			return out[i].t < out[j].t
		}
		return out[i].skey < out[j].skey
	})
	return out
}
