// C08 — query answers follow the language and ignore chunking and parallelism.
//
// Black-box on real ts-server processes. One dataset (the kit universe scaled up) is
// loaded with identical logical contents into eight servers: {memtable only, flushed,
// mixed with out-of-order files, fully compacted} × {ptnum-pernode 1, 3}. Every
// generated query of the property's subset is run in a pairwise-covering subset of the
// configuration matrix (response chunking, inner chunk size, reader parallelism, the
// executor switches of /debug/ctrl, server, layout, ascending/descending) and judged by
// two oracles: (i) metamorphic — every cell gives the same canonicalised answer;
// (ii) reference — the answer is in the admissible set of the evaluator in iql.go.
package main

import (
	"encoding/json"
	"fmt"
	"math/rand/v2"
	"net/url"
	"os"
	"path/filepath"
	"sort"
	"strconv"
	"strings"
	"sync"
	"time"

	"verifharness/kit"
	"verifharness/model"
	"verifharness/proc"
	"verifharness/vf"
)

const db = "db0"

var layouts = []string{"mem", "flushed", "mixed", "compacted", "ordered4"}
var ptnums = []int{1, 3}

type settings struct {
	Par   int  `json:"chunk_reader_parallel"`
	BTM   bool `json:"binary_tree_merge"`
	SWPU  bool `json:"sliding_window_push_up"`
	Batch bool `json:"parallelbatch"`
}

type cell struct {
	Layout  string `json:"layout"`
	Pt      int    `json:"ptnum"`
	Chunked int    `json:"chunk_size"` // 0: response not chunked
	Inner   int    `json:"inner_chunk_size"`
	settings
	Desc bool `json:"desc"`
}

func (c cell) String() string {
	b := func(x bool) int {
		if x {
			return 1
		}
		return 0
	}
	return fmt.Sprintf("%s/pt%d/chunk%d/inner%d/par%d/btm%d/swpu%d/batch%d/desc%d", c.Layout, c.Pt, c.Chunked, c.Inner, c.Par, b(c.BTM), b(c.SWPU), b(c.Batch), b(c.Desc))
}

var chunkSizes = []int{0, 1, 3}
var innerSizes = []int{1, 2, 3, 7, 1024}

func allSettings() []settings {
	var out []settings
	for _, p := range []int{1, 2, 8} {
		for _, b := range []bool{false, true} {
			for _, s := range []bool{false, true} {
				for _, q := range []bool{false, true} {
					out = append(out, settings{p, b, s, q})
				}
			}
		}
	}
	return out
}

type outcome struct {
	cell cell
	ans  *answer
	ans2 *answer // second statement of a parallelbatch request
	err  string
	ran  bool
}

type runner struct {
	c   *vf.Ctx
	bin string
}

type job struct {
	qi, ci int
}

// planCells gives every query perServer cells on each of the eight servers; the other
// dimensions are drawn so that over a dataset all pairs of values occur (the evidence
// reports the pairs actually exercised). groups[server] lists the global settings that
// server is switched through.
func planCells(r *rand.Rand, nq, perServer, groupsPerServer int) (cells [][]cell, groups map[string][]settings) {
	all := allSettings()
	r.Shuffle(len(all), func(i, j int) { all[i], all[j] = all[j], all[i] })
	groups = map[string][]settings{}
	k := 0
	for _, l := range layouts {
		for _, p := range ptnums {
			key := fmt.Sprintf("%s/%d", l, p)
			for g := 0; g < groupsPerServer; g++ {
				groups[key] = append(groups[key], all[k%len(all)])
				k++
			}
		}
	}
	cells = make([][]cell, nq)
	for qi := 0; qi < nq; qi++ {
		n := 0
		for _, l := range layouts {
			for _, p := range ptnums {
				gs := groups[fmt.Sprintf("%s/%d", l, p)]
				for x := 0; x < perServer; x++ {
					c := cell{Layout: l, Pt: p, settings: gs[r.IntN(len(gs))],
						Chunked: chunkSizes[r.IntN(len(chunkSizes))], Inner: innerSizes[r.IntN(len(innerSizes))]}
					// both orders in every query: alternate, with a random phase
					c.Desc = (n+qi)%2 == 0
					if r.IntN(5) == 0 {
						c.Desc = !c.Desc
					}
					n++
					cells[qi] = append(cells[qi], c)
				}
			}
		}
	}
	return cells, groups
}

func (rn *runner) ctrl(s *proc.Server, q string) error {
	resp, err := s.HTTP.Post(s.URL()+"/debug/ctrl?"+q, "", nil)
	if err != nil {
		return err
	}
	defer resp.Body.Close()
	if resp.StatusCode/100 != 2 {
		return fmt.Errorf("/debug/ctrl?%s: status %d", q, resp.StatusCode)
	}
	return nil
}

func b01(b bool) string {
	if b {
		return "1"
	}
	return "0"
}

func (rn *runner) apply(s *proc.Server, st settings) error {
	for _, q := range []string{
		"mod=chunk_reader_parallel&limit=" + strconv.Itoa(st.Par),
		"mod=binary_tree_merge&enabled=" + b01(st.BTM),
		"mod=sliding_window_push_up&enabled=" + b01(st.SWPU),
		"mod=parallelbatch&enabled=" + strconv.FormatBool(st.Batch),
	} {
		if err := rn.ctrl(s, q); err != nil {
			return err
		}
	}
	return nil
}

// load brings the server into the layout with the dataset's logical contents.
func (rn *runner) load(s *proc.Server, d *dataset, layout string) error {
	write := func(part int) error {
		for _, b := range batches(d.Parts[part], 250) {
			if wr := s.Write(db, model.LPBatch(b), nil); !wr.Acked() {
				return fmt.Errorf("write not acknowledged: %d %s %v", wr.Status, wr.Body, wr.Err)
			}
		}
		return nil
	}
	var steps []string
	if layout == "ordered4" {
		// ingestion in time order with periodic flushes: the rows sorted by time and cut at
		// four timestamps; four slices become ordered files one after the other (several per
		// shard), the newest slice stays in the memtable. Rows of one (series,timestamp) share
		// a slice, so every row is still written in exactly one flush generation.
		var all []model.Point
		for _, part := range d.Parts {
			all = append(all, part...)
		}
		sort.SliceStable(all, func(i, j int) bool { return all[i].T < all[j].T })
		lo := 0
		for k := 1; k <= 5; k++ {
			hi := len(all) * k / 5
			for hi < len(all) && hi > 0 && all[hi].T == all[hi-1].T {
				hi++
			}
			if k == 5 {
				hi = len(all)
			}
			if hi > lo {
				for _, b := range batches(all[lo:hi], 250) {
					if wr := s.Write(db, model.LPBatch(b), nil); !wr.Acked() {
						return fmt.Errorf("write not acknowledged: %d %s %v", wr.Status, wr.Body, wr.Err)
					}
				}
			}
			lo = hi
			if k < 5 {
				if err := s.Flush(); err != nil {
					return fmt.Errorf("flush: %v", err)
				}
			}
		}
		return nil
	}
	switch layout {
	case "mem":
		steps = []string{"base", "late", "tail"}
	case "flushed":
		steps = []string{"base", "late", "tail", "flush"}
	case "mixed":
		steps = []string{"base", "flush", "late", "flush", "tail"}
	case "compacted":
		steps = []string{"base", "flush", "late", "flush", "tail", "flush", "merge", "compact"}
	}
	for _, st := range steps {
		var err error
		switch st {
		case "base":
			err = write(0)
		case "late":
			err = write(1)
		case "tail":
			err = write(2)
		case "flush":
			err = s.Flush()
		case "merge":
			err = s.Merge()
		case "compact":
			err = s.Compact("full")
		}
		if err != nil {
			return fmt.Errorf("%s: %v", st, err)
		}
	}
	return nil
}

func (c cell) params() url.Values {
	v := url.Values{}
	if c.Chunked > 0 {
		v.Set("chunked", "true")
		v.Set("chunk_size", strconv.Itoa(c.Chunked))
	}
	v.Set("inner_chunk_size", strconv.Itoa(c.Inner))
	return v
}

// runCell executes the query text in one cell. With parallelbatch the text is sent twice
// in one request (two statements executed concurrently); the second answer is judged too.
func (rn *runner) runCell(s *proc.Server, dbname string, q *querySpec, c cell) outcome {
	o := outcome{cell: c, ran: true}
	text := q.text(c.Desc)
	if c.Batch {
		text = text + "; " + text
	}
	res, err := s.Query(dbname, text, c.params())
	if err != nil {
		o.err = err.Error()
		return o
	}
	a, err := decodeAnswer(res, 0)
	if err != nil {
		o.err = err.Error()
		return o
	}
	o.ans = a
	if c.Batch {
		a2, err := decodeAnswer(res, 1)
		if err != nil {
			o.err = "second statement of the batch: " + err.Error()
			return o
		}
		o.ans2 = a2
	}
	return o
}

// runServer starts one server, loads the layout, and runs its share of the matrix.
func (rn *runner) runServer(d *dataset, qs []*querySpec, cells [][]cell, groups []settings, layout string, pt, worker int, out [][]outcome) bool {
	c := rn.c
	dir := filepath.Join(c.Scratch, fmt.Sprintf("d%d-%s-%d", d.Index, layout, pt))
	defer os.RemoveAll(dir)
	s := proc.New(proc.Config{BGOff: true, Bin: rn.bin, Dir: dir, IP: proc.IP(8, worker), PtNum: pt,
		Extra: map[string][]string{"data.memtable": {`write-cold-duration = "1h"`, `force-snapShot-duration = "1h"`}}})
	if err := s.Start(); err != nil {
		c.Broken("start: %v", err)
		return false
	}
	defer s.Kill()
	if err := s.WaitReady(300 * time.Second); err != nil {
		c.Broken("dataset %d %s/pt%d: %v", d.Index, layout, pt, err)
		return false
	}
	if _, err := s.Query("", "CREATE DATABASE "+db+" WITH SHARD DURATION 1h", nil); err != nil {
		c.Broken("create database: %v", err)
		return false
	}
	_ = rn.ctrl(s, "mod=compen&switchon=false&allshards=true")
	_ = rn.ctrl(s, "mod=merge&switchon=false&allshards=true")
	if err := rn.load(s, d, layout); err != nil {
		c.Broken("dataset %d %s/pt%d: load: %v", d.Index, layout, pt, err)
		return false
	}
	var all []model.Point
	for _, p := range d.Parts {
		all = append(all, p...)
	}
	if _, err := kit.WaitSeries(s, db, all, 180*time.Second); err != nil {
		c.Inconclusive("series-never-visible", 1)
		fmt.Printf("INCONCLUSIVE C08 dataset %d %s/pt%d: %v\n", d.Index, layout, pt, err)
		return false
	}
	// precondition of every judgement: the full contents read back equal the model
	want := kit.Expect(d.M, d.U.Msts, kit.DumpOpts{})
	got, probs, err := kit.StableDump(s, db, d.U.Msts, d.M.Schema, func(g model.Contents) bool { return len(model.Diff(want, g, "", 1)) == 0 }, 60*time.Second)
	if err != nil {
		c.Broken("dataset %d %s/pt%d: dump: %v", d.Index, layout, pt, err)
		return false
	}
	if diff := model.Diff(want, got, "", 5); len(diff) > 0 || len(probs) > 0 {
		c.Violation("load:contents-differ-from-model|"+layout, fmt.Sprintf("dataset %d on the %s server (ptnum %d): SELECT * GROUP BY * differs from the written contents: %v %v", d.Index, layout, pt, diff, probs),
			map[string]any{"dataset": d.witness(""), "layout": layout, "ptnum": pt, "diff": diff})
		return false
	}
	l := kit.ReadLayout(s, db)
	c.Distinct("layout-observed", layout+": "+l.String())
	reached := false
	switch layout {
	case "mem":
		reached = l.ActiveMem && l.Ordered == 0 && l.Unordered == 0
	case "flushed":
		reached = !l.ActiveMem && l.Ordered > 0 && l.Unordered == 0
	case "mixed":
		reached = l.ActiveMem && l.Ordered > 0 && l.Unordered > 0
	case "compacted":
		reached = !l.ActiveMem && l.Ordered > 0 && l.Unordered == 0
	case "ordered4":
		reached = l.ActiveMem && l.Ordered >= 4 && l.Unordered == 0
	}
	if !reached {
		// the answers are still judged (same logical contents), but the layout cell is not what it claims
		c.Inconclusive("category-not-reached:layout-"+layout, 1)
		fmt.Printf("INCONCLUSIVE C08 dataset %d %s/pt%d: layout observed %s\n", d.Index, layout, pt, l.String())
	}
	return rn.runJobs(s, db, d, qs, cells, groups, layout, pt, out)
}

// runJobs runs this server's share of the matrix, grouped by global settings.
func (rn *runner) runJobs(s *proc.Server, dbname string, d *dataset, qs []*querySpec, cells [][]cell, groups []settings, layout string, pt int, out [][]outcome) bool {
	c := rn.c
	for _, g := range groups {
		var jobs []job
		for qi := range cells {
			for ci, cl := range cells[qi] {
				if cl.Layout == layout && cl.Pt == pt && cl.settings == g {
					jobs = append(jobs, job{qi, ci})
				}
			}
		}
		if len(jobs) == 0 {
			continue
		}
		if err := rn.apply(s, g); err != nil {
			c.Broken("dataset %d %s/pt%d: %v", d.Index, layout, pt, err)
			return false
		}
		ch := make(chan job)
		var wg sync.WaitGroup
		for w := 0; w < queryWorkers(); w++ {
			wg.Add(1)
			go func() {
				defer wg.Done()
				for j := range ch {
					out[j.qi][j.ci] = rn.runCell(s, dbname, qs[j.qi], cells[j.qi][j.ci])
				}
			}()
		}
		for _, j := range jobs {
			ch <- j
		}
		close(ch)
		wg.Wait()
		if s.Pid() != 0 && !s.Alive() {
			c.Violation("server-died:"+firstFatal(s.StdoutTail(1<<20)), fmt.Sprintf("dataset %d %s/pt%d: server died while answering queries", d.Index, layout, pt),
				map[string]any{"dataset": d.witness(""), "layout": layout, "ptnum": pt, "stdout": s.StdoutTail(4000)})
			return false
		}
	}
	return true
}

// queryWorkers: queries in flight per server (they share the server's global settings).
func queryWorkers() int {
	if v, err := strconv.Atoi(os.Getenv("VERIF_C08_WORKERS")); err == nil && v > 0 {
		return v
	}
	return 3
}

func firstFatal(s string) string {
	for _, ln := range strings.Split(s, "\n") {
		if strings.HasPrefix(ln, "panic:") || strings.HasPrefix(ln, "fatal error:") {
			if len(ln) > 140 {
				ln = ln[:140]
			}
			return ln
		}
	}
	return "no panic line"
}

// witness renders the dataset (restricted to one measurement if mst != "") as line protocol.
func (d *dataset) witness(mst string) map[string]any {
	w := map[string]any{"index": d.Index}
	for i, part := range d.Parts {
		var lines []string
		for _, p := range part {
			if mst == "" || p.Mst == mst {
				lines = append(lines, p.LP())
			}
		}
		w[partNames[i]] = lines
	}
	return w
}

func datasetFromWitness(w map[string]any) (*dataset, error) {
	d := &dataset{M: model.New(), Tags: map[string]map[string]string{}, U: kit.NewUniverse(1, 12, 1)}
	d.U.Msts = nil
	msts := map[string]bool{}
	for i, name := range partNames {
		raw, _ := w[name].([]any)
		for _, x := range raw {
			ln, _ := x.(string)
			p, err := model.ParseLP(ln)
			if err != nil {
				return nil, err
			}
			d.Parts[i] = append(d.Parts[i], p)
			d.Tags[model.SeriesKey(p.Tags)] = p.Tags
			msts[p.Mst] = true
		}
		d.M.Apply(d.Parts[i])
	}
	for m := range msts {
		d.U.Msts = append(d.U.Msts, m)
	}
	sort.Strings(d.U.Msts)
	if f, ok := w["index"].(float64); ok {
		d.Index = int(f)
	}
	return d, nil
}

// runDataset runs every query of the dataset through its cells on the eight servers
// (started together) and judges the outcomes.
func (rn *runner) runDataset(d *dataset, qs []*querySpec, cells [][]cell, groups map[string][]settings, workerBase int) {
	out := make([][]outcome, len(qs))
	for qi := range qs {
		out[qi] = make([]outcome, len(cells[qi]))
		for ci := range cells[qi] {
			out[qi][ci].cell = cells[qi][ci]
		}
	}
	var wg sync.WaitGroup
	w := 0
	for _, l := range layouts {
		for _, p := range ptnums {
			need := false
			for qi := range cells {
				for _, cl := range cells[qi] {
					need = need || cl.Layout == l && cl.Pt == p
				}
			}
			if !need {
				continue
			}
			wg.Add(1)
			go func(l string, p, w int) {
				defer wg.Done()
				rn.runServer(d, qs, cells, groups[fmt.Sprintf("%s/%d", l, p)], l, p, w, out)
			}(l, p, workerBase+w)
			w++
		}
	}
	wg.Wait()
	for qi, q := range qs {
		rn.judge(d, qi, q, out[qi])
	}
}

func main() {
	c := vf.New("C08", "exploration")
	c.SetRule("seeded datasets (2-3 measurements, 12 series over 2 tag keys, 100-200 timestamps with gaps and sub-second steps, partial rows, equal timestamps across series, 4 typed fields, two shard groups) loaded with identical logical contents into 8 real ts-servers = {memtable only, flushed, mixed ordered+out-of-order+memtable, fully compacted} x {ptnum 1, 3}; seeded queries of the property's subset (plain selections and count/sum/mean/min/max/first/last, time/tag/field filters with AND/OR, GROUP BY tags/*, GROUP BY time with fill none/null/number/previous, LIMIT/OFFSET on ungrouped selections) plus a share of metamorphic-only shapes, each run in a pairwise-covering subset of the matrix chunked x inner_chunk_size x chunk_reader_parallel x binary_tree_merge x sliding_window_push_up x parallelbatch x server x layout x asc/desc; oracles: all cells give the same canonical answer; the answer is in the reference evaluator's admissible set. distinct non-trivial = distinct (query shape) whose answer had at least one row and was judged in >= 2 cells")
	c.Assume("the reference evaluator (c08/iql.go) encodes the documented InfluxQL semantics; where the language leaves a choice it admits every alternative")
	c.Assume("series visibility is waited for and the full contents are read back equal to the model before any query is judged; background compaction/merge are off and layouts are driven through the control port")
	bin, err := proc.Build(c.RepoDir, c.Scratch, "ts-server", false)
	if err != nil {
		c.Broken("build ts-server: %v", err)
		c.Finish()
	}
	rn := &runner{c: c, bin: bin}
	if c.ReplayIn != "" {
		rn.replay()
		c.Finish()
	}
	if at := os.Getenv("VERIF_C08_ATTACH"); at != "" {
		rn.attach(strings.Split(at, ","))
		c.Finish()
	}
	nds := c.Pick(1, 8)
	nq := c.Pick(60, 300)
	perServer := c.Pick(1, 3)
	groupsPerServer := c.Pick(3, 6)
	par := c.Pick(1, 2) // datasets in flight (8 servers each)
	if v, err := strconv.Atoi(os.Getenv("VERIF_C08_QUERIES")); err == nil && v > 0 {
		nq = v
	}
	sem := make(chan int, par)
	for i := 0; i < par; i++ {
		sem <- i
	}
	var wg sync.WaitGroup
	for di := 0; di < nds; di++ {
		r := c.Rand(uint64(100 + di))
		d := genDataset(r, di, 100+r.IntN(101))
		qs := make([]*querySpec, nq)
		qr := c.Rand(uint64(200 + di))
		for i := range qs {
			qs[i] = genQuery(qr, d)
		}
		cells, groups := planCells(c.Rand(uint64(300+di)), nq, perServer, groupsPerServer)
		// every 6th query is a tie probe, run with inner chunk sizes 1, 2 and 1024
		for i := 0; i < nq; i += 6 {
			qs[i] = genTieProbe(qr, d, i/6)
			for ci := range cells[i] {
				cells[i][ci].Inner = probeInner[ci%len(probeInner)]
			}
		}
		// every 6th query (phase 3) is a paging probe: a LIMIT/OFFSET window placed anywhere
		// in the answer of one series (or of all of them), so that windows straddle the
		// boundaries between files, shards and the memtable
		for i := 3; i < nq; i += 6 {
			qs[i] = genPageProbe(qr, d, i/6)
		}
		// every 6th query (phase 1) is a grouped paging probe, run with inner chunk sizes 1, 2, 1024
		for i := 1; i < nq; i += 6 {
			qs[i] = genGroupedPageProbe(qr, d, i/6)
			for ci := range cells[i] {
				cells[i][ci].Inner = probeInner[ci%len(probeInner)]
			}
		}
		// every 6th query (phase 5) is a fill probe: few buckets, zero to two of them empty,
		// run with inner chunk sizes 1, 2 and 1024 like the tie probes
		for i := 5; i < nq; i += 6 {
			qs[i] = genFillProbe(qr, d, i/6)
			for ci := range cells[i] {
				cells[i][ci].Inner = probeInner[ci%len(probeInner)]
			}
		}
		slot := <-sem
		wg.Add(1)
		go func(d *dataset, slot int) {
			defer func() { sem <- slot; wg.Done() }()
			rn.runDataset(d, qs, cells, groups, slot*len(layouts)*len(ptnums))
		}(d, slot)
	}
	wg.Wait()
	rn.finishEvidence()
	c.Finish()
}

func (rn *runner) replay() {
	c := rn.c
	b, err := os.ReadFile(c.ReplayIn)
	if err != nil {
		c.Broken("replay: %v", err)
		return
	}
	var w struct {
		Witness struct {
			Dataset map[string]any `json:"dataset"`
			Query   *querySpec     `json:"query"`
			Cells   []cell         `json:"cells"`
		} `json:"witness"`
	}
	if err := json.Unmarshal(b, &w); err != nil || w.Witness.Query == nil {
		c.Broken("replay: unreadable witness: %v", err)
		return
	}
	d, err := datasetFromWitness(w.Witness.Dataset)
	if err != nil {
		c.Broken("replay: %v", err)
		return
	}
	qs := []*querySpec{w.Witness.Query}
	cells := [][]cell{w.Witness.Cells}
	groups := map[string][]settings{}
	for _, cl := range w.Witness.Cells {
		k := fmt.Sprintf("%s/%d", cl.Layout, cl.Pt)
		dup := false
		for _, g := range groups[k] {
			dup = dup || g == cl.settings
		}
		if !dup {
			groups[k] = append(groups[k], cl.settings)
		}
	}
	rn.runDataset(d, qs, cells, groups, 0)
	c.Nontrivial("replay-a")
	c.Nontrivial("replay-b")
}

// attach (calibration aid, not used by ./run): VERIF_C08_ATTACH=ip1,ip2 runs the queries
// of dataset 0 against servers that are already up (memtable layout only; the i-th server
// stands for ptnum index i).
func (rn *runner) attach(ips []string) {
	c := rn.c
	r := c.Rand(100)
	d := genDataset(r, 0, 100+r.IntN(101))
	nq := 200
	if v, err := strconv.Atoi(os.Getenv("VERIF_C08_QUERIES")); err == nil && v > 0 {
		nq = v
	}
	qr := c.Rand(200)
	qs := make([]*querySpec, nq)
	for i := range qs {
		qs[i] = genQuery(qr, d)
	}
	cells, _ := planCells(c.Rand(300), nq, 1, 3)
	if only := os.Getenv("VERIF_C08_ONLY"); only != "" {
		keep := map[int]bool{}
		for _, x := range strings.Split(only, ",") {
			if strings.Contains(x, "-") {
				var a, b int
				fmt.Sscanf(x, "%d-%d", &a, &b)
				for i := a; i <= b; i++ {
					keep[i] = true
				}
			} else {
				v, _ := strconv.Atoi(x)
				keep[v] = true
			}
		}
		for qi := range cells {
			if !keep[qi] {
				cells[qi] = nil
			}
		}
	}
	dbname := fmt.Sprintf("c08s%d", c.Seed)
	out := make([][]outcome, nq)
	for qi := range qs {
		var keep []cell
		for _, cl := range cells[qi] {
			if cl.Layout == "mem" {
				if os.Getenv("VERIF_C08_NOBTM") != "" {
					cl.BTM = false
				}
				keep = append(keep, cl)
			}
		}
		cells[qi] = keep
		out[qi] = make([]outcome, len(keep))
	}
	var wg sync.WaitGroup
	for i, ip := range ips {
		if i >= len(ptnums) {
			break
		}
		s := proc.New(proc.Config{IP: ip})
		res, err := s.Query("", "SHOW DATABASES", nil)
		if err != nil {
			c.Broken("attach %s: %v", ip, err)
			return
		}
		if !strings.Contains(res.Raw, `"`+dbname+`"`) {
			if _, err := s.Query("", "CREATE DATABASE "+dbname+" WITH SHARD DURATION 1h", nil); err != nil {
				c.Broken("attach %s: %v", ip, err)
				return
			}
			for _, part := range d.Parts {
				for _, b := range batches(part, 250) {
					if wr := s.Write(dbname, model.LPBatch(b), nil); !wr.Acked() {
						c.Broken("attach %s: write %d %s", ip, wr.Status, wr.Body)
						return
					}
				}
			}
		}
		var all []model.Point
		for _, p := range d.Parts {
			all = append(all, p...)
		}
		if _, err := kit.WaitSeries(s, dbname, all, 60*time.Second); err != nil {
			c.Broken("attach %s: %v", ip, err)
			return
		}
		var gs []settings
		seen := map[settings]bool{}
		for qi := range cells {
			for _, cl := range cells[qi] {
				if cl.Pt == ptnums[i] && !seen[cl.settings] {
					seen[cl.settings] = true
					gs = append(gs, cl.settings)
				}
			}
		}
		wg.Add(1)
		go func(s *proc.Server, pt int) {
			defer wg.Done()
			rn.runJobs(s, dbname, d, qs, cells, gs, "mem", pt, out)
		}(s, ptnums[i])
	}
	wg.Wait()
	for qi, q := range qs {
		rn.judge(d, qi, q, out[qi])
	}
}
