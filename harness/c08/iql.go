package main

// Reference evaluator for exactly the InfluxQL subset that property C08 names, written
// from the documented semantics (InfluxQL 1.x data exploration / functions reference),
// evaluated directly over the logical contents (the last-write-wins model). Where the
// language leaves a choice the evaluator returns every admissible alternative.
//
// Documented rules used:
//   - a comparison with a missing (null) field or tag value is false;
//   - a plain selection returns a row for a (series,time) when at least one selected
//     FIELD is non-null there; tags in the select list are only carried along;
//   - SELECT * lists every field and every tag that is not a GROUP BY dimension;
//   - rows come in time order per output series (GROUP BY tag set); the order of rows
//     with equal time from different input series is open;
//   - LIMIT/OFFSET cut the ordered row list (after ORDER BY);
//   - an aggregate/selector without GROUP BY time returns one row per group; its time is
//     the selected point's time for a lone selector (first/last/min/max), else the lower
//     time bound (0 without one); min/max ties may report any of the tied points;
//     first/last at equal time in different series may report any of them;
//   - GROUP BY time(d) buckets are epoch aligned [k·d,(k+1)·d); the buckets of the
//     query's time range are reported for each group that has at least one point in the
//     range; fill(null) (default) reports null (count: 0), fill(none) drops empty
//     buckets, fill(n) reports n, fill(previous) the value of the previous bucket (null
//     if there is none);
//   - ORDER BY time DESC returns the ascending answer reversed.

import (
	"math"
	"regexp"
	"sort"
	"strconv"

	"verifharness/model"
)

var null = model.Value{}

func timeVal(t int64) model.Value { return model.Value{Kind: 'i', I: t} }

// expGroup: the next Take observed rows must be a sub-multiset of Alts.
type expGroup struct {
	Alts [][]model.Value
	Take int
	// for the finding classifier (aggregates only)
	Empty   bool            // a bucket without data (filled)
	Leading bool            // filled with null because no bucket with data precedes it
	Phantom bool            // no value, but rows that pass the field filter exist in the window
	Points  [][]model.Value // first/last: every (time,value) of the bucket / group
}

// quirks are models of KNOWN defects of the product (see known_findings.d/c08.json).
// The reference oracle never uses them; the classifier evaluates a failing answer
// against them to name the finding precisely.
type quirks struct {
	NullRows  bool // a field filter keeps rows whose selected fields are all null
	PrevLater bool // descending fill(previous) takes the value of the later bucket
	// an aggregate with a field filter: a group / fill(none) bucket whose rows pass the
	// filter but carry no value of the aggregated field is reported as a null row
	PhantomNull bool
}

type expSeries struct {
	Tags   map[string]string
	Key    string
	Cols   []string
	Kinds  []byte // per column: 'i' 'f' 'b' 's' ('i' for time)
	Groups []expGroup
	// evidence
	InPoints int // input points aggregated / rows selected in this series
}

type expected struct {
	Series  []expSeries
	MeanCol bool
}

// choice: some position admits more than one answer (beyond the order of equal-time rows)
func (e *expected) choice() bool {
	for _, s := range e.Series {
		for _, g := range s.Groups {
			if len(g.Alts) > g.Take {
				return true
			}
		}
	}
	return false
}

func (e *expected) rows() int {
	n := 0
	for _, s := range e.Series {
		for _, g := range s.Groups {
			n += g.Take
		}
	}
	return n
}

func (p *pred) fields(out *[]string) {
	if p == nil {
		return
	}
	switch p.Op {
	case "field":
		*out = append(*out, p.Key)
	case "and", "or":
		p.L.fields(out)
		p.R.fields(out)
	}
}

func evalPred(p *pred, r *mrow) bool {
	if p == nil {
		return true
	}
	switch p.Op {
	case "and":
		return evalPred(p.L, r) && evalPred(p.R, r)
	case "or":
		return evalPred(p.L, r) || evalPred(p.R, r)
	case "tag":
		v := r.tags[p.Key] // every series of the universe carries both tag keys
		switch p.Cmp {
		case "=":
			return v == p.Val
		case "!=":
			return v != p.Val
		case "=~":
			return regexp.MustCompile(p.Val).MatchString(v)
		case "!~":
			return !regexp.MustCompile(p.Val).MatchString(v)
		}
		return false
	}
	v, ok := r.f[p.Key]
	if !ok {
		return false
	}
	switch v.Kind {
	case 'b':
		want := p.Val == "true"
		if p.Cmp == "=" {
			return v.B == want
		}
		return v.B != want
	case 's':
		if p.Cmp == "=" {
			return v.S == p.Val
		}
		return v.S != p.Val
	}
	x := v.F
	if v.Kind == 'i' {
		x = float64(v.I)
	}
	y, _ := strconv.ParseFloat(p.Val, 64)
	switch p.Cmp {
	case "=":
		return x == y
	case "!=":
		return x != y
	case "<":
		return x < y
	case "<=":
		return x <= y
	case ">":
		return x > y
	case ">=":
		return x >= y
	}
	return false
}

func (q *querySpec) inTime(t int64) bool {
	if q.Lo != nil && (t < q.Lo.T || t == q.Lo.T && !q.Lo.Incl) {
		return false
	}
	if q.Hi != nil && (t > q.Hi.T || t == q.Hi.T && !q.Hi.Incl) {
		return false
	}
	return true
}

var allTags = []string{"host", "region"}
var allFields = []string{"fb", "ff", "fi", "fs"}

func (q *querySpec) dims() []string {
	if q.GroupStar {
		return allTags
	}
	d := append([]string{}, q.GroupTags...)
	sort.Strings(d)
	return d
}

func floorDiv(a, b int64) int64 {
	q := a / b
	if a%b != 0 && (a < 0) != (b < 0) {
		q--
	}
	return q
}

// evaluate computes the admissible answers of q (in the order asked for) over rows.
// schema: the fields that exist in the measurement.
func evaluate(q *querySpec, rows []mrow, schema map[string]byte, desc bool, qk quirks) *expected {
	dims := q.dims()
	type grp struct {
		tags map[string]string
		rows []*mrow
	}
	groups := map[string]*grp{}
	for i := range rows {
		r := &rows[i]
		if !q.inTime(r.t) || !evalPred(q.Where, r) {
			continue
		}
		gt := map[string]string{}
		for _, d := range dims {
			gt[d] = r.tags[d]
		}
		k := model.SeriesKey(gt)
		g := groups[k]
		if g == nil {
			g = &grp{tags: gt}
			groups[k] = g
		}
		g.rows = append(g.rows, r) // rows are already ordered by (time, series)
	}
	keys := make([]string, 0, len(groups))
	for k := range groups {
		keys = append(keys, k)
	}
	sort.Strings(keys)
	exp := &expected{}
	var hasTag, hasField bool
	q.Where.kinds(&hasTag, &hasField)
	var condFields []string
	q.Where.fields(&condFields)
	if !q.Agg {
		// ---- plain selection
		var cols []string
		if q.Star {
			names := []string{}
			for _, f := range allFields {
				if _, ok := schema[f]; ok {
					names = append(names, f)
				}
			}
			for _, t := range allTags {
				isDim := false
				for _, d := range dims {
					isDim = isDim || d == t
				}
				if !isDim {
					names = append(names, t)
				}
			}
			sort.Strings(names)
			cols = names
		} else {
			cols = q.Cols
		}
		kinds := []byte{'i'}
		for _, c := range cols {
			if k, ok := fieldKinds[c]; ok {
				kinds = append(kinds, k)
			} else {
				kinds = append(kinds, 's')
			}
		}
		for _, k := range keys {
			g := groups[k]
			es := expSeries{Tags: g.tags, Key: k, Cols: append([]string{"time"}, cols...), Kinds: kinds}
			for _, r := range g.rows {
				row := []model.Value{timeVal(r.t)}
				any := false
				for _, c := range cols {
					if _, isField := fieldKinds[c]; isField {
						v, ok := r.f[c]
						if ok {
							any = true
							row = append(row, v)
						} else {
							row = append(row, null)
						}
					} else {
						row = append(row, model.Str(r.tags[c]))
					}
				}
				if !any && qk.NullRows {
					// defect model: the row exists if any field the WHERE clause reads has a value
					for _, f := range condFields {
						if _, ok := r.f[f]; ok {
							any = true
						}
					}
				}
				if !any {
					continue
				}
				es.InPoints++
				if n := len(es.Groups); n > 0 && es.Groups[n-1].Alts[0][0].I == r.t {
					es.Groups[n-1].Alts = append(es.Groups[n-1].Alts, row)
					es.Groups[n-1].Take++
				} else {
					es.Groups = append(es.Groups, expGroup{Alts: [][]model.Value{row}, Take: 1})
				}
			}
			if desc {
				reverseGroups(es.Groups)
			}
			if q.Limit > 0 || q.Offset > 0 {
				es.Groups = window(es.Groups, q.Offset, q.Limit)
			}
			if len(es.Groups) > 0 {
				exp.Series = append(exp.Series, es)
			}
		}
		return exp
	}
	// ---- aggregate / selector call
	fk := fieldKinds[q.Field]
	rk := fk
	switch q.Func {
	case "count":
		rk = 'i'
	case "mean":
		rk = 'f'
		exp.MeanCol = true
	}
	type pt struct {
		t int64
		v model.Value
	}
	num := func(v model.Value) float64 {
		if v.Kind == 'i' {
			return float64(v.I)
		}
		return v.F
	}
	// agg returns the admissible (time,value) alternatives for points ps (non-empty);
	// selTime: report the selected point's time
	agg := func(ps []pt) [][2]model.Value {
		switch q.Func {
		case "count":
			return [][2]model.Value{{null, model.Int(int64(len(ps)))}}
		case "sum", "mean":
			var si int64
			sf := 0.0
			for _, p := range ps {
				si += p.v.I
				sf += num(p.v)
			}
			if q.Func == "mean" {
				return [][2]model.Value{{null, model.Float(sf / float64(len(ps)))}}
			}
			if fk == 'i' {
				return [][2]model.Value{{null, model.Int(si)}}
			}
			return [][2]model.Value{{null, model.Float(sf)}}
		case "min", "max":
			m := num(ps[0].v)
			for _, p := range ps {
				if q.Func == "min" && num(p.v) < m || q.Func == "max" && num(p.v) > m {
					m = num(p.v)
				}
			}
			var out [][2]model.Value
			for _, p := range ps {
				if num(p.v) == m {
					out = append(out, [2]model.Value{timeVal(p.t), p.v})
				}
			}
			return out
		}
		// first / last: ps are in time order
		bt := ps[0].t
		if q.Func == "last" {
			bt = ps[len(ps)-1].t
		}
		var out [][2]model.Value
		for _, p := range ps {
			if p.t == bt {
				out = append(out, [2]model.Value{timeVal(p.t), p.v})
			}
		}
		return out
	}
	dedup := func(alts [][]model.Value) [][]model.Value {
		seen := map[string]bool{}
		var out [][]model.Value
		for _, a := range alts {
			k := a[0].String() + "|" + a[1].String()
			if !seen[k] {
				seen[k] = true
				out = append(out, a)
			}
		}
		return out
	}
	var loT int64
	if q.Lo != nil {
		loT = q.Lo.T
		if !q.Lo.Incl {
			loT++
		}
	}
	for _, k := range keys {
		g := groups[k]
		var ps []pt
		for _, r := range g.rows {
			if v, ok := r.f[q.Field]; ok {
				ps = append(ps, pt{r.t, v})
			}
		}
		if len(ps) == 0 && !(qk.PhantomNull && len(g.rows) > 0) {
			continue
		}
		es := expSeries{Tags: g.tags, Key: k, Cols: []string{"time", q.Func}, Kinds: []byte{'i', rk}, InPoints: len(ps)}
		if q.Interval == 0 && len(ps) == 0 {
			alts := [][]model.Value{{timeVal(loT), null}}
			if q.Func == "first" || q.Func == "last" || q.Func == "min" || q.Func == "max" {
				// a selector reports the time of one of the passing rows
				for _, r := range g.rows {
					alts = append(alts, []model.Value{timeVal(r.t), null})
				}
			}
			es.Groups = []expGroup{{Alts: dedup(alts), Take: 1, Empty: true, Phantom: true}}
			exp.Series = append(exp.Series, es)
			continue
		}
		if q.Interval == 0 {
			var alts [][]model.Value
			for _, a := range agg(ps) {
				t := a[0]
				if t.Kind == 0 {
					t = timeVal(loT)
				}
				alts = append(alts, []model.Value{t, a[1]})
			}
			alts = dedup(alts)
			g := expGroup{Alts: alts, Take: 1}
			if q.Func == "first" || q.Func == "last" {
				for _, p := range ps {
					g.Points = append(g.Points, []model.Value{timeVal(p.t), p.v})
				}
			}
			es.Groups = []expGroup{g}
			exp.Series = append(exp.Series, es)
			continue
		}
		d := q.Interval
		hiT := q.Hi.T
		if !q.Hi.Incl {
			hiT--
		}
		if hiT < loT {
			continue
		}
		b0, b1 := floorDiv(loT, d), floorDiv(hiT, d)
		byBucket := map[int64][]pt{}
		for _, p := range ps {
			b := floorDiv(p.t, d)
			byBucket[b] = append(byBucket[b], p)
		}
		passing := map[int64]bool{}
		if hasField {
			for _, r := range g.rows {
				passing[floorDiv(r.t, d)] = true
			}
		}
		var prev [][]model.Value // alternatives of the previous bucket's value (fill previous)
		step := int64(1)
		bFrom, bTo := b0, b1
		if qk.PrevLater && desc {
			// the defect model: buckets are filled in output (descending) order
			step, bFrom, bTo = -1, b1, b0
		}
		for b := bFrom; b != bTo+step; b += step {
			bt := timeVal(b * d)
			if bp := byBucket[b]; len(bp) > 0 {
				var alts [][]model.Value
				for _, a := range agg(bp) {
					alts = append(alts, []model.Value{bt, a[1]})
				}
				alts = dedup(alts)
				g := expGroup{Alts: alts, Take: 1}
				if q.Func == "first" || q.Func == "last" {
					for _, p := range bp {
						g.Points = append(g.Points, []model.Value{bt, p.v})
					}
				}
				es.Groups = append(es.Groups, g)
				prev = alts
				continue
			}
			switch q.Fill {
			case "none":
				if passing[b] && qk.PhantomNull {
					es.Groups = append(es.Groups, expGroup{Alts: [][]model.Value{{bt, null}}, Take: 1, Empty: true, Phantom: true})
				}
				continue
			case "", "null":
				v := null
				if q.Func == "count" {
					v = model.Int(0)
				}
				es.Groups = append(es.Groups, expGroup{Alts: [][]model.Value{{bt, v}}, Take: 1, Empty: true})
			case "previous":
				if prev == nil {
					es.Groups = append(es.Groups, expGroup{Alts: [][]model.Value{{bt, null}}, Take: 1, Empty: true, Leading: true})
				} else {
					var alts [][]model.Value
					for _, a := range prev {
						alts = append(alts, []model.Value{bt, a[1]})
					}
					es.Groups = append(es.Groups, expGroup{Alts: alts, Take: 1, Empty: true})
				}
			default:
				n, _ := strconv.ParseInt(q.Fill, 10, 64)
				v := model.Int(n)
				if rk == 'f' {
					v = model.Float(float64(n))
				}
				es.Groups = append(es.Groups, expGroup{Alts: [][]model.Value{{bt, v}}, Take: 1, Empty: true})
			}
			if passing[b] {
				es.Groups[len(es.Groups)-1].Phantom = true
			}
		}
		if step < 0 {
			reverseGroups(es.Groups) // back to ascending
		}
		if desc {
			reverseGroups(es.Groups)
		}
		if len(es.Groups) > 0 {
			exp.Series = append(exp.Series, es)
		}
	}
	return exp
}

func reverseGroups(g []expGroup) {
	for i, j := 0, len(g)-1; i < j; i, j = i+1, j-1 {
		g[i], g[j] = g[j], g[i]
	}
}

// window applies OFFSET/LIMIT to the ordered list; a group of equal-time rows that is
// cut keeps all its alternatives but fewer are taken.
func window(gs []expGroup, offset, limit int) []expGroup {
	var out []expGroup
	pos := 0
	end := math.MaxInt
	if limit > 0 {
		end = offset + limit
	}
	for _, g := range gs {
		lo, hi := pos, pos+g.Take
		pos = hi
		if lo < offset {
			lo = offset
		}
		if hi > end {
			hi = end
		}
		if hi > lo {
			out = append(out, expGroup{Alts: g.Alts, Take: hi - lo})
		}
	}
	return out
}
