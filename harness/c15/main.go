// C15 — meta replicas converge on the same log, through snapshot and restore too.
//
// Drives the REAL meta state machine (app/ts-meta/meta storeFSM: Apply / ApplyBatch /
// Snapshot -> Persist bytes -> Restore) with command logs built by verifharness/metacmd.
// Instance A applies the whole log with Apply; B is snapshotted and restored into a fresh
// state machine at seeded positions (or, for short logs, at every position); C is a second
// plain instance that also uses ApplyBatch. Every recorded log is re-executed several
// times on fresh instances (Go randomises map iteration per range statement). After every
// step the canonical dumps and the Apply results must be equal.
package main

import (
	"encoding/json"
	"fmt"
	"math/rand/v2"
	"os"
	"sort"
	"strings"
	"sync"
	"time"

	"github.com/hashicorp/raft"
	ms "github.com/openGemini/openGemini/app/ts-meta/meta"
	"github.com/openGemini/openGemini/lib/config"
	"github.com/openGemini/openGemini/lib/logger"
	"go.uber.org/zap"

	"verifharness/metacmd"
	"verifharness/vf"
)

// Item is one log entry plus what happens after it.
type Item struct {
	Cmd      metacmd.Cmd `json:"cmd"`
	EndChunk bool        `json:"end_chunk,omitempty"` // a comparison point; B and C apply the chunk here
	BatchB   bool        `json:"batch_b,omitempty"`   // B applies the chunk through ApplyBatch
	BatchC   bool        `json:"batch_c,omitempty"`
	Snap     bool        `json:"snap,omitempty"`  // after this chunk: B = Restore(Persist(Snapshot(B))) into a fresh FSM
	Defer    int         `json:"defer,omitempty"` // after this chunk: B.Snapshot() now, Persist it Defer chunks later, restore into a fresh FSM, catch up
}

// Plan is a self-contained, replayable case.
type Plan struct {
	Opts        ms.VerifFSMOptions `json:"opts"`
	Replication bool               `json:"ha_policy_replication"`
	Items       []Item             `json:"items"`
	Reruns      int                `json:"reruns"`
}

type outcome struct {
	sig, what string
	at        int // item index of the comparison point
	panicked  string
	okCmds    int
	snaps     int
	snapsRich int // snapshots taken when the catalogue had a measurement
	defers    int
	dumps     []string   // A's dump after each chunk (index by chunk number)
	results   [][]string // A's results per chunk
	chunkEnd  []int      // item index of each chunk end
	everMixed bool       // the log at some point had a policy with both sharding types
}

func resString(r interface{}) string {
	switch x := r.(type) {
	case nil:
		return ""
	case error:
		return "err:" + x.Error()
	default:
		return fmt.Sprintf("%T:%v", r, r)
	}
}

func dumpFSM(f raft.FSM) string {
	return metacmd.Dump(ms.VerifFSMData(f)) + "cqNames=" + strings.Join(ms.VerifFSMCQNames(f), ",") + "\n"
}

type inst struct {
	f    raft.FSM
	name string
}

// applyChunk applies cmds (log indexes first..) and returns the canonical results.
func applyChunk(f raft.FSM, cmds []metacmd.Cmd, first uint64, batch bool) (res []string, pan any) {
	pan = vf.Catch(func() {
		if batch {
			logs := make([]*raft.Log, len(cmds))
			for i, c := range cmds {
				logs[i] = c.Log(first+uint64(i), 1)
			}
			for _, r := range f.(raft.BatchingFSM).ApplyBatch(logs) {
				res = append(res, resString(r))
			}
			return
		}
		for i, c := range cmds {
			res = append(res, resString(f.Apply(c.Log(first+uint64(i), 1))))
		}
	})
	return
}

// resClass names the kind of result difference: one replica succeeded and the other did
// not, or both failed with different errors.
func resClass(a, b []string, k int) string {
	if k < 0 || k >= len(a) || k >= len(b) {
		return "count"
	}
	if a[k] == "" || b[k] == "" {
		return "nil-vs-error"
	}
	return "error-vs-error"
}

func eqStrings(a, b []string) (int, bool) {
	if len(a) != len(b) {
		return -1, false
	}
	for i := range a {
		if a[i] != b[i] {
			return i, false
		}
	}
	return 0, true
}

type stats struct {
	c *vf.Ctx
}

func (s stats) cmd(name string, res string) {
	if s.c == nil {
		return
	}
	s.c.Distinct("cmd-type-applied", name)
	if res == "" {
		s.c.Distinct("cmd-type-returned-nil", name)
	} else {
		s.c.Distinct("cmd-type-returned-error", name)
	}
}

// exec runs a concrete plan on three instances and compares after every chunk.
func exec(p *Plan, st stats) *outcome {
	o := &outcome{}
	A := ms.VerifNewFSM(p.Opts)
	B := ms.VerifNewFSM(p.Opts)
	C := ms.VerifNewFSM(p.Opts)
	type pending struct {
		snap  raft.FSMSnapshot
		chunk int // chunk number at which it was taken
		due   int // chunk number at which it is persisted
	}
	var pend []pending
	var chunk []metacmd.Cmd
	var chunkRes []string
	var chunks [][]metacmd.Cmd
	var firsts []uint64
	next := uint64(2)
	first := next
	restored := false
	everMixed := false // sticky: the policy may be gone again by the time replicas are compared
	fail := func(at int, sig, what string) *outcome {
		if everMixed || mixedSharding(ms.VerifFSMData(A)) {
			// input class: the policy's measurements do not share one sharding type
			if k := strings.IndexByte(sig, '/'); k > 0 {
				sig = sig[:k] + "[mixed-sharding]" + sig[k:]
			}
		}
		if !restored {
			sig = strings.Replace(sig, "/after-restore", "/plain", 1)
		}
		o.sig, o.what, o.at = sig, what, at
		return o
	}
	for i := range p.Items {
		it := &p.Items[i]
		// A applies one command at a time
		r, pan := applyChunk(A, []metacmd.Cmd{it.Cmd}, next, false)
		next++
		if pan != nil {
			o.panicked = fmt.Sprintf("%s: %v", it.Cmd.Name, pan)
			o.at = i
			// do the other instances panic the same way? (they must)
			chunk = append(chunk, it.Cmd)
			_, pb := applyChunk(B, chunk, first, false)
			_, pc := applyChunk(C, chunk, first, false)
			if fmt.Sprint(pb) != fmt.Sprint(pan) || fmt.Sprint(pc) != fmt.Sprint(pan) {
				return fail(i, "panic-divergence/"+it.Cmd.Name, fmt.Sprintf("Apply panicked differently on replicas: A=%v B=%v C=%v", pan, pb, pc))
			}
			return o
		}
		st.cmd(it.Cmd.Name, r[0])
		if r[0] == "" {
			o.okCmds++
			if !everMixed && it.Cmd.Name == "CreateMeasurementCommand" && mixedSharding(ms.VerifFSMData(A)) {
				everMixed = true
				o.everMixed = true
			}
		}
		chunk = append(chunk, it.Cmd)
		chunkRes = append(chunkRes, r...)
		if !it.EndChunk && i != len(p.Items)-1 {
			continue
		}
		// comparison point
		cn := len(chunks)
		rb, pb := applyChunk(B, chunk, first, it.BatchB)
		rc, pc := applyChunk(C, chunk, first, it.BatchC)
		if pb != nil || pc != nil {
			return fail(i, "panic-divergence/"+it.Cmd.Name, fmt.Sprintf("A applied the chunk, B panic=%v C panic=%v", pb, pc))
		}
		if k, ok := eqStrings(chunkRes, rc); !ok {
			return fail(i, "result/"+chunk[max(k, 0)].Name+"/"+resClass(chunkRes, rc, k)+"/plain", fmt.Sprintf("results differ between two plain replicas (batch=%v): A=%q C=%q", it.BatchC, chunkRes, rc))
		}
		if k, ok := eqStrings(chunkRes, rb); !ok {
			return fail(i, "result/"+chunk[max(k, 0)].Name+"/"+resClass(chunkRes, rb, k)+"/after-restore", fmt.Sprintf("results differ between the full replica and the restored one (batch=%v): A=%q B=%q", it.BatchB, chunkRes, rb))
		}
		da := dumpFSM(A)
		if d, bad := metacmd.FirstDiff(da, dumpFSM(C)); bad {
			return fail(i, "diverge/"+d.Shape+"/plain", fmt.Sprintf("two plain replicas differ after %s: %s A=%s C=%s (%d lines differ)", it.Cmd.Name, d.Path, d.A, d.B, d.Count))
		}
		if d, bad := metacmd.FirstDiff(da, dumpFSM(B)); bad {
			return fail(i, "diverge/"+d.Shape+"/after-restore", fmt.Sprintf("restored replica differs from the full one after %s: %s A=%s B=%s (%d lines differ)", it.Cmd.Name, d.Path, d.A, d.B, d.Count))
		}
		o.dumps = append(o.dumps, da)
		o.results = append(o.results, chunkRes)
		o.chunkEnd = append(o.chunkEnd, i)
		chunks = append(chunks, chunk)
		firsts = append(firsts, first)
		// deferred snapshots that fall due
		keep := pend[:0]
		for _, pd := range pend {
			if pd.due > cn && i != len(p.Items)-1 {
				keep = append(keep, pd)
				continue
			}
			b, err := ms.VerifPersist(pd.snap)
			if err != nil {
				return fail(i, "persist-error", err.Error())
			}
			D, err := ms.VerifRestoreNew(p.Opts, b)
			if err != nil {
				return fail(i, "restore-error", err.Error())
			}
			o.defers++
			if d, bad := metacmd.FirstDiff(o.dumps[pd.chunk], dumpFSM(D)); bad {
				return fail(i, "diverge/"+d.Shape+"/deferred-persist", fmt.Sprintf("snapshot taken after chunk %d but persisted after chunk %d does not hold the catalogue of chunk %d: %s expected=%s got=%s (%d lines differ)", pd.chunk, cn, pd.chunk, d.Path, d.A, d.B, d.Count))
			}
			for k := pd.chunk + 1; k <= cn; k++ {
				rd, pdn := applyChunk(D, chunks[k], firsts[k], false)
				if pdn != nil {
					return fail(i, "panic-divergence/deferred", fmt.Sprint(pdn))
				}
				if _, ok := eqStrings(o.results[k], rd); !ok {
					return fail(i, "result/deferred-persist", fmt.Sprintf("catch-up results differ: A=%q D=%q", o.results[k], rd))
				}
				if d, bad := metacmd.FirstDiff(o.dumps[k], dumpFSM(D)); bad {
					return fail(i, "diverge/"+d.Shape+"/deferred-catchup", fmt.Sprintf("%s A=%s D=%s", d.Path, d.A, d.B))
				}
			}
		}
		pend = keep
		if it.Snap {
			b, err := ms.VerifSnapshotBytes(B)
			if err != nil {
				return fail(i, "persist-error", err.Error())
			}
			nb, err := ms.VerifRestoreNew(p.Opts, b)
			if err != nil {
				return fail(i, "restore-error", err.Error())
			}
			B = nb
			restored = true
			o.snaps++
			if hasMeasurement(ms.VerifFSMData(A)) {
				o.snapsRich++
			}
			if d, bad := metacmd.FirstDiff(da, dumpFSM(B)); bad {
				return fail(i, "diverge/"+d.Shape+"/snapshot-restore", fmt.Sprintf("catalogue restored from a snapshot taken after %s differs from the catalogue it was taken from: %s before=%s after=%s (%d lines differ)", it.Cmd.Name, d.Path, d.A, d.B, d.Count))
			}
		}
		if it.Defer > 0 {
			s, err := B.Snapshot()
			if err != nil {
				return fail(i, "snapshot-error", err.Error())
			}
			pend = append(pend, pending{snap: s, chunk: cn, due: cn + it.Defer})
		}
		chunk, chunkRes = nil, nil
		first = next
	}
	return o
}

// mixedSharding reports whether some policy holds measurements of both sharding types
// (possible only through DROP MEASUREMENT m + CREATE MEASUREMENT m with the other type
// while the old version still awaits deletion). Used as an input-class tag in signatures.
func mixedSharding(d *metacmd.DataT) bool {
	for _, db := range d.Databases {
		for _, rp := range db.RetentionPolicies {
			seen := ""
			for _, m := range rp.Measurements {
				if len(m.ShardKeys) == 0 {
					continue
				}
				t := m.ShardKeys[0].Type
				if seen != "" && t != seen {
					return true
				}
				seen = t
			}
		}
	}
	return false
}

func hasMeasurement(d *metacmd.DataT) bool {
	for _, db := range d.Databases {
		for _, rp := range db.RetentionPolicies {
			if len(rp.Measurements) > 0 {
				return true
			}
		}
	}
	return false
}

// rerun executes the recorded plan on ONE fresh instance and compares with the dumps and
// results recorded from A (map-iteration-order witness).
func rerun(p *Plan, ref *outcome, batch bool) (sig string, what string) {
	D := ms.VerifNewFSM(p.Opts)
	everMixed := ref.everMixed
	defer func() {
		if sig != "" && (everMixed || mixedSharding(ms.VerifFSMData(D))) {
			if k := strings.IndexByte(sig, '/'); k > 0 {
				sig = sig[:k] + "[mixed-sharding]" + sig[k:]
			}
		}
	}()
	first := uint64(2)
	start := 0
	for cn, end := range ref.chunkEnd {
		var cmds []metacmd.Cmd
		for i := start; i <= end; i++ {
			cmds = append(cmds, p.Items[i].Cmd)
		}
		r, pan := applyChunk(D, cmds, first, batch && cn%2 == 0)
		if !everMixed && mixedSharding(ms.VerifFSMData(D)) {
			everMixed = true
		}
		if pan != nil {
			return "panic-divergence/rerun", fmt.Sprintf("re-execution panicked at chunk %d: %v", cn, pan)
		}
		if k, ok := eqStrings(ref.results[cn], r); !ok {
			return "result/" + cmds[max(k, 0)].Name + "/" + resClass(ref.results[cn], r, k) + "/rerun", fmt.Sprintf("re-execution of the same log returned different results at chunk %d: first=%q again=%q", cn, ref.results[cn], r)
		}
		if d, bad := metacmd.FirstDiff(ref.dumps[cn], dumpFSM(D)); bad {
			return "diverge/" + d.Shape + "/rerun", fmt.Sprintf("re-execution of the same log gives a different catalogue after chunk %d: %s first=%s again=%s", cn, d.Path, d.A, d.B)
		}
		first += uint64(len(cmds))
		start = end + 1
	}
	return "", ""
}

// truncate cuts the plan after item `at`.
func truncate(p *Plan, at int) *Plan {
	q := *p
	q.Items = append([]Item(nil), p.Items[:at+1]...)
	q.Items[at].EndChunk = true
	return &q
}

func removeRange(p *Plan, lo, hi int) *Plan {
	q := *p
	q.Items = nil
	for i, it := range p.Items {
		if i >= lo && i < hi {
			// keep the snapshot / comparison flags alive on the previous kept item
			if (it.Snap || it.Defer > 0) && len(q.Items) > 0 {
				last := &q.Items[len(q.Items)-1]
				last.EndChunk = true
				last.Snap = last.Snap || it.Snap
				if it.Defer > last.Defer {
					last.Defer = it.Defer
				}
			}
			continue
		}
		q.Items = append(q.Items, it)
	}
	return &q
}

// shrink removes commands while the same signature is still produced (bounded).
func shrink(p *Plan, sig string, rerunOnly bool, budget int) *Plan {
	check := func(q *Plan) bool {
		if len(q.Items) == 0 {
			return false
		}
		o := exec(q, stats{})
		if rerunOnly {
			if o.sig != "" || o.panicked != "" {
				return false
			}
			for r := 0; r < 4; r++ {
				if s, _ := rerun(q, o, r%2 == 1); s == sig {
					return true
				}
			}
			return false
		}
		return o.sig == sig
	}
	cur := p
	for size := len(cur.Items) / 2; size >= 1 && budget > 0; size /= 2 {
		for lo := 0; lo < len(cur.Items) && budget > 0; {
			hi := min(lo+size, len(cur.Items))
			q := removeRange(cur, lo, hi)
			budget--
			if check(q) {
				cur = q
			} else {
				lo += size
			}
		}
	}
	return cur
}

func drawOpts(r *rand.Rand, schemaClean bool) ms.VerifFSMOptions {
	return ms.VerifFSMOptions{
		PtNumPerNode:        uint32(1 + r.IntN(3)),
		NumOfShards:         int32([]int{0, 1, 2, 3}[r.IntN(4)]),
		RetentionAutoCreate: r.IntN(2) == 0,
		ExpandShardsEnable:  r.IntN(3) == 0,
		UseIncSyncData:      r.IntN(2) == 0,
		SchemaCleanEn:       schemaClean,
	}
}

// newPlanSkeleton draws chunking, batching, snapshot positions for a log of n commands.
func newPlanSkeleton(r *rand.Rand, n int, everyPos bool, deferred bool) []Item {
	items := make([]Item, n)
	left := 0
	for i := range items {
		if left == 0 {
			left = 1
			if !everyPos && r.IntN(10) < 3 {
				left = 2 + r.IntN(4)
			}
		}
		left--
		if left == 0 {
			items[i].EndChunk = true
			items[i].BatchB = r.IntN(2) == 0
			items[i].BatchC = r.IntN(2) == 0
			if everyPos {
				items[i].Snap = true
			} else if r.IntN(100) < 8 {
				items[i].Snap = true
			} else if deferred && r.IntN(100) < 5 {
				items[i].Defer = 1 + r.IntN(12)
			}
		}
	}
	items[n-1].EndChunk = true
	return items
}

type witness struct {
	Plan      *Plan  `json:"plan"`
	Kind      string `json:"kind"` // exec | rerun
	Signature string `json:"signature"`
	Batch     string `json:"batch"`
	LogNo     int    `json:"log_no"`
	Shrunk    bool   `json:"shrunk"`
	Original  int    `json:"original_commands"`
}

func worker(c *vf.Ctx, arg string) {
	// arg: <mode>-<k>   mode: long | short | repl
	var mode string
	var k int
	if _, err := fmt.Sscanf(strings.Replace(arg, "-", " ", 1), "%s %d", &mode, &k); err != nil {
		c.Broken("bad worker arg %q", arg)
		return
	}
	repl := mode == "repl"
	if repl {
		if err := config.SetHaPolicy(config.RepPolicy); err != nil {
			c.Broken("SetHaPolicy: %v", err)
			return
		}
	}
	stream := uint64(1000*len(mode) + k + 1)
	if mode == "short" {
		stream += 500000
	}
	if repl {
		stream += 900000
	}
	r := c.Rand(stream)
	schemaClean := k%2 == 0
	nLogs := c.Pick(70, 450)
	if mode == "short" {
		nLogs = c.Pick(90, 600)
	}
	if repl {
		nLogs = c.Pick(50, 300)
	}
	reruns := c.Pick(3, 6)
	shrunkSigs := map[string]bool{}
	panicSampled := false
	known := metacmd.KnownSignatures(c, "C15")
	for ln := 0; ln < nLogs; ln++ {
		c.LogInput(map[string]any{"batch": arg, "log_no": ln, "seed": c.Seed, "note": "deterministic: rerun this batch"})
		var n int
		everyPos := mode == "short"
		if everyPos {
			n = 12 + r.IntN(19)
		} else {
			n = 50 + r.IntN(351)
			if c.Quick() {
				n = 50 + r.IntN(201)
			}
		}
		p := &Plan{Opts: drawOpts(r, schemaClean), Replication: repl, Reruns: reruns}
		p.Items = newPlanSkeleton(r, n, everyPos, true)
		g := &metacmd.Gen{R: r, Extreme: r.IntN(3) == 0, Replication: repl, TmpIndex: r.IntN(5) == 0, FlipShardType: r.IntN(4) == 0}
		var bootCmds []func() metacmd.Cmd
		if r.IntN(10) < 8 {
			bootCmds = g.Bootstrap()
		}
		o := execGen(p, &bootGen{Gen: g, boot: bootCmds}, stats{c})
		c.Eval(1)
		c.Count("commands-applied", int64(len(p.Items)))
		c.Count("commands-returned-nil", int64(o.okCmds))
		c.Count("snapshot-restores", int64(o.snaps))
		c.Count("snapshot-restores-with-measurements", int64(o.snapsRich))
		c.Count("deferred-persists", int64(o.defers))
		c.Count("comparison-points", int64(len(o.dumps)))
		if o.panicked != "" {
			name := strings.SplitN(o.panicked, ":", 2)[0]
			c.Inconclusive("apply-panic:"+name, 1)
			if !panicSampled && k < 2 {
				panicSampled = true
				c.Sample(map[string]any{"apply_panic": o.panicked, "cmd": p.Items[o.at].Cmd.Desc, "note": "identical panic on all replicas; log abandoned (outside C15)"})
			}
			continue
		}
		if o.sig != "" {
			q := truncate(p, o.at)
			w := witness{Plan: q, Kind: "exec", Signature: o.sig, Batch: arg, LogNo: ln, Original: len(q.Items)}
			if !shrunkSigs[o.sig] && !metacmd.MatchesKnown(known, o.sig) {
				shrunkSigs[o.sig] = true
				w.Plan = shrink(q, o.sig, false, c.Pick(80, 300))
				w.Shrunk = true
			}
			c.Violation(o.sig, o.what, w)
			continue
		}
		if o.snapsRich > 0 && o.okCmds >= 20 {
			c.Nontrivial(fmt.Sprintf("%s/%d", arg, ln))
		}
		if mode == "short" {
			c.Distinct("short-log-length", fmt.Sprint(n))
		}
		for rr := 0; rr < reruns; rr++ {
			sig, what := rerun(p, o, rr%2 == 1)
			c.Count("reruns", 1)
			if sig != "" {
				w := witness{Plan: p, Kind: "rerun", Signature: sig, Batch: arg, LogNo: ln, Original: len(p.Items)}
				if !shrunkSigs[sig] && !metacmd.MatchesKnown(known, sig) {
					shrunkSigs[sig] = true
					w.Plan = shrink(p, sig, true, c.Pick(50, 150))
					w.Shrunk = true
				}
				c.Violation(sig, what, w)
				break
			}
		}
		if ln < 2 && k < 2 {
			var names []string
			for i := 0; i < min(12, len(p.Items)); i++ {
				names = append(names, p.Items[i].Cmd.Name+" "+p.Items[i].Cmd.Desc)
			}
			c.Sample(map[string]any{"batch": arg, "opts": p.Opts, "commands": len(p.Items), "returned_nil": o.okCmds, "snapshots": o.snaps, "first_commands": names})
		}
	}
}

// bootGen yields the bootstrap commands first, then random ones.
type bootGen struct {
	*metacmd.Gen
	boot []func() metacmd.Cmd
	i    int
}

func (b *bootGen) next() metacmd.Cmd {
	if b.i < len(b.boot) {
		c := b.boot[b.i]()
		b.i++
		return c
	}
	return b.Gen.Next(false)
}

// execGen generates the commands of the plan while A executes them, then runs the
// complete comparison by a plain exec of the now concrete plan.
func execGen(p *Plan, g *bootGen, st stats) *outcome {
	A := ms.VerifNewFSM(p.Opts)
	g.D = func() *metacmd.DataT { return ms.VerifFSMData(A) }
	next := uint64(2)
	for i := range p.Items {
		p.Items[i].Cmd = g.next()
		_, pan := applyChunk(A, []metacmd.Cmd{p.Items[i].Cmd}, next, false)
		next++
		if pan != nil {
			p.Items = p.Items[:i+1]
			p.Items[i].EndChunk = true
			break
		}
	}
	return exec(p, st)
}

func replay(c *vf.Ctx) {
	b, err := os.ReadFile(c.ReplayIn)
	if err != nil {
		c.Broken("replay: %v", err)
		return
	}
	var f struct {
		Witness witness `json:"witness"`
	}
	if err := json.Unmarshal(b, &f); err != nil || f.Witness.Plan == nil {
		c.Broken("replay: unreadable witness: %v", err)
		return
	}
	w := f.Witness
	if w.Plan.Replication {
		_ = config.SetHaPolicy(config.RepPolicy)
	}
	c.Eval(1)
	// divergences that come from map iteration order do not show on every execution
	var o *outcome
	for try := 0; try < 10; try++ {
		o = exec(w.Plan, stats{})
		if o.sig != "" {
			fmt.Printf("REPLAY still violates (execution %d): %s\n  %s\n", try+1, o.sig, o.what)
			c.Violation(o.sig, o.what, w)
			return
		}
	}
	if w.Kind == "rerun" && o.panicked == "" {
		for r := 0; r < 8; r++ {
			if sig, what := rerun(w.Plan, o, r%2 == 1); sig != "" {
				fmt.Printf("REPLAY still violates: %s\n  %s\n", sig, what)
				c.Violation(sig, what, w)
				return
			}
		}
	}
	fmt.Println("REPLAY: no violation reproduced")
}

func main() {
	metacmd.ScopeRaceDetector()
	// the process-wide default logger writes under ~/.openGemini/logs; silence it
	logger.SetLogger(zap.NewNop())
	c := vf.New("C15", "exploration")
	if vf.IsWorker() {
		worker(c, vf.WorkerArg())
		c.Finish()
	}
	if c.ReplayIn != "" {
		replay(c)
		c.Finish()
	}
	c.SetRule("one case = one generated command log (50-400 commands, or 12-30 for the every-position mode) run on three real storeFSM instances plus 3-6 re-executions; distinct by (batch, log number); non-trivial when at least one snapshot/restore happened while the catalogue held a measurement and at least 20 commands returned nil")
	c.Assume("the FSM under test is the storeFSM of a Store built by NewStore that was never opened (no raft, no network); NetStore is a stub that answers nil")
	c.Assume("commands are built by verifharness/metacmd: CreateMeasurement always carries a shard key and the down-sample commands name existing objects, as the front ends guarantee; UpdateRetentionPolicy never carries NewName (no front end sends a rename)")
	c.Assume("fields outside the replicated catalogue are not compared: " + skipList())
	c.Extra("registered-command-types", len(metacmd.Registered))
	c.Extra("covered-command-types", metacmd.Covered())
	c.Extra("uncovered-command-types", metacmd.Uncovered)

	var args []string
	for k := 0; k < c.Pick(8, 16); k++ {
		args = append(args, fmt.Sprintf("long-%d", k))
	}
	for k := 0; k < c.Pick(4, 8); k++ {
		args = append(args, fmt.Sprintf("short-%d", k))
	}
	for k := 0; k < c.Pick(2, 6); k++ {
		args = append(args, fmt.Sprintf("repl-%d", k))
	}
	sem := make(chan struct{}, 12)
	var wg sync.WaitGroup
	for _, a := range args {
		wg.Add(1)
		sem <- struct{}{}
		go func(a string) {
			defer wg.Done()
			defer func() { <-sem }()
			c.RunWorker(a, time.Duration(c.Pick(15, 38))*time.Minute)
		}(a)
	}
	wg.Wait()
	metacmd.ScanRaceLogs(c)
	// command types the generator can build but that were never applied / never succeeded
	for _, t := range metacmd.Covered() {
		c.Distinct("cmd-type-with-builder", t)
	}
	c.Finish()
}

func skipList() string {
	var ks []string
	for k, v := range metacmd.SkippedFields() {
		ks = append(ks, k+" ("+v+")")
	}
	sort.Strings(ks)
	return strings.Join(ks, "; ")
}
