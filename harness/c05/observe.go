package main

// What the driver records about the cluster besides the client history: who is the raft
// leader (control port of each store), which store owns the master partition of the replica
// group according to ts-meta (/getdata; that replica serves reads and accepts writes), and
// per fault phase which store was hit and what had happened to each store before.

import (
	"encoding/json"
	"fmt"
	"io"
	"net/http"
	"strings"
	"sync"
	"time"

	"verifharness/proc"
)

// raftLeaderOf returns the index of the store that reports itself raft leader for db (or -1).
func raftLeaderOf(cl *proc.Cluster, down int) int {
	for i := 0; i < 3; i++ {
		if i == down || !cl.Stores[i].Alive() || cl.Stores[i].Paused {
			continue
		}
		st, err := cl.StoreState(i)
		if err != nil {
			continue
		}
		pts, _ := st["partitions"].([]any)
		for _, p := range pts {
			m, _ := p.(map[string]any)
			if m["db"] == db && m["leader"] == true {
				return i
			}
		}
	}
	return -1
}

type metaView struct {
	MasterPt    int   `json:"master_pt"`
	MasterStore int   `json:"master_store"` // 0-based store index, -1 unknown
	RGStatus    int   `json:"rg_status"`
	SlavePeers  []int `json:"slave_peers"`
	PtOwner     []int `json:"pt_owner_store"`
	PtStatus    []int `json:"pt_status"`
}

var metaHTTP = &http.Client{Timeout: 3 * time.Second}

func num(v any) int {
	switch x := v.(type) {
	case float64:
		return int(x)
	case json.Number:
		f, _ := x.Int64()
		return int(f)
	}
	return -1
}

// readMeta asks the ts-meta nodes (first that answers) for replica groups and the pt view.
func readMeta(cl *proc.Cluster) (*metaView, error) {
	var last error
	for i := 0; i < 3; i++ {
		resp, err := metaHTTP.Get("http://" + cl.Metas[i].IP + ":8091/getdata")
		if err != nil {
			last = err
			continue
		}
		b, _ := io.ReadAll(resp.Body)
		resp.Body.Close()
		var d map[string]any
		if err := json.Unmarshal(b, &d); err != nil {
			last = fmt.Errorf("%v: %.120s", err, b)
			continue
		}
		mv := &metaView{MasterStore: -1, MasterPt: -1}
		nodeIdx := map[int]int{}
		if dn, ok := d["DataNodes"].([]any); ok {
			for _, n := range dn {
				m, _ := n.(map[string]any)
				host := fmt.Sprint(m["Host"])
				for si := 0; si < 3; si++ {
					if strings.HasPrefix(host, cl.Stores[si].IP+":") {
						nodeIdx[num(m["ID"])] = si
					}
				}
			}
		}
		owner := map[int]int{}
		status := map[int]int{}
		if pv, ok := d["PtView"].(map[string]any); ok {
			if l, ok := pv[db].([]any); ok {
				for _, p := range l {
					m, _ := p.(map[string]any)
					o, _ := m["Owner"].(map[string]any)
					si, ok := nodeIdx[num(o["NodeID"])]
					if !ok {
						si = -1
					}
					owner[num(m["PtId"])] = si
					status[num(m["PtId"])] = num(m["Status"])
				}
			}
		}
		for pt := 0; pt < len(owner); pt++ {
			mv.PtOwner = append(mv.PtOwner, owner[pt])
			mv.PtStatus = append(mv.PtStatus, status[pt])
		}
		if rg, ok := d["ReplicaGroups"].(map[string]any); ok {
			if l, ok := rg[db].([]any); ok && len(l) > 0 {
				m, _ := l[0].(map[string]any)
				mv.MasterPt = num(m["MasterPtID"])
				mv.RGStatus = num(m["Status"])
				if ps, ok := m["Peers"].([]any); ok {
					for _, p := range ps {
						pm, _ := p.(map[string]any)
						mv.SlavePeers = append(mv.SlavePeers, num(pm["ID"]))
					}
				}
				if s, ok := owner[mv.MasterPt]; ok {
					mv.MasterStore = s
				}
			}
		}
		if mv.MasterPt < 0 {
			last = fmt.Errorf("no replica group of %s in the meta data", db)
			continue
		}
		return mv, nil
	}
	return nil, last
}

// obs is one sample of (logical time, master store, raft leader store).
type obs struct {
	Tick   int64 `json:"tick"`
	Master int   `json:"master"` // store index, -1 unknown
	Leader int   `json:"leader"`
}

type timeline struct {
	mu  sync.Mutex
	obs []obs
}

func (t *timeline) sample(cl *proc.Cluster, down int) obs {
	o := obs{Tick: tick(), Master: -1, Leader: raftLeaderOf(cl, down)}
	if mv, err := readMeta(cl); err == nil {
		o.Master = mv.MasterStore
	}
	t.mu.Lock()
	// keep changes only (and the first sample)
	if n := len(t.obs); n == 0 || t.obs[n-1].Master != o.Master || t.obs[n-1].Leader != o.Leader {
		t.obs = append(t.obs, o)
	}
	t.mu.Unlock()
	return o
}

// masterAt: the store that owned the master partition at logical time tk according to the
// last sample at or before tk (-1 unknown).
func (t *timeline) masterAt(tk int64) int {
	t.mu.Lock()
	defer t.mu.Unlock()
	m := -1
	for _, o := range t.obs {
		if o.Tick > tk {
			if m < 0 {
				m = o.Master // before the first sample: the master seen first (warm-up)
				if m >= 0 {
					break
				}
				continue
			}
			break
		}
		m = o.Master
	}
	return m
}

func (t *timeline) snapshot() []obs {
	t.mu.Lock()
	defer t.mu.Unlock()
	return append([]obs(nil), t.obs...)
}

// phaseInfo: what the nemesis did in one fault phase and what the cluster looked like.
type phaseInfo struct {
	Phase            int        `json:"phase"`
	Fault            fault      `json:"fault"`
	Victim           int        `json:"victim_store"` // 1-based for readability
	VictimRaftLeader bool       `json:"victim_was_raft_leader"`
	VictimMaster     bool       `json:"victim_owned_master_pt"`
	LeaderBefore     int        `json:"raft_leader_before"`
	MasterBefore     int        `json:"master_before"`
	FaultTick        [2]int64   `json:"fault_tick"` // logical time just before / after the signal was sent
	FlushPoint       string     `json:"flush_point,omitempty"`
	Raft             *raftFault `json:"raft_point_fault,omitempty"`
	// slots of a stale raft log tail that the rejoined store zeroed when the new leader's first
	// append arrived (read from its log file; -1 = nothing cut / not looked at)
	StaleSlotsCut int    `json:"stale_raft_log_slots_cut_after_restart"`
	EventOfVictim string `json:"event_recorded_for_victim"`
	MasterOneDown int    `json:"master_after_quiesce_one_down"`
	LeaderOneDown int    `json:"raft_leader_after_quiesce_one_down"`
	HealTick      int64  `json:"heal_tick"`
	MasterHealed  int    `json:"master_after_heal"`
	LeaderHealed  int    `json:"raft_leader_after_heal"`
	// History of every store when this phase started: "" (untouched), else a list of
	// kill / kill-during-flush / pause events it went through (and was healed from).
	StoreHistory [3][]string `json:"store_history_before"`
	StatesHealed [3]string   `json:"control_port_state_after_heal"`
}

func storeStateLine(cl *proc.Cluster, i int) string {
	st, err := cl.StoreState(i)
	if err != nil {
		return "unreachable: " + err.Error()
	}
	var parts []string
	parts = append(parts, fmt.Sprintf("ready=%v", st["ready"]))
	pts, _ := st["partitions"].([]any)
	for _, p := range pts {
		m, _ := p.(map[string]any)
		if m["db"] == db {
			parts = append(parts, fmt.Sprintf("pt%v raft=%v leader=%v", m["pt"], m["raft"], m["leader"]))
		}
	}
	shards, _ := st["shards"].([]any)
	n := 0
	for _, s := range shards {
		m, _ := s.(map[string]any)
		if m["db"] == db {
			n++
		}
	}
	parts = append(parts, fmt.Sprintf("shards=%d", n))
	return strings.Join(parts, " ")
}
