package main

// Helpers of the two fault kinds that use the hook points inside the raft node
// (lib/raftconn/node.go: raft-before-send, raft-before-publish, raft-after-publish; compiled
// in with -tags verif, configured through the store's control port like the flush points).
// The points are per PROCESS; in this cluster (3 stores, one partition of the database per
// store, one replica group) a store hosts exactly one raft node of the database.

import (
	"bufio"
	"fmt"
	"os"
	"path/filepath"
	"regexp"
	"strconv"
	"strings"
	"time"

	"verifharness/proc"
)

// raftFault: what the driver observed about one kill-before-apply / unreplicated-tail fault.
type raftFault struct {
	Point string `json:"point"`
	// kill-before-apply
	HitsWhenArmed int64 `json:"hits_of_the_point_when_armed,omitempty"`
	KillAtHit     int64 `json:"kill_at_hit,omitempty"`
	Fired         bool  `json:"store_died_by_itself_at_the_point"`
	// unreplicated-tail
	Muted          bool `json:"leader_muted,omitempty"`
	BurstWrites    int  `json:"burst_writes,omitempty"`
	BurstAcked     int  `json:"burst_writes_acknowledged,omitempty"`
	BurstOpen      int  `json:"burst_writes_left_open,omitempty"`
	BurstReturned  int  `json:"burst_writes_returned_before_the_kill,omitempty"`
	MuteToKillMs   int  `json:"ms_from_mute_to_kill,omitempty"`
	SlowWrites     int  `json:"writes_sent_one_by_one_after_the_rejoin,omitempty"`
	SlowWritesOpen int  `json:"of_them_not_acknowledged,omitempty"`
}

// pointHits returns how often the store process has passed the named point (-1 unknown).
func pointHits(cl *proc.Cluster, i int, point string) int64 {
	st, err := cl.StoreState(i)
	if err != nil {
		return -1
	}
	pts, _ := st["points"].(map[string]any)
	n := int64(num(pts[point]))
	if n < 0 {
		n = 0 // never hit so far
	}
	return n
}

// setPoints replaces the hook table of store i and returns the hit counts the store reported.
func setPoints(cl *proc.Cluster, i int, spec string) (map[string]int64, error) {
	s := proc.New(proc.Config{IP: cl.Stores[i].IP})
	s.HTTP.Timeout = 5 * time.Second
	var out struct {
		Counts map[string]int64 `json:"counts"`
	}
	err := s.Ctl("POST", "/verif/points", spec, &out)
	return out.Counts, err
}

// killBeforePublish arms raft-before-publish=kill(n) on store i, n = (hits so far) + k: the
// process SIGKILLs itself in the raft Ready loop on that hit, i.e. after the Ready's entries
// and hard state (incl. the commit index) were saved and synced and before its committed
// entries are handed to the apply goroutine. The hit counter is absolute since process start
// and moves while the request travels, so the reply's counter is compared with the target and
// the point is re-armed further away if it was already passed. Waits (bounded) for the
// process to die; if it does not, the table is cleared and false is returned (the caller then
// kills plainly). point is raft-before-publish, or raft-after-publish: right after the
// hand-over (the entries sit in the apply goroutine's channel, applied or not).
func killBeforePublish(cl *proc.Cluster, i int, point string, k int64) (rf raftFault) {
	rf.Point = point
	armed := false
	for attempt := 0; attempt < 6 && !armed; attempt++ {
		n0 := pointHits(cl, i, point)
		if n0 < 0 {
			break
		}
		target := n0 + k + int64(attempt)*50
		counts, err := setPoints(cl, i, fmt.Sprintf("%s=kill(%d)", point, target))
		if err != nil {
			if !cl.Stores[i].Alive() {
				armed = true // died while answering: the point fired
				rf.HitsWhenArmed, rf.KillAtHit = n0, target
			}
			break
		}
		if counts[point] < target {
			armed = true
			rf.HitsWhenArmed, rf.KillAtHit = n0, target
		}
	}
	if armed {
		for t := 0; t < 300 && cl.Stores[i].Alive(); t++ { // 15 s: an idle raft node passes the point on every heartbeat
			time.Sleep(50 * time.Millisecond)
		}
	}
	if cl.Stores[i].Alive() {
		_, _ = setPoints(cl, i, "")
		return rf
	}
	rf.Fired = strings.Contains(cl.Stores[i].StdoutTail(4000), "verifhook: kill at point "+point)
	return rf
}

// successorStore: the store owning the first slave peer of the replica group — the one
// electRgMaster (app/ts-meta/meta/cluster_manager.go) picks when the master's store dies
// (first slave in the peer list whose partition is online). -1 unknown.
func successorStore(cl *proc.Cluster) int {
	mv, err := readMeta(cl)
	if err != nil || len(mv.SlavePeers) == 0 {
		return -1
	}
	pt := mv.SlavePeers[0]
	if pt < 0 || pt >= len(mv.PtOwner) {
		return -1
	}
	return mv.PtOwner[pt]
}

var slotRe = regexp.MustCompile(`"startSlot":\s*(\d+).*"endSlot":\s*(\d+)`)

// tailCuts scans the log files of store i for the entry log's message about a conflicting
// append in the current file ("clearCurrentFile slots", lib/raftlog/entrylog.go AddEntries):
// the entries of a stale tail are zeroed from startSlot to endSlot before the new leader's
// entries are written there. Returns the number of such messages and the slots cut in total.
// Evidence only; no verdict depends on it.
func tailCuts(cl *proc.Cluster, i int) (events, slots int) {
	root := filepath.Join(cl.Stores[i].Dir, "logs")
	_ = filepath.Walk(root, func(p string, info os.FileInfo, err error) error {
		if err != nil || info.IsDir() || !strings.Contains(filepath.Base(p), "store") {
			return nil
		}
		f, err := os.Open(p)
		if err != nil {
			return nil
		}
		defer f.Close()
		sc := bufio.NewScanner(f)
		sc.Buffer(make([]byte, 1<<20), 1<<22)
		for sc.Scan() {
			ln := sc.Text()
			if !strings.Contains(ln, "clearCurrentFile slots") {
				continue
			}
			events++
			if m := slotRe.FindStringSubmatch(ln); m != nil {
				a, _ := strconv.Atoi(m[1])
				b, _ := strconv.Atoi(m[2])
				if b > a {
					slots += b - a
				}
			}
		}
		return nil
	})
	return events, slots
}
