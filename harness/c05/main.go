// C05 — replicated data survives the loss of a minority of store nodes.
// A real cluster (3 ts-meta, 3 ts-store, 1 ts-sql, ha-policy "replication", database with
// REPLICAS 3) runs under writer and reader clients while a seeded nemesis kills (SIGKILL),
// restarts and pauses (SIGSTOP/SIGCONT) store nodes — never more than one down or paused at
// a time — choosing the raft leader or a follower of the replica group through the control
// port. The recorded client history (operations whose reply was lost stay open) is checked
// per (series,timestamp) with porcupine; between faults, with no write in flight, six
// consecutive full reads must be identical and hold the latest acknowledged value of every
// key. A wrong history is classified (classify.go) from what the driver recorded about the
// schedule (observe.go): which store was hit, which replica served, what it went through.
package main

import (
	"encoding/json"
	"fmt"
	"math/rand/v2"
	"net"
	"os"
	"path/filepath"
	"sort"
	"strconv"
	"strings"
	"sync"
	"sync/atomic"
	"time"

	"github.com/anishathalye/porcupine"

	"verifharness/proc"
	"verifharness/vf"
)

const db = "r3"
const baseT = int64(1_700_000_000) * 1_000_000_000

// The partition holds two shards: the writers' series live in the shard group of baseT, one
// more series (tag w=3, written only by the nemesis) lives 30 days earlier.
const coldT = baseT - 30*24*3600*1_000_000_000
const coldWriter = 3
const extraOpeners = 4
const killAfterIdle = "kill-after-idle-shard-flush"
const killAfterSlowFlush = "kill-after-slow-flush"
const afterIdleSuffix = "+after-idle-shard-flush"

// Fault kinds that use the hook points inside the raft node (lib/raftconn/node.go, tag verif):
//   - kill-before-apply: the store SIGKILLs itself in the raft Ready loop after entries and hard
//     state (with the commit index) were saved and synced, before the committed entries are
//     handed to the apply goroutine (point raft-before-publish, action kill(n));
//   - unreplicated-tail: the raft leader's outgoing raft messages are held back (point
//     raft-before-send, action sleep) while a burst of writes is proposed: the leader appends
//     them to its own log, nothing reaches the followers; then it is SIGKILLed. After the
//     others elected a leader and accepted a few writes it is restarted: the new leader's
//     first append cuts the stale tail, later writes land in the formerly used log slots.
const killBeforeApply = "kill-before-apply"
const unreplTail = "unreplicated-tail"
const pointBeforePublish = "raft-before-publish"
const pointBeforeSend = "raft-before-send"
const pointAfterPublish = "raft-after-publish"

// the burst of the unreplicated-tail fault uses timestamps of the writers' series far above
// the ones the writers reach (same shard group: baseT+92800 s is the end of the 7-day group)
const burstBase = 50000

// schedules with an unreplicated-tail fault run with a short coordinator write budget, see
// runSchedule
const tailWriteBudget = "2s"

var clock int64

func tick() int64 { return atomic.AddInt64(&clock, 1) }

type key struct {
	Series string
	T      int64
}

type op struct {
	Client int   `json:"client"`
	Write  bool  `json:"write"`
	Key    key   `json:"key"`
	Val    int64 `json:"val"`
	Call   int64 `json:"call"`
	Ret    int64 `json:"ret"` // 0 = outcome unknown
	Phase  int   `json:"phase"`
	Step   int   `json:"step"` // 0 traffic during the fault, 1 quiescent (one store down), 2 traffic while it rejoins, 3 quiescent (healed)
}

type recorder struct {
	mu        sync.Mutex
	ops       []op
	attempted map[int][]key
	seen      map[key]bool
}

func (r *recorder) add(o ...op) { r.mu.Lock(); r.ops = append(r.ops, o...); r.mu.Unlock() }
func (r *recorder) attempt(w int, k key) {
	r.mu.Lock()
	if !r.seen[k] {
		r.seen[k] = true
		r.attempted[w] = append(r.attempted[w], k)
	}
	r.mu.Unlock()
}
func (r *recorder) watched(w int) []key {
	r.mu.Lock()
	defer r.mu.Unlock()
	return append([]key(nil), r.attempted[w]...)
}

type fault struct {
	Kind   string `json:"kind"`            // kill | pause | kill-during-flush | kill-after-idle-shard-flush | kill-before-apply | unreplicated-tail
	Target string `json:"target"`          // leader | follower
	Point  string `json:"point,omitempty"` // kill-during-flush: the hook point inside the flush at which the store dies
}

type schedule struct {
	Index  int     `json:"index"`
	Faults []fault `json:"faults"`
}

type writerState struct {
	next  []int        // next fresh timestamp index per series
	dirty map[key]bool // keys with an unknown-outcome write: never written again
	acked map[key]bool
}

type runner struct {
	c *vf.Ctx
}

var flushPoints = []string{"flush-after-wal-switch", "flush-after-index-flush", "flush-after-commit"}

func seriesName(w, s int) string { return fmt.Sprintf("s=%d,w=%d", s, w) }

func line(w, se int, t, v int64) string {
	return fmt.Sprintf("m,w=%d,s=%d fi=%di,fs=\"v%d\" %d\n", w, se, v, v, t)
}

func (rn *runner) runSchedule(sc schedule, worker int) {
	c := rn.c
	dir := filepath.Join(c.Scratch, fmt.Sprintf("sched%d", sc.Index))
	base := freeBase(worker)
	// The unreplicated-tail fault needs writes that were proposed on the muted leader and are NOT
	// proposed again elsewhere: ts-sql retries a write whose store died until
	// shard-writer-timeout (default 10 s) is used up. Whether such a retry is appended by the
	// new leader is a race (the new master's raft node drops proposals until a leader exists);
	// every retry that wins it lengthens the catch-up batch of the restarted store, which is
	// applied from raft's unstable entries and not from the log slots — if the batch covers
	// the whole stale tail no formerly used slot is left for the later writes. Schedules with
	// that fault therefore run with a 2 s budget (a documented knob of [coordinator]): at the
	// kill, 2.6 s after the burst, the budget is used up and nothing is retried. All other
	// schedules keep the default.
	var extra map[string][]string
	hasTail := false
	for _, f := range sc.Faults {
		if f.Kind == unreplTail {
			hasTail = true
		}
	}
	if hasTail && os.Getenv("C05_TAIL_DEFAULT_BUDGET") == "" {
		extra = map[string][]string{"coordinator": {`shard-writer-timeout = "` + tailWriteBudget + `"`}}
		c.Distinct("cluster-configuration", "coordinator.shard-writer-timeout="+tailWriteBudget+"(schedules with an unreplicated-tail fault)")
	} else {
		c.Distinct("cluster-configuration", "defaults")
	}
	if sc.Index%2 == 1 {
		// odd schedules: no flush of a cold shard by itself, and no forced flush after the warm-up
		// (see below): the first fault hits stores that have never flushed
		if extra == nil {
			extra = map[string][]string{}
		}
		extra["data.memtable"] = append(extra["data.memtable"], `write-cold-duration = "1h"`, `force-snapShot-duration = "1h"`)
		c.Distinct("cluster-configuration", "data.write-cold-duration=1h(odd schedules: stores never flush before the first fault)")
	}
	cl, err := proc.NewCluster(c.RepoDir, c.Scratch, dir, base, false, extra)
	if err != nil {
		c.Broken("cluster: %v", err)
		return
	}
	defer func() {
		cl.KillAll()
		if os.Getenv("VERIF_KEEP_SCRATCH") == "" {
			os.RemoveAll(dir)
		}
	}()
	if err := cl.StartAll(180 * time.Second); err != nil {
		c.Broken("schedule %d: %v", sc.Index, err)
		return
	}
	cl.Front.HTTP.Timeout = 25 * time.Second
	if _, err := cl.Front.Query("", "CREATE DATABASE "+db+" REPLICAS 3", nil); err != nil {
		c.Broken("create database: %v", err)
		return
	}
	const nW, nR, nSeries = 3, 2, 3
	rec := &recorder{attempted: map[int][]key{}, seen: map[key]bool{}}
	tl := &timeline{}
	var phases []phaseInfo
	phase, step := 0, 0
	var valSeq int64
	newVal := func(client int) int64 { return int64(client)<<32 | atomic.AddInt64(&valSeq, 1) }
	ws := make([]*writerState, nW)
	// the nemesis' series in the second shard of the partition
	coldNext := 0
	writeCold := func(tries int) bool {
		k := key{seriesName(coldWriter, 0), coldT + int64(coldNext)*1_000_000_000}
		coldNext++
		for try := 0; try < tries; try++ {
			v := newVal(9)
			rec.attempt(coldWriter, k)
			call := tick()
			res := cl.Front.Write(db, line(coldWriter, 0, k.T, v), nil)
			ret := tick()
			o := op{Client: 9, Write: true, Key: k, Val: v, Call: call, Phase: phase, Step: step}
			if res.Acked() {
				o.Ret = ret
				rec.add(o)
				return true
			}
			rec.add(o) // stays open; the next try writes the next timestamp
			k = key{seriesName(coldWriter, 0), coldT + int64(coldNext)*1_000_000_000}
			coldNext++
			time.Sleep(500 * time.Millisecond)
		}
		return false
	}
	// openers: the first write into each of the two shard groups (they do not exist yet). They are
	// ordinary checked points; a replica whose cached meta data lags drops them (known finding),
	// which is why the series used by the workload are written only after a pause
	writeOpener := func(se int, t int64) bool {
		k := key{seriesName(coldWriter, se), t}
		for try := 0; try < 120; try++ {
			v := newVal(9)
			rec.attempt(coldWriter, k)
			call := tick()
			res := cl.Front.Write(db, line(coldWriter, se, k.T, v), nil)
			ret := tick()
			o := op{Client: 9, Write: true, Key: k, Val: v, Call: call, Step: stepOpener}
			if res.Acked() {
				o.Ret = ret
				rec.add(o)
				return true
			}
			rec.add(o)
			time.Sleep(500 * time.Millisecond)
		}
		return false
	}
	if !writeOpener(1, baseT) || !writeOpener(2, coldT-1_000_000_000) {
		c.Inconclusive("warm-up-never-acknowledged", 1)
		return
	}
	// four more shard groups (30 days apart), opened back to back and never written again
	for k := 1; k <= extraOpeners; k++ {
		if !writeOpener(2+k, coldT-int64(k)*30*24*3600*1_000_000_000) {
			c.Inconclusive("warm-up-never-acknowledged", 1)
			return
		}
	}
	time.Sleep(3 * time.Second)
	// warm-up: one point per series; retried until acknowledged (the replica group needs a leader)
	for w := 0; w < nW; w++ {
		ws[w] = &writerState{next: make([]int, nSeries), dirty: map[key]bool{}, acked: map[key]bool{}}
		for se := 0; se < nSeries; se++ {
			ws[w].next[se] = 1
			k := key{seriesName(w, se), baseT}
			ok := false
			for try := 0; try < 120 && !ok; try++ {
				v := newVal(w + 1)
				rec.attempt(w, k)
				call := tick()
				res := cl.Front.Write(db, line(w, se, k.T, v), nil)
				ret := tick()
				o := op{Client: w + 1, Write: true, Key: k, Val: v, Call: call}
				if res.Acked() {
					o.Ret = ret
					ok = true
				}
				rec.add(o)
				if !ok {
					time.Sleep(500 * time.Millisecond)
				}
			}
			if !ok {
				c.Inconclusive("warm-up-never-acknowledged", 1)
				return
			}
		}
	}
	if !writeCold(40) {
		c.Inconclusive("warm-up-never-acknowledged", 1)
		return
	}
	// every series was acknowledged once; a new series may take a moment to become visible
	// (series index), but not two minutes
	deadline := time.Now().Add(120 * time.Second)
	lastSeen := -1
	for {
		res, err := cl.Front.Query(db, "SELECT fi FROM m GROUP BY *", nil)
		if err == nil && len(res.Results) == 1 {
			lastSeen = len(res.Results[0].Series)
			if lastSeen == nW*nSeries+3+extraOpeners {
				break
			}
		}
		if time.Now().After(deadline) {
			if lastSeen >= 0 {
				c.Eval(1)
				c.Violation("acknowledged-points-not-readable-before-any-fault", fmt.Sprintf("schedule %d: %d series were written and acknowledged (HTTP 204) once each, no fault was injected; 120 s later a successful read still returns only %d series", sc.Index, nW*nSeries+3+extraOpeners, lastSeen),
					map[string]any{"schedule": sc, "ops": rec.ops})
				return
			}
			c.Inconclusive("series-never-established", 1)
			return
		}
		time.Sleep(300 * time.Millisecond)
	}
	// both shards of the partition start clean on every replica (memtables flushed): from here
	// on only the phases of a kill-after-idle-shard-flush fault leave rows of one shard
	// unflushed while the other shard is flushed
	// ... except in the odd schedules: there the first fault hits stores that have never flushed
	// (no raft snapshot beyond the configuration-only one exists, the whole history is log)
	if sc.Index%2 == 0 {
		for i := 0; i < 3; i++ {
			if err := cl.StoreCtl(i, "POST", "/verif/flush", ""); err != nil {
				c.Inconclusive("forced-flush-after-warm-up-failed", 1)
			}
		}
		c.Count("schedules-with-a-flush-before-the-first-fault", 1)
	} else {
		c.Count("schedules-whose-first-fault-hits-stores-that-never-flushed", 1)
	}
	down := -1
	var unknownWrites, ackedWrites, failedReads, okReads int64
	// holdWriters: the writers of the running phase issue no further write (unreplicated-tail:
	// only the burst is in flight while the leader is muted); inFlight counts their open calls
	var holdWriters, inFlight int32
	// one concurrent phase: writers and readers run `n` operations each; the master / raft
	// leader is sampled in the background
	runPhase := func(n int, during func()) {
		var wg sync.WaitGroup
		atomic.StoreInt32(&holdWriters, 0)
		stop := make(chan struct{})
		var swg sync.WaitGroup
		swg.Add(1)
		go func() {
			defer swg.Done()
			for {
				select {
				case <-stop:
					return
				case <-time.After(250 * time.Millisecond):
					tl.sample(cl, -1)
				}
			}
		}()
		for w := 0; w < nW; w++ {
			wg.Add(1)
			go func(w int) {
				defer wg.Done()
				r := rand.New(rand.NewPCG(c.Seed, uint64(sc.Index*1000+phase*10+w)))
				st := ws[w]
				for b := 0; b < n; b++ {
					if atomic.LoadInt32(&holdWriters) != 0 {
						break
					}
					se := r.IntN(nSeries)
					ti := st.next[se]
					if ti > 1 && r.IntN(4) == 0 {
						ti = r.IntN(ti)
					} else {
						st.next[se]++
					}
					k := key{seriesName(w, se), baseT + int64(ti)*1_000_000_000}
					if st.dirty[k] {
						continue
					}
					v := newVal(w + 1)
					rec.attempt(w, k)
					atomic.AddInt32(&inFlight, 1)
					call := tick()
					res := cl.Front.Write(db, line(w, se, k.T, v), nil)
					ret := tick()
					atomic.AddInt32(&inFlight, -1)
					o := op{Client: w + 1, Write: true, Key: k, Val: v, Call: call, Phase: phase, Step: step}
					if res.Acked() { // HTTP 204 and nothing else
						o.Ret = ret
						st.acked[k] = true
						atomic.AddInt64(&ackedWrites, 1)
					} else {
						st.dirty[k] = true // outcome unknown: the operation stays open, the key is retired for this client
						atomic.AddInt64(&unknownWrites, 1)
						time.Sleep(300 * time.Millisecond)
					}
					rec.add(o)
					time.Sleep(time.Duration(20+r.IntN(60)) * time.Millisecond)
				}
			}(w)
		}
		for rd := 0; rd < nR; rd++ {
			wg.Add(1)
			go func(rd int) {
				defer wg.Done()
				r := rand.New(rand.NewPCG(c.Seed, uint64(sc.Index*1000+phase*10+5+rd)))
				for q := 0; q < n; q++ {
					rn.scan(cl, rec, 100+rd, r.IntN(nW+1), phase, step, &okReads, &failedReads)
					time.Sleep(time.Duration(40+r.IntN(80)) * time.Millisecond)
				}
			}(rd)
		}
		if during != nil {
			during()
		}
		wg.Wait()
		close(stop)
		swg.Wait()
	}
	// quiesce: no write in flight; a write must be acknowledged within bounded retries, then
	// six full reads must be identical and current
	quiesce := func(label string) bool {
		probeOK := false
		began := time.Now()
		// 80 retries; a retry can take the server's 10 s time-out, so the watchdog also ends the
		// loop after 150 s (inconclusive either way)
		for try := 0; try < 80 && time.Since(began) < 150*time.Second; try++ {
			w := try % nW
			st := ws[w]
			ti := st.next[0]
			st.next[0]++
			k := key{seriesName(w, 0), baseT + int64(ti)*1_000_000_000}
			v := newVal(w + 1)
			rec.attempt(w, k)
			call := tick()
			res := cl.Front.Write(db, line(w, 0, k.T, v), nil)
			ret := tick()
			o := op{Client: w + 1, Write: true, Key: k, Val: v, Call: call, Phase: phase, Step: step}
			if res.Acked() {
				o.Ret = ret
				st.acked[k] = true
				rec.add(o)
				probeOK = true
				c.Count("retries-until-a-write-was-acknowledged-again:"+label, int64(try))
				break
			}
			st.dirty[k] = true
			rec.add(o)
			time.Sleep(500 * time.Millisecond)
		}
		if !probeOK {
			c.Inconclusive("no-write-acknowledged-within-80-retries-or-150s:"+label, 1)
			fmt.Printf("INCONCLUSIVE C05 schedule %d %s: no write acknowledged within 80 retries / 150 s\n", sc.Index, label)
			return false
		}
		tl.sample(cl, down)
		var first map[key]int64
		for rep := 0; rep < 6; rep++ {
			got := map[key]int64{}
			okAll := true
			for w := 0; w <= nW; w++ { // the writers' series and the nemesis' series
				g, ok := rn.scan(cl, rec, 200, w, phase, step, &okReads, &failedReads)
				if !ok {
					okAll = false
					break
				}
				for k, v := range g {
					got[k] = v
				}
			}
			if !okAll {
				c.Inconclusive("quiescent-read-failed:"+label, 1)
				continue
			}
			if first == nil {
				first = got
				continue
			}
			if d := diffMaps(first, got); d != "" {
				c.Violation("replicas-disagree:quiescent-reads-differ", fmt.Sprintf("schedule %d, %s, no write in flight: read %d differs from read 1: %s", sc.Index, label, rep+1, d),
					map[string]any{"schedule": sc, "phase": label, "diff": d, "phases": phases, "master_and_leader_changes": tl.snapshot()})
				return false
			}
		}
		tl.sample(cl, down)
		return true
	}
	finish := func() {
		c.Eval(1)
		c.Count("writes-acknowledged", ackedWrites)
		c.Count("writes-with-unknown-outcome(kept open)", unknownWrites)
		c.Count("reads-ok", okReads)
		c.Count("reads-failed", failedReads)
		rn.checkHistory(sc, rec.ops, tl, phases)
		if sc.Index <= 2 {
			c.Sample(map[string]any{"schedule": sc, "ops_recorded": len(rec.ops), "acked": ackedWrites, "unknown": unknownWrites,
				"phases": phases, "master_and_leader_changes": tl.snapshot()})
		}
	}

	var history [3][]string
	idleFlushSeen := false
	burstNext := 0
	for fi, f := range sc.Faults {
		phase, step = fi+1, stepDuringFault
		label := fmt.Sprintf("fault%d:%s-%s", fi+1, f.Kind, f.Target)
		before := tl.sample(cl, down)
		ldr := before.Leader
		victim := -1
		switch f.Target {
		case "leader":
			victim = ldr
		default:
			for i := 0; i < 3; i++ {
				if i != ldr && i != down {
					victim = i
					break
				}
			}
			if f.Kind == killBeforeApply {
				// the follower that ts-meta would make master next (first slave peer of the replica
				// group): a later kill of the master makes exactly this replica serve
				if sx := successorStore(cl); sx >= 0 && sx != ldr && sx != down && sx != before.Master {
					victim = sx
					c.Distinct("kill-before-apply-follower", "designated-successor-of-the-master")
				} else {
					c.Distinct("kill-before-apply-follower", "some-follower(successor-unknown)")
				}
			}
		}
		if f.Kind == unreplTail {
			victim = ldr // only the raft leader can hold proposals that reached nobody else
		}
		if victim < 0 || ldr < 0 {
			c.Inconclusive("no-victim-found:"+label, 1)
			continue
		}
		pi := phaseInfo{Phase: phase, Fault: f, Victim: victim + 1, VictimRaftLeader: victim == ldr, VictimMaster: victim == before.Master,
			LeaderBefore: ldr + 1, MasterBefore: before.Master + 1}
		for i := range history {
			pi.StoreHistory[i] = append([]string(nil), history[i]...)
		}
		role := "follower"
		if victim == ldr {
			role = "leader"
		}
		masterRole := "not-master"
		if pi.VictimMaster {
			masterRole = "master"
		}
		c.Distinct("fault(kind|raft-role-of-victim|owns-master-partition)", f.Kind+"|"+role+"|"+masterRole)
		c.Distinct("history-of-victim-before-the-fault", describeHistory(history[victim]))
		c.Nontrivial(fmt.Sprintf("sched%d|%s|%s|store%d", sc.Index, f.Kind, role, victim+1))
		r := c.Rand(uint64(sc.Index*100 + fi))
		inject := func() {
			time.Sleep(time.Duration(300+r.IntN(1500)) * time.Millisecond)
			pi.FaultTick[0] = tick()
			switch f.Kind {
			case "kill":
				cl.Stores[victim].Kill()
			case "kill-during-flush":
				// the store dies at a point inside the memtable flush (engine/ts_storage.go
				// writeSnapshot): after the memtable switch, after the index flush (data file not yet
				// written) or after the data file was committed (nothing removed yet)
				point := f.Point
				if point == "" {
					point = flushPoints[r.IntN(len(flushPoints))]
				}
				pi.FlushPoint = point
				// the flush is parked at the point (sleep action); once the control port shows that
				// the point was reached the process is SIGKILLed while it sits there
				n := int64(-1)
				if st, err := cl.StoreState(victim); err == nil {
					pts, _ := st["points"].(map[string]any)
					if n = int64(num(pts[point])); n < 0 {
						n = 0 // never hit so far
					}
				}
				reached := false
				if n >= 0 && cl.StoreCtl(victim, "POST", "/verif/points", point+"=sleep(6000)") == nil {
					go cl.StoreCtl(victim, "POST", "/verif/flush", "")
					for t := 0; t < 100 && !reached; t++ {
						time.Sleep(50 * time.Millisecond)
						if st, err := cl.StoreState(victim); err == nil {
							pts, _ := st["points"].(map[string]any)
							reached = int64(num(pts[point])) > n
						}
					}
					if reached {
						time.Sleep(300 * time.Millisecond) // concurrent goroutines of the flush (raft snapshot) get their turn
					}
				}
				if !reached { // nothing to flush (empty memtable) or control port unreachable: plain kill
					pi.FlushPoint += "(not reached: plain kill)"
				}
				pi.FaultTick[0] = tick()
				cl.Stores[victim].Kill()
				c.Distinct("kill-during-flush-point", pi.FlushPoint)
			case killAfterSlowFlush:
				// a forced flush that takes long (parked 1.2 s after the index flush, i.e. after the
				// memtable switch and before the data files exist) while the writers go on: the store
				// applies committed entries into the NEW memtable during the flush. The flush then
				// completes (raft snapshot taken), the point is cleared, and the store is SIGKILLed
				// before any further flush: what was applied during the flush exists only in the raft
				// log and must be replayed after the restart
				point := "flush-after-index-flush"
				pi.FlushPoint = point + "(flush completed)"
				applied0 := pointHits(cl, victim, pointAfterPublish)
				if cl.StoreCtl(victim, "POST", "/verif/points", point+"=sleep(1200)") == nil {
					err := cl.StoreCtl(victim, "POST", "/verif/flush", "")
					_ = cl.StoreCtl(victim, "POST", "/verif/points", "")
					if err != nil {
						pi.FlushPoint += "(flush request failed)"
					}
					if a1 := pointHits(cl, victim, pointAfterPublish); a1 >= 0 && applied0 >= 0 {
						d := a1 - applied0
						c.Count("kill-after-slow-flush:hand-overs-of-committed-entries-while-the-flush-ran", d)
						if d >= 2 {
							c.Distinct("kill-after-slow-flush", "entries-applied-during-the-flush>=2")
						}
					}
				} else {
					pi.FlushPoint += "(control port unreachable: plain kill)"
				}
				time.Sleep(time.Duration(50+r.IntN(250)) * time.Millisecond)
				pi.FaultTick[0] = tick()
				cl.Stores[victim].Kill()
			case killAfterIdle:
				// one acknowledged point into the second shard of the partition, which is then left
				// idle while the writers keep the first shard busy: after write-cold-duration (5 s)
				// only the idle shard is flushed; then the store is SIGKILLed
				if !writeCold(20) {
					pi.FlushPoint = "(idle-shard write not acknowledged: plain kill)"
				}
				time.Sleep(7500 * time.Millisecond)
				pi.FaultTick[0] = tick()
				cl.Stores[victim].Kill()
			case killBeforeApply:
				// the store kills itself in the raft Ready loop: HardState.Commit = N is on disk, the
				// committed entries of that Ready are not handed to the apply goroutine. After the
				// restart the replica must replay its log up to and including N
				point := f.Point
				if point == "" {
					point = pointBeforePublish
				}
				rf := killBeforePublish(cl, victim, point, int64(20+r.IntN(30)))
				c.Distinct("kill-before-apply-point", point)
				pi.FaultTick[0] = tick()
				if !rf.Fired {
					cl.Stores[victim].Kill() // point not reached within the watchdog: plain kill
				}
				pi.Raft = &rf
				c.Distinct("kill-before-apply:store-died-by-itself-at-the-point", fmt.Sprint(rf.Fired))
				if rf.Fired {
					c.Count("kill-before-apply:fired(store died by itself)", 1)
				} else {
					c.Count("kill-before-apply:not-fired(plain kill)", 1)
				}
			case unreplTail:
				rf := raftFault{Point: pointBeforeSend}
				// (1) the writers stop; their open calls return (bounded by the HTTP time-out)
				atomic.StoreInt32(&holdWriters, 1)
				for t := 0; t < 600 && atomic.LoadInt32(&inFlight) > 0; t++ {
					time.Sleep(50 * time.Millisecond)
				}
				// (2) every raft message the leader's process sends from now on is held back for 8 s
				// (longer than the leader lives): it keeps appending proposals to its own log, the
				// followers see nothing
				killed := false
				_, err := setPoints(cl, victim, pointBeforeSend+"=sleep(8000)")
				rf.Muted = err == nil
				defer func() {
					// not needed after the kill (the process is dead); needed if the kill was skipped
					if rf.Muted && !killed && cl.Stores[victim].Alive() {
						_, _ = setPoints(cl, victim, "")
						c.Count("unreplicated-tail:mute-cleared-because-the-kill-was-skipped", 1)
					}
				}()
				muteAt := time.Now()
				time.Sleep(150 * time.Millisecond) // a message taken from the queue before the mute is on its way
				// (3) burst: M concurrent single-point writes on fresh keys of the writers' series
				m := 10 + r.IntN(5)
				rf.BurstWrites = m
				var bwg sync.WaitGroup
				var bAcked, bReturned int32
				for b := 0; b < m; b++ {
					w, se := b%nW, (b/nW)%nSeries
					k := key{seriesName(w, se), baseT + int64(burstBase+burstNext)*1_000_000_000}
					burstNext++
					v := newVal(10)
					rec.attempt(w, k)
					bwg.Add(1)
					go func(w, se int, k key, v int64) {
						defer bwg.Done()
						call := tick()
						res := cl.Front.Write(db, line(w, se, k.T, v), nil)
						ret := tick()
						o := op{Client: 10, Write: true, Key: k, Val: v, Call: call, Phase: phase, Step: stepDuringFault}
						if res.Acked() {
							o.Ret = ret
							atomic.AddInt32(&bAcked, 1)
							atomic.AddInt64(&ackedWrites, 1)
						} else {
							atomic.AddInt64(&unknownWrites, 1) // stays OPEN: it sits in the leader's log and may or may not survive
						}
						atomic.AddInt32(&bReturned, 1)
						rec.add(o)
					}(w, se, k, v)
				}
				bdone := make(chan struct{})
				go func() { bwg.Wait(); close(bdone) }()
				// (4) the calls hang on the muted leader (the store RPC itself waits 10 s); when the
				// leader dies the coordinator sees the closed connection and — its 2 s write budget
				// being used up — gives up instead of proposing the writes again elsewhere. The kill
				// comes 2.6 s after the mute: a follower's election timer needs at least 3.6 s after the
				// last heartbeat (an election while the muted leader lives would make it cut its tail
				// before the restart)
				select {
				case <-bdone:
				case <-time.After(2600*time.Millisecond - time.Since(muteAt)):
				}
				rf.BurstReturned = int(atomic.LoadInt32(&bReturned))
				rf.MuteToKillMs = int(time.Since(muteAt) / time.Millisecond)
				pi.FaultTick[0] = tick()
				cl.Stores[victim].Kill()
				killed = true
				<-bdone // bounded by the client's HTTP time-out
				rf.BurstAcked = int(atomic.LoadInt32(&bAcked))
				rf.BurstOpen = m - rf.BurstAcked
				pi.Raft = &rf
				c.Count("unreplicated-tail:burst-writes-proposed-on-the-muted-leader", int64(m))
				c.Count("unreplicated-tail:burst-writes-left-open(never acknowledged)", int64(rf.BurstOpen))
				c.Count("unreplicated-tail:burst-writes-acknowledged-after-all", int64(rf.BurstAcked))
			case "pause":
				cl.Stores[victim].Pause()
			}
			pi.FaultTick[1] = tick()
		}
		nOps := c.Pick(25, 40)
		if f.Kind == killAfterIdle {
			nOps = 120 // the writers must stay busy for the 7.5 s the idle shard needs to be flushed
		}
		if f.Kind == killAfterSlowFlush {
			nOps = c.Pick(60, 80) // the writers must be active during the 1.2 s the flush is parked
		}
		if f.Kind == killBeforeApply {
			nOps = c.Pick(45, 60) // the writers must still be active when the armed hit of the point is reached
		}
		cutEvents0, cutSlots0 := 0, 0
		if f.Kind != "pause" {
			cutEvents0, cutSlots0 = tailCuts(cl, victim)
		}
		pi.StaleSlotsCut = -1
		runPhase(nOps, inject)
		down = victim
		step = stepQuietDown
		okQ := quiesce(label + "(one store down)")
		o1 := tl.sample(cl, down)
		pi.MasterOneDown, pi.LeaderOneDown = o1.Master+1, o1.Leader+1
		if !okQ {
			phases = append(phases, pi)
			finish()
			return
		}
		if o1.Master >= 0 {
			c.Distinct("history-of-the-replica-serving-with-one-store-down", describeHistory(history[o1.Master]))
		}
		// heal
		pi.HealTick = tick()
		slowReplay := false
		switch f.Kind {
		case "pause":
			cl.Stores[victim].Resume()
		default:
			// every other restart applies slowly: the committed entries of the local raft log are
			// handed over again in small chunks after a restart, and with a pause before each
			// hand-over the leader's first contact (which raises the commit index) arrives while
			// that re-delivery is still below the commit index the store had persisted - a chunk
			// then straddles it (needs a long log otherwise)
			var env []string
			if slowReplay = len(phases)%2 == 0 && f.Kind != unreplTail; slowReplay {
				env = append(env, "VERIF_POINTS=raft-before-publish=sleep(150)")
			}
			if err := cl.Stores[victim].Start(env...); err != nil {
				c.Broken("restart store: %v", err)
				return
			}
		}
		ev := f.Kind
		if f.Kind == killAfterIdle {
			idleFlushSeen = true
		} else if idleFlushSeen && f.Kind != "pause" {
			ev += afterIdleSuffix // a kill in a schedule in which only one shard of the partition had been flushed before
		}
		history[victim] = append(history[victim], ev)
		pi.EventOfVictim = ev
		// the rejoining store must come back (bounded); it catches up in the background
		back := false
		for t := 0; t < 240; t++ {
			if st, err := cl.StoreState(victim); err == nil && st["ready"] == true {
				back = true
				break
			}
			if f.Kind != "pause" && !cl.Stores[victim].Alive() {
				c.Broken("schedule %d %s: the restarted store exited: %s", sc.Index, label, cl.Stores[victim].StdoutTail(400))
				return
			}
			time.Sleep(500 * time.Millisecond)
		}
		if !back {
			c.Inconclusive("store-did-not-come-back:"+label, 1)
			phases = append(phases, pi)
			finish()
			return
		}
		if slowReplay {
			// let the slowed re-delivery meet the leader's appends, then apply at full speed again
			time.Sleep(4 * time.Second)
			_ = cl.StoreCtl(victim, "POST", "/verif/points", "")
			c.Count("restarts-with-slowed-raft-apply", 1)
		}
		down = -1
		step = stepHealed
		if f.Kind == unreplTail && pi.Raft != nil {
			// the new leader's first append reaches the rejoined store and cuts its stale tail
			// (watched in its log file, bounded; only the pacing depends on it). Then acknowledged
			// writes are sent ONE BY ONE: each is appended on the rejoined follower in one raft
			// Ready and committed in a later one, so it is applied from the entry log's slot — a
			// slot that held an entry of the stale tail before
			for t := 0; t < 60; t++ {
				if ev, _ := tailCuts(cl, victim); ev > cutEvents0 {
					break
				}
				time.Sleep(500 * time.Millisecond)
			}
			time.Sleep(1500 * time.Millisecond) // the catch-up batch (new leader's no-op + the quiet period's writes) is through
			nSlow := pi.Raft.BurstWrites + 2
			for i := 0; i < nSlow; i++ {
				w := i % nW
				st := ws[w]
				acked := false
				for try := 0; try < 10 && !acked; try++ {
					ti := st.next[1]
					st.next[1]++
					k := key{seriesName(w, 1), baseT + int64(ti)*1_000_000_000}
					v := newVal(w + 1)
					rec.attempt(w, k)
					call := tick()
					res := cl.Front.Write(db, line(w, 1, k.T, v), nil)
					ret := tick()
					o := op{Client: w + 1, Write: true, Key: k, Val: v, Call: call, Phase: phase, Step: step}
					if res.Acked() {
						o.Ret = ret
						st.acked[k] = true
						acked = true
						atomic.AddInt64(&ackedWrites, 1)
					} else {
						st.dirty[k] = true
						atomic.AddInt64(&unknownWrites, 1)
						time.Sleep(300 * time.Millisecond)
					}
					rec.add(o)
				}
				pi.Raft.SlowWrites++
				if !acked {
					pi.Raft.SlowWritesOpen++
				}
				time.Sleep(150 * time.Millisecond)
			}
			c.Count("unreplicated-tail:writes-sent-one-by-one-after-the-rejoin", int64(pi.Raft.SlowWrites))
		}
		runPhase(c.Pick(12, 25), nil) // traffic while the rejoined store catches up
		if f.Kind != "pause" {
			ev, sl := tailCuts(cl, victim)
			if ev > cutEvents0 {
				pi.StaleSlotsCut = sl - cutSlots0
				c.Count("restarts-after-which-a-stale-raft-log-tail-was-cut:"+f.Kind, 1)
				c.Count("stale-raft-log-slots-cut-after-restart:"+f.Kind, int64(sl-cutSlots0))
			} else {
				c.Count("restarts-without-a-stale-raft-log-tail:"+f.Kind, 1)
			}
			if f.Kind == unreplTail {
				c.Distinct("unreplicated-tail:stale-tail-cut-by-the-new-leader's-first-append", fmt.Sprintf("observed=%v,slots>=2:%v", ev > cutEvents0, sl-cutSlots0 >= 2))
			}
		}
		step = stepQuietHealed
		okQ = quiesce(label + "(healed)")
		o2 := tl.sample(cl, -1)
		pi.MasterHealed, pi.LeaderHealed = o2.Master+1, o2.Leader+1
		for i := 0; i < 3; i++ {
			pi.StatesHealed[i] = storeStateLine(cl, i)
		}
		phases = append(phases, pi)
		if !okQ {
			finish()
			return
		}
	}
	finish()
}

// freeBase picks the 127.a.b prefix of this cluster's three addresses from (pid, worker) and
// skips prefixes on which something already listens (another run of this check).
func freeBase(worker int) string {
	h := os.Getpid()*2 + worker
	for try := 0; try < 50; try++ {
		base := fmt.Sprintf("127.%d.%d", 100+(h/250)%120, h%250+1)
		busy := false
		for _, hp := range []string{".1:8086", ".1:8091", ".1:8400", ".2:8400", ".3:8400"} {
			if conn, err := net.DialTimeout("tcp", base+hp, 300*time.Millisecond); err == nil {
				conn.Close()
				busy = true
				break
			}
		}
		if !busy {
			return base
		}
		h += 7919
	}
	return fmt.Sprintf("127.%d.%d", 100+(h/250)%120, h%250+1)
}

func diffMaps(a, b map[key]int64) string {
	var d []string
	for k, v := range a {
		if b[k] != v {
			d = append(d, fmt.Sprintf("%s@%d: %d vs %d", k.Series, k.T, v, b[k]))
		}
	}
	for k, v := range b {
		if _, ok := a[k]; !ok {
			d = append(d, fmt.Sprintf("%s@%d: absent vs %d", k.Series, k.T, v))
		}
	}
	sort.Strings(d)
	if len(d) > 5 {
		d = d[:5]
	}
	return strings.Join(d, "; ")
}

// scan reads all rows of writer w and records one read observation per watched key. A reply
// that is an error, carries a statement error or is marked partial is not an observation.
func (rn *runner) scan(cl *proc.Cluster, rec *recorder, client, w, phase, step int, okN, failN *int64) (map[key]int64, bool) {
	watched := rec.watched(w)
	call := tick()
	res, err := cl.Front.Query(db, fmt.Sprintf("SELECT fi, fs FROM m WHERE w = '%d' GROUP BY *", w), nil)
	ret := tick()
	if err != nil || res.Status != 200 || len(res.Results) != 1 || res.Results[0].Partial {
		atomic.AddInt64(failN, 1)
		return nil, false
	}
	for _, se := range res.Results[0].Series {
		if se.Partial {
			atomic.AddInt64(failN, 1)
			return nil, false
		}
	}
	atomic.AddInt64(okN, 1)
	got := map[key]int64{}
	for _, se := range res.Results[0].Series {
		sn := "s=" + se.Tags["s"] + ",w=" + se.Tags["w"]
		for _, row := range se.Values {
			t, _ := strconv.ParseInt(fmt.Sprint(row[0]), 10, 64)
			var fi int64 = -1
			if row[1] != nil {
				fi, _ = strconv.ParseInt(fmt.Sprint(row[1]), 10, 64)
			}
			if fs, _ := row[2].(string); fs != "v"+strconv.FormatInt(fi, 10) {
				rn.c.Violation("torn-row", fmt.Sprintf("row %s@%d has fi=%v fs=%v (fields of different writes)", sn, t, row[1], row[2]), map[string]any{"raw": res.Raw[:min(len(res.Raw), 2000)]})
			}
			got[key{sn, t}] = fi
		}
	}
	if len(got) == 0 && len(watched) > 0 {
		rn.c.Count("successful-reads-that-returned-no-row-at-all", 1)
	}
	var ops []op
	seen := map[key]bool{}
	for _, k := range watched {
		seen[k] = true
		ops = append(ops, op{Client: client, Key: k, Val: got[k], Call: call, Ret: ret, Phase: phase, Step: step})
	}
	for k, v := range got {
		if !seen[k] {
			ops = append(ops, op{Client: client, Key: k, Val: v, Call: call, Ret: ret, Phase: phase, Step: step})
		}
	}
	rec.add(ops...)
	return got, true
}

func (rn *runner) checkHistory(sc schedule, ops []op, tl *timeline, phases []phaseInfo) {
	c := rn.c
	var end int64
	for _, o := range ops {
		if o.Ret > end {
			end = o.Ret
		}
		if o.Call > end {
			end = o.Call
		}
	}
	end += 10
	byKey := map[key][]op{}
	for _, o := range ops {
		byKey[o.Key] = append(byKey[o.Key], o)
	}
	type regIn struct {
		Write bool
		Val   int64
	}
	model := porcupine.Model{
		Init: func() interface{} { return int64(0) },
		Step: func(state, in, out interface{}) (bool, interface{}) {
			i := in.(regIn)
			if i.Write {
				return true, i.Val
			}
			return out.(int64) == state.(int64), state
		},
	}
	checked, unknown, reads, bad := 0, 0, 0, 0
	keys := make([]key, 0, len(byKey))
	for k := range byKey {
		keys = append(keys, k)
	}
	sort.Slice(keys, func(i, j int) bool {
		if keys[i].Series != keys[j].Series {
			return keys[i].Series < keys[j].Series
		}
		return keys[i].T < keys[j].T
	})
	reported := map[string]int{}
	for _, k := range keys {
		kops := byKey[k]
		var pops []porcupine.Operation
		nr := 0
		for _, o := range kops {
			ret := o.Ret
			if ret == 0 {
				ret = end
			}
			if o.Write {
				pops = append(pops, porcupine.Operation{ClientId: o.Client, Input: regIn{true, o.Val}, Call: o.Call, Output: int64(0), Return: ret})
			} else {
				nr++
				pops = append(pops, porcupine.Operation{ClientId: o.Client, Input: regIn{false, 0}, Call: o.Call, Output: o.Val, Return: ret})
			}
		}
		if nr == 0 {
			continue
		}
		reads += nr
		res, _ := porcupine.CheckOperationsVerbose(model, pops, 20*time.Second)
		switch res {
		case porcupine.Ok:
			checked++
		case porcupine.Unknown:
			unknown++
		case porcupine.Illegal:
			checked++
			bad++
			an := analyse(kops, tl, phases)
			c.Count("non-linearizable-keys:"+an.Sig, 1)
			// at most two witnesses per signature and schedule; every key is counted above
			reported[an.Sig]++
			if reported[an.Sig] > 2 {
				continue
			}
			sort.Slice(kops, func(i, j int) bool { return kops[i].Call < kops[j].Call })
			label := "before-any-fault"
			if an.Phase > 0 && an.Phase <= len(sc.Faults) {
				label = faultLabel(sc.Faults[an.Phase-1])
			}
			c.Violation(an.Sig, fmt.Sprintf("schedule %d (first wrong read in the phase of fault %d %q): history of %s@%d is not linearizable: %s", sc.Index, an.Phase, label, k.Series, k.T, an.What),
				map[string]any{"schedule": sc, "key": k, "analysis": an.Detail, "phases": phases, "master_and_leader_changes": tl.snapshot(), "ops": compress(kops)})
		}
	}
	c.Count("keys-checked-with-porcupine", int64(checked))
	c.Count("non-linearizable-keys", int64(bad))
	c.Count("read-observations-checked", int64(reads))
	c.Count("operations-recorded", int64(len(ops)))
	if unknown > 0 {
		c.Inconclusive("porcupine-timeout-partitions", int64(unknown))
	}
}

// compress folds runs of reads that returned the same value in the same phase/step into one
// entry (first and last interval, count) so that witnesses stay small.
func compress(kops []op) []map[string]any {
	var out []map[string]any
	for i := 0; i < len(kops); {
		o := kops[i]
		if o.Write {
			out = append(out, map[string]any{"write": o.Val, "client": o.Client, "call": o.Call, "ret": o.Ret, "phase": o.Phase, "step": o.Step})
			i++
			continue
		}
		j := i
		for j+1 < len(kops) && !kops[j+1].Write && kops[j+1].Val == o.Val && kops[j+1].Phase == o.Phase && kops[j+1].Step == o.Step {
			j++
		}
		out = append(out, map[string]any{"reads": j - i + 1, "value": o.Val, "first": []int64{o.Call, o.Ret}, "last": []int64{kops[j].Call, kops[j].Ret}, "phase": o.Phase, "step": o.Step})
		i = j + 1
	}
	return out
}

// genSchedule draws n faults; withIdle adds the fault kind that leaves one shard of the
// partition flushed and the other not (odd schedules of the thorough tier).
// withRaftPoints adds the two kinds that use the hook points of the raft node (thorough:
// schedules 2..7). Such a fault is followed by a kill of the leader (if a slot is left): the
// master's store dies and — the victim being the designated successor or the previous master —
// the replica that went through the fault serves. An unreplicated-tail fault always hits the
// leader; it is drawn in even schedules only (they run with the short write budget, the odd
// ones keep the default configuration).
func genSchedule(r *rand.Rand, idx, n int, withIdle, withRaftPoints bool) schedule {
	sc := schedule{Index: idx}
	kinds := []string{"kill", "kill", "pause", "kill-during-flush", killAfterSlowFlush}
	if withIdle {
		kinds = append(kinds, killAfterIdle)
	}
	if withRaftPoints {
		kinds = append(kinds, killBeforeApply, killBeforeApply)
		if idx%2 == 0 {
			kinds = append(kinds, unreplTail)
		}
	}
	for i := 0; i < n; i++ {
		f := fault{Kind: kinds[r.IntN(len(kinds))], Target: []string{"leader", "follower"}[r.IntN(2)]}
		if f.Kind == "kill-during-flush" {
			f.Point = flushPoints[r.IntN(len(flushPoints))]
		}
		if f.Kind == unreplTail {
			f.Target = "leader"
		}
		if f.Kind == killBeforeApply {
			f.Point = []string{pointBeforePublish, pointBeforePublish, pointAfterPublish}[r.IntN(3)]
		}
		sc.Faults = append(sc.Faults, f)
		if (f.Kind == unreplTail || f.Kind == killBeforeApply) && i+1 < n {
			sc.Faults = append(sc.Faults, fault{Kind: "kill", Target: "leader"})
			i++
		}
	}
	return sc
}

// raftPointSchedule: follower killed before it applies a committed entry (the designated
// successor of the master) -> the master's store is killed: that follower serves -> the new
// leader is killed before it applies -> the leader after that is muted, holds a burst of
// proposals nobody else has, is killed: the replica of the third fault serves -> after the
// rejoin (stale tail cut, writes one by one into the formerly used slots) the master's store is
// killed: the replica with the cut tail serves.
func raftPointSchedule(idx int) schedule {
	return schedule{Index: idx, Faults: []fault{
		{Kind: killBeforeApply, Target: "follower", Point: pointBeforePublish},
		{Kind: "kill", Target: "leader"},
		{Kind: killBeforeApply, Target: "leader", Point: pointBeforePublish},
		{Kind: unreplTail, Target: "leader"},
		{Kind: "kill", Target: "leader"},
	}}
}

func main() {
	c := vf.New("C05", "fault_enumeration")
	c.SetRule("seeded nemesis schedules against a real 3 meta / 3 store / 1 sql cluster (ha-policy replication, REPLICAS 3): per fault a concurrent phase (3 writers with unique values incl. overwrites, 2 readers) during which one store — the raft leader or a follower, as read from the control port — is SIGKILLed, killed during a forced flush, killed shortly after a slowed-down forced flush during which it went on applying entries (kill-after-slow-flush), killed by itself inside the raft Ready loop between saving the commit index and handing the committed entries to the apply goroutine (kill-before-apply), muted as raft leader while a burst of writes is proposed and then SIGKILLed so that it restarts with a log tail nobody else has (unreplicated-tail; after the rejoin acknowledged writes are sent one by one into the formerly used log slots), or SIGSTOPped; quiescent verification with one store down (a write acknowledged within bounded retries, six identical full reads); heal (restart / SIGCONT), traffic during catch-up, quiescent verification again; the next fault then hits a possibly different store. Oracle: porcupine register check per (series,timestamp) with lost-reply operations kept open; a wrong history is classified by where the wrong reads were given and by the history of the replica that served them; distinct non-trivial = distinct (schedule, fault kind, role of the victim, store)")
	c.Assume("at most one store is down or paused at any time; meta and sql nodes are not faulted; no network partitions between live processes (the unreplicated-tail fault holds back the outgoing raft messages of ONE process, the leader's, for less than 3 s before that process is killed)")
	c.Assume("schedules with an unreplicated-tail fault run with coordinator.shard-writer-timeout = " + tailWriteBudget + " instead of 10 s (ts-sql then does not propose the burst again on the new leader); all other schedules run with the default configuration")
	c.Assume("bounded liveness: 'writes accepted again' is judged within 80 retries (0.5 s apart, watchdog 150 s); exceeding it is inconclusive, not a violation")
	c.Assume("a write counts as acknowledged only on HTTP 204; any other reply leaves the operation open; a read that fails, carries an error or is marked partial is not an observation")
	rn := &runner{c: c}
	if c.ReplayIn != "" {
		b, _ := os.ReadFile(c.ReplayIn)
		var w struct {
			Witness struct {
				Schedule schedule `json:"schedule"`
			} `json:"witness"`
		}
		_ = json.Unmarshal(b, &w)
		rn.runSchedule(w.Witness.Schedule, 0)
		c.Nontrivial("replay-a")
		c.Nontrivial("replay-b")
		c.Finish()
	}
	n := c.Pick(2, 8)
	nf := c.Pick(4, 6)
	var wg sync.WaitGroup
	sem := make(chan int, 2)
	sem <- 0
	sem <- 1
	for i := 0; i < n; i++ {
		sc := genSchedule(c.Rand(uint64(500+i)), i, nf, c.Thorough() && i%2 == 1, c.Thorough() && i >= 2)
		if i == 0 {
			// the first schedule always covers: the leader dies inside a flush before the data file
			// exists; after it rejoined its successor is killed (the rejoined store serves again);
			// a follower is killed; the remaining faults are seeded
			sc.Faults[0] = fault{Kind: "kill-during-flush", Target: "leader", Point: "flush-after-index-flush"}
			sc.Faults[1] = fault{Kind: "kill", Target: "leader"}
			sc.Faults[2] = fault{Kind: "kill", Target: "follower"}
			// the leader survives a slow flush during which it applied entries, is killed before
			// its next flush; after it rejoined its successor is killed (the rejoined store serves)
			sc.Faults[3] = fault{Kind: killAfterSlowFlush, Target: "leader"}
			sc.Faults = append(sc.Faults[:4], fault{Kind: "kill", Target: "leader"})
		}
		if i == 1 {
			// second schedule (thorough): the leader dies after only the idle shard of its
			// partition was flushed; after it rejoined its successor is killed
			sc.Faults[0] = fault{Kind: killAfterIdle, Target: "leader"}
			sc.Faults[1] = fault{Kind: "kill", Target: "leader"}
		}
		if (!c.Thorough() && i == 1) || (c.Thorough() && i == 2) {
			// the schedule of the raft hook points (quick: second schedule, runs beside the first
			// one; thorough: third schedule, followed by one seeded fault)
			fixed := raftPointSchedule(i)
			if c.Thorough() {
				fixed.Faults = append(fixed.Faults, sc.Faults[0])
			}
			sc = fixed
		}
		w := <-sem
		wg.Add(1)
		go func(sc schedule, w int) {
			defer func() { sem <- w; wg.Done() }()
			rn.runSchedule(sc, w)
		}(sc, w)
	}
	wg.Wait()
	// what the design asks for and this run did not produce is said so
	need := [][2]string{
		{"fault(kind|raft-role-of-victim|owns-master-partition)", "kill-during-flush|leader|master"},
		{"fault(kind|raft-role-of-victim|owns-master-partition)", "kill|leader|master"},
		{"fault(kind|raft-role-of-victim|owns-master-partition)", "kill|follower|not-master"},
		{"history-of-the-replica-serving-with-one-store-down", "restarted-after-sigkill-during-flush"},
		{"fault(kind|raft-role-of-victim|owns-master-partition)", killAfterSlowFlush + "|leader|master"},
		{"kill-after-slow-flush", "entries-applied-during-the-flush>=2"},
		{"fault(kind|raft-role-of-victim|owns-master-partition)", killBeforeApply + "|follower|not-master"},
		{"fault(kind|raft-role-of-victim|owns-master-partition)", killBeforeApply + "|leader|master"},
		{"fault(kind|raft-role-of-victim|owns-master-partition)", unreplTail + "|leader|master"},
		{"kill-before-apply:store-died-by-itself-at-the-point", "true"},
		{"unreplicated-tail:stale-tail-cut-by-the-new-leader's-first-append", "observed=true,slots>=2:true"},
		{"history-of-the-replica-serving-with-one-store-down", "restarted-after-sigkill-between-commit-index-save-and-apply"},
		{"history-of-the-replica-serving-with-one-store-down", "restarted-after-sigkill-as-leader-with-unreplicated-log-tail"},
	}
	if c.Thorough() {
		need = append(need, [][2]string{
			{"fault(kind|raft-role-of-victim|owns-master-partition)", "pause|leader|master"},
			{"fault(kind|raft-role-of-victim|owns-master-partition)", "pause|follower|not-master"},
			{"fault(kind|raft-role-of-victim|owns-master-partition)", "kill-during-flush|follower|not-master"},
			{"fault(kind|raft-role-of-victim|owns-master-partition)", killAfterIdle + "|leader|master"},
			{"history-of-the-replica-serving-with-one-store-down", "restarted-after-sigkill"},
			{"history-of-the-replica-serving-with-one-store-down", "restarted-after-sigkill-after-idle-shard-flush"},
			{"kill-during-flush-point", "flush-after-wal-switch"},
			{"kill-during-flush-point", "flush-after-index-flush"},
			{"kill-during-flush-point", "flush-after-commit"},
		}...)
	}
	for _, n := range need {
		if !c.HasDistinct(n[0], n[1]) {
			c.Inconclusive("category-not-reached:"+n[0]+"="+n[1], 1)
		}
	}
	// listed in the design, not produced by this driver: the kill of a store is never aimed at
	// the catch-up of another one. (The kill at a hook point of the raft apply path is the
	// kill-before-apply fault: between saving the commit index and handing the entries over.)
	c.Inconclusive("category-not-reached:kill-during-catch-up-of-a-rejoining-store", 1)
	c.Finish()
}
