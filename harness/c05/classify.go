package main

// Turns a non-linearizable per-key history into a root-cause-shaped signature. The
// signature names (a) what was observed (acknowledged point absent / older value than an
// acknowledged overwrite / value nobody wrote ...), (b) in which part of the fault schedule
// the wrong answers were given (only inside the fail-over window of a fault that hit the
// master, or also in quiescent reads), (c) what had happened before to the replica that
// served them (never touched, restarted after SIGKILL, restarted after SIGKILL during a
// flush, paused) and (d) whether the answers converged. Different causes therefore get
// different signatures and only the ones listed in known_findings.d/c05.json are tolerated.

import (
	"fmt"
	"sort"
	"strings"
)

const (
	stepDuringFault = 0  // concurrent traffic while the fault is injected
	stepQuietDown   = 1  // quiescent reads, one store down / paused
	stepHealed      = 2  // concurrent traffic while the store rejoins
	stepQuietHealed = 3  // quiescent reads, all stores up
	stepOpener      = -1 // (writes only) the first write into a shard group that did not exist before
)

type badRead struct {
	R        op
	Got      int // index of the write whose value was returned (-1 absent)
	Required int // index of the newest write the read had to reflect
	Serving  int // store owning the master partition when the read started (-1 unknown)
}

type analysis struct {
	Sig    string
	What   string
	Phase  int // phase of the first wrong read (0 = before any fault)
	Bad    int
	Detail map[string]any
}

func analyse(kops []op, tl *timeline, phases []phaseInfo) analysis {
	var ws, rs []op
	for _, o := range kops {
		if o.Write {
			ws = append(ws, o)
		} else {
			rs = append(rs, o)
		}
	}
	sort.Slice(ws, func(i, j int) bool { return ws[i].Call < ws[j].Call })
	sort.Slice(rs, func(i, j int) bool { return rs[i].Call < rs[j].Call })
	idx := map[int64]int{}
	for i, w := range ws {
		idx[w.Val] = i
	}
	var bad []badRead
	type seen struct {
		ret int64
		got int
	}
	var earlier []seen
	for _, r := range rs {
		got := -1
		if r.Val != 0 {
			i, ok := idx[r.Val]
			if !ok {
				return analysis{Sig: "value-nobody-wrote", What: fmt.Sprintf("read [%d,%d] by client %d returned value %d that nobody wrote", r.Call, r.Ret, r.Client, r.Val), Phase: r.Phase, Bad: 1}
			}
			if ws[i].Call > r.Ret {
				return analysis{Sig: "read-from-the-future", What: fmt.Sprintf("read [%d,%d] returned %d before its write was issued", r.Call, r.Ret, r.Val), Phase: r.Phase, Bad: 1}
			}
			got = i
		}
		req := -1
		for j := range ws {
			if ws[j].Ret != 0 && ws[j].Ret < r.Call {
				req = j
			}
		}
		for _, e := range earlier {
			if e.ret < r.Call && e.got > req {
				req = e.got // an earlier completed read already showed a newer write
			}
		}
		if got < req {
			bad = append(bad, badRead{R: r, Got: got, Required: req, Serving: tl.masterAt(r.Call)})
		}
		earlier = append(earlier, seen{r.Ret, got})
	}
	if len(bad) == 0 {
		return analysis{Sig: "incompatible-orders", What: "reads observed the writes in incompatible orders (no single wrong read could be singled out)", Phase: 0}
	}
	first := bad[0]
	kind := "older-value-than-acknowledged-overwrite"
	if first.Got < 0 {
		kind = "acknowledged-point-absent"
	}
	w := ws[first.Required]
	var what string
	ackWhat := fmt.Sprintf("was acknowledged at %d", w.Ret)
	if w.Ret == 0 || w.Ret >= first.R.Call {
		ackWhat = "had already been returned by an earlier read"
	}
	if first.Got < 0 {
		what = fmt.Sprintf("read [%d,%d] by client %d returned absent although write(%d) %s", first.R.Call, first.R.Ret, first.R.Client, w.Val, ackWhat)
	} else {
		what = fmt.Sprintf("read [%d,%d] by client %d returned %d although the overwrite write(%d) %s", first.R.Call, first.R.Ret, first.R.Client, first.R.Val, w.Val, ackWhat)
	}

	// where in the schedule were the wrong answers given
	quiet, loud := 0, 0
	for _, b := range bad {
		if b.R.Step == stepQuietDown || b.R.Step == stepQuietHealed {
			quiet++
		} else {
			loud++
		}
	}
	lastBad := bad[len(bad)-1]
	goodAfter := 0
	for _, r := range rs {
		if r.Call > lastBad.R.Ret {
			goodAfter++
		}
	}
	detail := map[string]any{"wrong_reads": len(bad), "wrong_quiescent_reads": quiet, "reads_after_the_last_wrong_one": goodAfter,
		"first_wrong_read": first.R, "missed_write": w}

	var ph *phaseInfo
	if first.R.Phase >= 1 && first.R.Phase <= len(phases) {
		ph = &phases[first.R.Phase-1]
	}
	faultName := "before-any-fault"
	victim := "none"
	if ph != nil {
		faultName = ph.Fault.Kind
		switch {
		case ph.VictimMaster:
			victim = "master"
		case ph.VictimRaftLeader:
			victim = "raft-leader-not-master"
		default:
			victim = "follower"
		}
	}

	// (1) transient: only inside the fail-over window of a fault on the master
	if quiet == 0 && ph != nil {
		inWindow := true
		for _, b := range bad {
			if b.R.Phase != first.R.Phase || b.R.Step != stepDuringFault || b.R.Ret < ph.FaultTick[0] {
				inWindow = false
			}
			if mw := ws[b.Required]; mw.Call > ph.FaultTick[1] {
				inWindow = false // the missed write was issued after the fault: a surviving replica acknowledged it
			}
		}
		if inWindow && goodAfter > 0 {
			sig := fmt.Sprintf("stale-read-in-failover-window|victim=%s|write-issued-before-the-fault|converged-before-quiescence|%s|fault=%s", victim, kind, faultName)
			return analysis{Sig: sig, What: what + fmt.Sprintf("; %d wrong reads, all during the concurrent phase after the fault on store %d, later reads (%d) and all quiescent reads are correct", len(bad), ph.Victim, goodAfter), Phase: first.R.Phase, Bad: len(bad), Detail: detail}
		}
	}

	// (2) wrong in quiescent reads: which replica served, and what happened to it before
	serving := map[int]bool{}
	for _, b := range bad {
		if b.R.Step == stepQuietDown || b.R.Step == stepQuietHealed {
			serving[b.Serving] = true
		}
	}
	if len(serving) == 0 {
		// no wrong quiescent read: the master seen when the wrong read returned, unless that is
		// the store that was down at that moment (the master change had not been sampled yet)
		for i := range bad {
			b := &bad[i]
			m := tl.masterAt(b.R.Ret)
			if b.R.Phase >= 1 && b.R.Phase <= len(phases) {
				p := phases[b.R.Phase-1]
				if m == p.Victim-1 && b.R.Step <= stepQuietDown && b.R.Ret >= p.FaultTick[0] {
					continue
				}
			}
			if m >= 0 {
				b.Serving = m
				serving[m] = true
			}
		}
	}
	quietOnly := quiet > 0
	servingDesc := "unknown"
	descs := map[string]bool{}
	var stores []int
	for sv := range serving {
		if sv < 0 {
			continue
		}
		stores = append(stores, sv+1)
		// history of that store at its first wrong quiescent read (plus the fault of that phase if
		// it hit this store and the read came after the heal)
		var hist []string
		for _, b := range bad {
			if (!quietOnly || b.R.Step == stepQuietDown || b.R.Step == stepQuietHealed) && b.Serving == sv {
				if b.R.Phase >= 1 && b.R.Phase <= len(phases) {
					p := phases[b.R.Phase-1]
					hist = append(hist, p.StoreHistory[sv]...)
					if p.Victim-1 == sv && b.R.Step >= stepHealed {
						hist = append(hist, p.EventOfVictim)
					}
				}
				break
			}
		}
		descs[describeHistory(hist)] = true
		detail[fmt.Sprintf("history_of_serving_store_%d", sv+1)] = hist
	}
	sort.Ints(stores)
	detail["serving_stores"] = stores
	if len(descs) > 0 {
		var l []string
		for d := range descs {
			l = append(l, d)
		}
		sort.Strings(l)
		servingDesc = strings.Join(l, "+")
	}
	persistence := "transient"
	if quiet == 0 && lastBad.Required+1 < len(ws) {
		// did the wrong answers end because the key was written again?
		for _, r := range rs {
			if r.Call > lastBad.R.Ret {
				if i, ok := idx[r.Val]; ok && i > lastBad.Required {
					persistence = "wrong-until-overwritten"
				}
				break
			}
		}
	}
	if quiet > 0 {
		persistence = "wrong-in-quiescent-reads"
		if goodAfter == 0 {
			persistence = "wrong-in-quiescent-reads-until-the-end"
		}
	}
	shard := "busy-shard"
	if strings.HasSuffix(first.R.Key.Series, fmt.Sprintf("w=%d", coldWriter)) {
		shard = "idle-shard"
	}
	var sig string
	if w.Phase == 0 && w.Step == stepOpener {
		// the missed write is an opener: the first write into a shard group that did not exist
		// before. Was the replica that lacks it the master when it was written?
		was := "follower"
		m := tl.masterAt(w.Call)
		if m < 0 {
			was = "unknown"
		}
		for sv := range serving {
			if sv == m {
				was = "master"
			}
		}
		if len(serving) == 0 {
			was = "unknown"
		}
		detail["master_when_the_missed_write_was_made"] = m + 1
		sig = fmt.Sprintf("acknowledged-write-lost|missed-write=first-write-into-a-new-shard-group|%s|served-by-replica-that-was-%s-at-the-write|serving-replica=%s|lost-key-in=%s|%s|first-seen-after-fault=%s-on-%s", kind, was, servingDesc, shard, persistence, faultName, victim)
	} else {
		sig = fmt.Sprintf("acknowledged-write-lost|missed-write=later-write|serving-replica=%s|lost-key-in=%s|%s|%s|first-seen-after-fault=%s-on-%s", servingDesc, shard, persistence, kind, faultName, victim)
	}
	return analysis{Sig: sig, What: what + fmt.Sprintf("; %d wrong reads (%d of them quiescent), %d reads after the last wrong one; serving replica: %s", len(bad), quiet, goodAfter, servingDesc), Phase: first.R.Phase, Bad: len(bad), Detail: detail}
}

// describeHistory condenses what a store went through: the most severe event wins.
func describeHistory(h []string) string {
	has := func(k string) bool {
		for _, x := range h {
			if x == k {
				return true
			}
		}
		return false
	}
	for _, x := range h {
		if strings.HasSuffix(x, afterIdleSuffix) {
			return "restarted-after-sigkill-after-idle-shard-flush"
		}
	}
	switch {
	case has(killAfterIdle):
		return "restarted-after-sigkill-after-idle-shard-flush"
	case has(killAfterSlowFlush):
		return "restarted-after-sigkill-after-a-flush-during-which-entries-were-applied"
	case has("kill-during-flush"):
		return "restarted-after-sigkill-during-flush"
	case has(unreplTail):
		return "restarted-after-sigkill-as-leader-with-unreplicated-log-tail"
	case has(killBeforeApply):
		return "restarted-after-sigkill-between-commit-index-save-and-apply"
	case has("kill"):
		return "restarted-after-sigkill"
	case has("pause"):
		return "resumed-after-pause"
	}
	return "never-touched"
}

func faultLabel(f fault) string {
	if f.Point != "" {
		return f.Kind + "(" + strings.TrimPrefix(f.Point, "flush-") + ")-" + f.Target
	}
	return f.Kind + "-" + f.Target
}
