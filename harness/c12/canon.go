package main

// Canonical rendering of AST / option objects for structural comparison.
//
// canon() walks a value by reflection and prints, for every struct, its type name and
// its EXPORTED fields only. The unexported `depth` caches of the influxql nodes are
// therefore ignored, which is the "ignore cached depth fields" rule of the design.
// Floats are printed by bit pattern (so NaN == NaN, -0 != +0), regular expressions by
// their source text, time zones by name, nil and empty slices/maps alike.
//
// The normalisation switches are applied one at a time by classify() to *explain* a
// difference (they never hide one silently).

import (
	"fmt"
	"math"
	"reflect"
	"regexp"
	"sort"
	"strings"
	"time"

	"github.com/openGemini/openGemini/lib/util/lifted/influx/influxql"

	"verifharness/vf"
)

type canonOpts struct {
	stripParens  bool // ParenExpr is transparent (grouping is already explicit in the tree shape)
	numAsInt     bool // NumberLiteral with an integral value in int64 range is printed as IntegerLiteral
	timeAsString bool // TimeLiteral is printed as the StringLiteral its String() produces
	uintAsInt    bool // UnsignedLiteral <= MaxInt64 printed as IntegerLiteral
	selectSyntax bool // SelectStatement: only the fields that have a spelling in the text
}

var (
	typRegexp   = reflect.TypeOf((*regexp.Regexp)(nil))
	typLocation = reflect.TypeOf((*time.Location)(nil))
	typTime     = reflect.TypeOf(time.Time{})
)

// fields of SelectStatement that are written in the query text (everything else is
// derived by one of the two parsers or by the planner and has no spelling).
var selectSyntaxFields = map[string]bool{
	"Fields": true, "Target": true, "Dimensions": true, "ExceptDimensions": true, "Sources": true,
	"Condition": true, "SortFields": true, "Limit": true, "Offset": true, "SLimit": true,
	"SOffset": true, "Fill": true, "FillValue": true, "Location": true, "Hints": true,
}

func canon(v any, o canonOpts) string {
	var b strings.Builder
	canonValue(&b, reflect.ValueOf(v), o, 0)
	return b.String()
}

func isIntegralInt64(f float64) bool {
	return !math.IsNaN(f) && !math.IsInf(f, 0) && f == math.Trunc(f) && f >= -9223372036854775808.0 && f < 9223372036854775808.0
}

func canonFloat(b *strings.Builder, f float64) {
	fmt.Fprintf(b, "f64:%016x(%g)", math.Float64bits(f), f)
}

func canonValue(b *strings.Builder, v reflect.Value, o canonOpts, depth int) {
	if depth > 400 {
		b.WriteString("<deep>")
		return
	}
	if !v.IsValid() {
		b.WriteString("nil")
		return
	}
	switch v.Kind() {
	case reflect.Interface:
		if v.IsNil() {
			b.WriteString("nil")
			return
		}
		canonValue(b, v.Elem(), o, depth+1)
		return
	case reflect.Ptr:
		if v.IsNil() {
			b.WriteString("nil")
			return
		}
		if v.Type() == typRegexp {
			fmt.Fprintf(b, "re:%q", v.Interface().(*regexp.Regexp).String())
			return
		}
		if v.Type() == typLocation {
			fmt.Fprintf(b, "loc:%q", v.Interface().(*time.Location).String())
			return
		}
		switch n := v.Interface().(type) {
		case *influxql.ParenExpr:
			if o.stripParens {
				canonValue(b, reflect.ValueOf(n.Expr), o, depth+1)
				return
			}
		case *influxql.NumberLiteral:
			if o.numAsInt && isIntegralInt64(n.Val) {
				fmt.Fprintf(b, "IntegerLiteral{Val:%d}", int64(n.Val))
				return
			}
		case *influxql.UnsignedLiteral:
			if o.uintAsInt && n.Val <= math.MaxInt64 {
				fmt.Fprintf(b, "IntegerLiteral{Val:%d}", int64(n.Val))
				return
			}
		case *influxql.TimeLiteral:
			if o.timeAsString {
				fmt.Fprintf(b, "StringLiteral{Val:%q}", n.Val.UTC().Format(time.RFC3339Nano))
				return
			}
		}
		canonValue(b, v.Elem(), o, depth+1)
		return
	case reflect.Struct:
		if v.Type() == typTime {
			t := v.Interface().(time.Time)
			fmt.Fprintf(b, "time:%d", t.UnixNano())
			return
		}
		t := v.Type()
		b.WriteString(t.Name())
		b.WriteByte('{')
		first := true
		syntaxOnly := o.selectSyntax && t.Name() == "SelectStatement"
		for i := 0; i < t.NumField(); i++ {
			f := t.Field(i)
			if f.PkgPath != "" { // unexported (e.g. depth)
				continue
			}
			if syntaxOnly && !selectSyntaxFields[f.Name] {
				continue
			}
			fv := v.Field(i)
			switch fv.Kind() {
			case reflect.Func, reflect.Chan, reflect.UnsafePointer:
				continue
			}
			if !first {
				b.WriteByte(',')
			}
			first = false
			b.WriteString(f.Name)
			b.WriteByte(':')
			canonValue(b, fv, o, depth+1)
		}
		b.WriteByte('}')
		return
	case reflect.Slice, reflect.Array:
		if v.Kind() == reflect.Slice && v.Type().Elem().Kind() == reflect.Uint8 {
			fmt.Fprintf(b, "bytes:%x", v.Bytes())
			return
		}
		b.WriteByte('[')
		for i := 0; i < v.Len(); i++ {
			if i > 0 {
				b.WriteByte(',')
			}
			canonValue(b, v.Index(i), o, depth+1)
		}
		b.WriteByte(']')
		return
	case reflect.Map:
		type kv struct{ k, v string }
		var ents []kv
		it := v.MapRange()
		for it.Next() {
			var kb, vb strings.Builder
			canonValue(&kb, it.Key(), o, depth+1)
			canonValue(&vb, it.Value(), o, depth+1)
			ents = append(ents, kv{kb.String(), vb.String()})
		}
		sort.Slice(ents, func(i, j int) bool { return ents[i].k < ents[j].k })
		b.WriteString("map[")
		for i, e := range ents {
			if i > 0 {
				b.WriteByte(',')
			}
			b.WriteString(e.k)
			b.WriteString("=>")
			b.WriteString(e.v)
		}
		b.WriteByte(']')
		return
	case reflect.Float64, reflect.Float32:
		canonFloat(b, v.Float())
		return
	case reflect.String:
		fmt.Fprintf(b, "%q", v.String())
		return
	case reflect.Bool:
		fmt.Fprintf(b, "%v", v.Bool())
		return
	case reflect.Int, reflect.Int8, reflect.Int16, reflect.Int32, reflect.Int64:
		fmt.Fprintf(b, "%d", v.Int())
		return
	case reflect.Uint, reflect.Uint8, reflect.Uint16, reflect.Uint32, reflect.Uint64, reflect.Uintptr:
		fmt.Fprintf(b, "%d", v.Uint())
		return
	case reflect.Func, reflect.Chan, reflect.UnsafePointer:
		b.WriteString("<fn>")
		return
	}
	fmt.Fprintf(b, "<%s>", v.Kind())
}

// firstDiff describes where two canonical strings diverge.
func firstDiff(a, b string) (ctxA, ctxB, typA, typB string) {
	n := len(a)
	if len(b) < n {
		n = len(b)
	}
	i := 0
	for i < n && a[i] == b[i] {
		i++
	}
	cut := func(s string) string {
		lo, hi := i-70, i+70
		if lo < 0 {
			lo = 0
		}
		if hi > len(s) {
			hi = len(s)
		}
		return s[lo:hi]
	}
	return cut(a), cut(b), typeTokenAt(a, i), typeTokenAt(b, i)
}

// typeTokenAt returns the struct type name whose rendering contains position i (the
// last "Name{" opened and not yet closed before i, approximated by the last "Name{").
func typeTokenAt(s string, i int) string {
	if i > len(s) {
		i = len(s)
	}
	// a difference in the type name itself: extend to the end of the identifier
	j := i
	for j < len(s) && (s[j] >= 'A' && s[j] <= 'Z' || s[j] >= 'a' && s[j] <= 'z') {
		j++
	}
	if j < len(s) && s[j] == '{' && j > 0 {
		k := j
		for k > 0 && (s[k-1] >= 'A' && s[k-1] <= 'Z' || s[k-1] >= 'a' && s[k-1] <= 'z') {
			k--
		}
		if k < j {
			return s[k:j]
		}
	}
	depth := 0
	for k := i - 1; k >= 0; k-- {
		switch s[k] {
		case '}':
			depth++
		case '{':
			if depth > 0 {
				depth--
				continue
			}
			e := k
			for k > 0 && (s[k-1] >= 'A' && s[k-1] <= 'Z' || s[k-1] >= 'a' && s[k-1] <= 'z') {
				k--
			}
			if k < e {
				return s[k:e]
			}
			return "?"
		}
	}
	return "?"
}

// verdict of one round trip
type verdict struct {
	Equal     bool   // strictly equal (only depth caches ignored)
	Class     string // "" if equal; else the explanation class or "unexplained:<A>-><B>"
	Tolerated bool   // the class is a documented equivalence, not a violation
	CtxA      string
	CtxB      string
}

// explanation classes tried in order; the first single switch (then pairs) that makes the
// two trees equal names the class.
type explanation struct {
	name      string
	o         canonOpts
	tolerated bool
}

var explanations = []explanation{
	// ParenExpr carries no meaning beyond grouping, and grouping is explicit in the tree
	// shape that is compared; ((a)) == (a) == a under every evaluator of the language.
	{"paren-wrappers-only", canonOpts{stripParens: true}, true},
	{"numlit-integral-reparsed-as-integer", canonOpts{numAsInt: true}, false},
	{"numlit-integral-reparsed-as-integer+paren-wrappers", canonOpts{numAsInt: true, stripParens: true}, false},
	// The language spells a time as a quoted RFC3339 string and nothing else; TimeLiteral
	// nodes are made only by Reduce/ConditionExpr from such strings next to `time`, and
	// TimeLiteral.String() is that string again. ValuerEval gives nil for a TimeLiteral and
	// the text for a StringLiteral; compared with the integer `time` both yield "no match".
	{"timeliteral-as-rfc3339-string", canonOpts{timeAsString: true}, true},
	{"timeliteral-as-rfc3339-string+paren-wrappers", canonOpts{timeAsString: true, stripParens: true}, true},
}

func classify(a, b any, base canonOpts) verdict {
	ca, cb := canon(a, base), canon(b, base)
	if ca == cb {
		return verdict{Equal: true}
	}
	for _, ex := range explanations {
		o := base
		o.stripParens = o.stripParens || ex.o.stripParens
		o.numAsInt = o.numAsInt || ex.o.numAsInt
		o.timeAsString = o.timeAsString || ex.o.timeAsString
		if canon(a, o) == canon(b, o) {
			xa, xb, _, _ := firstDiff(ca, cb)
			return verdict{Class: ex.name, Tolerated: ex.tolerated, CtxA: xa, CtxB: xb}
		}
	}
	// unexplained: name the node types at the first divergence of the paren-free forms
	o := base
	o.stripParens = true
	sa, sb := canon(a, o), canon(b, o)
	xa, xb, ta, tb := firstDiff(sa, sb)
	return verdict{Class: "unexplained:" + ta + "->" + tb, CtxA: xa, CtxB: xb}
}

// nodeDesc is a short description of one expression node (type + operator / value).
func nodeDesc(e influxql.Expr) string {
	switch n := e.(type) {
	case nil:
		return "nil"
	case *influxql.BinaryExpr:
		return "BinaryExpr(" + n.Op.String() + ")"
	case *influxql.Call:
		return fmt.Sprintf("Call(%s/%d)", n.Name, len(n.Args))
	case *influxql.VarRef:
		return "VarRef(" + n.Type.String() + ")"
	default:
		t := reflect.TypeOf(e)
		if t.Kind() == reflect.Ptr {
			t = t.Elem()
		}
		return t.Name()
	}
}

func unparen(e influxql.Expr) influxql.Expr {
	for {
		p, ok := e.(*influxql.ParenExpr)
		if !ok || p == nil {
			return e
		}
		e = p.Expr
	}
}

// exprDiff walks two expression trees in parallel (parentheses transparent) and
// describes the first pair of nodes that differ.
func exprDiff(a, b influxql.Expr) (string, string, bool) {
	a, b = unparen(a), unparen(b)
	if a == nil || b == nil {
		if a == nil && b == nil {
			return "", "", false
		}
		return nodeDesc(a), nodeDesc(b), true
	}
	if reflect.TypeOf(a) != reflect.TypeOf(b) {
		return nodeDesc(a), nodeDesc(b), true
	}
	switch x := a.(type) {
	case *influxql.BinaryExpr:
		y := b.(*influxql.BinaryExpr)
		if x.Op != y.Op {
			return nodeDesc(a), nodeDesc(b), true
		}
		if da, db, d := exprDiff(x.LHS, y.LHS); d {
			return da, db, true
		}
		return exprDiff(x.RHS, y.RHS)
	case *influxql.Call:
		y := b.(*influxql.Call)
		if x.Name != y.Name || len(x.Args) != len(y.Args) {
			return nodeDesc(a), nodeDesc(b), true
		}
		for i := range x.Args {
			if da, db, d := exprDiff(x.Args[i], y.Args[i]); d {
				return da, db, true
			}
		}
		return "", "", false
	case *influxql.CaseWhenExpr:
		y := b.(*influxql.CaseWhenExpr)
		if len(x.Conditions) != len(y.Conditions) || len(x.Assigners) != len(y.Assigners) {
			return nodeDesc(a), nodeDesc(b), true
		}
		for i := range x.Conditions {
			if da, db, d := exprDiff(x.Conditions[i], y.Conditions[i]); d {
				return da, db, true
			}
		}
		for i := range x.Assigners {
			if da, db, d := exprDiff(x.Assigners[i], y.Assigners[i]); d {
				return da, db, true
			}
		}
		return "", "", false
	}
	o := canonOpts{stripParens: true}
	if canon(a, o) != canon(b, o) {
		return nodeDesc(a), nodeDesc(b), true
	}
	return "", "", false
}

// classifyExpr is classify for expression trees with a more precise "unexplained" name.
func classifyExpr(a, b influxql.Expr) verdict {
	v := classify(a, b, canonOpts{})
	if v.Equal || !strings.HasPrefix(v.Class, "unexplained:") {
		return v
	}
	if da, db, d := exprDiff(a, b); d {
		v.Class = "unexplained:" + da + "->" + db
	}
	return v
}

// catchW is vf.Catch with a watchdog: the parsers and decoders under test are handed
// machine-made text and may loop for ever on it (seen: Parser.parseSet on a string literal
// the printer left unterminated). Such a call is reported like a panic ("hang: ...").
func catchW(f func()) any { return vf.CatchHang(f, 45*time.Second) }
