package main

// Phase "cluster-vs-single", part 3: canonical form of an answer and the comparison of
// the cluster's answer with the single node's (the canonicalisation idea of
// harness/c08/canon.go): series ordered by name + tag set; rows with equal time (the
// language leaves their order open) ordered by their text; numbers compared by their
// JSON text (floats are exact by construction of the data), columns that contain mean()
// with a tolerance of a few ulps.

import (
	"encoding/json"
	"fmt"
	"math"
	"sort"
	"strconv"
	"strings"

	"verifharness/proc"
)

type cvsSeries struct {
	Name string            `json:"name,omitempty"`
	Tags map[string]string `json:"tags,omitempty"`
	Key  string            `json:"-"`
	Cols []string          `json:"columns"`
	Rows [][]any           `json:"values"`
}

type cvsAnswer struct {
	Series []cvsSeries `json:"series"`
}

// cvsOutcome of one statement on one system.
type cvsOutcome struct {
	Ans       *cvsAnswer
	Err       string // statement / query error reported by the server
	Transport string // the HTTP call itself failed or timed out: not judged
}

func cvsDecode(res *proc.QueryResult, err error) cvsOutcome {
	if res == nil {
		return cvsOutcome{Transport: fmt.Sprint(err)}
	}
	if res.Err != "" {
		return cvsOutcome{Err: res.Err}
	}
	if len(res.Results) == 0 {
		return cvsOutcome{Transport: "no result document: " + cvsTrunc(res.Raw, 200)}
	}
	a := &cvsAnswer{}
	for _, r := range res.Results {
		if r.Err != "" {
			return cvsOutcome{Err: r.Err}
		}
		for _, se := range r.Series {
			a.Series = append(a.Series, cvsSeries{Name: se.Name, Tags: se.Tags, Key: se.Name + "{" + cvsSeriesKey(se.Tags) + "}", Cols: se.Columns, Rows: se.Values})
		}
	}
	return cvsOutcome{Ans: a}
}

func (a *cvsAnswer) rows() int {
	n := 0
	for _, s := range a.Series {
		n += len(s.Rows)
	}
	return n
}

func cvsCellText(c any) string {
	switch v := c.(type) {
	case nil:
		return "null"
	case json.Number:
		return v.String()
	case bool:
		return strconv.FormatBool(v)
	case string:
		return strconv.Quote(v)
	}
	return fmt.Sprintf("?%v", c)
}

func cvsRowText(r []any) string {
	parts := make([]string, len(r))
	for i, c := range r {
		parts[i] = cvsCellText(c)
	}
	return "[" + strings.Join(parts, ",") + "]"
}

// canonical: series ordered by key; inside a series, every run of rows with the same
// time is ordered by row text. maskTime: the time column is not part of the comparison
// (bare min()/max() selector whose value may be held by several rows, DESIGN 4.2).
func (a *cvsAnswer) canonical(maskTime bool) *cvsAnswer {
	out := &cvsAnswer{}
	for _, s := range a.Series {
		rows := make([][]any, len(s.Rows))
		for i, r := range s.Rows {
			rows[i] = r
			if maskTime && len(r) > 0 && len(s.Cols) > 0 && s.Cols[0] == "time" {
				rr := append([]any{}, r...)
				rr[0] = "masked"
				rows[i] = rr
			}
		}
		for i := 0; i < len(rows); {
			j := i + 1
			for j < len(rows) && len(rows[j]) > 0 && len(rows[i]) > 0 && cvsCellText(rows[j][0]) == cvsCellText(rows[i][0]) {
				j++
			}
			if j-i > 1 {
				seg := rows[i:j]
				sort.SliceStable(seg, func(x, y int) bool { return cvsRowText(seg[x]) < cvsRowText(seg[y]) })
			}
			i = j
		}
		out.Series = append(out.Series, cvsSeries{Name: s.Name, Tags: s.Tags, Key: s.Key, Cols: s.Cols, Rows: rows})
	}
	sort.SliceStable(out.Series, func(i, j int) bool { return out.Series[i].Key < out.Series[j].Key })
	return out
}

// stripAllNull drops the rows whose cells after the time are all null (firstOnly: whose
// first cell after the time, the selector of a statement with auxiliary columns, is null),
// and the series left without rows.
func (a *cvsAnswer) stripAllNull(firstOnly bool) *cvsAnswer {
	out := &cvsAnswer{}
	for _, s := range a.Series {
		var rows [][]any
		for _, r := range s.Rows {
			all := len(r) > 1
			for i, c := range r[1:] {
				if c != nil {
					all = false
					break
				}
				if firstOnly && i == 0 {
					break
				}
			}
			if !all {
				rows = append(rows, r)
			}
		}
		if len(rows) > 0 {
			out.Series = append(out.Series, cvsSeries{Name: s.Name, Tags: s.Tags, Key: s.Key, Cols: s.Cols, Rows: rows})
		}
	}
	return out
}

func cvsUlpClose(a, b float64, ulps int) bool {
	if a == b {
		return true
	}
	if math.IsNaN(a) || math.IsNaN(b) {
		return false
	}
	x := a
	for i := 0; i < ulps; i++ {
		x = math.Nextafter(x, b)
		if x == b {
			return true
		}
	}
	return false
}

func cvsCellSame(x, y any, ulps int) bool {
	if cvsCellText(x) == cvsCellText(y) {
		return true
	}
	nx, ok1 := x.(json.Number)
	ny, ok2 := y.(json.Number)
	if !ok1 || !ok2 {
		return false
	}
	fx, e1 := strconv.ParseFloat(nx.String(), 64)
	fy, e2 := strconv.ParseFloat(ny.String(), 64)
	if e1 != nil || e2 != nil {
		return false
	}
	if !strings.ContainsAny(nx.String(), ".eE") && !strings.ContainsAny(ny.String(), ".eE") {
		return false // two integers with different digits
	}
	// 1 and 1.0 are the same number in JSON
	return fx == fy || ulps > 0 && cvsUlpClose(fx, fy, ulps)
}

// cvsDiff: the difference between the single node's answer (want) and the cluster's (got).
type cvsDiff struct {
	Kind  string   `json:"kind"` // missing-series extra-series series-set columns missing-rows extra-rows value null-for-value value-for-null time
	First string   `json:"first"`
	More  []string `json:"more,omitempty"`
	// totals
	MissingSeries int `json:"missing_series,omitempty"`
	ExtraSeries   int `json:"extra_series,omitempty"`
	MissingRows   int `json:"missing_rows,omitempty"`
	ExtraRows     int `json:"extra_rows,omitempty"`
	Values        int `json:"wrong_values,omitempty"`
	NullForValue  int `json:"null_where_value,omitempty"`
	ValueForNull  int `json:"value_where_null,omitempty"`
	Times         int `json:"wrong_times,omitempty"`
	// cells that differ, per column index (0 = time)
	Cols map[int]int `json:"differing_cells_by_column,omitempty"`
}

// cvsCompare compares canonical answers. tol(i): tolerance in ulps of column i (0 = exact).
func cvsCompare(want, got *cvsAnswer, tol func(col int) int) *cvsDiff {
	d := &cvsDiff{}
	note := func(kind, s string) {
		if d.Kind == "" {
			d.Kind, d.First = kind, s
		} else if len(d.More) < 3 {
			d.More = append(d.More, kind+": "+s)
		}
	}
	wk := map[string]*cvsSeries{}
	for i := range want.Series {
		wk[want.Series[i].Key] = &want.Series[i]
	}
	gk := map[string]*cvsSeries{}
	for i := range got.Series {
		gk[got.Series[i].Key] = &got.Series[i]
	}
	for i := range want.Series {
		if gk[want.Series[i].Key] == nil {
			d.MissingSeries++
			d.MissingRows += len(want.Series[i].Rows)
		}
	}
	for i := range got.Series {
		if wk[got.Series[i].Key] == nil {
			d.ExtraSeries++
			d.ExtraRows += len(got.Series[i].Rows)
		}
	}
	switch {
	case d.MissingSeries > 0 && d.ExtraSeries > 0:
		note("series-set", fmt.Sprintf("single has %v, cluster has %v", cvsKeys(want), cvsKeys(got)))
	case d.MissingSeries > 0:
		note("missing-series", fmt.Sprintf("single has %v, cluster has %v", cvsKeys(want), cvsKeys(got)))
	case d.ExtraSeries > 0:
		note("extra-series", fmt.Sprintf("single has %v, cluster has %v", cvsKeys(want), cvsKeys(got)))
	}
	for i := range want.Series {
		sw := &want.Series[i]
		sg := gk[sw.Key]
		if sg == nil {
			continue
		}
		if strings.Join(sw.Cols, "\x00") != strings.Join(sg.Cols, "\x00") {
			note("columns", fmt.Sprintf("%s: single %v, cluster %v", sw.Key, sw.Cols, sg.Cols))
			continue
		}
		n := len(sw.Rows)
		if len(sg.Rows) < n {
			d.MissingRows += n - len(sg.Rows)
			n = len(sg.Rows)
			note("missing-rows", fmt.Sprintf("%s: single %d rows, cluster %d rows; first missing %s", sw.Key, len(sw.Rows), len(sg.Rows), cvsRowText(sw.Rows[n])))
		} else if len(sg.Rows) > n {
			d.ExtraRows += len(sg.Rows) - n
			note("extra-rows", fmt.Sprintf("%s: single %d rows, cluster %d rows; first extra %s", sw.Key, len(sw.Rows), len(sg.Rows), cvsRowText(sg.Rows[n])))
		}
		for r := 0; r < n; r++ {
			rw, rg := sw.Rows[r], sg.Rows[r]
			if len(rw) != len(rg) {
				d.Values++
				note("value", fmt.Sprintf("%s row %d: single %s, cluster %s", sw.Key, r, cvsRowText(rw), cvsRowText(rg)))
				continue
			}
			kind := ""
			for c := range rw {
				if cvsCellSame(rw[c], rg[c], tol(c)) {
					continue
				}
				if d.Cols == nil {
					d.Cols = map[int]int{}
				}
				d.Cols[c]++
				switch {
				case c == 0 && len(sw.Cols) > 0 && sw.Cols[0] == "time":
					d.Times++
					if kind == "" {
						kind = "time"
					}
				case rg[c] == nil:
					d.NullForValue++
					if kind == "" {
						kind = "null-for-value"
					}
				case rw[c] == nil:
					d.ValueForNull++
					if kind == "" {
						kind = "value-for-null"
					}
				default:
					d.Values++
					if kind == "" {
						kind = "value"
					}
				}
			}
			if kind != "" {
				note(kind, fmt.Sprintf("%s row %d: single %s, cluster %s", sw.Key, r, cvsRowText(rw), cvsRowText(rg)))
			}
		}
	}
	if d.Kind == "" {
		return nil
	}
	// rows shifted inside a series show as many "time" differences; the row counts tell more
	return d
}

func cvsKeys(a *cvsAnswer) []string {
	out := make([]string, 0, len(a.Series))
	for _, s := range a.Series {
		out = append(out, s.Key)
	}
	if len(out) > 8 {
		out = append(out[:8], fmt.Sprintf("…%d more", len(a.Series)-8))
	}
	return out
}

// trimmed copy of an answer for a witness
func (a *cvsAnswer) trimmed(maxSeries, maxRows int) map[string]any {
	if a == nil {
		return nil
	}
	out := []map[string]any{}
	for i, s := range a.Series {
		if i == maxSeries {
			break
		}
		rows := []string{}
		for j, r := range s.Rows {
			if j == maxRows {
				rows = append(rows, fmt.Sprintf("…%d more rows", len(s.Rows)-maxRows))
				break
			}
			rows = append(rows, cvsRowText(r))
		}
		out = append(out, map[string]any{"series": s.Key, "columns": s.Cols, "rows": rows})
	}
	return map[string]any{"series_total": len(a.Series), "rows_total": a.rows(), "series": out}
}

func cvsTrunc(s string, n int) string {
	if len(s) > n {
		return s[:n] + "…"
	}
	return s
}

// cvsFirstWords: the leading words of an error text with numbers and quoted parts
// removed, for signatures.
func cvsFirstWords(s string, n int) string {
	var words []string
	for _, w := range strings.Fields(s) {
		clean := strings.Map(func(r rune) rune {
			if r >= 'a' && r <= 'z' || r >= 'A' && r <= 'Z' || r == '-' || r == '_' {
				return r
			}
			return -1
		}, w)
		if clean == "" || clean != strings.Trim(w, ":,;.()[]") {
			// a word with digits / quotes / punctuation inside: an operand, not part of the message class
			if len(words) > 0 && words[len(words)-1] == "*" {
				continue
			}
			words = append(words, "*")
			continue
		}
		words = append(words, strings.ToLower(clean))
		if len(words) >= n {
			break
		}
	}
	return strings.Join(words, "-")
}
