package main

// Part 1: text -> parser -> tree e -> e.String() -> ParseExpr/ParseSource/ParseSortFields/
// ParseStatement (what the store side calls) -> e', e vs e'.

import (
	"fmt"
	"math"
	"regexp"
	"sort"
	"strconv"
	"strings"
	"time"

	"verifharness/vf"

	"github.com/openGemini/openGemini/engine/hybridqp"
	"github.com/openGemini/openGemini/lib/util/lifted/influx/influxql"
)

// textCase is the self-contained witness of every text-driven case.
type textCase struct {
	Kind   string            `json:"kind"` // cond | arith | source | sort | stmt
	Text   string            `json:"text"`
	Params map[string]string `json:"params,omitempty"` // name -> "i:<int>" | "f:<float bits hex>" | "s:<string>" | "b:<bool>"
	Stage  string            `json:"stage,omitempty"`  // which round trip reported (informational)
}

func encodeParams(p map[string]interface{}) map[string]string {
	if len(p) == 0 {
		return nil
	}
	out := map[string]string{}
	for k, v := range p {
		switch x := v.(type) {
		case int64:
			out[k] = "i:" + strconv.FormatInt(x, 10)
		case float64:
			out[k] = "f:" + strconv.FormatUint(math.Float64bits(x), 16)
		case string:
			out[k] = "s:" + x
		case bool:
			out[k] = "b:" + strconv.FormatBool(x)
		}
	}
	return out
}

func decodeParams(p map[string]string) map[string]interface{} {
	if len(p) == 0 {
		return nil
	}
	out := map[string]interface{}{}
	for k, v := range p {
		if len(v) < 2 {
			continue
		}
		switch v[:2] {
		case "i:":
			n, _ := strconv.ParseInt(v[2:], 10, 64)
			out[k] = n
		case "f:":
			n, _ := strconv.ParseUint(v[2:], 16, 64)
			out[k] = math.Float64frombits(n)
		case "s:":
			out[k] = v[2:]
		case "b:":
			out[k] = v[2:] == "true"
		}
	}
	return out
}

// yaccParse is how the sql node parses a query (httpd.Handler.getSqlQuery).
func yaccParse(q string, params map[string]interface{}) (qq *influxql.Query, err error) {
	if p := vf.Catch(func() {
		p := influxql.NewParser(strings.NewReader(q))
		defer p.Release()
		if params != nil {
			p.SetParams(params)
		}
		yy := influxql.NewYyParser(p.GetScanner(), p.GetPara())
		yy.ParseTokens()
		qq, err = yy.GetQuery()
	}); p != nil {
		return nil, fmt.Errorf("yacc parser panic: %v", p)
	}
	if err == nil && (qq == nil || len(qq.Statements) != 1) {
		return nil, fmt.Errorf("yacc: %d statements", len(qq.Statements))
	}
	return qq, err
}

func yaccSelect(q string, params map[string]interface{}) (*influxql.SelectStatement, error) {
	qq, err := yaccParse(q, params)
	if err != nil {
		return nil, err
	}
	st, ok := qq.Statements[0].(*influxql.SelectStatement)
	if !ok {
		return nil, fmt.Errorf("yacc: not a select: %T", qq.Statements[0])
	}
	return st, nil
}

// rdParseExpr is the hand-written parser (influxql.ParseExpr) with bound parameters.
func rdParseExpr(s string, params map[string]interface{}) (e influxql.Expr, err error) {
	if p := vf.Catch(func() {
		p := influxql.NewParser(strings.NewReader(s))
		defer p.Release()
		if params != nil {
			p.SetParams(params)
		}
		e, err = p.ParseExpr()
	}); p != nil {
		return nil, fmt.Errorf("ParseExpr panic: %v", p)
	}
	return e, err
}

var fixedNow = time.Date(2024, 5, 6, 7, 8, 9, 0, time.UTC)

var reDigits = regexp.MustCompile(`[0-9]+`)
var reAtLine = regexp.MustCompile(` at line [0-9]+, char [0-9]+`)

// normErr reduces a parse error to its class.
func normErr(err error) string {
	m := reAtLine.ReplaceAllString(err.Error(), "")
	if strings.HasPrefix(m, "found ") {
		if i := strings.Index(m, ", expected "); i > 0 {
			tok := m[len("found "):i]
			switch tok {
			case "&", "|", "^", "EOF", "(", ")", ",", "::", ".":
			default:
				tok = "<tok>"
			}
			m = "found " + tok + m[i:]
		}
	}
	m = reDigits.ReplaceAllString(m, "N")
	if len(m) > 120 {
		m = m[:120]
	}
	return m
}

var rdVarTypes = map[influxql.DataType]bool{
	influxql.Unknown: true, influxql.Float: true, influxql.FloatTuple: true, influxql.Integer: true, influxql.Unsigned: true,
	influxql.String: true, influxql.Boolean: true, influxql.Tag: true, influxql.AnyField: true,
}

// causes lists properties of the planned tree that are known to make its text
// unparseable or differently parsed; used to make finding signatures narrow.
func causes(n influxql.Node) []string {
	set := map[string]bool{}
	var walkExpr func(e influxql.Expr)
	var walkNode func(n influxql.Node)
	walkExpr = func(e influxql.Expr) {
		switch x := e.(type) {
		case *influxql.BinaryExpr:
			if x == nil {
				return
			}
			p := x.Op.Precedence()
			for i, ch := range []influxql.Expr{x.LHS, x.RHS} {
				if cb, ok := ch.(*influxql.BinaryExpr); ok && cb != nil {
					cp := cb.Op.Precedence()
					if cp < p || (i == 1 && cp == p) {
						set["binary-child-needs-parens-but-has-none"] = true
					}
				}
			}
			switch x.Op {
			case influxql.BITWISE_AND, influxql.BITWISE_OR, influxql.BITWISE_XOR:
				set["bitwise-operator"] = true
			}
			walkExpr(x.LHS)
			walkExpr(x.RHS)
		case *influxql.ParenExpr:
			if x != nil {
				walkExpr(x.Expr)
			}
		case *influxql.Call:
			if x != nil {
				for _, a := range x.Args {
					walkExpr(a)
				}
			}
		case *influxql.CaseWhenExpr:
			if x != nil {
				set["case-when"] = true
				for _, a := range x.Conditions {
					walkExpr(a)
				}
				for _, a := range x.Assigners {
					walkExpr(a)
				}
			}
		case *influxql.NumberLiteral:
			switch {
			case math.IsNaN(x.Val) || math.IsInf(x.Val, 0):
				set["numlit-nan-inf"] = true
			case x.Val == math.Trunc(x.Val) && x.Val < -9223372036854775808.0:
				set["numlit-integral-below-minint64"] = true
			case x.Val == math.Trunc(x.Val) && x.Val <= math.MaxInt:
				set["numlit-integral"] = true
			}
		case *influxql.StringLiteral:
			if strings.ContainsAny(x.Val, "\r\x00") {
				set["string-with-cr-or-nul"] = true
			}
		case *influxql.VarRef:
			if !rdVarTypes[x.Type] {
				set["varref-type-"+x.Type.String()] = true
			}
		case *influxql.DurationLiteral:
			if x.Val%time.Microsecond != 0 {
				set["duration-sub-microsecond"] = true
			}
		case *influxql.TimeLiteral:
			set["time-literal"] = true
		case *influxql.InCondition:
			set["in-subquery"] = true
		case *influxql.Distinct:
			set["distinct"] = true
		}
	}
	walkNode = func(n influxql.Node) {
		switch x := n.(type) {
		case influxql.Expr:
			walkExpr(x)
		case influxql.Fields:
			for _, f := range x {
				if f != nil {
					walkExpr(f.Expr)
				}
			}
		case *influxql.SelectStatement:
			if x == nil {
				return
			}
			walkNode(x.Fields)
			if x.Condition != nil {
				walkExpr(x.Condition)
			}
			for _, d := range x.Dimensions {
				if d != nil {
					walkExpr(d.Expr)
				}
			}
			for _, s := range x.Sources {
				walkNode(s)
			}
		case *influxql.SubQuery:
			if x != nil {
				set["subquery"] = true
				walkNode(x.Statement)
			}
		case influxql.Sources:
			for _, s := range x {
				walkNode(s)
			}
		}
	}
	walkNode(n)
	out := make([]string, 0, len(set))
	for k := range set {
		out = append(out, k)
	}
	sort.Strings(out)
	return out
}

func opCount(e influxql.Expr) int {
	n := 0
	influxql.WalkFunc(e, func(m influxql.Node) {
		switch m.(type) {
		case *influxql.BinaryExpr, *influxql.Call, *influxql.ParenExpr:
			n++
		}
	})
	return n
}

// reporter wraps vf.Ctx with per-signature throttling (a worker keeps at most 50
// violations; frequent known classes must not crowd out new ones).
type reporter struct {
	c    *vf.Ctx
	seen map[string]int
}

func (r *reporter) violation(sig, what string, w any) {
	r.c.Count("differences:"+sig, 1)
	r.seen[sig]++
	if r.seen[sig] > 2 {
		return
	}
	r.c.Violation(sig, what, w)
}

// roundTripExpr is the core oracle: the planned tree e, printed and parsed the way the
// store does it, must be the same tree.
func (r *reporter) roundTripExpr(stage string, e influxql.Expr, tc textCase) {
	c := r.c
	tc.Stage = stage
	var s string
	if p := vf.Catch(func() { s = e.String() }); p != nil {
		r.violation("expr-roundtrip:String-panic", fmt.Sprintf("%s: String() panicked: %v", stage, p), tc)
		return
	}
	c.LogInput(tc)
	e2, err := rdParseExpr(s, nil)
	c.Count("roundtrips:"+stage, 1)
	if err != nil {
		cs := causes(e)
		sig := "expr-roundtrip:reparse-error:" + normErr(err) + "|cause=" + strings.Join(cs, "+")
		r.violation(sig, fmt.Sprintf("%s: printed %q cannot be parsed by ParseExpr: %v", stage, clip(s), err), tc)
		return
	}
	v := classifyExpr(e, e2)
	switch {
	case v.Equal:
		c.Count("equal:"+stage, 1)
	case v.Tolerated:
		c.Count("equal-modulo-"+v.Class+":"+stage, 1)
	default:
		cs := causes(e)
		sig := "expr-roundtrip:" + v.Class + "|cause=" + strings.Join(cs, "+")
		r.violation(sig, fmt.Sprintf("%s: tree printed as %q re-parses to a different tree: ...%s... vs ...%s...", stage, clip(s), v.CtxA, v.CtxB), tc)
	}
}

func clip(s string) string {
	if len(s) > 300 {
		return s[:300] + "…"
	}
	return s
}

func (r *reporter) noteAccepted(parser string, feats map[string]bool, e influxql.Expr, text string) {
	c := r.c
	for f := range feats {
		c.Distinct("features-accepted-by-"+parser, f)
	}
	if opCount(e) >= 2 {
		c.Nontrivial("expr:" + text)
	}
}

// checkExprText runs every round trip that exists for one expression text.
func (r *reporter) checkExprText(tc textCase, feats map[string]bool) {
	c := r.c
	params := decodeParams(tc.Params)
	c.Eval(1)
	c.Count("texts:"+tc.Kind, 1)
	c.LogInput(tc)

	// (1) the hand-written parser as the producer of the tree
	if e, err := rdParseExpr(tc.Text, params); err != nil || e == nil {
		c.Count("rejected-by-ParseExpr:"+tc.Kind, 1)
	} else {
		r.noteAccepted("ParseExpr", feats, e, tc.Text)
		r.roundTripExpr("ParseExpr", e, tc)
	}

	// (2) the yacc parser (what the sql node runs on a query) as the producer
	var q string
	if tc.Kind == "cond" {
		q = "SELECT f FROM m WHERE " + tc.Text
	} else {
		q = "SELECT " + tc.Text + " FROM m"
	}
	st, err := yaccSelect(q, params)
	if err != nil {
		c.Count("rejected-by-yacc:"+tc.Kind, 1)
		return
	}
	var e influxql.Expr
	if tc.Kind == "cond" {
		e = st.Condition
	} else if len(st.Fields) == 1 {
		e = st.Fields[0].Expr
	}
	if e == nil {
		c.Count("rejected-by-yacc:"+tc.Kind, 1)
		return
	}
	r.noteAccepted("yacc", feats, e, tc.Text)
	r.roundTripExpr("yacc", e, tc)

	if tc.Kind == "arith" {
		// fields travel as Fields.String() and come back through hybridqp.ParseFields
		r.roundTripFields("yacc-fields", st.Fields, tc)
	}

	// (3) the tree the planner actually puts into the options: the condition with the
	// time bounds split off and constants folded (query.compiledStatement.preprocess), the
	// field expression reduced (compileFields).
	st2, err := yaccSelect(q, params)
	if err != nil {
		return
	}
	if tc.Kind == "cond" {
		var cond influxql.Expr
		var cerr error
		if p := vf.Catch(func() {
			valuer := influxql.NowValuer{Now: fixedNow}
			cond, _, cerr = influxql.ConditionExpr(st2.Condition, &valuer)
		}); p != nil {
			c.Count("planner-panic:ConditionExpr", 1)
			return
		}
		if cerr != nil {
			c.Count("rejected-by-planner:ConditionExpr", 1)
			return
		}
		if cond != nil {
			r.roundTripExpr("yacc+ConditionExpr", cond, tc)
		}
	} else if len(st2.Fields) == 1 {
		var red influxql.Expr
		if p := vf.Catch(func() {
			valuer := influxql.NowValuer{Now: fixedNow}
			red = influxql.Reduce(st2.Fields[0].Expr, &valuer)
		}); p != nil {
			c.Count("planner-panic:Reduce", 1)
			return
		}
		if red != nil {
			r.roundTripExpr("yacc+Reduce", red, tc)
		}
	}
}

// roundTripFields: Fields.String() -> hybridqp.ParseFields (QuerySchema codec).
func (r *reporter) roundTripFields(stage string, fields influxql.Fields, tc textCase) {
	c := r.c
	tc.Stage = stage
	var s string
	if p := vf.Catch(func() { s = fields.String() }); p != nil {
		r.violation("fields-roundtrip:String-panic", fmt.Sprintf("Fields.String() panicked: %v", p), tc)
		return
	}
	var got influxql.Fields
	var err error
	if p := vf.Catch(func() { got, err = hybridqp.ParseFields(s) }); p != nil {
		r.violation("fields-roundtrip:ParseFields-panic", fmt.Sprintf("ParseFields(%q) panicked: %v", clip(s), p), tc)
		return
	}
	c.Count("roundtrips:"+stage, 1)
	if err != nil {
		cs := causes(fields)
		r.violation("fields-roundtrip:reparse-error:"+normErr(err)+"|cause="+strings.Join(cs, "+"),
			fmt.Sprintf("%s: printed fields %q cannot be parsed by hybridqp.ParseFields: %v", stage, clip(s), err), tc)
		return
	}
	if len(got) != len(fields) {
		r.violation("fields-roundtrip:field-count", fmt.Sprintf("%s: %d fields printed as %q come back as %d", stage, len(fields), clip(s), len(got)), tc)
		return
	}
	for i := range fields {
		if fields[i].Alias != got[i].Alias {
			r.violation("fields-roundtrip:alias", fmt.Sprintf("%s: alias %q comes back as %q (text %q)", stage, fields[i].Alias, got[i].Alias, clip(s)), tc)
			return
		}
		v := classifyExpr(fields[i].Expr, got[i].Expr)
		switch {
		case v.Equal:
			c.Count("equal:"+stage, 1)
		case v.Tolerated:
			c.Count("equal-modulo-"+v.Class+":"+stage, 1)
		default:
			cs := causes(fields[i].Expr)
			r.violation("fields-roundtrip:"+v.Class+"|cause="+strings.Join(cs, "+"),
				fmt.Sprintf("%s: field printed as %q re-parses to a different tree: ...%s... vs ...%s...", stage, clip(s), v.CtxA, v.CtxB), tc)
			return
		}
	}
}

// ---- sources

func (r *reporter) compareNodes(prefix, stage string, a, b any, base canonOpts, printed string, tc textCase, cs []string) {
	c := r.c
	v := classify(a, b, base)
	switch {
	case v.Equal:
		c.Count("equal:"+stage, 1)
	case v.Tolerated:
		c.Count("equal-modulo-"+v.Class+":"+stage, 1)
	default:
		r.violation(prefix+":"+v.Class+"|cause="+strings.Join(cs, "+"),
			fmt.Sprintf("%s: printed as %q re-parses differently: ...%s... vs ...%s...", stage, clip(printed), v.CtxA, v.CtxB), tc)
	}
}

func (r *reporter) roundTripSource(stage string, src influxql.Source, base canonOpts, tc textCase) {
	c := r.c
	tc.Stage = stage
	var s string
	if p := vf.Catch(func() { s = src.String() }); p != nil {
		r.violation("source-roundtrip:String-panic", fmt.Sprintf("%s: String() panicked: %v", stage, p), tc)
		return
	}
	var got influxql.Source
	var err error
	if p := vf.Catch(func() { got, err = influxql.ParseSource(s) }); p != nil {
		r.violation("source-roundtrip:ParseSource-panic", fmt.Sprintf("%s: ParseSource(%q) panicked: %v", stage, clip(s), p), tc)
		return
	}
	c.Count("roundtrips:"+stage, 1)
	if err != nil {
		r.violation("source-roundtrip:reparse-error:"+normErr(err)+"|cause="+strings.Join(causes(src), "+"),
			fmt.Sprintf("%s: printed source %q cannot be parsed by ParseSource: %v", stage, clip(s), err), tc)
		return
	}
	r.compareNodes("source-roundtrip", stage, src, got, base, s, tc, causes(src))
}

func (r *reporter) checkSourceText(tc textCase, feats map[string]bool) {
	c := r.c
	c.Eval(1)
	c.Count("texts:source", 1)
	c.LogInput(tc)
	var src influxql.Source
	var err error
	if p := vf.Catch(func() { src, err = influxql.ParseSource(tc.Text) }); p != nil {
		r.violation("source-roundtrip:ParseSource-panic", fmt.Sprintf("ParseSource(%q) panicked: %v", clip(tc.Text), p), tc)
		return
	}
	if err != nil || src == nil {
		c.Count("rejected-by-ParseSource", 1)
	} else {
		for f := range feats {
			c.Distinct("features-accepted-by-ParseSource", f)
		}
		c.Nontrivial("source:" + tc.Text)
		r.roundTripSource("ParseSource", src, canonOpts{}, tc)
	}
	st, err := yaccSelect("SELECT f FROM "+tc.Text, nil)
	if err != nil || len(st.Sources) != 1 {
		c.Count("rejected-by-yacc:source", 1)
		return
	}
	for f := range feats {
		c.Distinct("features-accepted-by-yacc", f)
	}
	// the two parsers fill derived SelectStatement fields differently; compare what has a spelling
	r.roundTripSource("yacc-source", st.Sources[0], canonOpts{selectSyntax: true}, tc)
}

// ---- sort fields

func (r *reporter) roundTripSort(stage string, sf influxql.SortFields, tc textCase) {
	c := r.c
	tc.Stage = stage
	s := sf.String()
	var got influxql.SortFields
	var err error
	if p := vf.Catch(func() { got, err = influxql.ParseSortFields(s) }); p != nil {
		r.violation("sort-roundtrip:ParseSortFields-panic", fmt.Sprintf("%s: ParseSortFields(%q) panicked: %v", stage, clip(s), p), tc)
		return
	}
	c.Count("roundtrips:"+stage, 1)
	if err != nil {
		r.violation("sort-roundtrip:reparse-error:"+normErr(err), fmt.Sprintf("%s: printed sort fields %q cannot be parsed by ParseSortFields: %v", stage, clip(s), err), tc)
		return
	}
	r.compareNodes("sort-roundtrip", stage, sf, got, canonOpts{}, s, tc, nil)
}

func (r *reporter) checkSortText(tc textCase, feats map[string]bool) {
	c := r.c
	c.Eval(1)
	c.Count("texts:sort", 1)
	c.LogInput(tc)
	var sf influxql.SortFields
	var err error
	if p := vf.Catch(func() { sf, err = influxql.ParseSortFields("ORDER BY " + tc.Text) }); p != nil {
		r.violation("sort-roundtrip:ParseSortFields-panic", fmt.Sprintf("ParseSortFields(%q) panicked: %v", clip(tc.Text), p), tc)
		return
	}
	if err != nil || len(sf) == 0 {
		c.Count("rejected-by-ParseSortFields", 1)
	} else {
		c.Nontrivial("sort:" + tc.Text)
		r.roundTripSort("ParseSortFields", sf, tc)
	}
	st, err := yaccSelect("SELECT f FROM m ORDER BY "+tc.Text, nil)
	if err != nil || len(st.SortFields) == 0 {
		c.Count("rejected-by-yacc:sort", 1)
		return
	}
	for f := range feats {
		c.Distinct("features-accepted-by-yacc", f)
	}
	r.roundTripSort("yacc-sort", st.SortFields, tc)
}

// ---- whole SELECT statements

func (r *reporter) roundTripStmt(stage string, st influxql.Statement, base canonOpts, tc textCase) {
	c := r.c
	tc.Stage = stage
	var s string
	if p := vf.Catch(func() { s = st.String() }); p != nil {
		r.violation("stmt-roundtrip:String-panic", fmt.Sprintf("%s: String() panicked: %v", stage, p), tc)
		return
	}
	var got influxql.Statement
	var err error
	if p := vf.Catch(func() { got, err = influxql.ParseStatement(s) }); p != nil {
		r.violation("stmt-roundtrip:ParseStatement-panic", fmt.Sprintf("%s: ParseStatement(%q) panicked: %v", stage, clip(s), p), tc)
		return
	}
	c.Count("roundtrips:"+stage, 1)
	if err != nil {
		r.violation("stmt-roundtrip:reparse-error:"+normErr(err)+"|cause="+strings.Join(causes(st), "+"),
			fmt.Sprintf("%s: printed statement %q cannot be parsed by ParseStatement: %v", stage, clip(s), err), tc)
		return
	}
	r.compareNodes("stmt-roundtrip", stage, st, got, base, s, tc, causes(st))
}

func (r *reporter) checkStmtText(tc textCase, feats map[string]bool) {
	c := r.c
	c.Eval(1)
	c.Count("texts:stmt", 1)
	c.LogInput(tc)
	var st influxql.Statement
	var err error
	if p := vf.Catch(func() { st, err = influxql.ParseStatement(tc.Text) }); p != nil {
		r.violation("stmt-roundtrip:ParseStatement-panic", fmt.Sprintf("ParseStatement(%q) panicked: %v", clip(tc.Text), p), tc)
		return
	}
	if err != nil || st == nil {
		c.Count("rejected-by-ParseStatement", 1)
	} else {
		for f := range feats {
			c.Distinct("features-accepted-by-ParseStatement", f)
		}
		c.Nontrivial("stmt:" + tc.Text)
		r.roundTripStmt("ParseStatement", st, canonOpts{}, tc)
	}
	yst, err := yaccSelect(tc.Text, decodeParams(tc.Params))
	if err != nil {
		c.Count("rejected-by-yacc:stmt", 1)
		return
	}
	for f := range feats {
		c.Distinct("features-accepted-by-yacc", f)
	}
	c.Nontrivial("stmt:" + tc.Text)
	r.roundTripStmt("yacc-stmt", yst, canonOpts{selectSyntax: true}, tc)
}
