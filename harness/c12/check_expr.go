package main

// Part 1: text -> parser -> tree e -> e.String() -> ParseExpr/ParseSource/ParseSortFields/
// ParseStatement (what the store side calls) -> e', e vs e'.

import (
	"fmt"
	"math"
	"regexp"
	"sort"
	"strconv"
	"strings"
	"time"

	"verifharness/vf"

	"github.com/openGemini/openGemini/engine/hybridqp"
	"github.com/openGemini/openGemini/lib/util/lifted/influx/influxql"
	"github.com/openGemini/openGemini/lib/util/lifted/influx/query"
	internal "github.com/openGemini/openGemini/lib/util/lifted/influx/query/proto"
	"google.golang.org/protobuf/proto"
)

// textCase is the self-contained witness of every text-driven case.
type textCase struct {
	Kind   string            `json:"kind"` // cond | arith | source | sort | stmt
	Text   string            `json:"text"`
	Params map[string]string `json:"params,omitempty"` // name -> "i:<int>" | "f:<float bits hex>" | "s:<string>" | "b:<bool>"
	Stage  string            `json:"stage,omitempty"`  // which round trip reported (informational)
}

func encodeParams(p map[string]interface{}) map[string]string {
	if len(p) == 0 {
		return nil
	}
	out := map[string]string{}
	for k, v := range p {
		switch x := v.(type) {
		case int64:
			out[k] = "i:" + strconv.FormatInt(x, 10)
		case float64:
			out[k] = "f:" + strconv.FormatUint(math.Float64bits(x), 16)
		case string:
			out[k] = "s:" + x
		case bool:
			out[k] = "b:" + strconv.FormatBool(x)
		}
	}
	return out
}

func decodeParams(p map[string]string) map[string]interface{} {
	if len(p) == 0 {
		return nil
	}
	out := map[string]interface{}{}
	for k, v := range p {
		if len(v) < 2 {
			continue
		}
		switch v[:2] {
		case "i:":
			n, _ := strconv.ParseInt(v[2:], 10, 64)
			out[k] = n
		case "f:":
			n, _ := strconv.ParseUint(v[2:], 16, 64)
			out[k] = math.Float64frombits(n)
		case "s:":
			out[k] = v[2:]
		case "b:":
			out[k] = v[2:] == "true"
		}
	}
	return out
}

// yaccParse is how the sql node parses a query (httpd.Handler.getSqlQuery).
func yaccParse(q string, params map[string]interface{}) (qq *influxql.Query, err error) {
	if p := catchW(func() {
		p := influxql.NewParser(strings.NewReader(q))
		defer p.Release()
		if params != nil {
			p.SetParams(params)
		}
		yy := influxql.NewYyParser(p.GetScanner(), p.GetPara())
		yy.ParseTokens()
		qq, err = yy.GetQuery()
	}); p != nil {
		return nil, fmt.Errorf("yacc parser panic: %v", p)
	}
	if err == nil && (qq == nil || len(qq.Statements) != 1) {
		return nil, fmt.Errorf("yacc: %d statements", len(qq.Statements))
	}
	return qq, err
}

func yaccSelect(q string, params map[string]interface{}) (*influxql.SelectStatement, error) {
	qq, err := yaccParse(q, params)
	if err != nil {
		return nil, err
	}
	st, ok := qq.Statements[0].(*influxql.SelectStatement)
	if !ok {
		return nil, fmt.Errorf("yacc: not a select: %T", qq.Statements[0])
	}
	return st, nil
}

// rdParseExpr is the hand-written parser (influxql.ParseExpr) with bound parameters.
func rdParseExpr(s string, params map[string]interface{}) (e influxql.Expr, err error) {
	if p := catchW(func() {
		p := influxql.NewParser(strings.NewReader(s))
		defer p.Release()
		if params != nil {
			p.SetParams(params)
		}
		e, err = p.ParseExpr()
	}); p != nil {
		return nil, fmt.Errorf("ParseExpr panic: %v", p)
	}
	return e, err
}

var fixedNow = time.Date(2024, 5, 6, 7, 8, 9, 0, time.UTC)

var reDigits = regexp.MustCompile(`[0-9]+`)
var reAtLine = regexp.MustCompile(` at line [0-9]+, char [0-9]+`)

// normErr reduces a parse error to its class.
func normErr(err error) string {
	m := reAtLine.ReplaceAllString(err.Error(), "")
	if strings.HasPrefix(m, "found ") {
		if i := strings.Index(m, ", expected "); i > 0 {
			tok := m[len("found "):i]
			switch tok {
			case "&", "|", "^", "EOF", "(", ")", ",", "::", ".":
			default:
				tok = "<tok>"
			}
			m = "found " + tok + m[i:]
		}
	}
	m = reDigits.ReplaceAllString(m, "N")
	if len(m) > 120 {
		m = m[:120]
	}
	return m
}

var rdVarTypes = map[influxql.DataType]bool{
	influxql.Unknown: true, influxql.Float: true, influxql.FloatTuple: true, influxql.Integer: true, influxql.Unsigned: true,
	influxql.String: true, influxql.Boolean: true, influxql.Tag: true, influxql.AnyField: true,
}

// causes lists properties of the planned tree that are known to make its text
// unparseable or differently parsed; used to make finding signatures narrow.
func causes(n influxql.Node) []string {
	set := map[string]bool{}
	var walkExpr func(e influxql.Expr)
	var walkNode func(n influxql.Node)
	walkExpr = func(e influxql.Expr) {
		switch x := e.(type) {
		case *influxql.BinaryExpr:
			if x == nil {
				return
			}
			p := x.Op.Precedence()
			for i, ch := range []influxql.Expr{x.LHS, x.RHS} {
				if cb, ok := ch.(*influxql.BinaryExpr); ok && cb != nil {
					cp := cb.Op.Precedence()
					if cp < p || (i == 1 && cp == p) {
						set["binary-child-needs-parens-but-has-none"] = true
					}
				}
			}
			switch x.Op {
			case influxql.BITWISE_AND, influxql.BITWISE_OR, influxql.BITWISE_XOR:
				set["bitwise-operator"] = true
			}
			walkExpr(x.LHS)
			walkExpr(x.RHS)
		case *influxql.ParenExpr:
			if x != nil {
				walkExpr(x.Expr)
			}
		case *influxql.Call:
			if x != nil {
				for _, a := range x.Args {
					walkExpr(a)
				}
			}
		case *influxql.CaseWhenExpr:
			if x != nil {
				set["case-when"] = true
				for _, a := range x.Conditions {
					walkExpr(a)
				}
				for _, a := range x.Assigners {
					walkExpr(a)
				}
			}
		case *influxql.NumberLiteral:
			switch {
			case math.IsNaN(x.Val) || math.IsInf(x.Val, 0):
				set["numlit-nan-inf"] = true
			case x.Val == math.Trunc(x.Val) && x.Val < -9223372036854775808.0:
				set["numlit-integral-below-minint64"] = true
			case x.Val == math.Trunc(x.Val) && x.Val <= math.MaxInt:
				set["numlit-integral"] = true
			}
		case *influxql.StringLiteral:
			if strings.ContainsAny(x.Val, "\r\x00") {
				set["string-with-cr-or-nul"] = true
			}
		case *influxql.VarRef:
			if !rdVarTypes[x.Type] {
				set["varref-type-"+x.Type.String()] = true
			}
		case *influxql.DurationLiteral:
			if x.Val == math.MinInt64 {
				set["duration-minint64"] = true
			} else if x.Val%time.Microsecond != 0 {
				set["duration-sub-microsecond"] = true
			}
		case *influxql.RegexLiteral:
			if x != nil && x.Val != nil && strings.Contains(x.Val.String(), "\n") {
				set["regex-with-newline"] = true
			}
		case *influxql.TimeLiteral:
			set["time-literal"] = true
		case *influxql.InCondition:
			set["in-subquery"] = true
		case *influxql.Distinct:
			set["distinct"] = true
		}
	}
	walkNode = func(n influxql.Node) {
		switch x := n.(type) {
		case influxql.Expr:
			walkExpr(x)
		case influxql.Fields:
			for _, f := range x {
				if f != nil {
					walkExpr(f.Expr)
				}
			}
		case *influxql.SelectStatement:
			if x == nil {
				return
			}
			walkNode(x.Fields)
			if x.Condition != nil {
				walkExpr(x.Condition)
			}
			for _, d := range x.Dimensions {
				if d != nil {
					walkExpr(d.Expr)
				}
			}
			for _, s := range x.Sources {
				walkNode(s)
			}
		case *influxql.SubQuery:
			if x != nil {
				set["subquery"] = true
				walkNode(x.Statement)
			}
		case influxql.Sources:
			for _, s := range x {
				walkNode(s)
			}
		}
	}
	walkNode(n)
	out := make([]string, 0, len(set))
	for k := range set {
		out = append(out, k)
	}
	sort.Strings(out)
	return out
}

func opCount(e influxql.Expr) int {
	n := 0
	influxql.WalkFunc(e, func(m influxql.Node) {
		switch m.(type) {
		case *influxql.BinaryExpr, *influxql.Call, *influxql.ParenExpr:
			n++
		}
	})
	return n
}

// reporter wraps vf.Ctx with per-signature throttling (a worker keeps at most 50
// violations; frequent known classes must not crowd out new ones).
type reporter struct {
	c      *vf.Ctx
	seen   map[string]int
	known  int // violations that matched a known finding (parent / replay mode only)
	panics []string
}

// notePanic keeps a few inputs on which the planner's own rewriting panicked (outside this
// property: the query dies on the sql node before anything is shipped; reported as evidence).
func (r *reporter) notePanic(where, text string, p any) {
	if len(r.panics) < 3 {
		r.panics = append(r.panics, fmt.Sprintf("%s panicked (%v) on: %s", where, p, clip(text)))
	}
}

func (r *reporter) violation(sig, what string, w any) {
	r.c.Count("differences:"+sig, 1)
	r.seen[sig]++
	if r.seen[sig] > 2 {
		return
	}
	if r.c.Violation(sig, what, w) {
		r.known++
	}
}

// roundTripExpr is the printer/parser oracle: the tree e, printed with String() and parsed
// with ParseExpr, must be the same tree.
func (r *reporter) roundTripExpr(stage string, e influxql.Expr, tc textCase) {
	c := r.c
	tc.Stage = stage
	var s string
	if p := catchW(func() { s = e.String() }); p != nil {
		r.violation("expr-roundtrip:String-panic", fmt.Sprintf("%s: String() panicked: %v", stage, p), tc)
		return
	}
	c.LogInput(tc)
	e2, err := rdParseExpr(s, nil)
	c.Count("roundtrips:"+stage, 1)
	r.judgeExpr("printer:String", stage, e, e2, err, s, tc)
}

// explainShipped is explainString refined for a shipping path that may print
// parentheses and fractions itself: the String() based reason is reduced to the CR/NUL
// part when the tree without CR/NUL passes through ship unchanged.
func explainShipped(e influxql.Expr, ship func(influxql.Expr) (influxql.Expr, error)) string {
	why := explainString(e)
	if ship == nil || !strings.Contains(why, "+") || !strings.Contains(why, "string-literal-with-cr-or-nul") {
		return why
	}
	var b strings.Builder
	refRender(&b, e, refOpts{parens: true, typed: true, noCR: true})
	if t, perr := rdParseExpr(b.String(), nil); perr == nil && t != nil {
		o := canonOpts{stripParens: true, timeAsString: true}
		if got, serr := ship(t); serr == nil && got != nil && canon(got, o) == canon(t, o) {
			return "string-literal-with-cr-or-nul"
		}
	}
	return why
}

// judgeExpr compares the planned tree with what came back and reports a difference
// under signatures that name its verified reasons (one violation per necessary repair).
func (r *reporter) judgeExpr(prefix, stage string, e, e2 influxql.Expr, err error, printed string, tc textCase, ship ...func(influxql.Expr) (influxql.Expr, error)) {
	c := r.c
	var sh func(influxql.Expr) (influxql.Expr, error)
	if len(ship) > 0 {
		sh = ship[0]
	}
	var v verdict
	if err == nil {
		v = classifyExpr(e, e2)
		if v.Equal {
			c.Count("equal:"+stage, 1)
			return
		}
		if v.Tolerated {
			c.Count("equal-modulo-"+v.Class+":"+stage, 1)
			return
		}
	}
	observed := fmt.Sprintf("comes back as a different tree (...%s... vs ...%s...)", v.CtxA, v.CtxB)
	if err != nil {
		observed = fmt.Sprintf("is rejected by the receiving parser (%v)", err)
	}
	if why := explainShipped(e, sh); why != "" {
		for _, w := range strings.Split(why, "+") {
			r.violation(prefix+":"+w, fmt.Sprintf("%s: tree sent as %q %s; it round-trips once the text %s", stage, clip(printed), observed, whyText(w)), tc)
		}
		return
	}
	cs := causes(e)
	if sc := specialClass(e, err); sc != "" {
		r.violation(prefix+":"+sc, fmt.Sprintf("%s: tree sent as %q %s", stage, clip(printed), observed), tc)
		return
	}
	if err != nil {
		r.violation(prefix+":reparse-error:"+normErr(err)+"|cause="+strings.Join(cs, "+"), fmt.Sprintf("%s: tree sent as %q %s", stage, clip(printed), observed), tc)
		return
	}
	r.violation(prefix+":"+v.Class+"|cause="+strings.Join(cs, "+"), fmt.Sprintf("%s: tree sent as %q %s", stage, clip(printed), observed), tc)
}

func whyText(why string) string {
	var parts []string
	for _, w := range strings.Split(why, "+") {
		switch w {
		case "omits-needed-parens":
			parts = append(parts, "parenthesises operands that bind weaker than their parent")
		case "integral-number-printed-as-integer":
			parts = append(parts, "keeps a fraction on integral number literals")
		case "string-literal-with-cr-or-nul":
			parts = append(parts, "has no CR/NUL inside string literals (QuoteString does not escape them and the scanner cannot read them)")
		}
	}
	return strings.Join(parts, " and ")
}

// codecCondition ships e as ProcessorOptions.Condition through the real options codec.
func (r *reporter) codecCondition(stage string, e influxql.Expr, tc textCase) {
	c := r.c
	tc.Stage = stage
	opt := query.ProcessorOptions{Condition: e}
	var got query.ProcessorOptions
	var err error
	var buf []byte
	if p := catchW(func() {
		buf, err = opt.MarshalBinary()
		if err == nil {
			err = got.UnmarshalBinary(buf)
		}
	}); p != nil {
		r.violation("opts-codec:Condition:panic", fmt.Sprintf("%s: options codec panicked: %v", stage, p), tc)
		return
	}
	c.Count("roundtrips:"+stage, 1)
	printed := shippedText(buf, 13) // field 13 = Condition
	r.judgeExpr("codec", stage, e, got.Condition, err, printed, tc, shipCondition)
}

type stubCatalog struct {
	hybridqp.Catalog
	fields influxql.Fields
	names  []string
}

func (s *stubCatalog) GetColumnNames() []string        { return s.names }
func (s *stubCatalog) GetQueryFields() influxql.Fields { return s.fields }
func (s *stubCatalog) GetUnnests() influxql.Unnests    { return nil }

// codecFields ships fields as QuerySchema.QueryFields through the real schema codec
// (query.EncodeQuerySchema; the decoder's first step is hybridqp.ParseFields).
func (r *reporter) codecFields(stage string, fields influxql.Fields, tc textCase) {
	c := r.c
	tc.Stage = stage
	var text string
	var got influxql.Fields
	var err error
	if p := catchW(func() {
		pb := query.EncodeQuerySchema(&stubCatalog{fields: fields, names: []string{"x"}})
		text = pb.QueryFields
		got, err = hybridqp.ParseFields(text)
	}); p != nil {
		r.violation("schema-codec:QueryFields:panic", fmt.Sprintf("%s: schema codec panicked: %v", stage, p), tc)
		return
	}
	c.Count("roundtrips:"+stage, 1)
	if err == nil && len(got) != len(fields) {
		r.violation("schema-codec:QueryFields:field-count", fmt.Sprintf("%s: %d fields sent as %q come back as %d", stage, len(fields), clip(text), len(got)), tc)
		return
	}
	for i := range fields {
		var g influxql.Expr
		if err == nil {
			if fields[i].Alias != got[i].Alias {
				r.violation("schema-codec:QueryFields:alias", fmt.Sprintf("%s: alias %q comes back as %q (text %q)", stage, fields[i].Alias, got[i].Alias, clip(text)), tc)
				return
			}
			g = got[i].Expr
		}
		r.judgeExpr("codec", stage, fields[i].Expr, g, err, text, tc, shipField)
		if err != nil {
			return
		}
	}
}

// shippedText extracts a string field of the marshalled options message (for messages only).
func shippedText(buf []byte, field int) string {
	var pb internal.ProcessorOptions
	if err := proto.Unmarshal(buf, &pb); err != nil {
		return "<unreadable>"
	}
	switch field {
	case 13:
		return pb.Condition
	}
	return ""
}

func clip(s string) string {
	if len(s) > 300 {
		return s[:300] + "…"
	}
	return s
}

func (r *reporter) noteAccepted(parser string, feats map[string]bool, e influxql.Expr, text string) {
	c := r.c
	r.noteFeatures(parser, feats)
	if opCount(e) >= 2 {
		c.Nontrivial("expr:" + text)
	}
}

// checkExprText runs every round trip that exists for one expression text.
func (r *reporter) checkExprText(tc textCase, feats map[string]bool) {
	c := r.c
	params := decodeParams(tc.Params)
	c.Eval(1)
	c.Count("texts:"+tc.Kind, 1)
	c.LogInput(tc)

	// (1) the hand-written parser as the producer of the tree
	if e, err := rdParseExpr(tc.Text, params); err != nil || e == nil {
		c.Count("rejected-by-ParseExpr:"+tc.Kind, 1)
	} else {
		r.noteAccepted("ParseExpr", feats, e, tc.Text)
		r.roundTripExpr("ParseExpr", e, tc)
	}

	// (2) the yacc parser (what the sql node runs on a query) as the producer
	var q string
	if tc.Kind == "cond" {
		q = "SELECT f FROM m WHERE " + tc.Text
	} else {
		q = "SELECT " + tc.Text + " FROM m"
	}
	st, err := yaccSelect(q, params)
	if err != nil {
		c.Count("rejected-by-yacc:"+tc.Kind, 1)
		return
	}
	var e influxql.Expr
	if tc.Kind == "cond" {
		e = st.Condition
	} else if len(st.Fields) == 1 {
		e = st.Fields[0].Expr
	}
	if e == nil {
		c.Count("rejected-by-yacc:"+tc.Kind, 1)
		return
	}
	r.noteAccepted("yacc", feats, e, tc.Text)
	r.roundTripExpr("yacc", e, tc)

	if tc.Kind == "arith" {
		// fields travel as text inside the QuerySchema message and come back through hybridqp.ParseFields
		r.roundTripFields("yacc-fields", st.Fields, tc)
		r.codecFields("schema-codec(yacc fields)", st.Fields, tc)
	} else {
		r.codecCondition("opts-codec(yacc condition)", e, tc)
	}

	// (3) the tree the planner actually puts into the options: the condition with the
	// time bounds split off and constants folded (query.compiledStatement.preprocess), the
	// field expression reduced (compileFields).
	st2, err := yaccSelect(q, params)
	if err != nil {
		return
	}
	if tc.Kind == "cond" {
		var cond influxql.Expr
		var cerr error
		if p := catchW(func() {
			valuer := influxql.NowValuer{Now: fixedNow}
			cond, _, cerr = influxql.ConditionExpr(st2.Condition, &valuer)
		}); p != nil {
			c.Count("planner-panic:ConditionExpr", 1)
			r.notePanic("ConditionExpr", tc.Text, p)
			return
		}
		if cerr != nil {
			c.Count("rejected-by-planner:ConditionExpr", 1)
			return
		}
		if cond != nil {
			r.roundTripExpr("yacc+ConditionExpr", cond, tc)
			r.codecCondition("opts-codec(planned condition)", cond, tc)
		}
	} else if len(st2.Fields) == 1 {
		var red influxql.Expr
		if p := catchW(func() {
			valuer := influxql.NowValuer{Now: fixedNow}
			red = influxql.Reduce(st2.Fields[0].Expr, &valuer)
		}); p != nil {
			c.Count("planner-panic:Reduce", 1)
			r.notePanic("Reduce", tc.Text, p)
			return
		}
		if red != nil {
			r.roundTripExpr("yacc+Reduce", red, tc)
			r.codecFields("schema-codec(planned field)", influxql.Fields{&influxql.Field{Expr: red, Alias: st2.Fields[0].Alias}}, tc)
		}
	}
}

// roundTripFields: Fields.String() -> hybridqp.ParseFields (QuerySchema codec).
func (r *reporter) roundTripFields(stage string, fields influxql.Fields, tc textCase) {
	c := r.c
	tc.Stage = stage
	var s string
	if p := catchW(func() { s = fields.String() }); p != nil {
		r.violation("fields-roundtrip:String-panic", fmt.Sprintf("Fields.String() panicked: %v", p), tc)
		return
	}
	var got influxql.Fields
	var err error
	if p := catchW(func() { got, err = hybridqp.ParseFields(s) }); p != nil {
		r.violation("fields-roundtrip:ParseFields-panic", fmt.Sprintf("ParseFields(%q) panicked: %v", clip(s), p), tc)
		return
	}
	c.Count("roundtrips:"+stage, 1)
	if err == nil && len(got) != len(fields) {
		r.violation("fields-roundtrip:field-count", fmt.Sprintf("%s: %d fields printed as %q come back as %d", stage, len(fields), clip(s), len(got)), tc)
		return
	}
	for i := range fields {
		var g influxql.Expr
		if err == nil {
			if fields[i].Alias != got[i].Alias {
				r.violation("fields-roundtrip:alias", fmt.Sprintf("%s: alias %q comes back as %q (text %q)", stage, fields[i].Alias, got[i].Alias, clip(s)), tc)
				return
			}
			g = got[i].Expr
		}
		r.judgeExpr("printer:String", stage, fields[i].Expr, g, err, s, tc)
		if err != nil {
			return
		}
	}
}

// ---- sources

func (r *reporter) compareNodes(prefix, stage string, a, b any, base canonOpts, printed string, tc textCase, cs []string) {
	c := r.c
	v := classify(a, b, base)
	switch {
	case v.Equal:
		c.Count("equal:"+stage, 1)
	case v.Tolerated:
		c.Count("equal-modulo-"+v.Class+":"+stage, 1)
	default:
		r.violation(prefix+":"+v.Class+"|cause="+strings.Join(cs, "+"),
			fmt.Sprintf("%s: printed as %q re-parses differently: ...%s... vs ...%s...", stage, clip(printed), v.CtxA, v.CtxB), tc)
	}
}

func (r *reporter) roundTripSource(stage string, src influxql.Source, base canonOpts, tc textCase, mk ...func(fill, alias bool) (influxql.Node, func(string) (influxql.Node, error))) {
	c := r.c
	tc.Stage = stage
	var s string
	if p := catchW(func() { s = src.String() }); p != nil {
		r.violation("source-roundtrip:String-panic", fmt.Sprintf("%s: String() panicked: %v", stage, p), tc)
		return
	}
	var got influxql.Source
	var err error
	if p := catchW(func() {
		if len(mk) > 0 {
			// the real codec of LogicalSubQuery sources
			var back []influxql.Source
			enc := query.EncodeSource([]influxql.Source{src})
			s = enc[0]
			// LogicalSubQuery ships them in a QueryNode message; decode it from a pooled buffer that is reused at once
			rb := &recvBuf{}
			var wire []byte
			if wire, err = proto.Marshal(&internal.QueryNode{Source: enc}); err != nil {
				return
			}
			var pb internal.QueryNode
			if err = rb.deliver(wire, func(payload []byte) error { return proto.Unmarshal(payload, &pb) }); err != nil {
				return
			}
			rb.overwrite()
			if back, err = query.DecodeSource(pb.GetSource()); err == nil && len(back) == 1 {
				got = back[0]
			}
			return
		}
		got, err = influxql.ParseSource(s)
	}); p != nil {
		r.violation("source-roundtrip:ParseSource-panic", fmt.Sprintf("%s: ParseSource(%q) panicked: %v", stage, clip(s), p), tc)
		return
	}
	c.Count("roundtrips:"+stage, 1)
	if err == nil && classify(src, got, base).Equal {
		c.Count("equal:"+stage, 1)
		return
	}
	if len(mk) > 0 {
		if why := explainLegacy(mk[0]); why != "" {
			for _, w := range strings.Split(why, "+") {
				r.violation("subquery-text:not-read-back:"+w,
					fmt.Sprintf("%s: source printed as %q is not read back by ParseSource (err=%v); it is once the %s is removed", stage, clip(s), err, w), tc)
			}
			return
		}
	}
	if err != nil {
		r.violation("source-roundtrip:reparse-error:"+normErr(err),
			fmt.Sprintf("%s: printed source %q cannot be parsed by ParseSource: %v", stage, clip(s), err), tc)
		return
	}
	r.compareNodes("source-roundtrip", stage, src, got, base, s, tc, nil)
}

func (r *reporter) checkSourceText(tc textCase, feats map[string]bool) {
	c := r.c
	c.Eval(1)
	c.Count("texts:source", 1)
	c.LogInput(tc)
	var src influxql.Source
	var err error
	if p := catchW(func() { src, err = influxql.ParseSource(tc.Text) }); p != nil {
		r.violation("source-roundtrip:ParseSource-panic", fmt.Sprintf("ParseSource(%q) panicked: %v", clip(tc.Text), p), tc)
		return
	}
	if err != nil || src == nil {
		c.Count("rejected-by-ParseSource", 1)
	} else {
		r.noteFeatures("ParseSource", feats)
		c.Nontrivial("source:" + tc.Text)
		r.roundTripSource("ParseSource", src, canonOpts{}, tc)
	}
	st, err := yaccSelect("SELECT f FROM "+tc.Text, nil)
	if err != nil || len(st.Sources) != 1 {
		c.Count("rejected-by-yacc:source", 1)
		return
	}
	r.noteFeatures("yacc", feats)
	// the two parsers fill derived SelectStatement fields differently; compare what has a spelling
	r.roundTripSource("yacc-source", st.Sources[0], canonOpts{selectSyntax: true}, tc, func(fill, alias bool) (influxql.Node, func(string) (influxql.Node, error)) {
		st, err := yaccSelect("SELECT f FROM "+tc.Text, nil)
		if err != nil || len(st.Sources) != 1 {
			return nil, nil
		}
		stripSelect(st, fill, alias)
		return st.Sources[0], func(s string) (influxql.Node, error) { return influxql.ParseSource(s) }
	})
}

// stripSelect removes from a statement the clauses that the hand-written statement parser
// (which reads shipped sub-queries back) is known not to read: fill(), source aliases.
func stripSelect(st *influxql.SelectStatement, fill, alias bool) {
	if st == nil {
		return
	}
	if fill {
		st.Fill, st.FillValue = influxql.NullFill, nil
	}
	for _, src := range st.Sources {
		switch x := src.(type) {
		case *influxql.Measurement:
			if alias {
				x.Alias = ""
			}
		case *influxql.SubQuery:
			if alias {
				x.Alias = ""
			}
			stripSelect(x.Statement, fill, alias)
		}
	}
}

// explainLegacy names which of {fill(), aliases} keep a yacc-built statement or source from
// being read back by the hand-written parser, by removing them and trying again.
func explainLegacy(mk func(fill, alias bool) (influxql.Node, func(string) (influxql.Node, error))) string {
	if mk == nil {
		return ""
	}
	for _, v := range []struct {
		name        string
		fill, alias bool
	}{{"fill-clause", true, false}, {"source-alias", false, true}, {"fill-clause+source-alias", true, true}} {
		n, parse := mk(v.fill, v.alias)
		if n == nil {
			return ""
		}
		ok := false
		catchW(func() {
			got, err := parse(n.String())
			o := canonOpts{selectSyntax: true, stripParens: true}
			ok = err == nil && canon(n, o) == canon(got, o)
		})
		if ok {
			return v.name
		}
	}
	return ""
}

// ---- sort fields

func (r *reporter) roundTripSort(stage string, sf influxql.SortFields, tc textCase) {
	c := r.c
	tc.Stage = stage
	s := sf.String()
	var got influxql.SortFields
	var err error
	if p := catchW(func() { got, err = influxql.ParseSortFields(s) }); p != nil {
		r.violation("sort-roundtrip:ParseSortFields-panic", fmt.Sprintf("%s: ParseSortFields(%q) panicked: %v", stage, clip(s), p), tc)
		return
	}
	c.Count("roundtrips:"+stage, 1)
	if err != nil {
		r.violation("sort-roundtrip:reparse-error:"+normErr(err), fmt.Sprintf("%s: printed sort fields %q cannot be parsed by ParseSortFields: %v", stage, clip(s), err), tc)
		return
	}
	r.compareNodes("sort-roundtrip", stage, sf, got, canonOpts{}, s, tc, nil)
}

func (r *reporter) checkSortText(tc textCase, feats map[string]bool) {
	c := r.c
	c.Eval(1)
	c.Count("texts:sort", 1)
	c.LogInput(tc)
	var sf influxql.SortFields
	var err error
	if p := catchW(func() { sf, err = influxql.ParseSortFields(tc.Text) }); p != nil {
		r.violation("sort-roundtrip:ParseSortFields-panic", fmt.Sprintf("ParseSortFields(%q) panicked: %v", clip(tc.Text), p), tc)
		return
	}
	if err != nil || len(sf) == 0 {
		c.Count("rejected-by-ParseSortFields", 1)
	} else {
		c.Nontrivial("sort:" + tc.Text)
		r.roundTripSort("ParseSortFields", sf, tc)
	}
	st, err := yaccSelect("SELECT f FROM m ORDER BY "+tc.Text, nil)
	if err != nil || len(st.SortFields) == 0 {
		c.Count("rejected-by-yacc:sort", 1)
		return
	}
	r.noteFeatures("yacc", feats)
	r.roundTripSort("yacc-sort", st.SortFields, tc)
}

// ---- whole SELECT statements

func (r *reporter) roundTripStmt(stage string, st influxql.Statement, base canonOpts, tc textCase, mk ...func(fill, alias bool) (influxql.Node, func(string) (influxql.Node, error))) {
	c := r.c
	tc.Stage = stage
	var s string
	if p := catchW(func() { s = st.String() }); p != nil {
		r.violation("stmt-roundtrip:String-panic", fmt.Sprintf("%s: String() panicked: %v", stage, p), tc)
		return
	}
	var got influxql.Statement
	var err error
	if p := catchW(func() { got, err = influxql.ParseStatement(s) }); p != nil {
		r.violation("stmt-roundtrip:ParseStatement-panic", fmt.Sprintf("%s: ParseStatement(%q) panicked: %v", stage, clip(s), p), tc)
		return
	}
	c.Count("roundtrips:"+stage, 1)
	if err == nil && classify(st, got, base).Equal {
		c.Count("equal:"+stage, 1)
		return
	}
	if len(mk) > 0 {
		if why := explainLegacy(mk[0]); why != "" {
			for _, w := range strings.Split(why, "+") {
				r.violation("subquery-text:not-read-back:"+w,
					fmt.Sprintf("%s: statement printed as %q is not read back by ParseStatement (err=%v); it is once the %s is removed", stage, clip(s), err, w), tc)
			}
			return
		}
	}
	if err != nil {
		r.violation("stmt-roundtrip:reparse-error:"+normErr(err),
			fmt.Sprintf("%s: printed statement %q cannot be parsed by ParseStatement: %v", stage, clip(s), err), tc)
		return
	}
	r.compareNodes("stmt-roundtrip", stage, st, got, base, s, tc, nil)
}

func (r *reporter) checkStmtText(tc textCase, feats map[string]bool) {
	c := r.c
	c.Eval(1)
	c.Count("texts:stmt", 1)
	c.LogInput(tc)
	var st influxql.Statement
	var err error
	if p := catchW(func() { st, err = influxql.ParseStatement(tc.Text) }); p != nil {
		r.violation("stmt-roundtrip:ParseStatement-panic", fmt.Sprintf("ParseStatement(%q) panicked: %v", clip(tc.Text), p), tc)
		return
	}
	if err != nil || st == nil {
		c.Count("rejected-by-ParseStatement", 1)
	} else {
		r.noteFeatures("ParseStatement", feats)
		c.Nontrivial("stmt:" + tc.Text)
		r.roundTripStmt("ParseStatement", st, canonOpts{}, tc)
	}
	yst, err := yaccSelect(tc.Text, decodeParams(tc.Params))
	if err != nil {
		c.Count("rejected-by-yacc:stmt", 1)
		return
	}
	r.noteFeatures("yacc", feats)
	c.Nontrivial("stmt:" + tc.Text)
	r.roundTripStmt("yacc-stmt", yst, canonOpts{selectSyntax: true}, tc, func(fill, alias bool) (influxql.Node, func(string) (influxql.Node, error)) {
		st, err := yaccSelect(tc.Text, decodeParams(tc.Params))
		if err != nil {
			return nil, nil
		}
		stripSelect(st, fill, alias)
		return st, func(s string) (influxql.Node, error) { return influxql.ParseStatement(s) }
	})
}

func (r *reporter) noteFeatures(parser string, feats map[string]bool) {
	for f := range feats {
		r.c.Distinct("features-accepted-by-"+parser, f)
		if requiredSet[f] {
			r.c.Distinct("reached:"+f, "y")
		}
	}
}

var requiredSet = func() map[string]bool {
	m := map[string]bool{}
	for _, f := range requiredFeatures {
		m[f] = true
	}
	return m
}()

func shipCondition(e influxql.Expr) (got influxql.Expr, err error) {
	if p := catchW(func() {
		opt := query.ProcessorOptions{Condition: e}
		var buf []byte
		if buf, err = opt.MarshalBinary(); err != nil {
			return
		}
		var o query.ProcessorOptions
		if err = o.UnmarshalBinary(buf); err == nil {
			got = o.Condition
		}
	}); p != nil {
		return nil, fmt.Errorf("panic: %v", p)
	}
	return got, err
}

func shipField(e influxql.Expr) (got influxql.Expr, err error) {
	if p := catchW(func() {
		pb := query.EncodeQuerySchema(&stubCatalog{fields: influxql.Fields{&influxql.Field{Expr: e}}, names: []string{"x"}})
		var fs influxql.Fields
		if fs, err = hybridqp.ParseFields(pb.QueryFields); err == nil && len(fs) == 1 {
			got = fs[0].Expr
		}
	}); p != nil {
		return nil, fmt.Errorf("panic: %v", p)
	}
	return got, err
}

// specialClass names two rare, individually triaged reasons for a text that the receiving
// parser rejects:
//   - constant folding overflowed (307ns * 9223372036854775807.0) and left a DurationLiteral
//     of MinInt64; it prints as -9223372036854775808ns, whose magnitude ParseDuration cannot hold;
//   - a regular expression holding a raw line break (the yacc scanner accepts one inside
//     /.../, e.g. when it mistakes "\\/" for an escaped slash and reads on to the next '/');
//     ScanRegex on the receiving side refuses "delimited text contains new line".
func specialClass(e influxql.Expr, err error) string {
	if err == nil || e == nil {
		return ""
	}
	cs := "+" + strings.Join(causes(e), "+") + "+"
	switch {
	case strings.Contains(err.Error(), "invalid duration") && strings.Contains(cs, "+duration-minint64+"):
		return "duration-literal-minint64-unparseable"
	case strings.Contains(err.Error(), "bad regex") && strings.Contains(cs, "+regex-with-newline+"):
		return "regex-literal-with-newline-unparseable"
	}
	return ""
}
