package main

// Phase "cluster-vs-single", part 1: the dataset loaded identically into the single-node
// ts-server and into the real cluster (3 ts-meta, 3 ts-store, 1 ts-sql).
//
// Three measurements (one of them with a name that needs quotes), 12..40 series over two
// tag keys (one tag key and several tag values need quotes / escapes), typed fields
// int / float / bool / string with nulls (one field name needs quotes), 100..200
// timestamps that straddle an hour boundary (SHARD DURATION 1h: two shard groups, each
// with one shard per partition).
//
//   - floats are k/8: every partial sum is exact in any order of addition (DESIGN 4.2);
//   - measurement 0 is the "unique" measurement: no two rows of it share a timestamp and
//     its field ff holds every value at most once, so first/last/min/max over any set of
//     its series have exactly one admissible answer;
//   - the other measurements share timestamps across series and have small value ranges
//     (ties are frequent); the statement generator knows which selectors are ambiguous
//     there (cvs_query.go).

import (
	"fmt"
	"math/rand/v2"
	"sort"
	"strconv"
	"strings"
)

const cvsSec = int64(1_000_000_000)

// cvsBaseTime + 2800 s is a whole hour (2023-11-14T23:00:00Z)
const cvsBaseTime = int64(1_700_000_000) * cvsSec

type cvsField struct {
	Name string
	Kind byte // i f b s
}

type cvsVal struct {
	Kind byte
	I    int64
	F    float64
	B    bool
	S    string
}

type cvsRow struct {
	Series int
	T      int64
	Vals   map[string]cvsVal
}

type cvsMst struct {
	Name       string
	Unique     bool // unique timestamps across series, unique ff values
	TagKeys    []string
	TagVals    map[string][]string // per tag key, the values in use
	Series     []map[string]string
	Fields     []cvsField
	Rows       []cvsRow
	TLo, THi   int64
	Times      []int64 // distinct base timestamps, ascending
	IntRange   map[string][2]int64
	FloatRange map[string][2]float64
	StrVals    []string
}

type cvsDataset struct {
	Index int
	Msts  []*cvsMst
}

func (m *cvsMst) field(name string) *cvsField {
	for i := range m.Fields {
		if m.Fields[i].Name == name {
			return &m.Fields[i]
		}
	}
	return nil
}

func (m *cvsMst) fieldsOf(kinds string) []string {
	var out []string
	for _, f := range m.Fields {
		if strings.IndexByte(kinds, f.Kind) >= 0 {
			out = append(out, f.Name)
		}
	}
	return out
}

var cvsStrPool = []string{"s0", "s1", "s2", "s3", "s4", "s5", "it's", "a b", `dq"x`, "héllo", `back\slash`, "k=v,w"}

// line-protocol escaping
var (
	lpMstEsc = strings.NewReplacer(`,`, `\,`, ` `, `\ `)
	lpTagEsc = strings.NewReplacer(`,`, `\,`, ` `, `\ `, `=`, `\=`)
	lpStrEsc = strings.NewReplacer(`\`, `\\`, `"`, `\"`)
)

func (v cvsVal) lp() string {
	switch v.Kind {
	case 'i':
		return strconv.FormatInt(v.I, 10) + "i"
	case 'f':
		return strconv.FormatFloat(v.F, 'f', -1, 64)
	case 'b':
		if v.B {
			return "true"
		}
		return "false"
	}
	return `"` + lpStrEsc.Replace(v.S) + `"`
}

// cell renders the value the way the JSON answer shows it (cvsCellText form).
func (v cvsVal) cell() string {
	switch v.Kind {
	case 'i':
		return strconv.FormatInt(v.I, 10)
	case 'f':
		return strconv.FormatFloat(v.F, 'f', -1, 64)
	case 'b':
		return strconv.FormatBool(v.B)
	}
	return strconv.Quote(v.S)
}

func (m *cvsMst) lpLine(r cvsRow) string {
	var b strings.Builder
	b.WriteString(lpMstEsc.Replace(m.Name))
	tags := m.Series[r.Series]
	ks := make([]string, 0, len(tags))
	for k := range tags {
		ks = append(ks, k)
	}
	sort.Strings(ks)
	for _, k := range ks {
		b.WriteByte(',')
		b.WriteString(lpTagEsc.Replace(k))
		b.WriteByte('=')
		b.WriteString(lpTagEsc.Replace(tags[k]))
	}
	b.WriteByte(' ')
	fs := make([]string, 0, len(r.Vals))
	for k := range r.Vals {
		fs = append(fs, k)
	}
	sort.Strings(fs)
	for i, k := range fs {
		if i > 0 {
			b.WriteByte(',')
		}
		b.WriteString(lpTagEsc.Replace(k))
		b.WriteByte('=')
		b.WriteString(r.Vals[k].lp())
	}
	b.WriteByte(' ')
	b.WriteString(strconv.FormatInt(r.T, 10))
	return b.String()
}

// cvsGenDataset derives the dataset from the PCG stream only.
func cvsGenDataset(r *rand.Rand, idx int) *cvsDataset {
	d := &cvsDataset{Index: idx}
	hosts := []string{"a", "b", "c", "d", "e", "f", "it's", "x y", "é1"}
	regions := []string{"x", "y", "w/z"}
	nt := 100 + r.IntN(101)
	// base timestamps: start 100..250 s before the hour, irregular steps
	start := cvsBaseTime + (2800-100-int64(r.IntN(150)))*cvsSec
	var times []int64
	t := start
	for len(times) < nt {
		times = append(times, t)
		switch x := r.IntN(100); {
		case x < 50:
			t += cvsSec
		case x < 70:
			t += 2 * cvsSec
		case x < 80:
			t += 250_000_000 * int64(1+r.IntN(3))
		case x < 93:
			t += int64(3+r.IntN(6)) * cvsSec
		default:
			t += int64(12+r.IntN(20)) * cvsSec
		}
	}
	type spec struct {
		name            string
		unique          bool
		tagKeys         []string
		nHosts, nRegion int
		fields          []cvsField
		density, nullp  float64
		ntimes          int
	}
	specs := []spec{
		{"m0", true, []string{"host", "region"}, 6 + r.IntN(4), 2 + r.IntN(2),
			[]cvsField{{"fi", 'i'}, {"ff", 'f'}, {"fb", 'b'}, {"fs", 's'}, {"f g", 'f'}}, 0.5, 0.25, nt},
		{"my mst", false, []string{"host", "region"}, 4 + r.IntN(3), 2,
			[]cvsField{{"fi", 'i'}, {"ff", 'f'}, {"fb", 'b'}, {"fs", 's'}}, 0.3, 0.5, nt},
		{"m2", false, []string{"host", "d-c"}, 3 + r.IntN(3), 2,
			[]cvsField{{"fi", 'i'}, {"ff", 'f'}, {"gi", 'i'}, {"fs", 's'}}, 0.6, 0.3, nt * 2 / 3},
	}
	for mi, sp := range specs {
		m := &cvsMst{Name: sp.name, Unique: sp.unique, TagKeys: sp.tagKeys, Fields: sp.fields,
			TagVals: map[string][]string{}, IntRange: map[string][2]int64{}, FloatRange: map[string][2]float64{}}
		// hosts: a rotating window of the pool so that the special values are used
		off := r.IntN(len(hosts))
		for h := 0; h < sp.nHosts; h++ {
			for g := 0; g < sp.nRegion; g++ {
				hv, gv := hosts[(off+h)%len(hosts)], regions[(g+mi)%len(regions)]
				m.Series = append(m.Series, map[string]string{sp.tagKeys[0]: hv, sp.tagKeys[1]: gv})
			}
		}
		for _, se := range m.Series {
			for _, k := range sp.tagKeys {
				found := false
				for _, v := range m.TagVals[k] {
					found = found || v == se[k]
				}
				if !found {
					m.TagVals[k] = append(m.TagVals[k], se[k])
				}
			}
		}
		m.Times = times[:sp.ntimes]
		m.StrVals = cvsStrPool
		// unique ff values for the unique measurement: a shuffled arithmetic progression of eighths
		var uniq []float64
		if sp.unique {
			n := len(m.Series) * len(m.Times)
			uniq = make([]float64, n)
			for i := range uniq {
				uniq[i] = float64(i-n/2) / 8
			}
			r.Shuffle(n, func(a, b int) { uniq[a], uniq[b] = uniq[b], uniq[a] })
		}
		for si := range m.Series {
			noFF := !sp.unique && si == len(m.Series)-1 // a whole-column null in one series
			for ti, bt := range m.Times {
				edge := ti == 0 || ti == len(m.Times)-1
				if !(edge && si%4 != 3) && r.Float64() >= sp.density {
					continue
				}
				ts := bt
				if sp.unique {
					ts += int64(si) * 1_000_003
				}
				row := cvsRow{Series: si, T: ts, Vals: map[string]cvsVal{}}
				for _, f := range sp.fields {
					if noFF && f.Name == "ff" {
						continue
					}
					if r.Float64() < sp.nullp {
						continue
					}
					var v cvsVal
					switch f.Kind {
					case 'i':
						if f.Name == "gi" {
							v = cvsVal{Kind: 'i', I: int64(r.IntN(2001)-1000) * 3_000_000_007}
						} else {
							v = cvsVal{Kind: 'i', I: int64(r.IntN(41) - 20)}
						}
					case 'f':
						if sp.unique && f.Name == "ff" {
							v = cvsVal{Kind: 'f', F: uniq[si*len(m.Times)+ti]}
						} else {
							v = cvsVal{Kind: 'f', F: float64(r.IntN(161)-80) / 8}
						}
					case 'b':
						v = cvsVal{Kind: 'b', B: r.IntN(2) == 0}
					default:
						v = cvsVal{Kind: 's', S: cvsStrPool[r.IntN(len(cvsStrPool))]}
					}
					row.Vals[f.Name] = v
				}
				if len(row.Vals) == 0 {
					row.Vals["fi"] = cvsVal{Kind: 'i', I: int64(r.IntN(41) - 20)}
				}
				m.Rows = append(m.Rows, row)
			}
		}
		m.TLo, m.THi = m.Rows[0].T, m.Rows[0].T
		for _, row := range m.Rows {
			if row.T < m.TLo {
				m.TLo = row.T
			}
			if row.T > m.THi {
				m.THi = row.T
			}
			for n, v := range row.Vals {
				switch v.Kind {
				case 'i':
					rg, ok := m.IntRange[n]
					if !ok || v.I < rg[0] {
						rg[0] = v.I
					}
					if !ok || v.I > rg[1] {
						rg[1] = v.I
					}
					m.IntRange[n] = rg
				case 'f':
					rg, ok := m.FloatRange[n]
					if !ok || v.F < rg[0] {
						rg[0] = v.F
					}
					if !ok || v.F > rg[1] {
						rg[1] = v.F
					}
					m.FloatRange[n] = rg
				}
			}
		}
		d.Msts = append(d.Msts, m)
	}
	return d
}

// cvsBatches: the rows of all measurements in a shuffled arrival order, cut into two
// parts (every series has a row in the first part, so a flush between the parts puts
// every series into files), each part cut into requests of at most n lines.
func (d *cvsDataset) cvsParts(r *rand.Rand, n int) [2][]string {
	var first, rest []string
	for _, m := range d.Msts {
		seen := map[int]bool{}
		idx := r.Perm(len(m.Rows))
		for _, i := range idx {
			row := m.Rows[i]
			ln := m.lpLine(row)
			if !seen[row.Series] || r.IntN(2) == 0 {
				seen[row.Series] = true
				first = append(first, ln)
			} else {
				rest = append(rest, ln)
			}
		}
	}
	r.Shuffle(len(first), func(a, b int) { first[a], first[b] = first[b], first[a] })
	r.Shuffle(len(rest), func(a, b int) { rest[a], rest[b] = rest[b], rest[a] })
	var out [2][]string
	for pi, lines := range [2][]string{first, rest} {
		for len(lines) > 0 {
			k := n
			if k > len(lines) {
				k = len(lines)
			}
			out[pi] = append(out[pi], strings.Join(lines[:k], "\n")+"\n")
			lines = lines[k:]
		}
	}
	return out
}

func (d *cvsDataset) describe() map[string]any {
	out := map[string]any{"index": d.Index}
	for _, m := range d.Msts {
		out[m.Name] = fmt.Sprintf("%d series, %d rows, %d base timestamps, unique=%v", len(m.Series), len(m.Rows), len(m.Times), m.Unique)
	}
	return out
}

func cvsSeriesKey(tags map[string]string) string {
	ks := make([]string, 0, len(tags))
	for k := range tags {
		ks = append(ks, k)
	}
	sort.Strings(ks)
	var b strings.Builder
	for i, k := range ks {
		if i > 0 {
			b.WriteByte(',')
		}
		b.WriteString(k)
		b.WriteByte('=')
		b.WriteString(tags[k])
	}
	return b.String()
}
