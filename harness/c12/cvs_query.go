package main

// Phase "cluster-vs-single", part 2: the statement generator. WHERE clauses and field
// expressions come from the expression generator of part (a) in schema mode
// (gen.go / gen_schema.go); this file adds the clause structure: plain selections,
// aggregates, GROUP BY tags / time(d) with the fill variants, ORDER BY time DESC,
// LIMIT / OFFSET, arithmetic in the field list, string functions, selectors with
// auxiliary columns, several sources, sub-queries.
//
// Where the language leaves a choice (DESIGN 4.2) the generator does not ask:
//   - first()/last() over several series are generated only when no two rows in the
//     group can share a timestamp (the "unique" measurement, or GROUP BY all tag keys);
//   - LIMIT/OFFSET on a plain selection likewise (which of the rows with equal time
//     falls under the cut is open);
//   - a bare min()/max() reports the time of "the" extreme row; unless the values of the
//     field are unique (field ff of the unique measurement) the time column is masked.

import (
	"encoding/json"
	"fmt"
	"math/rand/v2"
	"os/exec"
	"sort"
	"strconv"
	"strings"
	"time"
)

type cvsStmt struct {
	Index    int    `json:"index"`
	Text     string `json:"text"`
	Params   string `json:"params,omitempty"` // bound parameters (JSON object)
	Inner    int    `json:"inner_chunk_size,omitempty"`
	Mst      string `json:"measurement"`
	Kind     string `json:"kind"`  // raw agg selector-aux subquery strfunc multi-source distinct
	Where    string `json:"where"` // operator classes of the WHERE clause
	Agg      string `json:"agg"`
	Group    string `json:"group"`
	Order    string `json:"order,omitempty"`
	Limit    string `json:"limit,omitempty"`
	Fill     string `json:"fill,omitempty"`
	FieldOps string `json:"field_ops,omitempty"` // operator classes of the field list
	MaskTime bool   `json:"mask_time,omitempty"`
	// the WHERE clause reads a field and the statement aggregates: all-null rows are noise (see cvsRunOne)
	FieldFilterAgg bool  `json:"field_filter_on_aggregate,omitempty"`
	Tol            []int `json:"tolerance_ulps,omitempty"` // per output column after time (nil: exact); a single element applies to all
	feats          map[string]bool
}

func (st *cvsStmt) shape() string {
	s := st.Kind
	if st.Agg != "" {
		s += "|agg:" + st.Agg
	}
	s += "|group:" + st.Group
	if st.Fill != "" {
		s += "|fill:" + st.Fill
	}
	if st.Order != "" {
		s += "|order:" + st.Order
	}
	if st.Limit != "" {
		s += "|" + st.Limit
	}
	w := "none"
	if st.Where != "" {
		w = "yes"
	}
	return s + "|where:" + w
}

func (st *cvsStmt) signature(diff string) string {
	w := st.Where
	if w == "" {
		w = "none"
	}
	agg := st.Agg
	if agg == "" {
		agg = "none"
	}
	sig := "cluster-vs-single|" + st.Kind + "|where:" + w + "|agg:" + agg + "|group:" + st.Group
	if st.Fill != "" {
		sig += "|fill:" + st.Fill
	}
	if st.Order != "" {
		sig += "|order:" + st.Order
	}
	if st.Limit != "" {
		sig += "|" + st.Limit
	}
	if st.FieldOps != "" {
		sig += "|fields:" + st.FieldOps
	}
	return sig + "|diff:" + diff
}

func (st *cvsStmt) tol(col int) int {
	switch {
	case len(st.Tol) == 0:
		return 0
	case len(st.Tol) == 1:
		return st.Tol[0]
	case col-1 >= 0 && col-1 < len(st.Tol):
		return st.Tol[col-1]
	}
	return 0
}

// cvsClasses lists the operator classes a generator recorded (prefix "w:") plus the
// connectives, sorted.
func cvsClasses(feat map[string]bool) string {
	var out []string
	for k := range feat {
		if strings.HasPrefix(k, "w:") {
			out = append(out, k[2:])
		}
	}
	if feat["op:AND"] {
		out = append(out, "and")
	}
	if feat["op:OR"] {
		out = append(out, "or")
	}
	if feat["parens:needed"] || feat["parens:redundant"] || feat["parens:double"] || feat["parens:around-comparison"] || feat["parens:around-atom"] {
		out = append(out, "parens")
	}
	sort.Strings(out)
	return strings.Join(out, "+")
}

func cvsSchema(m *cvsMst) *genSchema {
	return &genSchema{
		tagKeys: m.TagKeys, tagVals: m.TagVals,
		ints: m.fieldsOf("i"), floats: m.fieldsOf("f"), bools: m.fieldsOf("b"), strs: m.fieldsOf("s"),
		intRange: m.IntRange, floatRange: m.FloatRange, strVals: m.StrVals,
		tlo: m.TLo, thi: m.THi, times: m.Times,
	}
}

func cvsRFC3339(t int64) string {
	return time.Unix(0, t).UTC().Format(time.RFC3339Nano)
}

var cvsIntervals = []string{"1s", "2s", "5s", "7s", "10s", "30s", "1m", "60s", "1500ms", "90s", "1m30s", "2m", "5m", "250ms", "3000000u"}

type cvsBuilder struct {
	g  *gen // field list / outer clauses
	gw *gen // WHERE clause
	m  *cvsMst
	st *cvsStmt
	r  *rand.Rand
}

// where renders the WHERE clause: optional explicit time bounds AND-ed at the top (the
// only place the language allows them beside other conditions) and a generated condition.
func (b *cvsBuilder) where(needBounds bool, pCond float64) string {
	g := b.gw
	g.sch.where = true
	var parts []string
	if needBounds || g.p(0.35) {
		lo := b.m.TLo - int64(g.r.IntN(30))*cvsSec
		hi := b.m.THi + int64(1+g.r.IntN(30))*cvsSec
		if g.p(0.5) {
			// a window inside the data
			a, c := b.m.Times[g.r.IntN(len(b.m.Times))], b.m.Times[g.r.IntN(len(b.m.Times))]
			if a > c {
				a, c = c, a
			}
			if c-a < 20*cvsSec {
				c = a + 60*cvsSec
			}
			lo, hi = a, c
		}
		g.w("time")
		parts = append(parts, "time "+g.pick(">=", ">")+" "+g.sTimeLit(lo), "time "+g.pick("<", "<=")+" "+g.sTimeLit(hi))
		g.sch.noTime = true
	}
	if g.p(pCond) {
		c := g.cond(g.r.IntN(4))
		s := c.s
		if len(parts) > 0 && (c.prec < precCmp || g.p(0.2)) {
			s = "(" + s + ")"
		}
		if len(parts) > 0 && g.p(0.3) {
			parts = append([]string{s}, parts...)
		} else {
			parts = append(parts, s)
		}
	}
	b.st.Where = cvsClasses(g.feat)
	if len(parts) == 0 {
		return ""
	}
	return " " + g.kw("WHERE") + " " + strings.Join(parts, " "+g.kw("AND")+" ")
}

// groupTags chooses the tag grouping; all reports whether every tag key is a dimension.
func (b *cvsBuilder) groupTags(pNone int) (dims []string, label string, all bool) {
	g := b.g
	switch x := g.r.IntN(100); {
	case x < pNone:
		return nil, "none", false
	case x < pNone+(100-pNone)*3/10:
		return []string{g.qid(b.m.TagKeys[0])}, "tag", false
	case x < pNone+(100-pNone)*5/10:
		return []string{g.qid(b.m.TagKeys[1])}, "tag", false
	case x < pNone+(100-pNone)*7/10:
		return []string{g.qid(b.m.TagKeys[1]), g.qid(b.m.TagKeys[0])}, "all-tags", true
	default:
		return []string{"*"}, "*", true
	}
}

func (b *cvsBuilder) orderLimit(allowLimit bool) string {
	g := b.g
	var s string
	if g.p(0.3) {
		b.st.Order = "desc"
		s += " " + g.kw("ORDER") + " " + g.kw("BY") + " time " + g.pick("DESC", "desc")
	} else if g.p(0.08) {
		s += " " + g.kw("ORDER") + " " + g.kw("BY") + " time " + g.pick("ASC", "asc")
	}
	if allowLimit && g.p(0.3) {
		b.st.Limit = "limit"
		s += " " + g.kw("LIMIT") + " " + strconv.Itoa(1+g.r.IntN(40))
		if g.p(0.4) {
			b.st.Limit = "limit+offset"
			s += " " + g.kw("OFFSET") + " " + strconv.Itoa(1+g.r.IntN(12))
		}
	} else if allowLimit && g.p(0.05) {
		b.st.Limit = "offset"
		s += " " + g.kw("OFFSET") + " " + strconv.Itoa(1+g.r.IntN(12))
	}
	return s
}

func (b *cvsBuilder) from() string {
	return " " + b.g.kw("FROM") + " " + b.g.qid(b.m.Name)
}

func (b *cvsBuilder) alias() string {
	if b.g.p(0.25) {
		b.g.f("field:alias")
		return " " + b.g.kw("AS") + " " + b.g.pick("x", "alias1", `"an alias"`, `"select"`, `"a\"q"`)
	}
	return ""
}

func (b *cvsBuilder) raw() {
	g, m, st := b.g, b.m, b.st
	st.Kind = "raw"
	var cols []string
	switch x := g.r.IntN(100); {
	case x < 10:
		cols = []string{"*"}
		g.f("field:wildcard")
	case x < 55:
		n := 1 + g.r.IntN(3)
		for i := 0; i < n; i++ {
			cols = append(cols, g.qid(m.Fields[g.r.IntN(len(m.Fields))].Name)+b.alias())
		}
		if g.p(0.2) {
			cols = append(cols, g.qid(m.TagKeys[g.r.IntN(2)]))
		}
	default:
		n := 1 + g.r.IntN(3)
		for i := 0; i < n; i++ {
			cols = append(cols, g.sArith(1+g.r.IntN(3)).s+b.alias())
		}
		// "field must contain at least one variable": a list of constants is refused
		hasRef := false
		for _, f := range m.fieldsOf("if") {
			hasRef = hasRef || strings.Contains(strings.Join(cols, ","), f)
		}
		if !hasRef {
			cols = append(cols, g.qid(m.fieldsOf("if")[0]))
		}
	}
	st.FieldOps = cvsClasses(g.feat)
	dims, label, all := b.groupTags(50)
	st.Group = label
	text := g.kw("SELECT") + " " + strings.Join(cols, g.pick(", ", ",")) + b.from() + b.where(false, 0.8)
	if len(dims) > 0 {
		text += " " + g.kw("GROUP") + " " + g.kw("BY") + " " + strings.Join(dims, ", ")
	}
	text += b.orderLimit(m.Unique || all)
	st.Text = text
}

type cvsCall struct {
	text     string
	fn       string
	field    string
	selector bool
}

// call: one aggregate call on a type-compatible field. sel: first/last allowed.
func (b *cvsBuilder) call(sel bool) cvsCall {
	g, m := b.g, b.m
	fns := []string{"count", "sum", "mean", "min", "max", "count", "sum", "mean", "min", "max", "spread", "median"}
	if sel {
		fns = append(fns, "first", "last", "first", "last")
	}
	fn := fns[g.r.IntN(len(fns))]
	var f string
	switch fn {
	case "count", "first", "last":
		f = m.Fields[g.r.IntN(len(m.Fields))].Name
	default:
		num := m.fieldsOf("if")
		f = num[g.r.IntN(len(num))]
	}
	name := fn
	if g.p(0.1) {
		name = strings.ToUpper(fn)
		g.f("call:uppercase-name")
	}
	g.f("call:arity1")
	return cvsCall{text: name + "(" + g.qid(f) + ")", fn: fn, field: f, selector: fn == "first" || fn == "last" || fn == "min" || fn == "max"}
}

func (b *cvsBuilder) agg() {
	g, m, st := b.g, b.m, b.st
	st.Kind = "agg"
	dims, label, all := b.groupTags(40)
	st.Group = label
	sel := m.Unique || all
	byTime := g.p(0.5)
	n := 1
	if g.p(0.4) {
		n = 2 + g.r.IntN(2)
	}
	var cols []string
	var fns []string
	var calls []cvsCall
	for i := 0; i < n; i++ {
		c := b.call(sel)
		calls = append(calls, c)
		fns = append(fns, c.fn)
		text := c.text
		tol := 0
		if c.fn == "mean" {
			tol = 1
		}
		if g.p(0.25) && c.fn != "first" && c.fn != "last" || (c.fn == "first" || c.fn == "last") && m.field(c.field).Kind != 's' && m.field(c.field).Kind != 'b' && g.p(0.15) {
			// arithmetic on aggregates: sum(ff)*2.0, max(fi) - min(fi), mean(ff) + 1.5
			g.w("agg-arith")
			op := g.pick("+", "-", "*", "/")
			g.f("op:" + op)
			var rhs string
			switch g.r.IntN(3) {
			case 0:
				c2 := b.call(false)
				if c2.fn == "median" || c2.fn == "spread" {
					c2 = cvsCall{text: "count(" + g.qid(c2.field) + ")", fn: "count", field: c2.field}
				}
				fns = append(fns, c2.fn)
				rhs = c2.text
				if c2.fn == "mean" {
					tol = 1
				}
			case 1:
				rhs = g.sFloatLit("")
			default:
				rhs = g.sIntLit("")
			}
			text = text + g.sp() + op + g.sp() + rhs
			if tol > 0 {
				tol = 4
			}
			if op == "/" && tol == 0 {
				tol = 0 // one division of exact operands on both systems: exact
			}
		}
		st.Tol = append(st.Tol, tol)
		cols = append(cols, text+b.alias())
	}
	st.FieldOps = cvsClasses(g.feat)
	sort.Strings(fns)
	st.Agg = strings.Join(cvsUniq(fns), "+")
	// a bare min()/max(): which of several rows with the extreme value lends its time is open
	if n == 1 && len(fns) == 1 && !byTime && (calls[0].fn == "min" || calls[0].fn == "max") && !(m.Unique && calls[0].field == "ff") {
		st.MaskTime = true
	}
	// the fill clause is chosen before the WHERE clause: a filter on a field makes all-null phantom
	// windows (see cvsExecute), which fill(previous|linear|<number>) turn into different VALUES from one
	// state of the executor to the next (C08-field-filter-aggregate-phantom-window: "fill(previous) around
	// such a window sometimes takes its null as the previous value"; seen here on the single node alone).
	// With those fills the condition therefore reads tags only.
	fillText := ""
	if byTime && g.p(0.7) {
		var f string
		switch g.r.IntN(9) {
		case 0:
			f, st.Fill = "null", "null"
		case 1, 2:
			f, st.Fill = "none", "none"
		case 3, 4:
			f, st.Fill = "previous", "previous"
		case 5:
			f, st.Fill = "linear", "linear"
		case 6:
			f, st.Fill = strconv.Itoa(g.r.IntN(100)), "int"
		case 7:
			f, st.Fill = "-"+strconv.Itoa(1+g.r.IntN(100)), "negative"
		default:
			if g.p(0.5) {
				f, st.Fill = strconv.Itoa(g.r.IntN(100))+".0", "integral-float"
			} else {
				f, st.Fill = strconv.FormatFloat(float64(g.r.IntN(1000))/8, 'f', -1, 64), "float"
			}
		}
		g.f("fill")
		fillText = " " + g.pick("fill", "FILL") + "(" + f + ")"
		if st.Fill != "null" && st.Fill != "none" {
			b.gw.sch.tagOnly = true
		}
	} else if byTime {
		st.Fill = "default"
	}
	text := g.kw("SELECT") + " " + strings.Join(cols, g.pick(", ", ",")) + b.from() + b.where(byTime, 0.7)
	if byTime {
		iv := g.pick(cvsIntervals...)
		g.f("groupby:time")
		td := "time(" + iv + ")"
		if g.p(0.12) {
			g.f("groupby:time-offset")
			td = "time(" + iv + ", " + g.pick("1s", "-1s", "500ms", "30s") + ")"
			st.Group += "+time-offset"
		} else {
			st.Group += "+time"
		}
		if g.p(0.5) {
			dims = append(dims, td)
		} else {
			dims = append([]string{td}, dims...)
		}
	}
	if len(dims) > 0 {
		text += " " + g.kw("GROUP") + " " + g.kw("BY") + " " + strings.Join(dims, ", ")
	}
	text += fillText
	text += b.orderLimit(byTime)
	st.Text = text
}

func cvsUniq(ss []string) []string {
	var out []string
	for i, s := range ss {
		if i == 0 || s != ss[i-1] {
			out = append(out, s)
		}
	}
	return out
}

// selectorAux: a selector with auxiliary columns, only where the selected row is unique.
func (b *cvsBuilder) selectorAux() {
	g, m, st := b.g, b.m, b.st
	st.Kind = "selector-aux"
	dims, label, all := b.groupTags(40)
	st.Group = label
	var fn, f string
	if m.Unique && g.p(0.5) {
		fn, f = g.pick("min", "max"), "ff"
	} else if m.Unique || all {
		fn, f = g.pick("first", "last"), m.Fields[g.r.IntN(len(m.Fields))].Name
	} else {
		// no unambiguous selector here: fall back to an aggregate statement
		b.agg()
		return
	}
	st.Agg = fn
	cols := []string{fn + "(" + g.qid(f) + ")"}
	for i, n := 0, 1+g.r.IntN(2); i < n; i++ {
		if g.p(0.3) {
			cols = append(cols, g.qid(m.TagKeys[g.r.IntN(2)]))
		} else {
			cols = append(cols, g.qid(m.Fields[g.r.IntN(len(m.Fields))].Name))
		}
	}
	text := g.kw("SELECT") + " " + strings.Join(cols, ", ") + b.from() + b.where(false, 0.7)
	if len(dims) > 0 {
		text += " " + g.kw("GROUP") + " " + g.kw("BY") + " " + strings.Join(dims, ", ")
	}
	st.Text = text
}

func (b *cvsBuilder) strfunc() {
	g, m, st := b.g, b.m, b.st
	st.Kind = "strfunc"
	fs := g.qid(m.fieldsOf("s")[0])
	var cols []string
	for i, n := 0, 1+g.r.IntN(3); i < n; i++ {
		switch g.r.IntN(3) {
		case 0:
			cols = append(cols, "str("+fs+", "+g.qstr(m.StrVals[g.r.IntN(len(m.StrVals))])+")")
			g.f("call:arity2")
		case 1:
			cols = append(cols, "strlen("+fs+")")
			g.f("call:arity1")
		default:
			if g.p(0.5) {
				cols = append(cols, "substr("+fs+", "+strconv.Itoa(g.r.IntN(3))+")")
				g.f("call:arity2")
			} else {
				cols = append(cols, "substr("+fs+", "+strconv.Itoa(g.r.IntN(3))+", "+strconv.Itoa(1+g.r.IntN(4))+")")
				g.f("call:arity3")
			}
		}
	}
	st.FieldOps = "string-call"
	dims, label, all := b.groupTags(60)
	st.Group = label
	text := g.kw("SELECT") + " " + strings.Join(cols, ", ") + b.from() + b.where(false, 0.7)
	if len(dims) > 0 {
		text += " " + g.kw("GROUP") + " " + g.kw("BY") + " " + strings.Join(dims, ", ")
	}
	text += b.orderLimit(m.Unique || all)
	st.Text = text
}

// multiSource: two sources or a regular-expression source (fields common to all: fi, ff, fs).
func (b *cvsBuilder) multiSource(d *cvsDataset) {
	g, st := b.g, b.st
	st.Kind = "multi-source"
	src := g.pick(`m0, m2`, `/m[02]/`, `"my mst", m2`, `/^m/`, `m2, m0`)
	g.f("source:multiple")
	st.Group = "none"
	b.gw.sch.bools, b.g.sch.bools = nil, nil
	b.gw.sch.floats, b.g.sch.floats = []string{"ff"}, []string{"ff"}
	b.gw.sch.ints, b.g.sch.ints = []string{"fi"}, []string{"fi"}
	b.gw.sch.tagKeys, b.g.sch.tagKeys = []string{"host"}, []string{"host"}
	if g.p(0.5) {
		c := b.call(false)
		st.Agg = c.fn
		if c.fn == "mean" {
			st.Tol = []int{1}
		}
		if c.fn == "min" || c.fn == "max" {
			st.MaskTime = true
		}
		st.Text = "SELECT " + c.text + " FROM " + src + b.where(false, 0.7)
		if g.p(0.4) {
			st.Group = "tag"
			st.Text += " GROUP BY host"
		}
		return
	}
	st.Text = "SELECT " + g.pick("fi", "ff", "fi, ff", "fs, fi", "fi + ff") + " FROM " + src + b.where(false, 0.7)
	if g.p(0.4) {
		st.Group = "*"
		st.Text += " GROUP BY *"
	}
}

// subquery: the inner statement is shipped as part of the plan (sources of the outer one).
func (b *cvsBuilder) subquery() {
	g, m, st := b.g, b.m, b.st
	st.Kind = "subquery"
	num := m.fieldsOf("if")
	f1, f2 := g.qid(num[g.r.IntN(len(num))]), g.qid(num[g.r.IntN(len(num))])
	tag := g.qid(m.TagKeys[g.r.IntN(2)])
	exact := []string{"count", "sum", "min", "max"}
	switch g.r.IntN(4) {
	case 0:
		// aggregate of per-group aggregates
		in, out := g.pick(append(exact, "mean")...), g.pick(append(exact, "mean")...)
		st.Agg = "sub(" + in + ")>" + out
		if in == "mean" || out == "mean" {
			st.Tol = []int{4}
		}
		st.Group = "none"
		st.Text = "SELECT " + out + "(x) FROM (SELECT " + in + "(" + f1 + ") AS x" + b.from() + b.where(false, 0.6) + " GROUP BY " + tag + ")"
		st.MaskTime = out == "min" || out == "max"
	case 1:
		// aggregate over a filtered plain selection
		out := g.pick(append(exact, "mean")...)
		st.Agg = "sub(raw)>" + out
		if out == "mean" {
			st.Tol = []int{1}
		}
		st.Group = "none"
		st.Text = "SELECT " + out + "(" + f1 + ") FROM (SELECT " + f1 + ", " + f2 + b.from() + b.where(false, 0.9) + ")"
		if g.p(0.4) {
			st.Group = "tag"
			st.Text += " GROUP BY " + tag
		}
		st.MaskTime = out == "min" || out == "max"
	case 2:
		// arithmetic over an inner expression, filtered outside
		st.Agg = "sub(raw)>raw"
		st.Group = "none"
		inner := g.sArith(1 + g.r.IntN(2)).s
		st.Text = "SELECT x " + g.pick("*", "+", "-") + " " + g.pick("2", "2.0", "0.5", "3") + " FROM (SELECT " + inner + " AS x" + b.from() + b.where(false, 0.6) + ")"
		if g.p(0.5) {
			st.Text += " WHERE x " + g.pick(">", "<", ">=", "<=", "!=") + " " + g.pick("0", "1.5", "-2.0", "3", "2.0")
		}
		if m.Unique && g.p(0.4) {
			st.Limit = "limit"
			st.Text += " LIMIT " + strconv.Itoa(1+g.r.IntN(30))
		}
	default:
		// time-bucketed inner aggregate, aggregated again per tag
		in, out := g.pick(exact...), g.pick(append(exact, "mean")...)
		st.Agg = "sub(" + in + "+time)>" + out
		if out == "mean" {
			st.Tol = []int{4}
		}
		st.Group = "tag"
		iv := g.pick("10s", "30s", "1m")
		st.Text = "SELECT " + out + "(x) FROM (SELECT " + in + "(" + f1 + ") AS x" + b.from() + b.where(true, 0.5) + " GROUP BY time(" + iv + "), " + tag + " fill(none)) GROUP BY " + tag
		st.MaskTime = out == "min" || out == "max"
	}
	st.FieldOps = cvsClasses(g.feat)
}

// distinct values: all rows carry time 0, the canonical form orders them.
func (b *cvsBuilder) distinct() {
	g, m, st := b.g, b.m, b.st
	st.Kind = "distinct"
	// tag and time filters only: with a filter on a field, distinct() answers 'runtime panic: send on
	// closed channel', an empty result or a part of the values from one request to the next on the
	// single node alone (seen on this dataset, requests one at a time; an executor defect outside
	// this property, reported to C04/C08), so there is no single-node answer to compare with
	b.gw.sch.tagOnly = true
	f := m.fieldsOf("isb")
	st.Agg = "distinct"
	dims, label, _ := b.groupTags(50)
	st.Group = label
	fq := g.qid(f[g.r.IntN(len(f))])
	if g.p(0.3) {
		st.Agg = "count(distinct)"
		st.Text = "SELECT count(distinct(" + fq + "))" + b.from() + b.where(false, 0.6)
	} else {
		st.Text = "SELECT distinct(" + fq + ")" + b.from() + b.where(false, 0.6)
	}
	if len(dims) > 0 {
		st.Text += " GROUP BY " + strings.Join(dims, ", ")
	}
}

// cvsGenStmt derives statement i of dataset d from the PCG stream only.
func cvsGenStmt(r *rand.Rand, d *cvsDataset, i int) *cvsStmt {
	m := d.Msts[r.IntN(len(d.Msts))]
	if r.IntN(3) == 0 {
		m = d.Msts[0]
	}
	st := &cvsStmt{Index: i, Mst: m.Name}
	g, gw := newGen(r), newGen(r)
	g.sch, gw.sch = cvsSchema(m), cvsSchema(m)
	gw.params = g.params
	b := &cvsBuilder{g: g, gw: gw, m: m, st: st, r: r}
	switch x := r.IntN(100); {
	case x < 34:
		b.raw()
	case x < 74:
		b.agg()
	case x < 80:
		b.selectorAux()
	case x < 88:
		b.subquery()
	case x < 92:
		b.strfunc()
	case x < 96:
		b.multiSource(d)
	default:
		b.distinct()
	}
	if len(g.params) > 0 {
		st.Params = cvsBoundJSON(g.params)
	}
	// a small inner_chunk_size sends a plain selection through the RPC boundary in many small
	// chunks. Not on aggregates: GROUP BY time / fill / distinct with a chunk size below the rows of a
	// bucket is answered wrongly by the single node itself, differently from one state of its pools to
	// the next (C08-desc-fill-split-loses-bucket, C08-fill-previous-split-wrong-value,
	// C08-mixed-layout-small-inner-chunk; seen here as NaN errors, lost buckets and garbled distinct()
	// strings on either system)
	x := r.IntN(10)
	if st.Kind == "raw" || st.Kind == "strfunc" {
		switch {
		case x < 1:
			st.Inner = 1
		case x < 3:
			st.Inner = 3
		case x < 5:
			st.Inner = 7
		}
	}
	st.FieldFilterAgg = gw.feat["field-filter"] && st.Agg != ""
	st.feats = map[string]bool{}
	for k := range g.feat {
		st.feats[k] = true
	}
	for k := range gw.feat {
		st.feats[k] = true
	}
	return st
}

func cvsGoBuild(repo, out, name string) ([]byte, error) {
	cmd := exec.Command("go", "build", "-tags", "verif", "-o", out, "./app/"+name)
	cmd.Dir = repo
	return cmd.CombinedOutput()
}

// cvsWitness: everything needed to re-execute one statement (the dataset is regenerated
// from seed and index).
type cvsWitness struct {
	Kind    string         `json:"kind"` // "cluster-vs-single"
	Seed    uint64         `json:"seed"`
	Dataset int            `json:"dataset"`
	Layout  string         `json:"layout"`
	DB      string         `json:"db"`
	Stmt    *cvsStmt       `json:"statement"`
	Single  map[string]any `json:"single_answer,omitempty"`
	Cluster map[string]any `json:"cluster_answer,omitempty"`
	SErr    string         `json:"single_error,omitempty"`
	CErr    string         `json:"cluster_error,omitempty"`
	Diff    *cvsDiff       `json:"difference,omitempty"`
	Curl    string         `json:"curl,omitempty"`
}

func cvsParamsJSON(s string) map[string]any {
	if s == "" {
		return nil
	}
	var m map[string]any
	_ = json.Unmarshal([]byte(s), &m)
	return m
}

var _ = fmt.Sprint
