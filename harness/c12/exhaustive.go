package main

// Bounded-exhaustive part: every ordered pair of binary operators in the three
// groupings (no parentheses, left grouped, right grouped), with a unary minus on each
// operand position, as a field expression and inside a comparison; every pair and triple
// of AND/OR in every parenthesisation. Independent of the seed.

var arithOpsAll = []string{"+", "-", "*", "/", "%", "&", "|", "^"}
var cmpOpsAll = []string{"=", "!=", "<", "<=", ">", ">="}

func exhaustiveTexts() []textCase {
	var out []textCase
	add := func(kind, text string) { out = append(out, textCase{Kind: kind, Text: text}) }
	operands := [][3]string{{"a", "b", "c"}, {"-a", "b", "c"}, {"a", "-b", "c"}, {"a", "b", "-c"}, {"a", "2.0", "c"}, {"a", "b", "-(c)"}}
	for _, o1 := range arithOpsAll {
		for _, o2 := range arithOpsAll {
			for _, x := range operands {
				shapes := []string{
					x[0] + " " + o1 + " " + x[1] + " " + o2 + " " + x[2],
					"(" + x[0] + " " + o1 + " " + x[1] + ") " + o2 + " " + x[2],
					x[0] + " " + o1 + " (" + x[1] + " " + o2 + " " + x[2] + ")",
				}
				for _, s := range shapes {
					add("arith", s)
					add("cond", s+" > 1")
				}
			}
		}
	}
	// comparison operators around arithmetic on both sides
	for _, cmp := range cmpOpsAll {
		for _, o1 := range arithOpsAll {
			add("cond", "a "+o1+" b "+cmp+" c "+o1+" 2")
			add("cond", "(a "+o1+" b) "+cmp+" -c")
		}
	}
	// AND / OR in every grouping of two and three operators
	logic := []string{"AND", "OR"}
	leaf := []string{"a = 1", "b > 2.0", "c != 'x'", "d =~ /y/"}
	for _, o1 := range logic {
		for _, o2 := range logic {
			l := leaf
			add("cond", l[0]+" "+o1+" "+l[1]+" "+o2+" "+l[2])
			add("cond", "("+l[0]+" "+o1+" "+l[1]+") "+o2+" "+l[2])
			add("cond", l[0]+" "+o1+" ("+l[1]+" "+o2+" "+l[2]+")")
			for _, o3 := range logic {
				add("cond", l[0]+" "+o1+" "+l[1]+" "+o2+" "+l[2]+" "+o3+" "+l[3])
				add("cond", "("+l[0]+" "+o1+" "+l[1]+") "+o2+" ("+l[2]+" "+o3+" "+l[3]+")")
				add("cond", l[0]+" "+o1+" ("+l[1]+" "+o2+" "+l[2]+") "+o3+" "+l[3])
				add("cond", l[0]+" "+o1+" ("+l[1]+" "+o2+" ("+l[2]+" "+o3+" "+l[3]+"))")
				add("cond", "(("+l[0]+" "+o1+" "+l[1]+") "+o2+" "+l[2]+") "+o3+" "+l[3])
				add("cond", "("+l[0]+" "+o1+" "+l[1]+" "+o2+" "+l[2]+") "+o3+" "+l[3])
				add("cond", l[0]+" "+o1+" ("+l[1]+" "+o2+" "+l[2]+" "+o3+" "+l[3]+")")
			}
		}
	}
	return out
}
