package main

// Model of how a decoded message meets its bytes on the wire (lib/spdy):
//
//	MultiplexedConnection.readData:  data := conn.AllocData(n) (a pooled buffer), io.ReadFull(data)
//	client, BaseResponser.Apply:     response := derive.Decode(data[ProtocolHeaderSize:]); conn.FreeData(data); Callback(response)
//	server, Reactor:                 handler.WarpRequester(seq, data[ProtocolHeaderSize:]) (decodes the request); conn.FreeData(data); Handle(...)
//
// Decode is codec.Instance().Unmarshal(payload). The buffer goes back to the pool the
// moment Unmarshal returns and the reader fills it with the next frame, while the
// executor still holds the decoded object. So a decoded object must own every byte it
// keeps. recvBuf is a one-buffer pool (a freed buffer is the next one handed out - what
// dataBp's local cache does on a busy connection): deliver() copies a frame into the
// pooled buffer behind a protocol header, lets the real Unmarshal run on it and frees
// it; the next deliver() reuses the memory, overwrite() scribbles over all of it.
// Objects are compared with their originals only afterwards.

import (
	"github.com/openGemini/openGemini/lib/bufferpool"
	"github.com/openGemini/openGemini/lib/spdy"
)

type recvBuf struct{ b []byte }

func (p *recvBuf) deliver(frame []byte, decode func(payload []byte) error) error {
	data := bufferpool.Resize(p.b, spdy.ProtocolHeaderSize+len(frame)) // conn.AllocData
	for i := 0; i < spdy.ProtocolHeaderSize; i++ {
		data[i] = 0
	}
	copy(data[spdy.ProtocolHeaderSize:], frame)
	err := decode(data[spdy.ProtocolHeaderSize:])
	p.b = data[:0] // conn.FreeData
	return err
}

func (p *recvBuf) overwrite() {
	b := p.b[:cap(p.b)]
	for i := range b {
		b[i] = 0xA5
	}
}

// aliasSig is the signature of a difference that appears only after the receive buffer
// was reused.
func aliasSig(codec, what string) string {
	return codec + ":decoded-object-aliases-the-receive-buffer:" + what
}
